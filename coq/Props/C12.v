(* C12 — platform commands are matched with their own responses.

   Model: Model/Writer.v (one connection with its reader, writer, timers, the session manager's
   queue and the callers; a schedule is a list of choices, disabled choices are skipped, so
   `forall sched` is every interleaving of every number of calls, terminal messages, timer expiries
   and disconnects).  s0 is the value of the platform serial counter when the connection starts.

   no_reuse tr: no serial was handed out while a command, timer or timeout message still carried it
   (the counter would have to go once round, 65 536 frames, while one command is outstanding);
   C12_no_reuse_* show that the hypothesis holds on runs that wrap and fails only in that situation. *)
From Coq Require Import List NArith Bool Arith.
From JT.Base Require Import Sched.
From JT.Model Require Import Writer.
From JT.Proofs Require Import Writer_proofs Writer_trace.
Import ListNotations.
Open Scope N_scope.

(* Every frame handed to the socket (command or automatic reply) carries the next serial, mod 65536;
   frames less than 65536 apart carry different serials; a command is handed to the socket at most
   once, after its call was made. *)
Theorem C12_written_once_fresh_serial : forall s0 sched, s0 < 65536 ->
  let tr := trace step (init s0) sched in
  (forall j x, nth_error (serials tr) j = Some x -> x = (s0 + N.of_nat j) mod 65536) /\
  (forall j j' x x', (j < j')%nat -> N.of_nat j' < N.of_nat j + 65536 ->
     nth_error (serials tr) j = Some x -> nth_error (serials tr) j' = Some x' -> x <> x') /\
  (no_reuse tr ->
     NoDup (written tr) /\
     forall a k c ok b, tr = a ++ OWrite k c ok :: b -> In (OCall c) a /\ ~ In (c_id c) (written a)).
Proof.
  intros s0 sched Hs tr. split; [|split].
  - intros j x H. rewrite <- nth_serial_mod by auto. eapply serials_all; eauto.
  - intros j j' x x' H1 H2 Hx Hx'.
    rewrite (serials_all _ _ _ _ Hx), (serials_all _ _ _ _ Hx'). now apply nth_serial_fresh.
  - intros Hnr. split; [now apply written_once_all|].
    intros a k c ok b E. exact (justified_split _ _ _ _ (justified_all s0 sched Hnr) E).
Qed.
Print Assumptions C12_written_once_fresh_serial.

(* A call gets at most one result, only calls that were made get one, and in every quiescent state (no
   process of the server can move) every call has its result — except a command sent WITHOUT a timeout
   (OverTimeDuration < 0) that waits for its response on a live, idle connection. *)
Theorem C12_exactly_one_result : forall s0 sched,
  let s := final step (init s0) sched in let tr := trace step (init s0) sched in
  no_reuse tr ->
  NoDup (returned tr) /\
  (forall i, In i (returned tr) -> exists c, In (OCall c) tr /\ c_id c = i) /\
  (quiescent s -> forall c, In (OCall c) tr ->
     (exists r, In (OReturn (c_id c) r) tr) \/
     (exists k c', In (k, c') (rec s) /\ c_id c' = c_id c /\ c_tmo c' = false /\
                   stop_closed s = false /\ rd s = RRun /\ wr s = WsRun)).
Proof.
  intros s0 sched s tr Hnr. destruct (one_result_all s0 sched Hnr) as [H1 H2].
  split; [exact H1|]. split; [exact H2|].
  intros Q c Hc. destruct (quiescent_all s0 sched Hnr Q c Hc) as [H|H]; [left | right; exact H].
  now apply returned_in.
Qed.
Print Assumptions C12_exactly_one_result.

(* What a caller gets is its own:
   - a response m: the writer has just taken m from msgChan, the command of this very call was written
     before with serial k, and m echoes k (0x1003, which carries no serial: the call is a 0x9003 query);
   - a timeout: the command of this call was written with serial k, after that its own timer fired and
     no response echoing k was taken from msgChan in between;
   - a write failure: conn.Write of this call's command has just failed. *)
Theorem C12_own_response : forall s0 sched, let tr := trace step (init s0) sched in
  no_reuse tr ->
  forall a i r b, tr = a ++ OReturn i r :: b ->
    match r with
    | RResp m => exists k c a', c_id c = i /\ In (OWrite k c true) a /\ answers m k c = true /\
                                a = a' ++ [OSeen m]
    | RTimeout => exists k c a1 a2, c_id c = i /\ a = a1 ++ OWrite k c true :: a2 /\
                                    In (OFire i) a2 /\ noseen k a2
    | RWriteFail => exists k c a', c_id c = i /\ a = a' ++ [OWrite k c false]
    | RNoExist => True
    end.
Proof.
  intros s0 sched tr Hnr a i r b E.
  pose proof (justified_split _ _ _ _ (justified_all s0 sched Hnr) E) as H.
  destruct r; exact H.
Qed.
Print Assumptions C12_own_response.

(* Terminal traffic that is not a response is answered in between: the automatic replies are, in order,
   replies to the messages the terminal sent that want one (nothing invented, nothing answered twice or out
   of order); each reply is written in the step in which the writer took the message, which the terminal
   had sent; and in a quiescent state of a connection that is still up every such message has its reply. *)
Theorem C12_other_traffic_answered : forall s0 sched,
  let s := final step (init s0) sched in let tr := trace step (init s0) sched in
  (exists rest, replied_tags tr ++ rest = sent_tags tr) /\
  (quiescent s -> stop_closed s = false -> replied_tags tr = sent_tags tr) /\
  (no_reuse tr -> forall a k m ok b, tr = a ++ OReply k m ok :: b ->
     (exists a', a = a' ++ [OSeen m]) /\ In (OSent m) a).
Proof.
  intros s0 sched s tr. destruct (other_traffic_all s0 sched) as [H1 H2].
  split; [exact H1|]. split; [exact H2|].
  intros Hnr a k m ok b E. pose proof (justified_all s0 sched Hnr) as HJ.
  pose proof (justified_split _ _ _ _ HJ E) as [a' Ha]. split; [now exists a'|].
  subst a. rewrite <- app_assoc in E. simpl in E.
  pose proof (justified_split _ _ _ _ HJ E) as Hs. simpl in Hs.
  apply in_app_iff. now left.
Qed.
Print Assumptions C12_other_traffic_answered.

(* The hypothesis no_reuse holds on every run in which at most 65 536 frames (commands and automatic replies)
   were handed to the socket of this connection: a structural, decidable sufficient condition. *)
Theorem C12_no_reuse_when_few_frames : forall s0 sched, s0 < 65536 ->
  let tr := trace step (init s0) sched in
  N.of_nat (length (serials tr)) <= 65536 -> no_reuse tr.
Proof. exact no_reuse_if_few_frames. Qed.
Print Assumptions C12_no_reuse_when_few_frames.

(* ---- the hypotheses are satisfiable, also across the wrap of the serial counter ---- *)
Definition up : list choice := [PeerSend (TOther 7 true); RdRead; MgrStep JOk; RdPush; WMsg 0 true].

(* counter at 65535: reply 65535, commands 0 and 1; answered in the opposite order; both callers get their own *)
Example C12_wrap_run :
  trace step (init 65535)
    (up ++ [Call 33027 true; Call 33028 true; MgrStep JOk; MgrStep JOk; WAct true; WAct true;
            PeerSend (TResp 260 1); PeerSend (TResp 1 0); RdRead; RdPush; RdRead; RdPush;
            WMsg 0 true; WMsg 0 true; TQuit 0; TSend 0; TSend 1; WCpl; WCpl]) =
  [OSent (TOther 7 true); OSeen (TOther 7 true); OReply 65535 (TOther 7 true) true;
   OCall {| c_id := 0; c_cmd := 33027; c_tmo := true |}; OCall {| c_id := 1; c_cmd := 33028; c_tmo := true |};
   OWrite 0 {| c_id := 0; c_cmd := 33027; c_tmo := true |} true;
   OWrite 1 {| c_id := 1; c_cmd := 33028; c_tmo := true |} true;
   OSent (TResp 260 1); OSent (TResp 1 0);
   OSeen (TResp 260 1); OReturn 1 (RResp (TResp 260 1));
   OSeen (TResp 1 0); OReturn 0 (RResp (TResp 1 0));
   OFire 0; OFire 1].
Proof. vm_compute. reflexivity. Qed.

Example C12_no_reuse_holds_across_wrap :
  no_reuse (trace step (init 65535)
    (up ++ [Call 33027 true; Call 33028 true; MgrStep JOk; MgrStep JOk; WAct true; WAct true;
            PeerSend (TResp 260 1); PeerSend (TResp 1 0); RdRead; RdPush; RdRead; RdPush;
            WMsg 0 true; WMsg 0 true; TSend 0; TSend 1; WCpl; WCpl])).
Proof. vm_compute. intuition discriminate. Qed.

(* a quiescent state with everything answered *)
Example C12_quiescent_reachable :
  quiescent (final step (init 0) (up ++ [Call 33027 true; MgrStep JOk; WAct true; TSend 0; WCpl])).
Proof.
  intros c Hc. destruct c; try discriminate Hc; reflexivity.
Qed.

(* C09 — delivered messages are stable.
   Only statements here; every proof is `exact <lemma of Proofs/Mem_proofs.v>`.
   Model: Model/Mem.v on the heap of Base/GoSlice.v - the receive path of one connection at the
   level of Go slices: the reader's single read buffer (allocation 0, overwritten by every Read,
   zeroed by the deferred clear), historyData with Go's append rule (in place when the data fits
   the capacity; the capacity of a new array is an oracle input of every read, and a second oracle
   bit may force a reallocation), unescape's fast path (a sub-slice of its input) versus its fresh
   buffer, Decode making Body and the BCD phone sub-slices, newTerminalMessage keeping the
   caller's slice, completePack storing Body slices and concatenating them into a fresh array.
   A delivered message (dmsg) is a record of header VALUES and three SLICES (TerminalData, Body,
   BCD phone); what a holder reads at a later time is [content heap m] = the slices dereferenced in
   the heap of that time.  A history is a list of events [Read data force newcap | Close]; state_at
   evs j is the state after the first j events; delivered_at evs k m: event number k hands m to the
   reader loop (hence to handlers, callbacks and the writer).  The variant [cur] is the current
   code (fast path clones the read; a consumed history becomes nil); the two other variants are the
   code without the respective repair - the theorems are about [cur], the refutations show that
   the model still contains Go's aliasing and that each repair is necessary.
   Headers: d_hdr is a VALUE in Model/Mem.v.  The headers as MEMORY are Model/HdrMem.v (second part
   of this file): a heap of header cells and a heap of property words, a delivered message = the
   index of its header cell, the parser's and the writer's assignments to header fields = stores,
   and a variant that says which headers are shared (the shapes of fixes 4b6a3bd and a3fb0a0).  That
   nothing else assigns the listed fields is still checked on the sources by the harness
   (C09/header-field-assigned, fails closed: C09/header-scan-empty).
   All relative timings of "the reader receives the next data" and "a handler / the writer still
   holds the message" are the positions j >= k+1 at which the content is inspected; truly
   concurrent access to the same bytes is C18's subject. *)
From Coq Require Import Arith.
From JT.Base Require Import Prelude GoSlice.
From JT.Model Require Import Frame Mem MemAbs HdrMem.
From JT.Model Require Unpack Subpkg Reply.
From JT.Proofs Require Import Mem_proofs Mem_refine HdrMem_proofs.

(* the content of a delivered message - raw frame bytes, body bytes, BCD phone bytes - is the same
   in every later state as right after its delivery: for every history of reads (any bytes, any
   segmentation, valid or not), every answer of the reallocation oracle, closes included, and
   every buffer size (the code: 1023) *)
Theorem C09_stable : forall bufsz evs k m, delivered_at cur bufsz evs k m ->
  forall j, (S k <= j)%nat ->
  content (p_heap (state_at cur bufsz evs j)) m = content (p_heap (state_at cur bufsz evs (S k))) m.
Proof. exact stable. Qed.
Print Assumptions C09_stable.

Theorem C09_never_changes : forall bufsz evs, ~ changes cur bufsz evs.
Proof. exact never_changes. Qed.
Print Assumptions C09_never_changes.

(* and that content is the message's own: at every later time the phone bytes are the ones of its
   header; the raw frame decodes to its header (the reassembled message has no frame: its
   TerminalData is its body); the body of an unfragmented message is the decoded body *)
Theorem C09_content_is_own : forall bufsz evs k m, delivered_at cur bufsz evs k m ->
  forall j, (S k <= j)%nat ->
  let h := p_heap (state_at cur bufsz evs j) in
  deref h (d_bcd m) = m_bcd (d_hdr m) /\
  (d_complete m = false -> decode (deref h (d_raw m)) = Ok (d_hdr m)) /\
  (m_sum (d_hdr m) = 0 -> deref h (d_body m) = m_body (d_hdr m)) /\
  (d_complete m = true -> d_raw m = d_body m).
Proof. exact delivered_ook. Qed.
Print Assumptions C09_content_is_own.

(* a reply computed at any later time (Header.Encode reads the BCD phone through the slice) is the
   reply computed from the message's own header values *)
Theorem C09_reply_from_own_bytes : forall bufsz evs k m, delivered_at cur bufsz evs k m ->
  forall j, (S k <= j)%nat -> forall rid ps body,
  reply_at (p_heap (state_at cur bufsz evs j)) m rid ps body = encode (d_hdr m) rid ps body.
Proof. exact reply_own_bytes. Qed.
Print Assumptions C09_reply_from_own_bytes.

(* ... and the WHOLE reply frame - ReplyBody of the handler kind evaluated on the message as it reads at
   that time (Model/Reply.v reply_body: 0x8001 from serial and id, the register / authentication
   answers, the 0x8800 multimedia id and the file answers read from the BODY), then Header.Encode -
   is the same at every later time as right after delivery, for every delivered message (a
   reassembled one included), handler kind, handler state, reply id and platform serial; for an
   unfragmented message it is the frame computed from the message's own decoded values *)
Theorem C09_reply_frame_stable : forall bufsz evs k m, delivered_at cur bufsz evs k m ->
  forall j, (S k <= j)%nat -> forall kd s rid ps,
  reply_frame_at (p_heap (state_at cur bufsz evs j)) m kd s rid ps =
  reply_frame_at (p_heap (state_at cur bufsz evs (S k))) m kd s rid ps.
Proof. exact reply_frame_stable. Qed.
Print Assumptions C09_reply_frame_stable.

Theorem C09_reply_frame_own : forall bufsz evs k m, delivered_at cur bufsz evs k m -> m_sum (d_hdr m) = 0 ->
  forall j, (S k <= j)%nat -> forall kd s rid ps,
  reply_frame_at (p_heap (state_at cur bufsz evs j)) m kd s rid ps =
  match snd (Reply.reply_body kd s (d_hdr m)) with
  | Some b => Some (encode (d_hdr m) rid ps b)
  | None => None
  end.
Proof. exact reply_frame_own. Qed.
Print Assumptions C09_reply_frame_own.

(* reassembly works on the packets' own bytes: (1) completePack stores the packet's own Body slice
   in the slot of its number; (2) in every reachable state a stored slice keeps its content
   whatever the connection does afterwards; (3) the completed message's body (= its TerminalData,
   = the body shown by the packet that completed it) denotes the concatenation of what the stored
   slices denote at that moment (that the array is a new allocation is in the model's definition;
   its consequence - nothing later changes it - is C09_stable) *)
Theorem C09_reassembly_stores_own_slice : forall h r m h' r' m',
  complete_pack h r m = (h', r', m', None) ->
  let sum := N.to_nat (m_sum (d_hdr m)) in
  let id := m_id (d_hdr m) in
  let seq := N.to_nat (m_no (d_hdr m)) in
  let r1 := if (seq =? 1)%nat then rec_set r id (repeat nil_slice sum) else r in
  forall slots, sum <> 0%nat -> rec_get r1 id = Some slots -> (1 <= seq <= length slots)%nat ->
  h' = h /\ m' = m /\ exists slots', rec_get r' id = Some slots' /\ nth (seq - 1) slots' nil_slice = d_body m.
Proof. exact complete_pack_stores. Qed.
Print Assumptions C09_reassembly_stores_own_slice.

Theorem C09_reassembly_slots_stable : forall bufsz evs later id slots s,
  rec_get (p_rec (run cur bufsz evs)) id = Some slots -> In s slots ->
  deref (p_heap (fold_left (fun st e => o_st (step cur bufsz st e)) later (run cur bufsz evs))) s
  = deref (p_heap (run cur bufsz evs)) s.
Proof. exact slots_stable_reachable. Qed.
Print Assumptions C09_reassembly_slots_stable.

Theorem C09_reassembly_from_own_bytes : forall h r m h' r' m' cm,
  complete_pack h r m = (h', r', m', Some cm) ->
  let sum := N.to_nat (m_sum (d_hdr m)) in
  let id := m_id (d_hdr m) in
  let seq := N.to_nat (m_no (d_hdr m)) in
  let r1 := if (seq =? 1)%nat then rec_set r id (repeat nil_slice sum) else r in
  exists slots, rec_get r1 id = Some slots /\
    deref h' (d_body cm) = flat_map (deref h) (firstn sum (set_nth (seq - 1) (d_body m) slots)) /\
    d_raw cm = d_body cm /\ d_body m' = d_body cm /\ d_complete cm = true /\ d_hdr cm = d_hdr m.
Proof. exact complete_pack_merged. Qed.
Print Assumptions C09_reassembly_from_own_bytes.

(* refinement: read by read, the memory-level machine delivers exactly what the value-level parser
   model delivers (Model/Unpack.v + Model/Subpkg.v, the model of C04 / C05 / C14) - each delivered
   message read in the heap right after its read (pmsg_of: TerminalData, header values, Body,
   SubcontractComplete) equals the value-level message, and the returned errors are the same; for
   every history of reads that fit the buffer and every answer of the reallocation oracle.  With
   C09_stable the value-level content is what every holder keeps seeing: C05's "body = the
   concatenation of the packet bodies" is a statement about the bytes in memory at any later time *)
Theorem C09_refines_value_model : forall bufsz now reads,
  Forall (fun r => (length (fst (fst r)) <= bufsz)%nat) reads ->
  run_mem bufsz (init bufsz) reads = run_core now Subpkg.pst0 (map (fun r => fst (fst r)) reads).
Proof. exact run_refines_init. Qed.
Print Assumptions C09_refines_value_model.

(* run_core's step is packageParse.parse of Model/Subpkg.v while the housekeeping pass (C14) has
   nothing to do, i.e. while no transfer is 5 s idle or 60 s old *)
Theorem C09_core_is_parse : forall now vs d, Subpkg.fresh now (Subpkg.ps_x vs) ->
  Subpkg.parse now vs d = parse_core now vs d.
Proof. exact parse_core_parse. Qed.
Print Assumptions C09_core_is_parse.

(* ================= the header as memory (Model/HdrMem.v) =================
   A history is a list of steps HFeed now d (one read at time now: packageParse.parse - decode into
   fresh header cells, timeout record on packet 1, merged message on completion, the stores of
   supplementarySubPackage into the record's header) and HReply k rid ps blen (the writer answers
   delivered message number k: ReplyID, PlatformSerialNumber, and Header.Encode's BodyDayaLen /
   PacketFragmented, stored into THAT message's header - by design of the library).  hview st k is
   what the holder of message k reads: header cell and, through its pointer, property word. *)

(* message id, serial, package total and number, phone of a delivered message never change, over
   every history.  CAVEAT: this holds in EVERY variant, the defective ones included, because no store
   of the model writes a listed field (they are written only when the cell is allocated; neither
   repaired defect ever touched one): the theorem is exactly as strong as the model's enumeration of
   stores (source scan + hdr correspondence).  The statements that DISCRIMINATE the current code from
   the repaired sharings are C09_header_owned / C09_header_undisturbed (whole header, hcur only) and
   the C09_refuted_shared_* theorems, which refute `header_disturbed` (a whole-view inequality), not
   the stability of the listed fields *)
Theorem C09_header_stable : forall v es1 es2 k view1, hview (hrun v es1) k = Some view1 ->
  exists view2, hview (hrun v (es1 ++ es2)) k = Some view2 /\ listed view2 = listed view1.
Proof. exact listed_stable. Qed.
Print Assumptions C09_header_stable.

(* current code (the record and the merged message hold deep copies), one step from any reachable
   state: the holder of message k' reads the WHOLE header as before - property word, reply id and
   platform serial included - unless the step is the writer's answer to message k' itself; then
   exactly the assigned fields change *)
Theorem C09_header_owned : forall es e k' view, hview (hrun hcur es) k' = Some view ->
  hview (hstep_run hcur (hrun hcur es) e) k' =
  Some match e with
       | HReply k rid ps blen => if Nat.eqb k k' then (set_reply rid ps (fst view), set_encode blen (snd view)) else view
       | HFeed _ _ => view
       end.
Proof. exact header_owned. Qed.
Print Assumptions C09_header_owned.

(* ... hence over any continuation in which the writer does not answer message k *)
Theorem C09_header_undisturbed : forall es1 es2 k view, hview (hrun hcur es1) k = Some view -> no_reply_to k es2 ->
  hview (hrun hcur (es1 ++ es2)) k = Some view.
Proof. exact header_stable. Qed.
Print Assumptions C09_header_undisturbed.

(* the repaired sharings break exactly that (the model contains them): timeoutRecord.initHeader = the
   first packet's header (before 4b6a3bd; and the struct copy that still shares the *BodyProperty):
   packet 1, 5.1 s, any read - the held first packet shows ReplyID 0x8003, fragment flag 0 and the
   re-request's body length; merged message = the completing packet's header (before a3fb0a0; and
   the shallow copy): the writer's answer to the completing packet shows in the merged message *)
Theorem C09_refuted_shared_header_record : header_disturbed {| hv_rec := Shared; hv_merge := Deep |} hx_rereq_1 hx_rereq_2 0.
Proof. exact refuted_record_shared. Qed.
Print Assumptions C09_refuted_shared_header_record.
Theorem C09_refuted_shared_property_record : header_disturbed {| hv_rec := Shallow; hv_merge := Deep |} hx_rereq_1 hx_rereq_2 0.
Proof. exact refuted_record_shallow. Qed.
Print Assumptions C09_refuted_shared_property_record.
Theorem C09_refuted_shared_header_merged : header_disturbed {| hv_rec := Deep; hv_merge := Shared |} hx_merge_1 hx_merge_2 2.
Proof. exact refuted_merge_shared. Qed.
Print Assumptions C09_refuted_shared_header_merged.
Theorem C09_refuted_shared_property_merged : header_disturbed {| hv_rec := Deep; hv_merge := Shallow |} hx_merge_1 hx_merge_2 2.
Proof. exact refuted_merge_shallow. Qed.
Print Assumptions C09_refuted_shared_property_merged.

(* the same two histories on the current code *)
Example C09_example_header_rereq :
  hview (hrun hcur (hx_rereq_1 ++ hx_rereq_2)) 0 = hview (hrun hcur hx_rereq_1) 0 /\
  hview (hrun hcur hx_rereq_1) 0 <> None /\ length (hs_del (hrun hcur (hx_rereq_1 ++ hx_rereq_2))) = 3%nat.
Proof. exact ex_cur_rereq. Qed.
Example C09_example_header_merge :
  hview (hrun hcur (hx_merge_1 ++ hx_merge_2)) 2 = hview (hrun hcur hx_merge_1) 2 /\
  hview (hrun hcur (hx_merge_1 ++ hx_merge_2)) 1 <> hview (hrun hcur hx_merge_1) 1.
Proof. exact ex_cur_merge. Qed.

(* ---- the model contains Go's aliasing: without either repair the property fails ---- *)
(* without bytes.Clone in the fast path: two escape-free frames in two reads - the first message
   shows the second frame; one frame and a close - the message is zeroed *)
Theorem C09_refuted_without_clone : changes prefix_fastpath_alias 1023 ex_alias_evs.
Proof. exact refuted_alias. Qed.
Print Assumptions C09_refuted_without_clone.
Theorem C09_refuted_without_clone_close : changes prefix_fastpath_alias 1023 ex_close_evs.
Proof. exact refuted_alias_close. Qed.
Print Assumptions C09_refuted_without_clone_close.
(* with historyData = historyData[0:0] instead of nil: a frame split over two reads, then two
   frames in one read - append writes them over the first frame *)
Theorem C09_refuted_with_history_reuse : changes prefix_history_reuse 1023 ex_reuse_evs.
Proof. exact refuted_reuse. Qed.
Print Assumptions C09_refuted_with_history_reuse.

(* ---- non-vacuity: the same histories on the current code ---- *)
Example C09_example_delivered : delivered_at cur 1023 ex_alias_evs 0 (delivered_nth cur 1023 ex_alias_evs 0 0).
Proof. exact ex_delivered. Qed.
Example C09_example_two_reads :
  map (fun j => content (p_heap (state_at cur 1023 ex_alias_evs j)) (delivered_nth cur 1023 ex_alias_evs 0 0)) [1; 2]%nat
  = [(ex_f1, [1; 2; 3], m_bcd ex_hdr); (ex_f1, [1; 2; 3], m_bcd ex_hdr)].
Proof. exact ex_cur_alias. Qed.
Example C09_example_split_then_two :
  map (fun j => content (p_heap (state_at cur 1023 ex_reuse_evs j)) (delivered_nth cur 1023 ex_reuse_evs 1 0)) [2; 3]%nat
  = [(ex_f1, [1; 2; 3], m_bcd ex_hdr); (ex_f1, [1; 2; 3], m_bcd ex_hdr)].
Proof. exact ex_cur_reuse. Qed.
(* a two-packet transfer (packets in two reads), then another frame: the reassembled message is
   delivered by event 1 and shows the concatenation right after delivery and after the next read *)
Example C09_example_reassembly :
  let hdr2 := {| m_id := 2049; m_len := 0; m_enc := 0; m_frag := 1; m_ver := 0; m_bcd := [1; 35; 69; 103; 137; 1];
                 m_serial := 0; m_sum := 2; m_no := 0; m_body := []; m_check := 0 |} in
  let pkt no body := let p := encode_payload hdr2 0 0 [] in
                     escape (let q := [8; 1; 32; 2 + len body - 2; 1; 35; 69; 103; 137; 1; 0; no; 0; 2; 0; no] ++ body in q ++ [xor_all q]) in
  let evs := [Read (pkt 1 [65; 66]) false 0; Read (pkt 2 [67; 68]) false 0; Read ex_f1 false 0] in
  let cm := delivered_nth cur 1023 evs 1 1 in
  d_complete cm = true /\
  map (fun j => content (p_heap (state_at cur 1023 evs j)) cm) [2; 3]%nat =
    [([65; 66; 67; 68], [65; 66; 67; 68], [1; 35; 69; 103; 137; 1]); ([65; 66; 67; 68], [65; 66; 67; 68], [1; 35; 69; 103; 137; 1])].
Proof. vm_compute. split; reflexivity. Qed.

(* C09_reply_frame_stable / _own computed: an unfragmented 0x0801 whose 0x8800 reply carries the
   multimedia id read from the body, evaluated right after delivery and after the next read *)
Example C09_example_reply_frame :
  let hdr1 := {| m_id := 2049; m_len := 0; m_enc := 0; m_frag := 0; m_ver := 0; m_bcd := [1; 35; 69; 103; 137; 1];
                 m_serial := 0; m_sum := 0; m_no := 0; m_body := []; m_check := 0 |} in
  let body := [222; 173; 190; 239] ++ repeat 7 32 in
  let evs := [Read (encode hdr1 2049 9 body) false 0; Read ex_f1 false 0] in
  let m := delivered_nth cur 1023 evs 0 0 in
  map (fun j => reply_frame_at (p_heap (state_at cur 1023 evs j)) m Reply.RMedia Reply.hstate0 34816 5) [1; 2]%nat =
  [Some (encode (d_hdr m) 34816 5 [222; 173; 190; 239]); Some (encode (d_hdr m) 34816 5 [222; 173; 190; 239])].
Proof. vm_compute. reflexivity. Qed.

(* C09_reassembly_stores_own_slice / _slots_stable on the transfer of C09_example_reassembly: after
   packet 1 its Body slice sits in slot 0 of the record and denotes [65;66] also after the next read *)
Example C09_example_slots :
  let pkt no body := escape (let q := [8; 1; 32; 2; 1; 35; 69; 103; 137; 1; 0; no; 0; 2; 0; no] ++ body in q ++ [xor_all q]) in
  let evs := [Read (pkt 1 [65; 66]) false 0] in
  let st := run cur 1023 evs in
  let st' := fold_left (fun st e => o_st (step cur 1023 st e)) [Read ex_f1 false 0] st in
  map (fun kv => map (deref (p_heap st)) (snd kv)) (p_rec st) = [[[65; 66]; []]] /\
  map (fun kv => map (deref (p_heap st')) (snd kv)) (p_rec st) = [[[65; 66]; []]].
Proof. vm_compute. split; reflexivity. Qed.

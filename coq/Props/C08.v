(* C08 — location reports are decoded as the standard prescribes.
   Only statements here; every proof is `exact <lemma of Proofs/Location_proofs.v>`.
   Model: Model/Location.v (mirrors protocol/model/t_0x0200*.go, t_0x0704.go, t_0x0801.go);
   the standard: Proofs/LocationStd.v (JT/T 808-2019 tables 23-32 written as data). *)
From JT.Base Require Import Prelude.
From JT.Model Require Import Location.
From JT.Proofs Require Import LocationStd Location_proofs.
From Coq Require Import String.

(* every body of at least 28 bytes: latitude, longitude, altitude, speed, direction and time are
   the standard's big-endian / BCD reading at the standard's offsets, and the two details structs
   hold, member by member, the standard's bit of the alarm word / status word (every member that
   the standard does not name is false) *)
Theorem C08_block : forall b, 28 <= len b ->
  exists v, block_parse b = Ok v /\
    l_alarm v = std_alarm_word b /\ l_status v = std_status_word b /\
    l_lat v = std_lat b /\ l_lon v = std_lon b /\ l_alt v = std_alt b /\
    l_speed v = std_speed b /\ l_dir v = std_dir b /\ l_time v = std_time b /\
    l_aflags v = std_flags std_alarm alarm_fields (std_alarm_word b) /\
    l_sflags v = std_flags std_status status_fields (std_status_word b).
Proof. exact block_std. Qed.
Print Assumptions C08_block.

(* each alarm flag is true exactly when its bit of table 25 is set: every body, i.e. all 2^32
   alarm words (a proof about the binary-string decoder, no enumeration of words) *)
Theorem C08_alarm : forall b v k name, block_parse b = Ok v -> In (k, name) std_alarm ->
  flag_named alarm_fields (l_aflags v) name = N.testbit (l_alarm v) k.
Proof. exact alarm_flags_std. Qed.
Print Assumptions C08_alarm.

(* each of the 21 single-bit status flags of table 24 likewise *)
Theorem C08_status : forall b v k name, block_parse b = Ok v -> In (k, name) std_status ->
  flag_named status_fields (l_sflags v) name = N.testbit (l_status v) k.
Proof. exact status_flags_std. Qed.
Print Assumptions C08_status.

(* the same on the word decoders alone: the code tests character K of a 32-character binary
   string, the theorem says that this is bit 31-K, for every word *)
Theorem C08_alarm_word : forall w, exists fl,
  flags_parse alarm_table (bin_str 32 w) (repeat false 32) = Ok fl /\
  forall k name, In (k, name) std_alarm -> flag_named alarm_fields fl name = N.testbit w k.
Proof. exact alarm_word_std. Qed.
Print Assumptions C08_alarm_word.

Theorem C08_status_word : forall w, exists fl,
  flags_parse status_table (bin_str 32 w) (repeat false 22) = Ok fl /\
  forall k name, In (k, name) std_status -> flag_named status_fields fl name = N.testbit w k.
Proof. exact status_word_std. Qed.
Print Assumptions C08_status_word.

(* the character/bit relation itself *)
Theorem C08_bin_str : forall n w K, (K < n)%nat ->
  (nth K (bin_str n w) 0 =? 49) = N.testbit w (N.of_nat (n - 1 - K)).
Proof. exact bin_str_char. Qed.
Print Assumptions C08_bin_str.

(* every sequence of admissible items (every standard id with an admissible length, unknown ids
   with any length, duplicates, any order; excluded: exactly the class of the known finding,
   item 0x11 carrying an area id): the parse succeeds and the map holds, for every id, the
   standard's reading of the LAST item with that id *)
Theorem C08_items : forall items, Forall (fun it => admissible it = true) items ->
  exists m, additions_parse (flat_map tlv items) = Ok m /\
    forall id, amap_find id m = option_map std_addition (find_last id items).
Proof. exact items_std. Qed.
Print Assumptions C08_items.

(* unknown ids are preserved verbatim *)
Theorem C08_unknown : forall items id c, Forall (fun it => admissible it = true) items ->
  lookup id std_item_lens = None -> find_last id items = Some (id, c) ->
  exists m a, additions_parse (flat_map tlv items) = Ok m /\ amap_find id m = Some a /\
    a_id a = id /\ a_len a = len c /\ a_data a = c /\ a_val a = VNone.
Proof. exact unknown_std. Qed.
Print Assumptions C08_unknown.

(* an item whose length is impossible for its id is rejected, wherever it stands and whatever
   the other items are *)
Theorem C08_reject : forall items, Exists (fun it => bad_len it = true) items ->
  additions_parse (flat_map tlv items) = Err E_LEN.
Proof. exact reject_std. Qed.
Print Assumptions C08_reject.

(* ... and so is the whole report that carries it: T0x0200.Parse of a 28-byte block followed by the
   items fails with the length error *)
Theorem C08_reject_0200 : forall r blk items, len blk = 28 ->
  Exists (fun it => bad_len it = true) items ->
  t0200_parse r (blk ++ flat_map tlv items) = Err E_LEN.
Proof. exact reject_0200. Qed.
Print Assumptions C08_reject_0200.

(* ... and the whole batch: a 0x0704 upload one of whose reports carries such an item is rejected,
   wherever that report sits (the reports `pre` in front of it parse, `post` is anything).  Lengths
   < 65536 because count and item length are WORDs, as in C08_carriers_0704. *)
Theorem C08_reject_0704 : forall r ty pre vs blk items post,
  Forall2 (fun it v => t0200_parse fresh_0200 it = Ok v /\ len it < 65536) pre vs ->
  len blk = 28 -> Exists (fun it => bad_len it = true) items ->
  len (blk ++ flat_map tlv items) < 65536 ->
  len (pre ++ (blk ++ flat_map tlv items) :: post) < 65536 ->
  t0704_parse r (std_0704 ty (pre ++ (blk ++ flat_map tlv items) :: post)) = Err E_LEN.
Proof. exact reject_0704. Qed.
Print Assumptions C08_reject_0704.

(* non-vacuity: a good report, then a report whose second item `31 00` has an impossible length
   (0x31 needs exactly one byte), then anything: hypotheses hold and the batch is rejected *)
Example C08_reject_0704_example :
  let good := repeat 0 28 ++ tlv (1, [0; 0; 0; 7]) in
  let items := [(48, [9]); (49, [])] in
  Exists (fun it => bad_len it = true) items /\
  (exists v, t0200_parse fresh_0200 good = Ok v /\ len good < 65536) /\
  t0200_parse fresh_0200 (repeat 0 28 ++ flat_map tlv items) = Err E_LEN /\
  t0704_parse fresh_0704 (std_0704 1 ([good] ++ (repeat 0 28 ++ flat_map tlv items) :: [[1; 2; 3]])) = Err E_LEN.
Proof.
  cbv zeta. split. right. left. reflexivity.
  split. eexists. split. vm_compute. reflexivity. vm_compute. reflexivity.
  split; vm_compute; reflexivity.
Qed.

(* the code's length table accepts exactly the lengths the standard lists, for every id *)
Theorem C08_len_table : forall id n, contrast id n =
  match lookup id std_item_lens with Some ls => existsb (N.eqb n) ls | None => true end.
Proof. exact contrast_std. Qed.
Print Assumptions C08_len_table.

(* known finding C08/0x11-areaid: `11 05 01 00 00 00 42` is accepted, but the area id is read
   from content[0:4] (0x01000000) instead of content[1:5] (0x42) *)
Theorem C08_refuted_0x11 : exists it, len_ok it = true /\ is_0x11_with_area it = true /\
  exists m a, additions_parse (tlv it) = Ok m /\ amap_find 17 m = Some a /\
    a_val a = VOverSpeed 1 16777216 /\ a_val (std_addition it) = VOverSpeed 1 66.
Proof. exact refuted_0x11. Qed.
Print Assumptions C08_refuted_0x11.

(* carriers: a 0x0704 batch yields, item by item, exactly what T0x0200.Parse yields on the item's
   body (so C08_block / C08_items hold inside it) *)
Theorem C08_carriers_0704 : forall r ty its vs,
  Forall2 (fun it v => t0200_parse fresh_0200 it = Ok v /\ len it < 65536) its vs ->
  len its < 65536 -> 31 <= len (std_0704 ty its) ->
  t0704_parse r (std_0704 ty its) =
  Ok {| b_num := len its; b_type := ty;
        b_items := map (fun p => {| i_len := len (fst p); i_loc := t_loc (snd p); i_adds := t_adds (snd p) |})
                       (combine its vs) |}.
Proof. exact t0704_std. Qed.
Print Assumptions C08_carriers_0704.

(* a 0x0801 upload carries the block at bytes 8..36: decoded as block_parse decodes it *)
Theorem C08_carriers_0801 : forall r id ty fm ev ch blk pkg,
  id < 4294967296 -> len blk = 28 ->
  exists v, block_parse blk = Ok v /\
    t0801_parse r (std_0801 id ty fm ev ch blk pkg) =
    Ok {| m_id := id; m_type := ty; m_fmt := fm; m_event := ev; m_chan := ch; m_loc := v; m_pkg := pkg |}.
Proof. exact t0801_std. Qed.
Print Assumptions C08_carriers_0801.

(* T0x0200.Parse is the block followed by the items *)
Theorem C08_carriers_0200 : forall r body,
  t0200_parse r body = l <- block_parse body ;; m <- adds_of body ;; Ok {| t_loc := l; t_adds := m |}.
Proof. exact t0200_parse_split. Qed.
Print Assumptions C08_carriers_0200.

(* the walk is never stopped by its fuel bound *)
Theorem C08_fuel : forall fuel m body, (List.length body <= fuel)%nat ->
  adds_walk fuel m body = adds_walk (List.length body) m body.
Proof. exact adds_walk_fuel. Qed.
Print Assumptions C08_fuel.

(* non-vacuity: a sequence with every standard id, an unknown id and a duplicate is admissible *)
Example C08_admissible_example :
  Forall (fun it => admissible it = true)
    [(1, [0; 0; 1; 2]); (2, [0; 9]); (3, [1; 1]); (4, [0; 0]); (5, repeat 7 30); (6, [255; 255]);
     (17, [0]); (17, [3]); (18, [1; 0; 0; 0; 5; 1]); (19, [0; 0; 0; 1; 0; 9; 1]); (37, [0; 0; 127; 255]);
     (42, [0; 3]); (43, [1; 2; 3; 4]); (48, [20]); (49, [12]); (224, [1; 2; 3]); (1, [9; 9; 9; 9])].
Proof. repeat constructor. Qed.

Example C08_bad_len_example : bad_len (49, []) = true /\ bad_len (1, [1; 2; 3]) = true /\
  bad_len (17, [1; 2]) = true /\ bad_len (224, []) = false.
Proof. repeat split. Qed.

(* C17 — JT1078 RTP packets are decoded as the standard prescribes.
   Only statements here; every proof is `exact <lemma of Proofs/>`. *)
From JT.Base Require Import Prelude.
From JT.Model Require Import Jt1078.
From JT.Proofs Require Import Jt1078_proofs.

(* one packet followed by anything: fields and payload as laid out by the standard,
   exactly one packet consumed, the remainder returned unchanged - whatever the receiving Packet
   decoded before (r is the previous value of the receiver, arbitrary) *)
Theorem C17_one_packet : forall r p rest, wf_packet p ->
  decode r (std_packet p ++ rest) = Ok (p, rest).
Proof. exact one_packet. Qed.
Print Assumptions C17_one_packet.

(* any concatenation of packets, decoded repeatedly from the front *)
Theorem C17_stream : forall ps, Forall wf_packet ps ->
  decode_stream (flat_map std_packet ps) = Ok ps.
Proof. exact stream. Qed.
Print Assumptions C17_stream.

(* the same with ONE Packet reused for every step (p.Decode in a loop), starting from any receiver:
   no field of an earlier packet survives into a later one (no timestamp for transparent data after
   a timestamped packet, no frame intervals for audio after video) *)
Theorem C17_stream_reused_packet : forall r ps, Forall wf_packet ps ->
  decode_stream_reuse r (flat_map std_packet ps) = Ok ps.
Proof. exact stream_reuse. Qed.
Print Assumptions C17_stream_reused_packet.

(* the result of a decode never depends on the receiver's previous content, for ANY byte string *)
Theorem C17_receiver_irrelevant : forall r d, decode r d = decode fresh_pkt d.
Proof. exact receiver_irrelevant. Qed.
Print Assumptions C17_receiver_irrelevant.

(* every proper prefix of a packet is reported as too short (header or body), never as a packet *)
Theorem C17_short : forall r p d s, wf_packet p -> d ++ s = std_packet p -> s <> [] ->
  decode r d = Err E1078_SHORT_HEAD \/ decode r d = Err E1078_SHORT_BODY.
Proof. exact short. Qed.
Print Assumptions C17_short.

(* 16 bytes or more that do not start with 30 31 63 64: unqualified, whatever the receiver held *)
Theorem C17_unqualified : forall r d, (16 <= length d)%nat -> firstn 4 d <> marker ->
  decode r d = Err E1078_UNQUALIFIED.
Proof. exact unqualified. Qed.
Print Assumptions C17_unqualified.

(* decoding never panics, for any byte string and any receiver (shared with C03) *)
Theorem C17_total : forall r d, decode r d <> Panic.
Proof. exact total. Qed.
Print Assumptions C17_total.
Theorem C17_total_fresh : forall d, decode fresh_pkt d <> Panic.
Proof. exact total_fresh. Qed.
Print Assumptions C17_total_fresh.

(* non-vacuity: a concrete video packet with payload meets wf_packet, and a transparent one *)
Example C17_wf_example :
  wf_packet {| k_v := 2; k_p := 0; k_x := 0; k_cc := 1; k_m := 1; k_pt := 98; k_seq := 513;
               k_sim := [1; 35; 69; 103; 137; 1]; k_chan := 2; k_dt := 1; k_sub := 3;
               k_ts := 4294967296; k_ifi := 40; k_fi := 41; k_blen := 3; k_body := [126; 0; 255];
               k_video := true |} /\
  wf_packet {| k_v := 2; k_p := 0; k_x := 0; k_cc := 1; k_m := 0; k_pt := 6; k_seq := 0;
               k_sim := [0; 0; 0; 0; 0; 0]; k_chan := 1; k_dt := 4; k_sub := 0;
               k_ts := 0; k_ifi := 0; k_fi := 0; k_blen := 0; k_body := [];
               k_video := false |}.
Proof.
  unfold wf_packet, bytes; cbn; repeat split; try reflexivity; try (repeat constructor).
Qed.

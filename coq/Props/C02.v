(* C02 — exactly the well-formed frames are accepted.  WellFormed is the declarative description of
   a JT/T 808 frame in Proofs/FrameSpec.v (delimiters, escape relation Esc incl. the one tolerated
   deviation, XOR checksum, header layout of tables 2-4 for both versions with/without package
   fields, declared body length), written without reference to the decoder. *)
From JT.Base Require Import Prelude.
From JT.Model Require Import Frame.
From JT.Proofs Require Import Frame_proofs FrameSpec.

Theorem C02_accepts_exactly : forall d m, bytes d -> no_interior_delim d ->
  (decode d = Ok m <-> WellFormed d m).
Proof. exact decode_iff_wellformed. Qed.
Print Assumptions C02_accepts_exactly.

Theorem C02_rejects_rest : forall d, bytes d -> no_interior_delim d ->
  (forall m, ~ WellFormed d m) -> exists e, decode d = Err e.
Proof. exact not_wellformed_rejected. Qed.
Print Assumptions C02_rejects_rest.

Theorem C02_wf_deterministic : forall d m1 m2, WellFormed d m1 -> WellFormed d m2 -> m1 = m2.
Proof. exact wellformed_deterministic. Qed.
Print Assumptions C02_wf_deterministic.

(* never a panic, for any byte string (the checked decoder; shared with C03) *)
Theorem C02_total : forall d, decode_chk d <> Panic.
Proof. exact decode_chk_total. Qed.
Print Assumptions C02_total.

(* non-vacuity: the heartbeat vector of TestReply is WellFormed for a concrete message *)
Example C02_wf_example :
  WellFormed [126; 0;2; 0;0; 1;35;69;103;137;1; 0;0; 138; 126]
    {| m_id := 2; m_len := 0; m_enc := 0; m_frag := 0; m_ver := 0; m_bcd := [1;35;69;103;137;1];
       m_serial := 0; m_sum := 0; m_no := 0; m_body := []; m_check := 138 |}.
Proof.
  exists [0;2; 0;0; 1;35;69;103;137;1; 0;0; 138], [0;2; 0;0; 1;35;69;103;137;1; 0;0; 138], 0, 0.
  split; [reflexivity|]. split; [discriminate|]. split.
  - repeat (apply Esc_lit; [discriminate|discriminate|]). apply Esc_nil.
  - repeat split; try reflexivity; cbn; try lia.
Qed.

(* a second witness exercising every rule of the escape relation: a 2019 FRAGMENTED frame (package 1 of 3) whose serial
   is 7e 7d (Esc_7e, Esc_7d), whose body is 7e 1a (Esc_7e, Esc_lit) and whose check code 0x7d is sent unescaped right
   before the closing delimiter (Esc_last, the one tolerated deviation): the decoder accepts it and, by
   C02_accepts_exactly, it is WellFormed for exactly the message the decoder returns *)
Definition ex_wf_2019 : list N :=
  [126; 2; 0; 96; 2; 1; 0; 0; 0; 0; 0; 1; 114; 153; 132; 23; 125; 2; 125; 1; 0; 3; 0; 1; 125; 2; 26; 125; 126].
Example C02_wf_example_2019 : exists m, WellFormed ex_wf_2019 m /\ m_ver m = 1 /\ m_frag m = 1 /\ m_sum m = 3 /\
  m_no m = 1 /\ m_serial m = 32381 /\ m_body m = [126; 26] /\ m_check m = 125.
Proof.
  destruct (decode ex_wf_2019) as [m| |] eqn:E; [|vm_compute in E; discriminate E ..].
  exists m. split.
  - apply (C02_accepts_exactly ex_wf_2019 m);
      [unfold bytes, ex_wf_2019; repeat (constructor; [reflexivity|]); constructor
      | unfold no_interior_delim; vm_compute; intuition discriminate | exact E].
  - vm_compute in E. injection E as <-. repeat split; reflexivity.
Qed.

(* and a string that is NOT well-formed for any message (same frame, one body byte changed: check code wrong) is
   rejected with an error: all three hypotheses of C02_rejects_rest are established for it (the third through
   C02_accepts_exactly and the computed decode) and the conclusion is obtained by APPLYING C02_rejects_rest *)
Definition ex_rejected : list N :=
  [126; 2; 0; 96; 2; 1; 0; 0; 0; 0; 0; 1; 114; 153; 132; 23; 125; 2; 125; 1; 0; 3; 0; 1; 125; 2; 27; 125; 126].
Example C02_rejected_example :
  bytes ex_rejected /\ no_interior_delim ex_rejected /\ (forall m, ~ WellFormed ex_rejected m) /\
  exists e, decode ex_rejected = Err e.
Proof.
  assert (Hb : bytes ex_rejected)
    by (unfold bytes, ex_rejected; repeat (constructor; [reflexivity|]); constructor).
  assert (Hn : no_interior_delim ex_rejected) by (unfold no_interior_delim; vm_compute; intuition discriminate).
  assert (Hw : forall m, ~ WellFormed ex_rejected m).
  { intros m H. apply (C02_accepts_exactly ex_rejected m Hb Hn) in H. vm_compute in H. discriminate H. }
  repeat split; [exact Hb | exact Hn | exact Hw | exact (C02_rejects_rest ex_rejected Hb Hn Hw)].
Qed.

(* C01 — frame encode/decode round trip and delimiter transparency.
   Only statements here; every proof is `exact <lemma of Proofs/Frame_proofs.v>`. *)
From JT.Base Require Import Prelude.
From JT.Model Require Import Frame.
From JT.Proofs Require Import Frame_proofs.

(* For every header a decode can produce (decoded_header: version/encryption bits, id, raw BCD phone
   of 6 or 10 bytes), every reply id and platform serial (uint16), every body of 0..1023 bytes over
   all byte values: the framed message decodes, to exactly the id (reply id, or the header's own id
   when the reply id is 0), the same raw phone bytes and version, that serial, a byte-identical body,
   fragment flag cleared, no package fields. *)
Theorem C01_roundtrip : forall h rid ps body,
  decoded_header h -> rid < 65536 -> ps < 65536 -> (length body <= 1023)%nat ->
  decode (encode h rid ps body) =
    Ok {| m_id := if rid =? 0 then m_id h else rid; m_len := len body; m_enc := m_enc h; m_frag := 0;
          m_ver := m_ver h; m_bcd := m_bcd h; m_serial := ps; m_sum := 0; m_no := 0; m_body := body;
          m_check := xor_all (encode_payload h rid ps body) |}.
Proof. exact decode_encode. Qed.
Print Assumptions C01_roundtrip.

(* the premise is reachable: whatever decode returns on a byte string is a decoded_header *)
Theorem C01_decoded_headers_exist : forall d m, bytes d -> decode d = Ok m -> decoded_header m.
Proof. exact decode_gives_decoded_header. Qed.
Print Assumptions C01_decoded_headers_exist.

(* 0x7e occurs only as first and last byte, whatever header, body and checksum contain
   (no hypothesis at all: holds for every argument) *)
Theorem C01_delimiters : forall h rid ps body,
  exists mid, encode h rid ps body = 126 :: mid ++ [126] /\ Forall (fun b => b <> 126) mid.
Proof. exact encode_delimiters. Qed.
Print Assumptions C01_delimiters.

(* the escaping layer alone, for every payload *)
Theorem C01_unescape_escape : forall l, l <> [] -> unescape (escape l) = Ok l.
Proof. exact unescape_escape. Qed.
Print Assumptions C01_unescape_escape.

(* the bounds-checked decoder (the one that is extracted and compared with the Go code) is the same
   function: every index and slice expression of Header.decode / JTMessage.Decode is in range *)
Theorem C01_decode_chk_eq : forall d, decode_chk d = decode d.
Proof. exact decode_chk_eq. Qed.
Print Assumptions C01_decode_chk_eq.

(* non-vacuity: a 2019 header with the encryption bit, decoded from a concrete fragmented frame *)
Example C01_header_example :
  decoded_header {| m_id := 512; m_len := 0; m_enc := 1; m_frag := 1; m_ver := 1;
                    m_bcd := [0;0;0;0;0;1;114;153;132;23]; m_serial := 65535; m_sum := 3; m_no := 2;
                    m_body := []; m_check := 0 |}.
Proof. unfold decoded_header, bytes; cbn; repeat split; try reflexivity; repeat constructor. Qed.

(* the header of the example above IS what decode returns on a concrete fragmented, encrypted 2019 frame (package 2 of 3,
   serial 65535, empty body): the premise of C01_roundtrip is met by a decoded terminal message *)
Definition ex_frag2019 : list N :=
  [126; 2; 0; 100; 0; 1; 0; 0; 0; 0; 0; 1; 114; 153; 132; 23; 255; 255; 0; 3; 0; 2; 31; 126].
Example C01_header_example_decoded : exists m, decode ex_frag2019 = Ok m /\ m_id m = 512 /\ m_ver m = 1 /\
  m_enc m = 1 /\ m_frag m = 1 /\ m_bcd m = [0;0;0;0;0;1;114;153;132;23] /\ m_serial m = 65535 /\ decoded_header m.
Proof.
  destruct (decode ex_frag2019) as [m| |] eqn:E; [|vm_compute in E; discriminate E ..].
  exists m. pose proof E as E'. vm_compute in E'. injection E' as <-.
  repeat split; try reflexivity. apply (C01_decoded_headers_exist ex_frag2019); [repeat constructor|exact E].
Qed.

(* an instance of the round trip evaluated: a reply 0x8001 with platform serial 0x7d7e and the body 7e 7d 01 02 7e on
   that header: every special byte is escaped on the wire and comes back *)
Example C01_roundtrip_evaluated :
  match decode ex_frag2019 with
  | Ok h => let f := encode h 32769 32126 [126; 125; 1; 2; 126] in
            (match decode f with Ok m => (m_id m, m_serial m, m_body m, m_frag m, m_bcd m) | _ => (0, 0, [], 9, []) end,
             existsb (N.eqb 126) (removelast (tl f)))
  | _ => ((0, 0, [], 9, []), true)
  end = ((32769, 32126, [126; 125; 1; 2; 126], 0, [0;0;0;0;0;1;114;153;132;23]), false).
Proof. vm_compute. reflexivity. Qed.

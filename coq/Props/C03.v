(* C03 — decoders are total functions of their input: the message bodies of protocol/model outside
   the location family (the location family, the alarm identification and the vendor extension
   items are in Props/C03_location.v), the frame decoder and the RTP packet decoder on reused
   receivers.  Only statements here; proofs are in Proofs/Total_*_proofs.v.

   Reading guide.  A decoder is `parse r body` with r the previous receiver (VL [] = fresh).
   `Panic` is a Go run-time panic under the strictest caller (cap = len), so "<> Panic" says that no
   index or slice expression the decoder evaluates reaches beyond the length of the slice it was
   given: this is both "never panics" and "never reads memory beyond the slice" (DESIGN.md section 3).
   Every statement quantifies over ALL byte strings (lists of arbitrary numbers, not even < 256 is
   needed), all previous receivers (C03_msg_history_seq: all receivers reachable from a fresh one, which
   is what its statement is about), every dialect value d, every GBK conversion function gbk.
   ver is Header.ProtocolVersion: the three defined values 1 (2011), 2 (2013), 3 (2019).
   The models are those of the tree after the fix: commits recorded in known_findings.json. *)
From JT.Base Require Import Prelude.
From JT.Model Require Import Location LocationExt Frame Jt1078 Total_base Total_msgs Total_codec.
From JT.Proofs Require Import Total_base_proofs Total_msgs_proofs Total_codec_proofs.

(* ---- the generic theorem for straight-line decoders: one length guard (len = N or len >= N) and
        every member's offset + width inside N  =>  no panic, for every body ---- *)
Theorem C03_fixed_layout_total : forall g fs, layout_ok g fs = true -> forall body,
  fixed_parse g fs body <> Panic /\
  (* and what it returns: a value with one member per layout entry exactly when the guard holds *)
  ((exists vs, fixed_parse g fs body = Ok (VL vs) /\ List.length vs = List.length fs /\ guard_ok g (len body) = true) \/
   (fixed_parse g fs body = Err E_LEN /\ guard_ok g (len body) = false)).
Proof. intros g fs H body. split. now apply fixed_layout_total. now apply fixed_layout_result. Qed.
Print Assumptions C03_fixed_layout_total.

(* instantiated: the sixteen straight-line types 0x0001 0x0002 0x0800 0x1003 0x1005 0x1206 0x8001
   0x8100 0x8104 0x8801 0x9003 0x9102 0x9105 0x9202 0x9205 0x9207 satisfy the static check *)
Theorem C03_fixed_types : forall id lay, lookup id fixed_layouts = Some lay ->
  forall body, fixed_parse (fst lay) (snd lay) body <> Panic.
Proof. exact fixed_total. Qed.
Print Assumptions C03_fixed_types.

(* ---- the record loop `for i := 0; i < n; i++ { members at start + stride*i }`: no panic when
        the last record ends inside the body (invariant: cursor <= length), by induction on n ---- *)
Theorem C03_rec_loop_total : forall n i body start stride fs,
  forallb (field_ok stride) fs = true -> start + stride * (i + N.of_nat n) <= len body ->
  rec_loop n i body start stride fs <> Panic.
Proof. exact rec_loop_total. Qed.
Print Assumptions C03_rec_loop_total.

(* ---- per decoder: length-prefixed and count-driven types (one conjunct per Go Parse method;
        C03_<T>_total is the conjunct named after the type) ---- *)
Theorem C03_types_total :
  (* C03_T0x0100_total *) (forall gbk ver r body, ver = 1 \/ ver = 2 \/ ver = 3 -> t0100_parse gbk ver r body <> Panic) /\
  (* C03_T0x0102_total *) (forall ver body, t0102_parse ver body <> Panic) /\
  (* C03_T0x0104_total *) (forall gbk body, t0104_parse gbk body <> Panic) /\
  (* C03_P0x8103_total *) (forall gbk body, p8103_parse gbk body <> Panic) /\
  (* C03_T0x0805_total *) (forall body, t0805_parse body <> Panic) /\
  (* C03_T0x1205_total *) (forall body, t1205_parse body <> Panic) /\
  (* C03_T0x1210_total *) (forall d r body, t1210_parse d r body <> Panic) /\
  (* C03_T0x1211_total *) (forall body, t1211_parse body <> Panic) /\
  (* C03_T0x1212_total *) (forall r body, t1212_parse r body <> Panic) /\
  (* C03_P0x8003_total *) (forall body, p8003_parse body <> Panic) /\
  (* C03_P0x8800_total *) (forall body, p8800_parse body <> Panic) /\
  (* C03_P0x9101_total *) (forall body, p9101_parse body <> Panic) /\
  (* C03_P0x9201_total *) (forall body, p9201_parse body <> Panic) /\
  (* C03_P0x9206_total *) (forall body, p9206_parse body <> Panic) /\
  (* C03_P0x9208_total *) (forall d body, p9208_parse d body <> Panic) /\
  (* C03_P0x9212_total *) (forall body, p9212_parse body <> Panic) /\
  (* the 0x1210 attachment loop, every count, every start position *)
  (forall n body start, t1210_items n body start <> Panic).
Proof.
  repeat split.
  exact t0100_total. exact t0102_total. exact t0104_total. exact p8103_total. exact t0805_total.
  exact t1205_total. exact t1210_total. exact t1211_total. exact t1212_total. exact p8003_total.
  exact p8800_total. exact p9101_total. exact p9201_total. exact p9206_total. exact p9208_total.
  exact p9212_total. exact t1210_items_total.
Qed.
Print Assumptions C03_types_total.

(* the terminal-parameter walk: never a panic for any fuel, and it reports no error but the length
   error when the fuel is the length of the list, i.e. termination is not what stops it *)
Theorem C03_params_walk : forall fuel gbk count known other body,
  params_walk fuel gbk count known other body <> Panic /\
  (forall e, (List.length body <= fuel)%nat -> params_walk fuel gbk count known other body = Err e -> e = E_LEN).
Proof. intros. split. apply params_walk_total. intros e. apply params_walk_err. Qed.
Print Assumptions C03_params_walk.

(* ---- all 32 modelled message types at once (dispatch by message id) ---- *)
Theorem C03_msg_total : forall id gbk ver d r body, ver = 1 \/ ver = 2 \/ ver = 3 ->
  parse_msg id gbk ver d r body <> Panic.
Proof. exact parse_msg_total. Qed.
Print Assumptions C03_msg_total.

(* ---- history independence, in the form "of the previous receiver only the members that no Parse
        ever writes are inputs".  For 29 of the 32 ids the model does not take the receiver as an
        argument at all (every member is assigned on success), so for those the equation is
        definitional and the claim "every member is assigned" is carried by the correspondence on
        reused receivers (op c03s, C03/history/<T>).  It has content for 0x0100 (Version kept for an
        undefined header version), 0x1210 under HLJ (TerminalID not assigned) and 0x1212 (the
        retransmit list): there the result DOES depend on r, through config_of only (config_of: nothing at all, except the retransmit list of 0x1212 and, under the HLJ
        dialect which has no leading terminal id, TerminalID of 0x1210; both are empty on a receiver
        that was only ever filled by Parse) ---- *)
Theorem C03_msg_history :
  (forall id gbk ver d r body, ver = 1 \/ ver = 2 \/ ver = 3 ->
     parse_msg id gbk ver d r body = parse_msg id gbk ver d (config_of id d r) body) /\
  (* and on a fresh receiver those members are empty *)
  (forall id d, config_of id d (VL []) = VL [] \/
     (id = 4624 /\ d = 2 /\ config_of id d (VL []) = VL [VS []]) \/
     (id = 4626 /\ config_of id d (VL []) = VL [VL []; VL []])).
Proof. split. exact parse_msg_history. exact config_fresh. Qed.
Print Assumptions C03_msg_history.

(* ---- rendering a successfully parsed value.  Stated for exactly the three String() methods of these
        32 types that re-slice their own Encode() output: P0x8100 `body[3:]`, T0x0102
        `body[1+AuthCodeLen+15:]` (index computed in uint8), T0x0100 `data[4+mLen+tLen+tIDLen+1:]`
        (any GBK encoder `enc`).  For 0x0102 the hypothesis matters: the index is inside Encode()
        because a PARSED AuthCode has exactly AuthCodeLen bytes.
        Every other String() of protocol/model (the remaining 29 types, TerminalParamDetails, the
        extension handlers, P9208AlarmSign, jt808 Header, jt1078 Packet) only formats members and
        loops over lists; there is no Coq statement about them: ORACLE ONLY (String() under recover()
        on every successfully parsed body: C03/string/<T>, and inside the location / extension / RTP
        ops).  The location renderers are in Props/C03_location.v (C03_location_render). ---- *)
Theorem C03_msg_render :
  (forall v, p8100_render v <> Panic) /\
  (forall ver body v, t0102_parse ver body = Ok v -> t0102_render v <> Panic) /\
  (forall enc v, t0100_render enc v <> Panic).
Proof. repeat split. exact p8100_render_total. exact t0102_render_total. exact t0100_render_total. Qed.
Print Assumptions C03_msg_render.

(* ---- jt808 frame Decode and jt1078 Packet.Decode on ANY previous receiver.
        C03_frame_history is DEFINITIONAL: after fix ea4f312 Decode assigns every observable member and
        recomputes the sub-package flag, so the model (Total_codec.frame_decode r d := decode_chk d)
        does not take the receiver as an input at all and the equation holds by reflexivity.  It is
        kept as the record of that modelling decision; what carries history independence of
        JTMessage.Decode is the harness: op c03fseq decodes 1-3 earlier frames (fragmented ones and
        prefixes included) into ONE JTMessage before the frame under test and the answer must be the
        fresh one (C03/history/jt808.Decode; lib/ops_frame.go does the same for C02:
        C02/reused-receiver).  C03_rtp_history has content as far as Model/Jt1078.v has: decode takes
        the receiver and rtp_reset clears what decodeHead clears. ---- *)
Theorem C03_codec_reuse :
  (* C03_frame_total *)   (forall r d, frame_decode r d <> Panic) /\
  (* C03_frame_history *) (forall r d, frame_decode r d = frame_decode empty_msg d) /\
  (* C03_rtp_total *)     (forall r d, rtp_decode r d <> Panic) /\
  (* C03_rtp_history *)   (forall r d, rtp_decode r d = rtp_decode fresh_pkt d).
Proof. split; [|split; [|split]]. exact frame_total. exact frame_history. exact rtp_total. exact rtp_history. Qed.
Print Assumptions C03_codec_reuse.

(* ---- non-vacuity ---- *)
(* the static check is what carries the generic theorem: a member one byte beyond the guard is
   rejected by it, and that decoder does panic *)
Example C03_layout_check_rejects :
  layout_ok (GEq 4) [fbyte 4] = false /\ fixed_parse (GEq 4) [fbyte 4] [0; 0; 0; 0] = Panic /\
  layout_ok (GEq 4) [fnum 3 2] = false /\ fixed_parse (GEq 4) [fnum 3 2] [0; 0; 0; 0] = Panic.
Proof. repeat split; reflexivity. Qed.

(* every modelled decoder accepts something *)
Example C03_accepts :
  is_ok (parse_msg 1 (fun x => x) 2 0 (VL []) [0; 1; 0; 2; 0]) = true /\
  is_ok (parse_msg 2053 (fun x => x) 2 0 (VL []) [0; 1; 0; 0; 2; 0; 0; 0; 1; 0; 0; 0; 2]) = true /\
  is_ok (parse_msg 32771 (fun x => x) 2 0 (VL []) [0; 1; 1; 0; 7]) = true /\
  is_ok (parse_msg 34816 (fun x => x) 2 0 (VL []) [0; 0; 0; 1]) = true /\
  is_ok (parse_msg 37394 (fun x => x) 2 0 (VL []) [1; 65; 0; 1; 1; 0; 0; 0; 1; 0; 0; 0; 2]) = true /\
  is_ok (parse_msg 260 (fun x => x) 2 0 (VL []) [0; 1; 1; 0; 0; 0; 1; 4; 0; 0; 0; 9]) = true /\
  is_ok (parse_msg 258 (fun x => x) 3 0 (VL []) (1 :: repeat 65 36)) = true /\
  is_ok (parse_msg 256 (fun x => x) 3 0 (VL []) (repeat 65 77)) = true /\
  is_ok (parse_msg 4624 (fun x => x) 2 2 (VL []) (repeat 0 71 ++ [1; 1; 65; 0; 0; 0; 9])) = true /\
  is_ok (parse_msg 37384 (fun x => x) 2 3 (VL []) (0 :: repeat 1 76)) = true.
Proof. vm_compute. repeat split; reflexivity. Qed.

(* the three renderers' hypotheses are satisfiable (0x8100 with an auth code, 0x0102 in the 2019
   layout), and a non-fresh reachable receiver exists: 0x1212 after one successful parse *)
Example C03_render_examples :
  is_ok (parse_msg 33024 (fun x => x) 2 0 (VL []) [0; 1; 0; 65; 66]) = true /\
  (exists v, t0102_parse 3 (1 :: repeat 65 36) = Ok v /\ is_ok (t0102_render v) = true).
Proof. split. reflexivity. eexists. split. vm_compute. reflexivity. reflexivity. Qed.

Example C03_reach_example : exists v, v <> VL [] /\ reach 4626 (fun x => x) 0 v.
Proof.
  eexists. split; [|eapply (reach_ok 4626 (fun x => x) 0 (VL []) 2 [1; 65; 0; 0; 0; 0; 9]);
    [apply reach_fresh | right; left; reflexivity | vm_compute; reflexivity]].
  discriminate.
Qed.

(* the hypothesis on ver is needed: a header version outside the three defined values (never
   produced by jt808 Decode) leaves Version at the receiver's value and skips both guards *)
Example C03_T0x0100_version_domain : t0100_parse (fun x => x) 0 (VL []) [] = Panic.
Proof. reflexivity. Qed.

(* ---- history independence over every sequence of calls: whatever bodies (successfully parsed or
        rejected half way) a receiver has seen since it was created, the next Parse answers as a
        fresh receiver would ---- *)
Theorem C03_msg_history_seq : forall id gbk d r ver body, reach id gbk d r -> ver_ok ver ->
  parse_msg id gbk ver d r body = parse_msg id gbk ver d (VL []) body.
Proof. exact parse_msg_history_seq. Qed.
Print Assumptions C03_msg_history_seq.

(* ---- "either returns an error or returns a value": for a modelled message id the only error is
        the length error (protocol.ErrBodyLengthInconsistency); the model's internal error numbers
        (unknown id, out of fuel) are never the answer ---- *)
Theorem C03_msg_only_length_error : forall id gbk ver d r body e, mem id modelled_ids = true ->
  parse_msg id gbk ver d r body = Err e -> e = E_LEN.
Proof. exact parse_msg_only_len. Qed.
Print Assumptions C03_msg_only_length_error.

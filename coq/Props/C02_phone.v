(* The BCD rendering shared by C02 (TerminalPhoneNo of a decoded frame), C17 (the SIM of a decoded
   RTP packet) and C07 (every text produced by utils.Bcd2Dec): Prelude.bcd2dec, the model of
   utils.Bcd2Dec / bcdConvert / nibbleToHexChar, IS the standard's reading of a BCD[n] field.
   Only statements here; the spec (bcd_digits, digits_value, drop_zeros, significant,
   std_bcd_text, text_value, all_decimal) and the proofs are in Proofs/Bcd_spec.v.

   Spec, written on DIGITS and independently of the code (which works on characters): the nibbles
   of the field, high nibble first; its number is the decimal value of that digit string; its text
   is the digit string without leading zeros, except that a field of zeros only is written with all
   its zeros ("000000000000" stays as it is — what the library does, and what keeps the text
   non-empty).  Domain: "every BCD phone" = decimal nibbles (all_decimal l = true).  Nibbles above 9
   are NOT rejected by the library, they are rendered 'a'..'f': C02_bcd_text holds for every byte
   list, C02_bcd_hex says what the characters are then. *)
From JT.Base Require Import Prelude.
From JT.Model Require Import Frame Jt1078.
From JT.Proofs Require Import Bcd_spec.

(* the code is the spec, for EVERY byte list (no hypothesis) *)
Theorem C02_bcd_text : forall l, bcd2dec l = std_bcd_text l.
Proof. exact bcd2dec_spec. Qed.
Print Assumptions C02_bcd_text.

(* on a decimal field:
   (a) every character is a decimal digit character;
   (b) no leading '0' unless every nibble is 0, and then the text is all 2n zeros;
   (c) the decimal value of the text is the value of the digit string sum d_i * 10^(n-1-i);
   (d) not all zero: the text is the digit string without its leading zeros, as characters *)
Theorem C02_bcd_decimal : forall l, all_decimal l = true ->
  Forall (fun c => 48 <= c <= 57) (bcd2dec l) /\
  (drop_zeros (bcd_digits l) <> [] -> exists c t, bcd2dec l = c :: t /\ c <> 48) /\
  (drop_zeros (bcd_digits l) = [] -> bcd2dec l = repeat 48 (2 * List.length l)) /\
  text_value (bcd2dec l) = digits_value (bcd_digits l) /\
  (drop_zeros (bcd_digits l) <> [] -> bcd2dec l = map digit_char (drop_zeros (bcd_digits l))).
Proof.
  intros l H. split. now apply bcd2dec_digit_chars.
  split. apply bcd2dec_leading. split. apply bcd2dec_leading.
  split. now apply bcd2dec_value. now apply bcd2dec_decimal.
Qed.
Print Assumptions C02_bcd_decimal.

(* outside the domain: hexadecimal nibbles are rendered, lower case, not rejected *)
Theorem C02_bcd_hex : forall l, bytes l ->
  Forall (fun c => 48 <= c <= 57 \/ 97 <= c <= 102) (bcd2dec l).
Proof. exact bcd2dec_hex_chars. Qed.
Print Assumptions C02_bcd_hex.

(* C02.10: TerminalPhoneNo of a decoded frame = the standard's reading of the six (2013) or ten
   (2019) BCD bytes of its header *)
Theorem C02_phone : forall d m, bytes d -> Frame.decode d = Ok m ->
  phone_of m = std_bcd_text (m_bcd m) /\
  List.length (m_bcd m) = (if m_ver m =? 1 then 10%nat else 6%nat) /\
  (all_decimal (m_bcd m) = true ->
     Forall (fun c => 48 <= c <= 57) (phone_of m) /\
     text_value (phone_of m) = digits_value (bcd_digits (m_bcd m))).
Proof. exact frame_phone. Qed.
Print Assumptions C02_phone.

(* C17.1: the SIM of a decoded RTP packet (Packet.Sim = Bcd2Dec(data[8:14])) likewise, for every
   previous receiver *)
Theorem C17_sim : forall r d p rest, Jt1078.decode r d = Ok (p, rest) ->
  k_sim p = sub d 8 14 /\ List.length (k_sim p) = 6%nat /\ bcd2dec (k_sim p) = std_bcd_text (k_sim p) /\
  (all_decimal (k_sim p) = true ->
     Forall (fun c => 48 <= c <= 57) (bcd2dec (k_sim p)) /\
     text_value (bcd2dec (k_sim p)) = digits_value (bcd_digits (k_sim p))).
Proof. exact rtp_sim. Qed.
Print Assumptions C17_sim.

(* non-vacuity and the corner cases: a phone with leading zeros, the all-zero phone, a field with a
   hexadecimal nibble *)
Example C02_bcd_examples :
  all_decimal [1; 35; 69; 103; 137; 1] = true /\
  bcd2dec [1; 35; 69; 103; 137; 1] = [49; 50; 51; 52; 53; 54; 55; 56; 57; 48; 49] (* "12345678901" *) /\
  text_value (bcd2dec [1; 35; 69; 103; 137; 1]) = 12345678901 /\
  bcd2dec [0; 0; 0; 0; 0; 0] = repeat 48 12 /\
  bcd2dec [0; 26] = [49; 97] (* "1a" *) /\ all_decimal [0; 26] = false.
Proof. vm_compute. repeat split; reflexivity. Qed.

(* C20 — the terminal simulator and the codec agree.
   Only statements here; every proof is `exact <lemma of Proofs/Sim_proofs.v>`.

   Model/Sim.v: WithHeader (template frame with the phone substituted, checksum escaped by hand,
   decoded; the 2019 template's body-length error is ignored as the code ignores it),
   CreateCommandData / CreateDefaultCommandData (serial pre-increment mod 65536, Header.Encode with
   ProtocolVersion deciding the version byte), ExpectedReply (decode, ReplyProtocol/ReplyBody of the
   simulator's handler — nil when it fails —, Header.Encode).  Phones are lists of decimal digits,
   versions 1/2/3 = 2011/2013/2019.  The frame decoder is Model/Frame.v (C01), the server's reply
   path is Model/Reply.v (C06). *)
From JT.Base Require Import Prelude.
From JT.Model Require Import Frame Reply Sim.
From JT.Proofs Require Import Frame_proofs Reply_proofs Sim_proofs.

(* WithHeader succeeds for every phone of the domain and yields the header of that phone and version,
   serial counter 0 — including the phones whose template checksum is 0x7e or 0x7d *)
Theorem C20_with_header : forall ver phone, digits phone -> (length phone <= maxlen ver)%nat ->
  with_header ver phone = Ok (sim0 ver phone).
Proof. exact with_header_ok. Qed.
Print Assumptions C20_with_header.

(* every frame of every sequence of CreateCommandData calls (any commands, any bodies up to 1023
   bytes, any length — the serial wraps) is accepted by the decoder with that command id, that
   phone (leading zeros aside), the layout of the version, no fragment / encryption bit, the body,
   and serial = number of the frame mod 65536 *)
Theorem C20_frames_decode : forall ver phone cs k cmd body,
  digits phone -> (length phone <= maxlen ver)%nat ->
  nth_error cs k = Some (cmd, body) -> cmd < 65536 -> (length body <= 1023)%nat ->
  exists t f m,
    with_header ver phone = Ok t /\ nth_error (create_all t cs) k = Some f /\
    decode f = Ok m /\
    m_id m = (if cmd =? 0 then 2 else cmd) /\
    m_bcd m = phone_bcd ver phone /\ strip0 (phone_of m) = strip0 (map dchar phone) /\
    m_ver m = (if ver =? V2019 then 1 else 0) /\ m_frag m = 0 /\ m_enc m = 0 /\
    m_serial m = N.of_nat (S k) mod 65536 /\ m_body m = body /\ m_len m = len body /\ m_sum m = 0.
Proof. exact frames_decode. Qed.
Print Assumptions C20_frames_decode.

(* ANY sequence of calls on one Terminal - CreateCommandData and CreateDefaultCommandData mixed, the
   latter also for commands the simulator has no default body for (it then returns nil): the frames
   actually produced are exactly those of the calls that produce one, generated as if the nil calls
   had never been made - a call that returns nil consumes no serial *)
Theorem C20_calls_frames : forall cs t,
  somes (run_calls t cs) = create_all t (effective (t_pv t) cs).
Proof. exact calls_frames. Qed.
Print Assumptions C20_calls_frames.

(* so the k-th frame PRODUCED by any such sequence decodes with that command, phone, layout, body and
   serial k+1 mod 65536, however many nil calls lie in between *)
Theorem C20_calls_frames_decode : forall ver phone cs k cmd body,
  digits phone -> (length phone <= maxlen ver)%nat ->
  nth_error (effective ver cs) k = Some (cmd, body) -> cmd < 65536 -> (length body <= 1023)%nat ->
  exists t f m,
    with_header ver phone = Ok t /\ nth_error (somes (run_calls t cs)) k = Some f /\
    decode f = Ok m /\
    m_id m = (if cmd =? 0 then 2 else cmd) /\
    m_bcd m = phone_bcd ver phone /\ strip0 (phone_of m) = strip0 (map dchar phone) /\
    m_ver m = (if ver =? V2019 then 1 else 0) /\ m_frag m = 0 /\ m_enc m = 0 /\
    m_serial m = N.of_nat (S k) mod 65536 /\ m_body m = body /\ m_len m = len body /\ m_sum m = 0.
Proof. exact calls_frames_decode. Qed.
Print Assumptions C20_calls_frames_decode.

(* serial progression, on the frames: of any two consecutive frames PRODUCED by any call sequence the
   second decodes with a serial one greater than the first, 65535 being followed by 0; the first
   produced frame carries serial 1.  (Bodies are at most 1023 bytes here and in the harness: the
   length field of the header has 10 bits, a longer body cannot be framed; the property's "all custom
   bodies" is read as "all bodies that fit a frame".) *)
Theorem C20_serial_progression : forall ver phone cs k c1 b1 c2 b2,
  digits phone -> (length phone <= maxlen ver)%nat ->
  nth_error (effective ver cs) k = Some (c1, b1) -> nth_error (effective ver cs) (S k) = Some (c2, b2) ->
  c1 < 65536 -> c2 < 65536 -> (length b1 <= 1023)%nat -> (length b2 <= 1023)%nat ->
  exists t f1 f2 m1 m2,
    with_header ver phone = Ok t /\
    nth_error (somes (run_calls t cs)) k = Some f1 /\ nth_error (somes (run_calls t cs)) (S k) = Some f2 /\
    decode f1 = Ok m1 /\ decode f2 = Ok m2 /\
    m_serial m2 = (m_serial m1 + 1) mod 65536.
Proof. exact calls_serial_progression. Qed.
Print Assumptions C20_serial_progression.

Theorem C20_first_serial : forall ver phone cs c b,
  digits phone -> (length phone <= maxlen ver)%nat ->
  nth_error (effective ver cs) 0 = Some (c, b) -> c < 65536 -> (length b <= 1023)%nat ->
  exists t f m, with_header ver phone = Ok t /\ nth_error (somes (run_calls t cs)) 0 = Some f /\
    decode f = Ok m /\ m_serial m = 1.
Proof. exact calls_first_serial. Qed.
Print Assumptions C20_first_serial.

(* the reply the simulator predicts is, byte for byte, the frame the server's writer sends: for
   every frame [f] of a command that the simulator supports and the server answers (sim_reply_ids),
   that is complete (not a lone fragment), not a too-short 2019 0x0102 and whose body is well formed
   as far as the reply needs it (body_wf; outside it: C20_refuted_expected_reply_malformed_1212), every state of
   the simulator (whatever it predicted before), every state [c] of the connection whose next
   message is [f] (whatever the connection's handlers parsed before), platform serial = the
   connection's counter *)
Theorem C20_expected_reply : forall t c d q f,
  decode f = Ok (d_m d) -> c_q c = d :: q ->
  In (m_id (d_m d)) sim_reply_ids -> has_complete d = true ->
  auth_too_short (d_m d) = false -> body_wf (d_m d) = true ->
  exists w, writes (snd (step c MReply)) = [w] /\ w_kind w = WReply /\ w_src w = Some d /\
            w_ps w = c_seq c /\
            snd (expected_reply t (c_seq c) f) = Some (wire_bytes w).
Proof. exact expected_reply_is_server_reply. Qed.
Print Assumptions C20_expected_reply.

(* a generated frame is never a fragment (m_sum m = 0 above), so as a delivered message it is complete:
   the hypothesis [has_complete] of C20_expected_reply holds for every generated frame *)
Theorem C20_generated_frames_complete : forall d, m_sum (d_m d) = 0 -> has_complete d = true.
Proof. exact unfragmented_complete. Qed.
Print Assumptions C20_generated_frames_complete.

(* every default body (3 versions x 24 commands) fits a frame, so C20_calls_frames_decode applies to
   every CDefault call *)
Theorem C20_default_bodies_fit : forall ver cmd b, default_body ver cmd = Some b -> (length b <= 1023)%nat.
Proof. exact default_bodies_fit. Qed.
Print Assumptions C20_default_bodies_fit.

(* Bodies over 1023 bytes (known finding C20/body-over-1023: CreateCommandData does not refuse them).
   The universal fact: whatever frame the decoder accepts, the body it delivers has at most 1023 bytes
   (ten-bit length field); hence for EVERY Terminal state, command and body of 1024 bytes or more, the
   frame CreateCommandData ([create_command]) produces never decodes to that body - it is rejected or
   decodes to something else.  All other statements are for bodies of at most 1023 bytes. *)
Theorem C20_decoded_body_at_most_1023 : forall f m, decode f = Ok m -> (length (m_body m) <= 1023)%nat.
Proof. exact decode_body_short. Qed.
Print Assumptions C20_decoded_body_at_most_1023.

Theorem C20_body_over_1023_never_delivered : forall t cmd body m,
  (1024 <= length body)%nat -> decode (snd (create_command t cmd body)) = Ok m -> m_body m <> body.
Proof. exact body_over_1023_never_delivered. Qed.
Print Assumptions C20_body_over_1023_never_delivered.
(* (The statement above is only the decoder bound read for create_command: it uses nothing about
   create_command, and its hypothesis `decode ... = Ok m` is in all likelihood never met - no instance is
   known, every frame tried is rejected.  The direct statement follows.) *)

(* REJECTION, directly: for every Terminal made by WithHeader (any version, any phone of the domain), after
   any number of generated frames (any serial counter, any handler state), for every command and EVERY body
   of 1024..2047 bytes, the frame CreateCommandData produces is rejected by the decoder with the
   body-length error (the unmasked length sets bit 10 - the encryption flag - and announces len - 1024).
   Beyond 2047 bytes the excess reaches the other two encryption bits (2048..8191), then the fragment bit (8192..) and the
   version bit (16384..); there only the bound above and
   the harness (bodies up to 4 023 bytes: all rejected) speak.  The witnesses below are instances
   (length 1024). *)
Theorem C20_body_1024_2047_rejected : forall ver phone ps hst cmd body,
  digits phone -> (length phone <= maxlen ver)%nat -> (1024 <= length body < 2048)%nat ->
  decode (snd (create_command {| t_hdr := sim_hdr ver phone; t_pv := ver; t_ps := ps; t_h := hst |} cmd body))
  = Err E_BODY_LEN.
Proof. exact body_1024_2047_rejected. Qed.
Print Assumptions C20_body_1024_2047_rejected.

(* two witnesses of what actually happens at 1024 bytes (2013 header / zero bytes, 2019 header / 0xff):
   the unmasked length sets the encryption bit and announces length 0, the decoder rejects the frame *)
Theorem C20_refuted_body_over_1023 :
  length (repeat (0 : N) 1024) = 1024%nat /\
  decode (snd (create_command (sim0 V2013 [1]) 0x0900 (repeat 0 1024))) = Err E_BODY_LEN /\
  decode (snd (create_command (sim0 V2019 [1; 3; 8]) 0x0200 (repeat 255 1024))) = Err E_BODY_LEN.
Proof. exact refuted_body_over_1023. Qed.
Print Assumptions C20_refuted_body_over_1023.

(* NOT repaired, known finding C20/expected-reply-fragment: ExpectedReply takes any frame; for a frame
   with the fragment bit (packet 1 of 2 of a 0x0200; the simulator itself never generates one: m_sum = 0
   above) it predicts a 0x8001 built from the packet alone, while the server answers nothing until the
   transfer is complete.  C20_expected_reply excludes exactly this class by [has_complete]. *)
Theorem C20_refuted_expected_reply_fragment :
  match dm ex_fragment with
  | [d] =>
    m_id (d_m d) = 0x0200 /\ In (m_id (d_m d)) sim_reply_ids /\ m_frag (d_m d) = 1 /\
    m_sum (d_m d) = 2 /\ m_no (d_m d) = 1 /\ has_complete d = false /\ body_wf (d_m d) = true /\
    writes (snd (step (final (init [d]) [MLook; MSend]) MReply)) = [] /\
    writes (run [d]) = [] /\
    snd (expected_reply (sim0 V2013 [1]) 0 ex_fragment) =
      Some [126; 128; 1; 0; 5; 1; 56; 0; 19; 128; 0; 0; 0; 0; 9; 2; 0; 0; 37; 126]
  | _ => False
  end.
Proof. exact refuted_expected_reply_fragment. Qed.
Print Assumptions C20_refuted_expected_reply_fragment.

(* the body-dependent hypotheses of C20_expected_reply (body_wf, not a too-short 0x0102) hold for EVERY
   default frame of a reply-bearing command, in every version; together with
   C20_generated_frames_complete (has_complete) and the decode / m_id conjuncts of
   C20_calls_frames_decode all hypotheses of C20_expected_reply are delivered for the simulator's own
   default frames *)
Theorem C20_default_frames_in_domain : forall ver cmd b m,
  In ver [V2011; V2013; V2019] -> In cmd sim_reply_ids -> default_body ver cmd = Some b ->
  m_id m = cmd -> m_ver m = (if ver =? V2019 then 1 else 0) -> m_body m = b ->
  body_wf m = true /\ auth_too_short m = false /\ (length b <= 1023)%nat.
Proof. exact default_frames_reply_wf. Qed.
Print Assumptions C20_default_frames_in_domain.

(* a 2019 authentication too short for its fixed fields is, by design, logged and not answered by
   the server; the simulator predicts no reply for it (after fix f33c7a0) *)
Theorem C20_expected_no_reply : forall t c d q f seq,
  decode f = Ok (d_m d) -> c_q c = d :: q -> m_id (d_m d) = 0x0102 ->
  auth_too_short (d_m d) = true ->
  writes (snd (step c MReply)) = [] /\ snd (expected_reply t seq f) = None.
Proof. exact expected_no_reply_too_short. Qed.
Print Assumptions C20_expected_no_reply.

(* NOT repaired, known finding C20/expected-reply-malformed-1212: outside [body_wf] the prediction
   can differ from what a fresh connection sends (0x1212 with body 01 02: both sides answer from
   what their handler instance held before; the simulator's is preset with "123_aaa.jpg") *)
Theorem C20_refuted_expected_reply_malformed_1212 :
  exists m, decode ex_bad_1212 = Ok m /\ m_id m = 0x1212 /\ body_wf m = false /\
    let d := {| d_m := m; d_complete := false; d_data := ex_bad_1212 |} in
    exists w, writes (snd (step (final (init [d]) [MLook; MSend]) MReply)) = [w] /\
      snd (expected_reply (sim0 V2013 [1]) 0 ex_bad_1212) <> Some (wire_bytes w).
Proof. exact refuted_expected_reply_malformed_1212. Qed.
Print Assumptions C20_refuted_expected_reply_malformed_1212.

(* the simulator's handler table and the server's agree on the reply type and reply-body method of
   every such command *)
Theorem C20_tables_agree : forallb tables_agree sim_reply_ids = true.
Proof. exact sim_tables_agree. Qed.
Print Assumptions C20_tables_agree.

(* non-vacuity: phones whose template checksum has to be escaped *)
Example C20_template_checksum_escaped :
  xor_all (template_payload V2013 [7; 5; 0; 9]) = 126 /\ xor_all (template_payload V2013 [7; 8; 0; 7]) = 125.
Proof. exact example_template_escapes. Qed.

(* a generated frame (a nil call for 0x0104 first: no serial consumed), decoded; and the prediction for
   it = the frame the server model writes for it, byte for byte *)
Example C20_generated_frame :
  exists f m, nth_error (somes (run_calls (sim0 V2013 [7; 5; 0; 9]) [CDefault 0x0104; CDefault 0x0002])) 0 = Some f /\
    f = [126; 0; 2; 0; 0; 0; 0; 0; 0; 117; 9; 0; 1; 127; 126] /\
    decode f = Ok m /\ m_id m = 2 /\ m_serial m = 1 /\ phone_of m = [55; 53; 48; 57].
Proof. exact example_generated_frame. Qed.
Example C20_expected_reply_instance :
  let f := [126; 0; 2; 0; 0; 0; 0; 0; 0; 117; 9; 0; 1; 127; 126] in
  exists r, map wire_bytes (writes (run (dm f))) = [r] /\
            snd (expected_reply (sim0 V2013 [7; 5; 0; 9]) 0 f) = Some r.
Proof. exact example_expected_reply. Qed.
(* an instance of C20_expected_no_reply: a 2019 0x0102 with a 2-byte body generated by the simulator *)
Example C20_expected_no_reply_instance :
  match dm ex_short_0102 with
  | [d] => m_id (d_m d) = 0x0102 /\ auth_too_short (d_m d) = true /\
           snd (expected_reply (sim0 V2019 [1]) 7 ex_short_0102) = None /\ writes (run [d]) = []
  | _ => False
  end.
Proof. exact example_expected_no_reply. Qed.

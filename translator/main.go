// go2tables — regenerates coq/Gen/Tables_gen.v from /repo's CURRENT source on every run.
//
// It recognises (go/ast + go/types on shared/consts only, no other dependency) the table-like places
// where a one-token change breaks a property, and emits them as Gallina data:
//
//	T1 bit tables       sequences of `if data[K] == '1' { x.F = true }`  -> list (K, field number)
//	T2 length table     the `contrastFunc` switch                          -> list (id, admissible lengths)
//	T4 dialect widths   getTerminalIDLen / getAlarmSignLen switches        -> list (type, (id len, sign len))
//	T5 reply registry   createDefaultHandle + HasReply/ReplyProtocol       -> list (id, (has_reply, reply_id))
//	T6 constants        escape bytes, read-buffer size, channel capacities, 5 s / 60 s, jt1078 data types, marker
//
// coq/Gen/TablesOk.v then proves regenerated = hand-written model tables.  A shape that is no longer
// recognised is reported as `gen_unrecognised` and the corresponding definition is omitted, which
// breaks the TablesOk obligation (reported by bin/check as a broken tie).
package main

import (
	"flag"
	"fmt"
	"go/ast"
	"go/constant"
	"go/importer"
	"go/parser"
	"go/token"
	"go/types"
	"os"
	"path/filepath"
	"sort"
	"strconv"
	"strings"
)

var (
	fset         = token.NewFileSet()
	out          strings.Builder
	unrecognised []string
	consts       = map[string]int64{} // shared/consts exported constants
)

func fail(item, why string) { unrecognised = append(unrecognised, item+": "+why) }

func parseDir(dir string) map[string]*ast.File {
	pkgs, err := parser.ParseDir(fset, dir, func(fi os.FileInfo) bool { return !strings.HasSuffix(fi.Name(), "_test.go") }, parser.ParseComments)
	if err != nil {
		fmt.Fprintln(os.Stderr, "parse", dir, err)
		os.Exit(1)
	}
	files := map[string]*ast.File{}
	for _, p := range pkgs {
		for name, f := range p.Files {
			files[filepath.Base(name)] = f
		}
	}
	return files
}

func loadConsts(dir string) {
	files := parseDir(dir)
	var fl []*ast.File
	names := []string{}
	for n := range files {
		names = append(names, n)
	}
	sort.Strings(names)
	for _, n := range names {
		fl = append(fl, files[n])
	}
	conf := types.Config{Importer: importer.ForCompiler(fset, "source", nil), Error: func(error) {}}
	pkg, _ := conf.Check("consts", fset, fl, nil)
	if pkg == nil {
		fail("consts", "type check failed")
		return
	}
	for _, n := range pkg.Scope().Names() {
		if c, ok := pkg.Scope().Lookup(n).(*types.Const); ok {
			if v, ok := constant.Int64Val(constant.ToInt(c.Val())); ok {
				consts[n] = v
			}
		}
	}
}

// intOf evaluates integer literals, consts.X selectors and local identifiers found in `local`.
func intOf(e ast.Expr, local map[string]int64) (int64, bool) {
	switch x := e.(type) {
	case *ast.BasicLit:
		if x.Kind == token.INT {
			v, err := strconv.ParseInt(x.Value, 0, 64)
			return v, err == nil
		}
		if x.Kind == token.CHAR {
			r, _, _, err := strconv.UnquoteChar(x.Value[1:len(x.Value)-1], '\'')
			return int64(r), err == nil
		}
	case *ast.SelectorExpr:
		if id, ok := x.X.(*ast.Ident); ok && id.Name == "consts" {
			v, ok := consts[x.Sel.Name]
			return v, ok
		}
	case *ast.Ident:
		if v, ok := local[x.Name]; ok {
			return v, true
		}
		if v, ok := consts[x.Name]; ok {
			return v, true
		}
	case *ast.ParenExpr:
		return intOf(x.X, local)
	case *ast.UnaryExpr:
		if x.Op == token.SUB {
			v, ok := intOf(x.X, local)
			return -v, ok
		}
	case *ast.CallExpr: // conversions like uint16(0), byte(1)
		if len(x.Args) == 1 {
			return intOf(x.Args[0], local)
		}
	}
	return 0, false
}

func findFunc(files map[string]*ast.File, recv, name string) *ast.FuncDecl {
	for _, f := range files {
		for _, d := range f.Decls {
			fd, ok := d.(*ast.FuncDecl)
			if !ok || fd.Name.Name != name {
				continue
			}
			r := ""
			if fd.Recv != nil && len(fd.Recv.List) == 1 {
				t := fd.Recv.List[0].Type
				if s, ok := t.(*ast.StarExpr); ok {
					t = s.X
				}
				if ix, ok := t.(*ast.IndexListExpr); ok {
					t = ix.X
				}
				if id, ok := t.(*ast.Ident); ok {
					r = id.Name
				}
			}
			if r == recv {
				return fd
			}
		}
	}
	return nil
}

func structFields(files map[string]*ast.File, name string) ([]string, []string) {
	var fields, embedded []string
	for _, f := range files {
		ast.Inspect(f, func(n ast.Node) bool {
			ts, ok := n.(*ast.TypeSpec)
			if !ok || ts.Name.Name != name {
				return true
			}
			st, ok := ts.Type.(*ast.StructType)
			if !ok {
				return true
			}
			for _, fl := range st.Fields.List {
				if len(fl.Names) == 0 {
					t := fl.Type
					if s, ok := t.(*ast.StarExpr); ok {
						t = s.X
					}
					if id, ok := t.(*ast.Ident); ok {
						embedded = append(embedded, id.Name)
						fields = append(fields, id.Name)
					}
					continue
				}
				for _, nm := range fl.Names {
					fields = append(fields, nm.Name)
				}
			}
			return false
		})
	}
	return fields, embedded
}

func nlist(xs []int64) string {
	s := make([]string, len(xs))
	for i, x := range xs {
		s[i] = strconv.FormatInt(x, 10)
	}
	return "[" + strings.Join(s, "; ") + "]"
}

// ---- T1 ----
func bitTable(files map[string]*ast.File, item, recv, fn, structName string) {
	fd := findFunc(files, recv, fn)
	if fd == nil {
		fail(item, "function not found")
		return
	}
	fields, _ := structFields(files, structName)
	if len(fields) == 0 {
		fail(item, "struct not found")
		return
	}
	idx := map[string]int{}
	for i, f := range fields {
		idx[f] = i
	}
	var pairs []string
	okAll := true
	ast.Inspect(fd.Body, func(n ast.Node) bool {
		is, ok := n.(*ast.IfStmt)
		if !ok {
			return true
		}
		be, ok := is.Cond.(*ast.BinaryExpr)
		if !ok || be.Op != token.EQL {
			return true
		}
		ie, ok := be.X.(*ast.IndexExpr)
		if !ok {
			return true
		}
		k, ok1 := intOf(ie.Index, nil)
		ch, ok2 := intOf(be.Y, nil)
		if !ok1 || !ok2 || ch != '1' {
			return true // not a flag test (e.g. the two-character cargo decision): ignored here
		}
		if len(is.Body.List) != 1 || is.Else != nil {
			okAll = false
			return true
		}
		as, ok := is.Body.List[0].(*ast.AssignStmt)
		if !ok || len(as.Lhs) != 1 || len(as.Rhs) != 1 {
			okAll = false
			return true
		}
		sel, ok := as.Lhs[0].(*ast.SelectorExpr)
		v, okv := as.Rhs[0].(*ast.Ident)
		if !ok || !okv || v.Name != "true" {
			okAll = false
			return true
		}
		fi, ok := idx[sel.Sel.Name]
		if !ok {
			okAll = false
			return true
		}
		pairs = append(pairs, fmt.Sprintf("(%d,%d)", k, fi))
		return true
	})
	if !okAll || len(pairs) == 0 {
		fail(item, "unexpected statement shape")
		return
	}
	q := make([]string, len(fields))
	for i, f := range fields {
		q[i] = strconv.Quote(f)
	}
	fmt.Fprintf(&out, "Definition gen_%s_fields : list string := [%s]%%string.\n", item, strings.Join(q, "; "))
	fmt.Fprintf(&out, "Definition gen_%s_table : list (N * N) := [%s].\n\n", item, strings.Join(pairs, "; "))
}

// ---- T2 ----
func lenTable(files map[string]*ast.File) {
	fd := findFunc(files, "T0x0200AdditionDetails", "parse")
	if fd == nil {
		fail("item_len", "parse not found")
		return
	}
	var sw *ast.SwitchStmt
	ast.Inspect(fd.Body, func(n ast.Node) bool {
		if as, ok := n.(*ast.AssignStmt); ok && len(as.Lhs) == 1 {
			if id, ok := as.Lhs[0].(*ast.Ident); ok && id.Name == "contrastFunc" {
				ast.Inspect(as.Rhs[0], func(m ast.Node) bool {
					if s, ok := m.(*ast.SwitchStmt); ok && sw == nil {
						sw = s
					}
					return true
				})
			}
		}
		return true
	})
	if sw == nil {
		fail("item_len", "contrastFunc switch not found")
		return
	}
	var rows []string
	for _, st := range sw.Body.List {
		cc := st.(*ast.CaseClause)
		if cc.List == nil {
			fail("item_len", "default clause present")
			return
		}
		if len(cc.Body) != 1 {
			fail("item_len", "case body shape")
			return
		}
		rs, ok := cc.Body[0].(*ast.ReturnStmt)
		if !ok || len(rs.Results) != 1 {
			fail("item_len", "case body shape")
			return
		}
		var lens []int64
		var collect func(e ast.Expr) bool
		collect = func(e ast.Expr) bool {
			be, ok := e.(*ast.BinaryExpr)
			if !ok {
				return false
			}
			if be.Op == token.LOR {
				return collect(be.X) && collect(be.Y)
			}
			if be.Op == token.EQL {
				if id, ok := be.X.(*ast.Ident); ok && id.Name == "additionLen" {
					if v, ok := intOf(be.Y, nil); ok {
						lens = append(lens, v)
						return true
					}
				}
			}
			return false
		}
		if !collect(rs.Results[0]) {
			fail("item_len", "return expression shape")
			return
		}
		for _, e := range cc.List {
			id, ok := intOf(e, nil)
			if !ok {
				fail("item_len", "case value")
				return
			}
			rows = append(rows, fmt.Sprintf("(%d, %s)", id, nlist(lens)))
		}
	}
	// the fall-through after the switch must be `return true` (unlisted ids accept every length)
	fmt.Fprintf(&out, "Definition gen_item_len_table : list (N * list N) := [%s].\n\n", strings.Join(rows, "; "))
}

// ---- T4 ----
func switchReturns(fd *ast.FuncDecl) (map[int64]int64, int64, bool) {
	res := map[int64]int64{}
	def := int64(-1)
	ok := true
	for _, st := range fd.Body.List {
		switch s := st.(type) {
		case *ast.SwitchStmt:
			for _, c := range s.Body.List {
				cc := c.(*ast.CaseClause)
				if cc.List == nil {
					if len(cc.Body) != 0 {
						ok = false
					}
					continue
				}
				if len(cc.Body) != 1 {
					ok = false
					continue
				}
				rs, isr := cc.Body[0].(*ast.ReturnStmt)
				if !isr || len(rs.Results) != 1 {
					ok = false
					continue
				}
				v, okv := intOf(rs.Results[0], nil)
				for _, e := range cc.List {
					k, okk := intOf(e, nil)
					if !okk || !okv {
						ok = false
						continue
					}
					res[k] = v
				}
			}
		case *ast.ReturnStmt:
			if len(s.Results) == 1 {
				if v, okv := intOf(s.Results[0], nil); okv {
					def = v
				} else {
					ok = false
				}
			}
		default:
			ok = false
		}
	}
	return res, def, ok && def >= 0
}

func dialectWidths(files map[string]*ast.File) {
	f1 := findFunc(files, "P9208AlarmSign", "getTerminalIDLen")
	f2 := findFunc(files, "P9208AlarmSign", "getAlarmSignLen")
	if f1 == nil || f2 == nil {
		fail("dialect_widths", "functions not found")
		return
	}
	a, da, ok1 := switchReturns(f1)
	b, db, ok2 := switchReturns(f2)
	if !ok1 || !ok2 {
		fail("dialect_widths", "switch shape")
		return
	}
	keys := map[int64]bool{}
	for k := range a {
		keys[k] = true
	}
	for k := range b {
		keys[k] = true
	}
	var ks []int64
	for k := range keys {
		ks = append(ks, k)
	}
	sort.Slice(ks, func(i, j int) bool { return ks[i] < ks[j] })
	var rows []string
	for _, k := range ks {
		x, okx := a[k]
		if !okx {
			x = da
		}
		y, oky := b[k]
		if !oky {
			y = db
		}
		rows = append(rows, fmt.Sprintf("(%d, (%d, %d))", k, x, y))
	}
	fmt.Fprintf(&out, "Definition gen_dialect_widths : list (N * (N * N)) := [%s].\n", strings.Join(rows, "; "))
	fmt.Fprintf(&out, "Definition gen_dialect_default : N * N := (%d, %d).\n\n", da, db)
}

// ---- T5 ----
func constMethod(files map[string]*ast.File, typ, method string, depth int) (int64, bool) {
	if depth > 3 {
		return 0, false
	}
	if fd := findFunc(files, typ, method); fd != nil {
		if len(fd.Body.List) == 1 {
			if rs, ok := fd.Body.List[0].(*ast.ReturnStmt); ok && len(rs.Results) == 1 {
				if id, ok := rs.Results[0].(*ast.Ident); ok && (id.Name == "true" || id.Name == "false") {
					if id.Name == "true" {
						return 1, true
					}
					return 0, true
				}
				return intOf(rs.Results[0], nil)
			}
		}
		return 0, false
	}
	_, emb := structFields(files, typ)
	for _, e := range emb {
		if v, ok := constMethod(files, e, method, depth+1); ok {
			return v, true
		}
	}
	return 0, false
}

func replyRegistry(svc, model map[string]*ast.File) {
	fd := findFunc(svc, "GoJT808", "createDefaultHandle")
	if fd == nil {
		fail("reply_registry", "createDefaultHandle not found")
		return
	}
	var lit *ast.CompositeLit
	ast.Inspect(fd.Body, func(n ast.Node) bool {
		if c, ok := n.(*ast.CompositeLit); ok && lit == nil {
			if _, ok := c.Type.(*ast.MapType); ok {
				lit = c
			}
		}
		return true
	})
	if lit == nil {
		fail("reply_registry", "map literal not found")
		return
	}
	var rows []string
	for _, el := range lit.Elts {
		kv := el.(*ast.KeyValueExpr)
		id, ok := intOf(kv.Key, nil)
		if !ok {
			fail("reply_registry", "key")
			return
		}
		// newDefaultHandle(&model.T{})
		typ := ""
		ast.Inspect(kv.Value, func(n ast.Node) bool {
			if c, ok := n.(*ast.CompositeLit); ok {
				if se, ok := c.Type.(*ast.SelectorExpr); ok {
					typ = se.Sel.Name
				}
			}
			return true
		})
		has, ok1 := constMethod(model, typ, "HasReply", 0)
		rid, ok2 := constMethod(model, typ, "ReplyProtocol", 0)
		prot, ok3 := constMethod(model, typ, "Protocol", 0)
		if typ == "" || !ok1 || !ok2 || !ok3 {
			fail("reply_registry", "methods of "+typ)
			return
		}
		hb := "false"
		if has == 1 {
			hb = "true"
		}
		rows = append(rows, fmt.Sprintf("(%d, (%s, %d, %d))", id, hb, rid, prot))
	}
	fmt.Fprintf(&out, "(* createDefaultHandle in source order: (registered id, (HasReply, ReplyProtocol, Protocol)) *)\n")
	fmt.Fprintf(&out, "Definition gen_reply_registry : list (N * (bool * N * N)) := [%s].\n\n", strings.Join(rows, "; "))
}

// ---- T6 ----
func constBlock(fd *ast.FuncDecl) map[string]int64 {
	res := map[string]int64{}
	if fd == nil {
		return res
	}
	ast.Inspect(fd.Body, func(n ast.Node) bool {
		if vs, ok := n.(*ast.ValueSpec); ok {
			for i, nm := range vs.Names {
				if i < len(vs.Values) {
					if v, ok := intOf(vs.Values[i], nil); ok {
						res[nm.Name] = v
					}
				}
			}
		}
		return true
	})
	return res
}

func byteLits(fd *ast.FuncDecl, local map[string]int64) [][]int64 {
	var res [][]int64
	ast.Inspect(fd.Body, func(n ast.Node) bool {
		if c, ok := n.(*ast.CompositeLit); ok {
			if at, ok := c.Type.(*ast.ArrayType); ok {
				if id, ok := at.Elt.(*ast.Ident); ok && id.Name == "byte" {
					var row []int64
					for _, e := range c.Elts {
						if v, ok := intOf(e, local); ok {
							row = append(row, v)
						}
					}
					res = append(res, row)
				}
			}
		}
		return true
	})
	return res
}

func caseValues(fd *ast.FuncDecl, local map[string]int64) []int64 {
	var res []int64
	ast.Inspect(fd.Body, func(n ast.Node) bool {
		if cc, ok := n.(*ast.CaseClause); ok {
			for _, e := range cc.List {
				if v, ok := intOf(e, local); ok {
					res = append(res, v)
				}
			}
		}
		return true
	})
	return res
}

func constants(repo string) {
	codec := parseDir(filepath.Join(repo, "protocol/jt808"))
	esc, unesc := findFunc(codec, "", "escape"), findFunc(codec, "", "unescape")
	if esc == nil || unesc == nil {
		fail("escape_consts", "functions not found")
	} else {
		lc := constBlock(esc)
		lits := byteLits(esc, lc)
		cv := caseValues(esc, lc)
		// escape: case flag0x7e -> {0x7d,0x02}; case flag0x7d -> {0x7d,0x01}  (source order)
		var rows []string
		if len(cv) == len(lits) {
			for i := range cv {
				rows = append(rows, fmt.Sprintf("(%d, %s)", cv[i], nlist(lits[i])))
			}
			fmt.Fprintf(&out, "Definition gen_escape_cases : list (N * list N) := [%s].\n", strings.Join(rows, "; "))
		} else {
			fail("escape_consts", "escape switch shape")
		}
		lu := constBlock(unesc)
		cu := caseValues(unesc, lu)
		fmt.Fprintf(&out, "Definition gen_unescape_consts : list N := [%d; %d].  (* beforeEscape, afterRecover *)\n", lu["beforeEscape"], lu["afterRecover"])
		fmt.Fprintf(&out, "Definition gen_unescape_cases : list N := %s.  (* partner bytes in case order: -> 0x7d, -> 0x7e *)\n\n", nlist(cu))
	}
	// service: read buffer, channel capacities, timeouts, delimiter
	svc := parseDir(filepath.Join(repo, "service"))
	caps := map[string]int64{}
	var bufSize int64 = -1
	for _, f := range svc {
		ast.Inspect(f, func(n ast.Node) bool {
			if kv, ok := n.(*ast.KeyValueExpr); ok {
				if id, ok := kv.Key.(*ast.Ident); ok {
					if c, ok := kv.Value.(*ast.CallExpr); ok {
						if fn, ok := c.Fun.(*ast.Ident); ok && fn.Name == "make" && len(c.Args) == 2 {
							if _, ok := c.Args[0].(*ast.ChanType); ok {
								if v, ok := intOf(c.Args[1], nil); ok {
									caps[id.Name] = v
								}
							}
						}
					}
				}
			}
			return true
		})
	}
	if rd := findFunc(svc, "connection", "reader"); rd != nil {
		ast.Inspect(rd.Body, func(n ast.Node) bool {
			if vs, ok := n.(*ast.ValueSpec); ok {
				for i, nm := range vs.Names {
					if nm.Name == "curData" && i < len(vs.Values) {
						if c, ok := vs.Values[i].(*ast.CallExpr); ok && len(c.Args) == 2 {
							if v, ok := intOf(c.Args[1], nil); ok {
								bufSize = v
							}
						}
					}
				}
			}
			return true
		})
	}
	if bufSize < 0 {
		fail("read_buffer", "curData make not found")
	} else {
		fmt.Fprintf(&out, "Definition gen_read_buffer_size : N := %d.\n", bufSize)
	}
	var names []string
	for k := range caps {
		names = append(names, k)
	}
	sort.Strings(names)
	var rows []string
	for _, k := range names {
		rows = append(rows, fmt.Sprintf("(%s%%string, %d)", strconv.Quote(k), caps[k]))
	}
	fmt.Fprintf(&out, "Definition gen_chan_caps : list (string * N) := [%s].\n", strings.Join(rows, "; "))
	secs := func(recv, fn string) (int64, bool) {
		fd := findFunc(svc, recv, fn)
		if fd == nil {
			return 0, false
		}
		var v int64
		found := false
		ast.Inspect(fd.Body, func(n ast.Node) bool {
			if be, ok := n.(*ast.BinaryExpr); ok && be.Op == token.MUL && !found {
				if se, ok := be.Y.(*ast.SelectorExpr); ok && se.Sel.Name == "Second" {
					if x, ok := intOf(be.X, nil); ok {
						v, found = x, true
					}
				}
			}
			return true
		})
		return v, found
	}
	d60, ok1 := secs("packageParse", "deleteTimeoutPackage")
	d5, ok2 := secs("packageParse", "supplementarySubPackage")
	if ok1 && ok2 {
		fmt.Fprintf(&out, "Definition gen_subpkg_expiry_s : N := %d.\nDefinition gen_subpkg_rerequest_s : N := %d.\n", -d60, -d5)
	} else {
		fail("subpkg_timeouts", "durations not found")
	}
	up := findFunc(svc, "packageParse", "unpack")
	if up != nil {
		lc := constBlock(up)
		fmt.Fprintf(&out, "Definition gen_stream_delimiter : N := %d.\n\n", lc["sign"])
	} else {
		fail("stream_delimiter", "unpack not found")
	}
	// jt1078
	j78 := parseDir(filepath.Join(repo, "protocol/jt1078"))
	var fl []*ast.File
	for _, n := range []string{"consts.go"} {
		if f, ok := j78[n]; ok {
			fl = append(fl, f)
		}
	}
	conf := types.Config{Importer: importer.ForCompiler(fset, "source", nil), Error: func(error) {}}
	if pkg, _ := conf.Check("jt1078", fset, fl, nil); pkg != nil {
		var rows []string
		for _, n := range []string{"DataTypeI", "DataTypeP", "DataTypeB", "DataTypeA", "DataTypePenetrate"} {
			if c, ok := pkg.Scope().Lookup(n).(*types.Const); ok {
				v, _ := constant.Int64Val(constant.ToInt(c.Val()))
				rows = append(rows, strconv.FormatInt(v, 10))
			} else {
				fail("jt1078_datatypes", n+" missing")
			}
		}
		fmt.Fprintf(&out, "Definition gen_jt1078_datatypes : list N := [%s].  (* I, P, B, A, Penetrate *)\n", strings.Join(rows, "; "))
	}
	if dh := findFunc(j78, "Packet", "decodeHead"); dh != nil {
		marker := ""
		ast.Inspect(dh.Body, func(n ast.Node) bool {
			if be, ok := n.(*ast.BinaryExpr); ok && be.Op == token.NEQ {
				if bl, ok := be.Y.(*ast.BasicLit); ok && bl.Kind == token.STRING && marker == "" {
					marker, _ = strconv.Unquote(bl.Value)
				}
			}
			return true
		})
		var bs []int64
		for _, c := range []byte(marker) {
			bs = append(bs, int64(c))
		}
		fmt.Fprintf(&out, "Definition gen_jt1078_marker : list N := %s.\n\n", nlist(bs))
	} else {
		fail("jt1078_marker", "decodeHead not found")
	}
}

// ==== BEGIN C20/C06 addition (builder "reply"): simRegistry ==============================================
// T5b: the terminal simulator's handler table (terminal/handle.go defaultProtocolHandles) in source order:
//   (command, (ReplyProtocol, Protocol, ReplyBody declarer)) where the model type is found behind the
//   value expression (&model.T{}, a local constructor newX(...) returning &model.T{...}, or
//   newDefaultHandle(consts.C) whose switch assigns &model.T{...}); "ReplyBody declarer" = Protocol() of the
//   type that declares the ReplyBody method the handler ends up with (0: BaseHandle's general response,
//   65535: the simulator's defaultHandle wrapper, whose ReplyBody returns nil).
// and, for the server's createDefaultHandle, (registered id, ReplyBody declarer) in source order.
func replyBodyDeclarer(model map[string]*ast.File, typ string, depth int) (int64, bool) {
	if depth > 3 {
		return 0, false
	}
	if findFunc(model, typ, "ReplyBody") != nil {
		if typ == "BaseHandle" {
			return 0, true
		}
		return constMethod(model, typ, "Protocol", 0)
	}
	_, emb := structFields(model, typ)
	for _, e := range emb {
		if v, ok := replyBodyDeclarer(model, e, depth+1); ok {
			return v, true
		}
	}
	return 0, false
}

func firstModelLit(n ast.Node) string {
	typ := ""
	ast.Inspect(n, func(n ast.Node) bool {
		if typ != "" {
			return false
		}
		if c, ok := n.(*ast.CompositeLit); ok {
			if se, ok := c.Type.(*ast.SelectorExpr); ok {
				if id, ok := se.X.(*ast.Ident); ok && id.Name == "model" {
					typ = se.Sel.Name
					return false
				}
			}
		}
		return true
	})
	return typ
}

func mapLiteral(fd *ast.FuncDecl) *ast.CompositeLit {
	var lit *ast.CompositeLit
	ast.Inspect(fd.Body, func(n ast.Node) bool {
		if c, ok := n.(*ast.CompositeLit); ok && lit == nil {
			if _, ok := c.Type.(*ast.MapType); ok {
				lit = c
			}
		}
		return true
	})
	return lit
}

func simRegistry(term, svc, model map[string]*ast.File) {
	// --- the simulator
	fd := findFunc(term, "", "defaultProtocolHandles")
	if fd == nil {
		fail("sim_registry", "defaultProtocolHandles not found")
		return
	}
	lit := mapLiteral(fd)
	if lit == nil {
		fail("sim_registry", "map literal not found")
		return
	}
	// newDefaultHandle: case consts.C: tmp = &model.T{...}
	wrapped := map[int64]string{}
	if nd := findFunc(term, "", "newDefaultHandle"); nd != nil {
		ast.Inspect(nd.Body, func(n ast.Node) bool {
			if cc, ok := n.(*ast.CaseClause); ok {
				for _, e := range cc.List {
					if v, ok := intOf(e, nil); ok {
						for _, st := range cc.Body {
							if t := firstModelLit(st); t != "" {
								wrapped[v] = t
							}
						}
					}
				}
			}
			return true
		})
	}
	wrapperHasReplyBody := findFunc(term, "defaultHandle", "ReplyBody") != nil
	var rows []string
	for _, el := range lit.Elts {
		kv, ok := el.(*ast.KeyValueExpr)
		if !ok {
			fail("sim_registry", "element")
			return
		}
		id, ok := intOf(kv.Key, nil)
		if !ok {
			fail("sim_registry", "key")
			return
		}
		typ, isWrapped := "", false
		switch v := kv.Value.(type) {
		case *ast.UnaryExpr:
			typ = firstModelLit(v)
		case *ast.CallExpr:
			if fn, ok := v.Fun.(*ast.Ident); ok {
				if fn.Name == "newDefaultHandle" && len(v.Args) == 1 {
					if c, ok := intOf(v.Args[0], nil); ok {
						typ, isWrapped = wrapped[c], true
					}
				} else if cf := findFunc(term, "", fn.Name); cf != nil {
					typ = firstModelLit(cf.Body)
				}
			}
		}
		rid, ok2 := constMethod(model, typ, "ReplyProtocol", 0)
		prot, ok3 := constMethod(model, typ, "Protocol", 0)
		decl, ok4 := replyBodyDeclarer(model, typ, 0)
		if isWrapped {
			if !wrapperHasReplyBody {
				fail("sim_registry", "defaultHandle.ReplyBody not found")
				return
			}
			decl, ok4 = 65535, true
		}
		if typ == "" || !ok2 || !ok3 || !ok4 {
			fail("sim_registry", fmt.Sprintf("handler of %d (%s)", id, typ))
			return
		}
		rows = append(rows, fmt.Sprintf("(%d, (%d, %d, %d))", id, rid, prot, decl))
	}
	fmt.Fprintf(&out, "(* terminal defaultProtocolHandles in source order: (command, (ReplyProtocol, Protocol, ReplyBody declarer)) *)\n")
	fmt.Fprintf(&out, "Definition gen_sim_registry : list (N * (N * N * N)) := [%s].\n\n", strings.Join(rows, "; "))
	// --- the server: which ReplyBody each registered type ends up with
	sf := findFunc(svc, "GoJT808", "createDefaultHandle")
	if sf == nil {
		fail("reply_body_decl", "createDefaultHandle not found")
		return
	}
	sl := mapLiteral(sf)
	if sl == nil {
		fail("reply_body_decl", "map literal not found")
		return
	}
	rows = nil
	for _, el := range sl.Elts {
		kv := el.(*ast.KeyValueExpr)
		id, ok := intOf(kv.Key, nil)
		typ := firstModelLit(kv.Value)
		decl, ok2 := replyBodyDeclarer(model, typ, 0)
		if !ok || typ == "" || !ok2 {
			fail("reply_body_decl", fmt.Sprintf("handler of %d (%s)", id, typ))
			return
		}
		rows = append(rows, fmt.Sprintf("(%d, %d)", id, decl))
	}
	fmt.Fprintf(&out, "(* createDefaultHandle in source order: (registered id, ReplyBody declarer) *)\n")
	fmt.Fprintf(&out, "Definition gen_reply_body_decl : list (N * N) := [%s].\n\n", strings.Join(rows, "; "))
	// --- the message ids connection.onActiveRespondEvent can hand to a waiting SendActiveMessage caller
	// (the cases of its switch, in source order; the writer tries it only when hasComplete())
	if rf := findFunc(svc, "connection", "onActiveRespondEvent"); rf != nil {
		fmt.Fprintf(&out, "(* connection.onActiveRespondEvent: the message ids of its switch, in source order *)\n")
		fmt.Fprintf(&out, "Definition gen_active_respond_ids : list N := %s.\n\n", nlist(caseValues(rf, nil)))
	} else {
		fail("active_respond_ids", "onActiveRespondEvent not found")
	}
}

// ==== END C20/C06 addition ================================================================================

// ==== T3: terminal parameters (coordinator) =================================================================
// gen_param_struct : TerminalParamDetails' ParamContent[...] fields in declaration order:
//     (field name, id read from the name's T0xNNN prefix, kind of the type parameter)
// gen_param_cases  : parseParam's switch in source order: (kind of the ParamContent[T] literal the clause builds, ids)
// gen_param_assign : (id, field) for every `case id: t.<field> = x` of parseParam{DWORD,WORD,Byte,String} and every
//     direct `t.<field> = ParamContent[..]{..}` in a clause of parseParam
// kinds: 1 uint32, 2 uint16, 3 byte, 4 string, 5 [4]byte, 6 [8]byte, 7 []byte (unknown content), 0 other
func paramKindOf(e ast.Expr) int {
	ix, ok := e.(*ast.IndexExpr)
	if !ok {
		return -1
	}
	if id, ok := ix.X.(*ast.Ident); !ok || id.Name != "ParamContent" {
		return -1
	}
	switch t := ix.Index.(type) {
	case *ast.Ident:
		switch t.Name {
		case "uint32":
			return 1
		case "uint16":
			return 2
		case "byte", "uint8":
			return 3
		case "string":
			return 4
		}
	case *ast.ArrayType:
		if t.Len == nil {
			return 7
		}
		if n, ok := intOf(t.Len, nil); ok && n == 4 {
			return 5
		} else if ok && n == 8 {
			return 6
		}
	}
	return 0
}

func paramTable(model map[string]*ast.File) {
	// --- the struct
	var rows []string
	found := false
	for _, f := range model {
		ast.Inspect(f, func(n ast.Node) bool {
			ts, ok := n.(*ast.TypeSpec)
			if !ok || ts.Name.Name != "TerminalParamDetails" {
				return true
			}
			st, ok := ts.Type.(*ast.StructType)
			if !ok {
				return true
			}
			found = true
			for _, fl := range st.Fields.List {
				k := paramKindOf(fl.Type)
				if k < 0 {
					continue
				}
				for _, nm := range fl.Names {
					id := int64(-1)
					if len(nm.Name) >= 6 && strings.HasPrefix(nm.Name, "T0x") {
						if v, err := strconv.ParseInt(nm.Name[3:6], 16, 64); err == nil {
							id = v
						}
					}
					if id < 0 {
						fail("param_struct", "field without T0xNNN prefix: "+nm.Name)
						id = 0
					}
					rows = append(rows, fmt.Sprintf("(%q%%string, %d, %d)", nm.Name, id, k))
				}
			}
			return false
		})
	}
	if !found {
		fail("param_struct", "TerminalParamDetails not found")
		return
	}
	fmt.Fprintf(&out, "Definition gen_param_struct : list (string * N * N) := [%s].\n", strings.Join(rows, "; "))
	// --- parseParam
	fd := findFunc(model, "TerminalParamDetails", "parseParam")
	if fd == nil {
		fail("param_cases", "parseParam not found")
		return
	}
	var sw *ast.SwitchStmt
	for _, st := range fd.Body.List {
		if s, ok := st.(*ast.SwitchStmt); ok {
			sw = s
		}
	}
	if sw == nil {
		fail("param_cases", "no switch")
		return
	}
	var cases, assigns []string
	fieldOfAssign := func(a *ast.AssignStmt) string {
		if len(a.Lhs) != 1 {
			return ""
		}
		if se, ok := a.Lhs[0].(*ast.SelectorExpr); ok {
			if id, ok := se.X.(*ast.Ident); ok && id.Name == "t" {
				return se.Sel.Name
			}
		}
		return ""
	}
	for _, c := range sw.Body.List {
		cc := c.(*ast.CaseClause)
		if cc.List == nil {
			continue // default: unknown content
		}
		var ids []int64
		for _, e := range cc.List {
			v, ok := intOf(e, nil)
			if !ok {
				fail("param_cases", "case value")
				return
			}
			ids = append(ids, v)
		}
		kind := -1
		direct := ""
		for _, st := range cc.Body {
			ast.Inspect(st, func(n ast.Node) bool {
				if cl, ok := n.(*ast.CompositeLit); ok {
					if k := paramKindOf(cl.Type); k >= 0 && kind < 0 {
						kind = k
					}
				}
				return true
			})
			if a, ok := st.(*ast.AssignStmt); ok && a.Tok == token.ASSIGN {
				if f := fieldOfAssign(a); f != "" {
					direct = f
				}
			}
		}
		if kind < 0 {
			fail("param_cases", "clause without ParamContent literal")
			return
		}
		cases = append(cases, fmt.Sprintf("(%d, %s)", kind, nlist(ids)))
		if direct != "" {
			for _, id := range ids {
				assigns = append(assigns, fmt.Sprintf("(%d, %q%%string)", id, direct))
			}
		}
	}
	fmt.Fprintf(&out, "Definition gen_param_cases : list (N * list N) := [%s].\n", strings.Join(cases, "; "))
	for _, fn := range []string{"parseParamDWORD", "parseParamWORD", "parseParamByte", "parseParamString"} {
		f := findFunc(model, "TerminalParamDetails", fn)
		if f == nil {
			fail("param_assign", fn+" not found")
			return
		}
		var s2 *ast.SwitchStmt
		for _, st := range f.Body.List {
			if s, ok := st.(*ast.SwitchStmt); ok {
				s2 = s
			}
		}
		if s2 == nil {
			fail("param_assign", fn+": no switch")
			return
		}
		for _, c := range s2.Body.List {
			cc := c.(*ast.CaseClause)
			if cc.List == nil {
				continue
			}
			field := ""
			if len(cc.Body) == 1 {
				if a, ok := cc.Body[0].(*ast.AssignStmt); ok && a.Tok == token.ASSIGN {
					field = fieldOfAssign(a)
				}
			}
			if field == "" {
				fail("param_assign", fn+": clause is not a single field assignment")
				return
			}
			for _, e := range cc.List {
				v, ok := intOf(e, nil)
				if !ok {
					fail("param_assign", fn+": case value")
					return
				}
				assigns = append(assigns, fmt.Sprintf("(%d, %q%%string)", v, field))
			}
		}
	}
	fmt.Fprintf(&out, "Definition gen_param_assign : list (N * string) := [%s].\n\n", strings.Join(assigns, "; "))
}

// ==== END T3 ==================================================================================================

// ==== BEGIN C07 addition (builder "bodies"): fixedLayouts ===================================================
// T7: fixed layouts.
// fixedLayouts reads the straight-line Parse / Encode pairs of the fixed-layout message types and emits, per type T,
//
//	gen_layout_T_fields        the exported fields of the struct in declaration order (embedded BaseHandle skipped)
//	gen_layout_T_parse         list (field, offset, width, kind) sorted by offset; kind 0 = big-endian unsigned
//	                           (a single byte included), 1 = BCD time (utils.BCD2Time / utils.Time2BCD), 2 = utils.Bcd2Dec
//	gen_layout_T_parse_guard   (kind, constant) of the one length guard: kind 0 = `len(body) != c`, 1 = `len(body) < c`
//	gen_layout_T_encode        the same list read off Encode
//	gen_layout_T_encode_len    the length of what Encode returns (make length + everything appended)
//
// Parse shape: `body := jtMsg.Body` (or a []byte parameter), ONE `if len(body) <op> c { return ... }`, then only
// `recv.F = body[i]`, `recv.F = binary.BigEndian.UintNN(body[a:b])`, `recv.F = utils.BCD2Time(body[a:b])`,
// `recv.F = utils.Bcd2Dec(body[a:b])` with constant index expressions, calls `recv.X.parse(recv.Y)` that derive one field
// from another (skipped: they read nothing from the body), `return nil`.
// Encode shape: `data := make([]byte, n[, cap])`, then `binary.BigEndian.PutUintNN(data[a:b] | data, recv.F)`,
// `data[i] = recv.F`, `copy(data[a:b], utils.Time2BCD(recv.F) | local)`, `local := utils.Time2BCD(recv.F)`,
// `data = append(data, recv.F)`, `data = append(data, utils.Time2BCD(recv.F)...)`,
// `data = binary.BigEndian.AppendUintNN(data, recv.F)`, `return data`.
// Anything else: fail("layout_T_parse" / "layout_T_encode", ...) and the definition is omitted.
func fixedLayouts(model map[string]*ast.File) {
	type entry struct {
		field            string
		off, width, kind int64
	}
	var constInt func(e ast.Expr) (int64, bool)
	constInt = func(e ast.Expr) (int64, bool) {
		switch x := e.(type) {
		case *ast.BinaryExpr:
			a, ok1 := constInt(x.X)
			b, ok2 := constInt(x.Y)
			if !ok1 || !ok2 {
				return 0, false
			}
			switch x.Op {
			case token.ADD:
				return a + b, true
			case token.SUB:
				return a - b, true
			case token.MUL:
				return a * b, true
			}
			return 0, false
		case *ast.ParenExpr:
			return constInt(x.X)
		case *ast.BasicLit:
			if x.Kind == token.INT {
				v, err := strconv.ParseInt(x.Value, 0, 64)
				return v, err == nil
			}
		}
		return 0, false
	}
	isIdent := func(e ast.Expr, name string) bool {
		id, ok := e.(*ast.Ident)
		return ok && id.Name == name
	}
	// recv.F -> F
	fieldOf := func(e ast.Expr, recv string) (string, bool) {
		sel, ok := e.(*ast.SelectorExpr)
		if !ok || !isIdent(sel.X, recv) {
			return "", false
		}
		return sel.Sel.Name, true
	}
	// pkg.Fn(args) or pkg.Sub.Fn(args) -> "pkg.Fn" / "pkg.Sub.Fn"
	callName := func(e ast.Expr) (string, []ast.Expr, bool) {
		c, ok := e.(*ast.CallExpr)
		if !ok {
			return "", nil, false
		}
		var parts []string
		cur := c.Fun
		for {
			switch x := cur.(type) {
			case *ast.SelectorExpr:
				parts = append([]string{x.Sel.Name}, parts...)
				cur = x.X
				continue
			case *ast.Ident:
				parts = append([]string{x.Name}, parts...)
			default:
				return "", nil, false
			}
			break
		}
		return strings.Join(parts, "."), c.Args, true
	}
	// v[a:b] / v[:b] / v[a:] / v -> (a, b or -1)
	sliceOf := func(e ast.Expr, v string) (int64, int64, bool) {
		if isIdent(e, v) {
			return 0, -1, true
		}
		se, ok := e.(*ast.SliceExpr)
		if !ok || !isIdent(se.X, v) || se.Slice3 {
			return 0, 0, false
		}
		lo, hi := int64(0), int64(-1)
		if se.Low != nil {
			x, ok := constInt(se.Low)
			if !ok {
				return 0, 0, false
			}
			lo = x
		}
		if se.High != nil {
			x, ok := constInt(se.High)
			if !ok {
				return 0, 0, false
			}
			hi = x
		}
		return lo, hi, true
	}
	uintWidth := func(name, prefix string) (int64, bool) { // binary.BigEndian.<prefix>NN
		if !strings.HasPrefix(name, "binary.BigEndian."+prefix) {
			return 0, false
		}
		switch strings.TrimPrefix(name, "binary.BigEndian."+prefix) {
		case "16":
			return 2, true
		case "32":
			return 4, true
		case "64":
			return 8, true
		}
		return 0, false
	}
	recvName := func(fd *ast.FuncDecl) string {
		if fd.Recv != nil && len(fd.Recv.List) == 1 && len(fd.Recv.List[0].Names) == 1 {
			return fd.Recv.List[0].Names[0].Name
		}
		return ""
	}
	emit := func(name string, es []entry) {
		sort.SliceStable(es, func(i, j int) bool { return es[i].off < es[j].off })
		q := make([]string, len(es))
		for i, e := range es {
			q[i] = fmt.Sprintf("(%s%%string, %d, %d, %d)", strconv.Quote(e.field), e.off, e.width, e.kind)
		}
		fmt.Fprintf(&out, "Definition %s : list (string * N * N * N) := [%s].\n", name, strings.Join(q, "; "))
	}

	parseLayout := func(typ, fn string) {
		item := "layout_" + typ + "_parse"
		fd := findFunc(model, typ, fn)
		if fd == nil || fd.Body == nil {
			fail(item, "function not found")
			return
		}
		recv := recvName(fd)
		body := ""
		if fd.Type.Params != nil { // a []byte parameter is the body
			for _, p := range fd.Type.Params.List {
				if at, ok := p.Type.(*ast.ArrayType); ok && at.Len == nil && isIdent(at.Elt, "byte") && len(p.Names) == 1 {
					body = p.Names[0].Name
				}
			}
		}
		var es []entry
		guardKind, guardC := int64(-1), int64(0)
		for _, st := range fd.Body.List {
			switch x := st.(type) {
			case *ast.AssignStmt:
				if len(x.Lhs) != 1 || len(x.Rhs) != 1 {
					fail(item, "assignment shape")
					return
				}
				if x.Tok == token.DEFINE { // body := jtMsg.Body
					sel, ok := x.Rhs[0].(*ast.SelectorExpr)
					id, ok2 := x.Lhs[0].(*ast.Ident)
					if !ok || !ok2 || sel.Sel.Name != "Body" || body != "" {
						fail(item, "unexpected definition")
						return
					}
					body = id.Name
					continue
				}
				f, ok := fieldOf(x.Lhs[0], recv)
				if !ok || x.Tok != token.ASSIGN || body == "" {
					fail(item, "left side is not a field of the receiver")
					return
				}
				if ie, ok := x.Rhs[0].(*ast.IndexExpr); ok && isIdent(ie.X, body) { // recv.F = body[i]
					i, ok := constInt(ie.Index)
					if !ok {
						fail(item, "index of "+f)
						return
					}
					es = append(es, entry{f, i, 1, 0})
					continue
				}
				name, args, ok := callName(x.Rhs[0])
				if !ok || len(args) != 1 {
					fail(item, "right side of "+f)
					return
				}
				lo, hi, ok := sliceOf(args[0], body)
				if !ok {
					fail(item, "slice of "+f)
					return
				}
				if w, ok := uintWidth(name, "Uint"); ok {
					if hi >= 0 && hi-lo != w {
						fail(item, "slice width of "+f)
						return
					}
					es = append(es, entry{f, lo, w, 0})
				} else if (name == "utils.BCD2Time" || name == "utils.Bcd2Dec") && hi >= 0 {
					k := int64(1)
					if name == "utils.Bcd2Dec" {
						k = 2
					}
					es = append(es, entry{f, lo, hi - lo, k})
				} else {
					fail(item, "unknown reader "+name+" for "+f)
					return
				}
			case *ast.IfStmt: // the one length guard
				be, ok := x.Cond.(*ast.BinaryExpr)
				if !ok || guardKind >= 0 || x.Else != nil || x.Init != nil || len(x.Body.List) != 1 || body == "" {
					fail(item, "guard shape")
					return
				}
				if _, ok := x.Body.List[0].(*ast.ReturnStmt); !ok {
					fail(item, "guard body")
					return
				}
				name, args, ok := callName(be.X)
				c, okc := constInt(be.Y)
				if !ok || name != "len" || len(args) != 1 || !isIdent(args[0], body) || !okc {
					fail(item, "guard condition")
					return
				}
				switch be.Op {
				case token.NEQ:
					guardKind = 0
				case token.LSS:
					guardKind = 1
				default:
					fail(item, "guard operator")
					return
				}
				guardC = c
			case *ast.ExprStmt: // recv.X.parse(recv.Y): one field derived from another, reads nothing from the body
				c, ok := x.X.(*ast.CallExpr)
				if !ok || len(c.Args) != 1 {
					fail(item, "statement shape")
					return
				}
				sel, ok := c.Fun.(*ast.SelectorExpr)
				_, ok2 := fieldOf(c.Args[0], recv)
				if !ok || !ok2 {
					fail(item, "statement shape")
					return
				}
				if _, ok := fieldOf(sel.X, recv); !ok {
					fail(item, "statement shape")
					return
				}
			case *ast.ReturnStmt:
				if len(x.Results) != 1 || !isIdent(x.Results[0], "nil") {
					fail(item, "return shape")
					return
				}
			default:
				fail(item, "statement shape")
				return
			}
		}
		if guardKind < 0 || len(es) == 0 {
			fail(item, "no guard or no field")
			return
		}
		emit("gen_"+item, es)
		fmt.Fprintf(&out, "Definition gen_%s_guard : N * N := (%d, %d).\n", item, guardKind, guardC)
	}

	encodeLayout := func(typ, fn string) {
		item := "layout_" + typ + "_encode"
		fd := findFunc(model, typ, fn)
		if fd == nil || fd.Body == nil {
			fail(item, "function not found")
			return
		}
		recv := recvName(fd)
		data, cur, made := "", int64(0), int64(0)
		local := map[string]string{} // local := utils.Time2BCD(recv.F)
		var es []entry
		// utils.Time2BCD(recv.F) or a local holding one
		timeOf := func(e ast.Expr) (string, bool) {
			if id, ok := e.(*ast.Ident); ok {
				f, ok := local[id.Name]
				return f, ok
			}
			name, args, ok := callName(e)
			if !ok || name != "utils.Time2BCD" || len(args) != 1 {
				return "", false
			}
			return fieldOf(args[0], recv)
		}
		returned := false
		for _, st := range fd.Body.List {
			switch x := st.(type) {
			case *ast.AssignStmt:
				if len(x.Lhs) != 1 || len(x.Rhs) != 1 {
					fail(item, "assignment shape")
					return
				}
				if x.Tok == token.DEFINE {
					id, ok := x.Lhs[0].(*ast.Ident)
					if !ok {
						fail(item, "definition shape")
						return
					}
					if name, args, ok := callName(x.Rhs[0]); ok && name == "make" && data == "" && (len(args) == 2 || len(args) == 3) {
						n, ok := constInt(args[1])
						if !ok {
							fail(item, "make length")
							return
						}
						data, cur, made = id.Name, n, n
						continue
					}
					if f, ok := timeOf(x.Rhs[0]); ok {
						local[id.Name] = f
						continue
					}
					fail(item, "unexpected definition")
					return
				}
				if x.Tok != token.ASSIGN || data == "" {
					fail(item, "assignment shape")
					return
				}
				if ie, ok := x.Lhs[0].(*ast.IndexExpr); ok && isIdent(ie.X, data) { // data[i] = recv.F
					i, ok := constInt(ie.Index)
					f, ok2 := fieldOf(x.Rhs[0], recv)
					if !ok || !ok2 || i >= made {
						fail(item, "index store")
						return
					}
					es = append(es, entry{f, i, 1, 0})
					continue
				}
				if !isIdent(x.Lhs[0], data) {
					fail(item, "left side")
					return
				}
				name, args, ok := callName(x.Rhs[0])
				if !ok || len(args) != 2 || !isIdent(args[0], data) {
					fail(item, "append shape")
					return
				}
				c := x.Rhs[0].(*ast.CallExpr)
				if w, ok := uintWidth(name, "AppendUint"); ok { // data = binary.BigEndian.AppendUintNN(data, recv.F)
					f, ok := fieldOf(args[1], recv)
					if !ok {
						fail(item, "appended value")
						return
					}
					es = append(es, entry{f, cur, w, 0})
					cur += w
				} else if name == "append" && c.Ellipsis.IsValid() { // data = append(data, utils.Time2BCD(recv.F)...)
					f, ok := timeOf(args[1])
					if !ok {
						fail(item, "appended slice")
						return
					}
					es = append(es, entry{f, cur, 6, 1})
					cur += 6
				} else if name == "append" { // data = append(data, recv.F)
					f, ok := fieldOf(args[1], recv)
					if !ok {
						fail(item, "appended byte")
						return
					}
					es = append(es, entry{f, cur, 1, 0})
					cur++
				} else {
					fail(item, "unknown writer "+name)
					return
				}
			case *ast.ExprStmt:
				name, args, ok := callName(x.X)
				if !ok || len(args) != 2 || data == "" {
					fail(item, "statement shape")
					return
				}
				lo, hi, ok := sliceOf(args[0], data)
				if !ok {
					fail(item, "destination slice")
					return
				}
				if w, ok := uintWidth(name, "PutUint"); ok { // binary.BigEndian.PutUintNN(data[a:b], recv.F)
					f, ok := fieldOf(args[1], recv)
					if !ok || (hi >= 0 && hi-lo != w) || lo+w > made {
						fail(item, "PutUint destination")
						return
					}
					es = append(es, entry{f, lo, w, 0})
				} else if name == "copy" && hi >= 0 { // copy(data[a:b], utils.Time2BCD(recv.F))
					f, ok := timeOf(args[1])
					if !ok || hi > made {
						fail(item, "copy source")
						return
					}
					es = append(es, entry{f, lo, hi - lo, 1})
				} else {
					fail(item, "unknown writer "+name)
					return
				}
			case *ast.ReturnStmt:
				if len(x.Results) != 1 || !isIdent(x.Results[0], data) {
					fail(item, "return shape")
					return
				}
				returned = true
			default:
				fail(item, "statement shape")
				return
			}
		}
		if !returned || len(es) == 0 {
			fail(item, "no field or no return")
			return
		}
		emit("gen_"+item, es)
		fmt.Fprintf(&out, "Definition gen_%s_len : N := %d.\n", item, cur)
	}

	for _, t := range []struct{ typ, parse, encode string }{
		{"T0x0001", "Parse", "Encode"}, {"P0x8001", "Parse", "Encode"}, {"T0x0800", "Parse", "Encode"},
		{"T0x1003", "Parse", "Encode"}, {"T0x1005", "Parse", "Encode"}, {"T0x1206", "Parse", "Encode"},
		{"P0x8801", "Parse", "Encode"}, {"P0x9102", "Parse", "Encode"}, {"P0x9105", "Parse", "Encode"},
		{"P0x9202", "Parse", "Encode"}, {"P0x9205", "Parse", "Encode"}, {"P0x9207", "Parse", "Encode"},
		{"T0x0200LocationItem", "parse", "encode"},
	} {
		fields, embedded := structFields(model, t.typ)
		emb := map[string]bool{}
		for _, e := range embedded {
			emb[e] = true
		}
		var q []string
		for _, f := range fields {
			if !emb[f] && ast.IsExported(f) {
				q = append(q, strconv.Quote(f))
			}
		}
		if len(q) == 0 {
			fail("layout_"+t.typ+"_fields", "struct not found")
		} else {
			fmt.Fprintf(&out, "Definition gen_layout_%s_fields : list string := [%s]%%string.\n", t.typ, strings.Join(q, "; "))
		}
		parseLayout(t.typ, t.parse)
		encodeLayout(t.typ, t.encode)
		fmt.Fprintln(&out)
	}
}

// ==== END C07 addition =======================================================================================

func main() {
	repo := flag.String("repo", "/repo", "repository root")
	outp := flag.String("out", "", "output .v file")
	flag.Parse()
	fmt.Fprintf(&out, "(* GENERATED by /verif/translator (go2tables) from the current source of %s — do not edit, not committed. *)\n", "/repo")
	fmt.Fprintf(&out, "From Coq Require Import List NArith String.\nImport ListNotations.\nOpen Scope N_scope.\n\n")
	loadConsts(filepath.Join(*repo, "shared/consts"))
	model := parseDir(filepath.Join(*repo, "protocol/model"))
	svc := parseDir(filepath.Join(*repo, "service"))
	bitTable(model, "alarm", "AlarmSignDetails", "parse", "AlarmSignDetails")
	bitTable(model, "status", "StatusSignDetails", "parse", "StatusSignDetails")
	bitTable(model, "extsig", "T0x0200AdditionDetails", "parseExtendVehicleStatus", "AdditionExtendVehicleStatus")
	bitTable(model, "io", "T0x0200AdditionDetails", "parseIOStatus", "AdditionIOStatus")
	bitTable(model, "table18", "T0x0200ExtensionTable18", "parse", "T0x0200ExtensionTable18")
	lenTable(model)
	dialectWidths(model)
	replyRegistry(svc, model)
	constants(*repo)
	simRegistry(parseDir(filepath.Join(*repo, "terminal")), svc, model) // C20/C06 addition
	paramTable(model)
	fixedLayouts(model) // T7 (C07)
	q := make([]string, len(unrecognised))
	for i, u := range unrecognised {
		q[i] = strconv.Quote(u) + "%string"
	}
	fmt.Fprintf(&out, "Definition gen_unrecognised : list string := [%s].\n", strings.Join(q, "; "))
	if *outp == "" {
		fmt.Print(out.String())
		return
	}
	if err := os.WriteFile(*outp, []byte(out.String()), 0o644); err != nil {
		fmt.Fprintln(os.Stderr, err)
		os.Exit(1)
	}
	for _, u := range unrecognised {
		fmt.Fprintln(os.Stderr, "unrecognised:", u)
	}
}

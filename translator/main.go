// go2tables — regenerates coq/Gen/Tables_gen.v from /repo's CURRENT source on every run.
//
// It recognises (go/ast + go/types on shared/consts only, no other dependency) the table-like places
// where a one-token change breaks a property, and emits them as Gallina data:
//
//	T1 bit tables       sequences of `if data[K] == '1' { x.F = true }`  -> list (K, field number)
//	T2 length table     the `contrastFunc` switch                          -> list (id, admissible lengths)
//	T4 dialect widths   getTerminalIDLen / getAlarmSignLen switches        -> list (type, (id len, sign len))
//	T5 reply registry   createDefaultHandle + HasReply/ReplyProtocol       -> list (id, (has_reply, reply_id))
//	T6 constants        escape bytes, read-buffer size, channel capacities, 5 s / 60 s, jt1078 data types, marker
//
// coq/Gen/TablesOk.v then proves regenerated = hand-written model tables.  A shape that is no longer
// recognised is reported as `gen_unrecognised` and the corresponding definition is omitted, which
// breaks the TablesOk obligation (reported by bin/check as a broken tie).
package main

import (
	"flag"
	"fmt"
	"go/ast"
	"go/constant"
	"go/importer"
	"go/parser"
	"go/token"
	"go/types"
	"os"
	"path/filepath"
	"sort"
	"strconv"
	"strings"
)

var (
	fset         = token.NewFileSet()
	out          strings.Builder
	unrecognised []string
	consts       = map[string]int64{} // shared/consts exported constants
)

func fail(item, why string) {
	// Coq strings have no backslash escapes: keep the message free of quotes and backslashes
	why = strings.NewReplacer("\"", "'", "\\", "/", "\n", " ").Replace(why)
	unrecognised = append(unrecognised, item+": "+why)
}

func parseDir(dir string) map[string]*ast.File {
	pkgs, err := parser.ParseDir(fset, dir, func(fi os.FileInfo) bool { return !strings.HasSuffix(fi.Name(), "_test.go") }, parser.ParseComments)
	if err != nil {
		fmt.Fprintln(os.Stderr, "parse", dir, err)
		os.Exit(1)
	}
	files := map[string]*ast.File{}
	for _, p := range pkgs {
		for name, f := range p.Files {
			files[filepath.Base(name)] = f
		}
	}
	return files
}

func loadConsts(dir string) {
	files := parseDir(dir)
	var fl []*ast.File
	names := []string{}
	for n := range files {
		names = append(names, n)
	}
	sort.Strings(names)
	for _, n := range names {
		fl = append(fl, files[n])
	}
	conf := types.Config{Importer: importer.ForCompiler(fset, "source", nil), Error: func(error) {}}
	pkg, _ := conf.Check("consts", fset, fl, nil)
	if pkg == nil {
		fail("consts", "type check failed")
		return
	}
	for _, n := range pkg.Scope().Names() {
		if c, ok := pkg.Scope().Lookup(n).(*types.Const); ok {
			if v, ok := constant.Int64Val(constant.ToInt(c.Val())); ok {
				consts[n] = v
			}
		}
	}
}

// intOf evaluates integer literals, consts.X selectors and local identifiers found in `local`.
func intOf(e ast.Expr, local map[string]int64) (int64, bool) {
	switch x := e.(type) {
	case *ast.BasicLit:
		if x.Kind == token.INT {
			v, err := strconv.ParseInt(x.Value, 0, 64)
			return v, err == nil
		}
		if x.Kind == token.CHAR {
			r, _, _, err := strconv.UnquoteChar(x.Value[1:len(x.Value)-1], '\'')
			return int64(r), err == nil
		}
	case *ast.SelectorExpr:
		if id, ok := x.X.(*ast.Ident); ok && id.Name == "consts" {
			v, ok := consts[x.Sel.Name]
			return v, ok
		}
	case *ast.Ident:
		if v, ok := local[x.Name]; ok {
			return v, true
		}
		if v, ok := consts[x.Name]; ok {
			return v, true
		}
	case *ast.ParenExpr:
		return intOf(x.X, local)
	case *ast.UnaryExpr:
		if x.Op == token.SUB {
			v, ok := intOf(x.X, local)
			return -v, ok
		}
	case *ast.CallExpr: // conversions like uint16(0), byte(1)
		if len(x.Args) == 1 {
			return intOf(x.Args[0], local)
		}
	}
	return 0, false
}

func findFunc(files map[string]*ast.File, recv, name string) *ast.FuncDecl {
	for _, f := range files {
		for _, d := range f.Decls {
			fd, ok := d.(*ast.FuncDecl)
			if !ok || fd.Name.Name != name {
				continue
			}
			r := ""
			if fd.Recv != nil && len(fd.Recv.List) == 1 {
				t := fd.Recv.List[0].Type
				if s, ok := t.(*ast.StarExpr); ok {
					t = s.X
				}
				if ix, ok := t.(*ast.IndexListExpr); ok {
					t = ix.X
				}
				if id, ok := t.(*ast.Ident); ok {
					r = id.Name
				}
			}
			if r == recv {
				return fd
			}
		}
	}
	return nil
}

func structFields(files map[string]*ast.File, name string) ([]string, []string) {
	var fields, embedded []string
	for _, f := range files {
		ast.Inspect(f, func(n ast.Node) bool {
			ts, ok := n.(*ast.TypeSpec)
			if !ok || ts.Name.Name != name {
				return true
			}
			st, ok := ts.Type.(*ast.StructType)
			if !ok {
				return true
			}
			for _, fl := range st.Fields.List {
				if len(fl.Names) == 0 {
					t := fl.Type
					if s, ok := t.(*ast.StarExpr); ok {
						t = s.X
					}
					if id, ok := t.(*ast.Ident); ok {
						embedded = append(embedded, id.Name)
						fields = append(fields, id.Name)
					}
					continue
				}
				for _, nm := range fl.Names {
					fields = append(fields, nm.Name)
				}
			}
			return false
		})
	}
	return fields, embedded
}

func nlist(xs []int64) string {
	s := make([]string, len(xs))
	for i, x := range xs {
		s[i] = strconv.FormatInt(x, 10)
	}
	return "[" + strings.Join(s, "; ") + "]"
}

// ---- T1 ----
func bitTable(files map[string]*ast.File, item, recv, fn, structName string) {
	fd := findFunc(files, recv, fn)
	if fd == nil {
		fail(item, "function not found")
		return
	}
	fields, _ := structFields(files, structName)
	if len(fields) == 0 {
		fail(item, "struct not found")
		return
	}
	idx := map[string]int{}
	for i, f := range fields {
		idx[f] = i
	}
	var pairs []string
	okAll := true
	ast.Inspect(fd.Body, func(n ast.Node) bool {
		is, ok := n.(*ast.IfStmt)
		if !ok {
			return true
		}
		be, ok := is.Cond.(*ast.BinaryExpr)
		if !ok || be.Op != token.EQL {
			return true
		}
		ie, ok := be.X.(*ast.IndexExpr)
		if !ok {
			return true
		}
		k, ok1 := intOf(ie.Index, nil)
		ch, ok2 := intOf(be.Y, nil)
		if !ok1 || !ok2 || ch != '1' {
			return true // not a flag test (e.g. the two-character cargo decision): ignored here
		}
		if len(is.Body.List) != 1 || is.Else != nil {
			okAll = false
			return true
		}
		as, ok := is.Body.List[0].(*ast.AssignStmt)
		if !ok || len(as.Lhs) != 1 || len(as.Rhs) != 1 {
			okAll = false
			return true
		}
		sel, ok := as.Lhs[0].(*ast.SelectorExpr)
		v, okv := as.Rhs[0].(*ast.Ident)
		if !ok || !okv || v.Name != "true" {
			okAll = false
			return true
		}
		fi, ok := idx[sel.Sel.Name]
		if !ok {
			okAll = false
			return true
		}
		pairs = append(pairs, fmt.Sprintf("(%d,%d)", k, fi))
		return true
	})
	if !okAll || len(pairs) == 0 {
		fail(item, "unexpected statement shape")
		return
	}
	q := make([]string, len(fields))
	for i, f := range fields {
		q[i] = strconv.Quote(f)
	}
	fmt.Fprintf(&out, "Definition gen_%s_fields : list string := [%s]%%string.\n", item, strings.Join(q, "; "))
	fmt.Fprintf(&out, "Definition gen_%s_table : list (N * N) := [%s].\n\n", item, strings.Join(pairs, "; "))
}

// ---- T2 ----
func lenTable(files map[string]*ast.File) {
	fd := findFunc(files, "T0x0200AdditionDetails", "parse")
	if fd == nil {
		fail("item_len", "parse not found")
		return
	}
	var sw *ast.SwitchStmt
	ast.Inspect(fd.Body, func(n ast.Node) bool {
		if as, ok := n.(*ast.AssignStmt); ok && len(as.Lhs) == 1 {
			if id, ok := as.Lhs[0].(*ast.Ident); ok && id.Name == "contrastFunc" {
				ast.Inspect(as.Rhs[0], func(m ast.Node) bool {
					if s, ok := m.(*ast.SwitchStmt); ok && sw == nil {
						sw = s
					}
					return true
				})
			}
		}
		return true
	})
	if sw == nil {
		fail("item_len", "contrastFunc switch not found")
		return
	}
	var rows []string
	for _, st := range sw.Body.List {
		cc := st.(*ast.CaseClause)
		if cc.List == nil {
			fail("item_len", "default clause present")
			return
		}
		if len(cc.Body) != 1 {
			fail("item_len", "case body shape")
			return
		}
		rs, ok := cc.Body[0].(*ast.ReturnStmt)
		if !ok || len(rs.Results) != 1 {
			fail("item_len", "case body shape")
			return
		}
		var lens []int64
		var collect func(e ast.Expr) bool
		collect = func(e ast.Expr) bool {
			be, ok := e.(*ast.BinaryExpr)
			if !ok {
				return false
			}
			if be.Op == token.LOR {
				return collect(be.X) && collect(be.Y)
			}
			if be.Op == token.EQL {
				if id, ok := be.X.(*ast.Ident); ok && id.Name == "additionLen" {
					if v, ok := intOf(be.Y, nil); ok {
						lens = append(lens, v)
						return true
					}
				}
			}
			return false
		}
		if !collect(rs.Results[0]) {
			fail("item_len", "return expression shape")
			return
		}
		for _, e := range cc.List {
			id, ok := intOf(e, nil)
			if !ok {
				fail("item_len", "case value")
				return
			}
			rows = append(rows, fmt.Sprintf("(%d, %s)", id, nlist(lens)))
		}
	}
	// the fall-through after the switch must be `return true` (unlisted ids accept every length)
	fmt.Fprintf(&out, "Definition gen_item_len_table : list (N * list N) := [%s].\n\n", strings.Join(rows, "; "))
}

// ---- T4 ----
func switchReturns(fd *ast.FuncDecl) (map[int64]int64, int64, bool) {
	res := map[int64]int64{}
	def := int64(-1)
	ok := true
	for _, st := range fd.Body.List {
		switch s := st.(type) {
		case *ast.SwitchStmt:
			for _, c := range s.Body.List {
				cc := c.(*ast.CaseClause)
				if cc.List == nil {
					if len(cc.Body) != 0 {
						ok = false
					}
					continue
				}
				if len(cc.Body) != 1 {
					ok = false
					continue
				}
				rs, isr := cc.Body[0].(*ast.ReturnStmt)
				if !isr || len(rs.Results) != 1 {
					ok = false
					continue
				}
				v, okv := intOf(rs.Results[0], nil)
				for _, e := range cc.List {
					k, okk := intOf(e, nil)
					if !okk || !okv {
						ok = false
						continue
					}
					res[k] = v
				}
			}
		case *ast.ReturnStmt:
			if len(s.Results) == 1 {
				if v, okv := intOf(s.Results[0], nil); okv {
					def = v
				} else {
					ok = false
				}
			}
		default:
			ok = false
		}
	}
	return res, def, ok && def >= 0
}

func dialectWidths(files map[string]*ast.File) {
	f1 := findFunc(files, "P9208AlarmSign", "getTerminalIDLen")
	f2 := findFunc(files, "P9208AlarmSign", "getAlarmSignLen")
	if f1 == nil || f2 == nil {
		fail("dialect_widths", "functions not found")
		return
	}
	a, da, ok1 := switchReturns(f1)
	b, db, ok2 := switchReturns(f2)
	if !ok1 || !ok2 {
		fail("dialect_widths", "switch shape")
		return
	}
	keys := map[int64]bool{}
	for k := range a {
		keys[k] = true
	}
	for k := range b {
		keys[k] = true
	}
	var ks []int64
	for k := range keys {
		ks = append(ks, k)
	}
	sort.Slice(ks, func(i, j int) bool { return ks[i] < ks[j] })
	var rows []string
	for _, k := range ks {
		x, okx := a[k]
		if !okx {
			x = da
		}
		y, oky := b[k]
		if !oky {
			y = db
		}
		rows = append(rows, fmt.Sprintf("(%d, (%d, %d))", k, x, y))
	}
	fmt.Fprintf(&out, "Definition gen_dialect_widths : list (N * (N * N)) := [%s].\n", strings.Join(rows, "; "))
	fmt.Fprintf(&out, "Definition gen_dialect_default : N * N := (%d, %d).\n\n", da, db)
}

// ---- T5 ----
func constMethod(files map[string]*ast.File, typ, method string, depth int) (int64, bool) {
	if depth > 3 {
		return 0, false
	}
	if fd := findFunc(files, typ, method); fd != nil {
		if len(fd.Body.List) == 1 {
			if rs, ok := fd.Body.List[0].(*ast.ReturnStmt); ok && len(rs.Results) == 1 {
				if id, ok := rs.Results[0].(*ast.Ident); ok && (id.Name == "true" || id.Name == "false") {
					if id.Name == "true" {
						return 1, true
					}
					return 0, true
				}
				return intOf(rs.Results[0], nil)
			}
		}
		return 0, false
	}
	_, emb := structFields(files, typ)
	for _, e := range emb {
		if v, ok := constMethod(files, e, method, depth+1); ok {
			return v, true
		}
	}
	return 0, false
}

func replyRegistry(svc, model map[string]*ast.File) {
	fd := findFunc(svc, "GoJT808", "createDefaultHandle")
	if fd == nil {
		fail("reply_registry", "createDefaultHandle not found")
		return
	}
	var lit *ast.CompositeLit
	ast.Inspect(fd.Body, func(n ast.Node) bool {
		if c, ok := n.(*ast.CompositeLit); ok && lit == nil {
			if _, ok := c.Type.(*ast.MapType); ok {
				lit = c
			}
		}
		return true
	})
	if lit == nil {
		fail("reply_registry", "map literal not found")
		return
	}
	var rows []string
	for _, el := range lit.Elts {
		kv := el.(*ast.KeyValueExpr)
		id, ok := intOf(kv.Key, nil)
		if !ok {
			fail("reply_registry", "key")
			return
		}
		// newDefaultHandle(&model.T{})
		typ := ""
		ast.Inspect(kv.Value, func(n ast.Node) bool {
			if c, ok := n.(*ast.CompositeLit); ok {
				if se, ok := c.Type.(*ast.SelectorExpr); ok {
					typ = se.Sel.Name
				}
			}
			return true
		})
		has, ok1 := constMethod(model, typ, "HasReply", 0)
		rid, ok2 := constMethod(model, typ, "ReplyProtocol", 0)
		prot, ok3 := constMethod(model, typ, "Protocol", 0)
		if typ == "" || !ok1 || !ok2 || !ok3 {
			fail("reply_registry", "methods of "+typ)
			return
		}
		hb := "false"
		if has == 1 {
			hb = "true"
		}
		rows = append(rows, fmt.Sprintf("(%d, (%s, %d, %d))", id, hb, rid, prot))
	}
	fmt.Fprintf(&out, "(* createDefaultHandle in source order: (registered id, (HasReply, ReplyProtocol, Protocol)) *)\n")
	fmt.Fprintf(&out, "Definition gen_reply_registry : list (N * (bool * N * N)) := [%s].\n\n", strings.Join(rows, "; "))
}

// ---- T6 ----
func constBlock(fd *ast.FuncDecl) map[string]int64 {
	res := map[string]int64{}
	if fd == nil {
		return res
	}
	ast.Inspect(fd.Body, func(n ast.Node) bool {
		if vs, ok := n.(*ast.ValueSpec); ok {
			for i, nm := range vs.Names {
				if i < len(vs.Values) {
					if v, ok := intOf(vs.Values[i], nil); ok {
						res[nm.Name] = v
					}
				}
			}
		}
		return true
	})
	return res
}

func byteLits(fd *ast.FuncDecl, local map[string]int64) [][]int64 {
	var res [][]int64
	ast.Inspect(fd.Body, func(n ast.Node) bool {
		if c, ok := n.(*ast.CompositeLit); ok {
			if at, ok := c.Type.(*ast.ArrayType); ok {
				if id, ok := at.Elt.(*ast.Ident); ok && id.Name == "byte" {
					var row []int64
					for _, e := range c.Elts {
						if v, ok := intOf(e, local); ok {
							row = append(row, v)
						}
					}
					res = append(res, row)
				}
			}
		}
		return true
	})
	return res
}

func caseValues(fd *ast.FuncDecl, local map[string]int64) []int64 {
	var res []int64
	ast.Inspect(fd.Body, func(n ast.Node) bool {
		if cc, ok := n.(*ast.CaseClause); ok {
			for _, e := range cc.List {
				if v, ok := intOf(e, local); ok {
					res = append(res, v)
				}
			}
		}
		return true
	})
	return res
}

func constants(repo string) {
	codec := parseDir(filepath.Join(repo, "protocol/jt808"))
	esc, unesc := findFunc(codec, "", "escape"), findFunc(codec, "", "unescape")
	if esc == nil || unesc == nil {
		fail("escape_consts", "functions not found")
	} else {
		lc := constBlock(esc)
		lits := byteLits(esc, lc)
		cv := caseValues(esc, lc)
		// escape: case flag0x7e -> {0x7d,0x02}; case flag0x7d -> {0x7d,0x01}  (source order)
		var rows []string
		if len(cv) == len(lits) {
			for i := range cv {
				rows = append(rows, fmt.Sprintf("(%d, %s)", cv[i], nlist(lits[i])))
			}
			fmt.Fprintf(&out, "Definition gen_escape_cases : list (N * list N) := [%s].\n", strings.Join(rows, "; "))
		} else {
			fail("escape_consts", "escape switch shape")
		}
		lu := constBlock(unesc)
		cu := caseValues(unesc, lu)
		fmt.Fprintf(&out, "Definition gen_unescape_consts : list N := [%d; %d].  (* beforeEscape, afterRecover *)\n", lu["beforeEscape"], lu["afterRecover"])
		fmt.Fprintf(&out, "Definition gen_unescape_cases : list N := %s.  (* partner bytes in case order: -> 0x7d, -> 0x7e *)\n\n", nlist(cu))
	}
	// service: read buffer, channel capacities, timeouts, delimiter
	svc := parseDir(filepath.Join(repo, "service"))
	caps := map[string]int64{}
	var bufSize int64 = -1
	for _, f := range svc {
		ast.Inspect(f, func(n ast.Node) bool {
			if kv, ok := n.(*ast.KeyValueExpr); ok {
				if id, ok := kv.Key.(*ast.Ident); ok {
					if c, ok := kv.Value.(*ast.CallExpr); ok {
						if fn, ok := c.Fun.(*ast.Ident); ok && fn.Name == "make" && len(c.Args) == 2 {
							if _, ok := c.Args[0].(*ast.ChanType); ok {
								if v, ok := intOf(c.Args[1], nil); ok {
									caps[id.Name] = v
								}
							}
						}
					}
				}
			}
			return true
		})
	}
	if rd := findFunc(svc, "connection", "reader"); rd != nil {
		ast.Inspect(rd.Body, func(n ast.Node) bool {
			if vs, ok := n.(*ast.ValueSpec); ok {
				for i, nm := range vs.Names {
					if nm.Name == "curData" && i < len(vs.Values) {
						if c, ok := vs.Values[i].(*ast.CallExpr); ok && len(c.Args) == 2 {
							if v, ok := intOf(c.Args[1], nil); ok {
								bufSize = v
							}
						}
					}
				}
			}
			return true
		})
	}
	if bufSize < 0 {
		fail("read_buffer", "curData make not found")
	} else {
		fmt.Fprintf(&out, "Definition gen_read_buffer_size : N := %d.\n", bufSize)
	}
	var names []string
	for k := range caps {
		names = append(names, k)
	}
	sort.Strings(names)
	var rows []string
	for _, k := range names {
		rows = append(rows, fmt.Sprintf("(%s%%string, %d)", strconv.Quote(k), caps[k]))
	}
	// the obligations look the capacities up by field name: when a field the models name is not there
	// (renamed, or no longer made with a literal capacity) the shape is unrecognised and the table is
	// withheld, which the check reports as "translator tie unavailable", not as a broken obligation
	missingChan := ""
	for _, k := range []string{"msgChan", "activeMsgChan", "activeMsgCompleteChan", "reissuePackChan"} {
		if _, ok := caps[k]; !ok {
			missingChan += " " + k
		}
	}
	if missingChan != "" {
		fail("chan_caps", "connection channel field(s) not found with a literal capacity:"+missingChan)
	} else {
		fmt.Fprintf(&out, "Definition gen_chan_caps : list (string * N) := [%s].\n", strings.Join(rows, "; "))
	}
	secs := func(recv, fn string) (int64, bool) {
		fd := findFunc(svc, recv, fn)
		if fd == nil {
			return 0, false
		}
		var v int64
		found := false
		ast.Inspect(fd.Body, func(n ast.Node) bool {
			if be, ok := n.(*ast.BinaryExpr); ok && be.Op == token.MUL && !found {
				if se, ok := be.Y.(*ast.SelectorExpr); ok && se.Sel.Name == "Second" {
					if x, ok := intOf(be.X, nil); ok {
						v, found = x, true
					}
				}
			}
			return true
		})
		return v, found
	}
	d60, ok1 := secs("packageParse", "deleteTimeoutPackage")
	d5, ok2 := secs("packageParse", "supplementarySubPackage")
	if ok1 && ok2 {
		fmt.Fprintf(&out, "Definition gen_subpkg_expiry_s : N := %d.\nDefinition gen_subpkg_rerequest_s : N := %d.\n", -d60, -d5)
	} else {
		fail("subpkg_timeouts", "durations not found")
	}
	up := findFunc(svc, "packageParse", "unpack")
	if up != nil {
		lc := constBlock(up)
		if v, ok := lc["sign"]; ok {
			fmt.Fprintf(&out, "Definition gen_stream_delimiter : N := %d.\n\n", v)
		} else {
			// the delimiter is no longer a local constant `sign` of unpack (e.g. moved to package level under
			// another name): not recognised, the definition is withheld
			fail("stream_delimiter", "local constant sign of packageParse.unpack not found")
		}
	} else {
		fail("stream_delimiter", "unpack not found")
	}
	// jt1078
	j78 := parseDir(filepath.Join(repo, "protocol/jt1078"))
	var fl []*ast.File
	for _, n := range []string{"consts.go"} {
		if f, ok := j78[n]; ok {
			fl = append(fl, f)
		}
	}
	conf := types.Config{Importer: importer.ForCompiler(fset, "source", nil), Error: func(error) {}}
	if pkg, _ := conf.Check("jt1078", fset, fl, nil); pkg != nil {
		var rows []string
		for _, n := range []string{"DataTypeI", "DataTypeP", "DataTypeB", "DataTypeA", "DataTypePenetrate"} {
			if c, ok := pkg.Scope().Lookup(n).(*types.Const); ok {
				v, _ := constant.Int64Val(constant.ToInt(c.Val()))
				rows = append(rows, strconv.FormatInt(v, 10))
			} else {
				fail("jt1078_datatypes", n+" missing")
			}
		}
		fmt.Fprintf(&out, "Definition gen_jt1078_datatypes : list N := [%s].  (* I, P, B, A, Penetrate *)\n", strings.Join(rows, "; "))
	}
	if dh := findFunc(j78, "Packet", "decodeHead"); dh != nil {
		marker := ""
		ast.Inspect(dh.Body, func(n ast.Node) bool {
			if be, ok := n.(*ast.BinaryExpr); ok && be.Op == token.NEQ {
				if bl, ok := be.Y.(*ast.BasicLit); ok && bl.Kind == token.STRING && marker == "" {
					marker, _ = strconv.Unquote(bl.Value)
				}
			}
			return true
		})
		var bs []int64
		for _, c := range []byte(marker) {
			bs = append(bs, int64(c))
		}
		if marker == "" {
			fail("jt1078_marker", "no p.ID != <string literal> comparison found in decodeHead")
		} else {
			fmt.Fprintf(&out, "Definition gen_jt1078_marker : list N := %s.\n\n", nlist(bs))
		}
	} else {
		fail("jt1078_marker", "decodeHead not found")
	}
}

// ==== BEGIN C20/C06 addition (builder "reply"): simRegistry ==============================================
// T5b: the terminal simulator's handler table (terminal/handle.go defaultProtocolHandles) in source order:
//
//	(command, (ReplyProtocol, Protocol, ReplyBody declarer)) where the model type is found behind the
//	value expression (&model.T{}, a local constructor newX(...) returning &model.T{...}, or
//	newDefaultHandle(consts.C) whose switch assigns &model.T{...}); "ReplyBody declarer" = Protocol() of the
//	type that declares the ReplyBody method the handler ends up with (0: BaseHandle's general response,
//	65535: the simulator's defaultHandle wrapper, whose ReplyBody returns nil).
//
// and, for the server's createDefaultHandle, (registered id, ReplyBody declarer) in source order.
func replyBodyDeclarer(model map[string]*ast.File, typ string, depth int) (int64, bool) {
	if depth > 3 {
		return 0, false
	}
	if findFunc(model, typ, "ReplyBody") != nil {
		if typ == "BaseHandle" {
			return 0, true
		}
		return constMethod(model, typ, "Protocol", 0)
	}
	_, emb := structFields(model, typ)
	for _, e := range emb {
		if v, ok := replyBodyDeclarer(model, e, depth+1); ok {
			return v, true
		}
	}
	return 0, false
}

func firstModelLit(n ast.Node) string {
	typ := ""
	ast.Inspect(n, func(n ast.Node) bool {
		if typ != "" {
			return false
		}
		if c, ok := n.(*ast.CompositeLit); ok {
			if se, ok := c.Type.(*ast.SelectorExpr); ok {
				if id, ok := se.X.(*ast.Ident); ok && id.Name == "model" {
					typ = se.Sel.Name
					return false
				}
			}
		}
		return true
	})
	return typ
}

func mapLiteral(fd *ast.FuncDecl) *ast.CompositeLit {
	var lit *ast.CompositeLit
	ast.Inspect(fd.Body, func(n ast.Node) bool {
		if c, ok := n.(*ast.CompositeLit); ok && lit == nil {
			if _, ok := c.Type.(*ast.MapType); ok {
				lit = c
			}
		}
		return true
	})
	return lit
}

func simRegistry(term, svc, model map[string]*ast.File) {
	func() { // independent part: a shape not recognised here must not hide the other outputs
		// --- the simulator
		fd := findFunc(term, "", "defaultProtocolHandles")
		if fd == nil {
			fail("sim_registry", "defaultProtocolHandles not found")
			return
		}
		lit := mapLiteral(fd)
		if lit == nil {
			fail("sim_registry", "map literal not found")
			return
		}
		// newDefaultHandle: case consts.C: tmp = &model.T{...}
		wrapped := map[int64]string{}
		if nd := findFunc(term, "", "newDefaultHandle"); nd != nil {
			ast.Inspect(nd.Body, func(n ast.Node) bool {
				if cc, ok := n.(*ast.CaseClause); ok {
					for _, e := range cc.List {
						if v, ok := intOf(e, nil); ok {
							for _, st := range cc.Body {
								if t := firstModelLit(st); t != "" {
									wrapped[v] = t
								}
							}
						}
					}
				}
				return true
			})
		}
		wrapperHasReplyBody := findFunc(term, "defaultHandle", "ReplyBody") != nil
		var rows []string
		for _, el := range lit.Elts {
			kv, ok := el.(*ast.KeyValueExpr)
			if !ok {
				fail("sim_registry", "element")
				return
			}
			id, ok := intOf(kv.Key, nil)
			if !ok {
				fail("sim_registry", "key")
				return
			}
			typ, isWrapped := "", false
			switch v := kv.Value.(type) {
			case *ast.UnaryExpr:
				typ = firstModelLit(v)
			case *ast.CallExpr:
				if fn, ok := v.Fun.(*ast.Ident); ok {
					if fn.Name == "newDefaultHandle" && len(v.Args) == 1 {
						if c, ok := intOf(v.Args[0], nil); ok {
							typ, isWrapped = wrapped[c], true
						}
					} else if cf := findFunc(term, "", fn.Name); cf != nil {
						typ = firstModelLit(cf.Body)
					}
				}
			}
			rid, ok2 := constMethod(model, typ, "ReplyProtocol", 0)
			prot, ok3 := constMethod(model, typ, "Protocol", 0)
			decl, ok4 := replyBodyDeclarer(model, typ, 0)
			if isWrapped {
				if !wrapperHasReplyBody {
					fail("sim_registry", "defaultHandle.ReplyBody not found")
					return
				}
				decl, ok4 = 65535, true
			}
			if typ == "" || !ok2 || !ok3 || !ok4 {
				fail("sim_registry", fmt.Sprintf("handler of %d (%s)", id, typ))
				return
			}
			rows = append(rows, fmt.Sprintf("(%d, (%d, %d, %d))", id, rid, prot, decl))
		}
		fmt.Fprintf(&out, "(* terminal defaultProtocolHandles in source order: (command, (ReplyProtocol, Protocol, ReplyBody declarer)) *)\n")
		fmt.Fprintf(&out, "Definition gen_sim_registry : list (N * (N * N * N)) := [%s].\n\n", strings.Join(rows, "; "))
	}()
	func() { // independent part: a shape not recognised here must not hide the other outputs
		// --- the server: which ReplyBody each registered type ends up with
		sf := findFunc(svc, "GoJT808", "createDefaultHandle")
		if sf == nil {
			fail("reply_body_decl", "createDefaultHandle not found")
			return
		}
		sl := mapLiteral(sf)
		if sl == nil {
			fail("reply_body_decl", "map literal not found")
			return
		}
		var rows []string
		for _, el := range sl.Elts {
			kv := el.(*ast.KeyValueExpr)
			id, ok := intOf(kv.Key, nil)
			typ := firstModelLit(kv.Value)
			decl, ok2 := replyBodyDeclarer(model, typ, 0)
			if !ok || typ == "" || !ok2 {
				fail("reply_body_decl", fmt.Sprintf("handler of %d (%s)", id, typ))
				return
			}
			rows = append(rows, fmt.Sprintf("(%d, %d)", id, decl))
		}
		fmt.Fprintf(&out, "(* createDefaultHandle in source order: (registered id, ReplyBody declarer) *)\n")
		fmt.Fprintf(&out, "Definition gen_reply_body_decl : list (N * N) := [%s].\n\n", strings.Join(rows, "; "))
	}()
	func() { // independent part: a shape not recognised here must not hide the other outputs
		// --- per-connection construction.  Three outcomes:
		//   true   RECOGNISED and right: inside GoJT808.Run's accept loop (the `for` that calls AcceptTCP), directly or
		//          through ONE level of helper function / method of this package called in the loop, both
		//          createDefaultHandle() and newConnection(...) are called; every value of createDefaultHandle's map literal
		//          is a fresh &model.T{} (checked above); newConnection's composite literal makes msgChan / reissuePackChan
		//          and sets platformSerialNumber
		//   false  RECOGNISED and wrong: createDefaultHandle (or newConnection) is called, but NOT inside the loop (a
		//          handler map built once and shared), or newConnection's literal takes one of the three fields from
		//          something that is not made per call
		//   (omitted, listed in gen_unrecognised) the shape is NOT recognised: no accept loop / no call site of
		//          createDefaultHandle anywhere / newConnection or its literal not found.  bin/check then reports the tie as
		//          unavailable (NOTE) and the correspondence decides; it never reports a broken obligation for it.
		calledNames := func(n ast.Node) map[string]bool {
			seen := map[string]bool{}
			ast.Inspect(n, func(m ast.Node) bool {
				if c, ok := m.(*ast.CallExpr); ok {
					switch f := c.Fun.(type) {
					case *ast.SelectorExpr:
						seen[f.Sel.Name] = true
					case *ast.Ident:
						seen[f.Name] = true
					}
				}
				return true
			})
			return seen
		}
		funcByName := func(name string) *ast.FuncDecl { // any function or method of package service with that name
			for _, f := range svc {
				for _, d := range f.Decls {
					if fd, ok := d.(*ast.FuncDecl); ok && fd.Name.Name == name && fd.Body != nil {
						return fd
					}
				}
			}
			return nil
		}
		perConn, recognised, why := false, false, ""
		if run := findFunc(svc, "GoJT808", "Run"); run == nil {
			why = "GoJT808.Run not found"
		} else {
			var loop *ast.ForStmt
			ast.Inspect(run.Body, func(n ast.Node) bool {
				if fs, ok := n.(*ast.ForStmt); ok && loop == nil && calledNames(fs.Body)["AcceptTCP"] {
					loop = fs
				}
				return true
			})
			if loop == nil {
				why = "no accept loop (for ... AcceptTCP) in GoJT808.Run"
			} else {
				inside := calledNames(loop.Body)
				for name := range calledNames(loop.Body) { // one level of helper
					if name == "createDefaultHandle" || name == "newConnection" {
						continue
					}
					if fd := funcByName(name); fd != nil {
						for k := range calledNames(fd.Body) {
							inside[k] = true
						}
					}
				}
				// every call site of the two constructors in the package
				anywhere := map[string]bool{}
				for _, f := range svc {
					for k := range calledNames(f) {
						anywhere[k] = true
					}
				}
				switch {
				case inside["createDefaultHandle"] && inside["newConnection"]:
					perConn, recognised = true, true
				case anywhere["createDefaultHandle"] && anywhere["newConnection"]:
					perConn, recognised = false, true // called, but not per accepted connection
				default:
					why = "no call site of createDefaultHandle / newConnection found"
				}
			}
		}
		if recognised && perConn {
			if nc := findFunc(svc, "", "newConnection"); nc == nil {
				recognised, why = false, "newConnection not found"
			} else {
				made, other := map[string]bool{}, map[string]bool{}
				ast.Inspect(nc.Body, func(n ast.Node) bool {
					if kv, ok := n.(*ast.KeyValueExpr); ok {
						if k, ok := kv.Key.(*ast.Ident); ok {
							fresh := false
							if call, ok := kv.Value.(*ast.CallExpr); ok {
								if f, ok := call.Fun.(*ast.Ident); ok && (f.Name == "make" || f.Name == "uint16") {
									fresh = true
								}
							}
							if lit, ok := kv.Value.(*ast.BasicLit); ok && lit.Kind == token.INT {
								fresh = true
							}
							if fresh {
								made[k.Name] = true
							} else {
								other[k.Name] = true
							}
						}
					}
					return true
				})
				for _, fld := range []string{"msgChan", "reissuePackChan", "platformSerialNumber"} {
					switch {
					case made[fld]:
					case other[fld]:
						perConn = false // the field is set from something not made per call
					default:
						recognised, why = false, "newConnection's literal has no field "+fld
					}
				}
			}
		}
		if recognised {
			fmt.Fprintf(&out, "(* GoJT808.Run: createDefaultHandle() and newConnection() are called inside the accept loop (directly or through one helper); newConnection makes msgChan, reissuePackChan and sets platformSerialNumber *)\n")
			fmt.Fprintf(&out, "Definition gen_handles_per_connection : bool := %t.\n\n", perConn)
		} else {
			fail("handles_per_connection", why)
		}
	}()
	func() { // independent part: a shape not recognised here must not hide the other outputs
		// --- the message ids connection.onActiveRespondEvent can hand to a waiting SendActiveMessage caller
		// (the cases of its switch, in source order; the writer tries it only when hasComplete())
		if rf := findFunc(svc, "connection", "onActiveRespondEvent"); rf != nil {
			if ids := caseValues(rf, nil); len(ids) > 0 {
				fmt.Fprintf(&out, "(* connection.onActiveRespondEvent: the message ids of its switch, in source order (the order is not behaviour) *)\n")
				fmt.Fprintf(&out, "Definition gen_active_respond_ids : list N := %s.\n\n", nlist(ids))
			} else {
				fail("active_respond_ids", "no switch cases with constant ids in onActiveRespondEvent")
			}
		} else {
			fail("active_respond_ids", "onActiveRespondEvent not found")
		}
	}()
}

// ==== END C20/C06 addition ================================================================================

// ==== T3: terminal parameters (coordinator) =================================================================
// gen_param_struct : TerminalParamDetails' ParamContent[...] fields in declaration order:
//
//	(field name, id read from the name's T0xNNN prefix, kind of the type parameter)
//
// gen_param_cases  : parseParam's switch in source order: (kind of the ParamContent[T] literal the clause builds, ids)
// gen_param_assign : (id, field) for every `case id: t.<field> = x` of parseParam{DWORD,WORD,Byte,String} and every
//
//	direct `t.<field> = ParamContent[..]{..}` in a clause of parseParam
//
// kinds: 1 uint32, 2 uint16, 3 byte, 4 string, 5 [4]byte, 6 [8]byte, 7 []byte (unknown content), 0 other
func paramKindOf(e ast.Expr) int {
	ix, ok := e.(*ast.IndexExpr)
	if !ok {
		return -1
	}
	if id, ok := ix.X.(*ast.Ident); !ok || id.Name != "ParamContent" {
		return -1
	}
	switch t := ix.Index.(type) {
	case *ast.Ident:
		switch t.Name {
		case "uint32":
			return 1
		case "uint16":
			return 2
		case "byte", "uint8":
			return 3
		case "string":
			return 4
		}
	case *ast.ArrayType:
		if t.Len == nil {
			return 7
		}
		if n, ok := intOf(t.Len, nil); ok && n == 4 {
			return 5
		} else if ok && n == 8 {
			return 6
		}
	}
	return 0
}

func paramTable(model map[string]*ast.File) {
	// --- the struct
	var rows []string
	found := false
	for _, f := range model {
		ast.Inspect(f, func(n ast.Node) bool {
			ts, ok := n.(*ast.TypeSpec)
			if !ok || ts.Name.Name != "TerminalParamDetails" {
				return true
			}
			st, ok := ts.Type.(*ast.StructType)
			if !ok {
				return true
			}
			found = true
			for _, fl := range st.Fields.List {
				k := paramKindOf(fl.Type)
				if k < 0 {
					continue
				}
				for _, nm := range fl.Names {
					id := int64(-1)
					if len(nm.Name) >= 6 && strings.HasPrefix(nm.Name, "T0x") {
						if v, err := strconv.ParseInt(nm.Name[3:6], 16, 64); err == nil {
							id = v
						}
					}
					if id < 0 {
						fail("param_struct", "field without T0xNNN prefix: "+nm.Name)
						id = 0
					}
					rows = append(rows, fmt.Sprintf("(%q%%string, %d, %d)", nm.Name, id, k))
				}
			}
			return false
		})
	}
	if !found {
		fail("param_struct", "TerminalParamDetails not found")
		return
	}
	fmt.Fprintf(&out, "Definition gen_param_struct : list (string * N * N) := [%s].\n", strings.Join(rows, "; "))
	// --- parseParam
	fd := findFunc(model, "TerminalParamDetails", "parseParam")
	if fd == nil {
		fail("param_cases", "parseParam not found")
		return
	}
	var sw *ast.SwitchStmt
	for _, st := range fd.Body.List {
		if s, ok := st.(*ast.SwitchStmt); ok {
			sw = s
		}
	}
	if sw == nil {
		fail("param_cases", "no switch")
		return
	}
	var cases, assigns []string
	fieldOfAssign := func(a *ast.AssignStmt) string {
		if len(a.Lhs) != 1 {
			return ""
		}
		if se, ok := a.Lhs[0].(*ast.SelectorExpr); ok {
			if id, ok := se.X.(*ast.Ident); ok && id.Name == "t" {
				return se.Sel.Name
			}
		}
		return ""
	}
	for _, c := range sw.Body.List {
		cc := c.(*ast.CaseClause)
		if cc.List == nil {
			continue // default: unknown content
		}
		var ids []int64
		for _, e := range cc.List {
			v, ok := intOf(e, nil)
			if !ok {
				fail("param_cases", "case value")
				return
			}
			ids = append(ids, v)
		}
		kind := -1
		direct := ""
		for _, st := range cc.Body {
			ast.Inspect(st, func(n ast.Node) bool {
				if cl, ok := n.(*ast.CompositeLit); ok {
					if k := paramKindOf(cl.Type); k >= 0 && kind < 0 {
						kind = k
					}
				}
				return true
			})
			if a, ok := st.(*ast.AssignStmt); ok && a.Tok == token.ASSIGN {
				if f := fieldOfAssign(a); f != "" {
					direct = f
				}
			}
		}
		if kind < 0 {
			fail("param_cases", "clause without ParamContent literal")
			return
		}
		cases = append(cases, fmt.Sprintf("(%d, %s)", kind, nlist(ids)))
		if direct != "" {
			for _, id := range ids {
				assigns = append(assigns, fmt.Sprintf("(%d, %q%%string)", id, direct))
			}
		}
	}
	fmt.Fprintf(&out, "Definition gen_param_cases : list (N * list N) := [%s].\n", strings.Join(cases, "; "))
	for _, fn := range []string{"parseParamDWORD", "parseParamWORD", "parseParamByte", "parseParamString"} {
		f := findFunc(model, "TerminalParamDetails", fn)
		if f == nil {
			fail("param_assign", fn+" not found")
			return
		}
		var s2 *ast.SwitchStmt
		for _, st := range f.Body.List {
			if s, ok := st.(*ast.SwitchStmt); ok {
				s2 = s
			}
		}
		if s2 == nil {
			fail("param_assign", fn+": no switch")
			return
		}
		for _, c := range s2.Body.List {
			cc := c.(*ast.CaseClause)
			if cc.List == nil {
				continue
			}
			field := ""
			if len(cc.Body) == 1 {
				if a, ok := cc.Body[0].(*ast.AssignStmt); ok && a.Tok == token.ASSIGN {
					field = fieldOfAssign(a)
				}
			}
			if field == "" {
				fail("param_assign", fn+": clause is not a single field assignment")
				return
			}
			for _, e := range cc.List {
				v, ok := intOf(e, nil)
				if !ok {
					fail("param_assign", fn+": case value")
					return
				}
				assigns = append(assigns, fmt.Sprintf("(%d, %q%%string)", v, field))
			}
		}
	}
	fmt.Fprintf(&out, "Definition gen_param_assign : list (N * string) := [%s].\n\n", strings.Join(assigns, "; "))
}

// ==== END T3 ==================================================================================================

// ==== BEGIN C07 addition (builder "bodies"): fixedLayouts ===================================================
// T7: fixed layouts.
// fixedLayouts reads the straight-line Parse / Encode pairs of the fixed-layout message types and emits, per type T,
//
//	gen_layout_T_fields        the exported fields of the struct in declaration order (embedded BaseHandle skipped)
//	gen_layout_T_parse         list (field, offset, width, kind) sorted by offset; kind 0 = big-endian unsigned
//	                           (a single byte included), 1 = BCD time (utils.BCD2Time / utils.Time2BCD), 2 = utils.Bcd2Dec
//	gen_layout_T_parse_guard   (kind, constant) of the one length guard: kind 0 = `len(body) != c`, 1 = `len(body) < c`
//	gen_layout_T_encode        the same list read off Encode
//	gen_layout_T_encode_len    the length of what Encode returns (make length + everything appended)
//
// Parse shape: `body := jtMsg.Body` (or a []byte parameter), ONE `if len(body) <op> c { return ... }`, then only
// `recv.F = body[i]`, `recv.F = binary.BigEndian.UintNN(body[a:b])`, `recv.F = utils.BCD2Time(body[a:b])`,
// `recv.F = utils.Bcd2Dec(body[a:b])` with constant index expressions, calls `recv.X.parse(recv.Y)` that derive one field
// from another (skipped: they read nothing from the body), `return nil`.
// Encode shape: `data := make([]byte, n[, cap])`, then `binary.BigEndian.PutUintNN(data[a:b] | data, recv.F)`,
// `data[i] = recv.F`, `copy(data[a:b], utils.Time2BCD(recv.F) | local)`, `local := utils.Time2BCD(recv.F)`,
// `data = append(data, recv.F)`, `data = append(data, utils.Time2BCD(recv.F)...)`,
// `data = binary.BigEndian.AppendUintNN(data, recv.F)`, `return data`.
// Anything else: fail("layout_T_parse" / "layout_T_encode", ...) and the definition is omitted.
func fixedLayouts(model map[string]*ast.File) {
	type entry struct {
		field            string
		off, width, kind int64
	}
	var constInt func(e ast.Expr) (int64, bool)
	constInt = func(e ast.Expr) (int64, bool) {
		switch x := e.(type) {
		case *ast.BinaryExpr:
			a, ok1 := constInt(x.X)
			b, ok2 := constInt(x.Y)
			if !ok1 || !ok2 {
				return 0, false
			}
			switch x.Op {
			case token.ADD:
				return a + b, true
			case token.SUB:
				return a - b, true
			case token.MUL:
				return a * b, true
			}
			return 0, false
		case *ast.ParenExpr:
			return constInt(x.X)
		case *ast.BasicLit:
			if x.Kind == token.INT {
				v, err := strconv.ParseInt(x.Value, 0, 64)
				return v, err == nil
			}
		}
		return 0, false
	}
	isIdent := func(e ast.Expr, name string) bool {
		id, ok := e.(*ast.Ident)
		return ok && id.Name == name
	}
	// recv.F -> F
	fieldOf := func(e ast.Expr, recv string) (string, bool) {
		sel, ok := e.(*ast.SelectorExpr)
		if !ok || !isIdent(sel.X, recv) {
			return "", false
		}
		return sel.Sel.Name, true
	}
	// pkg.Fn(args) or pkg.Sub.Fn(args) -> "pkg.Fn" / "pkg.Sub.Fn"
	callName := func(e ast.Expr) (string, []ast.Expr, bool) {
		c, ok := e.(*ast.CallExpr)
		if !ok {
			return "", nil, false
		}
		var parts []string
		cur := c.Fun
		for {
			switch x := cur.(type) {
			case *ast.SelectorExpr:
				parts = append([]string{x.Sel.Name}, parts...)
				cur = x.X
				continue
			case *ast.Ident:
				parts = append([]string{x.Name}, parts...)
			default:
				return "", nil, false
			}
			break
		}
		return strings.Join(parts, "."), c.Args, true
	}
	// v[a:b] / v[:b] / v[a:] / v -> (a, b or -1)
	sliceOf := func(e ast.Expr, v string) (int64, int64, bool) {
		if isIdent(e, v) {
			return 0, -1, true
		}
		se, ok := e.(*ast.SliceExpr)
		if !ok || !isIdent(se.X, v) || se.Slice3 {
			return 0, 0, false
		}
		lo, hi := int64(0), int64(-1)
		if se.Low != nil {
			x, ok := constInt(se.Low)
			if !ok {
				return 0, 0, false
			}
			lo = x
		}
		if se.High != nil {
			x, ok := constInt(se.High)
			if !ok {
				return 0, 0, false
			}
			hi = x
		}
		return lo, hi, true
	}
	uintWidth := func(name, prefix string) (int64, bool) { // binary.BigEndian.<prefix>NN
		if !strings.HasPrefix(name, "binary.BigEndian."+prefix) {
			return 0, false
		}
		switch strings.TrimPrefix(name, "binary.BigEndian."+prefix) {
		case "16":
			return 2, true
		case "32":
			return 4, true
		case "64":
			return 8, true
		}
		return 0, false
	}
	recvName := func(fd *ast.FuncDecl) string {
		if fd.Recv != nil && len(fd.Recv.List) == 1 && len(fd.Recv.List[0].Names) == 1 {
			return fd.Recv.List[0].Names[0].Name
		}
		return ""
	}
	emit := func(name string, es []entry) {
		sort.SliceStable(es, func(i, j int) bool { return es[i].off < es[j].off })
		q := make([]string, len(es))
		for i, e := range es {
			q[i] = fmt.Sprintf("(%s%%string, %d, %d, %d)", strconv.Quote(e.field), e.off, e.width, e.kind)
		}
		fmt.Fprintf(&out, "Definition %s : list (string * N * N * N) := [%s].\n", name, strings.Join(q, "; "))
	}

	parseLayout := func(typ, fn string) {
		item := "layout_" + typ + "_parse"
		fd := findFunc(model, typ, fn)
		if fd == nil || fd.Body == nil {
			fail(item, "function not found")
			return
		}
		recv := recvName(fd)
		body := ""
		if fd.Type.Params != nil { // a []byte parameter is the body
			for _, p := range fd.Type.Params.List {
				if at, ok := p.Type.(*ast.ArrayType); ok && at.Len == nil && isIdent(at.Elt, "byte") && len(p.Names) == 1 {
					body = p.Names[0].Name
				}
			}
		}
		var es []entry
		guardKind, guardC := int64(-1), int64(0)
		for _, st := range fd.Body.List {
			switch x := st.(type) {
			case *ast.AssignStmt:
				if len(x.Lhs) != 1 || len(x.Rhs) != 1 {
					fail(item, "assignment shape")
					return
				}
				if x.Tok == token.DEFINE { // body := jtMsg.Body
					sel, ok := x.Rhs[0].(*ast.SelectorExpr)
					id, ok2 := x.Lhs[0].(*ast.Ident)
					if !ok || !ok2 || sel.Sel.Name != "Body" || body != "" {
						fail(item, "unexpected definition")
						return
					}
					body = id.Name
					continue
				}
				f, ok := fieldOf(x.Lhs[0], recv)
				if !ok || x.Tok != token.ASSIGN || body == "" {
					fail(item, "left side is not a field of the receiver")
					return
				}
				if ie, ok := x.Rhs[0].(*ast.IndexExpr); ok && isIdent(ie.X, body) { // recv.F = body[i]
					i, ok := constInt(ie.Index)
					if !ok {
						fail(item, "index of "+f)
						return
					}
					es = append(es, entry{f, i, 1, 0})
					continue
				}
				name, args, ok := callName(x.Rhs[0])
				if !ok || len(args) != 1 {
					fail(item, "right side of "+f)
					return
				}
				lo, hi, ok := sliceOf(args[0], body)
				if !ok {
					fail(item, "slice of "+f)
					return
				}
				if w, ok := uintWidth(name, "Uint"); ok {
					if hi >= 0 && hi-lo != w {
						fail(item, "slice width of "+f)
						return
					}
					es = append(es, entry{f, lo, w, 0})
				} else if (name == "utils.BCD2Time" || name == "utils.Bcd2Dec") && hi >= 0 {
					k := int64(1)
					if name == "utils.Bcd2Dec" {
						k = 2
					}
					es = append(es, entry{f, lo, hi - lo, k})
				} else {
					fail(item, "unknown reader "+name+" for "+f)
					return
				}
			case *ast.IfStmt: // the one length guard
				be, ok := x.Cond.(*ast.BinaryExpr)
				if !ok || guardKind >= 0 || x.Else != nil || x.Init != nil || len(x.Body.List) != 1 || body == "" {
					fail(item, "guard shape")
					return
				}
				if _, ok := x.Body.List[0].(*ast.ReturnStmt); !ok {
					fail(item, "guard body")
					return
				}
				name, args, ok := callName(be.X)
				c, okc := constInt(be.Y)
				if !ok || name != "len" || len(args) != 1 || !isIdent(args[0], body) || !okc {
					fail(item, "guard condition")
					return
				}
				switch be.Op {
				case token.NEQ:
					guardKind = 0
				case token.LSS:
					guardKind = 1
				default:
					fail(item, "guard operator")
					return
				}
				guardC = c
			case *ast.ExprStmt: // recv.X.parse(recv.Y): one field derived from another, reads nothing from the body
				c, ok := x.X.(*ast.CallExpr)
				if !ok || len(c.Args) != 1 {
					fail(item, "statement shape")
					return
				}
				sel, ok := c.Fun.(*ast.SelectorExpr)
				_, ok2 := fieldOf(c.Args[0], recv)
				if !ok || !ok2 {
					fail(item, "statement shape")
					return
				}
				if _, ok := fieldOf(sel.X, recv); !ok {
					fail(item, "statement shape")
					return
				}
			case *ast.ReturnStmt:
				if len(x.Results) != 1 || !isIdent(x.Results[0], "nil") {
					fail(item, "return shape")
					return
				}
			default:
				fail(item, "statement shape")
				return
			}
		}
		if guardKind < 0 || len(es) == 0 {
			fail(item, "no guard or no field")
			return
		}
		emit("gen_"+item, es)
		fmt.Fprintf(&out, "Definition gen_%s_guard : N * N := (%d, %d).\n", item, guardKind, guardC)
	}

	encodeLayout := func(typ, fn string) {
		item := "layout_" + typ + "_encode"
		fd := findFunc(model, typ, fn)
		if fd == nil || fd.Body == nil {
			fail(item, "function not found")
			return
		}
		recv := recvName(fd)
		data, cur, made := "", int64(0), int64(0)
		local := map[string]string{} // local := utils.Time2BCD(recv.F)
		var es []entry
		// utils.Time2BCD(recv.F) or a local holding one
		timeOf := func(e ast.Expr) (string, bool) {
			if id, ok := e.(*ast.Ident); ok {
				f, ok := local[id.Name]
				return f, ok
			}
			name, args, ok := callName(e)
			if !ok || name != "utils.Time2BCD" || len(args) != 1 {
				return "", false
			}
			return fieldOf(args[0], recv)
		}
		returned := false
		for _, st := range fd.Body.List {
			switch x := st.(type) {
			case *ast.AssignStmt:
				if len(x.Lhs) != 1 || len(x.Rhs) != 1 {
					fail(item, "assignment shape")
					return
				}
				if x.Tok == token.DEFINE {
					id, ok := x.Lhs[0].(*ast.Ident)
					if !ok {
						fail(item, "definition shape")
						return
					}
					if name, args, ok := callName(x.Rhs[0]); ok && name == "make" && data == "" && (len(args) == 2 || len(args) == 3) {
						n, ok := constInt(args[1])
						if !ok {
							fail(item, "make length")
							return
						}
						data, cur, made = id.Name, n, n
						continue
					}
					if f, ok := timeOf(x.Rhs[0]); ok {
						local[id.Name] = f
						continue
					}
					fail(item, "unexpected definition")
					return
				}
				if x.Tok != token.ASSIGN || data == "" {
					fail(item, "assignment shape")
					return
				}
				if ie, ok := x.Lhs[0].(*ast.IndexExpr); ok && isIdent(ie.X, data) { // data[i] = recv.F
					i, ok := constInt(ie.Index)
					f, ok2 := fieldOf(x.Rhs[0], recv)
					if !ok || !ok2 || i >= made {
						fail(item, "index store")
						return
					}
					es = append(es, entry{f, i, 1, 0})
					continue
				}
				if !isIdent(x.Lhs[0], data) {
					fail(item, "left side")
					return
				}
				name, args, ok := callName(x.Rhs[0])
				if !ok || len(args) != 2 || !isIdent(args[0], data) {
					fail(item, "append shape")
					return
				}
				c := x.Rhs[0].(*ast.CallExpr)
				if w, ok := uintWidth(name, "AppendUint"); ok { // data = binary.BigEndian.AppendUintNN(data, recv.F)
					f, ok := fieldOf(args[1], recv)
					if !ok {
						fail(item, "appended value")
						return
					}
					es = append(es, entry{f, cur, w, 0})
					cur += w
				} else if name == "append" && c.Ellipsis.IsValid() { // data = append(data, utils.Time2BCD(recv.F)...)
					f, ok := timeOf(args[1])
					if !ok {
						fail(item, "appended slice")
						return
					}
					es = append(es, entry{f, cur, 6, 1})
					cur += 6
				} else if name == "append" { // data = append(data, recv.F)
					f, ok := fieldOf(args[1], recv)
					if !ok {
						fail(item, "appended byte")
						return
					}
					es = append(es, entry{f, cur, 1, 0})
					cur++
				} else {
					fail(item, "unknown writer "+name)
					return
				}
			case *ast.ExprStmt:
				name, args, ok := callName(x.X)
				if !ok || len(args) != 2 || data == "" {
					fail(item, "statement shape")
					return
				}
				lo, hi, ok := sliceOf(args[0], data)
				if !ok {
					fail(item, "destination slice")
					return
				}
				if w, ok := uintWidth(name, "PutUint"); ok { // binary.BigEndian.PutUintNN(data[a:b], recv.F)
					f, ok := fieldOf(args[1], recv)
					if !ok || (hi >= 0 && hi-lo != w) || lo+w > made {
						fail(item, "PutUint destination")
						return
					}
					es = append(es, entry{f, lo, w, 0})
				} else if name == "copy" && hi >= 0 { // copy(data[a:b], utils.Time2BCD(recv.F))
					f, ok := timeOf(args[1])
					if !ok || hi > made {
						fail(item, "copy source")
						return
					}
					es = append(es, entry{f, lo, hi - lo, 1})
				} else {
					fail(item, "unknown writer "+name)
					return
				}
			case *ast.ReturnStmt:
				if len(x.Results) != 1 || !isIdent(x.Results[0], data) {
					fail(item, "return shape")
					return
				}
				returned = true
			default:
				fail(item, "statement shape")
				return
			}
		}
		if !returned || len(es) == 0 {
			fail(item, "no field or no return")
			return
		}
		emit("gen_"+item, es)
		fmt.Fprintf(&out, "Definition gen_%s_len : N := %d.\n", item, cur)
	}

	for _, t := range []struct{ typ, parse, encode string }{
		{"T0x0001", "Parse", "Encode"}, {"P0x8001", "Parse", "Encode"}, {"T0x0800", "Parse", "Encode"},
		{"T0x1003", "Parse", "Encode"}, {"T0x1005", "Parse", "Encode"}, {"T0x1206", "Parse", "Encode"},
		{"P0x8801", "Parse", "Encode"}, {"P0x9102", "Parse", "Encode"}, {"P0x9105", "Parse", "Encode"},
		{"P0x9202", "Parse", "Encode"}, {"P0x9205", "Parse", "Encode"}, {"P0x9207", "Parse", "Encode"},
		{"T0x0200LocationItem", "parse", "encode"},
	} {
		fields, embedded := structFields(model, t.typ)
		emb := map[string]bool{}
		for _, e := range embedded {
			emb[e] = true
		}
		var q []string
		for _, f := range fields {
			if !emb[f] && ast.IsExported(f) {
				q = append(q, strconv.Quote(f))
			}
		}
		if len(q) == 0 {
			fail("layout_"+t.typ+"_fields", "struct not found")
		} else {
			fmt.Fprintf(&out, "Definition gen_layout_%s_fields : list string := [%s]%%string.\n", t.typ, strings.Join(q, "; "))
		}
		parseLayout(t.typ, t.parse)
		encodeLayout(t.typ, t.encode)
		fmt.Fprintln(&out)
	}
}

// ==== END C07 addition =======================================================================================

// ==== BEGIN header layouts, shared helpers (builder "bodies") ================================================
// hdrLin: c + sum coef*symbol, the value of an index expression that is linear in a few named quantities.
type hdrLin struct {
	c int64
	v map[string]int64
}

func hdrConst(c int64) hdrLin { return hdrLin{c: c, v: map[string]int64{}} }
func hdrSym(s string) hdrLin  { return hdrLin{v: map[string]int64{s: 1}} }
func (a hdrLin) plus(b hdrLin, sign int64) hdrLin {
	r := hdrLin{c: a.c + sign*b.c, v: map[string]int64{}}
	for k, x := range a.v {
		r.v[k] += x
	}
	for k, x := range b.v {
		r.v[k] += sign * x
	}
	for k, x := range r.v {
		if x == 0 {
			delete(r.v, k)
		}
	}
	return r
}
func (a hdrLin) scale(k int64) hdrLin {
	r := hdrLin{c: a.c * k, v: map[string]int64{}}
	for s, x := range a.v {
		if x*k != 0 {
			r.v[s] = x * k
		}
	}
	return r
}
func (a hdrLin) isConst() bool { return len(a.v) == 0 }

// exactly c + 1*each of syms
func (a hdrLin) over(syms ...string) (int64, bool) {
	if len(a.v) != len(syms) {
		return 0, false
	}
	for _, s := range syms {
		if a.v[s] != 1 {
			return 0, false
		}
	}
	return a.c, true
}

// hdrEval evaluates an integer expression that is linear in symbols: env holds locals already evaluated,
// sym recognises the expressions that stand for a symbol; int(...)/byte(...) style conversions are transparent.
func hdrEval(e ast.Expr, env map[string]hdrLin, sym func(ast.Expr) (string, bool)) (hdrLin, bool) {
	if s, ok := sym(e); ok {
		return hdrSym(s), true
	}
	switch x := e.(type) {
	case *ast.ParenExpr:
		return hdrEval(x.X, env, sym)
	case *ast.BasicLit:
		if x.Kind == token.INT {
			v, err := strconv.ParseInt(x.Value, 0, 64)
			return hdrConst(v), err == nil
		}
	case *ast.Ident:
		if v, ok := env[x.Name]; ok {
			return v, true
		}
		if v, ok := consts[x.Name]; ok {
			return hdrConst(v), true
		}
	case *ast.SelectorExpr:
		if v, ok := intOf(x, nil); ok {
			return hdrConst(v), true
		}
	case *ast.BinaryExpr:
		a, ok1 := hdrEval(x.X, env, sym)
		b, ok2 := hdrEval(x.Y, env, sym)
		if !ok1 || !ok2 {
			return hdrLin{}, false
		}
		switch x.Op {
		case token.ADD:
			return a.plus(b, 1), true
		case token.SUB:
			return a.plus(b, -1), true
		case token.MUL:
			if a.isConst() {
				return b.scale(a.c), true
			}
			if b.isConst() {
				return a.scale(b.c), true
			}
		}
	case *ast.CallExpr:
		if id, ok := x.Fun.(*ast.Ident); ok && len(x.Args) == 1 {
			switch id.Name {
			case "int", "byte", "uint8", "uint16", "uint32", "uint64", "int64":
				return hdrEval(x.Args[0], env, sym)
			}
		}
	}
	return hdrLin{}, false
}

// hdrSlice: v[lo:hi] with linear bounds (lo omitted = 0; hi omitted = ok=false unless openOK)
func hdrSlice(e ast.Expr, v string, env map[string]hdrLin, sym func(ast.Expr) (string, bool)) (hdrLin, hdrLin, bool) {
	se, ok := e.(*ast.SliceExpr)
	if !ok || se.Slice3 || se.High == nil {
		return hdrLin{}, hdrLin{}, false
	}
	if id, ok := se.X.(*ast.Ident); !ok || id.Name != v {
		return hdrLin{}, hdrLin{}, false
	}
	lo := hdrConst(0)
	if se.Low != nil {
		x, ok := hdrEval(se.Low, env, sym)
		if !ok {
			return hdrLin{}, hdrLin{}, false
		}
		lo = x
	}
	hi, ok := hdrEval(se.High, env, sym)
	return lo, hi, ok
}

// hdrExtract: an expression that takes bits out of a word: shifts right, one mask, shifts right, under
// conversions.  Result: value = ((word >> pre) & mask) >> post, trunc = 256 / 65536 when a byte / uint16 conversion
// is applied (0 = none).  mask = -1 when the expression has none.
func hdrExtract(e ast.Expr, isWord func(ast.Expr) bool) (pre, mask, post, trunc int64, ok bool) {
	type op struct {
		k byte
		v int64
	}
	var ops []op
	var rec func(e ast.Expr) bool
	rec = func(e ast.Expr) bool {
		if isWord(e) {
			return true
		}
		switch x := e.(type) {
		case *ast.ParenExpr:
			return rec(x.X)
		case *ast.CallExpr:
			id, ok := x.Fun.(*ast.Ident)
			if !ok || len(x.Args) != 1 {
				return false
			}
			if !rec(x.Args[0]) {
				return false
			}
			switch id.Name {
			case "byte", "uint8":
				trunc = 256
			case "uint16":
				if trunc == 0 {
					trunc = 65536
				}
			}
			return true
		case *ast.BinaryExpr:
			cy, oky := intOf(x.Y, nil)
			cx, okx := intOf(x.X, nil)
			switch {
			case x.Op == token.SHR && oky:
				if !rec(x.X) {
					return false
				}
				ops = append(ops, op{'r', cy})
				return true
			case x.Op == token.AND && oky:
				if !rec(x.X) {
					return false
				}
				ops = append(ops, op{'a', cy})
				return true
			case x.Op == token.AND && okx:
				if !rec(x.Y) {
					return false
				}
				ops = append(ops, op{'a', cx})
				return true
			}
		}
		return false
	}
	if !rec(e) {
		return 0, 0, 0, 0, false
	}
	mask = -1
	for _, o := range ops {
		switch {
		case o.k == 'r' && mask < 0:
			pre += o.v
		case o.k == 'r':
			post += o.v
		case o.k == 'a' && mask < 0:
			mask = o.v
		default:
			return 0, 0, 0, 0, false
		}
	}
	return pre, mask, post, trunc, true
}

func hdrRecv(fd *ast.FuncDecl) string {
	if fd.Recv != nil && len(fd.Recv.List) == 1 && len(fd.Recv.List[0].Names) == 1 {
		return fd.Recv.List[0].Names[0].Name
	}
	return ""
}

func hdrParam(fd *ast.FuncDecl, i int) string {
	n := 0
	for _, p := range fd.Type.Params.List {
		for _, nm := range p.Names {
			if n == i {
				return nm.Name
			}
			n++
		}
	}
	return ""
}

// a.b.c -> ["a","b","c"]
func hdrPath(e ast.Expr) []string {
	switch x := e.(type) {
	case *ast.Ident:
		return []string{x.Name}
	case *ast.SelectorExpr:
		if p := hdrPath(x.X); p != nil {
			return append(p, x.Sel.Name)
		}
	}
	return nil
}

func hdrCall(e ast.Expr) (string, []ast.Expr, *ast.CallExpr) {
	c, ok := e.(*ast.CallExpr)
	if !ok {
		return "", nil, nil
	}
	p := hdrPath(c.Fun)
	if p == nil {
		return "", nil, nil
	}
	return strings.Join(p, "."), c.Args, c
}

// `len(v) < X` -> X
func hdrLenGuard(is *ast.IfStmt, v string, env map[string]hdrLin, sym func(ast.Expr) (string, bool)) (hdrLin, bool) {
	be, ok := is.Cond.(*ast.BinaryExpr)
	if !ok || be.Op != token.LSS || is.Else != nil || is.Init != nil || len(is.Body.List) != 1 {
		return hdrLin{}, false
	}
	if _, ok := is.Body.List[0].(*ast.ReturnStmt); !ok {
		return hdrLin{}, false
	}
	name, args, _ := hdrCall(be.X)
	if name != "len" || len(args) != 1 {
		return hdrLin{}, false
	}
	if id, ok := args[0].(*ast.Ident); !ok || id.Name != v {
		return hdrLin{}, false
	}
	return hdrEval(be.Y, env, sym)
}

// ==== END header layouts, shared helpers =====================================================================

// ==== BEGIN frame header layout (builder "bodies"): frameLayout ==============================================
// JT/T 808 header: protocol/jt808/jt808.go Header.decode, BodyProperty.decode / encode, Header.Encode.
//
//	gen_frame_min_len                 the first guard `len(data) < c`
//	gen_frame_id, gen_frame_prop      (offset, width) of the id word and of the property word handed to BodyProperty.decode
//	gen_frame_version_flag            the value of Property.Version that selects the second layout
//	gen_frame_2013 / gen_frame_2019   (start, phone length, ProtocolVersion) of the default / the selected layout
//	gen_frame_serial                  (offset, width) of the serial number relative to start+phoneLen
//	gen_frame_serial_guard            c of the guard `len(data) < start+phoneLen+c`;  gen_frame_head_end likewise for `end`
//	gen_frame_frag_guard / _sum / _no / _frag_extra   the same inside `if isSubPackage`, and the `end += c`
//	gen_frame_frag_flag               isSubPackage = (PacketFragmented == flag)
//	gen_frame_prop_decode             field -> (pre-shift, mask, post-shift, truncation) of BodyProperty.decode
//	gen_frame_prop_alias              fields copied from another field (Version = bit14)
//	gen_frame_prop_encode             field -> left shift, in the order of the OR chain of BodyProperty.encode
//	gen_frame_enc_*                   Header.Encode: made length, (offset, width) of id and property, the id fallback,
//	                                  the cleared fragment flag, (ProtocolVersion tested, byte appended), the serial
//	                                  bytes as (shift, mask), the order of the appended parts
func frameLayout(repo string) {
	files := parseDir(filepath.Join(repo, "protocol/jt808"))
	pair := func(a, b int64) string { return fmt.Sprintf("(%d, %d)", a, b) }

	// ---------------- Header.decode
	func() {
		item := "frame_decode"
		fd := findFunc(files, "Header", "decode")
		if fd == nil || fd.Body == nil {
			fail(item, "Header.decode not found")
			return
		}
		recv, data := hdrRecv(fd), hdrParam(fd, 0)
		syms := map[string]bool{}
		sym := func(e ast.Expr) (string, bool) {
			if id, ok := e.(*ast.Ident); ok && syms[id.Name] {
				return id.Name, true
			}
			return "", false
		}
		env := map[string]hdrLin{}
		defaults, alt := map[string]int64{}, map[string]int64{}
		var order []string
		flag := int64(-1)
		type span struct{ lo, hi hdrLin }
		fields := map[string]span{}
		var guards, fragGuards []hdrLin
		fragExtra, endVar := int64(-1), ""
		var headEnd hdrLin
		haveEnd, fragSeen := false, false
		bad := func(why string) bool { fail(item, why); return false }
		var walk func(list []ast.Stmt, inFrag bool) bool
		walk = func(list []ast.Stmt, inFrag bool) bool {
			for _, st := range list {
				switch x := st.(type) {
				case *ast.DeclStmt: // var ( start = 4; phoneLen = 6; version = consts.X )
					gd, ok := x.Decl.(*ast.GenDecl)
					if !ok || gd.Tok != token.VAR || inFrag {
						return bad("declaration shape")
					}
					for _, sp := range gd.Specs {
						vs, ok := sp.(*ast.ValueSpec)
						if !ok || len(vs.Names) != len(vs.Values) {
							return bad("var block shape")
						}
						for i, nm := range vs.Names {
							v, ok := intOf(vs.Values[i], nil)
							if !ok {
								return bad("var value of " + nm.Name)
							}
							defaults[nm.Name] = v
							syms[nm.Name] = true
							order = append(order, nm.Name)
						}
					}
				case *ast.IfStmt:
					if g, ok := hdrLenGuard(x, data, env, sym); ok {
						if inFrag {
							fragGuards = append(fragGuards, g)
						} else {
							guards = append(guards, g)
						}
						continue
					}
					if x.Else != nil || x.Init != nil {
						return bad("if shape")
					}
					if be, ok := x.Cond.(*ast.BinaryExpr); ok && be.Op == token.EQL && !inFrag { // h.Property.Version == K
						p := hdrPath(be.X)
						k, okk := intOf(be.Y, nil)
						if len(p) != 3 || p[0] != recv || p[2] != "Version" || !okk || flag >= 0 {
							return bad("version test shape")
						}
						flag = k
						for _, s := range x.Body.List {
							as, ok := s.(*ast.AssignStmt)
							if !ok || as.Tok != token.ASSIGN || len(as.Lhs) != 1 {
								return bad("version block shape")
							}
							id, ok := as.Lhs[0].(*ast.Ident)
							v, okv := intOf(as.Rhs[0], nil)
							if !ok || !okv || !syms[id.Name] {
								return bad("version block assignment")
							}
							alt[id.Name] = v
						}
						continue
					}
					if p := hdrPath(x.Cond); len(p) == 3 && p[0] == recv && p[2] == "isSubPackage" && !inFrag && !fragSeen {
						fragSeen = true
						if !walk(x.Body.List, true) {
							return false
						}
						continue
					}
					return bad("if shape")
				case *ast.ExprStmt: // h.Property.decode(data[a:b])
					name, args, _ := hdrCall(x.X)
					if name != recv+".Property.decode" || len(args) != 1 || inFrag {
						return bad("statement shape")
					}
					lo, hi, ok := hdrSlice(args[0], data, env, sym)
					if !ok {
						return bad("property slice")
					}
					fields["Property"] = span{lo, hi}
				case *ast.AssignStmt:
					if len(x.Lhs) == 2 && len(x.Rhs) == 2 && x.Tok == token.ASSIGN { // h.SubPackageSum, h.SubPackageNo = 0, 0
						for _, r := range x.Rhs {
							if v, ok := intOf(r, nil); !ok || v != 0 {
								return bad("double assignment")
							}
						}
						continue
					}
					if len(x.Lhs) != 1 || len(x.Rhs) != 1 {
						return bad("assignment shape")
					}
					if id, ok := x.Lhs[0].(*ast.Ident); ok {
						v, okv := hdrEval(x.Rhs[0], env, sym)
						switch {
						case x.Tok == token.DEFINE && okv && !inFrag && endVar == "": // end := start + phoneLen + 2
							endVar, env[id.Name], headEnd, haveEnd = id.Name, v, v, true
						case x.Tok == token.ADD_ASSIGN && okv && v.isConst() && inFrag && id.Name == endVar && fragExtra < 0:
							fragExtra = v.c
						default:
							return bad("local assignment " + id.Name)
						}
						continue
					}
					p := hdrPath(x.Lhs[0])
					if len(p) != 2 || p[0] != recv || x.Tok != token.ASSIGN {
						return bad("left side")
					}
					f := p[1]
					if lo, hi, ok := hdrSlice(x.Rhs[0], data, env, sym); ok { // h.bcdTerminalPhoneNo = data[start:start+phoneLen]
						fields[f] = span{lo, hi}
						continue
					}
					name, args, _ := hdrCall(x.Rhs[0])
					switch {
					case name == "binary.BigEndian.Uint16" && len(args) == 1:
						lo, hi, ok := hdrSlice(args[0], data, env, sym)
						if !ok || !hi.plus(lo, -1).isConst() || hi.plus(lo, -1).c != 2 {
							return bad("Uint16 slice of " + f)
						}
						fields[f] = span{lo, hi}
					case name == "utils.Bcd2Dec" && len(args) == 1: // rendering of the phone bytes
					default:
						id, ok := x.Rhs[0].(*ast.Ident)
						if !ok || !(syms[id.Name] || id.Name == endVar) {
							return bad("right side of " + f)
						}
					}
				case *ast.ReturnStmt:
				default:
					return bad("statement shape")
				}
			}
			return true
		}
		if !walk(fd.Body.List, false) {
			return
		}
		ph, okp := fields["bcdTerminalPhoneNo"]
		if !okp || len(ph.lo.v) != 1 || ph.lo.c != 0 {
			fail(item, "phone slice")
			return
		}
		var S, P string
		for k := range ph.lo.v {
			S = k
		}
		for k := range ph.hi.plus(ph.lo, -1).v {
			P = k
		}
		if c, ok := ph.hi.over(S, P); !ok || c != 0 || S == P {
			fail(item, "phone slice")
			return
		}
		var V string
		for _, n := range order {
			if n != S && n != P {
				V = n
			}
		}
		rel := func(name string) (int64, int64, bool) { // offset relative to start+phoneLen, width
			sp, ok := fields[name]
			if !ok {
				return 0, 0, false
			}
			lo, ok1 := sp.lo.over(S, P)
			hi, ok2 := sp.hi.over(S, P)
			return lo, hi - lo, ok1 && ok2
		}
		abs := func(name string) (int64, int64, bool) {
			sp, ok := fields[name]
			return sp.lo.c, sp.hi.c - sp.lo.c, ok && sp.lo.isConst() && sp.hi.isConst()
		}
		idO, idW, ok1 := abs("ID")
		prO, prW, ok2 := abs("Property")
		seO, seW, ok3 := rel("SerialNumber")
		suO, suW, ok4 := rel("SubPackageSum")
		noO, noW, ok5 := rel("SubPackageNo")
		he, ok6 := headEnd.over(S, P)
		if !(ok1 && ok2 && ok3 && ok4 && ok5 && ok6 && haveEnd) || len(guards) != 2 || len(fragGuards) != 1 || flag < 0 || fragExtra < 0 || V == "" {
			fail(item, "fields or guards missing")
			return
		}
		g1, okg1 := guards[1].over(S, P)
		g2, okg2 := fragGuards[0].over(S, P)
		if !guards[0].isConst() || !okg1 || !okg2 {
			fail(item, "guard expressions")
			return
		}
		for _, v := range []int64{idO, prO, seO, suO, noO, g1, g2, he, guards[0].c} {
			if v < 0 {
				fail(item, "negative offset")
				return
			}
		}
		for _, n := range []string{S, P, V} {
			if _, ok := alt[n]; !ok {
				fail(item, "version block does not set "+n)
				return
			}
		}
		fmt.Fprintf(&out, "Definition gen_frame_min_len : N := %d.\n", guards[0].c)
		fmt.Fprintf(&out, "Definition gen_frame_id : N * N := %s.\nDefinition gen_frame_prop : N * N := %s.\n", pair(idO, idW), pair(prO, prW))
		fmt.Fprintf(&out, "Definition gen_frame_version_flag : N := %d.\n", flag)
		fmt.Fprintf(&out, "Definition gen_frame_2013 : N * N * N := (%d, %d, %d).\n", defaults[S], defaults[P], defaults[V])
		fmt.Fprintf(&out, "Definition gen_frame_2019 : N * N * N := (%d, %d, %d).\n", alt[S], alt[P], alt[V])
		fmt.Fprintf(&out, "Definition gen_frame_serial : N * N := %s.\nDefinition gen_frame_serial_guard : N := %d.\nDefinition gen_frame_head_end : N := %d.\n", pair(seO, seW), g1, he)
		fmt.Fprintf(&out, "Definition gen_frame_frag_guard : N := %d.\nDefinition gen_frame_sum : N * N := %s.\nDefinition gen_frame_no : N * N := %s.\nDefinition gen_frame_frag_extra : N := %d.\n", g2, pair(suO, suW), pair(noO, noW), fragExtra)
	}()

	// ---------------- BodyProperty.decode
	func() {
		item := "frame_prop_decode"
		fd := findFunc(files, "BodyProperty", "decode")
		if fd == nil || fd.Body == nil {
			fail(item, "BodyProperty.decode not found")
			return
		}
		recv, data := hdrRecv(fd), hdrParam(fd, 0)
		word := ""
		isWord := func(e ast.Expr) bool { id, ok := e.(*ast.Ident); return ok && word != "" && id.Name == word }
		var rows, alias []string
		fragFlag := int64(-1)
		for _, st := range fd.Body.List {
			as, ok := st.(*ast.AssignStmt)
			if !ok || len(as.Lhs) != 1 || len(as.Rhs) != 1 {
				fail(item, "statement shape")
				return
			}
			if as.Tok == token.DEFINE { // attribute := binary.BigEndian.Uint16(data)
				name, args, _ := hdrCall(as.Rhs[0])
				id, ok := as.Lhs[0].(*ast.Ident)
				a0, ok2 := (ast.Expr)(nil), false
				if len(args) == 1 {
					a0 = args[0]
					_, ok2 = a0.(*ast.Ident)
				}
				if !ok || name != "binary.BigEndian.Uint16" || !ok2 || a0.(*ast.Ident).Name != data || word != "" {
					fail(item, "word definition")
					return
				}
				word = id.Name
				continue
			}
			p := hdrPath(as.Lhs[0])
			if len(p) != 2 || p[0] != recv || as.Tok != token.ASSIGN {
				fail(item, "left side")
				return
			}
			f := p[1]
			if isWord(as.Rhs[0]) { // p.attribute = attribute
				continue
			}
			if q := hdrPath(as.Rhs[0]); len(q) == 2 && q[0] == recv { // p.Version = p.bit14
				alias = append(alias, fmt.Sprintf("(%s%%string, %s%%string)", strconv.Quote(f), strconv.Quote(q[1])))
				continue
			}
			if be, ok := as.Rhs[0].(*ast.BinaryExpr); ok && be.Op == token.EQL { // p.isSubPackage = p.PacketFragmented == 1
				q := hdrPath(be.X)
				k, okk := intOf(be.Y, nil)
				if len(q) != 2 || q[0] != recv || q[1] != "PacketFragmented" || !okk || f != "isSubPackage" {
					fail(item, "flag comparison")
					return
				}
				fragFlag = k
				continue
			}
			pre, mask, post, trunc, ok := hdrExtract(as.Rhs[0], isWord)
			if !ok {
				fail(item, "extraction of "+f)
				return
			}
			if mask < 0 {
				mask = 65535
			}
			if trunc == 0 {
				trunc = 65536
			}
			rows = append(rows, fmt.Sprintf("(%s%%string, (%d, %d, %d, %d))", strconv.Quote(f), pre, mask, post, trunc))
		}
		if word == "" || len(rows) == 0 || fragFlag < 0 {
			fail(item, "nothing recognised")
			return
		}
		fmt.Fprintf(&out, "Definition gen_frame_prop_decode : list (string * (N * N * N * N)) := [%s].\n", strings.Join(rows, "; "))
		fmt.Fprintf(&out, "Definition gen_frame_prop_alias : list (string * string) := [%s].\n", strings.Join(alias, "; "))
		fmt.Fprintf(&out, "Definition gen_frame_frag_flag : N := %d.\n", fragFlag)
	}()

	// ---------------- BodyProperty.encode
	func() {
		item := "frame_prop_encode"
		fd := findFunc(files, "BodyProperty", "encode")
		if fd == nil || fd.Body == nil || len(fd.Body.List) != 1 {
			fail(item, "BodyProperty.encode not found")
			return
		}
		recv := hdrRecv(fd)
		rs, ok := fd.Body.List[0].(*ast.ReturnStmt)
		if !ok || len(rs.Results) != 1 {
			fail(item, "return shape")
			return
		}
		var rows []string
		var term func(e ast.Expr) bool
		term = func(e ast.Expr) bool {
			switch x := e.(type) {
			case *ast.ParenExpr:
				return term(x.X)
			case *ast.BinaryExpr:
				if x.Op == token.OR {
					return term(x.X) && term(x.Y)
				}
				if x.Op == token.SHL {
					k, ok := intOf(x.Y, nil)
					inner := x.X
					if c, ok := inner.(*ast.CallExpr); ok && len(c.Args) == 1 { // uint16(p.F)
						inner = c.Args[0]
					}
					p := hdrPath(inner)
					if !ok || len(p) != 2 || p[0] != recv {
						return false
					}
					rows = append(rows, fmt.Sprintf("(%s%%string, %d)", strconv.Quote(p[1]), k))
					return true
				}
			case *ast.SelectorExpr:
				p := hdrPath(x)
				if len(p) != 2 || p[0] != recv {
					return false
				}
				rows = append(rows, fmt.Sprintf("(%s%%string, 0)", strconv.Quote(p[1])))
				return true
			}
			return false
		}
		if !term(rs.Results[0]) {
			fail(item, "OR chain shape")
			return
		}
		fmt.Fprintf(&out, "Definition gen_frame_prop_encode : list (string * N) := [%s].\n", strings.Join(rows, "; "))
	}()

	// ---------------- Header.Encode
	func() {
		item := "frame_encode"
		fd := findFunc(files, "Header", "Encode")
		if fd == nil || fd.Body == nil {
			fail(item, "Header.Encode not found")
			return
		}
		recv, body := hdrRecv(fd), hdrParam(fd, 0)
		noSym := func(ast.Expr) (string, bool) { return "", false }
		data, idVar, codeVar := "", "", ""
		made := int64(-1)
		var order, serial []string
		idFallback, fragClear := int64(-1), int64(-1)
		verConst, verByte := int64(-1), int64(-1)
		spans := map[string][2]int64{}
		lenSet := false
		bad := func(why string) { fail(item, why) }
		for _, st := range fd.Body.List {
			switch x := st.(type) {
			case *ast.AssignStmt:
				if len(x.Lhs) != 1 || len(x.Rhs) != 1 {
					bad("assignment shape")
					return
				}
				name, args, call := hdrCall(x.Rhs[0])
				if x.Tok == token.DEFINE {
					id, ok := x.Lhs[0].(*ast.Ident)
					if !ok {
						bad("definition shape")
						return
					}
					switch {
					case name == "make" && (len(args) == 2 || len(args) == 3) && data == "":
						n, ok := intOf(args[1], nil)
						if !ok {
							bad("make length")
							return
						}
						data, made = id.Name, n
					case name == "utils.CreateVerifyCode" && len(args) == 1 && codeVar == "":
						codeVar = id.Name
					default:
						if p := hdrPath(x.Rhs[0]); len(p) == 2 && p[0] == recv && p[1] == "ReplyID" && idVar == "" {
							idVar = id.Name
						} else {
							bad("unexpected definition")
							return
						}
					}
					continue
				}
				if x.Tok != token.ASSIGN {
					bad("assignment shape")
					return
				}
				if p := hdrPath(x.Lhs[0]); len(p) == 3 && p[0] == recv && p[1] == "Property" { // h.Property.F = ...
					switch p[2] {
					case "BodyDayaLen":
						n2, a2, _ := hdrCall(x.Rhs[0])
						if n2 != "uint16" || len(a2) != 1 {
							bad("length assignment")
							return
						}
						n3, a3, _ := hdrCall(a2[0])
						if id, ok := a3[0].(*ast.Ident); n3 != "len" || len(a3) != 1 || !ok || id.Name != body {
							bad("length assignment")
							return
						}
						lenSet = true
					case "PacketFragmented":
						v, ok := intOf(x.Rhs[0], nil)
						if !ok {
							bad("fragment assignment")
							return
						}
						fragClear = v
					default:
						bad("property field " + p[2])
						return
					}
					continue
				}
				id, ok := x.Lhs[0].(*ast.Ident)
				if !ok || id.Name != data || name != "append" || len(args) < 2 {
					bad("append shape")
					return
				}
				if a0, ok := args[0].(*ast.Ident); !ok || a0.Name != data {
					bad("append shape")
					return
				}
				switch {
				case call.Ellipsis.IsValid() && len(args) == 2:
					if p := hdrPath(args[1]); len(p) == 2 && p[0] == recv && p[1] == "bcdTerminalPhoneNo" {
						order = append(order, "phone")
					} else if len(p) == 1 && p[0] == body {
						order = append(order, "body")
					} else {
						bad("appended slice")
						return
					}
				case len(args) == 2:
					if a1, ok := args[1].(*ast.Ident); ok && a1.Name == codeVar && codeVar != "" {
						order = append(order, "check")
					} else {
						bad("appended byte")
						return
					}
				case len(args) == 3: // byte(h.PlatformSerialNumber>>8), byte(h.PlatformSerialNumber&0xFF)
					isPS := func(e ast.Expr) bool {
						p := hdrPath(e)
						return len(p) == 2 && p[0] == recv && p[1] == "PlatformSerialNumber"
					}
					for _, a := range args[1:] {
						pre, mask, post, trunc, ok := hdrExtract(a, isPS)
						if !ok || trunc != 256 || post != 0 {
							bad("serial byte")
							return
						}
						if mask < 0 || mask > 255 {
							mask = 255
						}
						serial = append(serial, pair(pre, mask))
					}
					order = append(order, "serial")
				default:
					bad("append shape")
					return
				}
			case *ast.IfStmt:
				be, ok := x.Cond.(*ast.BinaryExpr)
				if !ok || be.Op != token.EQL || x.Else != nil || len(x.Body.List) != 1 {
					bad("if shape")
					return
				}
				as, ok := x.Body.List[0].(*ast.AssignStmt)
				if !ok || len(as.Lhs) != 1 || len(as.Rhs) != 1 {
					bad("if body")
					return
				}
				if id, ok := be.X.(*ast.Ident); ok && id.Name == idVar && idVar != "" { // if id == 0 { id = h.ID }
					k, okk := intOf(be.Y, nil)
					p := hdrPath(as.Rhs[0])
					if !okk || len(p) != 2 || p[0] != recv || p[1] != "ID" {
						bad("id fallback")
						return
					}
					idFallback = k
					continue
				}
				if p := hdrPath(be.X); len(p) == 2 && p[0] == recv && p[1] == "ProtocolVersion" { // 2019: version byte
					k, okk := intOf(be.Y, nil)
					name, args, _ := hdrCall(as.Rhs[0])
					if !okk || name != "append" || len(args) != 2 {
						bad("version byte")
						return
					}
					b, okb := intOf(args[1], nil)
					if !okb {
						bad("version byte")
						return
					}
					verConst, verByte = k, b
					order = append(order, "version")
					continue
				}
				bad("if shape")
				return
			case *ast.ExprStmt: // binary.BigEndian.PutUint16(data[a:b], id | h.Property.encode())
				name, args, _ := hdrCall(x.X)
				if name != "binary.BigEndian.PutUint16" || len(args) != 2 {
					bad("statement shape")
					return
				}
				lo, hi, ok := hdrSlice(args[0], data, nil, noSym)
				if !ok || !lo.isConst() || !hi.isConst() || hi.c-lo.c != 2 || hi.c > made {
					bad("PutUint16 destination")
					return
				}
				if id, ok := args[1].(*ast.Ident); ok && id.Name == idVar {
					spans["id"] = [2]int64{lo.c, 2}
				} else if n2, _, _ := hdrCall(args[1]); n2 == recv+".Property.encode" {
					spans["prop"] = [2]int64{lo.c, 2}
				} else {
					bad("PutUint16 source")
					return
				}
			case *ast.ReturnStmt:
				name, args, _ := hdrCall(x.Results[0])
				if name != "escape" || len(args) != 1 {
					bad("return shape")
					return
				}
			default:
				bad("statement shape")
				return
			}
		}
		if made < 0 || len(spans) != 2 || idFallback < 0 || fragClear < 0 || verConst < 0 || len(serial) != 2 || !lenSet {
			bad("parts missing")
			return
		}
		q := make([]string, len(order))
		for i, o := range order {
			q[i] = strconv.Quote(o)
		}
		fmt.Fprintf(&out, "Definition gen_frame_enc_made : N := %d.\n", made)
		fmt.Fprintf(&out, "Definition gen_frame_enc_id : N * N := %s.\nDefinition gen_frame_enc_prop : N * N := %s.\n", pair(spans["id"][0], spans["id"][1]), pair(spans["prop"][0], spans["prop"][1]))
		fmt.Fprintf(&out, "Definition gen_frame_enc_id_fallback : N := %d.\nDefinition gen_frame_enc_frag : N := %d.\n", idFallback, fragClear)
		fmt.Fprintf(&out, "Definition gen_frame_enc_version : N * N := %s.\n", pair(verConst, verByte))
		fmt.Fprintf(&out, "Definition gen_frame_enc_serial : list (N * N) := [%s].\n", strings.Join(serial, "; "))
		fmt.Fprintf(&out, "Definition gen_frame_enc_order : list string := [%s]%%string.\n", strings.Join(q, "; "))
	}()
	fmt.Fprintln(&out)
}

// ==== END frame header layout ================================================================================

// ==== BEGIN jt1078 header layout (builder "bodies"): jt1078Layout ============================================
// JT/T 1078 RTP header: protocol/jt1078/jt1078.go Packet.decodeHead.
//
//	gen_jt1078_min_len        the first guard `len(data) < c`
//	gen_jt1078_fixed          (field, offset, width) of the fields read with constant bounds: data[a:b], data[i], Uint16(data[a:b])
//	gen_jt1078_bits           (field, (byte index, shift, mask)): the Flag literal and DataType / SubcontractType,
//	                          through the byte locals (`attr := data[4]`) or directly (`data[15] >> 4`)
//	gen_jt1078_end            (base, + unless penetrate, + if video) of `end`;  gen_jt1078_penetrate, gen_jt1078_video_types
//	gen_jt1078_start          (start, start after the timestamp);  gen_jt1078_ts (offset, width) of the timestamp
//	gen_jt1078_intervals      ((offset, width) x 2 relative to start, and the `start += c`)
//	gen_jt1078_blen           (offset, width) of the body length relative to start;  gen_jt1078_head_end likewise
func jt1078Layout(repo string) {
	item := "jt1078_layout"
	files := parseDir(filepath.Join(repo, "protocol/jt1078"))
	fd := findFunc(files, "Packet", "decodeHead")
	if fd == nil || fd.Body == nil {
		fail(item, "decodeHead not found")
		return
	}
	recv, data := hdrRecv(fd), hdrParam(fd, 0)
	local := map[string]int64{} // the DataType constants of the package
	for _, f := range files {
		for _, d := range f.Decls {
			gd, ok := d.(*ast.GenDecl)
			if !ok || gd.Tok != token.CONST {
				continue
			}
			iota := int64(0)
			for _, sp := range gd.Specs {
				vs := sp.(*ast.ValueSpec)
				for i, nm := range vs.Names {
					if i < len(vs.Values) {
						if v, ok := intOf(vs.Values[i], local); ok {
							local[nm.Name] = v
							iota = v
							continue
						}
						if id, ok := vs.Values[i].(*ast.Ident); ok && id.Name == "iota" {
							local[nm.Name] = iota
						}
					} else if strings.HasPrefix(nm.Name, "DataType") {
						iota++
						local[nm.Name] = iota
					}
				}
			}
		}
	}
	// prefer the values the existing pass already established (gen_jt1078_datatypes reads the same constants)
	syms := map[string]bool{}
	sym := func(e ast.Expr) (string, bool) {
		if id, ok := e.(*ast.Ident); ok && syms[id.Name] {
			return id.Name, true
		}
		return "", false
	}
	env := map[string]hdrLin{}
	byteVar := map[string]int64{} // attr -> 4
	var fixed, bits []string
	var guards []hdrLin
	endVar, startVar := "", ""
	endBase, endTs, endVideo := int64(-1), int64(-1), int64(-1)
	start0, start1 := int64(-1), int64(-1)
	pen := int64(-1)
	var video []int64
	tsO, tsW := int64(-1), int64(-1)
	var ivl [][2]int64
	ivlExtra := int64(-1)
	blO, blW, headEnd := int64(-1), int64(-1), int64(-1)
	bad := func(why string) bool { fail(item, why); return false }
	// an expression that picks bits of one byte of data
	extract := func(e ast.Expr) (int64, int64, int64, bool) {
		idx := int64(-1)
		isWord := func(x ast.Expr) bool {
			if id, ok := x.(*ast.Ident); ok {
				if i, ok := byteVar[id.Name]; ok {
					idx = i
					return true
				}
			}
			if ie, ok := x.(*ast.IndexExpr); ok {
				if id, ok := ie.X.(*ast.Ident); ok && id.Name == data {
					if i, ok := intOf(ie.Index, nil); ok {
						idx = i
						return true
					}
				}
			}
			return false
		}
		pre, mask, post, _, ok := hdrExtract(e, isWord)
		if !ok || post != 0 || idx < 0 {
			return 0, 0, 0, false
		}
		if mask < 0 {
			mask = 255
		}
		return idx, pre, mask, true
	}
	isRecvPath := func(e ast.Expr, names ...string) bool {
		p := hdrPath(e)
		if len(p) != len(names)+1 || p[0] != recv {
			return false
		}
		for i, n := range names {
			if p[i+1] != n {
				return false
			}
		}
		return true
	}
	// p.DataType != DataTypePenetrate
	notPen := func(e ast.Expr) bool {
		be, ok := e.(*ast.BinaryExpr)
		if !ok || be.Op != token.NEQ || !isRecvPath(be.X, "DataType") {
			return false
		}
		v, ok := intOf(be.Y, local)
		if !ok || (pen >= 0 && pen != v) {
			return false
		}
		pen = v
		return true
	}
	var videoCond func(e ast.Expr) bool
	videoCond = func(e ast.Expr) bool {
		be, ok := e.(*ast.BinaryExpr)
		if !ok {
			return false
		}
		if be.Op == token.LOR {
			return videoCond(be.X) && videoCond(be.Y)
		}
		if be.Op != token.EQL || !isRecvPath(be.X, "DataType") {
			return false
		}
		v, ok := intOf(be.Y, local)
		if ok {
			video = append(video, v)
		}
		return ok
	}
	uint := func(e ast.Expr) (hdrLin, hdrLin, int64, bool) { // binary.BigEndian.UintNN(data[lo:hi])
		name, args, _ := hdrCall(e)
		w := map[string]int64{"binary.BigEndian.Uint16": 2, "binary.BigEndian.Uint32": 4, "binary.BigEndian.Uint64": 8}[name]
		if w == 0 || len(args) != 1 {
			return hdrLin{}, hdrLin{}, 0, false
		}
		lo, hi, ok := hdrSlice(args[0], data, env, sym)
		if !ok || !hi.plus(lo, -1).isConst() || hi.plus(lo, -1).c != w {
			return hdrLin{}, hdrLin{}, 0, false
		}
		return lo, hi, w, true
	}
	for _, st := range fd.Body.List {
		switch x := st.(type) {
		case *ast.IfStmt:
			if g, ok := hdrLenGuard(x, data, env, sym); ok {
				guards = append(guards, g)
				continue
			}
			if x.Else != nil || x.Init != nil {
				return
			}
			if be, ok := x.Cond.(*ast.BinaryExpr); ok && be.Op == token.NEQ && isRecvPath(be.X, "ID") { // marker test
				if _, ok := x.Body.List[len(x.Body.List)-1].(*ast.ReturnStmt); !ok {
					bad("marker test body")
					return
				}
				continue
			}
			if notPen(x.Cond) {
				for _, s := range x.Body.List {
					as, ok := s.(*ast.AssignStmt)
					if !ok || len(as.Lhs) != 1 || len(as.Rhs) != 1 {
						bad("timestamp block")
						return
					}
					if id, ok := as.Lhs[0].(*ast.Ident); ok {
						v, okv := intOf(as.Rhs[0], nil)
						switch {
						case id.Name == endVar && as.Tok == token.ADD_ASSIGN && okv && endTs < 0:
							endTs = v
						case id.Name == startVar && startVar != "" && as.Tok == token.ASSIGN && okv && start1 < 0:
							start1 = v
						default:
							bad("timestamp block assignment")
							return
						}
						continue
					}
					lo, _, w, ok := uint(as.Rhs[0])
					if !ok || !isRecvPath(as.Lhs[0], "Timestamp") || !lo.isConst() {
						bad("timestamp read")
						return
					}
					tsO, tsW = lo.c, w
				}
				continue
			}
			isVideoFlag := isRecvPath(x.Cond, "customAttributes", "videoFrame")
			if isVideoFlag || (len(video) == 0 && videoCond(x.Cond)) {
				for _, s := range x.Body.List {
					as, ok := s.(*ast.AssignStmt)
					if !ok || len(as.Lhs) != 1 || len(as.Rhs) != 1 {
						bad("video block")
						return
					}
					if id, ok := as.Lhs[0].(*ast.Ident); ok {
						v, okv := intOf(as.Rhs[0], nil)
						switch {
						case id.Name == endVar && as.Tok == token.ADD_ASSIGN && okv && endVideo < 0 && !isVideoFlag:
							endVideo = v
						case id.Name == startVar && startVar != "" && as.Tok == token.ADD_ASSIGN && okv && ivlExtra < 0 && isVideoFlag:
							ivlExtra = v
						default:
							bad("video block assignment")
							return
						}
						continue
					}
					if isRecvPath(as.Lhs[0], "customAttributes", "videoFrame") {
						continue
					}
					lo, _, w, ok := uint(as.Rhs[0])
					o, oko := lo.over(startVar)
					if !ok || !oko || !isVideoFlag {
						bad("interval read")
						return
					}
					ivl = append(ivl, [2]int64{o, w})
				}
				continue
			}
			bad("if shape")
			return
		case *ast.AssignStmt:
			if len(x.Lhs) > 1 { // p.Timestamp, p.LastIFrameInterval, p.LastFrameInterval = 0, 0, 0
				for _, r := range x.Rhs {
					if v, ok := intOf(r, nil); !ok || v != 0 {
						bad("multiple assignment")
						return
					}
				}
				continue
			}
			if len(x.Rhs) != 1 {
				bad("assignment shape")
				return
			}
			if id, ok := x.Lhs[0].(*ast.Ident); ok && x.Tok == token.DEFINE {
				if ie, ok := x.Rhs[0].(*ast.IndexExpr); ok { // attr := data[4]
					i, oki := intOf(ie.Index, nil)
					if d, ok := ie.X.(*ast.Ident); !ok || d.Name != data || !oki {
						bad("byte local")
						return
					}
					byteVar[id.Name] = i
					continue
				}
				v, okv := intOf(x.Rhs[0], nil)
				switch {
				case okv && endVar == "":
					endVar, endBase = id.Name, v
					env[id.Name] = hdrSym(id.Name)
					syms[id.Name] = true
				case okv && startVar == "":
					startVar, start0 = id.Name, v
					syms[id.Name] = true
				default:
					bad("local definition " + id.Name)
					return
				}
				continue
			}
			if x.Tok != token.ASSIGN {
				bad("assignment shape")
				return
			}
			p := hdrPath(x.Lhs[0])
			if len(p) < 2 || p[0] != recv {
				bad("left side")
				return
			}
			f := p[len(p)-1]
			if cl, ok := x.Rhs[0].(*ast.CompositeLit); ok {
				if len(cl.Elts) == 0 { // p.customAttributes = customAttributes{}
					continue
				}
				for _, el := range cl.Elts { // p.Flag = Flag{V: ..., ...}
					kv, ok := el.(*ast.KeyValueExpr)
					k, ok2 := kv.Key.(*ast.Ident)
					if !ok || !ok2 {
						bad("flag literal")
						return
					}
					i, sh, m, ok := extract(kv.Value)
					if !ok {
						bad("flag " + k.Name)
						return
					}
					bits = append(bits, fmt.Sprintf("(%s%%string, (%d, %d, %d))", strconv.Quote(k.Name), i, sh, m))
				}
				continue
			}
			if ie, ok := x.Rhs[0].(*ast.IndexExpr); ok { // p.LogicChannel = data[14]
				i, oki := intOf(ie.Index, nil)
				if d, ok := ie.X.(*ast.Ident); ok && d.Name == data && oki {
					fixed = append(fixed, fmt.Sprintf("(%s%%string, %d, 1)", strconv.Quote(f), i))
					continue
				}
			}
			if lo, hi, w, ok := uint(x.Rhs[0]); ok {
				if lo.isConst() && hi.isConst() {
					fixed = append(fixed, fmt.Sprintf("(%s%%string, %d, %d)", strconv.Quote(f), lo.c, w))
					continue
				}
				if o, oko := lo.over(startVar); oko && f == "DataBodyLen" {
					blO, blW = o, w
					continue
				}
				bad("read of " + f)
				return
			}
			name, args, _ := hdrCall(x.Rhs[0])
			if (name == "string" || name == "utils.Bcd2Dec") && len(args) == 1 { // p.ID = string(data[:4]); p.Sim = utils.Bcd2Dec(data[8:14])
				lo, hi, ok := hdrSlice(args[0], data, env, sym)
				if !ok || !lo.isConst() || !hi.isConst() {
					bad("slice of " + f)
					return
				}
				fixed = append(fixed, fmt.Sprintf("(%s%%string, %d, %d)", strconv.Quote(f), lo.c, hi.c-lo.c))
				continue
			}
			if i, sh, m, ok := extract(x.Rhs[0]); ok { // p.DataType = DataType((data[15] >> 4) & 0x0F)
				bits = append(bits, fmt.Sprintf("(%s%%string, (%d, %d, %d))", strconv.Quote(f), i, sh, m))
				continue
			}
			if v, ok := hdrEval(x.Rhs[0], env, sym); ok && f == "headEnd" { // p.headEnd = start + 2
				c, okc := v.over(startVar)
				if !okc {
					bad("headEnd")
					return
				}
				headEnd = c
				continue
			}
			bad("right side of " + f)
			return
		case *ast.ReturnStmt:
		default:
			bad("statement shape")
			return
		}
	}
	if len(guards) != 2 || !guards[0].isConst() || endBase < 0 || endTs < 0 || endVideo < 0 || start0 < 0 || start1 < 0 ||
		pen < 0 || len(video) == 0 || tsO < 0 || len(ivl) != 2 || ivlExtra < 0 || blO < 0 || headEnd < 0 {
		fail(item, "parts missing")
		return
	}
	for _, v := range []int64{ivl[0][0], ivl[1][0], blO, headEnd, tsO} {
		if v < 0 {
			fail(item, "negative offset")
			return
		}
	}
	if c, ok := guards[1].over(endVar); !ok || c != 0 {
		fail(item, "second guard is not `len(data) < end`")
		return
	}
	fmt.Fprintf(&out, "Definition gen_jt1078_min_len : N := %d.\n", guards[0].c)
	fmt.Fprintf(&out, "Definition gen_jt1078_fixed : list (string * N * N) := [%s].\n", strings.Join(fixed, "; "))
	fmt.Fprintf(&out, "Definition gen_jt1078_bits : list (string * (N * N * N)) := [%s].\n", strings.Join(bits, "; "))
	fmt.Fprintf(&out, "Definition gen_jt1078_end : N * N * N := (%d, %d, %d).\n", endBase, endTs, endVideo)
	fmt.Fprintf(&out, "Definition gen_jt1078_penetrate : N := %d.\nDefinition gen_jt1078_video_types : list N := %s.\n", pen, nlist(video))
	fmt.Fprintf(&out, "Definition gen_jt1078_start : N * N := (%d, %d).\nDefinition gen_jt1078_ts : N * N := (%d, %d).\n", start0, start1, tsO, tsW)
	fmt.Fprintf(&out, "Definition gen_jt1078_intervals : (N * N) * (N * N) * N := ((%d, %d), (%d, %d), %d).\n", ivl[0][0], ivl[0][1], ivl[1][0], ivl[1][1], ivlExtra)
	fmt.Fprintf(&out, "Definition gen_jt1078_blen : N * N := (%d, %d).\nDefinition gen_jt1078_head_end : N := %d.\n\n", blO, blW, headEnd)
}

// ==== END jt1078 header layout ===============================================================================

// ==== BEGIN attachment chunk header layout (builder "bodies"): attachLayout ===================================
// attachment/stream_data_handle.go: the chunk header of the file-upload stream, base form (62 bytes) and the HLJ form
// (length-prefixed file name).  Index expressions of the HLJ form are linear in the name length nl = data[i]; they are
// emitted as (coefficient of nl, constant).
//
//	gen_attach_marker                the byte literal of HasStreamData
//	gen_attach_base_min              c of `len(data) >= c` (HasMinHeadLen)
//	gen_attach_base                  (field, offset, width) of Parse;  gen_attach_base_data / _head: data[c:], returned head length
//	gen_attach_hlj_min, _len_idx     `len(data) < c` and the index of the name length byte (HasMinHeadLen)
//	gen_attach_hlj_min2              X of `len(data) >= X`
//	gen_attach_hlj                   (field, lo, hi) of Parse;  gen_attach_hlj_data / _head likewise
func attachLayout(repo string) {
	files := parseDir(filepath.Join(repo, "attachment"))
	lin := func(a hdrLin) (string, bool) {
		for k := range a.v {
			if k != "nl" {
				return "", false
			}
		}
		if a.v["nl"] < 0 || a.c < 0 {
			return "", false
		}
		return fmt.Sprintf("(%d, %d)", a.v["nl"], a.c), true
	}
	// reader(data[lo:hi]) for the readers of a chunk header
	type rd struct {
		field  string
		lo, hi hdrLin
	}
	readOf := func(e ast.Expr, data string, env map[string]hdrLin, sym func(ast.Expr) (string, bool)) (hdrLin, hdrLin, bool) {
		name, args, _ := hdrCall(e)
		switch {
		case name == "binary.BigEndian.Uint32" && len(args) == 1:
			lo, hi, ok := hdrSlice(args[0], data, env, sym)
			return lo, hi, ok && hi.plus(lo, -1).isConst() && hi.plus(lo, -1).c == 4
		case name == "string" && len(args) == 1: // string(bytes.Trim(data[a:b], "\x00"))
			n2, a2, _ := hdrCall(args[0])
			if n2 == "bytes.Trim" && len(a2) == 2 {
				return hdrSlice(a2[0], data, env, sym)
			}
		}
		return hdrLin{}, hdrLin{}, false
	}

	// ---------------- base form
	func() {
		item := "attach_base"
		hs := findFunc(files, "baseStreamDataHandle", "HasStreamData")
		mh := findFunc(files, "baseStreamDataHandle", "HasMinHeadLen")
		pf := findFunc(files, "baseStreamDataHandle", "Parse")
		if hs == nil || mh == nil || pf == nil {
			fail(item, "functions not found")
			return
		}
		noSym := func(ast.Expr) (string, bool) { return "", false }
		var marker []int64
		ast.Inspect(hs.Body, func(n ast.Node) bool {
			if cl, ok := n.(*ast.CompositeLit); ok && len(marker) == 0 {
				for _, e := range cl.Elts {
					if v, ok := intOf(e, nil); ok {
						marker = append(marker, v)
					}
				}
			}
			return true
		})
		minLen := int64(-1)
		if len(mh.Body.List) == 1 {
			if rs, ok := mh.Body.List[0].(*ast.ReturnStmt); ok && len(rs.Results) == 1 {
				if be, ok := rs.Results[0].(*ast.BinaryExpr); ok && be.Op == token.GEQ {
					if n, a, _ := hdrCall(be.X); n == "len" && len(a) == 1 {
						if v, ok := intOf(be.Y, nil); ok {
							minLen = v
						}
					}
				}
			}
		}
		recv, data := hdrRecv(pf), hdrParam(pf, 0)
		var rows []string
		dataFrom, head := int64(-1), int64(-1)
		for _, st := range pf.Body.List {
			switch x := st.(type) {
			case *ast.AssignStmt:
				p := hdrPath(x.Lhs[0])
				if len(x.Lhs) != 1 || len(x.Rhs) != 1 || len(p) != 2 || p[0] != recv || x.Tok != token.ASSIGN {
					fail(item, "assignment shape")
					return
				}
				if se, ok := x.Rhs[0].(*ast.SliceExpr); ok && se.High == nil && se.Low != nil { // s.Data = data[62:]
					v, okv := intOf(se.Low, nil)
					if id, ok := se.X.(*ast.Ident); !ok || id.Name != data || !okv {
						fail(item, "data slice")
						return
					}
					dataFrom = v
					continue
				}
				lo, hi, ok := readOf(x.Rhs[0], data, nil, noSym)
				if !ok || !lo.isConst() || !hi.isConst() {
					fail(item, "read of "+p[1])
					return
				}
				rows = append(rows, fmt.Sprintf("(%s%%string, %d, %d)", strconv.Quote(p[1]), lo.c, hi.c-lo.c))
			case *ast.ReturnStmt:
				if len(x.Results) != 2 {
					fail(item, "return shape")
					return
				}
				v, ok := intOf(x.Results[0], nil)
				if !ok {
					fail(item, "returned head length")
					return
				}
				head = v
			default:
				fail(item, "statement shape")
				return
			}
		}
		if len(marker) == 0 || minLen < 0 || len(rows) == 0 || dataFrom < 0 || head < 0 {
			fail(item, "parts missing")
			return
		}
		fmt.Fprintf(&out, "Definition gen_attach_marker : list N := %s.\nDefinition gen_attach_base_min : N := %d.\n", nlist(marker), minLen)
		fmt.Fprintf(&out, "Definition gen_attach_base : list (string * N * N) := [%s].\n", strings.Join(rows, "; "))
		fmt.Fprintf(&out, "Definition gen_attach_base_data : N := %d.\nDefinition gen_attach_base_head : N := %d.\n", dataFrom, head)
	}()

	// ---------------- HLJ form
	func() {
		item := "attach_hlj"
		mh := findFunc(files, "heiBiaoStreamDataHandle", "HasMinHeadLen")
		pf := findFunc(files, "heiBiaoStreamDataHandle", "Parse")
		if mh == nil || pf == nil {
			fail(item, "functions not found")
			return
		}
		// HasMinHeadLen: if len(data) < c { return false }; h.FileNameLen = data[i]; return len(data) >= X
		recv, data := hdrRecv(mh), hdrParam(mh, 0)
		sym := func(e ast.Expr) (string, bool) {
			p := hdrPath(e)
			if len(p) == 2 && p[0] == recv && p[1] == "FileNameLen" {
				return "nl", true
			}
			return "", false
		}
		min1, idx1 := int64(-1), int64(-1)
		min2 := ""
		for _, st := range mh.Body.List {
			switch x := st.(type) {
			case *ast.IfStmt:
				g, ok := hdrLenGuard(x, data, nil, sym)
				if !ok || !g.isConst() {
					fail(item, "HasMinHeadLen guard")
					return
				}
				min1 = g.c
			case *ast.AssignStmt:
				ie, ok := x.Rhs[0].(*ast.IndexExpr)
				if _, oks := sym(x.Lhs[0]); !ok || !oks {
					fail(item, "HasMinHeadLen assignment")
					return
				}
				v, okv := intOf(ie.Index, nil)
				if !okv {
					fail(item, "name length index")
					return
				}
				idx1 = v
			case *ast.ReturnStmt:
				be, ok := x.Results[0].(*ast.BinaryExpr)
				if !ok || be.Op != token.GEQ {
					fail(item, "HasMinHeadLen return")
					return
				}
				v, okv := hdrEval(be.Y, nil, sym)
				s, oks := lin(v)
				if !okv || !oks {
					fail(item, "HasMinHeadLen bound")
					return
				}
				min2 = s
			default:
				fail(item, "HasMinHeadLen statement")
				return
			}
		}
		// Parse
		recv, data = hdrRecv(pf), hdrParam(pf, 0)
		env := map[string]hdrLin{}
		var rows []string
		idx2 := int64(-1)
		dataFrom, head := "", ""
		add := func(f string, lo, hi hdrLin) bool {
			a, ok1 := lin(lo)
			b, ok2 := lin(hi)
			if !ok1 || !ok2 {
				fail(item, "bounds of "+f)
				return false
			}
			rows = append(rows, fmt.Sprintf("(%s%%string, %s, %s)", strconv.Quote(f), a, b))
			return true
		}
		for _, st := range pf.Body.List {
			switch x := st.(type) {
			case *ast.AssignStmt:
				if len(x.Lhs) == 2 && len(x.Rhs) == 2 && x.Tok == token.DEFINE { // start, end := 5, 5+int(h.FileNameLen)
					for i := range x.Lhs {
						id, ok := x.Lhs[i].(*ast.Ident)
						v, okv := hdrEval(x.Rhs[i], env, sym)
						if !ok || !okv {
							fail(item, "cursor definition")
							return
						}
						env[id.Name] = v
					}
					continue
				}
				if len(x.Lhs) != 1 || len(x.Rhs) != 1 {
					fail(item, "assignment shape")
					return
				}
				if id, ok := x.Lhs[0].(*ast.Ident); ok { // start = end; end += 4
					v, okv := hdrEval(x.Rhs[0], env, sym)
					if _, known := env[id.Name]; !known || !okv {
						fail(item, "cursor assignment")
						return
					}
					switch x.Tok {
					case token.ASSIGN:
						env[id.Name] = v
					case token.ADD_ASSIGN:
						env[id.Name] = env[id.Name].plus(v, 1)
					default:
						fail(item, "cursor assignment")
						return
					}
					continue
				}
				p := hdrPath(x.Lhs[0])
				if len(p) != 2 || p[0] != recv || x.Tok != token.ASSIGN {
					fail(item, "left side")
					return
				}
				if _, isNl := sym(x.Lhs[0]); isNl { // h.FileNameLen = data[4]
					ie, ok := x.Rhs[0].(*ast.IndexExpr)
					if !ok {
						fail(item, "name length read")
						return
					}
					v, okv := intOf(ie.Index, nil)
					if !okv {
						fail(item, "name length index")
						return
					}
					idx2 = v
					continue
				}
				if cl, ok := x.Rhs[0].(*ast.CompositeLit); ok { // h.baseStreamDataHandle = baseStreamDataHandle{...}
					for _, el := range cl.Elts {
						kv, ok := el.(*ast.KeyValueExpr)
						if !ok {
							fail(item, "literal shape")
							return
						}
						k := kv.Key.(*ast.Ident).Name
						if se, ok := kv.Value.(*ast.SliceExpr); ok && se.High == nil && se.Low != nil { // Data: data[end:]
							v, okv := hdrEval(se.Low, env, sym)
							s, oks := lin(v)
							if !okv || !oks {
								fail(item, "data slice")
								return
							}
							dataFrom = s
							continue
						}
						if lo, hi, ok := readOf(kv.Value, data, env, sym); ok {
							if !add(k, lo, hi) {
								return
							}
							continue
						}
						if _, ok := intOf(kv.Value, nil); ok { // FrameSign: 808543076
							continue
						}
						if q := hdrPath(kv.Value); len(q) == 2 && q[0] == recv { // FileName: h.FileName
							continue
						}
						fail(item, "literal field "+k)
						return
					}
					continue
				}
				lo, hi, ok := readOf(x.Rhs[0], data, env, sym)
				if !ok || !add(p[1], lo, hi) {
					if ok {
						return
					}
					fail(item, "read of "+p[1])
					return
				}
			case *ast.ReturnStmt:
				if len(x.Results) != 2 {
					fail(item, "return shape")
					return
				}
				v, okv := hdrEval(x.Results[0], env, sym)
				s, oks := lin(v)
				if !okv || !oks {
					fail(item, "returned head length")
					return
				}
				head = s
			default:
				fail(item, "statement shape")
				return
			}
		}
		if min1 < 0 || idx1 < 0 || idx1 != idx2 || min2 == "" || len(rows) == 0 || dataFrom == "" || head == "" {
			fail(item, "parts missing")
			return
		}
		fmt.Fprintf(&out, "Definition gen_attach_hlj_min : N := %d.\nDefinition gen_attach_hlj_len_idx : N := %d.\nDefinition gen_attach_hlj_min2 : N * N := %s.\n", min1, idx1, min2)
		fmt.Fprintf(&out, "Definition gen_attach_hlj : list (string * (N * N) * (N * N)) := [%s].\n", strings.Join(rows, "; "))
		fmt.Fprintf(&out, "Definition gen_attach_hlj_data : N * N := %s.\nDefinition gen_attach_hlj_head : N * N := %s.\n", dataFrom, head)
	}()
	fmt.Fprintln(&out)
}

// ==== END attachment chunk header layout =====================================================================

// ==== String() methods: inventory of partial operations (C03: "Rendering any successfully parsed value as text is
// likewise total") =============================================================================================
// For every method `String() string` of protocol/model, protocol/jt808, protocol/jt1078 and shared/consts:
//
//	gen_string_methods  : the receivers (inventory)
//	gen_string_ops      : (receiver, kind, count) for every kind of operation that can panic or fail to terminate and
//	                      occurs in the body (closures included): index, slice, assert, div, deref, panic, for (a loop
//	                      that is not a range), goto
//	gen_string_callees  : what the bodies call, apart from fmt.*, strings.*, sort.*, strconv.*, builtins and
//	                      conversions: ".Method" for a method of any receiver, "pkg.Func" for another package's
//	                      function, "name" for a function of the same package
//
// The obligations (Gen/TablesOk_strings.v) bound the operations by an audited table and the callees by an audited set.
func stringOps(repo string) {
	type key struct{ recv, kind string }
	ops := map[key]int{}
	var methods []string
	callees := map[string]bool{}
	basePkgs := map[string]bool{"fmt": true, "strings": true, "sort": true, "strconv": true}
	// methods reported by NAME (audited in Gen/TablesOk_strings.v) instead of being walked: the type's encoder and
	// constants, and other String methods (inventoried themselves)
	byName := map[string]bool{"String": true, "Encode": true, "encode": true, "Protocol": true, "protocolDiff": true, "ReplyProtocol": true}
	// methods of strings.Builder / bytes.Buffer (no type information: by name, only when the package declares no
	// method of that name)
	stdMethods := map[string]bool{"WriteString": true, "WriteByte": true, "WriteRune": true, "Write": true, "Len": true, "Grow": true, "Reset": true, "Cap": true}
	builtins := map[string]bool{"len": true, "cap": true, "append": true, "make": true, "copy": true, "new": true, "min": true, "max": true, "clear": true, "delete": true,
		"string": true, "int": true, "int8": true, "int16": true, "int32": true, "int64": true, "uint": true, "uint8": true, "uint16": true, "uint32": true,
		"uint64": true, "byte": true, "rune": true, "float32": true, "float64": true, "bool": true}
	for _, dir := range []string{"protocol/model", "protocol/jt808", "protocol/jt1078", "shared/consts"} {
		files := parseDir(filepath.Join(repo, dir))
		var names []string
		for n := range files {
			names = append(names, n)
		}
		sort.Strings(names)
		short := filepath.Base(dir)
		// the package's own functions and methods: a helper a String body calls is walked as part of that body
		// (extracting a block into a helper must not change the inventory); methods are found by name, whatever
		// the receiver (no type information: every candidate is walked)
		pkgFuncs := map[string][]*ast.FuncDecl{}
		pkgMethods := map[string][]*ast.FuncDecl{}
		for _, n := range names {
			for _, d := range files[n].Decls {
				if fd, ok := d.(*ast.FuncDecl); ok && fd.Body != nil {
					if fd.Recv == nil {
						pkgFuncs[fd.Name.Name] = append(pkgFuncs[fd.Name.Name], fd)
					} else {
						pkgMethods[fd.Name.Name] = append(pkgMethods[fd.Name.Name], fd)
					}
				}
			}
		}
		for _, n := range names {
			f := files[n]
			imports := map[string]bool{}
			for _, im := range f.Imports {
				path, _ := strconv.Unquote(im.Path.Value)
				nm := filepath.Base(path)
				if im.Name != nil {
					nm = im.Name.Name
				}
				imports[nm] = true
			}
			for _, d := range f.Decls {
				fd, ok := d.(*ast.FuncDecl)
				if !ok || fd.Recv == nil || fd.Name.Name != "String" || fd.Body == nil || len(fd.Recv.List) != 1 {
					continue
				}
				if fd.Type.Params.NumFields() != 0 || fd.Type.Results.NumFields() != 1 {
					continue
				}
				recv := ""
				switch t := fd.Recv.List[0].Type.(type) {
				case *ast.StarExpr:
					if id, ok := t.X.(*ast.Ident); ok {
						recv = id.Name
					}
				case *ast.Ident:
					recv = t.Name
				}
				if recv == "" {
					fail("string_ops", "receiver shape of a String method in "+dir+"/"+n)
					continue
				}
				recv = short + "." + recv
				methods = append(methods, recv)
				visited := map[*ast.FuncDecl]bool{fd: true}
				var walk func(body *ast.BlockStmt)
				walk = func(body *ast.BlockStmt) {
					locals := map[string]bool{} // closures bound in the body: their bodies are walked with the rest
					ast.Inspect(body, func(x ast.Node) bool {
						if as, ok := x.(*ast.AssignStmt); ok {
							for i, r := range as.Rhs {
								if _, ok := r.(*ast.FuncLit); ok && i < len(as.Lhs) {
									if id, ok := as.Lhs[i].(*ast.Ident); ok {
										locals[id.Name] = true
									}
								}
							}
						}
						return true
					})
					inline := func(cands []*ast.FuncDecl) {
						for _, c := range cands {
							if !visited[c] {
								visited[c] = true
								walk(c.Body)
							}
						}
					}
					ast.Inspect(body, func(x ast.Node) bool {
						switch e := x.(type) {
						case *ast.IndexExpr:
							ops[key{recv, "index"}]++
						case *ast.SliceExpr:
							ops[key{recv, "slice"}]++
						case *ast.TypeAssertExpr:
							ops[key{recv, "assert"}]++
						case *ast.StarExpr:
							ops[key{recv, "deref"}]++
						case *ast.BinaryExpr:
							if e.Op == token.QUO || e.Op == token.REM {
								ops[key{recv, "div"}]++
							}
						case *ast.AssignStmt:
							if e.Tok == token.QUO_ASSIGN || e.Tok == token.REM_ASSIGN {
								ops[key{recv, "div"}]++
							}
						case *ast.ForStmt:
							ops[key{recv, "for"}]++
						case *ast.BranchStmt:
							if e.Tok == token.GOTO {
								ops[key{recv, "goto"}]++
							}
						case *ast.CallExpr:
							switch fn := e.Fun.(type) {
							case *ast.Ident:
								switch {
								case fn.Name == "panic":
									ops[key{recv, "panic"}]++
								case builtins[fn.Name] || locals[fn.Name]:
								case len(pkgFuncs[fn.Name]) > 0:
									inline(pkgFuncs[fn.Name])
								default:
									callees[fn.Name] = true
								}
							case *ast.SelectorExpr:
								if id, ok := fn.X.(*ast.Ident); ok && imports[id.Name] {
									if !basePkgs[id.Name] {
										callees[id.Name+"."+fn.Sel.Name] = true
									}
								} else {
									m := fn.Sel.Name
									switch {
									case byName[m]:
										callees["."+m] = true
									case len(pkgMethods[m]) > 0:
										inline(pkgMethods[m])
									case stdMethods[m]:
									default:
										callees["."+m] = true
									}
								}
							default:
								callees["(computed)"] = true
							}
						}
						return true
					})
				}
				walk(fd.Body)
			}
		}
	}
	if len(methods) == 0 {
		fail("string_ops", "no String methods found")
		return
	}
	sort.Strings(methods)
	var ms []string
	for _, m := range methods {
		ms = append(ms, strconv.Quote(m)+"%string")
	}
	fmt.Fprintf(&out, "\n(* String() methods of the protocol packages: inventory, partial operations, callees *)\n")
	fmt.Fprintf(&out, "Definition gen_string_methods : list string := [%s].\n", strings.Join(ms, "; "))
	var ks []key
	for k := range ops {
		ks = append(ks, k)
	}
	sort.Slice(ks, func(i, j int) bool {
		if ks[i].recv != ks[j].recv {
			return ks[i].recv < ks[j].recv
		}
		return ks[i].kind < ks[j].kind
	})
	var rows []string
	for _, k := range ks {
		rows = append(rows, fmt.Sprintf("(%s%%string, %s%%string, %d)", strconv.Quote(k.recv), strconv.Quote(k.kind), ops[k]))
	}
	fmt.Fprintf(&out, "Definition gen_string_ops : list (string * string * N) := [%s].\n", strings.Join(rows, "; "))
	var cs []string
	for c := range callees {
		cs = append(cs, c)
	}
	sort.Strings(cs)
	for i, c := range cs {
		cs[i] = strconv.Quote(c) + "%string"
	}
	fmt.Fprintf(&out, "Definition gen_string_callees : list string := [%s].\n", strings.Join(cs, "; "))
}

// ==== END String() methods ====================================================================================

// ==== default file handler of the attachment server (C19) =====================================================
//
//	gen_file_calls  : every call in package attachment (non-test files) of a function of package os / ioutil that
//	                  creates, renames, links or removes a file-system entry, or changes the working directory, as
//	                  (function, first argument): "lit:<text>" for a string literal, "id:<name>" for an identifier,
//	                  "expr" otherwise; sorted
//	gen_file_save_format / gen_file_save_args : savePath := fmt.Sprintf(<format>, <idents>...) of the save loop
//	gen_file_filter_names / gen_file_filter_chars : the names compared with == and the character set handed to
//	                  strings.ContainsAny in the condition that guards `continue` in the save loop (as byte lists)
//	gen_file_phone  : the selector chain the directory name `phone` is assigned from
func fileHandler(repo string) {
	files := parseDir(filepath.Join(repo, "attachment"))
	creating := map[string]bool{"OpenFile": true, "Create": true, "CreateTemp": true, "Mkdir": true, "MkdirAll": true, "MkdirTemp": true,
		"WriteFile": true, "Rename": true, "Symlink": true, "Link": true, "Remove": true, "RemoveAll": true, "Chdir": true, "Truncate": true,
		"TempFile": true, "TempDir": true, "NewFile": true, "Chmod": true, "Chown": true, "OpenRoot": true}
	// package-level string constants / variables initialised with a literal: a name for a literal is the literal
	strConsts := map[string]string{}
	for _, f := range files {
		for _, d := range f.Decls {
			gd, ok := d.(*ast.GenDecl)
			if !ok || (gd.Tok != token.CONST && gd.Tok != token.VAR) {
				continue
			}
			for _, sp := range gd.Specs {
				vs, ok := sp.(*ast.ValueSpec)
				if !ok {
					continue
				}
				for i, nm := range vs.Names {
					if i < len(vs.Values) {
						if lit, ok := vs.Values[i].(*ast.BasicLit); ok && lit.Kind == token.STRING && gd.Tok == token.CONST {
							if v, err := strconv.Unquote(lit.Value); err == nil {
								strConsts[nm.Name] = v
							}
						}
					}
				}
			}
		}
	}
	argOf := func(e ast.Expr) string {
		switch a := e.(type) {
		case *ast.BasicLit:
			if a.Kind == token.STRING {
				if v, err := strconv.Unquote(a.Value); err == nil {
					return "lit:" + v
				}
			}
		case *ast.Ident:
			if v, ok := strConsts[a.Name]; ok {
				return "lit:" + v
			}
			return "id:" + a.Name
		}
		return "expr"
	}
	var calls []string
	var names []string
	for n := range files {
		names = append(names, n)
	}
	sort.Strings(names)
	for _, n := range names {
		if strings.HasPrefix(n, "verif_") {
			continue // the hooks of this framework (build tag verif)
		}
		ast.Inspect(files[n], func(x ast.Node) bool {
			c, ok := x.(*ast.CallExpr)
			if !ok {
				return true
			}
			if se, ok := c.Fun.(*ast.SelectorExpr); ok {
				if id, ok := se.X.(*ast.Ident); ok && (id.Name == "os" || id.Name == "ioutil") && creating[se.Sel.Name] {
					a := "none"
					if len(c.Args) > 0 {
						a = argOf(c.Args[0])
					}
					calls = append(calls, fmt.Sprintf("(%s%%string, %s%%string)", strconv.Quote(id.Name+"."+se.Sel.Name), strconv.Quote(a)))
				}
			}
			return true
		})
	}
	emitCalls := func(saveVar, dirVar string) {
		for i, c := range calls {
			// identifiers are reported by ROLE, not by name: the variable the save loop formats and hands to WriteFile
			// is <save>, the first argument of that format (the directory) is <dir>
			if saveVar != "" {
				c = strings.ReplaceAll(c, strconv.Quote("id:"+saveVar), strconv.Quote("id:<save>"))
			}
			if dirVar != "" {
				c = strings.ReplaceAll(c, strconv.Quote("id:"+dirVar), strconv.Quote("id:<dir>"))
			}
			calls[i] = c
		}
		sort.Strings(calls)
		fmt.Fprintf(&out, "\n(* attachment: file-system calls of the package, and the save step of the default file handler *)\n")
		fmt.Fprintf(&out, "Definition gen_file_calls : list (string * string) := [%s].\n", strings.Join(calls, "; "))
	}
	bytesOf := func(s string) string {
		var v []int64
		for _, b := range []byte(s) {
			v = append(v, int64(b))
		}
		return nlist(v)
	}
	// the save loop: the range statement whose body calls os.WriteFile, in whichever function of the package it
	// lives (OnEvent today; an extracted helper after a refactoring); ev = that function
	var loop *ast.RangeStmt
	var ev *ast.FuncDecl
	for _, n := range names {
		if strings.HasPrefix(n, "verif_") {
			continue
		}
		for _, d := range files[n].Decls {
			fd, ok := d.(*ast.FuncDecl)
			if !ok || fd.Body == nil {
				continue
			}
			ast.Inspect(fd.Body, func(x ast.Node) bool {
				if r, ok := x.(*ast.RangeStmt); ok {
					has := false
					ast.Inspect(r.Body, func(y ast.Node) bool {
						if c, ok := y.(*ast.CallExpr); ok {
							if se, ok := c.Fun.(*ast.SelectorExpr); ok && se.Sel.Name == "WriteFile" {
								has = true
							}
						}
						return true
					})
					if has && loop == nil {
						loop, ev = r, fd
					}
				}
				return true
			})
		}
	}
	if loop == nil {
		// without the loop the roles <save> / <dir> cannot be assigned: the whole tie is withheld
		fail("file_save", "no range loop calling WriteFile in package attachment")
		return
	}
	// the variable handed to WriteFile in the loop
	saveVar, dirVar := "", ""
	ast.Inspect(loop.Body, func(y ast.Node) bool {
		if c, ok := y.(*ast.CallExpr); ok {
			if se, ok := c.Fun.(*ast.SelectorExpr); ok && se.Sel.Name == "WriteFile" && len(c.Args) > 0 {
				if id, ok := c.Args[0].(*ast.Ident); ok {
					saveVar = id.Name
				}
			}
		}
		return true
	})
	nameVar := ""
	if id, ok := loop.Key.(*ast.Ident); ok {
		nameVar = id.Name
	}
	// filter: the first statement of the loop body, an if whose body ends in continue
	okFilter := false
	var fnames, fchars []string
	if len(loop.Body.List) > 0 {
		if ifs, ok := loop.Body.List[0].(*ast.IfStmt); ok && ifs.Init == nil && ifs.Else == nil && len(ifs.Body.List) > 0 {
			if br, ok := ifs.Body.List[len(ifs.Body.List)-1].(*ast.BranchStmt); ok && br.Tok == token.CONTINUE {
				okFilter = true
				var walk func(e ast.Expr)
				walk = func(e ast.Expr) {
					switch b := e.(type) {
					case *ast.ParenExpr:
						walk(b.X)
					case *ast.BinaryExpr:
						if b.Op == token.LOR {
							walk(b.X)
							walk(b.Y)
							return
						}
						if b.Op == token.EQL {
							x, y := b.X, b.Y
							if _, isLit := x.(*ast.BasicLit); isLit {
								x, y = y, x
							}
							id, ok1 := x.(*ast.Ident)
							lit, ok2 := y.(*ast.BasicLit)
							if ok1 && ok2 && id.Name == nameVar && lit.Kind == token.STRING {
								if v, err := strconv.Unquote(lit.Value); err == nil {
									fnames = append(fnames, bytesOf(v))
									return
								}
							}
						}
						okFilter = false
					case *ast.CallExpr:
						if se, ok := b.Fun.(*ast.SelectorExpr); ok && se.Sel.Name == "ContainsAny" && len(b.Args) == 2 {
							id, ok1 := b.Args[0].(*ast.Ident)
							lit, ok2 := b.Args[1].(*ast.BasicLit)
							if ok1 && ok2 && id.Name == nameVar && lit.Kind == token.STRING {
								if v, err := strconv.Unquote(lit.Value); err == nil {
									fchars = append(fchars, bytesOf(v))
									return
								}
							}
						}
						okFilter = false
					default:
						okFilter = false
					}
				}
				walk(ifs.Cond)
			}
		}
	}
	if !okFilter || len(fchars) != 1 {
		fail("file_filter", "name filter of the save loop: not `name == lit || ... || strings.ContainsAny(name, lit)` guarding continue as first statement")
	} else {
		fmt.Fprintf(&out, "Definition gen_file_filter_names : list (list N) := [%s].\n", strings.Join(fnames, "; "))
		fmt.Fprintf(&out, "Definition gen_file_filter_chars : list N := %s.\n", fchars[0])
	}
	// savePath := fmt.Sprintf(lit, idents...) inside the loop, and it is what WriteFile gets
	okSave := false
	ast.Inspect(loop.Body, func(x ast.Node) bool {
		as, ok := x.(*ast.AssignStmt)
		if !ok || len(as.Lhs) != 1 || len(as.Rhs) != 1 {
			return true
		}
		lhs, ok := as.Lhs[0].(*ast.Ident)
		c, ok2 := as.Rhs[0].(*ast.CallExpr)
		if !ok || !ok2 || saveVar == "" || lhs.Name != saveVar {
			return true
		}
		if se, ok := c.Fun.(*ast.SelectorExpr); ok && se.Sel.Name == "Sprintf" && len(c.Args) >= 1 {
			if lit, ok := c.Args[0].(*ast.BasicLit); ok && lit.Kind == token.STRING {
				f, _ := strconv.Unquote(lit.Value)
				var args []string
				for _, a := range c.Args[1:] {
					if id, ok := a.(*ast.Ident); ok {
						if id.Name == nameVar {
							args = append(args, "\"<name>\"%string")
						} else if len(args) == 0 {
							dirVar = id.Name
							args = append(args, "\"<dir>\"%string")
						} else {
							args = append(args, strconv.Quote(id.Name)+"%string")
						}
					} else {
						args = append(args, "\"expr\"%string")
					}
				}
				fmt.Fprintf(&out, "Definition gen_file_save_format : list N := %s.\n", bytesOf(f))
				fmt.Fprintf(&out, "Definition gen_file_save_args : list string := [%s].\n", strings.Join(args, "; "))
				okSave = true
			}
		}
		return true
	})
	if !okSave {
		fail("file_save", "<save> := fmt.Sprintf(literal, ...) for the variable handed to WriteFile not found in the save loop")
	}
	if okSave {
		emitCalls(saveVar, dirVar)
	}
	// phone := <selector chain>
	okPhone := false
	ast.Inspect(ev.Body, func(x ast.Node) bool {
		as, ok := x.(*ast.AssignStmt)
		if !ok || len(as.Lhs) != 1 || len(as.Rhs) != 1 || okPhone {
			return true
		}
		if lhs, ok := as.Lhs[0].(*ast.Ident); ok && dirVar != "" && lhs.Name == dirVar {
			var chain []string
			e := as.Rhs[0]
			for {
				if se, ok := e.(*ast.SelectorExpr); ok {
					chain = append([]string{se.Sel.Name}, chain...)
					e = se.X
					continue
				}
				if id, ok := e.(*ast.Ident); ok {
					chain = append([]string{id.Name}, chain...)
					okPhone = true
				}
				break
			}
			if okPhone {
				for i := range chain {
					chain[i] = strconv.Quote(chain[i]) + "%string"
				}
				fmt.Fprintf(&out, "Definition gen_file_phone : list string := [%s].\n", strings.Join(chain, "; "))
			}
		}
		return true
	})
	if !okPhone {
		fail("file_phone", "<dir> := <selector chain> not found in the function of the save loop")
	}
}

// ==== END default file handler ================================================================================

// ==== timers, sleeps and deadlines of the server packages (C11 C12 C13) ========================================
//
//	gen_time_calls : (package, callee, count) for every call, in the non-test files of service and attachment, of
//	                 time.After / NewTimer / AfterFunc / Tick / NewTicker / Sleep, context.WithTimeout / WithDeadline,
//	                 and of a method named SetDeadline / SetReadDeadline / SetWriteDeadline; sorted
//
// The scheduler models (Model/Writer.v, Model/Registry.v) contain exactly the waits the code has: a new timer or
// deadline anywhere in these packages is a behaviour the models do not have.
func timeCalls(repo string) {
	timed := map[string]bool{"After": true, "NewTimer": true, "AfterFunc": true, "Tick": true, "NewTicker": true, "Sleep": true}
	ctxd := map[string]bool{"WithTimeout": true, "WithDeadline": true, "WithTimeoutCause": true, "WithDeadlineCause": true}
	dead := map[string]bool{"SetDeadline": true, "SetReadDeadline": true, "SetWriteDeadline": true}
	type key struct{ pkg, callee string }
	cnt := map[key]int{}
	for _, dir := range []string{"service", "attachment"} {
		files := parseDir(filepath.Join(repo, dir))
		for n, f := range files {
			if strings.HasPrefix(n, "verif_") {
				continue
			}
			ast.Inspect(f, func(x ast.Node) bool {
				c, ok := x.(*ast.CallExpr)
				if !ok {
					return true
				}
				se, ok := c.Fun.(*ast.SelectorExpr)
				if !ok {
					return true
				}
				if id, ok := se.X.(*ast.Ident); ok {
					if id.Name == "time" && timed[se.Sel.Name] {
						cnt[key{dir, "time." + se.Sel.Name}]++
						return true
					}
					if id.Name == "context" && ctxd[se.Sel.Name] {
						cnt[key{dir, "context." + se.Sel.Name}]++
						return true
					}
				}
				if dead[se.Sel.Name] {
					cnt[key{dir, "." + se.Sel.Name}]++
				}
				return true
			})
		}
	}
	var ks []key
	for k := range cnt {
		ks = append(ks, k)
	}
	sort.Slice(ks, func(i, j int) bool {
		if ks[i].pkg != ks[j].pkg {
			return ks[i].pkg < ks[j].pkg
		}
		return ks[i].callee < ks[j].callee
	})
	var rows []string
	for _, k := range ks {
		rows = append(rows, fmt.Sprintf("(%s%%string, %s%%string, %d)", strconv.Quote(k.pkg), strconv.Quote(k.callee), cnt[k]))
	}
	fmt.Fprintf(&out, "\n(* timers, sleeps and deadlines in packages service and attachment *)\n")
	fmt.Fprintf(&out, "Definition gen_time_calls : list (string * string * N) := [%s].\n", strings.Join(rows, "; "))
}

// ==== END timers ================================================================================================

// ==== explicit aborts (C03 C10 C13) ============================================================================
//
//	gen_abort_calls : (package directory, callee, count) for every call, in the non-test files of the library's
//	                  packages, of the builtin panic, os.Exit, runtime.Goexit and log.Fatal* / log.Panic*; sorted.
//
// The models have no such step: a decoder returns an error, a connection ends, the server goes on.
func abortCalls(repo string) {
	type key struct{ pkg, callee string }
	cnt := map[key]int{}
	// every directory of the repository that holds non-test Go files, except the example programs: a package added
	// later is scanned without this list having to change
	var dirs []string
	_ = filepath.WalkDir(repo, func(path string, d os.DirEntry, err error) error {
		if err != nil {
			return nil
		}
		rel, _ := filepath.Rel(repo, path)
		if d.IsDir() {
			if rel != "." && (strings.HasPrefix(d.Name(), ".") || rel == "example" || d.Name() == "testdata" || d.Name() == "vendor") {
				return filepath.SkipDir
			}
			return nil
		}
		if strings.HasSuffix(d.Name(), ".go") && !strings.HasSuffix(d.Name(), "_test.go") {
			dir := filepath.Dir(rel)
			if len(dirs) == 0 || dirs[len(dirs)-1] != dir {
				dirs = append(dirs, dir)
			}
		}
		return nil
	})
	qd := make([]string, len(dirs))
	for i, d := range dirs {
		qd[i] = strconv.Quote(filepath.ToSlash(d)) + "%string"
	}
	fmt.Fprintf(&out, "\n(* directories scanned for explicit aborts *)\nDefinition gen_abort_dirs : list string := [%s].", strings.Join(qd, "; "))
	for _, dir := range dirs {
		files := parseDir(filepath.Join(repo, dir))
		for n, f := range files {
			if strings.HasPrefix(n, "verif_") {
				continue
			}
			ast.Inspect(f, func(x ast.Node) bool {
				c, ok := x.(*ast.CallExpr)
				if !ok {
					return true
				}
				switch fn := c.Fun.(type) {
				case *ast.Ident:
					if fn.Name == "panic" {
						cnt[key{dir, "panic"}]++
					}
				case *ast.SelectorExpr:
					if id, ok := fn.X.(*ast.Ident); ok {
						nm := id.Name + "." + fn.Sel.Name
						if nm == "os.Exit" || nm == "runtime.Goexit" || (id.Name == "log" && (strings.HasPrefix(fn.Sel.Name, "Fatal") || strings.HasPrefix(fn.Sel.Name, "Panic"))) {
							cnt[key{dir, nm}]++
						}
					}
				}
				return true
			})
		}
	}
	var ks []key
	for k := range cnt {
		ks = append(ks, k)
	}
	sort.Slice(ks, func(i, j int) bool {
		if ks[i].pkg != ks[j].pkg {
			return ks[i].pkg < ks[j].pkg
		}
		return ks[i].callee < ks[j].callee
	})
	var rows []string
	for _, k := range ks {
		rows = append(rows, fmt.Sprintf("(%s%%string, %s%%string, %d)", strconv.Quote(k.pkg), strconv.Quote(k.callee), cnt[k]))
	}
	fmt.Fprintf(&out, "\n(* explicit aborts in the library's packages *)\n")
	fmt.Fprintf(&out, "Definition gen_abort_calls : list (string * string * N) := [%s].\n", strings.Join(rows, "; "))
}

// ==== END explicit aborts =======================================================================================

// ==== BEGIN ownership shapes of the receive path (C09; builder "stream") =====================================
//
// Which objects the receive path copies and which it shares - the facts the variants `Mem.cur` and `HdrMem.hcur`
// (coq/Model/Mem.v, coq/Model/HdrMem.v) assert about the current code (coq/Gen/TablesOk_subpkg.v ties them):
//
//	gen_fastpath_clones      : bool  packageParse.unpack: an assignment `data = bytes.Clone(data)` stands before the first
//	                                 `.Decode(data)` call (the fast path decodes a copy of the read, fix adede50)
//	gen_decode_fresh         : bool  packageParse.unpack: every `x.Decode(..)` is on a local `x := jt808.NewJTMessage()`
//	gen_history_nil          : bool  packageParse.unpack: p.historyData is assigned `nil` when consumed, and is never
//	                                 assigned a re-slice of itself from 0 (`[0:0]`, `[:0]`) nor anything that is not
//	                                 nil / append(p.historyData, ..) / p.historyData[end:]
//	gen_record_header_share  : N     packageParse.add: what `packageComplete{initHeader: X}` gets: 0 = the parameter itself
//	                                 (shared with the delivered first packet), 1 = `&v` with `v := *header` (struct copy,
//	                                 the *BodyProperty still shared), 2 = additionally `pp := *header.Property` (or
//	                                 `*v.Property`) and `v.Property = &pp` (fix 4b6a3bd)
//	gen_merged_header_share  : N     packageParse.completePack: the merged message `completeMsg`: 0 = no assignment to
//	                                 completeMsg.JTMessage (it keeps the packet's *JTMessage), 1 = `completeMsg.JTMessage = &jm`,
//	                                 `jm := *msg.JTMessage`, `jm.Header = &ch`, `ch := *...Header`, 2 = additionally the
//	                                 Property copy `pp := *ch.Property`, `ch.Property = &pp` (fix a3fb0a0)
//	gen_session_header_share : N     sessionManager.join: `session{header: X}`, same classification (fix 052add1): the header
//	                                 connection.onActiveEvent writes for every platform command is the session's own copy
//
// Anything else is reported in gen_unrecognised and the definition is omitted (the TablesOk obligation then fails).
func ownershipShapes(repo string) {
	files := parseDir(filepath.Join(repo, "service"))
	method := func(recvType, name string) *ast.FuncDecl {
		for _, f := range files {
			for _, d := range f.Decls {
				fd, ok := d.(*ast.FuncDecl)
				if !ok || fd.Name.Name != name || fd.Recv == nil || len(fd.Recv.List) != 1 || fd.Body == nil {
					continue
				}
				t := fd.Recv.List[0].Type
				if st, ok := t.(*ast.StarExpr); ok {
					t = st.X
				}
				if id, ok := t.(*ast.Ident); ok && id.Name == recvType {
					return fd
				}
			}
		}
		return nil
	}
	str := func(e ast.Expr) string { return types.ExprString(e) }
	// `name := *<expr>` definitions and `<lhs> = &<name>` assignments of a function body
	type shape struct {
		derefDef map[string]string // name -> expr it is a dereferenced copy of
		addrAsg  map[string]string // lhs -> name whose address it is assigned
	}
	scan := func(fd *ast.FuncDecl) shape {
		sh := shape{map[string]string{}, map[string]string{}}
		ast.Inspect(fd.Body, func(x ast.Node) bool {
			as, ok := x.(*ast.AssignStmt)
			if !ok || len(as.Lhs) != 1 || len(as.Rhs) != 1 {
				return true
			}
			if as.Tok == token.DEFINE {
				if id, ok := as.Lhs[0].(*ast.Ident); ok {
					if st, ok := as.Rhs[0].(*ast.StarExpr); ok {
						sh.derefDef[id.Name] = str(st.X)
					}
				}
			} else if as.Tok == token.ASSIGN {
				if u, ok := as.Rhs[0].(*ast.UnaryExpr); ok && u.Op == token.AND {
					if id, ok := u.X.(*ast.Ident); ok {
						sh.addrAsg[str(as.Lhs[0])] = id.Name
					}
				}
			}
			return true
		})
		return sh
	}
	// classify the header value `x` (an expression) given to a holder; src = the expressions that denote the delivered header
	classify := func(sh shape, x ast.Expr, src map[string]bool) (int, bool) {
		if src[str(x)] {
			return 0, true
		}
		u, ok := x.(*ast.UnaryExpr)
		if !ok || u.Op != token.AND {
			return 0, false
		}
		id, ok := u.X.(*ast.Ident)
		if !ok || !src[sh.derefDef[id.Name]] {
			return 0, false
		}
		pp, ok := sh.addrAsg[id.Name+".Property"]
		if !ok {
			return 1, true
		}
		from := sh.derefDef[pp]
		if from == id.Name+".Property" {
			return 2, true
		}
		for s := range src {
			if from == s+".Property" {
				return 2, true
			}
		}
		return 0, false
	}
	keyed := func(fd *ast.FuncDecl, typ, field string) ast.Expr {
		var found ast.Expr
		ast.Inspect(fd.Body, func(x ast.Node) bool {
			cl, ok := x.(*ast.CompositeLit)
			if !ok {
				return true
			}
			if id, ok := cl.Type.(*ast.Ident); !ok || id.Name != typ {
				return true
			}
			for _, el := range cl.Elts {
				if kv, ok := el.(*ast.KeyValueExpr); ok {
					if k, ok := kv.Key.(*ast.Ident); ok && k.Name == field {
						found = kv.Value
					}
				}
			}
			return true
		})
		return found
	}
	fmt.Fprintf(&out, "\n(* ownership shapes of the receive path (C09): what is copied, what is shared *)\n")
	// ---- unpack
	if fd := method("packageParse", "unpack"); fd == nil {
		fail("ownership/unpack", "method packageParse.unpack not found")
	} else {
		var firstDecode, clonePos token.Pos
		histNil, histBad := false, ""
		ast.Inspect(fd.Body, func(x ast.Node) bool {
			switch n := x.(type) {
			case *ast.CallExpr:
				if se, ok := n.Fun.(*ast.SelectorExpr); ok && se.Sel.Name == "Decode" && len(n.Args) == 1 && str(n.Args[0]) == "data" {
					if firstDecode == 0 || n.Pos() < firstDecode {
						firstDecode = n.Pos()
					}
				}
			case *ast.AssignStmt:
				if len(n.Lhs) != 1 || len(n.Rhs) != 1 {
					return true
				}
				l, r := str(n.Lhs[0]), str(n.Rhs[0])
				if l == "data" && r == "bytes.Clone(data)" && (clonePos == 0 || n.Pos() < clonePos) {
					clonePos = n.Pos()
				}
				if l == "p.historyData" {
					switch {
					case r == "nil":
						histNil = true
					case strings.HasPrefix(r, "append(p.historyData, "):
					case strings.HasPrefix(r, "p.historyData[") && strings.HasSuffix(r, ":]") && !strings.HasPrefix(r, "p.historyData[0:") && !strings.HasPrefix(r, "p.historyData[:"):
					default:
						histBad = r
					}
				}
			}
			return true
		})
		// every JTMessage unpack decodes into is a local `x := jt808.NewJTMessage()` (a fresh header per delivered message)
		nDecode, allFresh := 0, true
		ast.Inspect(fd.Body, func(x ast.Node) bool {
			if c, ok := x.(*ast.CallExpr); ok {
				if se, ok := c.Fun.(*ast.SelectorExpr); ok && se.Sel.Name == "Decode" {
					nDecode++
					ok2 := false
					if id, ok := se.X.(*ast.Ident); ok && id.Obj != nil {
						if as, ok := id.Obj.Decl.(*ast.AssignStmt); ok && as.Tok == token.DEFINE && len(as.Rhs) == 1 && str(as.Rhs[0]) == "jt808.NewJTMessage()" {
							ok2 = true
						}
					}
					if !ok2 {
						allFresh = false
					}
				}
			}
			return true
		})
		fmt.Fprintf(&out, "Definition gen_decode_fresh : bool := %v.\n", allFresh && nDecode > 0)
		if firstDecode == 0 {
			fail("ownership/unpack", "no .Decode(data) call")
		} else {
			fmt.Fprintf(&out, "Definition gen_fastpath_clones : bool := %v.\n", clonePos != 0 && clonePos < firstDecode)
		}
		if histBad != "" && histBad != "p.historyData[0:0]" && histBad != "p.historyData[:0]" {
			fail("ownership/unpack", "p.historyData is assigned "+histBad)
		} else {
			fmt.Fprintf(&out, "Definition gen_history_nil : bool := %v.\n", histNil && histBad == "")
		}
	}
	// ---- add: the timeout record's header
	if fd := method("packageParse", "add"); fd == nil {
		fail("ownership/add", "method packageParse.add not found")
	} else if v := keyed(fd, "packageComplete", "initHeader"); v == nil {
		fail("ownership/add", "no packageComplete{initHeader: ..}")
	} else if k, ok := classify(scan(fd), v, map[string]bool{hdrParam(fd, 1): true}); !ok {
		fail("ownership/add", "initHeader: "+str(v)+" is neither the parameter nor a recognised copy of it")
	} else {
		fmt.Fprintf(&out, "Definition gen_record_header_share : N := %d.\n", k)
	}
	// ---- completePack: the merged message's header.  The construction may live in completePack itself or in a helper
	// it was extracted into (any function of the package that assigns `<x>.JTMessage = &<jm>` with `<jm> := *<m>.JTMessage`):
	// the function that holds it is found by shape, not by name.
	if fd := method("packageParse", "completePack"); fd == nil {
		fail("ownership/completePack", "method packageParse.completePack not found")
	} else {
		type cand struct {
			sh       shape
			key, jm  string
			fromExpr string
		}
		var cands []cand
		var fnames []string
		for n := range files {
			fnames = append(fnames, n)
		}
		sort.Strings(fnames)
		for _, n := range fnames {
			if strings.HasPrefix(n, "verif_") {
				continue
			}
			for _, d := range files[n].Decls {
				g, ok := d.(*ast.FuncDecl)
				if !ok || g.Body == nil {
					continue
				}
				sh := scan(g)
				for k, jm := range sh.addrAsg {
					if strings.HasSuffix(k, ".JTMessage") && strings.HasSuffix(sh.derefDef[jm], ".JTMessage") {
						cands = append(cands, cand{sh, k, jm, sh.derefDef[jm]})
					}
				}
			}
		}
		switch {
		case len(cands) == 0:
			// no own JTMessage anywhere: the merged message is built around the packet's JTMessage (the shape before
			// fix a3fb0a0) - recognised as SHARED only when completePack itself still builds the message that way
			builds := false
			ast.Inspect(fd.Body, func(x ast.Node) bool {
				if c, ok := x.(*ast.CallExpr); ok {
					if id, ok := c.Fun.(*ast.Ident); ok && id.Name == "newTerminalMessage" && len(c.Args) > 0 && strings.HasSuffix(str(c.Args[0]), ".JTMessage") {
						builds = true
					}
				}
				return true
			})
			if builds {
				fmt.Fprintf(&out, "Definition gen_merged_header_share : N := 0.\n")
			} else {
				fail("ownership/completePack", "construction of the merged message not found")
			}
		case len(cands) > 1:
			fail("ownership/completePack", "more than one function gives a message its own JTMessage copy")
		default:
			c := cands[0]
			ch, ok := c.sh.addrAsg[c.jm+".Header"]
			if !ok {
				fmt.Fprintf(&out, "Definition gen_merged_header_share : N := 0.\n") // own JTMessage struct, same *Header
			} else if k, ok := classify(c.sh, &ast.UnaryExpr{Op: token.AND, X: ast.NewIdent(ch)}, map[string]bool{c.fromExpr + ".Header": true, c.jm + ".Header": true}); !ok {
				fail("ownership/completePack", c.jm+".Header = &"+ch+" is not a recognised copy of the packet's header")
			} else {
				fmt.Fprintf(&out, "Definition gen_merged_header_share : N := %d.\n", k)
			}
		}
	}
	// ---- sessionManager.join: the header platform commands are encoded on
	if fd := method("sessionManager", "join"); fd == nil {
		fail("ownership/join", "method sessionManager.join not found")
	} else if v := keyed(fd, "session", "header"); v == nil {
		fail("ownership/join", "no session{header: ..}")
	} else if k, ok := classify(scan(fd), v, map[string]bool{hdrParam(fd, 0) + ".Header": true, hdrParam(fd, 0) + ".JTMessage.Header": true}); !ok {
		fail("ownership/join", "header: "+str(v)+" is neither the message's header nor a recognised copy of it")
	} else {
		fmt.Fprintf(&out, "Definition gen_session_header_share : N := %d.\n", k)
	}
}

// ==== END ownership shapes ====================================================================================

func main() {
	repo := flag.String("repo", "/repo", "repository root")
	outp := flag.String("out", "", "output .v file")
	flag.Parse()
	fmt.Fprintf(&out, "(* GENERATED by /verif/translator (go2tables) from the current source of %s — do not edit, not committed. *)\n", "/repo")
	fmt.Fprintf(&out, "From Coq Require Import List NArith String.\nImport ListNotations.\nOpen Scope N_scope.\n\n")
	loadConsts(filepath.Join(*repo, "shared/consts"))
	model := parseDir(filepath.Join(*repo, "protocol/model"))
	svc := parseDir(filepath.Join(*repo, "service"))
	bitTable(model, "alarm", "AlarmSignDetails", "parse", "AlarmSignDetails")
	bitTable(model, "status", "StatusSignDetails", "parse", "StatusSignDetails")
	bitTable(model, "extsig", "T0x0200AdditionDetails", "parseExtendVehicleStatus", "AdditionExtendVehicleStatus")
	bitTable(model, "io", "T0x0200AdditionDetails", "parseIOStatus", "AdditionIOStatus")
	bitTable(model, "table18", "T0x0200ExtensionTable18", "parse", "T0x0200ExtensionTable18")
	lenTable(model)
	dialectWidths(model)
	replyRegistry(svc, model)
	constants(*repo)
	simRegistry(parseDir(filepath.Join(*repo, "terminal")), svc, model) // C20/C06 addition
	paramTable(model)
	fixedLayouts(model)    // T7 (C07)
	frameLayout(*repo)     // header layout of the JT/T 808 frame (C01 C02 C04)
	jt1078Layout(*repo)    // header layout of the JT/T 1078 packet (C17)
	attachLayout(*repo)    // chunk header of the attachment stream (C15)
	fileHandler(*repo)     // file-system calls of package attachment and the save step (C19)
	timeCalls(*repo)       // timers, sleeps and deadlines of service / attachment (C11 C12 C13)
	abortCalls(*repo)      // explicit panic / os.Exit / log.Fatal calls (C03 C10 C13)
	stringOps(*repo)       // String() methods: partial operations and callees (C03)
	ownershipShapes(*repo) // what the receive path copies / shares (C09)
	q := make([]string, len(unrecognised))
	for i, u := range unrecognised {
		q[i] = strconv.Quote(u) + "%string"
	}
	fmt.Fprintf(&out, "Definition gen_unrecognised : list string := [%s].\n", strings.Join(q, "; "))
	if *outp == "" {
		fmt.Print(out.String())
		return
	}
	if err := os.WriteFile(*outp, []byte(out.String()), 0o644); err != nil {
		fmt.Fprintln(os.Stderr, err)
		os.Exit(1)
	}
	for _, u := range unrecognised {
		fmt.Fprintln(os.Stderr, "unrecognised:", u)
	}
}

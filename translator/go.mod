module go2tables

go 1.23.2

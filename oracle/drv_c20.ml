(* ops on the terminal-simulator model (Model/Sim.v): simgen, simseq, simreply *)
open Drv_common
open Prelude
open Sim

let cs (l : BinNums.coq_N list) : int =
  Stdlib.List.fold_left (fun a b -> (a * 31 + int_of_n b + 1) land 0xFFFFFFFF) 7 l
let dig (l : string list) : int =
  Stdlib.List.fold_left (fun a s ->
    (a * 131 + cs (Stdlib.List.init (String.length s) (fun i -> n_of_int (Char.code s.[i])))) land 0xFFFFFFFFFFFF) 1 l

let digits_of (s : string) : BinNums.coq_N list =
  Stdlib.List.init (String.length s) (fun i -> n_of_int (Char.code s.[i] - 48))

let term (ver : string) (phone : string) : sim option =
  match with_header (n_of_int (int_of_string ver)) (digits_of phone) with
  | Ok t -> Some t
  | _ -> None

let frame_ans = function None -> "nil" | Some f -> "ok frame=" ^ hex_of_bytes f

let init () =
  let simgen = (fun a -> match a with
    | [ver; phone; skip; cmd; body] ->
      (match term ver phone with
       | None -> "bad-header"
       | Some t ->
         let t = ref t in
         for _ = 1 to int_of_string skip do
           t := fst (create_command !t (n_of_int 2) [])
         done;
         let cmd = n_of_int (int_of_string cmd) in
         if body = "D" then frame_ans (snd (create_default !t cmd))
         else frame_ans (Some (snd (create_command !t cmd (bytes_of_hex body)))))
    | _ -> "bad-args") in
  register "simgen" simgen;
  register "simgenl" simgen;
  (* simcalls <ver> <phone> <call> ... : D<cmd> = CreateDefaultCommandData, C<cmd>:<body> = CreateCommandData *)
  register "simcalls" (fun a -> match a with
    | ver :: phone :: calls ->
      (match term ver phone with
       | None -> "bad-header"
       | Some t ->
         let cs = Stdlib.List.map (fun c ->
           let r = String.sub c 1 (String.length c - 1) in
           if c.[0] = 'D' then CDefault (n_of_int (int_of_string r))
           else match String.split_on_char ':' r with
             | [cmd; body] -> CCustom (n_of_int (int_of_string cmd), bytes_of_hex body)
             | _ -> failwith "call") calls in
         let rs = Stdlib.List.map (fun o -> match o with Some f -> hex_of_bytes f | None -> "nil") (run_calls t cs) in
         "ok r=" ^ String.concat "," rs)
    | _ -> "bad-args");
  (* simshare <ver> <phone> <k:call> ... : several Terminals made from one Option value: independent states *)
  register "simshare" (fun a -> match a with
    | ver :: phone :: calls ->
      (match term ver phone with
       | None -> "bad-header"
       | Some t0 ->
         let terms : (string, sim) Hashtbl.t = Hashtbl.create 4 in
         let rs = Stdlib.List.map (fun kc ->
           let i = String.index kc ':' in
           let k = String.sub kc 0 i and c = String.sub kc (i + 1) (String.length kc - i - 1) in
           let t = (match Hashtbl.find_opt terms k with Some t -> t | None -> t0) in
           let r = String.sub c 1 (String.length c - 1) in
           let call =
             if c.[0] = 'D' then CDefault (n_of_int (int_of_string r))
             else match String.split_on_char ':' r with
               | [cmd; body] -> CCustom (n_of_int (int_of_string cmd), bytes_of_hex body)
               | _ -> failwith "call" in
           let (t', o) = do_call t call in
           Hashtbl.replace terms k t';
           match o with Some f -> hex_of_bytes f | None -> "nil") calls in
         "ok r=" ^ String.concat "," rs)
    | _ -> "bad-args");
  register "simseq" (fun a -> match a with
    | [ver; phone; count; cmd] ->
      (match term ver phone with
       | None -> "bad-header"
       | Some t ->
         let n = int_of_string count and cmd = n_of_int (int_of_string cmd) in
         let t = ref t and out = ref [] in
         for _ = 1 to n do
           let (t', f) = create_default !t cmd in
           t := t';
           out := (match f with Some f -> hex_of_bytes f | None -> "-") :: !out
         done;
         let fr = Stdlib.List.rev !out in
         Printf.sprintf "ok n=%d dig=%x first=%s last=%s" n (dig fr) (Stdlib.List.hd fr) (Stdlib.List.hd !out))
    | _ -> "bad-args");
  let simreply = (fun a -> match a with
    | ver :: phone :: seq :: frames ->
      (match term ver phone with
       | None -> "bad-header"
       | Some t ->
         let seq = n_of_int (int_of_string seq) in
         let t = ref t in
         let rs = Stdlib.List.map (fun f ->
           let (t', r) = expected_reply !t seq (bytes_of_hex f) in
           t := t';
           match r with Some r -> hex_of_bytes r | None -> "nil") frames in
         "ok r=" ^ String.concat "," rs)
    | _ -> "bad-args") in
  register "simreply" simreply;
  register "simreplym" simreply;
  register "simreplyf" simreply

(* op on the whole re-request path, parser (Model/Subpkg.v) + writer (Model/Reply.v writer_rereq):
     rrw <platform serial> <k | s<first serial>> <step> ...   step = w:<hex> | y:<hex> (one read each) | s:<ms> (clock)
   answer: ok <hex of the frame written for the k-th (0-based) re-request the parser generates when
   the steps are run from a fresh connection>, the writer's platformSerialNumber being <platform
   serial> at that moment; "none" when there is no such re-request *)
open Drv_common
open Prelude
open Frame
open Subpkg

let init () =
  register "rrw" (fun args -> match args with
    | ps :: k :: steps ->
      let steps = Stdlib.List.map (fun a ->
        let t = String.sub a 0 2 and v = String.sub a 2 (String.length a - 2) in
        if t = "w:" || t = "y:" then SFeed (bytes_of_hex v)
        else if t = "s:" then SAge (n_of_int (int_of_string v))
        else failwith "step") steps in
      let rs = run_script N0 pst0 steps in
      let rr = Stdlib.List.concat_map (fun ((_, ms), _) ->
        Stdlib.List.filter (fun p -> int_of_n p.p_msg.m_id = 0x8003 && not p.p_complete) ms) rs in
      let pick =
        if String.length k > 0 && k.[0] = 's' then begin
          (* the re-request whose body names this original serial *)
          let ser = int_of_string (String.sub k 1 (String.length k - 1)) in
          Stdlib.List.find_opt (fun p -> match p.p_msg.m_body with
            | a :: b :: _ -> int_of_n a * 256 + int_of_n b = ser | _ -> false) rr
        end else Stdlib.List.nth_opt rr (int_of_string k) in
      (match pick with
       | None -> "none"
       | Some p ->
         let d = { Reply.d_m = p.p_msg; Reply.d_complete = p.p_complete; Reply.d_data = p.p_raw } in
         let c = { Reply.c_pending = []; Reply.c_hand = None; Reply.c_q = []; Reply.c_rq = [d];
                   Reply.c_seq = n_of_int (int_of_string ps); Reply.c_h = Reply.hstate0 } in
         let (_, obs) = Reply.writer_rereq c in
         (match Stdlib.List.find_opt (function Reply.OWrite _ -> true | _ -> false) obs with
          | Some (Reply.OWrite w) -> "ok " ^ hex_of_bytes (Reply.wire_bytes w)
          | _ -> "none"))
    | _ -> "bad-args")

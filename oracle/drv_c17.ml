open Drv_common
open Prelude
open Jt1078

let show_pkt (p : pkt) : string =
  Printf.sprintf "v=%s p=%s x=%s cc=%s m=%s pt=%s seq=%s sim=%s ch=%s dt=%s sub=%s ts=%s ifi=%s fi=%s blen=%s body=%s"
    (dec_of_n p.k_v) (dec_of_n p.k_p) (dec_of_n p.k_x) (dec_of_n p.k_cc) (dec_of_n p.k_m) (dec_of_n p.k_pt)
    (dec_of_n p.k_seq) (string_of_chars (bcd2dec p.k_sim)) (dec_of_n p.k_chan) (dec_of_n p.k_dt)
    (dec_of_n p.k_sub) (hex_of_n p.k_ts) (dec_of_n p.k_ifi) (dec_of_n p.k_fi) (dec_of_n p.k_blen)
    (hex_of_bytes p.k_body)

let show_res = function
  | Ok (p, rest) -> "ok " ^ show_pkt p ^ " rest=" ^ hex_of_bytes rest
  | Err e -> "err " ^ dec_of_n e
  | Panic -> "panic"

(* jt1078 <hex> : decode with a fresh receiver
   jt1078seq <hex1> <hex2> ... : decode each with ONE reused receiver, report the last *)
let init () =
  register "jt1078" (fun args -> match args with
    | [h] -> show_res (decode fresh_pkt (bytes_of_hex h))
    | _ -> "bad-args");
  register "jt1078reuse" (fun args -> match args with
    | [h] ->
      let d = bytes_of_hex h in
      (match decode_stream_reuse fresh_pkt d with
       | Ok ps -> "ok " ^ String.concat " | " (Stdlib.List.map (fun p -> show_pkt p ^ " rest=-") ps)
       | Err e -> "err " ^ dec_of_n e
       | Panic -> "panic")
    | _ -> "bad-args");
  register "jt1078seq" (fun args ->
    let r = ref fresh_pkt and last = ref "none" in
    Stdlib.List.iter (fun h ->
      let res = decode !r (bytes_of_hex h) in
      (match res with Ok (p, _) -> r := p | _ -> ());
      last := show_res res) args;
    !last)

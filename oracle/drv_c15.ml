(* op on Model/Attach.v:  att <dialect 1..6> <segment-hex>...   (one read per segment, then close) *)
open Drv_common
open Prelude
open Attach

let fnv32 (l : BinNums.coq_N list) : int =
  Stdlib.List.fold_left (fun h b -> ((h lxor (int_of_n b)) * 16777619) land 0xFFFFFFFF) 2166136261 l

let hx_or_empty l = if l = [] then "-" else hex_of_bytes l

let show_file ((nm, p) : BinNums.coq_N list * pkg) : string =
  let recs = Stdlib.List.sort (fun (a, _) (b, _) -> compare a b)
      (Stdlib.List.map (fun (o, n) -> (int_of_n o, int_of_n n)) (p_recs p)) in
  Printf.sprintf "%s:%s:%s:%s:%d/%08x" (hx_or_empty nm) (dec_of_n p.p_size) (dec_of_n p.p_cur)
    (String.concat "." (Stdlib.List.map (fun (o, n) -> Printf.sprintf "%d+%d" o n) recs))
    (Stdlib.List.length p.p_body) (fnv32 p.p_body)

let show_event (e : event) : string =
  let cur = match e.e_cur with None -> "nil" | Some [] -> "empty" | Some n -> hex_of_bytes n in
  let files = Stdlib.List.sort (fun (a, _) (b, _) -> compare (string_of_chars a) (string_of_chars b)) e.e_files in
  Printf.sprintf "[st=%s cur=%s hist=%s err=%s reply=%s files=%s]" (dec_of_n e.e_stage) cur (dec_of_n e.e_hist)
    (bool_s e.e_err) (hx_or_empty e.e_reply)
    (if files = [] then "-" else String.concat "," (Stdlib.List.map show_file files))

let att_run (a : string list) =
  match a with
  | d :: segs -> Some (run (n_of_int (int_of_string d)) (Stdlib.List.map bytes_of_hex segs))
  | _ -> None

let init () =
  register "att" (fun a -> match att_run a with
    | Some ((evs, w), _) ->
      Printf.sprintf "ok n=%d %s wire=%d/%08x" (Stdlib.List.length evs)
        (String.concat " " (Stdlib.List.map show_event evs)) (Stdlib.List.length w) (fnv32 w)
    | None -> "bad-args")

(* ops on Model/Ranges.v: miss, reply1212, parse9212 *)
open Drv_common
open Prelude
open Ranges

(* "o+l,o+l,..." or "-" *)
let segs_of_string (s : string) =
  if s = "-" then [] else
  Stdlib.List.map (fun t ->
    match String.split_on_char '+' t with
    | [o; l] -> (n_of_int (int_of_string o), n_of_int (int_of_string l))
    | _ -> failwith "seg") (String.split_on_char ',' s)
let string_of_segs l =
  if l = [] then "-" else
  String.concat "," (Stdlib.List.map (fun (o, n) -> dec_of_n o ^ "+" ^ dec_of_n n) l)

let init () =
  register "miss" (fun a -> match a with
    | [size; cur; recs] ->
      "ok " ^ string_of_segs (miss_segments (n_of_int (int_of_string size)) (n_of_int (int_of_string cur)) (segs_of_string recs))
    | _ -> "bad-args");
  register "reply1212" (fun a -> match a with
    | [body; recs] ->
      (match parse1211 (bytes_of_hex body) with
       | Ok t -> "ok " ^ hex_of_bytes (reply1212 t (segs_of_string recs))
       | Err e -> "err " ^ dec_of_n e
       | Panic -> "panic")
    | _ -> "bad-args");
  register "parse9212" (fun a -> match a with
    | [body] ->
      (match parse9212 (bytes_of_hex body) with
       | Ok r -> Printf.sprintf "ok nl=%s name=%s type=%s res=%s cnt=%s list=%s"
                   (dec_of_n r.r_namelen) (hex_of_bytes r.r_name) (dec_of_n r.r_type) (dec_of_n r.r_result)
                   (dec_of_n r.r_count) (string_of_segs r.r_list)
       | Err e -> "err " ^ dec_of_n e
       | Panic -> "panic")
    | _ -> "bad-args")

let () =
  Drv_all.init ();
  let out = Buffer.create 65536 in
  (try
    while true do
      let line = input_line stdin in
      let toks = String.split_on_char ' ' line |> Stdlib.List.filter (fun s -> s <> "") in
      let res = match toks with
        | [] -> "empty"
        | op :: args ->
          (match Hashtbl.find_opt Drv_common.handlers op with
           | None -> "unknown-op " ^ op
           | Some f -> (try f args with e -> "driver-exception " ^ Printexc.to_string e)) in
      Buffer.add_string out res; Buffer.add_char out '\n';
      if Buffer.length out > 60000 then (print_string (Buffer.contents out); Buffer.clear out)
    done
  with End_of_file -> ());
  print_string (Buffer.contents out)

(* Oracle side of the location ops (C08 and the location part of C03): the extracted models of
   Model/Location.v and Model/LocationExt.v, printed in the canonical form of
   harness/lib/ops_location.go. *)
open Drv_common
open Prelude
open Location
open LocationExt

let flag_string (l : bool list) : string =
  String.concat "" (Stdlib.List.map (fun b -> if b then "1" else "0") l)

let loc_dump (l : loc) : string =
  Printf.sprintf "alarm=%s status=%s lat=%s lon=%s alt=%s speed=%s dir=%s time=%s af=%s sf=%s cargo=%s"
    (dec_of_n l.l_alarm) (dec_of_n l.l_status) (dec_of_n l.l_lat) (dec_of_n l.l_lon) (dec_of_n l.l_alt)
    (dec_of_n l.l_speed) (dec_of_n l.l_dir) (hex_of_bytes l.l_time) (flag_string l.l_aflags)
    (flag_string l.l_sflags) (dec_of_n l.l_cargo)

let nz k v = if int_of_n v <> 0 then [k ^ "=" ^ dec_of_n v] else []
let has_flag l = Stdlib.List.exists (fun b -> b) l

let val_dump (v : aval) : string =
  let p = match v with
    | VNone -> []
    | VMile x -> nz "mile" x
    | VOil x -> nz "oil" x
    | VSpeed x -> nz "speed" x
    | VManual x -> nz "manual" x
    | VTire l ->
      if l = [] then [] else
      let l = Stdlib.List.sort (fun (a, _) (b, _) -> compare (int_of_n a) (int_of_n b)) l in
      ["tire=" ^ String.concat "+" (Stdlib.List.map (fun (k, x) -> dec_of_n k ^ "." ^ dec_of_n x) l)]
    | VTemp x -> nz "temp" x
    | VOverSpeed (ty, a) -> nz "os.ty" ty @ nz "os.area" a
    | VArea (ty, a, d) -> nz "ar.ty" ty @ nz "ar.area" a @ nz "ar.dir" d
    | VDrive (i, t, r) -> nz "dt.id" i @ nz "dt.time" t @ nz "dt.res" r
    | VExt (x, f) -> nz "ext.value" x @ (if has_flag f then ["ext.flags=" ^ flag_string f] else [])
    | VIO (x, f) -> nz "io.value" x @ (if has_flag f then ["io.flags=" ^ flag_string f] else [])
    | VAnalog x -> nz "analog" x
    | VWifi x -> nz "wifi" x
    | VGnss x -> nz "gnss" x in
  String.concat "," p

let adds_dump (m : addition list) : string =
  let m = Stdlib.List.sort (fun a b -> compare (int_of_n a.a_id) (int_of_n b.a_id)) m in
  "adds=[" ^ String.concat ";" (Stdlib.List.map (fun a ->
    Printf.sprintf "%s/%s:%s:%s:%s" (dec_of_n a.a_id) (dec_of_n a.a_id) (dec_of_n a.a_len) (hex_of_bytes a.a_data)
      (val_dump a.a_val)) m) ^ "]"

(* the renderers: Panic anywhere makes the whole answer "panic", as String() under recover does *)
let adds_render_ok (m : addition list) : bool =
  Stdlib.List.for_all (fun a -> match aval_render a.a_val with Panic -> false | _ -> true) m

let dump0200 (t : t0200) : string =
  match t0200_render t with
  | Ok rt when adds_render_ok t.t_adds ->
    "ok " ^ loc_dump t.t_loc ^ " " ^ adds_dump t.t_adds ^ " rt=" ^ hex_of_bytes rt
  | _ -> "panic"

let dump0704 (t : t0704) : string =
  match t0704_render t.b_items with
  | Ok rts when Stdlib.List.for_all (fun i -> adds_render_ok i.i_adds) t.b_items ->
    Printf.sprintf "ok num=%s type=%s items=[%s] rt=%s" (dec_of_n t.b_num) (dec_of_n t.b_type)
      (String.concat " | " (Stdlib.List.map (fun i ->
         Printf.sprintf "len=%s %s %s" (dec_of_n i.i_len) (loc_dump i.i_loc) (adds_dump i.i_adds)) t.b_items))
      (String.concat "," (Stdlib.List.map hex_of_bytes rts))
  | _ -> "panic"

let dump0801 (t : t0801) : string =
  match t0801_render t with
  | Ok (head, rt) ->
    Printf.sprintf "ok id=%s type=%s fmt=%s event=%s chan=%s %s pkg=%s r26=%s rt=%s" (dec_of_n t.m_id) (dec_of_n t.m_type)
      (dec_of_n t.m_fmt) (dec_of_n t.m_event) (dec_of_n t.m_chan) (loc_dump t.m_loc) (hex_of_bytes t.m_pkg)
      (hex_of_bytes head) (hex_of_bytes rt)
  | _ -> "panic"

let res_s dump = function
  | Ok v -> dump v
  | Err e -> "err " ^ dec_of_n e
  | Panic -> "panic"

let asign_dump (s : asign) : string =
  Printf.sprintf "sign={d=%s tid=%s time=%s ser=%s att=%s res=%s}" (dec_of_n s.s_dialect) (hex_of_bytes s.s_tid)
    (hex_of_bytes s.s_time) (dec_of_n s.s_serial) (dec_of_n s.s_attach) (hex_of_bytes s.s_reserve)

let base_dump (b : sbbase) : string =
  Printf.sprintf "base={speed=%s alt=%s lat=%s lon=%s time=%s st=%s fl=%s %s ok=%s}" (dec_of_n b.sb_speed) (dec_of_n b.sb_alt)
    (dec_of_n b.sb_lat) (dec_of_n b.sb_lon) (hex_of_bytes b.sb_time) (dec_of_n b.sb_status) (flag_string b.sb_flags)
    (asign_dump b.sb_sign) (bool_s b.sb_ok)

let ext_dump (e : ext) : string =
  Printf.sprintf "ok aid=%s flag=%s f=[%s] %s cnt=%s list=[%s]" (dec_of_n e.e_aid) (dec_of_n e.e_flag)
    (String.concat "," (Stdlib.List.map dec_of_n e.e_fields)) (base_dump e.e_base) (dec_of_n e.e_cnt)
    (String.concat ";" (Stdlib.List.map (fun l -> String.concat "." (Stdlib.List.map dec_of_n l)) e.e_list))

let ext_res = function
  | Ok e -> ext_dump e
  | Err _ -> "no"
  | Panic -> "panic"

let kind_of s = n_of_int (int_of_string ("0x" ^ s))

let init () =
  (* p0200 <body> [<tail>] : the model has no access to the tail *)
  register "p0200" (fun a -> res_s dump0200 (t0200_parse fresh_0200 (bytes_of_hex (Stdlib.List.hd a))));
  register "p0704" (fun a -> res_s dump0704 (t0704_parse fresh_0704 (bytes_of_hex (Stdlib.List.hd a))));
  register "p0801" (fun a -> res_s dump0801 (t0801_parse fresh_0801 (bytes_of_hex (Stdlib.List.hd a))));
  (* seqXXXX <b1> <b2> ... : one receiver; a parse that fails leaves the model's receiver as it was *)
  register "seq0200" (fun a ->
    let r = ref fresh_0200 and last = ref "none" in
    Stdlib.List.iter (fun h -> let res = t0200_parse !r (bytes_of_hex h) in
      (match res with Ok v -> r := v | _ -> ()); last := res_s dump0200 res) a; !last);
  register "seq0704" (fun a ->
    let r = ref fresh_0704 and last = ref "none" in
    Stdlib.List.iter (fun h -> let res = t0704_parse !r (bytes_of_hex h) in
      (match res with Ok v -> r := v | _ -> ()); last := res_s dump0704 res) a; !last);
  register "seq0801" (fun a ->
    let r = ref fresh_0801 and last = ref "none" in
    Stdlib.List.iter (fun h -> let res = t0801_parse !r (bytes_of_hex h) in
      (match res with Ok v -> r := v | _ -> ()); last := res_s dump0801 res) a; !last);
  (* ext <kind> <dialect> <id> <content> <tail> *)
  register "ext" (fun a -> match a with
    | [k; d; id; c; t] ->
      ext_res (ext_parse (kind_of k) (fresh_ext (n_of_int (int_of_string d))) (n_of_int (int_of_string id))
                 (bytes_of_hex c) (bytes_of_hex t))
    | _ -> "bad-args");
  (* seqext <kind> <dialect> <id1> <c1> <id2> <c2> ... *)
  register "seqext" (fun a -> match a with
    | k :: d :: rest ->
      let r = ref (fresh_ext (n_of_int (int_of_string d))) and last = ref "none" in
      let rec go = function
        | id :: c :: t ->
          let res = ext_parse (kind_of k) !r (n_of_int (int_of_string id)) (bytes_of_hex c) [] in
          (match res with Ok v -> r := v | _ -> ()); last := ext_res res; go t
        | _ -> () in
      go rest; !last
    | _ -> "bad-args")

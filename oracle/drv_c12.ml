(* C12 / C13 driver: the connection model (Model/Writer.v).

   wseq <s0> <tok> ...           run the schedule from [init s0] (disabled choices are skipped, as in Sched.run)
                                 and print what an outside observer sees: the frames that reached the socket
                                 in order, the results of the calls sorted by call, flags
   wexp <s0> <pre> <js> <item>.. trace validation: is there a schedule of the model that explains the recorded
                                 history of one connection?   pre = 1: the connection has already joined (the
                                 join prefix is run from init (s0-1) first);  js = subset of "oei": possible
                                 outcomes of the join;  item = <chain>/<tok>/<lo>/<hi>  (times: integers)
                                   chain T   what the terminal sent, in order:   s:<msg> ... x
                                   chain F   frames the terminal received, in order:  W<serial>.<cmd> | R<serial>.<tag> | Q<serial> (0x8003)
                                   chain K<i> caller i:  c:<cmd>:<tmo>  then (unless it hung)  ret:<result>
                                 an item may be scheduled when no other open item ended before it began.

   choice tokens   c:<cmd>:<0|1>  s:<msg>  x  m:<o|e|i>  rr rf rp rc  ws wa:<0|1> wm:<pick>:<0|1> wc wd wr:<0|1>  ts:<i> tq:<i>
   messages        r.<typ>.<echo>  b.<typ>  a  o.<tag>.<0|1>  f (one sub-package of a fragmented message)  q (0x8003 for reissuePackChan)
   results         resp.<typ>.<echo>  resp.a  timeout  wfail  noexist *)
open Drv_common
open BinNums
open Writer

let n_of s = n_of_int (int_of_string s)
let b_of s = (s = "1")

let msg_of_tok (t : string) : tmsg =
  match String.split_on_char '.' t with
  | ["r"; typ; e] -> TResp (n_of typ, n_of e)
  | ["b"; typ] -> TBad (n_of typ)
  | ["a"] -> TAttr
  | ["f"] -> TFrag
  | ["q"] -> TReissue
  | ["o"; tag; r] -> TOther (n_of tag, b_of r)
  | _ -> failwith ("bad message " ^ t)

let jres_of = function "o" -> JOk | "e" -> JExist | "i" -> JInvalid | s -> failwith ("bad jres " ^ s)

let choice_of_tok (t : string) : choice =
  match String.split_on_char ':' t with
  | ["c"; cmd; tmo] -> Call (n_of cmd, b_of tmo)
  | ["s"; m] -> PeerSend (msg_of_tok m)
  | ["x"] -> PeerClose
  | ["m"; j] -> MgrStep (jres_of j)
  | ["rr"] -> RdRead | ["rf"] -> RdFail | ["rp"] -> RdPush | ["rc"] -> RdClose
  | ["ws"] -> WStop
  | ["wa"; w] -> WAct (b_of w)
  | ["wm"; p; w] -> WMsg (n_of p, b_of w)
  | ["wc"] -> WCpl | ["wd"] -> WDrain
  | ["wr"; w] -> WReis (b_of w)
  | ["ts"; i] -> TSend (nat_of_int (int_of_string i))
  | ["tq"; i] -> TQuit (nat_of_int (int_of_string i))
  | _ -> failwith ("bad token " ^ t)

let res_tok (r : cres) : string =
  match r with
  | RResp (TResp (typ, e)) -> Printf.sprintf "resp.%s.%s" (dec_of_n typ) (dec_of_n e)
  | RResp TAttr -> "resp.a"
  | RResp _ -> "resp.?"
  | RTimeout -> "timeout" | RWriteFail -> "wfail" | RNoExist -> "noexist"

let frame_tok (o : obs) : string option =
  match o with
  | OWrite (k, c, true) -> Some (Printf.sprintf "W%s.%s" (dec_of_n k) (dec_of_n c.c_cmd))
  | OReply (k, TOther (tag, _), true) -> Some (Printf.sprintf "R%s.%s" (dec_of_n k) (dec_of_n tag))
  | OReply (k, TReissue, true) -> Some (Printf.sprintf "Q%s" (dec_of_n k))
  | OReply (k, _, true) -> Some (Printf.sprintf "R%s.a" (dec_of_n k))
  | _ -> None

(* ---------------------------------------------------------------- wseq *)
let wseq (args : string list) : string =
  match args with
  | s0 :: toks ->
    let st = ref (init (n_of s0)) in
    let frames = ref [] and rets = ref [] and skipped = ref 0 and crash = ref false and reuse = ref false in
    let toks = Stdlib.List.filter (fun t -> t.[0] <> '+') toks in
    Stdlib.List.iter (fun t ->
      match step !st (choice_of_tok t) with
      | None -> incr skipped
      | Some (s', o) ->
        st := s';
        Stdlib.List.iter (fun ob ->
          (match frame_tok ob with Some f -> frames := f :: !frames | None -> ());
          (match ob with
           | OReturn (i, r) -> rets := (int_of_nat i, res_tok r) :: !rets
           | OCrash -> crash := true
           | OReuse -> reuse := true
           | _ -> ())) o) toks;
    let rets = Stdlib.List.sort compare !rets in
    Printf.sprintf "ok f=%s r=%s skipped=%d crash=%s reuse=%s"
      (if !frames = [] then "-" else String.concat "," (Stdlib.List.rev !frames))
      (if rets = [] then "-" else String.concat "," (Stdlib.List.map (fun (i, r) -> Printf.sprintf "%d:%s" i r) rets))
      !skipped (bool_s !crash) (bool_s !reuse)
  | _ -> "bad-args"

(* ---------------------------------------------------------------- wexp *)
type item = { chain : string; tok : string; lo : int; hi : int }

let parse_item (s : string) : item =
  match String.split_on_char '/' s with
  | [c; t; lo; hi] -> { chain = c; tok = t; lo = int_of_string lo; hi = int_of_string hi }
  | _ -> failwith ("bad item " ^ s)

exception Budget

let explain (strategy : int) (nbudget : int) (joins : jres list) (st0 : st) (items : item list) : bool =
  (* chains *)
  let names = Stdlib.List.sort_uniq compare (Stdlib.List.map (fun i -> i.chain) items) in
  let chains = Array.of_list (Stdlib.List.map (fun n ->
      Array.of_list (Stdlib.List.filter (fun i -> i.chain = n) items)) names) in
  let nch = Array.length chains in
  let names = Array.of_list names in
  let idx_of n = let r = ref (-1) in Array.iteri (fun i x -> if x = n then r := i) names; !r in
  let fch = idx_of "F" in
  let has_close = Stdlib.List.exists (fun i -> i.chain = "T" && i.tok = "x") items in
  (* callers: chain K<h>; model id of caller h once its Call was scheduled *)
  (* the order in which the chains are tried: as named (strategy 0) or callers by invocation time (1) or
     callers in reverse (2); only a heuristic, every order is explored within the budget *)
  let order =
    let l = Stdlib.List.init nch (fun i -> i) in
    let lo_of c = if Array.length chains.(c) > 0 then chains.(c).(0).lo else 0 in
    match strategy with
    | 1 -> Stdlib.List.stable_sort (fun a b -> compare (lo_of a) (lo_of b)) l
    | 2 -> Stdlib.List.rev l
    | _ -> l in
  let order = Array.of_list order in
  let budget = ref nbudget in
  let seen : (string, unit) Hashtbl.t = Hashtbl.create 100_000 in
  (* may item e (next in chain ci) be scheduled now?  no other open item ended before e began *)
  let time_ok (pos : int array) (ci : int) : bool =
    let e = chains.(ci).(pos.(ci)) in
    let ok = ref true in
    for c = 0 to nch - 1 do
      for j = pos.(c) to Array.length chains.(c) - 1 do
        if not (c = ci && j = pos.(ci)) && chains.(c).(j).hi < e.lo then ok := false
      done
    done;
    !ok in
  let all_done (pos : int array) =
    let d = ref true in
    for c = 0 to nch - 1 do if pos.(c) < Array.length chains.(c) then d := false done; !d in
  (* consume the observations of one model step; returns false when they contradict the record *)
  let consume (pos : int array) (ids : (int * int) list) (o : obs list) : bool =
    Stdlib.List.for_all (fun ob ->
      match ob with
      | OCrash -> false
      | OWrite (_, _, true) | OReply (_, _, true) ->
        let f = match frame_tok ob with Some f -> f | None -> "" in
        if fch >= 0 && pos.(fch) < Array.length chains.(fch) then begin
          if chains.(fch).(pos.(fch)).tok = f && time_ok pos fch then (pos.(fch) <- pos.(fch) + 1; true) else false
        end else has_close          (* written but never seen: only possible when the terminal went away *)
      | OReturn (i, r) ->
        let id = int_of_nat i in
        (match Stdlib.List.find_opt (fun (_, m) -> m = id) ids with
         | None -> false
         | Some (ci, _) ->
           pos.(ci) = 1 && Array.length chains.(ci) = 2
           && chains.(ci).(1).tok = "ret:" ^ res_tok r && time_ok pos ci
           && (pos.(ci) <- 2; true))
      | _ -> true) o in
  let candidates (s : st) (ids : (int * int) list) : choice list =
    let mg = match s.mgrQ with
      | MJoin :: _ -> Stdlib.List.map (fun j -> MgrStep j) joins
      | _ :: _ -> [MgrStep JOk]
      | [] -> [] in
    let wm = match s.msgQ.Sched.buf with
      | TAttr :: _ ->
        let picks = Stdlib.List.filter_map (fun (k, c) -> if is_9003 c then Some k else None) s.coq_rec in
        let picks = if picks = [] then [N0] else picks in
        Stdlib.List.concat_map (fun p -> [WMsg (p, true); WMsg (p, false)]) picks
      | _ :: _ -> [WMsg (N0, true); WMsg (N0, false)]
      | [] -> [] in
    (* timers: a timer that exits (TQuit) or whose message finds no entry changes nothing an observer sees,
       and a timer that completes its entry makes the call return a timeout; so only the timers of calls
       whose recorded result is a timeout need to fire (if a schedule explains the history, the schedule
       without the other timer steps explains it as well) *)
    let tm = Stdlib.List.concat_map (fun (i, _) ->
        let id = int_of_nat i in
        match Stdlib.List.find_opt (fun (_, m) -> m = id) ids with
        | Some (ci, _) when Array.length chains.(ci) = 2 && chains.(ci).(1).tok = "ret:timeout" -> [TSend i]
        | _ -> []) s.timers in
    mg @ [RdRead; RdFail; RdPush; RdClose; WStop; WAct true; WAct false] @ wm @ [WCpl; WDrain; WReis true; WReis false] @ tm in
  let rec go (s : st) (pos : int array) (ids : (int * int) list) : bool =
    if all_done pos then true else begin
      decr budget; if !budget < 0 then raise Budget;
      let key = Digest.string (Marshal.to_string (s, pos, ids) []) in
      if Hashtbl.mem seen key then false else begin
        Hashtbl.add seen key ();
        (* environment items *)
        let found = ref false in
        let ci = ref 0 in
        while not !found && !ci < nch do
          let c = order.(!ci) in
          if pos.(c) < Array.length chains.(c) then begin
            let it = chains.(c).(pos.(c)) in
            let is_env = (names.(c) = "T") || (String.length it.tok > 1 && String.sub it.tok 0 2 = "c:") in
            if is_env && time_ok pos c then begin
              match step s (choice_of_tok it.tok) with
              | Some (s', o) ->
                let pos' = Array.copy pos in
                pos'.(c) <- pos'.(c) + 1;
                let ids' = if names.(c) <> "T" then (c, int_of_nat s.ncalls) :: ids else ids in
                if consume pos' ids' o && go s' pos' ids' then found := true
              | None -> ()
            end
          end;
          incr ci
        done;
        (* internal choices *)
        if not !found then
          Stdlib.List.iter (fun ch ->
            if not !found then
              match step s ch with
              | Some (s', o) ->
                let pos' = Array.copy pos in
                if consume pos' ids o && go s' pos' ids then found := true
              | None -> ()) (candidates s ids);
        !found
      end
    end in
  go st0 (Array.make nch 0) []

let join_prefix = [PeerSend (TOther (N0, true)); RdRead; MgrStep JOk; RdPush; WMsg (N0, true)]

let wexp (args : string list) : string =
  match args with
  | s0 :: pre :: js :: items ->
    let s0n = n_of s0 in
    let joins = Stdlib.List.map (fun c -> jres_of (String.make 1 c)) (Stdlib.List.of_seq (String.to_seq js)) in
    let st0 =
      if pre = "1" then begin
        let before = n_of_int ((int_of_string s0 + 65535) mod 65536) in
        fst (run_w (init before) join_prefix)
      end else init s0n in
    let items = Stdlib.List.map parse_item items in
    let rec attempt = function
      | [] -> "exp budget"
      | (st, b) :: rest ->
        (match (try Some (explain st b joins st0 items) with Budget -> None) with
         | Some true -> "exp ok"
         | Some false -> "exp none"
         | None -> attempt rest) in
    attempt [(0, 300_000); (1, 300_000); (2, 300_000); (0, 2_000_000)]
  | _ -> "bad-args"

let init () =
  register "wseq" wseq;
  register "wexp" wexp

(* op on Model/Paths.v:  c19 <dialect> <v2019> <bcd-hex> <name-hex|->...
   predicted entries created below the working directory by the default file handler at
   SuccessQuit: the terminal directory and one file per stored name (resolved lexically). *)
open Drv_common
open Prelude
open Paths

let cwd = [ [n_of_int 119] ]   (* "w" *)

let init () =
  register "c19" (fun a -> match a with
    | _ :: _ :: bcd :: names ->
      let phone = bcd2dec (bytes_of_hex bcd) in
      let names = Stdlib.List.sort_uniq compare (Stdlib.List.map bytes_of_hex names) in
      let paths = writes phone names in
      let stored = Stdlib.List.filter (fun p ->
          (* the name is what follows "./phone/" *)
          true) paths in
      let show p =
        let r = resolve cwd p in
        if insideb cwd r then
          String.concat "/" (Stdlib.List.map string_of_chars (Stdlib.List.tl r))
        else "OUTSIDE:" ^ String.concat "/" (Stdlib.List.map string_of_chars r) in
      let refused p =
        (* os_refuses on the name part: a NUL anywhere in the path is a NUL in the name (phone has none) *)
        os_refuses p in
      let files = Stdlib.List.filter (fun p -> not (refused p)) stored in
      let entries = string_of_chars phone :: Stdlib.List.map show files in
      let entries = Stdlib.List.sort compare entries in
      "ok created=" ^ String.concat "," (Stdlib.List.map (fun s ->
         if s = "" then "-" else
         String.concat "" (Stdlib.List.map (fun c -> Printf.sprintf "%02x" (Char.code c)) (Stdlib.List.init (String.length s) (String.get s)))) entries)
    | _ -> "bad-args")

(* ops on Model/Paths.v + Model/Attach.v: what the default file handler creates below the working
   directory when the connection ends.
     c19 <dialect> <segment-hex>...                       a whole session through the upload model
     c19abs <dialect> <v2019> <bcd-hex> <name-hex|->...   names only (the harness announces them plus "zz") *)
open Drv_common
open Prelude
open Paths

let cwd = [ [n_of_int 119] ]   (* "w" *)

let fnv32 (l : BinNums.coq_N list) : int =
  Stdlib.List.fold_left (fun h b -> ((h lxor (int_of_n b)) * 16777619) land 0xFFFFFFFF) 2166136261 l

let hexs (s : string) =
  if s = "" then "-" else
  String.concat "" (Stdlib.List.map (fun c -> Printf.sprintf "%02x" (Char.code c)) (Stdlib.List.init (String.length s) (String.get s)))

(* relative location of a written path, by the lexical resolution of the model *)
let rel p =
  let r = resolve cwd p in
  if insideb cwd r then String.concat "/" (Stdlib.List.map string_of_chars (Stdlib.List.tl r))
  else "OUTSIDE:" ^ String.concat "/" (Stdlib.List.map string_of_chars r)

let show (phone : BinNums.coq_N list) (files : (BinNums.coq_N list * BinNums.coq_N list) list) : string =
  let files = Stdlib.List.filter (fun (p, _) -> not (os_refuses p)) files in
  let entries = (string_of_chars phone, None) ::
                Stdlib.List.map (fun (p, body) -> (rel p, Some body)) files in
  let entries = Stdlib.List.sort_uniq (fun (a, _) (b, _) -> compare a b) entries in
  "ok created=" ^ String.concat "," (Stdlib.List.map (fun (s, b) ->
     match b with
     | None -> hexs s
     | Some body -> Printf.sprintf "%s:%d/%08x" (hexs s) (Stdlib.List.length body) (fnv32 body)) entries)

let init () =
  register "c19" (fun a -> match a with
    | d :: segs ->
      let ((_, _), s) = Attach.run (n_of_int (int_of_string d)) (Stdlib.List.map bytes_of_hex segs) in
      (match Attach.on_quit_saves s with
       | Some (phone, files) -> show phone files
       | None -> "ok created=-")
    | _ -> "bad-args");
  register "c19abs" (fun a -> match a with
    | _ :: _ :: bcd :: names ->
      let phone = bcd2dec (bytes_of_hex bcd) in
      let names = Stdlib.List.sort_uniq compare (Stdlib.List.map bytes_of_hex names @ [[n_of_int 122; n_of_int 122]]) in
      show phone (Stdlib.List.map (fun p -> (p, [])) (writes phone names))
    | _ -> "bad-args")

(* C13 driver, in addition to drv_c12.ml (wseq / wexp over Model/Writer.v):

   wold <tok> ...   run a schedule of the PRE-REPAIR model (Model/WriterHist.v, DESIGN.md A.5) and print its
                    observations: keeps the historical defect schedules of Props/C13.v executable outside Coq
   tokens  mp:<caller>  rp:<echo>  ro:<id>  pc  rs  sm sa sc ss ds  tf:<serial>  tsd:<serial> *)
open Drv_common

let wold (args : string list) : string =
  let open WriterHist in
  let ch t = match String.split_on_char ':' t with
    | ["mp"; i] -> MgrPush (n_of_int (int_of_string i))
    | ["rp"; e] -> ReaderPush (TResp (n_of_int (int_of_string e)))
    | ["ro"; i] -> ReaderPush (TOther (n_of_int (int_of_string i)))
    | ["pc"] -> PeerClose | ["rs"] -> ReaderStop
    | ["sm"] -> WSelMsg | ["sa"] -> WSelAct | ["sc"] -> WSelCpl | ["ss"] -> WSelStop | ["ds"] -> WDoSend
    | ["tf"; k] -> TFire (n_of_int (int_of_string k))
    | ["tsd"; k] -> TSend (n_of_int (int_of_string k))
    | _ -> failwith ("bad token " ^ t) in
  let (s, o) = run init (Stdlib.List.map ch args) in
  let ot = function
    | OWrite (k, w) -> Printf.sprintf "w%s.%s" (dec_of_n k) (dec_of_n w)
    | OReturn (i, RResp e) -> Printf.sprintf "r%s.resp%s" (dec_of_n i) (dec_of_n e)
    | OReturn (i, RTimeout) -> Printf.sprintf "r%s.timeout" (dec_of_n i)
    | OReturn (i, RWriteFail) -> Printf.sprintf "r%s.wfail" (dec_of_n i)
    | OCrash -> "CRASH" in
  let stuck = match s.w with WSend _ -> "1" | _ -> "0" in
  Printf.sprintf "ok %s holding=%s" (if o = [] then "-" else String.concat "," (Stdlib.List.map ot o)) stuck

let init () = register "wold" wold

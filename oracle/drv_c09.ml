(* op on the memory-level model Model/Mem.v:
     mem <variant> <bufsz> <ev> ...      ev = r:<hex>:<newcap>:<force> | c
   variant = cur | alias | reuse.  Answer mirrors harness/cmd/C09/main.go: per event
     e=<err> hl=<len hist> hc=<cap hist> d=<msg;...> x=<idx=msg;...>
   msg = id,serial,sum,no,complete,body,raw,bcd (the three slices dereferenced in the heap after
   the event); x lists every message delivered earlier whose content now differs from its content
   at delivery *)
open Drv_common
open Prelude
open Frame
open GoSlice
open Mem

let show_d (h : heap) (m : dmsg) : string =
  let ((raw, body), bcd) = content h m in
  let hd = m.d_hdr in
  Printf.sprintf "%s,%s,%s,%s,%s,%s,%s,%s" (dec_of_n hd.m_id) (dec_of_n hd.m_serial) (dec_of_n hd.m_sum)
    (dec_of_n hd.m_no) (if m.d_complete then "1" else "0") (hex_of_bytes body) (hex_of_bytes raw) (hex_of_bytes bcd)

let variant_of = function
  | "cur" -> cur
  | "alias" -> prefix_fastpath_alias
  | "reuse" -> prefix_history_reuse
  | _ -> failwith "variant"

let ev_of (s : string) : ev =
  if s = "c" then Close else
  match String.split_on_char ':' s with
  | ["r"; hex; cap; force] -> Read (bytes_of_hex hex, force = "1", nat_of_int (int_of_string cap))
  | _ -> failwith "ev"

let join l = if l = [] then "-" else String.concat ";" l

(* ---- op hdr <record: deep|shallow|shared> <merged: deep|shallow|shared> <step>...
        step = f:<now ms>:<hex> (one read at absolute time now) | r:<k>:<reply id>:<platform serial>:<body length>
        (the writer answers delivered message k).  Per step: n=<number of delivered messages>
        x=<k=view;...> for every message that is new or reads differently than after the previous step;
        view = id,serial,sum,no,phone|ver.frag.enc.blen.pv.rid.ps  (Model/HdrMem.v) ---- *)
let share_of = function
  | "deep" -> HdrMem.Deep | "shallow" -> HdrMem.Shallow | "shared" -> HdrMem.Shared | _ -> failwith "share"

let show_view (c, p) : string =
  Printf.sprintf "%s,%s,%s,%s,%s|%s.%s.%s.%s.%s.%s.%s" (dec_of_n c.HdrMem.hc_id) (dec_of_n c.HdrMem.hc_serial)
    (dec_of_n c.HdrMem.hc_sum) (dec_of_n c.HdrMem.hc_no) (string_of_chars c.HdrMem.hc_phone)
    (dec_of_n p.HdrMem.pc_ver) (dec_of_n p.HdrMem.pc_frag) (dec_of_n p.HdrMem.pc_enc) (dec_of_n p.HdrMem.pc_blen)
    (dec_of_n c.HdrMem.hc_pv) (dec_of_n c.HdrMem.hc_rid) (dec_of_n c.HdrMem.hc_ps)

let hstep_of (s : string) : HdrMem.hstep =
  match String.split_on_char ':' s with
  | ["f"; now; hex] -> HdrMem.HFeed (n_of_int (int_of_string now), bytes_of_hex hex)
  | ["r"; k; rid; ps; blen] ->
    HdrMem.HReply (nat_of_int (int_of_string k), n_of_int (int_of_string rid), n_of_int (int_of_string ps), n_of_int (int_of_string blen))
  | _ -> failwith "hstep"

let hdr_op args = match args with
  | r :: m :: steps ->
    let v = { HdrMem.hv_rec = share_of r; HdrMem.hv_merge = share_of m } in
    let tr = HdrMem.htrace v HdrMem.hst0 (Stdlib.List.map hstep_of steps) in
    if tr = [] then "none" else begin
      let prev = ref [||] in
      let lines = Stdlib.List.map (fun (st : HdrMem.hst) ->
        let cur = Array.of_list (Stdlib.List.map (fun hp -> show_view (HdrMem.hread st.HdrMem.hs_heap hp)) st.HdrMem.hs_del) in
        let x = ref [] in
        Array.iteri (fun k s -> if k >= Array.length !prev || !prev.(k) <> s then x := Printf.sprintf "%d=%s" k s :: !x) cur;
        prev := cur;
        Printf.sprintf "n=%d x=%s" (Array.length cur) (join (Stdlib.List.rev !x))) tr in
      String.concat " | " lines
    end
  | _ -> "bad-args"

let init () =
  register "hdr" hdr_op;
  register "mem" (fun args -> match args with
    | v :: b :: evs ->
      let v = variant_of v and bufsz = nat_of_int (int_of_string b) in
      let tr = trace v bufsz (init bufsz) (Stdlib.List.map ev_of evs) in
      if tr = [] then "none" else begin
        let delivered = ref [] in   (* (idx, msg, snapshot at delivery), most recent first *)
        let n = ref 0 in
        let lines = Stdlib.List.map (fun (o : sout) ->
          let h = o.o_st.p_heap and hist = o.o_st.p_hist in
          let x = Stdlib.List.filter_map (fun (i, m, snap) ->
            let c = show_d h m in if c <> snap then Some (Printf.sprintf "%d=%s" i c) else None)
            (Stdlib.List.rev !delivered) in
          let d = Stdlib.List.map (fun m ->
            let s = show_d h m in
            delivered := (!n, m, s) :: !delivered; incr n; s) o.o_msgs in
          let e = match o.o_err with None -> "0" | Some e -> if int_of_n e = 99 then "panic" else dec_of_n e in
          Printf.sprintf "e=%s hl=%d hc=%d d=%s x=%s" e (int_of_nat hist.s_len) (int_of_nat hist.s_cap) (join d) (join x)) tr in
        String.concat " | " lines
      end
    | _ -> "bad-args")

(* Oracle side of the message-body ops (C07): the extracted format models of Base/Fmt.v + Model/Msg_*.v,
   printed in the canonical dump of harness/lib/ops_bodies.go.  The value universe [val] IS that dump
   (number -> hex, byte string -> x<hex>, tuple -> (a,b,...)), so this driver has no per-type code. *)
open BinNums
open Drv_common
open Prelude
open Fmt

let hexs (l : coq_N list) : string =
  let buf = Buffer.create (2 * Stdlib.List.length l) in
  Stdlib.List.iter (fun b -> Buffer.add_string buf (Printf.sprintf "%02x" (int_of_n b))) l;
  Buffer.contents buf

let rec show_val (v : coq_val) : string =
  match v with
  | VN n -> hex_of_n n
  | VB b -> "x" ^ hexs b
  | VL l -> "(" ^ String.concat "," (Stdlib.List.map show_val l) ^ ")"

(* the reader of the dump syntax *)
let parse_val (s : string) : coq_val =
  let pos = ref 0 in
  let n = String.length s in
  let rec go () : coq_val =
    if !pos < n && s.[!pos] = '(' then begin
      incr pos;
      if s.[!pos] = ')' then (incr pos; VL [])
      else begin
        let items = ref [] in
        let fin = ref false in
        while not !fin do
          items := go () :: !items;
          if s.[!pos] = ',' then incr pos
          else if s.[!pos] = ')' then (incr pos; fin := true)
          else failwith "tree"
        done;
        VL (Stdlib.List.rev !items)
      end
    end else begin
      let st = !pos in
      while !pos < n && s.[!pos] <> ',' && s.[!pos] <> ')' do incr pos done;
      let leaf = String.sub s st (!pos - st) in
      if String.length leaf > 0 && leaf.[0] = 'x' then
        VB (if String.length leaf = 1 then [] else bytes_of_hex (String.sub leaf 1 (String.length leaf - 1)))
      else VN (n_of_hex leaf)
    end in
  go ()

(* "T0x0102" / "P0x8001" -> 0x0102 / 0x8001 *)
let id_of_name (name : string) : coq_N =
  n_of_int (int_of_string ("0x" ^ String.sub name 3 (String.length name - 3)))

(* the external GBK codec as the harness observed it on the text of this case: g=<gbk hex>:<utf8 hex>,... *)
let codec_of_args (args : string list) : (coq_N list -> coq_N list) * (coq_N list -> coq_N list) =
  let pairs = ref [] in
  Stdlib.List.iter (fun a ->
    if String.length a > 2 && String.sub a 0 2 = "g=" then
      Stdlib.List.iter (fun p ->
        match String.split_on_char ':' p with
        | [g; u] -> pairs := (bytes_of_hex g, bytes_of_hex u) :: !pairs
        | _ -> ()) (String.split_on_char ',' (String.sub a 2 (String.length a - 2)))) args;
  let u2g s = match Stdlib.List.find_opt (fun (_, u) -> u = s) !pairs with Some (g, _) -> g | None -> s in
  let g2u s = match Stdlib.List.find_opt (fun (g, _) -> g = s) !pairs with Some (_, u) -> u | None -> s in
  (u2g, g2u)

let lookup (name : string) (ver : string) (dial : string) (rest : string list) : msg option =
  let id = id_of_name name and ver = n_of_int (int_of_string ver) and dial = n_of_int (int_of_string dial) in
  let (u2g, g2u) = codec_of_args rest in
  Msg_all.msg_all u2g g2u (fun _ -> true) id ver dial

let show_parse (r : coq_val result) : string =
  match r with Ok v -> "ok " ^ show_val v | Err _ -> "err" | Panic -> "panic"

let init () =
  (* brt <T> <ver> <dialect> <hex> [g=..] : parse, dump, re-encode *)
  register "brt" (fun args -> match args with
    | name :: ver :: dial :: h :: rest ->
      (match lookup name ver dial rest with
       | None -> "not-in-model"
       | Some m ->
         (match m.m_dec (bytes_of_hex h) with
          | Ok v -> "ok " ^ show_val v ^ " enc=" ^ hex_of_bytes (m.m_enc v)
          | Err _ -> "err"
          | Panic -> "panic"))
    | _ -> "bad-args");
  (* bseqrt <T> <dialect> <ver1>:<hex1> ... : the model has no receiver, so the answer for a reused receiver is the
     answer for the LAST body alone (what the implementation is required to give) *)
  register "bseqrt" (fun args -> match args with
    | name :: dial :: (_ :: _ as bodies) ->
      let last = Stdlib.List.nth bodies (Stdlib.List.length bodies - 1) in
      (match String.split_on_char ':' last with
       | [ver; h] ->
         (match lookup name ver dial [] with
          | None -> "not-in-model"
          | Some m ->
            (match m.m_dec (bytes_of_hex h) with
             | Ok v -> "ok " ^ show_val v ^ " enc=" ^ hex_of_bytes (m.m_enc v)
             | Err _ -> "err"
             | Panic -> "panic"))
       | _ -> "bad-args")
    | _ -> "bad-args");
  (* bparse <T> <ver> <dialect> <hex> [g=..] : parse and dump only *)
  register "bparse" (fun args -> match args with
    | name :: ver :: dial :: h :: rest ->
      (match lookup name ver dial rest with
       | None -> "not-in-model"
       | Some m -> show_parse (m.m_dec (bytes_of_hex h)))
    | _ -> "bad-args");
  (* benc <T> <ver> <dialect> <tree> [g=..] : encode the value, parse the bytes back; wf = the value is in the
     model's domain (the harness sends in-domain values only and answers wf=1) *)
  register "benc" (fun args -> match args with
    | name :: ver :: dial :: tree :: rest ->
      (match lookup name ver dial rest with
       | None -> "not-in-model"
       | Some m ->
         let v = parse_val tree in
         let e = m.m_enc v in
         "enc=" ^ hex_of_bytes e ^ " back=" ^ show_parse (m.m_dec e) ^ " wf=" ^ bool_s (m.m_wf v))
    | _ -> "bad-args");
  (* ptable : the parameter table (declaration order, id:kind) - compared with the one the harness reads off the
     real struct and parser by reflection and probing *)
  register "ptable" (fun _ ->
    String.concat "," (Stdlib.List.map (fun (id, k) ->
      hex_of_n id ^ ":" ^ (match k with
        | Params.K32 -> "32" | Params.K16 -> "16" | Params.K8 -> "8" | Params.KStr -> "s"
        | Params.KB4 -> "b4" | Params.KB8 -> "b8" | Params.KNone -> "none")) Params.param_fields));
  register "time2bcd" (fun args -> match args with
    | [h] -> hex_of_bytes (time2bcd (bytes_of_hex h)) | _ -> "bad-args");
  register "bcd2time" (fun args -> match args with
    | [h] -> hex_of_bytes (bcd2time (bytes_of_hex h)) | _ -> "bad-args");
  register "bcd2dec" (fun args -> match args with
    | [h] -> hex_of_bytes (bcd2dec (bytes_of_hex h)) | _ -> "bad-args");
  register "fill" (fun args -> match args with
    | [h; n] -> hex_of_bytes (fill (bytes_of_hex h) (n_of_int (int_of_string n))) | _ -> "bad-args")

(* ops on the reply model (Model/Reply.v): conv, rtable *)
open Drv_common
open BinNums
open Prelude
open Frame
open Reply

let cs (l : coq_N list) : int =
  Stdlib.List.fold_left (fun a b -> (a * 31 + int_of_n b + 1) land 0xFFFFFFFF) 7 l

let split_on c s = String.split_on_char c s

(* the delivered message of a frame sent as it is *)
let deliver (f : coq_N list) : dmsg option =
  match decode f with
  | Ok m -> Some { d_m = m; d_complete = false; d_data = f }
  | _ -> None

let with_serial (m : msg) (s : int) : msg = { m with m_serial = n_of_int s }
let with_id (m : msg) (i : int) : msg = { m with m_id = n_of_int i }

(* frame with the header fields of [m] (an unfragmented message) *)
let frame_of (m : msg) : coq_N list =
  encode { m with m_id = N0 } m.m_id m.m_serial m.m_body

exception Bad of string

let items_of (toks : string list) : item list =
  Stdlib.List.concat_map (fun t ->
    let k = t.[0] and r = String.sub t 1 (String.length t - 1) in
    match k with
    | 'F' | 'B' ->
      let f = bytes_of_hex r in
      (match deliver f with Some d -> [IMsg d] | None -> raise (Bad "undecodable"))
    | 'K' ->
      (match split_on ':' r with
       | [fh; bh] ->
         (match decode (bytes_of_hex fh) with
          | Ok m -> let b = bytes_of_hex bh in
            [IMsg { d_m = { m with m_body = b }; d_complete = true; d_data = b }]
          | _ -> raise (Bad "undecodable"))
       | _ -> raise (Bad "K"))
    | 'H' ->
      (match split_on ':' r with
       | [c; fh] ->
         (match decode (bytes_of_hex fh) with
          | Ok m ->
            let s0 = int_of_n m.m_serial in
            Stdlib.List.init (int_of_string c) (fun i ->
              let m' = with_serial m ((s0 + i) land 0xFFFF) in
              IMsg { d_m = m'; d_complete = false; d_data = frame_of m' })
          | _ -> raise (Bad "undecodable"))
       | _ -> raise (Bad "H"))
    | 'P' ->
      (match split_on ':' r with
       | [a; b; fh] ->
         (match decode (bytes_of_hex fh) with
          | Ok m ->
            let a = int_of_string a and b = int_of_string b in
            Stdlib.List.init (b - a) (fun i ->
              let m' = with_id m (a + i) in
              IMsg { d_m = m'; d_complete = false; d_data = frame_of m' })
          | _ -> raise (Bad "undecodable"))
       | _ -> raise (Bad "P"))
    | 'C' ->
      (match split_on ':' r with
       | [c; bh] -> [ICmd (n_of_int (int_of_string c), bytes_of_hex bh)]
       | _ -> raise (Bad "C"))
    | 'Q' ->
      (match split_on ':' r with
       | [bh; fh] ->
         let f = bytes_of_hex fh in
         (match deliver f with
          | Some d when int_of_n d.d_m.m_id = 0x1003 && Stdlib.List.length d.d_m.m_body = 10 ->
            [IAsk (n_of_int 0x9003, bytes_of_hex bh, d)]
          | _ -> raise (Bad "Q"))
       | _ -> raise (Bad "Q"))
    | _ -> raise (Bad "item")) toks

let tok k (d : dmsg) = Printf.sprintf "%s%04x.%d.%x" k (int_of_n d.d_m.m_id) (int_of_n d.d_m.m_serial) (cs d.d_data)

let show (mode : string) (tr : obs list) : string =
  let hb = (mode = "B") in
  let frames = ref [] and rd = ref [] and wr = ref [] in
  Stdlib.List.iter (fun o ->
    match o with
    | ONotSupported d -> rd := tok "N" d :: !rd
    | OReadH d -> if hb then rd := tok "H" d :: !rd
    | OReadE d -> rd := tok "E" d :: !rd
    | OWrite w -> frames := wire_bytes w :: !frames
    | OWriteH (d, data) -> if hb then wr := (tok "H" d ^ Printf.sprintf ".%x" (cs data)) :: !wr
    | OWriteE (d, data) -> wr := (tok "E" d ^ Printf.sprintf ".%x" (cs data)) :: !wr
    | OAbsorb _ -> ()) tr;
  let frames = Stdlib.List.rev !frames and rd = Stdlib.List.rev !rd and wr = Stdlib.List.rev !wr in
  let n = Stdlib.List.length frames in
  let j l = if l = [] then "-" else String.concat "," l in
  if n <= 300 && Stdlib.List.length rd <= 1000 then
    Printf.sprintf "ok n=%d frames=%s rd=%s wr=%s" n (j (Stdlib.List.map hex_of_bytes frames)) (j rd) (j wr)
  else
    let dig l = Stdlib.List.fold_left (fun a s -> (a * 131 + cs (Stdlib.List.init (String.length s) (fun i -> n_of_int (Char.code s.[i])))) land 0xFFFFFFFFFFFF) 1 l in
    Printf.sprintf "ok n=%d framesdig=%x first=%s last=%s rdn=%d rddig=%x wrn=%d wrdig=%x" n
      (dig (Stdlib.List.map hex_of_bytes frames))
      (if n = 0 then "-" else hex_of_bytes (Stdlib.List.hd frames))
      (if n = 0 then "-" else hex_of_bytes (Stdlib.List.nth frames (n - 1)))
      (Stdlib.List.length rd) (dig rd) (Stdlib.List.length wr) (dig wr)

(* run_items for very long conversations (thorough tier: 140 000 frames): the same composition as
   Reply.items_moves / Reply.trace - the extracted [step], [seq_moves], [joins], one move at a time -
   written as a loop, because the extracted recursive [trace] and [items_moves] need one stack frame
   per message *)
let run_items_iter (its : item list) : obs list =
  let msgs = Stdlib.List.concat_map (fun it -> match it with IMsg d -> [d] | ICmd _ -> [] | IAsk (_, _, d) -> [d]) its in
  let c = ref (init msgs) and h = ref None and out = ref [] in
  let apply mv =
    let (c', o) = step !c mv in
    c := c';
    Stdlib.List.iter (fun x -> out := x :: !out) o in
  Stdlib.List.iter (fun it ->
    match it with
    | IMsg d ->
      Stdlib.List.iter apply (seq_moves d);
      (match !h with Some _ -> () | None -> if joins d then h := Some d.d_m)
    | ICmd (cmd, body) ->
      (match !h with Some hh -> apply (MCmd (hh, cmd, body)) | None -> ())
    | IAsk (cmd, body, d) ->
      (match !h with
       | Some hh -> Stdlib.List.iter apply [MCmd (hh, cmd, body); MLook; MSend; MAbsorb]
       | None ->
         Stdlib.List.iter apply (seq_moves d);
         if joins d then h := Some d.d_m)) its;
  Stdlib.List.rev !out

(* conv <A|B> <item> ... : one connection, the items in order
   rtable <id> : the handler table entry *)
let init () =
  register "conv" (fun a -> match a with
    | mode :: toks ->
      (try
         let its = items_of toks in
         if Stdlib.List.length its <= 70000 then show mode (run_items its)
         else show mode (run_items_iter its)
       with Bad s -> "bad-" ^ s)
    | _ -> "bad-args");
  (* the same with the loop evaluation, whatever the length (cross-check of run_items_iter) *)
  register "conviter" (fun a -> match a with
    | mode :: toks ->
      (try show mode (run_items_iter (items_of toks)) with Bad s -> "bad-" ^ s)
    | _ -> "bad-args");
  register "rtable" (fun a -> match a with
    | [id] ->
      (match lookup (n_of_int (int_of_string id)) with
       | None -> "none"
       | Some hi -> Printf.sprintf "reg has=%s rid=%d" (bool_s hi.hi_has) (int_of_n hi.hi_rid))
    | _ -> "bad-args")

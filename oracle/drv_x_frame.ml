(* ops on the frame codec model (Model/Frame.v): decode, encode *)
open Drv_common
open Prelude
open Frame

let show_msg (m : msg) : string =
  Printf.sprintf "ok id=%s len=%s enc=%s frag=%s ver=%s phone=%s serial=%s sum=%s no=%s body=%s check=%s"
    (dec_of_n m.m_id) (dec_of_n m.m_len) (dec_of_n m.m_enc) (dec_of_n m.m_frag) (dec_of_n m.m_ver)
    (string_of_chars (phone_of m)) (dec_of_n m.m_serial) (dec_of_n m.m_sum) (dec_of_n m.m_no)
    (hex_of_bytes m.m_body) (dec_of_n m.m_check)

let show_dec = function
  | Ok m -> show_msg m
  | Err e -> "err " ^ dec_of_n e
  | Panic -> "panic"

let init () =
  register "decode" (fun a -> match a with
    | [h] -> show_dec (decode_chk (bytes_of_hex h))
    | _ -> "bad-args");
  register "encode" (fun a -> match a with
    | [src; rid; ps; body] ->
      (match decode (bytes_of_hex src) with
       | Ok m -> hex_of_bytes (encode m (n_of_int (int_of_string rid)) (n_of_int (int_of_string ps)) (bytes_of_hex body))
       | Err e -> "srcerr " ^ dec_of_n e
       | Panic -> "panic")
    | _ -> "bad-args")

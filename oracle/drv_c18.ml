(* C18 driver: the access-site tables of Model/Race.v (tie (i)).

   site  <func> <type> <field> <r|w>   is this code site annotated: the function's goroutine class and the
                                        field's location class are in the tables AND the model performs such
                                        an access (a read site is also covered by a modelled write)
   call  <caller> <callee>             a static call stays in one goroutine class
   spawn <caller> <callee>             a go statement starts an allowed class
   accs                                the (goroutine class, location class, mode) set of the model *)
open Drv_common
open Race

(* names travel as lists of character codes (Model/Race.v: nm) *)
let codes (s : string) : BinNums.coq_N list =
  Stdlib.List.init (Stdlib.String.length s) (fun i -> n_of_int (Char.code s.[i]))

let gname = function GMain -> "main" | GMgr -> "manager" | GReader -> "reader" | GWriter -> "writer" | GCaller -> "caller" | GTimer -> "timer"
let lname = function XConn -> "conn" | XHandles -> "handles" | XSerial -> "serial" | XRecord -> "record" | XKey -> "key"
  | XBuf -> "buf" | XRegistry -> "registry" | XSessHdr -> "sesshdr" | XMsg -> "msg" | XAct -> "act" | XReply -> "reply" | XFin -> "fin"

let init () =
  register "site" (fun args ->
    match args with
    | [f; ty; fld; rw] when rw = "r" || rw = "w" ->
      if site_ok_n (codes f) (codes ty) (codes fld) (rw = "w") then "modelled" else "NOT-MODELLED"
    | _ -> "bad-request");
  register "call" (fun args ->
    match args with
    | [a; b] -> if call_ok_n (codes a) (codes b) then "ok" else "CROSSES-GOROUTINES"
    | _ -> "bad-request");
  register "spawn" (fun args ->
    match args with
    | [a; b] -> if spawn_ok_n (codes a) (codes b) then "ok" else "UNKNOWN-SPAWN"
    | _ -> "bad-request");
  (* package attachment: one `go conn.run()` per connection, no channel, and one mention of package sync (the
     sync.Once field of BaseJT808DataHandler, a "first header" latch used by the connection's own goroutine):
     nothing is shared between goroutines, so there is nothing to model; any other shape breaks the tie *)
  register "attach-shape" (fun args ->
    if args = ["go=1"; "chan=0"; "sync=1"] then "one-goroutine-per-connection" else "SHAPE-CHANGED: a model of package attachment is due");
  register "racescen" (fun _ -> "n/a: race-detector scenario; the model's statement is C18_race_free");
  register "accs" (fun _ ->
    "ok " ^ Stdlib.String.concat " " (Stdlib.List.sort_uniq compare
      (Stdlib.List.map (fun ((g, x), w) -> gname g ^ ":" ^ lname x ^ ":" ^ (if w then "w" else "r")) model_acc)))

(* C18 driver: tie (i) of C18 - the access sites of the current source against Model/Race.v Parts 4 and 5.

   graph e:<call|spawn|send>:<from>:<to> ... f:<struct>:<field>:<type> ... s:<func>:<type>:<field>:<r|w> ...
                                       the call graph of package service and the declared fields of the statically placed
                                       structs (kept by the driver: its one piece of state)
   site  <func> <type> <field> <r|w>   the goroutine class reaching <func> (roots by the model's table, static calls stay in
                                        the caller's goroutine) is unique and the model performs (class, location of the
                                        field, role) (a read site is also covered by a modelled write)
   spawn <from> <to> | send <from> <to>   a go statement / a closure sent on a channel starts a root the model knows
   cap   <closure> <var> <chan|basic|ref> <type> <r|w> <imm|mut>
                                       a closure that runs in another goroutine captures only channels, values fixed
                                       before it exists, and the hand-overs of the model's table (by type, not by name)
   attach-shape go=.. chan=.. sync=..  package attachment is one goroutine per connection
   accs                                the (goroutine class, location class, mode) set of the model *)
open Drv_common
open Race

(* names travel as lists of character codes (Model/Race.v: nm) *)
let codes (s : string) : BinNums.coq_N list =
  Stdlib.List.init (Stdlib.String.length s) (fun i -> n_of_int (Char.code s.[i]))

let gname = function GMain -> "main" | GMgr -> "manager" | GReader -> "reader" | GWriter -> "writer" | GCaller -> "caller" | GTimer -> "timer"
let lname = function XConn -> "conn" | XHandles -> "handles" | XSerial -> "serial" | XRecord -> "record" | XKey -> "key"
  | XBuf -> "buf" | XRegistry -> "registry" | XSessHdr -> "sesshdr" | XMsg -> "msg" | XAct -> "act" | XReply -> "reply" | XFin -> "fin"

let init () =
  (* package attachment: one `go conn.run()` per connection, no channel, and one mention of package sync (the
     sync.Once field of BaseJT808DataHandler, a "first header" latch used by the connection's own goroutine):
     nothing is shared between goroutines, so there is nothing to model; any other shape breaks the tie *)
  register "attach-shape" (fun args ->
    if args = ["go=1"; "chan=0"; "sync=1"] then "one-goroutine-per-connection" else "SHAPE-CHANGED: a model of package attachment is due");
  (* tie (i) by goroutine class (Model/Race.v Part 5).  The harness sends the call graph first:
       graph e:<call|spawn|send>:<from>:<to> ...
     the driver keeps it (the one piece of state of this oracle) and answers the following short requests with it:
       site <func> <type> <field> <r|w>     spawn <from> <to>     send <from> <to>     cap <closure> <var> <r|w> *)
  let graph : (gedge list * gdecl list * gsite list) option ref = ref None in
  let str l = Stdlib.String.init (Stdlib.List.length l) (fun i -> Char.chr (int_of_n (Stdlib.List.nth l i))) in
  let cls m f = "{" ^ Stdlib.String.concat "," (Stdlib.List.map gname (cm_get f m)) ^ "}" in
  let with_graph k = match !graph with None -> "no graph loaded (the `graph ...` request comes first)" | Some (es, ds, ss) -> k (ds, ss) (classes_of es) in
  register "graph" (fun args ->
    let es = ref [] and ds = ref [] and ss = ref [] in
    Stdlib.List.iter (fun a ->
      match Stdlib.String.split_on_char ':' a with
      | ["e"; k; f; t] ->
        let kind = (match k with "call" -> KCall | "spawn" -> KSpawn | "send" -> KSendLit | _ -> failwith ("edge kind " ^ k)) in
        es := { e_kind = kind; e_from = codes f; e_to = codes t } :: !es
      | ["f"; st; fld; ty] -> ds := { d_struct = codes st; d_field = codes fld; d_type = codes ty } :: !ds
      | ["s"; f; ty; fld; rw] -> ss := { s_fun = codes f; s_type = codes ty; s_field = codes fld; s_write = (rw = "w") } :: !ss
      | _ -> failwith ("bad item " ^ a)) args;
    graph := Some (Stdlib.List.rev !es, Stdlib.List.rev !ds, Stdlib.List.rev !ss); "graph-loaded");
  register "site" (fun args ->
    match args with
    | [f; ty; fld; rw] when rw = "r" || rw = "w" ->
      with_graph (fun (ds, ss) m ->
        let s = { s_fun = codes f; s_type = codes ty; s_field = codes fld; s_write = (rw = "w") } in
        match check_site ds ss m s with
        | [] -> "modelled"
        | PSiteNoClass _ :: _ -> "NOT-MODELLED: the function is reached from no root of the model"
        | PSiteTwoClasses _ :: _ -> "NOT-MODELLED: the function is reached by goroutine classes " ^ cls m s.s_fun
        | PSiteUnknownField _ :: _ -> "NOT-MODELLED: the field has no location in the model (not a known name, and not recognisable as a renamed model field by struct, declared type and usage)"
        | _ -> "NOT-MODELLED: the model has no such access by " ^ cls m s.s_fun)
    | _ -> "bad-request");
  let edge_op kind name = register name (fun args ->
    match args with
    | [a; b] ->
      with_graph (fun _ m ->
        let e = { e_kind = kind; e_from = codes a; e_to = codes b } in
        if check_edge m e = [] then "ok"
        else Printf.sprintf "UNKNOWN: %s is not a root the model knows, or it is started from %s, which the model does not allow" (str e.e_to) (cls m e.e_from))
    | _ -> "bad-request") in
  edge_op KSpawn "spawn"; edge_op KSendLit "send";
  register "cap" (fun args ->
    match args with
    | [f; _var; kind; ty; rw; imm] when (rw = "r" || rw = "w") && (imm = "imm" || imm = "mut") ->
      let k = (match kind with "chan" -> CKChan | "basic" -> CKBasic | _ -> CKRef) in
      with_graph (fun _ m ->
        if check_cap m { c_fun = codes f; c_kind = k; c_type = codes ty; c_write = (rw = "w"); c_imm = (imm = "imm") } = [] then "ok"
        else "NOT-MODELLED: a closure that runs in another goroutine (class " ^ cls m (codes f) ^ ") shares this variable with its creator; not a hand-over the model knows")
    | _ -> "bad-request");
  register "racescen" (fun _ -> "n/a: race-detector scenario; the model's statement is C18_race_free");
  register "accs" (fun _ ->
    "ok " ^ Stdlib.String.concat " " (Stdlib.List.sort_uniq compare
      (Stdlib.List.map (fun ((g, x), w) -> gname g ^ ":" ^ lname x ^ ":" ^ (if w then "w" else "r")) model_acc)))

(* ops on Model/Server.v (C10):
     contain808 <pa> <token>...     contain att <dialect> <token>...
   tokens as in harness/lib/ops_contain.go; connection 0 = the well-behaved session, 99 = accept check *)
open Drv_common
open Prelude
open Server

let n0 = n_of_int 0

let split_tok (t : string) : string * string =
  match String.index_opt t ':' with
  | None -> (t, "")
  | Some i -> (String.sub t 0 i, String.sub t (i + 1) (String.length t - i - 1))

let conn_of (head : string) : int = int_of_string (String.sub head 1 (String.length head - 1))

(* split a byte list that consists of whole frames *)
let rec split_frames (l : BinNums.coq_N list) : BinNums.coq_N list list * bool =
  match l with
  | [] -> ([], true)
  | b :: t when int_of_n b = 0x7e ->
    let rec upto acc = function
      | [] -> None
      | x :: r -> if int_of_n x = 0x7e then Some (Stdlib.List.rev (x :: acc), r) else upto (x :: acc) r in
    (match upto [b] t with
     | None -> ([], false)
     | Some (f, rest) -> let (fs, ok) = split_frames rest in (f :: fs, ok))
  | _ -> ([], false)

let decode_ok f = match Frame.decode f with Ok m -> Some m | _ -> None

let replies808 (bytes : BinNums.coq_N list) : string =
  let (fs, ok) = split_frames bytes in
  let items = Stdlib.List.map (fun f -> match decode_ok f with
      | Some m -> Printf.sprintf "%04x.%s" (int_of_n m.Frame.m_id) (hex_of_bytes m.Frame.m_body)
      | None -> "raw" ^ hex_of_bytes f) fs in
  let items = if ok then items else items @ ["partial"] in
  let items = Stdlib.List.sort compare items in
  if items = [] then "-" else String.concat "," items

let probe_answered (bytes : BinNums.coq_N list) (serial : int) (id : int) : bool =
  let (fs, _) = split_frames bytes in
  Stdlib.List.exists (fun f -> match decode_ok f with
      | Some m when int_of_n m.Frame.m_id = 0x8001 ->
        (match Stdlib.List.map int_of_n m.Frame.m_body with
         | [a; b; c; d; _] -> a * 256 + b = serial && c * 256 + d = id
         | _ -> false)
      | _ -> false) fs

let frame_serial (f : BinNums.coq_N list) : int =
  match decode_ok f with Some m -> int_of_n m.Frame.m_serial | None -> -1

(* generic script runner over a step function *)
let run_script (type s) (step : s -> sev -> s) (init : s) (crashed : s -> bool)
    (seen : int -> s -> BinNums.coq_N list) (shut : int -> s -> bool)
    (saved : int -> s -> (BinNums.coq_N list * BinNums.coq_N list) list)
    (saved_all : s -> (BinNums.coq_N list * BinNums.coq_N list) list) (is808 : bool) (toks : string list) : string =
  let st = ref init in
  let opened = Hashtbl.create 8 in
  let order = ref [] in
  let status = Hashtbl.create 8 in
  let g = ref [] in
  let acc = ref "-" in
  let gseen = ref 0 in
  let clock = ref 0 in
  let verify = ref "" in
  let xcheck = ref "" in
  let ev e = st := step !st e in
  let ensure k =
    if not (Hashtbl.mem opened k) then begin
      Hashtbl.replace opened k (); ev (Connect (n_of_int k));
      if k <> 0 && k <> 99 then (order := !order @ [k]; Hashtbl.replace status k "unobserved")
    end in
  Stdlib.List.iter (fun tok ->
      let (head, hx) = split_tok tok in
      let data = if hx = "" || head.[0] = 'V' || head.[0] = 'X' || head.[0] = 'C' || head.[0] = 'T' then [] else bytes_of_hex hx in
      match head.[0] with
      | 'G' ->
        ensure 0; ev (Data (n_of_int 0, n_of_int !clock, data));
        let all = seen 0 !st in
        let fresh = Stdlib.List.filteri (fun i _ -> i >= !gseen) all in
        g := !g @ [if fresh = [] then "none" else hex_of_bytes fresh];
        gseen := Stdlib.List.length all
      | 'S' -> ensure 0; ev (Data (n_of_int 0, n_of_int !clock, data))
      | 'C' ->
        ensure 0;
        Stdlib.List.iter (fun piece -> ev (Data (n_of_int 0, n_of_int !clock, bytes_of_hex piece))) (String.split_on_char ',' hx)
      | 'X' ->
        (* the last os.WriteFile to this path decides what is on disk *)
        let (ph, ch) = split_tok hx in
        let path = bytes_of_hex ph and content = if ch = "" then [] else bytes_of_hex ch in
        xcheck := !xcheck ^ (match Stdlib.List.find_opt (fun (p, _) -> p = path) (saved_all !st) with
            | Some (_, c) when c = content -> "1"
            | _ -> "0")
      | 'J' ->
        let all = seen 0 !st in
        let fresh = Stdlib.List.filteri (fun i _ -> i >= !gseen) all in
        g := !g @ [if fresh = [] then "none" else hex_of_bytes fresh];
        gseen := Stdlib.List.length all
      | 'V' ->
        (* the well-behaved upload ends; its final event must hand this file to os.WriteFile *)
        let (ph, ch) = split_tok hx in
        let path = bytes_of_hex ph and content = if ch = "" then [] else bytes_of_hex ch in
        ev (Close (n_of_int 0));
        verify := if Stdlib.List.exists (fun (p, c) -> p = path && c = content) (saved 0 !st) then "1" else "0"
      | 'A' ->
        ev (Connect (n_of_int 99)); ev (Data (n_of_int 99, n_of_int !clock, data));
        let r = seen 99 !st in
        acc := (if r = [] then "none" else hex_of_bytes r);
        ev (Close (n_of_int 99))
      | 'W' -> ()
      | 'T' -> clock := !clock + int_of_string hx
      | 'O' -> ensure (conn_of head)
      | 'D' ->
        (* the JT808 reader reads at most 1023 bytes at a time: a longer write is several reads *)
        let k = conn_of head in ensure k;
        let rec feed l =
          if is808 && Stdlib.List.length l > 1023 then begin
            ev (Data (n_of_int k, n_of_int !clock, Stdlib.List.filteri (fun i _ -> i < 1023) l));
            feed (Stdlib.List.filteri (fun i _ -> i >= 1023) l)
          end else ev (Data (n_of_int k, n_of_int !clock, l)) in
        feed data
      | 'F' | 'R' ->
        (* RST: the server's writes fail from now on and its Read fails; FIN: its Read returns EOF *)
        let k = conn_of head in
        if Hashtbl.mem opened k then begin
          if head.[0] = 'R' then ev (WriteErr (n_of_int k));
          ev (Close (n_of_int k)); Hashtbl.replace status k "gone"
        end
      | 'P' | 'Q' | 'U' ->
        (* U = the claim of a key whose owner has just gone (the runner repeats a refused attempt until the release is
           observable): for the model, whose Close is immediate, a probe on a new connection *)
        let k = conn_of head in
        ensure k; ev (Data (n_of_int k, n_of_int !clock, data));
        let r = seen k !st in
        let ser = frame_serial data in
        if is808 then begin
          if shut k !st then Hashtbl.replace status k "closed"
          else if probe_answered r ser 0x0002 then Hashtbl.replace status k ("open:" ^ replies808 r)
          else Hashtbl.replace status k ("quiet:" ^ replies808 r)
        end else begin
          if probe_answered r ser 0x1211 then Hashtbl.replace status k ("open:" ^ hex_of_bytes r)
          else Hashtbl.replace status k ("quiet:" ^ hex_of_bytes r)
        end
      | _ -> ()) toks;
  let alive = not (crashed !st) in
  let buf = Buffer.create 256 in
  Buffer.add_string buf (Printf.sprintf "ok alive=%d g=%s" (if alive then 1 else 0)
                           (if !g = [] then "-" else String.concat "/" !g));
  Stdlib.List.iter (fun k -> Buffer.add_string buf (Printf.sprintf " k%d=%s" k (Hashtbl.find status k))) !order;
  Buffer.add_string buf (" a=" ^ !acc);
  if !verify <> "" then Buffer.add_string buf (" v=" ^ !verify);
  if !xcheck <> "" then Buffer.add_string buf (" x=" ^ !xcheck);
  Buffer.contents buf

(* parse808age f:<hex> | a:<ms> ...  : packageParse.parse with checked indexing (Server.parse_chk) on one parser, the
   clock advanced by a:<ms> (service.VerifParser.Age on the Go side); per read: delivered messages, error flag; panic *)
let parse_age (toks : string list) : string =
  let st = ref Subpkg.pst0 in
  let now = ref 0 in
  let out = ref [] in
  let dead = ref false in
  Stdlib.List.iter (fun tok ->
      if not !dead then begin
        let (head, arg) = split_tok tok in
        match head with
        | "a" -> now := !now + int_of_string arg
        | "f" ->
          (match parse_chk (n_of_int !now) !st (bytes_of_hex arg) with
           | Ok ((st', msgs), err) ->
             st := st';
             out := !out @ [Printf.sprintf "n=%d,e=%d" (Stdlib.List.length msgs) (match err with Some _ -> 1 | None -> 0)]
           | _ -> out := !out @ ["panic"]; dead := true)
        | _ -> ()
      end) toks;
  "ok " ^ String.concat " " !out

let init () =
  register "parse808age" parse_age;
  register "contain808" (fun a -> match a with
    | pa :: toks ->
      let parse_all = (pa = "1") in
      run_script (fun s e -> step808 parse_all s e) init808 (fun s -> s.v_crashed)
        (fun k s -> Stdlib.List.concat_map (fun o -> o.o_bytes) (fst (seen808 (n_of_int k) s)))
        (fun k s -> snd (seen808 (n_of_int k) s)) (fun _ _ -> []) (fun _ -> []) true toks
    | _ -> "bad-args");
  register "containatt" (fun a -> match a with
    | d :: toks ->
      let dn = n_of_int (int_of_string d) in
      run_script (fun s e -> stepatt dn s e) initatt (fun s -> s.a_crashed)
        (fun k s -> bytesatt (n_of_int k) s) (fun _ _ -> false)
        (fun k s -> Stdlib.List.concat_map (fun o -> match o with ASaved (_, files) -> files | _ -> [])
            (seenatt (n_of_int k) s))
        (fun s -> Stdlib.List.concat_map (fun (_, o) -> match o with ASaved (_, files) -> files | _ -> []) s.a_log)
        false toks
    | _ -> "bad-args")

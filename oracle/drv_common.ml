(* Hand-written glue between the text protocol and the extracted model.
   One request per input line: "<op> <arg> <arg> ..."; one answer line per request. *)
open BinNums

let rec pos_of_int (i : int) : positive =
  if i = 1 then Coq_xH
  else if i land 1 = 0 then Coq_xO (pos_of_int (i lsr 1))
  else Coq_xI (pos_of_int (i lsr 1))
let n_of_int (i : int) : coq_N = if i = 0 then N0 else Npos (pos_of_int i)
let rec int_of_pos (p : positive) : int =
  match p with Coq_xH -> 1 | Coq_xO q -> 2 * int_of_pos q | Coq_xI q -> 2 * int_of_pos q + 1
let int_of_n (n : coq_N) : int = match n with N0 -> 0 | Npos p -> int_of_pos p

let rec nat_of_int (i : int) : Datatypes.nat = if i <= 0 then Datatypes.O else Datatypes.S (nat_of_int (i - 1))
let rec int_of_nat (n : Datatypes.nat) : int = match n with Datatypes.O -> 0 | Datatypes.S m -> 1 + int_of_nat m

(* arbitrary-size N <-> lowercase hex without leading zeros ("0" for zero) *)
let hex_of_n (n : coq_N) : string =
  match n with
  | N0 -> "0"
  | Npos p ->
    let rec bits p acc = match p with
      | Coq_xH -> 1 :: acc
      | Coq_xO q -> bits q (0 :: acc)
      | Coq_xI q -> bits q (1 :: acc) in
    (* bits: most significant first *)
    let bl = bits p [] in
    let pad = (4 - (Stdlib.List.length bl mod 4)) mod 4 in
    let bl = Stdlib.List.init pad (fun _ -> 0) @ bl in
    let buf = Buffer.create 16 in
    let rec go = function
      | a :: b :: c :: d :: t -> Buffer.add_char buf "0123456789abcdef".[a*8+b*4+c*2+d]; go t
      | _ -> () in
    go bl; Buffer.contents buf
let n_of_hex (s : string) : coq_N =
  let acc = ref N0 in
  String.iter (fun c ->
    let v = match c with
      | '0'..'9' -> Char.code c - 48 | 'a'..'f' -> Char.code c - 87 | 'A'..'F' -> Char.code c - 55
      | _ -> failwith "hex" in
    acc := BinNat.N.add (BinNat.N.mul !acc (n_of_int 16)) (n_of_int v)) s;
  !acc
let dec_of_n (n : coq_N) : string = string_of_int (int_of_n n)   (* only for values < 2^62 *)

(* byte strings: hex, "-" for the empty string *)
let bytes_of_hex (s : string) : coq_N list =
  if s = "-" then [] else
  let n = String.length s / 2 in
  Stdlib.List.init n (fun i -> n_of_int (int_of_string ("0x" ^ String.sub s (2*i) 2)))
let hex_of_bytes (l : coq_N list) : string =
  if l = [] then "-" else
  let buf = Buffer.create (2 * Stdlib.List.length l) in
  Stdlib.List.iter (fun b -> Buffer.add_string buf (Printf.sprintf "%02x" (int_of_n b))) l;
  Buffer.contents buf
(* a list of character codes as text *)
let string_of_chars (l : coq_N list) : string =
  String.init (Stdlib.List.length l) (fun i -> Char.chr (int_of_n (Stdlib.List.nth l i)))

let handlers : (string, string list -> string) Hashtbl.t = Hashtbl.create 64
let register (op : string) (f : string list -> string) = Hashtbl.replace handlers op f

let bool_s b = if b then "1" else "0"

(* ops on the connection-level parser model (Model/Unpack.v, Model/Subpkg.v): up, sp
   answers mirror harness/lib/ops_stream.go *)
open BinNums
open Drv_common
open Prelude
open Frame
open Unpack
open Subpkg

let show_smsg (raw : coq_N list) (m : msg) (complete : bool) : string =
  Printf.sprintf "%s,%s,%s,%s,%s,%s,%s" (dec_of_n m.m_id) (dec_of_n m.m_serial) (dec_of_n m.m_sum)
    (dec_of_n m.m_no) (if complete then "1" else "0") (hex_of_bytes m.m_body) (hex_of_bytes raw)

let has_prefix (p : string) (s : string) =
  String.length s >= String.length p && String.sub s 0 (String.length p) = p

(* the maximal trailing run of id-0x8003 messages is sorted *)
let canon_msg_list (ms : string list) : string =
  if ms = [] then "-" else begin
    let a = Array.of_list ms in
    let k = ref (Array.length a) in
    while !k > 0 && has_prefix "32771," a.(!k - 1) do decr k done;
    let head = Array.to_list (Array.sub a 0 !k) in
    let tail = Array.to_list (Array.sub a !k (Array.length a - !k)) in
    String.concat ";" (head @ Stdlib.List.sort compare tail)
  end

let show_err = function None -> "0" | Some e -> dec_of_n e

let show_obs (err : coq_N option) (hist : coq_N list) (pending : string) (ms : string list) : string =
  match err with
  | Some e when int_of_n e = 99 -> "panic"
  | _ -> Printf.sprintf "e=%s h=%d p=%s m=%s" (show_err err) (Stdlib.List.length hist) pending (canon_msg_list ms)

let init () =
  register "up" (fun args ->
    let chunks = Stdlib.List.map bytes_of_hex args in
    let tr = trace_unpack [] chunks in
    if tr = [] then "none" else
    (* stop after a panic like the harness does *)
    let rec go = function
      | [] -> []
      | o :: t ->
        let s = show_obs o.u_err o.u_hist "-" (Stdlib.List.map (fun (raw, m) -> show_smsg raw m false) o.u_msgs) in
        if s = "panic" then [s] else s :: go t in
    String.concat " | " (go tr))
  ;
  register "sp" (fun args ->
    let steps = Stdlib.List.map (fun a ->
      let k = String.sub a 0 2 and v = String.sub a 2 (String.length a - 2) in
      if k = "f:" then SFeed (bytes_of_hex v)
      else if k = "a:" then SAge (n_of_int (int_of_string v))
      else failwith "bad step") args in
    let rs = run_script N0 pst0 steps in
    if rs = [] then "none" else
    let rec go = function
      | [] -> []
      | ((st, ms), err) :: t ->
        let pend = if st.ps_x = [] then "-" else
          String.concat "," (Stdlib.List.map (fun (id, n) -> Printf.sprintf "%d:%d" id n)
            (Stdlib.List.sort compare
               (Stdlib.List.map (fun (id, x) -> (int_of_n id, Stdlib.List.length x.x_slots)) st.ps_x))) in
        let s = show_obs err st.ps_hist pend
                  (Stdlib.List.map (fun p -> show_smsg p.p_raw p.p_msg p.p_complete) ms) in
        if s = "panic" then [s] else s :: go t in
    String.concat " | " (go rs))

(* C11 driver: the session registry model (Model/Registry.v).

   regseq <tok> ...      run the schedule from the initial state (disabled operations are skipped, as in
                         Sched.run) and print the observations
   reglin <item> ...     trace validation: is there a linearisation of the recorded manager operations,
                         consistent with real time, that the model explains?
                         item = <tok>@<inv>-<resp>=<obs>[+<obs>...]   (times: integers; obs "-" = none)

   tokens   c | f:<conn>:<key> | ff:<conn>:<key> (the first message is a sub-package fragment: the same join) | b:<conn> | m:<conn> | s:<conn> | sc:<conn> | sr:<conn> | w:<key>
            (s, sc, sr: the connection ends by FIN, close, RST - one and the same model operation Stop)
   obs      j:<conn>:<key>:<e> | l:<conn>:<key> | r:<caller>:<conn> | n:<caller>
            (in reglin the caller of r/n is written * and not compared: caller numbers depend on the order;
             r:*:* = handed to SOME connection (it ended before its terminal read the command);
             the expectation "x" accepts whatever the model observes, the operation must only be enabled)

   The search is a depth-first search over the orders that respect real time (an operation may come next
   iff no other remaining operation returned before it was invoked); every candidate order is executed by
   the extracted Registry.step.  (set of remaining operations, model state) pairs that failed are
   remembered, so the search is linear in the number of distinct such pairs. *)
open Drv_common
open Registry

let choice_of_tok (t : string) : choice =
  match String.split_on_char ':' t with
  | ["c"] -> Connect
  | [("f" | "ff"); c; k] -> FirstMsg (nat_of_int (int_of_string c), n_of_int (int_of_string k))
  | ["b"; c] -> BadKeyMsg (nat_of_int (int_of_string c))
  | ["m"; c] -> Msg (nat_of_int (int_of_string c))
  | [("s" | "sc" | "sr"); c] -> Stop (nat_of_int (int_of_string c))
  | ["w"; k] -> Send (n_of_int (int_of_string k))
  | _ -> failwith ("bad token " ^ t)

let tok_of_obs ?(anon = false) (o : obs) : string =
  match o with
  | OJoin (c, k, e) -> Printf.sprintf "j:%d:%s:%s" (int_of_nat c) (dec_of_n k) (dec_of_n e)
  | OLeave (c, k) -> Printf.sprintf "l:%d:%s" (int_of_nat c) (dec_of_n k)
  | ORouted (i, c) -> if anon then Printf.sprintf "r:*:%d" (int_of_nat c) else Printf.sprintf "r:%s:%d" (dec_of_n i) (int_of_nat c)
  | ONotExist i -> if anon then "n:*" else Printf.sprintf "n:%s" (dec_of_n i)

let show_obs ?(anon = false) (l : obs list) : string =
  if l = [] then "-" else String.concat "+" (Stdlib.List.map (tok_of_obs ~anon) l)

type item = { ch : choice; inv : int; resp : int; expect : string }

let parse_item (s : string) : item =
  (* <tok>@<inv>-<resp>=<obs> *)
  let at = String.index s '@' in
  let eq = String.index s '=' in
  let tok = String.sub s 0 at in
  let times = String.sub s (at + 1) (eq - at - 1) in
  let dash = String.index times '-' in
  { ch = choice_of_tok tok;
    inv = int_of_string (String.sub times 0 dash);
    resp = int_of_string (String.sub times (dash + 1) (String.length times - dash - 1));
    expect = String.sub s (eq + 1) (String.length s - eq - 1) }

exception Budget

let matches (expect : string) (o : obs list) : bool =
  expect = "x" || show_obs ~anon:true o = expect ||
  (expect = "r:*:*" && (match o with [ORouted _] -> true | _ -> false))

let linearisable (items : item array) : bool =
  let n = Array.length items in
  if n > 60 then failwith "history too long";
  let used = Array.make n false in
  let budget = ref 3_000_000 in
  let failed : (int * st, unit) Hashtbl.t = Hashtbl.create 1024 in
  let mask () = let m = ref 0 in Array.iteri (fun i u -> if u then m := !m lor (1 lsl i)) used; !m in
  let rec go (s : st) (left : int) : bool =
    if left = 0 then true else
    let key = (mask (), s) in
    if Hashtbl.mem failed key then false else begin
      decr budget; if !budget < 0 then raise Budget;
      (* an operation may come next iff no other remaining operation returned before it was invoked *)
      let minresp = ref max_int in
      for i = 0 to n - 1 do if not used.(i) && items.(i).resp < !minresp then minresp := items.(i).resp done;
      let found = ref false in
      let i = ref 0 in
      while not !found && !i < n do
        let it = items.(!i) in
        if not used.(!i) && it.inv <= !minresp then begin
          match step s it.ch with
          | Some (s', o) when matches it.expect o ->
            used.(!i) <- true;
            if go s' (left - 1) then found := true;
            used.(!i) <- false
          | _ -> ()
        end;
        incr i
      done;
      if not !found then Hashtbl.replace failed key ();
      !found
    end in
  go init n

let init () =
  register "regseq" (fun args ->
    let sched = Stdlib.List.map choice_of_tok args in
    let (_, o) = run_reg Registry.init sched in
    "ok" ^ String.concat "" (Stdlib.List.map (fun x -> " " ^ tok_of_obs x) o));
  (* replay-only forms of the harness (seeds of adaptive / concurrent runs): the model is asked the recorded
     script (regseq) resp. history (reglin), which the implementation prints *)
  register "regconc" (fun _ -> "n/a: the model is asked the recorded history (reglin ...)");
  register "regadapt" (fun _ -> "n/a: the model is asked the generated script (regseq ...)");
  register "reglin" (fun args ->
    let items = Array.of_list (Stdlib.List.map parse_item args) in
    try if linearisable items then "lin ok" else "lin none" with Budget -> "lin budget")

(* C11 driver: the session registry model (Model/Registry.v).

   regseq <tok> ...      run the schedule from the initial state (disabled operations are skipped, as in
                         Sched.run) and print the observations
   reglin <item> ...     trace validation: is there a linearisation of the recorded manager operations,
                         consistent with real time, that the model explains?
                         item = <tok>@<inv>-<resp>=<obs>[+<obs>...]   (times: integers; obs "-" = none)

   tokens   c | f:<conn>:<key> | b:<conn> | m:<conn> | s:<conn> | w:<key>
   obs      j:<conn>:<key>:<e> | l:<conn>:<key> | r:<caller>:<conn> | n:<caller>
            (in reglin the caller of r/n is written * and not compared: caller numbers depend on the order;
             the expectation "x" accepts whatever the model observes, the operation must only be enabled) *)
open Drv_common
open Registry

let choice_of_tok (t : string) : choice =
  match String.split_on_char ':' t with
  | ["c"] -> Connect
  | ["f"; c; k] -> FirstMsg (nat_of_int (int_of_string c), n_of_int (int_of_string k))
  | ["b"; c] -> BadKeyMsg (nat_of_int (int_of_string c))
  | ["m"; c] -> Msg (nat_of_int (int_of_string c))
  | ["s"; c] -> Stop (nat_of_int (int_of_string c))
  | ["w"; k] -> Send (n_of_int (int_of_string k))
  | _ -> failwith ("bad token " ^ t)

let tok_of_obs ?(anon = false) (o : obs) : string =
  match o with
  | OJoin (c, k, e) -> Printf.sprintf "j:%d:%s:%s" (int_of_nat c) (dec_of_n k) (dec_of_n e)
  | OLeave (c, k) -> Printf.sprintf "l:%d:%s" (int_of_nat c) (dec_of_n k)
  | ORouted (i, c) -> if anon then Printf.sprintf "r:*:%d" (int_of_nat c) else Printf.sprintf "r:%s:%d" (dec_of_n i) (int_of_nat c)
  | ONotExist i -> if anon then "n:*" else Printf.sprintf "n:%s" (dec_of_n i)

let show_obs ?(anon = false) (l : obs list) : string =
  if l = [] then "-" else String.concat "+" (Stdlib.List.map (tok_of_obs ~anon) l)

type item = { ch : choice; inv : int; resp : int; expect : string }

let parse_item (s : string) : item =
  (* <tok>@<inv>-<resp>=<obs> *)
  let at = String.index s '@' in
  let eq = String.index s '=' in
  let tok = String.sub s 0 at in
  let times = String.sub s (at + 1) (eq - at - 1) in
  let dash = String.index times '-' in
  { ch = choice_of_tok tok;
    inv = int_of_string (String.sub times 0 dash);
    resp = int_of_string (String.sub times (dash + 1) (String.length times - dash - 1));
    expect = String.sub s (eq + 1) (String.length s - eq - 1) }

exception Budget

let linearisable (items : item array) : bool =
  let n = Array.length items in
  let used = Array.make n false in
  let budget = ref 3_000_000 in
  let rec go (s : st) (left : int) : bool =
    if left = 0 then true else begin
      decr budget; if !budget < 0 then raise Budget;
      (* an operation may come next iff no other remaining operation returned before it was invoked *)
      let minresp = ref max_int in
      for i = 0 to n - 1 do if not used.(i) && items.(i).resp < !minresp then minresp := items.(i).resp done;
      let found = ref false in
      let i = ref 0 in
      while not !found && !i < n do
        let it = items.(!i) in
        if not used.(!i) && it.inv <= !minresp then begin
          match step s it.ch with
          | Some (s', o) when it.expect = "x" || show_obs ~anon:true o = it.expect ->
            used.(!i) <- true;
            if go s' (left - 1) then found := true;
            used.(!i) <- false
          | _ -> ()
        end;
        incr i
      done;
      !found
    end in
  go init n

let init () =
  register "regseq" (fun args ->
    let sched = Stdlib.List.map choice_of_tok args in
    let (_, o) = run_reg Registry.init sched in
    "ok" ^ String.concat "" (Stdlib.List.map (fun x -> " " ^ tok_of_obs x) o));
  register "reglin" (fun args ->
    let items = Array.of_list (Stdlib.List.map parse_item args) in
    try if linearisable items then "lin ok" else "lin none" with Budget -> "lin budget")

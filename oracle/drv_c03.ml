(* Oracle side of the C03 ops (harness/lib/c03_types.go): the extracted models of
   Model/Total_msgs.v (message bodies) and Model/Total_codec.v (frames / RTP packets on reused
   receivers), printed in the canonical form of lib.C03Dump / lib.CanonMsg / lib.C03RtpSeq. *)
open BinNums
open Drv_common
open Prelude
open Total_base
open Total_msgs
open Total_codec
open Total_cap
open Total_cap2
open Total_unesc
open Total_emb

(* ---- values ---- *)
let hex_plain (l : coq_N list) : string =
  let buf = Buffer.create (2 * Stdlib.List.length l) in
  Stdlib.List.iter (fun b -> Buffer.add_string buf (Printf.sprintf "%02x" (int_of_n b))) l;
  Buffer.contents buf

let rec dump_val (v : coq_val) : string =
  match v with
  | VN n -> hex_of_n n
  | VS s -> if Stdlib.List.exists (fun b -> int_of_n b > 255) s then "?" else "x" ^ hex_plain s
  | VL l -> "(" ^ String.concat "," (Stdlib.List.map dump_val l) ^ ")"

(* "T0x0100" / "P0x8001" -> the message id *)
let id_of_name (s : string) : coq_N = n_of_hex (String.sub s 3 (String.length s - 3))

(* the external GBK codec: the identity on ASCII bodies; on other bodies the converted members are
   masked on both sides (the sentinel 999 is printed as "?") *)
let gbk_for (body : coq_N list) : coq_N list -> coq_N list =
  if Stdlib.List.exists (fun b -> int_of_n b >= 128) body then (fun _ -> [n_of_int 999]) else (fun x -> x)

let answer (id : coq_N) (res : coq_val result) : string =
  match res with
  | Ok v ->
    (match render_msg id (fun x -> x) v with
     | Panic -> "strpanic " ^ dump_val v
     | _ -> "ok " ^ dump_val v)
  | Err e -> "err " ^ dec_of_n e
  | Panic -> "panic"

(* c03s: String() is not run *)
let answer_nostr (res : coq_val result) : string =
  match res with
  | Ok v -> "ok " ^ dump_val v
  | Err e -> "err " ^ dec_of_n e
  | Panic -> "panic"

let fresh : coq_val = VL []

(* ---- frames ---- *)
let show_msg (m : Frame.msg) : string =
  let open Frame in
  Printf.sprintf "ok id=%s len=%s enc=%s frag=%s ver=%s phone=%s serial=%s sum=%s no=%s body=%s check=%s"
    (dec_of_n m.m_id) (dec_of_n m.m_len) (dec_of_n m.m_enc) (dec_of_n m.m_frag) (dec_of_n m.m_ver)
    (string_of_chars (phone_of m)) (dec_of_n m.m_serial) (dec_of_n m.m_sum) (dec_of_n m.m_no)
    (hex_of_bytes m.m_body) (dec_of_n m.m_check)

let show_pkt (p : Jt1078.pkt) : string =
  let open Jt1078 in
  Printf.sprintf "v=%s p=%s x=%s cc=%s m=%s pt=%s seq=%s sim=%s ch=%s dt=%s sub=%s ts=%s ifi=%s fi=%s blen=%s body=%s"
    (dec_of_n p.k_v) (dec_of_n p.k_p) (dec_of_n p.k_x) (dec_of_n p.k_cc) (dec_of_n p.k_m) (dec_of_n p.k_pt)
    (dec_of_n p.k_seq) (string_of_chars (bcd2dec p.k_sim)) (dec_of_n p.k_chan) (dec_of_n p.k_dt)
    (dec_of_n p.k_sub) (hex_of_n p.k_ts) (dec_of_n p.k_ifi) (dec_of_n p.k_fi) (dec_of_n p.k_blen)
    (hex_of_bytes p.k_body)

let split_ver (x : string) : coq_N * coq_N list =
  let i = String.index x ':' in
  (n_of_int (int_of_string (String.sub x 0 i)), bytes_of_hex (String.sub x (i + 1) (String.length x - i - 1)))

let init () =
  (* c03p <T> <ver> <dialect> <hex> *)
  register "c03p" (fun a -> match a with
    | [t; ver; d; h] ->
      let id = id_of_name t and body = bytes_of_hex h in
      answer id (parse_msg id (gbk_for body) (n_of_int (int_of_string ver)) (n_of_int (int_of_string d)) fresh body)
    | _ -> "bad-args");
  (* c03t <T> <ver> <dialect> <hex> <tailhex> : the spare-capacity decoders of Model/Total_cap.v with the very tail
     the implementation had behind the slice (String() is not run) *)
  register "c03t" (fun a -> match a with
    | [t; ver; d; h; tl] ->
      let id = id_of_name t and body = bytes_of_hex h in
      answer_nostr (parse_msg_cap id (gbk_for body) (n_of_int (int_of_string ver)) (n_of_int (int_of_string d)) fresh body
                      (bytes_of_hex tl))
    | _ -> "bad-args");
  (* c03s <T> <dialect> <ver1>:<hex1> ... : one receiver; a parse that fails leaves the model's receiver as it was
     (the theorems quantify over every receiver, so what a failing Go Parse did to it cannot matter) *)
  register "c03s" (fun a -> match a with
    | t :: d :: rest ->
      let id = id_of_name t and d = n_of_int (int_of_string d) in
      let r = ref fresh and last = ref "none" in
      Stdlib.List.iter (fun x ->
        let (ver, body) = split_ver x in
        let res = parse_msg id (gbk_for body) ver d !r body in
        (match res with Ok v -> r := v | _ -> ());
        last := answer_nostr res) rest;
      !last
    | _ -> "bad-args");
  (* c03fseq <frame1> ... <frameN> : one JTMessage; the model takes no receiver (Total_codec.frame_decode) and runs
     the index-level decoder Total_unesc.frame_decode_chk (unescape walk with idx / slice, then the header) *)
  register "c03fseq" (fun a ->
    let r = ref Frame.empty_msg and last = ref "none" in
    Stdlib.List.iter (fun h ->
      let res = frame_decode_chk (bytes_of_hex h) in
      (match res with Ok m -> r := m | _ -> ());
      last := (match res with Ok m -> show_msg m | Err e -> "err " ^ dec_of_n e | Panic -> "panic")) a;
    !last);
  (* spare-capacity models of Model/Total_cap2.v with the very tail the implementation had behind the slice.
     c03ft: on the fast path the unescaped buffer is data[1:len-1]: its spare capacity is the closing delimiter
     followed by the tail (on the slow path it is a bytes.Buffer's array; the model's answer does not depend on it) *)
  register "c03ft" (fun a -> match a with
    | [h; tl] ->
      (match frame_cap (bytes_of_hex h) (bytes_of_hex tl) (n_of_int 126 :: bytes_of_hex tl) with
       | Ok m -> show_msg m | Err e -> "err " ^ dec_of_n e | Panic -> "panic")
    | _ -> "bad-args");
  register "c03rt" (fun a -> match a with
    | [h; tl] ->
      (match rtp_decode_cap Jt1078.fresh_pkt (bytes_of_hex h) (bytes_of_hex tl) with
       | Ok (p, rest) -> "ok " ^ show_pkt p ^ " rest=" ^ hex_of_bytes rest
       | Err e -> "err " ^ dec_of_n e | Panic -> "panic")
    | _ -> "bad-args");
  register "c03lt" (fun a -> match a with
    | [k; h; tl] ->
      let b = bytes_of_hex h and t = bytes_of_hex tl in
      (match k with
       | "0200" -> Drv_c08.res_s Drv_c08.dump0200 (t0200_cap Location.fresh_0200 b t)
       | "0704" -> Drv_c08.res_s Drv_c08.dump0704 (t0704_cap Location.fresh_0704 b t)
       | "0801" -> Drv_c08.res_s Drv_c08.dump0801 (t0801_cap Location.fresh_0801 b t)
       | _ -> "bad-kind")
    | _ -> "bad-args");
  register "c03et" (fun a -> match a with
    | [k; d; id; c; tl] ->
      Drv_c08.ext_res (ext_cap (Drv_c08.kind_of k) (LocationExt.fresh_ext (n_of_int (int_of_string d)))
                         (n_of_int (int_of_string id)) (bytes_of_hex c) (bytes_of_hex tl))
    | _ -> "bad-args");
  (* extemb <kind> <dialect> <body> <tail> : T0x0200.Parse with the extension handler installed through
     CustomAdditionContentFunc (Model/Total_emb.v) *)
  register "extemb" (fun a -> match a with
    | [k; d; h; tl] ->
      let e0 = LocationExt.fresh_ext (n_of_int (int_of_string d)) in
      (match t0200_emb (Drv_c08.kind_of k) e0 (bytes_of_hex h) (bytes_of_hex tl) with
       | Ok ((l, items), e) ->
         let items = Stdlib.List.sort (fun x y -> compare (int_of_n x.ei_add.Location.a_id) (int_of_n y.ei_add.Location.a_id)) items in
         let adds = "adds=[" ^ String.concat ";" (Stdlib.List.map (fun it ->
             let ad = it.ei_add in
             Printf.sprintf "%s/%s:%s:%s:%s" (dec_of_n ad.Location.a_id) (dec_of_n ad.Location.a_id) (dec_of_n ad.Location.a_len)
               (hex_of_bytes ad.Location.a_data) (if it.ei_custom then "custom" else Drv_c08.val_dump ad.Location.a_val)) items) ^ "]" in
         (match Location.loc_render l with
          | Ok rt ->
            "ok " ^ Drv_c08.loc_dump l ^ " " ^ adds ^ " rt=" ^ hex_of_bytes rt ^ " handler: "
            ^ (if Stdlib.List.exists (fun it -> it.ei_custom) items then Drv_c08.ext_dump e else "-")
          | _ -> "panic")
       | Err e -> "err " ^ dec_of_n e
       | Panic -> "panic")
    | _ -> "bad-args");
  (* c03rtp <hex> | c03rseq <hex1> ... <hexN> : one Packet *)
  let rtp_seq a =
    let r = ref Jt1078.fresh_pkt and last = ref "none" in
    Stdlib.List.iter (fun h ->
      let res = rtp_decode !r (bytes_of_hex h) in
      (match res with Ok (p, _) -> r := p | _ -> ());
      last := (match res with
        | Ok (p, rest) -> "ok " ^ show_pkt p ^ " rest=" ^ hex_of_bytes rest
        | Err e -> "err " ^ dec_of_n e
        | Panic -> "panic")) a;
    !last in
  register "c03rtp" rtp_seq;
  register "c03rseq" rtp_seq

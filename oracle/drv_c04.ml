(* C04, reader level: op rd <hexchunk>... -> the dispatch events of Model/Unpack.reader_run *)
open Drv_common
open Prelude
open Frame
open Unpack

let show_ev = function
  | RExec (_, m) -> Printf.sprintf "E:%s,%s,%s" (dec_of_n m.m_id) (dec_of_n m.m_serial) (hex_of_bytes m.m_body)
  | RUnsupported (_, m) -> Printf.sprintf "N:%s,%s,%s" (dec_of_n m.m_id) (dec_of_n m.m_serial) (hex_of_bytes m.m_body)
  | RReissue (_, m) -> Printf.sprintf "R:%s,%s,%s" (dec_of_n m.m_id) (dec_of_n m.m_serial) (hex_of_bytes m.m_body)

let init () =
  register "rd" (fun args ->
    let chunks = Stdlib.List.map bytes_of_hex args in
    let (evs, _) = reader_run registered_ids [] chunks [] in
    (* a 0x8003 from the terminal goes to the re-request channel: no reader callback is observable for it *)
    let evs = Stdlib.List.filter (function RReissue _ -> false | _ -> true) evs in
    if evs = [] then "ok -" else "ok " ^ String.concat ";" (Stdlib.List.map show_ev evs))

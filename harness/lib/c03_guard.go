package lib

// C03 — watchdog for the implementation runner.  "Terminates promptly" is part of the property and a decoder whose
// cursor stops advancing (e.g. a width wrap in `index += int(5 + paramLen)`) never returns: every call of the real
// code goes through C03Call, which runs it on a worker goroutine and waits with a deadline.  A call that misses the
// first deadline (2 s) is given a second, long one (so that a stalled machine is not reported as a hang); a call that
// misses both is abandoned (the goroutine keeps spinning until the process exits; a fresh worker takes over) and
// reported as "hang".  A call that needed more than the first deadline but did return is re-run once: only when the
// second run is slow as well is it reported as slow.

import (
	"strings"
	"time"
)

const (
	C03Deadline     = 2 * time.Second
	C03LongDeadline = 10 * time.Second
)

type c03worker struct {
	req chan func() string
	res chan string
}

var (
	c03w     *c03worker
	c03timer = time.NewTimer(time.Hour)
	// C03Abandoned: how many worker goroutines were left behind in a call that never returned
	C03Abandoned int
)

func c03spawn() *c03worker {
	w := &c03worker{req: make(chan func() string), res: make(chan string, 1)}
	go func() {
		for f := range w.req {
			w.res <- c03protect(f)
		}
	}()
	return w
}

func c03protect(f func() string) (ans string) {
	defer func() {
		if r := recover(); r != nil {
			ans = "panic"
		}
	}()
	return f()
}

// C03Call runs f with the watchdog.  outcome: "" (returned in time), "slow" (returned, but twice later than the
// first deadline), "hang" (did not return; ans = "hang").  Not re-entrant: f must not call C03Call (the harness is
// single-threaded; direct calls of the real code are wrapped in cmd/C03, calls through RunOp by C03GuardOps).
func C03Call(f func() string) (ans string, outcome string) {
	ans, late, hung := c03run(f)
	if hung {
		return "hang", "hang"
	}
	if late {
		if _, late2, hung2 := c03run(f); hung2 {
			return "hang", "hang"
		} else if late2 {
			return ans, "slow"
		}
	}
	return ans, ""
}

func c03run(f func() string) (ans string, late, hung bool) {
	if c03w == nil {
		c03w = c03spawn()
	}
	w := c03w
	w.req <- f
	c03timer.Reset(C03Deadline)
	select {
	case ans = <-w.res:
		c03timer.Stop()
		return ans, false, false
	case <-c03timer.C:
	}
	c03timer.Reset(C03LongDeadline)
	select {
	case ans = <-w.res:
		c03timer.Stop()
		return ans, true, false
	case <-c03timer.C:
	}
	c03w = nil // abandon the worker: it is inside a call that does not return
	C03Abandoned++
	return "hang", true, true
}

// C03SlowOps: the requests that went through a guarded op and were late twice (drained by cmd/C03, which turns
// each into the violation C03/slow/<decoder>)
var C03SlowOps []string

// C03GuardOps wraps every registered op in the watchdog, so that replaying a request that hangs prints "hang"
// instead of hanging the replay, and a request that is late twice is recorded in C03SlowOps.
// Called by cmd/C03 before Main (all init functions have registered their ops).
func C03GuardOps() {
	for name, f := range implOps {
		op, nm := f, name
		implOps[name] = func(a []string) string {
			ans, outcome := C03Call(func() string { return op(a) })
			if outcome == "slow" && len(C03SlowOps) < 50 {
				C03SlowOps = append(C03SlowOps, nm+" "+strings.Join(a, " "))
			}
			return ans
		}
	}
}

package lib

// Socket-level runs for the stream properties (C05, C14, C09): a real service.New server in its
// default configuration, run in a CHILD process (the harness binary re-executed with
// VERIFH_SOCK_CHILD=1) so that a crash of the server is an observation, not the end of the check.
// The child installs only a recording TerminalEventer; it prints one line per callback on its
// stdout and keeps every delivered *Message: before every later callback and after the connection
// has closed (after connection.reader's deferred clear) it renders the same Message again and
// reports those whose content differs from what it was at delivery (C09).
//
//	sk <step> <step> ...     one fresh connection;  step =
//	    w:<hex>   one conn.Write (TCP_NODELAY) followed by a short pause, so that it is one Read
//	    y:<hex>   the same for a frame the server answers with 0x8001 (e.g. a heartbeat): waits until
//	              the answer echoing its serial and id has arrived (everything before it is processed)
//	    s:<ms>    sleep (real time; thorough tier of C14)
//
// Answer: ok rd=<msg;...> wr=<msg/platformdata;...> ns=<msg;...> ch=<which@when=msg;...> fr=<hex,...>
// (rd: OnReadExecutionEvent, wr: OnWriteExecutionEvent, ns: OnNotSupportedEvent, ch: delivered
// messages seen changed, fr: frames received by the terminal), or "crash" when the server died.
// msg = id,serial,sum,no,complete,body-hex,terminaldata-hex,phone

import (
	"bufio"
	"bytes"
	"fmt"
	"io"
	"log/slog"
	"net"
	"os"
	"os/exec"
	"strings"
	"sync"
	"sync/atomic"
	"time"

	"github.com/cuteLittleDevil/go-jt808/service"
)

// ---------------------------------------------------------------- child

type skOut struct {
	mu sync.Mutex
	w  *bufio.Writer
}

func (o *skOut) line(format string, a ...any) {
	o.mu.Lock()
	fmt.Fprintf(o.w, format+"\n", a...)
	o.w.Flush()
	o.mu.Unlock()
}

// skWide: mode 3 of the child renders, after the phone string, every other exported header field too
// (property word, protocol version, reply id, platform serial): used to see WHAT the writer's reply
// encoding changes in a delivered message (Header.Encode assigns them by design)
var skWide bool

func skCanon(m *service.Message) string {
	s := canonStreamMsg(m)
	if s == "nil" {
		return s
	}
	s += "," + m.JTMessage.Header.TerminalPhoneNo
	if skWide {
		h := m.JTMessage.Header
		s += fmt.Sprintf("|ver=%d.frag=%d.enc=%d.blen=%d.pv=%d.rid=%d.ps=%d", h.Property.Version, h.Property.PacketFragmented,
			h.Property.EncryptMethod, h.Property.BodyDayaLen, h.ProtocolVersion, h.ReplyID, h.PlatformSerialNumber)
	}
	return s
}

type skEventer struct {
	n    int64
	out  *skOut
	slow int // 1: the write callback (writer goroutine) dawdles, 2: the read callback (reader goroutine) dawdles

	mu       sync.Mutex
	reads    []*service.Message
	rsnap    []string
	rlast    []string
	writes   []service.Message
	wsnap    []string
	wlast    []string
	nev      int
	leftOnce sync.Once
}

// recheck renders every delivered message again and reports the ones that differ from their
// snapshot at delivery (once per new content).  Caller holds e.mu.
func (e *skEventer) recheck(when string) {
	for i, m := range e.reads {
		if cur := skCanon(m); cur != e.rlast[i] {
			e.rlast[i] = cur
			e.out.line("X %d r%d %s %s", e.n, i, when, cur)
		}
	}
	for i := range e.writes {
		if cur := skCanon(&e.writes[i]) + "/" + Hx(e.writes[i].ExtensionFields.PlatformData); cur != e.wlast[i] {
			e.wlast[i] = cur
			e.out.line("X %d w%d %s %s", e.n, i, when, cur)
		}
	}
}

func (e *skEventer) OnJoinEvent(_ *service.Message, key string, err error) {
	k := key
	if k == "" {
		k = "-"
	}
	e.out.line("J %d %s %v", e.n, k, err == nil)
}

func (e *skEventer) OnLeaveEvent(_ string) {
	e.out.line("L %d", e.n)
	e.leftOnce.Do(func() {
		go func() {
			// connection.reader clears its read buffer and the parser right after stop() returns
			time.Sleep(8 * time.Millisecond)
			e.mu.Lock()
			e.recheck("close")
			e.mu.Unlock()
			e.out.line("D %d", e.n)
		}()
	})
}

func (e *skEventer) OnNotSupportedEvent(m *service.Message) {
	e.mu.Lock()
	defer e.mu.Unlock()
	e.recheck(fmt.Sprintf("ev%d", e.nev))
	e.nev++
	s := skCanon(m)
	e.reads = append(e.reads, m) // kept and re-rendered like the executed ones
	e.rsnap = append(e.rsnap, s)
	e.rlast = append(e.rlast, s)
	e.out.line("N %d %s", e.n, s)
}

func (e *skEventer) OnReadExecutionEvent(m *service.Message) {
	if e.slow == 2 {
		time.Sleep(1500 * time.Microsecond)
	}
	e.mu.Lock()
	defer e.mu.Unlock()
	e.recheck(fmt.Sprintf("ev%d", e.nev))
	e.nev++
	s := skCanon(m)
	e.reads = append(e.reads, m)
	e.rsnap = append(e.rsnap, s)
	e.rlast = append(e.rlast, s)
	e.out.line("R %d %d %s", e.n, len(e.reads)-1, s)
}

func (e *skEventer) OnWriteExecutionEvent(m service.Message) {
	if e.slow == 1 {
		time.Sleep(1500 * time.Microsecond) // the reader goes on receiving while this message is still in use
	}
	e.mu.Lock()
	defer e.mu.Unlock()
	e.recheck(fmt.Sprintf("ev%d", e.nev))
	e.nev++
	s := skCanon(&m) + "/" + Hx(m.ExtensionFields.PlatformData)
	e.writes = append(e.writes, m)
	e.wsnap = append(e.wsnap, s)
	e.wlast = append(e.wlast, s)
	e.out.line("W %d %d %s", e.n, len(e.writes)-1, s)
}

func skFreeAddr() string {
	l, err := net.Listen("tcp", "127.0.0.1:0")
	if err != nil {
		panic(err)
	}
	a := l.Addr().String()
	l.Close()
	return a
}

// SockServeIfChild must be the first statement of main() of a harness that uses the "sk" op.
func SockServeIfChild() {
	if os.Getenv("VERIFH_SOCK_CHILD") != "1" {
		return
	}
	out := &skOut{w: bufio.NewWriter(os.Stdout)}
	if dn, err := os.OpenFile(os.DevNull, os.O_WRONLY, 0); err == nil {
		os.Stdout = dn
		slog.SetDefault(slog.New(slog.NewTextHandler(dn, &slog.HandlerOptions{Level: slog.Level(100)})))
	}
	addr := skFreeAddr()
	var n int64
	slow := atoi("0" + os.Getenv("VERIFH_SOCK_SLOW"))
	opts := []service.Option{service.WithHostPorts(addr)}
	if slow == 3 { // sub-package filtering off (every packet reaches the callbacks and is answered), wide rendering
		skWide = true
		opts = append(opts, service.WithHasSubcontract(false))
	}
	g := service.New(append(opts,
		service.WithCustomTerminalEventer(func() service.TerminalEventer {
			e := &skEventer{n: atomic.AddInt64(&n, 1), out: out, slow: slow}
			out.line("O %d", e.n)
			return e
		}))...)
	go g.Run()
	out.line("A %s", addr)
	io.Copy(io.Discard, os.Stdin) // lives as long as the parent keeps the pipe open
	os.Exit(0)
}

// ---------------------------------------------------------------- parent

type skServer struct {
	cmd    *exec.Cmd
	stdin  io.WriteCloser
	addr   string
	mu     sync.Mutex
	lines  []string
	dead   bool
	stderr bytes.Buffer
}

var (
	skSrvMu sync.Mutex
	skSrvs  = map[int]*skServer{}
)

func (s *skServer) snapshot() ([]string, bool) {
	s.mu.Lock()
	defer s.mu.Unlock()
	return append([]string{}, s.lines...), s.dead
}

func skWait(d time.Duration, pred func() bool) bool {
	deadline := time.Now().Add(d)
	for i := 0; ; i++ {
		if pred() {
			return true
		}
		if time.Now().After(deadline) {
			return false
		}
		if i < 100 {
			time.Sleep(50 * time.Microsecond)
		} else {
			time.Sleep(500 * time.Microsecond)
		}
	}
}

func skStart(mode int) *skServer {
	exe, err := os.Executable()
	if err != nil {
		panic(err)
	}
	for attempt := 0; attempt < 10; attempt++ {
		s := &skServer{}
		s.cmd = exec.Command(exe)
		s.cmd.Env = append(os.Environ(), "VERIFH_SOCK_CHILD=1", fmt.Sprintf("VERIFH_SOCK_SLOW=%d", mode))
		s.cmd.Stderr = &s.stderr
		s.stdin, _ = s.cmd.StdinPipe()
		so, _ := s.cmd.StdoutPipe()
		if err := s.cmd.Start(); err != nil {
			panic(err)
		}
		go func() {
			sc := bufio.NewScanner(so)
			sc.Buffer(make([]byte, 1<<20), 1<<26)
			for sc.Scan() {
				s.mu.Lock()
				s.lines = append(s.lines, sc.Text())
				s.mu.Unlock()
			}
			s.cmd.Wait()
			s.mu.Lock()
			s.dead = true
			s.mu.Unlock()
		}()
		ok := skWait(5*time.Second, func() bool {
			ls, dead := s.snapshot()
			if dead {
				return true
			}
			for _, l := range ls {
				if strings.HasPrefix(l, "A ") {
					s.addr = l[2:]
					return true
				}
			}
			return false
		})
		if ok && s.addr != "" {
			// wait until it accepts
			up := skWait(5*time.Second, func() bool {
				c, err := net.DialTimeout("tcp", s.addr, 200*time.Millisecond)
				if err != nil {
					return false
				}
				c.Close()
				return true
			})
			if up {
				// the probe connection leaves without a message
				skWait(2*time.Second, func() bool {
					ls, dead := s.snapshot()
					if dead {
						return true
					}
					for _, l := range ls {
						if strings.HasPrefix(l, "D ") {
							return true
						}
					}
					return false
				})
				return s
			}
		}
		s.stdin.Close()
		s.cmd.Process.Kill()
	}
	panic("socket server child did not start")
}

func skGet(mode int) *skServer {
	skSrvMu.Lock()
	defer skSrvMu.Unlock()
	if s := skSrvs[mode]; s != nil {
		if _, dead := s.snapshot(); !dead {
			return s
		}
	}
	skSrvs[mode] = skStart(mode)
	return skSrvs[mode]
}

// SkFrame is a frame received by the terminal side, decoded by an independent decoder.
type SkFrame struct {
	Raw    []byte
	OK     bool
	ID     uint16
	Attr   uint16
	Phone  []byte
	Serial uint16
	Body   []byte
}

func SkDecode(w []byte) (f SkFrame) {
	f.Raw = w
	if len(w) < 2 || w[0] != 0x7e || w[len(w)-1] != 0x7e {
		return
	}
	var p []byte
	in := w[1 : len(w)-1]
	for i := 0; i < len(in); i++ {
		if in[i] == 0x7d && i+1 < len(in) && (in[i+1] == 1 || in[i+1] == 2) {
			p = append(p, 0x7c+in[i+1])
			i++
		} else {
			p = append(p, in[i])
		}
	}
	var x byte
	for _, b := range p {
		x ^= b
	}
	if x != 0 || len(p) < 13 {
		return
	}
	f.ID = uint16(p[0])<<8 | uint16(p[1])
	f.Attr = uint16(p[2])<<8 | uint16(p[3])
	off, pl := 4, 6
	if f.Attr&(1<<14) != 0 {
		off, pl = 5, 10
	}
	if len(p) < off+pl+3 {
		return
	}
	f.Phone = p[off : off+pl]
	f.Serial = uint16(p[off+pl])<<8 | uint16(p[off+pl+1])
	h := off + pl + 2
	if f.Attr&(1<<13) != 0 {
		h += 4
	}
	if int(f.Attr&0x3ff) != len(p)-1-h {
		return
	}
	f.Body = p[h : len(p)-1]
	f.OK = true
	return
}

// SkResult is what one connection showed.
type SkResult struct {
	Reads   []string // OnReadExecutionEvent, in order: canonical message
	Writes  []string // OnWriteExecutionEvent: canonical message "/" platform data
	NotSup  []string
	Changed []string // r<idx>|w<idx>@<when>=<content now>
	Frames  []SkFrame
	Joined  string
	At      map[string]string // "r<idx>" / "w<idx>" -> rendering at delivery (the keys the Changed entries use)
	Crashed bool
	Stderr  string
	Timeout string
}

func (r *SkResult) String() string {
	if r.Crashed {
		return "crash"
	}
	j := func(l []string, sep string) string {
		if len(l) == 0 {
			return "-"
		}
		return strings.Join(l, sep)
	}
	var fr []string
	for _, f := range r.Frames {
		fr = append(fr, Hx(f.Raw))
	}
	s := fmt.Sprintf("ok rd=%s wr=%s ns=%s ch=%s fr=%s", j(r.Reads, ";"), j(r.Writes, ";"), j(r.NotSup, ";"), j(r.Changed, ";"), j(fr, ","))
	if r.Timeout != "" {
		s += " timeout=" + r.Timeout
	}
	return s
}

type SkStep struct {
	Kind byte // 'w', 'y', 's'
	Data []byte
	Ms   int
}

func SkStepsString(st []SkStep) string {
	var sb []string
	for _, s := range st {
		if s.Kind == 's' {
			sb = append(sb, fmt.Sprintf("s:%d", s.Ms))
		} else {
			sb = append(sb, string(s.Kind)+":"+Hx(s.Data))
		}
	}
	return strings.Join(sb, " ")
}

func SkParseSteps(args []string) []SkStep {
	var st []SkStep
	for _, a := range args {
		switch {
		case strings.HasPrefix(a, "w:"), strings.HasPrefix(a, "y:"):
			st = append(st, SkStep{Kind: a[0], Data: Unhx(a[2:])})
		case strings.HasPrefix(a, "s:"):
			st = append(st, SkStep{Kind: 's', Ms: atoi(a[2:])})
		default:
			panic("bad step " + a)
		}
	}
	return st
}

type skClient struct {
	conn   net.Conn
	mu     sync.Mutex
	frames []SkFrame
	closed bool
}

func (c *skClient) readLoop() {
	buf := make([]byte, 65536)
	var acc []byte
	for {
		n, err := c.conn.Read(buf)
		if n > 0 {
			acc = append(acc, buf[:n]...)
			for {
				i := bytes.IndexByte(acc, 0x7e)
				if i < 0 {
					acc = acc[:0]
					break
				}
				j := bytes.IndexByte(acc[i+1:], 0x7e)
				if j < 0 {
					acc = acc[i:]
					break
				}
				fr := append([]byte{}, acc[i:i+j+2]...)
				acc = acc[i+j+2:]
				c.mu.Lock()
				c.frames = append(c.frames, SkDecode(fr))
				c.mu.Unlock()
			}
		}
		if err != nil {
			c.mu.Lock()
			c.closed = true
			c.mu.Unlock()
			return
		}
	}
}

// SkPlay runs the steps on one fresh connection of the child server.
func SkPlay(st []SkStep) *SkResult { return SkPlayMode(st, 0) }

// SkPlayMode: mode 1 = a server whose write callbacks dawdle (the writer is still using a message
// while the reader receives the next data), mode 2 = read callbacks dawdle (reads coalesce).
func SkPlayMode(st []SkStep, mode int) *SkResult {
	res := &SkResult{At: map[string]string{}}
	s := skGet(mode)
	base, _ := s.snapshot()
	nbase := len(base)
	newLines := func() ([]string, bool) {
		ls, dead := s.snapshot()
		return ls[nbase:], dead
	}
	conn, err := net.Dial("tcp", s.addr)
	if err != nil {
		_, dead := s.snapshot()
		res.Crashed, res.Timeout = dead, "dial"
		return res
	}
	if tc, ok := conn.(*net.TCPConn); ok {
		tc.SetNoDelay(true)
	}
	connNo := ""
	skWait(5*time.Second, func() bool {
		ls, dead := newLines()
		for _, l := range ls {
			if strings.HasPrefix(l, "O ") {
				connNo = l[2:]
				return true
			}
		}
		return dead
	})
	cl := &skClient{conn: conn}
	go cl.readLoop()
	dead := func() bool { _, d := s.snapshot(); return d }
	const wait = 5 * time.Second
	for _, stp := range st {
		if res.Timeout != "" || connNo == "" {
			break
		}
		switch stp.Kind {
		case 's':
			time.Sleep(time.Duration(stp.Ms) * time.Millisecond)
		case 'w':
			conn.Write(stp.Data)
			time.Sleep(700 * time.Microsecond)
		case 'y':
			conn.Write(stp.Data)
			want := SkDecode(stp.Data)
			ok := skWait(wait, func() bool {
				if dead() {
					return true
				}
				cl.mu.Lock()
				defer cl.mu.Unlock()
				if cl.closed {
					return true
				}
				for _, f := range cl.frames {
					if f.OK && f.ID == 0x8001 && len(f.Body) == 5 && f.Body[0] == byte(want.Serial>>8) && f.Body[1] == byte(want.Serial) &&
						f.Body[2] == byte(want.ID>>8) && f.Body[3] == byte(want.ID) {
						return true
					}
				}
				return false
			})
			if !ok {
				res.Timeout = "sync"
			}
			// the write callback follows the conn.Write: give it time to be printed
			time.Sleep(300 * time.Microsecond)
		}
	}
	conn.Close()
	if connNo != "" {
		ok := skWait(wait, func() bool {
			ls, d := newLines()
			if d {
				return true
			}
			for _, l := range ls {
				if l == "D "+connNo {
					return true
				}
			}
			return false
		})
		if !ok {
			res.Timeout += "+leave"
		}
	} else {
		res.Timeout += "+accept"
	}
	ls, d := newLines()
	if d {
		res.Crashed = true
		s.mu.Lock()
		res.Stderr = Trunc(s.stderr.String(), 1500)
		s.mu.Unlock()
	}
	for _, l := range ls {
		p := strings.SplitN(l, " ", 4)
		if len(p) < 2 || p[1] != connNo {
			continue
		}
		switch p[0] {
		case "R":
			res.Reads = append(res.Reads, p[3])
			res.At["r"+p[2]] = p[3]
		case "W":
			res.Writes = append(res.Writes, p[3])
			res.At["w"+p[2]] = p[3]
		case "N":
			res.NotSup = append(res.NotSup, strings.Join(p[2:], " "))
		case "J":
			res.Joined = strings.Join(p[2:], " ")
		case "X":
			q := strings.SplitN(l, " ", 5)
			if len(q) == 5 {
				res.Changed = append(res.Changed, q[2]+"@"+q[3]+"="+q[4])
			}
		}
	}
	cl.mu.Lock()
	res.Frames = append(res.Frames, cl.frames...)
	cl.mu.Unlock()
	return res
}

// SyncFrame: a heartbeat (0x0002, empty body) the server answers with 0x8001.
func SyncFrame(phone []byte, ver2019 bool, serial uint16) FrameSpec {
	return FrameSpec{ID: 0x0002, Ver2019: ver2019, Phone: phone, Serial: serial}
}

func init() {
	RegisterOp("sk", func(a []string) string { return SkPlay(SkParseSteps(a)).String() })
	RegisterOp("sk1", func(a []string) string { return SkPlayMode(SkParseSteps(a), 1).String() })
	RegisterOp("sk2", func(a []string) string { return SkPlayMode(SkParseSteps(a), 2).String() })
	RegisterOp("sk3", func(a []string) string { return SkPlayMode(SkParseSteps(a), 3).String() })
}

package lib

// C03 — length sweeps.  For every length / count field of every decoder: every value 0..255 of that field WITH
// exactly that many units present behind it, one byte fewer and one byte more (16/32-bit counts: the low byte
// sweeps, plus 256, 257 and the all-ones value).  Index arithmetic that wraps in a narrow type (uint8 sums such as
// `5 + paramLen`, `1 + AuthCodeLen + 15`) shows only when the announced bytes ARE present: short bodies stop at the
// guards.  The model computes in unbounded N with the int conversions the code has, so a wrap introduced in the code
// is a behavioural difference these bodies expose (a panic, a hang, or a correspondence mismatch).

type c03LenFn func(g *C03Gen, ver, dial int, emit func([]byte))

// c03sweep: mk(v, e) builds the body whose field says v and whose content has v units and e extra bytes (e = -1, 0, +1)
func c03sweep(emit func([]byte), vals []int, mk func(v, e int) []byte) {
	for _, v := range vals {
		for _, e := range []int{0, -1, 1} {
			if b := mk(v, e); b != nil {
				emit(b)
			}
		}
	}
}

var c03Byte = func() []int {
	r := make([]int, 256)
	for i := range r {
		r[i] = i
	}
	return r
}()

// n bytes of content, or n-1 / n+1 (never negative)
func (g *C03Gen) sized(n, e int) []byte {
	if n+e < 0 {
		return nil
	}
	return g.Ascii(n + e)
}

func c03cat(parts ...[]byte) []byte {
	var b []byte
	for _, p := range parts {
		b = append(b, p...)
	}
	return b
}

// C03Lens: type name -> the sweeps of its length / count fields
var C03Lens = map[string]c03LenFn{
	"T0x0102": func(g *C03Gen, ver, _ int, emit func([]byte)) {
		if ver != 3 {
			return
		}
		c03sweep(emit, c03Byte, func(v, e int) []byte { // AuthCodeLen
			return c03cat([]byte{byte(v)}, g.Ascii(v), g.Ascii(15), g.sized(20, e))
		})
	},
	"T0x0104": c03lensParams(3),
	"P0x8103": c03lensParams(1),
	"T0x0200": func(g *C03Gen, _, _ int, emit func([]byte)) {
		for _, id := range []byte{0xE1, 0x05, 0x64, 0x66, 0xEB, 0x01} { // additional-information item length
			c03sweep(emit, c03Byte, func(v, e int) []byte {
				it := g.sized(v, e)
				if it == nil {
					return nil
				}
				b := c03cat(g.block(), []byte{id, byte(v)}, it)
				if e == 0 && v%3 == 0 {
					b = append(b, 0x30, 1, 7) // followed by another item
				}
				return b
			})
		}
	},
	"T0x0704": func(g *C03Gen, _, _ int, emit func([]byte)) {
		item := c03cat([]byte{0, 28}, g.block())
		c03sweep(emit, append(append([]int{}, c03Byte...), 256, 257, 65535), func(v, e int) []byte { // Num
			n := v
			if n > 300 {
				n = 3
			}
			b := []byte{byte(v >> 8), byte(v), 1}
			for i := 0; i < n; i++ {
				b = append(b, item...)
			}
			switch e {
			case -1:
				if len(b) <= 3 {
					return nil
				}
				return b[:len(b)-1]
			case 1:
				return append(b, 0)
			}
			return b
		})
		c03sweep(emit, append(append([]int{}, c03Byte...), 256, 257, 1000, 65535), func(v, e int) []byte { // item length
			n := v
			if n > 2000 {
				n = 40
			}
			it := g.sized(n, e)
			if it == nil {
				return nil
			}
			if len(it) >= 28 {
				copy(it, g.block())
				for i := 28; i+1 < len(it); i += 2 { // the rest as unknown two-byte items where it fits
					it[i], it[i+1] = 0xE1, 0
				}
			}
			return c03cat([]byte{0, 1, 0, byte(v >> 8), byte(v)}, it)
		})
	},
	"T0x0805": c03lensCount(3, 2, 4, 3),
	"T0x1205": c03lensCount(2, 4, 28, 2),
	"P0x8003": c03lensCount(2, 1, 2, 2),
	"P0x8800": c03lensCount(4, 1, 2, 4),
	"T0x1210": func(g *C03Gen, _, d int, emit func([]byte)) {
		idLen, _ := c03SignWidths(d)
		head := func() []byte {
			var b []byte
			if d != 2 {
				b = g.Padded(idLen)
			}
			return c03cat(b, g.sign(d), g.Padded(32), []byte{1})
		}
		c03sweep(emit, c03Byte, func(v, e int) []byte { // AttachCount with exactly v (empty-named) items
			b := append(head(), byte(v))
			for i := 0; i < v; i++ {
				b = append(b, 0, 0, 0, 0, byte(i))
			}
			switch e {
			case -1:
				return b[:len(b)-1]
			case 1:
				return append(b, 9)
			}
			return b
		})
		c03sweep(emit, c03Byte, func(v, e int) []byte { // FileNameLen of the first of two items and of the last item
			nm := g.sized(v, e)
			if nm == nil {
				return nil
			}
			if v%2 == 0 {
				return c03cat(head(), []byte{2, byte(v)}, nm, []byte{0, 0, 0, 1, 1, 0x41, 0, 0, 0, 2})
			}
			return c03cat(head(), []byte{2, 1, 0x41, 0, 0, 0, 2, byte(v)}, nm, []byte{0, 0, 0, 1})
		})
	},
	"T0x1211": c03lensPrefix(5),
	"T0x1212": c03lensPrefix(5),
	"P0x9101": c03lensPrefix(7),
	"P0x9201": c03lensPrefix(22),
	"P0x9206": func(g *C03Gen, _, _ int, emit func([]byte)) {
		for k := 0; k < 4; k++ { // each of the four length bytes in turn, the others small
			kk := k
			c03sweep(emit, c03Byte, func(v, e int) []byte {
				var b []byte
				for i := 0; i < 4; i++ {
					n, ee := 2, 0
					if i == kk {
						n, ee = v, e
					}
					t := g.sized(n, ee)
					if t == nil {
						return nil
					}
					b = append(append(b, byte(n)), t...)
					if i == 0 {
						b = append(b, 0x1F, 0x90)
					}
				}
				return c03cat(b, []byte{1}, g.Bcd(12), g.Bytes(12))
			})
		}
	},
	"P0x9208": func(g *C03Gen, _, d int, emit func([]byte)) {
		c03sweep(emit, c03Byte, func(v, e int) []byte { // ServerIPLen
			return c03cat([]byte{byte(v)}, g.Ascii(v), g.Bytes(4), g.sign(d), g.sized(32, e))
		})
	},
	"P0x9212": func(g *C03Gen, _, _ int, emit func([]byte)) {
		c03sweep(emit, c03Byte, func(v, e int) []byte { // FileNameLen
			nm := g.sized(v, e)
			if nm == nil {
				return nil
			}
			return c03cat([]byte{byte(v)}, nm, []byte{1, 1, 1}, g.Bytes(8))
		})
		c03sweep(emit, c03Byte, func(v, e int) []byte { // RetransmitPacketNumber
			ps := g.sized(8*v, e)
			if ps == nil {
				return nil
			}
			return c03cat([]byte{2, 0x41, 0x42, 0, 1, byte(v)}, ps)
		})
	},
}

// [v] text(v) rest
func c03lensPrefix(rest int) c03LenFn {
	return func(g *C03Gen, _, _ int, emit func([]byte)) {
		c03sweep(emit, c03Byte, func(v, e int) []byte {
			return c03cat([]byte{byte(v)}, g.Ascii(v), g.sized(rest, e))
		})
	}
}

// head bytes, a count of w bytes, then count elements of `unit` bytes
func c03lensCount(head, w, unit, _ int) c03LenFn {
	return func(g *C03Gen, _, _ int, emit func([]byte)) {
		vals := append([]int{}, c03Byte...)
		if w > 1 {
			vals = append(vals, 256, 257, 1<<16-1)
		}
		if w > 2 {
			vals = append(vals, 1<<16, 1<<24, 1<<32-1)
		}
		c03sweep(emit, vals, func(v, e int) []byte {
			n := v
			if n > 300 {
				n = 2
			}
			els := g.sized(unit*n, e)
			if els == nil {
				return nil
			}
			return c03cat(g.Bytes(head), c03be(w, uint64(v)), els)
		})
	}
}

// terminal parameters: the count byte with exactly that many parameters; the length byte of a text parameter, of an
// unknown-id parameter and of a fixed-width one with exactly that many value bytes, alone and followed by another
func c03lensParams(head int) c03LenFn {
	return func(g *C03Gen, _, _ int, emit func([]byte)) {
		hd := func(n int) []byte {
			b := g.Bytes(head)
			b[head-1] = byte(n)
			return b
		}
		c03sweep(emit, c03Byte, func(v, e int) []byte {
			b := hd(v)
			for i := 0; i < v; i++ {
				b = append(b, 0, 0, 0, 0x84, 1, byte(i)) // a BYTE parameter, 6 bytes on the wire
			}
			switch e {
			case -1:
				return b[:len(b)-1]
			case 1:
				return append(b, 0)
			}
			return b
		})
		for _, id := range []uint32{0x0010, 0x0083, 0xF364, 0x0001, 0x0110} {
			idb := c03be(4, uint64(id))
			c03sweep(emit, c03Byte, func(v, e int) []byte {
				val := g.sized(v, e)
				if val == nil {
					return nil
				}
				if v%2 == 0 {
					return c03cat(hd(1), idb, []byte{byte(v)}, val)
				}
				return c03cat(hd(2), idb, []byte{byte(v)}, val, []byte{0, 0, 0, 0x84, 1, 7})
			})
		}
	}
}

package lib

import "fmt"

// Independent reference implementation of the JT/T 808 frame layer, written from the standard
// (tables 1-4) and sharing no code with /repo.  Used as the direct oracle for C01/C02 and as the
// frame builder of every harness.

type RefMsg struct {
	ID             uint16
	Enc, Frag, Ver uint8
	Bcd            []byte // 6 bytes (2013) or 10 bytes (2019)
	Serial         uint16
	Sum, No        uint16 // only when Frag == 1
	Body           []byte
	Check          byte
}

// RefBcdString: the digits of a BCD number, leading zeros dropped (all-zero stays as written).
func RefBcdString(b []byte) string {
	s := ""
	for _, x := range b {
		s += fmt.Sprintf("%x%x", x>>4, x&15)
	}
	i := 0
	for i < len(s) && s[i] == '0' {
		i++
	}
	if i == len(s) {
		return s
	}
	return s[i:]
}

// RefPayload: header ++ body (no checksum). extra = uninterpreted attribute bits (11, 12, 15), vb = version byte.
func RefPayload(m RefMsg, extra uint16, vb byte) []byte {
	attr := uint16(m.Ver&1)<<14 | uint16(m.Frag&1)<<13 | uint16(m.Enc&1)<<10 | uint16(len(m.Body))&0x3ff | extra&0x9800
	p := []byte{byte(m.ID >> 8), byte(m.ID), byte(attr >> 8), byte(attr)}
	if m.Ver == 1 {
		p = append(p, vb)
	}
	p = append(p, m.Bcd...)
	p = append(p, byte(m.Serial>>8), byte(m.Serial))
	if m.Frag == 1 {
		p = append(p, byte(m.Sum>>8), byte(m.Sum), byte(m.No>>8), byte(m.No))
	}
	return append(p, m.Body...)
}

func RefXor(p []byte) byte {
	var c byte
	for _, b := range p {
		c ^= b
	}
	return c
}

func RefEscape(p []byte) []byte {
	out := []byte{0x7e}
	for _, b := range p {
		switch b {
		case 0x7e:
			out = append(out, 0x7d, 0x02)
		case 0x7d:
			out = append(out, 0x7d, 0x01)
		default:
			out = append(out, b)
		}
	}
	return append(out, 0x7e)
}

// RefFrame builds the wire frame of m (checksum computed, escaped, delimited).
func RefFrame(m RefMsg) []byte { return RefFrameX(m, 0, 1) }

func RefFrameX(m RefMsg, extra uint16, vb byte) []byte {
	p := RefPayload(m, extra, vb)
	p = append(p, RefXor(p))
	return RefEscape(p)
}

// RefDecode: the standard's reading of a frame; ok=false when the frame is not well formed.
// The one tolerated deviation (an unescaped 0x7d as the last byte before the closing delimiter) is accepted.
func RefDecode(d []byte) (m RefMsg, ok bool) {
	if len(d) < 3 || d[0] != 0x7e || d[len(d)-1] != 0x7e {
		return m, false
	}
	w := d[1 : len(d)-1]
	var p []byte
	for i := 0; i < len(w); i++ {
		if w[i] == 0x7d {
			if i == len(w)-1 {
				p = append(p, 0x7d)
				break
			}
			switch w[i+1] {
			case 0x01:
				p = append(p, 0x7d)
			case 0x02:
				p = append(p, 0x7e)
			default:
				return m, false
			}
			i++
			continue
		}
		p = append(p, w[i])
	}
	if RefXor(p) != 0 || len(p) < 4 {
		return m, false
	}
	attr := uint16(p[2])<<8 | uint16(p[3])
	m.ID = uint16(p[0])<<8 | uint16(p[1])
	m.Ver = uint8(attr >> 14 & 1)
	m.Frag = uint8(attr >> 13 & 1)
	m.Enc = uint8(attr >> 10 & 1)
	blen := int(attr & 0x3ff)
	pos := 4
	plen := 6
	if m.Ver == 1 {
		pos, plen = 5, 10
	}
	need := pos + plen + 2
	if m.Frag == 1 {
		need += 4
	}
	if len(p) != need+blen+1 {
		return m, false
	}
	m.Bcd = p[pos : pos+plen]
	pos += plen
	m.Serial = uint16(p[pos])<<8 | uint16(p[pos+1])
	pos += 2
	if m.Frag == 1 {
		m.Sum = uint16(p[pos])<<8 | uint16(p[pos+1])
		m.No = uint16(p[pos+2])<<8 | uint16(p[pos+3])
		pos += 4
	}
	m.Body = p[pos : pos+blen]
	m.Check = p[pos+blen]
	return m, true
}

// Canon renders a reference message in the same canonical form as CanonMsg.
func (m RefMsg) Canon() string {
	return fmt.Sprintf("ok id=%d len=%d enc=%d frag=%d ver=%d phone=%s serial=%d sum=%d no=%d body=%s check=%d",
		m.ID, len(m.Body), m.Enc, m.Frag, m.Ver, RefBcdString(m.Bcd), m.Serial, m.Sum, m.No, Hx(m.Body), m.Check)
}

// HasInteriorDelim reports whether 0x7e occurs other than as first and last byte.
func HasInteriorDelim(d []byte) bool {
	for i := 1; i < len(d)-1; i++ {
		if d[i] == 0x7e {
			return true
		}
	}
	return false
}

package lib

// C03 — registry of EVERY exported message type of protocol/model that has a Parse(*jt808.JTMessage) method,
// the canonical reflection dump used by the C03 ops, and the ops themselves.  Owned by the builder of C03;
// deliberately independent of ops_bodies.go / gen_bodies.go (C07).
//
//	c03p <T> <ver> <dialect> <hex>                 fresh receiver, exact capacity, Parse + String under recover():
//	                                               "ok <dump>" | "strpanic <dump>" | "err <n>" | "panic"
//	c03s <T> <dialect> <ver1>:<hex1> ... <verN>:<hexN>   ONE receiver parses every body in order; answer of the last
//	                                               (String() is not run here)
//	c03t <T> <ver> <dialect> <hex> <tailhex>       the body followed by <tail> in the same array (cap = len + len tail);
//	                                               the model side is Model/Total_cap.v (spare-capacity primitives)
//	c03fseq <frame1> ... <frameN>                  ONE JTMessage decodes every frame; answer of the last (as op decode)
//	c03ft <frame> <tailhex>                        frame followed by tail in the same array (model: decode_chk_cap)
//	c03lt <0200|0704|0801> <body> <tail>           location carrier behind a tail (model: t0200_cap ...)
//	c03et <kind> <dialect> <id> <content> <tail>   extension handler behind a tail (model: ext_cap)
//	c03rtp <hex> | c03rseq <hex1> ... <hexN>       jt1078 Decode, fresh / ONE reused Packet (answer of the last)
//	c03rt <hex> <tailhex>                          RTP packet behind a tail (model: rtp_decode_cap)
//
// dump: declaration order; BaseHandle, func-typed and unexported members skipped; numbers lowercase hex; bool 0/1;
// string / []byte / [n]byte "x"+hex; struct, slice "(a,b,...)"; map by ascending key; nil pointer/interface "nil".
// TerminalParamDetails is dumped as "((known),(other))": the typed members whose ID is non-zero as (id,len,value) in
// declaration order (= ascending id), then OtherContent by ascending id.  For the types that convert text through
// the external GBK codec the converted members are printed as "?" when the body contains a byte >= 0x80 (the
// model has the codec as the identity, which is what the codec is on ASCII).

import (
	"encoding/hex"
	"errors"
	"fmt"
	"go/ast"
	"go/parser"
	"go/token"
	"path/filepath"
	"reflect"
	"runtime"
	"sort"
	"strconv"
	"strings"

	"github.com/cuteLittleDevil/go-jt808/protocol/jt1078"
	"github.com/cuteLittleDevil/go-jt808/protocol/jt808"
	"github.com/cuteLittleDevil/go-jt808/protocol/model"
	"github.com/cuteLittleDevil/go-jt808/shared/consts"
)

type C03Handler interface {
	Parse(*jt808.JTMessage) error
	Encode() []byte
	String() string
}

type C03Type struct {
	Name    string
	New     func(dial int) C03Handler
	VerDep  bool // Parse looks at Header.ProtocolVersion: versions 1 (2011), 2 (2013), 3 (2019); otherwise 2 only
	DialDep bool // Parse looks at the receiver's ActiveSafetyType: dialects 0..6; otherwise 0 only
	Gbk     bool // converts text through the external GBK codec
	MaxLen  int  // largest guard constant over all versions/dialects (with empty variable parts)
	Fixed   bool // one exact length guard: lengths up to 1100 are enumerated as well
	Model   bool // inside the Coq model (Model/Total_msgs.v): correspondence cases are emitted
	// Valid builds one well-formed wire body and the byte positions of its count / length / id fields
	// (one group per field, most significant byte first).
	Valid func(g *C03Gen, ver, dial int) ([]byte, [][]int)
}

func c03plain(f func() C03Handler) func(int) C03Handler { return func(int) C03Handler { return f() } }

func (t *C03Type) Versions() []int {
	if t.VerDep {
		return []int{1, 2, 3}
	}
	return []int{2}
}

func (t *C03Type) Dialects() []int {
	if t.DialDep {
		return []int{0, 1, 2, 3, 4, 5, 6}
	}
	return []int{0}
}

// C03Types: every type of protocol/model with a Parse(*jt808.JTMessage) method (own or promoted).
// C03RegistryMissing() checks this list against the source of the tree the harness was built from.
var C03Types = []*C03Type{
	{Name: "T0x0001", New: c03plain(func() C03Handler { return &model.T0x0001{} }), MaxLen: 5, Fixed: true, Model: true, Valid: c03Fixed(5)},
	{Name: "T0x0002", New: c03plain(func() C03Handler { return &model.T0x0002{} }), MaxLen: 0, Model: true, Valid: c03Fixed(0)},
	{Name: "T0x0100", New: c03plain(func() C03Handler { return &model.T0x0100{} }), VerDep: true, Gbk: true, MaxLen: 76, Model: true, Valid: c03v0100},
	{Name: "T0x0102", New: c03plain(func() C03Handler { return &model.T0x0102{} }), VerDep: true, MaxLen: 36, Model: true, Valid: c03v0102},
	{Name: "T0x0104", New: c03plain(func() C03Handler { return &model.T0x0104{} }), Gbk: true, MaxLen: 12, Model: true, Valid: c03vParams(3)},
	{Name: "T0x0200", New: c03plain(func() C03Handler { return &model.T0x0200{} }), MaxLen: 28, Valid: c03v0200},
	{Name: "T0x0704", New: c03plain(func() C03Handler { return &model.T0x0704{} }), MaxLen: 33, Valid: c03v0704},
	{Name: "T0x0800", New: c03plain(func() C03Handler { return &model.T0x0800{} }), MaxLen: 8, Fixed: true, Model: true, Valid: c03Fixed(8)},
	{Name: "T0x0801", New: c03plain(func() C03Handler { return &model.T0x0801{} }), MaxLen: 36, Valid: c03v0801},
	{Name: "T0x0805", New: c03plain(func() C03Handler { return &model.T0x0805{} }), MaxLen: 5, Model: true, Valid: c03v0805},
	{Name: "T0x1003", New: c03plain(func() C03Handler { return &model.T0x1003{} }), MaxLen: 10, Fixed: true, Model: true, Valid: c03Fixed(10)},
	{Name: "T0x1005", New: c03plain(func() C03Handler { return &model.T0x1005{} }), MaxLen: 16, Fixed: true, Model: true, Valid: c03Fixed(16)},
	{Name: "T0x1205", New: c03plain(func() C03Handler { return &model.T0x1205{} }), MaxLen: 34, Model: true, Valid: c03v1205},
	{Name: "T0x1206", New: c03plain(func() C03Handler { return &model.T0x1206{} }), MaxLen: 3, Fixed: true, Model: true, Valid: c03Fixed(3)},
	{Name: "T0x1210", New: func(d int) C03Handler {
		return &model.T0x1210{P9208AlarmSign: model.P9208AlarmSign{ActiveSafetyType: consts.ActiveSafetyType(d)}}
	}, DialDep: true, MaxLen: 104, Model: true, Valid: c03v1210},
	{Name: "T0x1211", New: c03plain(func() C03Handler { return &model.T0x1211{} }), MaxLen: 6, Model: true, Valid: c03v1211},
	{Name: "T0x1212", New: c03plain(func() C03Handler { return &model.T0x1212{} }), MaxLen: 6, Model: true, Valid: c03v1211},
	{Name: "P0x8001", New: c03plain(func() C03Handler { return &model.P0x8001{} }), MaxLen: 5, Fixed: true, Model: true, Valid: c03Fixed(5)},
	{Name: "P0x8003", New: c03plain(func() C03Handler { return &model.P0x8003{} }), MaxLen: 3, Model: true, Valid: c03v8003(2, 3)},
	{Name: "P0x8100", New: c03plain(func() C03Handler { return &model.P0x8100{} }), MaxLen: 3, Model: true, Valid: c03v8100},
	{Name: "P0x8103", New: c03plain(func() C03Handler { return &model.P0x8103{} }), Gbk: true, MaxLen: 10, Model: true, Valid: c03vParams(1)},
	{Name: "P0x8104", New: c03plain(func() C03Handler { return &model.P0x8104{} }), MaxLen: 0, Model: true, Valid: c03Fixed(0)},
	{Name: "P0x8800", New: c03plain(func() C03Handler { return &model.P0x8800{} }), MaxLen: 5, Model: true, Valid: c03v8003(4, 5)},
	{Name: "P0x8801", New: c03plain(func() C03Handler { return &model.P0x8801{} }), MaxLen: 12, Fixed: true, Model: true, Valid: c03Fixed(12)},
	{Name: "P0x9003", New: c03plain(func() C03Handler { return &model.P0x9003{} }), MaxLen: 0, Model: true, Valid: c03Fixed(0)},
	{Name: "P0x9101", New: c03plain(func() C03Handler { return &model.P0x9101{} }), MaxLen: 8, Model: true, Valid: c03vPrefixed(7)},
	{Name: "P0x9102", New: c03plain(func() C03Handler { return &model.P0x9102{} }), MaxLen: 4, Fixed: true, Model: true, Valid: c03Fixed(4)},
	{Name: "P0x9105", New: c03plain(func() C03Handler { return &model.P0x9105{} }), MaxLen: 2, Fixed: true, Model: true, Valid: c03Fixed(2)},
	{Name: "P0x9201", New: c03plain(func() C03Handler { return &model.P0x9201{} }), MaxLen: 24, Model: true, Valid: c03vPrefixed(22)},
	{Name: "P0x9202", New: c03plain(func() C03Handler { return &model.P0x9202{} }), MaxLen: 9, Fixed: true, Model: true, Valid: c03Fixed(9)},
	{Name: "P0x9205", New: c03plain(func() C03Handler { return &model.P0x9205{} }), MaxLen: 24, Fixed: true, Model: true, Valid: c03Fixed(24)},
	{Name: "P0x9206", New: c03plain(func() C03Handler { return &model.P0x9206{} }), MaxLen: 31, Model: true, Valid: c03v9206},
	{Name: "P0x9207", New: c03plain(func() C03Handler { return &model.P0x9207{} }), MaxLen: 3, Fixed: true, Model: true, Valid: c03Fixed(3)},
	{Name: "P0x9208", New: func(d int) C03Handler {
		return &model.P0x9208{P9208AlarmSign: model.P9208AlarmSign{ActiveSafetyType: consts.ActiveSafetyType(d)}}
	}, DialDep: true, MaxLen: 77, Model: true, Valid: c03v9208},
	{Name: "P0x9212", New: c03plain(func() C03Handler { return &model.P0x9212{} }), MaxLen: 4, Model: true, Valid: c03v9212},
}

func C03TypeByName(n string) *C03Type {
	for _, t := range C03Types {
		if t.Name == n {
			return t
		}
	}
	return nil
}

// c03SourceTypes parses the source of protocol/model in dir and returns the exported struct types that have a
// Parse(*jt808.JTMessage) method, own or promoted from an embedded struct (BaseHandle's no-op does not count).
// which Parse methods read the header version / the receiver's dialect (filled by c03SourceTypes)
var c03SrcVerDep, c03SrcDialDep = map[string]bool{}, map[string]bool{}

func c03SourceTypes(dir string) (withParse map[string]bool, err error) {
	fset := token.NewFileSet()
	matches, _ := filepath.Glob(filepath.Join(dir, "*.go"))
	own := map[string]bool{}         // receiver type -> has its own Parse(*jt808.JTMessage)
	embeds := map[string][]string{}  // struct type -> embedded type names
	structs := map[string]bool{}
	for _, f := range matches {
		if strings.HasSuffix(f, "_test.go") {
			continue
		}
		af, perr := parser.ParseFile(fset, f, nil, 0)
		if perr != nil {
			return nil, perr
		}
		for _, d := range af.Decls {
			switch x := d.(type) {
			case *ast.FuncDecl:
				if x.Recv == nil || x.Name.Name != "Parse" || len(x.Recv.List) != 1 {
					continue
				}
				if x.Type.Params == nil || len(x.Type.Params.List) != 1 {
					continue
				}
				ps, ok := x.Type.Params.List[0].Type.(*ast.StarExpr)
				if !ok {
					continue
				}
				if se, ok := ps.X.(*ast.SelectorExpr); !ok || se.Sel.Name != "JTMessage" {
					continue
				}
				rt := x.Recv.List[0].Type
				if st, ok := rt.(*ast.StarExpr); ok {
					rt = st.X
				}
				if id, ok := rt.(*ast.Ident); ok {
					own[id.Name] = true
					if x.Body != nil {
						ast.Inspect(x.Body, func(n ast.Node) bool {
							if se, ok := n.(*ast.SelectorExpr); ok {
								switch se.Sel.Name {
								case "ProtocolVersion":
									c03SrcVerDep[id.Name] = true
								case "ActiveSafetyType", "getTerminalIDLen", "getAlarmSignLen", "P9208AlarmSign":
									c03SrcDialDep[id.Name] = true
								}
							}
							return true
						})
					}
				}
			case *ast.GenDecl:
				for _, s := range x.Specs {
					ts, ok := s.(*ast.TypeSpec)
					if !ok {
						continue
					}
					st, ok := ts.Type.(*ast.StructType)
					if !ok {
						continue
					}
					structs[ts.Name.Name] = true
					for _, fl := range st.Fields.List {
						if len(fl.Names) == 0 {
							if id, ok := fl.Type.(*ast.Ident); ok {
								embeds[ts.Name.Name] = append(embeds[ts.Name.Name], id.Name)
							}
						}
					}
				}
			}
		}
	}
	withParse = map[string]bool{}
	var has func(n string, depth int) bool
	has = func(n string, depth int) bool {
		if own[n] {
			return true
		}
		if depth > 4 {
			return false
		}
		for _, e := range embeds[n] {
			if has(e, depth+1) {
				return true
			}
		}
		return false
	}
	for n := range structs {
		if ast.IsExported(n) && n != "BaseHandle" && has(n, 0) {
			withParse[n] = true
			if !own[n] { // promoted Parse: the flags of the embedded type that has it
				for _, e := range embeds[n] {
					if own[e] {
						c03SrcVerDep[n] = c03SrcVerDep[n] || c03SrcVerDep[e]
						c03SrcDialDep[n] = c03SrcDialDep[n] || c03SrcDialDep[e]
					}
				}
			}
		}
	}
	return withParse, nil
}

// C03RegistryCheck: names in the source but not in the registry, and registry names not in the source.
func C03RegistryCheck() (missing, stale []string, dir string, err error) {
	fn := runtime.FuncForPC(reflect.ValueOf((*model.T0x0001).Parse).Pointer())
	if fn == nil {
		return nil, nil, "", fmt.Errorf("no function info for model.T0x0001.Parse")
	}
	file, _ := fn.FileLine(fn.Entry())
	dir = filepath.Dir(file)
	src, err := c03SourceTypes(dir)
	if err != nil {
		return nil, nil, dir, err
	}
	reg := map[string]bool{}
	for _, t := range C03Types {
		reg[t.Name] = true
		if !src[t.Name] {
			stale = append(stale, t.Name)
		}
	}
	for n := range src {
		if !reg[n] {
			missing = append(missing, n)
		}
	}
	// Model = false only for the three carriers whose model is Model/Location.v (correspondence through p0200 ...)
	for _, t := range C03Types {
		if !t.Model && t.Name != "T0x0200" && t.Name != "T0x0704" && t.Name != "T0x0801" {
			stale = append(stale, t.Name+".Model=false")
		}
	}
	// the hand-set flags: a Parse that reads Header.ProtocolVersion must be swept over the three header versions,
	// one that reads the receiver's dialect over the dialects
	for _, t := range C03Types {
		if src[t.Name] && c03SrcVerDep[t.Name] != t.VerDep {
			stale = append(stale, fmt.Sprintf("%s.VerDep=%v(source:%v)", t.Name, t.VerDep, c03SrcVerDep[t.Name]))
		}
		if src[t.Name] && c03SrcDialDep[t.Name] != t.DialDep {
			stale = append(stale, fmt.Sprintf("%s.DialDep=%v(source:%v)", t.Name, t.DialDep, c03SrcDialDep[t.Name]))
		}
	}
	sort.Strings(missing)
	sort.Strings(stale)
	return missing, stale, dir, nil
}

// ---------------------------------------------------------------- canonical dump (reflection)

var c03BaseHandle = reflect.TypeOf(model.BaseHandle{})
var c03ParamDetails = reflect.TypeOf(model.TerminalParamDetails{})

// gbkMembers: the members filled from utils.GBK2UTF8 output.
var c03GbkMembers = map[string]bool{"LicensePlateNumber": true}

type c03Field struct {
	index int
	gbk   bool
}

var c03FieldCache = map[reflect.Type][]c03Field{}

// c03Fields: the members of a struct type that are dumped (reflect's Field(i) allocates: computed once per type)
func c03Fields(t reflect.Type) []c03Field {
	if fs, ok := c03FieldCache[t]; ok {
		return fs
	}
	fs := []c03Field{}
	for i := 0; i < t.NumField(); i++ {
		f := t.Field(i)
		if f.Type == c03BaseHandle || f.Type.Kind() == reflect.Func || !f.IsExported() {
			continue
		}
		fs = append(fs, c03Field{index: i, gbk: c03GbkMembers[f.Name]})
	}
	c03FieldCache[t] = fs
	return fs
}

type c03Dumper struct {
	sb   strings.Builder
	mask bool // print GBK-converted text as "?"
}

func C03Dump(v any, mask bool) string {
	d := &c03Dumper{mask: mask}
	d.dump(reflect.ValueOf(v))
	return d.sb.String()
}

func (d *c03Dumper) bytesOf(v reflect.Value) {
	b := make([]byte, v.Len())
	for i := range b {
		b[i] = byte(v.Index(i).Uint())
	}
	d.sb.WriteString("x" + hex.EncodeToString(b))
}

func (d *c03Dumper) dump(v reflect.Value) {
	switch v.Kind() {
	case reflect.Ptr, reflect.Interface:
		if v.IsNil() {
			d.sb.WriteString("nil")
			return
		}
		d.dump(v.Elem())
	case reflect.Uint8, reflect.Uint16, reflect.Uint32, reflect.Uint64, reflect.Uint:
		d.sb.WriteString(strconv.FormatUint(v.Uint(), 16))
	case reflect.Int, reflect.Int8, reflect.Int16, reflect.Int32, reflect.Int64:
		d.sb.WriteString(strconv.FormatInt(v.Int(), 16))
	case reflect.Float32, reflect.Float64:
		d.sb.WriteString(strconv.FormatFloat(v.Float(), 'g', -1, 64))
	case reflect.Bool:
		if v.Bool() {
			d.sb.WriteString("1")
		} else {
			d.sb.WriteString("0")
		}
	case reflect.String:
		d.sb.WriteString("x" + hex.EncodeToString([]byte(v.String())))
	case reflect.Slice, reflect.Array:
		if v.Type().Elem().Kind() == reflect.Uint8 {
			d.bytesOf(v)
			return
		}
		d.sb.WriteByte('(')
		for i := 0; i < v.Len(); i++ {
			if i > 0 {
				d.sb.WriteByte(',')
			}
			d.dump(v.Index(i))
		}
		d.sb.WriteByte(')')
	case reflect.Map:
		keys := v.MapKeys()
		sort.Slice(keys, func(i, j int) bool { return keys[i].Uint() < keys[j].Uint() })
		d.sb.WriteByte('(')
		for i, k := range keys {
			if i > 0 {
				d.sb.WriteByte(',')
			}
			d.dump(v.MapIndex(k))
		}
		d.sb.WriteByte(')')
	case reflect.Struct:
		if v.Type() == c03ParamDetails {
			d.params(v)
			return
		}
		d.sb.WriteByte('(')
		for k, fi := range c03Fields(v.Type()) {
			if k > 0 {
				d.sb.WriteByte(',')
			}
			if d.mask && fi.gbk {
				d.sb.WriteByte('?')
				continue
			}
			d.dump(v.Field(fi.index))
		}
		d.sb.WriteByte(')')
	default:
		d.sb.WriteString("?" + v.Kind().String())
	}
}

// params: "((known),(other))"; unexported members are read too (T0x084licensePlateColor is one).
func (d *c03Dumper) params(v reflect.Value) {
	d.sb.WriteString("((")
	first := true
	var other reflect.Value
	for i := 0; i < v.NumField(); i++ {
		fv := v.Field(i)
		if fv.Kind() == reflect.Map {
			other = fv
			continue
		}
		if fv.Kind() != reflect.Struct || fv.NumField() != 3 {
			continue
		}
		if fv.Field(0).Uint() == 0 {
			continue
		}
		if !first {
			d.sb.WriteByte(',')
		}
		first = false
		d.paramContent(fv)
	}
	d.sb.WriteString("),(")
	if other.IsValid() {
		keys := other.MapKeys()
		sort.Slice(keys, func(i, j int) bool { return keys[i].Uint() < keys[j].Uint() })
		for i, k := range keys {
			if i > 0 {
				d.sb.WriteByte(',')
			}
			d.paramContent(other.MapIndex(k))
		}
	}
	d.sb.WriteString("))")
}

func (d *c03Dumper) paramContent(fv reflect.Value) {
	d.sb.WriteByte('(')
	d.sb.WriteString(strconv.FormatUint(fv.Field(0).Uint(), 16))
	d.sb.WriteByte(',')
	d.sb.WriteString(strconv.FormatUint(fv.Field(1).Uint(), 16))
	d.sb.WriteByte(',')
	val := fv.Field(2)
	switch val.Kind() {
	case reflect.String:
		if d.mask {
			d.sb.WriteByte('?')
		} else {
			d.sb.WriteString("x" + hex.EncodeToString([]byte(val.String())))
		}
	case reflect.Slice, reflect.Array:
		d.bytesOf(val)
	default:
		d.sb.WriteString(strconv.FormatUint(val.Uint(), 16))
	}
	d.sb.WriteByte(')')
}

// ---------------------------------------------------------------- running the real code

func c03NonASCII(b []byte) bool {
	for _, x := range b {
		if x >= 0x80 {
			return true
		}
	}
	return false
}

func c03Msg(ver int, body []byte) *jt808.JTMessage {
	m := jt808.NewJTMessage()
	m.Header.ProtocolVersion = consts.ProtocolVersionType(ver)
	m.Body = body
	return m
}

// C03ParseInto: the real Parse under recover() on the given slice (the caller decides its capacity), then the
// dump and String() under recover().  The answer format of op c03p.
func C03ParseInto(t *C03Type, h C03Handler, ver int, body []byte, str bool) (ans string) {
	defer func() {
		if r := recover(); r != nil {
			ans = "panic"
		}
	}()
	if err := h.Parse(c03Msg(ver, body)); err != nil {
		return ProtoErrCode(err)
	}
	dump := C03Dump(h, t.Gbk && c03NonASCII(body))
	if str && c03StringPanics(h) {
		return "strpanic " + dump
	}
	return "ok " + dump
}

func c03StringPanics(h C03Handler) (p bool) {
	defer func() {
		if r := recover(); r != nil {
			p = true
		}
	}()
	_ = h.String()
	return false
}

// C03Parse: fresh receiver; String() is run only on the exact-capacity call (tail == nil).
func C03Parse(t *C03Type, ver, dial int, body, tail []byte) string {
	return C03ParseInto(t, t.New(dial), ver, WithTail(body, tail), tail == nil)
}

// C03ParseNoString: as C03Parse with exact capacity but without String() (the String() methods build their text
// with `str +=` in a loop: quadratic in the list length, so the harness runs them on a sample of the long lists)
func C03ParseNoString(t *C03Type, ver, dial int, body []byte) string {
	return C03ParseInto(t, t.New(dial), ver, Exact(body), false)
}

type C03VerBody struct {
	Ver  int
	Body []byte
}

func (v C03VerBody) String() string { return strconv.Itoa(v.Ver) + ":" + Hx(v.Body) }

// C03ParseSeq: ONE receiver parses every body (exact capacity each); the answer of the last parse.
func C03ParseSeq(t *C03Type, dial int, seq []C03VerBody) string {
	h := t.New(dial)
	ans := "none"
	for _, s := range seq {
		ans = C03ParseInto(t, h, s.Ver, Exact(s.Body), false)
	}
	return ans
}

// C03FrameSeq decodes the frames in order on ONE JTMessage, each from a buffer of its own, and answers the last
// decode.  The same history is then replayed with every frame copied IN PLACE into one buffer (a read loop's
// buffer, overwritten by its owner between decodes): what the receiver kept from an earlier decode - slices into
// that buffer included - must not show, so the answer must be the same; if it is not, the answer says so (and
// differs from the model's).
func C03FrameSeq(frames [][]byte, tail []byte) (ans string) {
	ans = c03FrameSeqOwn(frames, tail)
	if len(frames) < 2 {
		return ans
	}
	if again := c03FrameSeqInPlace(frames, tail); again != ans {
		return "inplace-differs own-buffers{" + ans + "} one-buffer{" + again + "}"
	}
	return ans
}

func c03FrameSeqInPlace(frames [][]byte, tail []byte) (ans string) {
	defer func() {
		if r := recover(); r != nil {
			ans = "panic"
		}
	}()
	n := 0
	for _, f := range frames {
		n = max(n, len(f))
	}
	buf := make([]byte, n+len(tail))
	m := jt808.NewJTMessage()
	for i, f := range frames {
		copy(buf, f)
		in := buf[:len(f)]
		if i == len(frames)-1 {
			copy(buf[len(f):], tail)
			in = buf[:len(f) : len(f)+len(tail)]
		}
		err := m.Decode(in)
		if i == len(frames)-1 {
			if err != nil {
				return ProtoErrCode(err)
			}
			_ = m.Header.String()
			return CanonMsg(m)
		}
	}
	return "none"
}

func c03FrameSeqOwn(frames [][]byte, tail []byte) (ans string) {
	defer func() {
		if r := recover(); r != nil {
			ans = "panic"
		}
	}()
	m := jt808.NewJTMessage()
	for i, f := range frames {
		var err error
		if i == len(frames)-1 {
			err = m.Decode(WithTail(f, tail))
		} else {
			err = m.Decode(Exact(f))
		}
		if i == len(frames)-1 {
			if err != nil {
				return ProtoErrCode(err)
			}
			_ = m.Header.String()
			return CanonMsg(m)
		}
	}
	return "none"
}

func c03RtpErr(err error) string {
	switch {
	case errors.Is(err, jt1078.ErrHeaderLength2Short):
		return "err 1"
	case errors.Is(err, jt1078.ErrUnqualifiedData):
		return "err 2"
	case errors.Is(err, jt1078.ErrBodyLength2Short):
		return "err 3"
	}
	return "err ?" + err.Error()
}

func C03RtpSeq(inputs [][]byte, tail []byte) (ans string) {
	defer func() {
		if r := recover(); r != nil {
			ans = "panic"
		}
	}()
	p := jt1078.NewPacket()
	ans = "none"
	for i, d := range inputs {
		var in []byte
		if i == len(inputs)-1 {
			in = WithTail(d, tail)
		} else {
			in = Exact(d)
		}
		rest, err := p.Decode(in)
		if err != nil {
			ans = c03RtpErr(err)
		} else {
			_ = p.String()
			ans = fmt.Sprintf("ok v=%d p=%d x=%d cc=%d m=%d pt=%d seq=%d sim=%s ch=%d dt=%d sub=%d ts=%x ifi=%d fi=%d blen=%d body=%s rest=%s",
				p.Flag.V, p.Flag.P, p.Flag.X, p.Flag.CC, p.Flag.M, uint8(p.Flag.PT), p.Seq, p.Sim, p.LogicChannel,
				uint8(p.DataType), uint8(p.SubcontractType), p.Timestamp, p.LastIFrameInterval, p.LastFrameInterval,
				p.DataBodyLen, Hx(p.Body), Hx(rest))
		}
	}
	return ans
}

func c03UnhxAll(a []string) [][]byte {
	out := make([][]byte, len(a))
	for i, s := range a {
		out[i] = Unhx(s)
	}
	return out
}

func init() {
	RegisterOp("c03p", func(a []string) string {
		t := C03TypeByName(a[0])
		if t == nil {
			return "bad-type"
		}
		return C03Parse(t, atoi(a[1]), atoi(a[2]), Unhx(a[3]), nil)
	})
	RegisterOp("c03t", func(a []string) string {
		t := C03TypeByName(a[0])
		if t == nil {
			return "bad-type"
		}
		return C03Parse(t, atoi(a[1]), atoi(a[2]), Unhx(a[3]), Unhx(a[4]))
	})
	RegisterOp("c03s", func(a []string) string {
		t := C03TypeByName(a[0])
		if t == nil {
			return "bad-type"
		}
		var vb []C03VerBody
		for _, x := range a[2:] {
			i := strings.IndexByte(x, ':')
			vb = append(vb, C03VerBody{atoi(x[:i]), Unhx(x[i+1:])})
		}
		return C03ParseSeq(t, atoi(a[1]), vb)
	})
	// c03lt <0200|0704|0801> <body> <tail> : location carrier behind a tail (model: Model/Total_cap2.v)
	RegisterOp("c03lt", func(a []string) string { return LocParse(a[0], Unhx(a[1]), Unhx(a[2])) })
	// c03et <kind> <dialect> <id> <content> <tail> : extension handler behind a tail (as op ext; model: ext_cap)
	RegisterOp("c03et", func(a []string) string {
		h := NewExt(a[0], atoi(a[1]))
		if h == nil {
			return "bad-kind"
		}
		return ExtParse(h, atoi(a[2]), WithTail(Unhx(a[3]), Unhx(a[4])))
	})
	RegisterOp("c03fseq", func(a []string) string { return C03FrameSeq(c03UnhxAll(a), nil) })
	RegisterOp("c03ft", func(a []string) string { return C03FrameSeq([][]byte{Unhx(a[0])}, Unhx(a[1])) })
	RegisterOp("c03rtp", func(a []string) string { return C03RtpSeq([][]byte{Unhx(a[0])}, nil) })
	RegisterOp("c03rseq", func(a []string) string { return C03RtpSeq(c03UnhxAll(a), nil) })
	RegisterOp("c03rt", func(a []string) string { return C03RtpSeq([][]byte{Unhx(a[0])}, Unhx(a[1])) })
}

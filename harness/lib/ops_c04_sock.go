package lib

// Socket-level observation of connection.reader for C04: a real service.GoJT808 on loopback with a
// recording TerminalEventer; op
//
//	rd <hexchunk> <hexchunk> ...
//
// writes the chunks to a fresh connection one at a time (waiting after each chunk until the events it
// completes have been observed, bounded) and answers with the sequence of reader events
// "E:<id>,<serial>,<bodyhex>" (OnReadExecutionEvent) / "N:<id>,<serial>,<bodyhex>" (OnNotSupportedEvent)
// in the order the reader produced them.  TCP may coalesce or split what is written; the property is
// exactly that this does not matter.

import (
	"fmt"
	"net"
	"strings"
	"sync"
	"time"

	"github.com/cuteLittleDevil/go-jt808/service"
)

type sockRec struct {
	mu   sync.Mutex
	evs  []string
	left chan struct{}
	once sync.Once
}

func (r *sockRec) add(kind string, m *service.Message) {
	body := append([]byte{}, m.Body...)
	r.mu.Lock()
	r.evs = append(r.evs, fmt.Sprintf("%s:%d,%d,%s", kind, m.JTMessage.Header.ID, m.JTMessage.Header.SerialNumber, Hx(body)))
	r.mu.Unlock()
}
func (r *sockRec) n() int { r.mu.Lock(); defer r.mu.Unlock(); return len(r.evs) }
func (r *sockRec) OnJoinEvent(_ *service.Message, _ string, _ error) {}
func (r *sockRec) OnLeaveEvent(_ string)                            { r.once.Do(func() { close(r.left) }) }
func (r *sockRec) OnNotSupportedEvent(m *service.Message)           { r.add("N", m) }
func (r *sockRec) OnReadExecutionEvent(m *service.Message)          { r.add("E", m) }
func (r *sockRec) OnWriteExecutionEvent(_ service.Message)          {}

type sockSrv struct {
	addr  string
	recCh chan *sockRec
	mu    sync.Mutex
}

var (
	sockOnce sync.Once
	sockS    *sockSrv
)

func sockServer() *sockSrv {
	sockOnce.Do(func() {
		l, err := net.Listen("tcp", "127.0.0.1:0")
		if err != nil {
			panic(err)
		}
		addr := l.Addr().String()
		l.Close()
		s := &sockSrv{addr: addr, recCh: make(chan *sockRec, 256)}
		g := service.New(service.WithHostPorts(addr),
			service.WithCustomTerminalEventer(func() service.TerminalEventer {
				r := &sockRec{left: make(chan struct{})}
				s.recCh <- r
				return r
			}))
		go g.Run()
		for i := 0; i < 600; i++ {
			c, err := net.Dial("tcp", addr)
			if err == nil {
				r := <-s.recCh
				c.Close()
				select {
				case <-r.left:
				case <-time.After(2 * time.Second):
				}
				break
			}
			time.Sleep(5 * time.Millisecond)
		}
		sockS = s
	})
	return sockS
}

// countDelims: how many frames end inside the first n bytes of the stream (frames are 7e..7e with no
// interior 7e, back to back): the number of closing delimiters = floor(#7e / 2).
func closedFrames(b []byte) int {
	k := 0
	for _, x := range b {
		if x == 0x7e {
			k++
		}
	}
	return k / 2
}

// SockFeed plays the chunks on a fresh connection and returns the reader events.
// SockLate: for the last SockFeed call, the chunks after which the reader had dispatched FEWER events than frames
// closed by the bytes sent so far when the bounded wait ended (promptness), as "chunk:have/want".
var SockLate []string

func SockFeed(chunks [][]byte) (evs []string, problem string) {
	SockLate = nil
	s := sockServer()
	s.mu.Lock()
	defer s.mu.Unlock()
	c, err := net.Dial("tcp", s.addr)
	if err != nil {
		return nil, "dial: " + err.Error()
	}
	defer c.Close()
	var rec *sockRec
	select {
	case rec = <-s.recCh:
	case <-time.After(3 * time.Second):
		return nil, "no connection object"
	}
	go func() { // drain replies so that the server's writer never blocks
		buf := make([]byte, 4096)
		for {
			if _, err := c.Read(buf); err != nil {
				return
			}
		}
	}()
	var sent []byte
	for _, ch := range chunks {
		if len(ch) == 0 {
			continue
		}
		if _, err := c.Write(ch); err != nil {
			return rec.snapshot(), "write: " + err.Error()
		}
		sent = append(sent, ch...)
		want := closedFrames(sent) - SockUncounted(sent)
		// wait (bounded) until the reader has dispatched every frame closed so far; when the chunk
		// closes no frame give the reader a moment to pick it up so that reads are not merged
		deadline := time.Now().Add(400 * time.Millisecond)
		if rec.n() >= want {
			time.Sleep(300 * time.Microsecond)
		}
		for rec.n() < want && time.Now().Before(deadline) {
			time.Sleep(100 * time.Microsecond)
		}
		if have := rec.n(); have != want {
			SockLate = append(SockLate, fmt.Sprintf("%d:%d/%d", len(sent), have, want))
		}
	}
	c.Close()
	select {
	case <-rec.left:
	case <-time.After(2 * time.Second):
		problem = "no leave event"
	}
	return rec.snapshot(), problem
}

func (r *sockRec) snapshot() []string {
	r.mu.Lock()
	defer r.mu.Unlock()
	return append([]string{}, r.evs...)
}

func init() {
	RegisterOp("rd", func(a []string) string {
		var chunks [][]byte
		for _, x := range a {
			chunks = append(chunks, Unhx(x))
		}
		evs, prob := SockFeed(chunks)
		if prob != "" {
			return "problem " + prob
		}
		if len(evs) == 0 {
			return "ok -"
		}
		return "ok " + strings.Join(evs, ";")
	})
}

// SockUncounted: complete frames among the bytes sent so far that produce no reader callback (0x8003 goes to the
// re-request channel without OnReadExecutionEvent): frames whose first two payload bytes are 80 03 (no escape
// can occur in them).
func SockUncounted(sent []byte) int {
	n, k := 0, 0
	start := -1
	for i, x := range sent {
		if x != 0x7e {
			continue
		}
		k++
		if k%2 == 1 {
			start = i
		} else if start >= 0 && i-start > 3 && sent[start+1] == 0x80 && sent[start+2] == 0x03 {
			n++
		}
	}
	return n
}

package lib

// C03 — wire-level builders of well-formed bodies for every registered type (they do not go through the library's
// Encode: a decoder must be total on what OTHER implementations send), with the positions of the count / length /
// id fields, which is where a decoder's index expressions come from.

import (
	"math/rand"
)

type C03Gen struct {
	R   *rand.Rand
	Big bool
}

func (g *C03Gen) Bytes(n int) []byte {
	b := make([]byte, n)
	switch g.R.Intn(8) {
	case 0: // zeros
	case 1:
		for i := range b {
			b[i] = 0xFF
		}
	case 2: // printable ASCII
		for i := range b {
			b[i] = byte(0x20 + g.R.Intn(0x5F))
		}
	default:
		g.R.Read(b)
	}
	return b
}

// Ascii: printable text without NUL
func (g *C03Gen) Ascii(n int) []byte {
	b := make([]byte, n)
	for i := range b {
		b[i] = byte(0x21 + g.R.Intn(0x5E))
	}
	return b
}

// Padded: text of at most n bytes, NUL-padded on the right to n (sometimes with NUL bytes inside or in front)
func (g *C03Gen) Padded(n int) []byte {
	b := make([]byte, n)
	if n == 0 {
		return b
	}
	k := g.R.Intn(n + 1)
	copy(b, g.Ascii(k))
	if g.R.Intn(6) == 0 {
		b[g.R.Intn(n)] = 0
	}
	if g.R.Intn(8) == 0 {
		b[0] = 0
	}
	return b
}

// Bcd: n bytes of decimal digits (sometimes not)
func (g *C03Gen) Bcd(n int) []byte {
	b := make([]byte, n)
	for i := range b {
		b[i] = byte(g.R.Intn(10)<<4 | g.R.Intn(10))
	}
	if g.R.Intn(6) == 0 && n > 0 {
		b[g.R.Intn(n)] = byte(g.R.Intn(256))
	}
	return b
}

// smallLen: list / text lengths: mostly small, boundary values now and then
func (g *C03Gen) smallLen(max int) int {
	switch g.R.Intn(8) {
	case 0:
		return 0
	case 1:
		return 1
	case 2:
		if g.Big {
			return max
		}
	}
	m := max
	if !g.Big && m > 6 {
		m = 6
	}
	return g.R.Intn(m + 1)
}

func c03be(n int, v uint64) []byte {
	b := make([]byte, n)
	for i := n - 1; i >= 0; i-- {
		b[i] = byte(v)
		v >>= 8
	}
	return b
}

func c03range(from, n int) []int {
	r := make([]int, n)
	for i := range r {
		r[i] = from + i
	}
	return r
}

func c03Fixed(n int) func(*C03Gen, int, int) ([]byte, [][]int) {
	return func(g *C03Gen, _, _ int) ([]byte, [][]int) { return g.Bytes(n), nil }
}

// [n] text  + rest bytes (0x9101: 7, 0x9201: 23)
func c03vPrefixed(rest int) func(*C03Gen, int, int) ([]byte, [][]int) {
	return func(g *C03Gen, _, _ int) ([]byte, [][]int) {
		n := g.smallLen(255)
		b := append([]byte{byte(n)}, g.Ascii(n)...)
		b = append(b, g.Bytes(rest)...)
		return b, [][]int{{0}}
	}
}

func c03v0100(g *C03Gen, ver, _ int) ([]byte, [][]int) {
	b := g.Bytes(4)
	m, t, i := 5, 8, 7
	switch ver {
	case 3:
		m, t, i = 11, 30, 30
	case 2:
		t = 20
	}
	b = append(b, g.Padded(m)...)
	b = append(b, g.Padded(t)...)
	b = append(b, g.Padded(i)...)
	b = append(b, byte(g.R.Intn(256)))
	pl := g.smallLen(12)
	if g.R.Intn(3) == 0 {
		b = append(b, g.Bytes(pl)...) // any bytes, GBK or not
	} else {
		b = append(b, g.Ascii(pl)...)
	}
	return b, nil
}

func c03v0102(g *C03Gen, ver, _ int) ([]byte, [][]int) {
	if ver != 3 {
		return g.Ascii(g.smallLen(40)), nil
	}
	n := g.smallLen(255)
	b := append([]byte{byte(n)}, g.Ascii(n)...)
	b = append(b, g.Ascii(15)...)
	b = append(b, g.Padded(20)...)
	if g.R.Intn(4) == 0 {
		b = append(b, g.Bytes(g.R.Intn(4))...) // the guard is >=
	}
	return b, [][]int{{0}}
}

var c03ParamIDs = struct{ dword, word, text, byte_, unknown []uint32 }{
	dword: []uint32{0x001, 0x002, 0x003, 0x004, 0x005, 0x006, 0x007, 0x01b, 0x01c, 0x020, 0x022, 0x027, 0x028, 0x029, 0x02c, 0x02d,
		0x02e, 0x02f, 0x030, 0x045, 0x046, 0x047, 0x050, 0x051, 0x052, 0x053, 0x054, 0x055, 0x056, 0x057, 0x058, 0x059, 0x05a,
		0x064, 0x065, 0x070, 0x071, 0x072, 0x073, 0x074, 0x080, 0x093, 0x095, 0x100, 0x102},
	word:    []uint32{0x031, 0x05b, 0x05c, 0x05d, 0x05e, 0x081, 0x082, 0x101, 0x103},
	text:    []uint32{0x010, 0x011, 0x012, 0x013, 0x014, 0x015, 0x016, 0x017, 0x01a, 0x01d, 0x023, 0x024, 0x025, 0x026, 0x040, 0x041, 0x042, 0x043, 0x044, 0x048, 0x049, 0x083},
	byte_:   []uint32{0x084, 0x090, 0x091, 0x092, 0x094},
	unknown: []uint32{0x000, 0x018, 0x019, 0x021, 0x02a, 0x02b, 0x033, 0x075, 0x111, 0xf364, 0x01000001, 0xffffffff},
}

// C03ParamItem: one parameter on the wire with a value of the width its id requires
func (g *C03Gen) C03ParamItem() []byte {
	var id uint32
	var val []byte
	switch g.R.Intn(8) {
	case 0, 1, 2:
		id = c03ParamIDs.dword[g.R.Intn(len(c03ParamIDs.dword))]
		val = g.Bytes(4)
	case 3:
		id = c03ParamIDs.word[g.R.Intn(len(c03ParamIDs.word))]
		val = g.Bytes(2)
	case 4:
		id = c03ParamIDs.text[g.R.Intn(len(c03ParamIDs.text))]
		if g.R.Intn(4) == 0 {
			val = g.Bytes(g.smallLen(20))
		} else {
			val = g.Ascii(g.smallLen(20))
		}
	case 5:
		id = c03ParamIDs.byte_[g.R.Intn(len(c03ParamIDs.byte_))]
		val = g.Bytes(1)
	case 6:
		if g.R.Intn(2) == 0 {
			id, val = 0x032, g.Bytes(4)
		} else {
			id, val = 0x110, g.Bytes(8)
		}
	default:
		id = c03ParamIDs.unknown[g.R.Intn(len(c03ParamIDs.unknown))]
		val = g.Bytes(g.smallLen(12))
	}
	return append(append(c03be(4, uint64(id)), byte(len(val))), val...)
}

// head = 3 (0x0104: serial, count) or 1 (0x8103: count)
func c03vParams(head int) func(*C03Gen, int, int) ([]byte, [][]int) {
	return func(g *C03Gen, _, _ int) ([]byte, [][]int) {
		n := g.smallLen(40)
		b := g.Bytes(head)
		b[head-1] = byte(n)
		pos := [][]int{{head - 1}}
		for i := 0; i < n; i++ {
			it := g.C03ParamItem()
			pos = append(pos, c03range(len(b), 4), []int{len(b) + 4})
			b = append(b, it...)
		}
		return b, pos
	}
}

func (g *C03Gen) tlvs() []byte {
	var b []byte
	ids := []byte{0x01, 0x02, 0x03, 0x04, 0x05, 0x06, 0x11, 0x11, 0x12, 0x13, 0x25, 0x2A, 0x2B, 0x30, 0x31, 0x64, 0xE1}
	lens := map[byte]int{0x01: 4, 0x02: 2, 0x03: 2, 0x04: 2, 0x05: 30, 0x06: 2, 0x11: 5, 0x12: 6, 0x13: 7, 0x25: 4, 0x2A: 2, 0x2B: 4, 0x30: 1, 0x31: 1, 0x64: 47, 0xE1: 3}
	for i := g.smallLen(8); i > 0; i-- {
		id := ids[g.R.Intn(len(ids))]
		n := lens[id]
		if id == 0x11 && g.R.Intn(2) == 0 {
			n = 1
		}
		b = append(append(b, id, byte(n)), g.Bytes(n)...)
	}
	return b
}

func (g *C03Gen) block() []byte {
	return append(g.Bytes(22), g.Bcd(6)...)
}

func c03v0200(g *C03Gen, _, _ int) ([]byte, [][]int) {
	b := g.block()
	t := g.tlvs()
	var pos [][]int
	for i := 0; i < len(t); {
		pos = append(pos, []int{28 + i}, []int{28 + i + 1})
		i += 2 + int(t[i+1])
	}
	return append(b, t...), pos
}

func c03v0704(g *C03Gen, _, _ int) ([]byte, [][]int) {
	n := 1 + g.smallLen(5)
	b := []byte{0, byte(n), byte(g.R.Intn(2))}
	pos := [][]int{{0, 1}}
	for i := 0; i < n; i++ {
		it := append(g.block(), g.tlvs()...)
		pos = append(pos, []int{len(b), len(b) + 1})
		b = append(b, c03be(2, uint64(len(it)))...)
		b = append(b, it...)
	}
	return b, pos
}

func c03v0801(g *C03Gen, _, _ int) ([]byte, [][]int) {
	b := append(g.Bytes(8), g.block()...)
	return append(b, g.Bytes(g.smallLen(30))...), nil
}

func c03v0805(g *C03Gen, _, _ int) ([]byte, [][]int) {
	n := g.smallLen(300)
	b := append(g.Bytes(3), c03be(2, uint64(n))...)
	return append(b, g.Bytes(4*n)...), [][]int{{3, 4}}
}

func c03v1205(g *C03Gen, _, _ int) ([]byte, [][]int) {
	n := g.smallLen(40)
	b := append(g.Bytes(2), c03be(4, uint64(n))...)
	for i := 0; i < n; i++ {
		b = append(b, byte(g.R.Intn(256)))
		b = append(b, g.Bcd(12)...)
		b = append(b, g.Bytes(15)...)
	}
	return b, [][]int{{2, 3, 4, 5}}
}

func c03SignWidths(d int) (idLen, signLen int) {
	switch d {
	case 2:
		return 30, 38
	case 3:
		return 30, 40
	case 4:
		return 7, 32
	case 5:
		return 30, 39
	}
	return 7, 16
}

func (g *C03Gen) sign(d int) []byte {
	idLen, signLen := c03SignWidths(d)
	b := g.Padded(idLen)
	b = append(b, g.Bcd(6)...)
	b = append(b, g.Bytes(2)...)
	return append(b, g.Bytes(signLen-idLen-8)...)
}

func c03v1210(g *C03Gen, _, d int) ([]byte, [][]int) {
	idLen, _ := c03SignWidths(d)
	var b []byte
	if d != 2 {
		b = g.Padded(idLen)
	}
	b = append(b, g.sign(d)...)
	b = append(b, g.Padded(32)...)
	n := g.smallLen(20)
	b = append(b, byte(g.R.Intn(256)), byte(n))
	pos := [][]int{{len(b) - 1}}
	for i := 0; i < n; i++ {
		k := g.smallLen(60)
		pos = append(pos, []int{len(b)})
		b = append(append(b, byte(k)), g.Ascii(k)...)
		b = append(b, g.Bytes(4)...)
	}
	return b, pos
}

func c03v1211(g *C03Gen, _, _ int) ([]byte, [][]int) {
	n := g.smallLen(255)
	b := append([]byte{byte(n)}, g.Ascii(n)...)
	return append(b, g.Bytes(5)...), [][]int{{0}}
}

// head bytes, then a one-byte count at head, then 2-byte ids (0x8003: 2; 0x8800: 4)
func c03v8003(head, _ int) func(*C03Gen, int, int) ([]byte, [][]int) {
	return func(g *C03Gen, _, _ int) ([]byte, [][]int) {
		n := g.smallLen(255)
		b := append(g.Bytes(head), byte(n))
		if head == 4 && n == 0 && g.R.Intn(2) == 0 {
			return b[:4], nil // the 4-byte form of 0x8800
		}
		return append(b, g.Bytes(2*n)...), [][]int{{head}}
	}
}

func c03v8100(g *C03Gen, _, _ int) ([]byte, [][]int) {
	return append(g.Bytes(3), g.Ascii(g.smallLen(30))...), nil
}

func c03v9206(g *C03Gen, _, _ int) ([]byte, [][]int) {
	var b []byte
	var pos [][]int
	txt := func() {
		n := g.smallLen(255)
		pos = append(pos, []int{len(b)})
		b = append(append(b, byte(n)), g.Ascii(n)...)
	}
	txt()
	b = append(b, g.Bytes(2)...)
	txt()
	txt()
	txt()
	b = append(b, byte(g.R.Intn(256)))
	b = append(b, g.Bcd(12)...)
	b = append(b, g.Bytes(12)...)
	return b, pos
}

func c03v9208(g *C03Gen, _, d int) ([]byte, [][]int) {
	n := g.smallLen(255)
	b := append([]byte{byte(n)}, g.Ascii(n)...)
	b = append(b, g.Bytes(4)...)
	b = append(b, g.sign(d)...)
	b = append(b, g.Padded(32)...)
	if g.R.Intn(2) == 0 {
		b = append(b, g.Bytes(g.smallLen(16))...)
	}
	return b, [][]int{{0}}
}

func c03v9212(g *C03Gen, _, _ int) ([]byte, [][]int) {
	n := g.smallLen(255)
	b := append([]byte{byte(n)}, g.Ascii(n)...)
	k := g.smallLen(255)
	b = append(b, byte(g.R.Intn(5)), byte(g.R.Intn(2)), byte(k))
	return append(b, g.Bytes(8*k)...), [][]int{{0}, {1 + n + 2}}
}

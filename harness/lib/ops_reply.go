package lib

// Shared by C06 and C20: an in-process service.GoJT808 on a loopback port with a recording
// TerminalEventer (server A: default handlers untouched) or, additionally, recording Handler
// wrappers around fresh instances of the default model types (server B); an independent frame
// builder / decoder (shares no code with /repo); a conversation player.
//
// A conversation is a list of items (text form, see RpParseItems):
//   F<frame>            a frame sent as it is
//   B<frame>            the same, and the player waits until the reply addressed to this frame's
//                       phone has been read back and reported to the write callback (barrier)
//   K<lastframe>:<body> not sent: the completed sub-packaged message the reassembler delivers after
//                       the packet <lastframe> (header of that packet, whole body)
//   H<n>:<frame>        n frames equal to <frame> except that the serial counts up (mod 65536)
//   P<a>:<b>:<frame>    b-a frames equal to <frame> except that the id runs through a..b-1
//   C<cmd>:<body>       a platform command issued with SendActiveMessage (lock step, 2 ms time-out)
//   Q<body>:<frame>     a 0x9003 query issued with SendActiveMessage and left OUTSTANDING (5 s time-out); as soon as
//                       its frame has been read back the terminal's answer <frame> (a 0x1003 with a 10-byte body)
//                       is sent and the player waits for SendActiveMessage to return
// A frame with id 0x8003 is echoed by the server through another channel: the player waits for
// the echo before it goes on (the generator puts a barrier in front of it).

import (
	"bytes"
	"fmt"
	"net"
	"strconv"
	"strings"
	"sync"
	"sync/atomic"
	"time"

	"github.com/cuteLittleDevil/go-jt808/protocol/jt808"
	"github.com/cuteLittleDevil/go-jt808/protocol/model"
	"github.com/cuteLittleDevil/go-jt808/service"
	"github.com/cuteLittleDevil/go-jt808/shared/consts"
)

// ---------------- independent frame builder / decoder ----------------

type RpFrame struct {
	ID      uint16
	Ver     int // 0: 2013 layout, 1: 2019 layout
	Enc     int
	Frag    bool
	Sum, No uint16
	BCD     []byte // 6 or 10 bytes
	Serial  uint16
	Body    []byte
}

func rpEsc(p []byte) []byte {
	out := []byte{0x7e}
	for _, b := range p {
		switch b {
		case 0x7e:
			out = append(out, 0x7d, 0x02)
		case 0x7d:
			out = append(out, 0x7d, 0x01)
		default:
			out = append(out, b)
		}
	}
	return append(out, 0x7e)
}

func (f RpFrame) Wire() []byte {
	attr := uint16(len(f.Body)) & 0x3ff
	if f.Ver == 1 {
		attr |= 1 << 14
	}
	if f.Frag {
		attr |= 1 << 13
	}
	attr |= uint16(f.Enc&1) << 10
	p := []byte{byte(f.ID >> 8), byte(f.ID), byte(attr >> 8), byte(attr)}
	if f.Ver == 1 {
		p = append(p, 1)
	}
	p = append(p, f.BCD...)
	p = append(p, byte(f.Serial>>8), byte(f.Serial))
	if f.Frag {
		p = append(p, byte(f.Sum>>8), byte(f.Sum), byte(f.No>>8), byte(f.No))
	}
	p = append(p, f.Body...)
	var x byte
	for _, b := range p {
		x ^= b
	}
	return rpEsc(append(p, x))
}

// RpDecode reads one well-formed frame (as the standard lays it out); ok=false otherwise.
func RpDecode(w []byte) (f RpFrame, ok bool) {
	if len(w) < 3 || w[0] != 0x7e || w[len(w)-1] != 0x7e {
		return f, false
	}
	var p []byte
	in := w[1 : len(w)-1]
	for i := 0; i < len(in); i++ {
		if in[i] == 0x7d {
			if i+1 >= len(in) {
				return f, false
			}
			switch in[i+1] {
			case 1:
				p = append(p, 0x7d)
			case 2:
				p = append(p, 0x7e)
			default:
				return f, false
			}
			i++
		} else {
			p = append(p, in[i])
		}
	}
	var x byte
	for _, b := range p {
		x ^= b
	}
	if x != 0 || len(p) < 5 {
		return f, false
	}
	f.ID = uint16(p[0])<<8 | uint16(p[1])
	attr := uint16(p[2])<<8 | uint16(p[3])
	f.Ver = int(attr >> 14 & 1)
	f.Frag = attr>>13&1 == 1
	f.Enc = int(attr >> 10 & 1)
	blen := int(attr & 0x3ff)
	i := 4
	pl := 6
	if f.Ver == 1 {
		i, pl = 5, 10
	}
	if len(p) < i+pl+2 {
		return f, false
	}
	f.BCD = append([]byte{}, p[i:i+pl]...)
	i += pl
	f.Serial = uint16(p[i])<<8 | uint16(p[i+1])
	i += 2
	if f.Frag {
		if len(p) < i+4 {
			return f, false
		}
		f.Sum = uint16(p[i])<<8 | uint16(p[i+1])
		f.No = uint16(p[i+2])<<8 | uint16(p[i+3])
		i += 4
	}
	if i+blen+1 != len(p) {
		return f, false
	}
	f.Body = append([]byte{}, p[i:i+blen]...)
	return f, true
}

// RpPhoneString: the phone as the library shows it (BCD digits, leading zeros dropped unless all zero).
func RpPhoneString(bcd []byte) string {
	s := ""
	for _, b := range bcd {
		s += fmt.Sprintf("%x%x", b>>4, b&15)
	}
	t := strings.TrimLeft(s, "0")
	if t == "" {
		return s
	}
	return t
}

// ---------------- items ----------------

type RpDelivered struct { // one message as the reader loop sees it
	F        RpFrame // header of the (last) packet; Body = whole body
	Complete bool    // SubcontractComplete
	Data     []byte  // TerminalData
	Barrier  bool
}

func (d RpDelivered) HasComplete() bool { return !d.F.Frag || d.F.Sum == 0 || d.Complete }

type RpItem struct {
	Kind  byte
	Send  [][]byte      // frames to send
	Deliv []RpDelivered // what they are delivered as
	Cmd   uint16
	Body  []byte
}

func RpParseItems(toks []string) ([]RpItem, error) {
	var out []RpItem
	for _, t := range toks {
		if len(t) < 2 {
			return nil, fmt.Errorf("item %q", t)
		}
		k, r := t[0], t[1:]
		switch k {
		case 'F', 'B':
			w := Unhx(r)
			f, ok := RpDecode(w)
			if !ok {
				return nil, fmt.Errorf("undecodable")
			}
			out = append(out, RpItem{Kind: k, Send: [][]byte{w}, Deliv: []RpDelivered{{F: f, Data: w, Barrier: k == 'B'}}})
		case 'K':
			a := strings.Split(r, ":")
			f, ok := RpDecode(Unhx(a[0]))
			if len(a) != 2 || !ok {
				return nil, fmt.Errorf("K")
			}
			f.Body = Unhx(a[1])
			out = append(out, RpItem{Kind: k, Deliv: []RpDelivered{{F: f, Complete: true, Data: f.Body}}})
		case 'H', 'P':
			a := strings.Split(r, ":")
			f, ok := RpDecode(Unhx(a[len(a)-1]))
			if !ok {
				return nil, fmt.Errorf("undecodable")
			}
			it := RpItem{Kind: k}
			if k == 'H' {
				n, _ := strconv.Atoi(a[0])
				for i := 0; i < n; i++ {
					g := f
					g.Serial = f.Serial + uint16(i)
					w := g.Wire()
					it.Send = append(it.Send, w)
					it.Deliv = append(it.Deliv, RpDelivered{F: g, Data: w})
				}
			} else {
				lo, _ := strconv.Atoi(a[0])
				hi, _ := strconv.Atoi(a[1])
				for i := lo; i < hi; i++ {
					g := f
					g.ID = uint16(i)
					w := g.Wire()
					it.Send = append(it.Send, w)
					it.Deliv = append(it.Deliv, RpDelivered{F: g, Data: w})
				}
			}
			out = append(out, it)
		case 'C':
			a := strings.Split(r, ":")
			c, _ := strconv.Atoi(a[0])
			out = append(out, RpItem{Kind: k, Cmd: uint16(c), Body: Unhx(a[1])})
		case 'Q':
			a := strings.Split(r, ":")
			if len(a) != 2 {
				return nil, fmt.Errorf("Q")
			}
			w := Unhx(a[1])
			f, ok := RpDecode(w)
			if !ok || f.ID != 0x1003 || len(f.Body) != 10 || f.Frag {
				return nil, fmt.Errorf("Q")
			}
			out = append(out, RpItem{Kind: k, Cmd: 0x9003, Body: Unhx(a[0]), Send: [][]byte{w}, Deliv: []RpDelivered{{F: f, Data: w}}})
		default:
			return nil, fmt.Errorf("item %q", t)
		}
	}
	return out, nil
}

// ---------------- recording ----------------

type RpEv struct {
	Kind     string // N (not supported), H / E (read callback of the Handler / the TerminalEventer), h / e (write callbacks)
	ID       uint16
	Serial   uint16
	Terminal []byte
	Platform []byte
	Seq      int64 // global order of callbacks in this process
	FramesBefore int // read callbacks: how many frames the terminal side had read from the socket when the callback ran
	Msg      *jt808.JTMessage
}

var rpSeq int64

type RpRec struct {
	mu      sync.Mutex
	Reader  []RpEv // callbacks made by the reader goroutine, in order
	Writer  []RpEv // callbacks made by the writer goroutine, in order
	Key     string
	Joined  bool
	left    chan struct{}
	once    sync.Once
	Problem []string // read-before-write violations noticed while recording
	seen    map[*jt808.JTMessage]bool
	seenH   map[*jt808.JTMessage]bool
	frames  func() int // frames read back from the socket so far (set by RpPlay)
}

func newRpRec() *RpRec {
	return &RpRec{left: make(chan struct{}), seen: map[*jt808.JTMessage]bool{}, seenH: map[*jt808.JTMessage]bool{}}
}

func (r *RpRec) add(reader bool, kind string, m *service.Message, withPlatform bool) {
	ev := RpEv{Kind: kind, Seq: atomic.AddInt64(&rpSeq, 1), Msg: m.JTMessage}
	if m.JTMessage != nil && m.JTMessage.Header != nil {
		ev.ID, ev.Serial = m.JTMessage.Header.ID, m.JTMessage.Header.SerialNumber
	}
	ev.Terminal = append([]byte{}, m.ExtensionFields.TerminalData...)
	if reader {
		r.mu.Lock()
		fn := r.frames
		r.mu.Unlock()
		if fn != nil {
			ev.FramesBefore = fn()
		}
	}
	if withPlatform {
		ev.Platform = append([]byte{}, m.ExtensionFields.PlatformData...)
	}
	r.mu.Lock()
	if reader {
		r.Reader = append(r.Reader, ev)
		if kind == "E" {
			r.seen[m.JTMessage] = true
		}
		if kind == "H" {
			r.seenH[m.JTMessage] = true
		}
	} else {
		r.Writer = append(r.Writer, ev)
		if kind == "e" && uint16(m.Command) != 0x8003 && !r.seen[m.JTMessage] {
			r.Problem = append(r.Problem, fmt.Sprintf("write callback for id=%04x serial=%d before its read callback", ev.ID, ev.Serial))
		}
		if kind == "h" && uint16(m.Command) != 0x8003 && !r.seenH[m.JTMessage] {
			r.Problem = append(r.Problem, fmt.Sprintf("Handler write callback for id=%04x serial=%d before the Handler's read callback", ev.ID, ev.Serial))
		}
	}
	r.mu.Unlock()
}

func (r *RpRec) OnJoinEvent(_ *service.Message, key string, err error) {
	if err == nil {
		r.mu.Lock()
		r.Key, r.Joined = key, true
		r.mu.Unlock()
	}
}
func (r *RpRec) OnLeaveEvent(_ string)                    { r.once.Do(func() { close(r.left) }) }
func (r *RpRec) OnNotSupportedEvent(m *service.Message)   { r.add(true, "N", m, false) }
func (r *RpRec) OnReadExecutionEvent(m *service.Message)  { r.add(true, "E", m, false) }
func (r *RpRec) OnWriteExecutionEvent(m service.Message) {
	if m.ExtensionFields.ActiveSend { // completion of a platform command: C12's subject
		return
	}
	r.add(false, "e", &m, true)
}

func (r *RpRec) snapshot() (rd, wr []RpEv, prob []string) {
	r.mu.Lock()
	defer r.mu.Unlock()
	return append([]RpEv{}, r.Reader...), append([]RpEv{}, r.Writer...), append([]string{}, r.Problem...)
}

type rpHandler struct {
	service.JT808Handler
	rec *RpRec
}

func (h *rpHandler) OnReadExecutionEvent(m *service.Message) { h.rec.add(true, "H", m, false) }
func (h *rpHandler) OnWriteExecutionEvent(m service.Message) {
	if m.ExtensionFields.ActiveSend {
		return
	}
	h.rec.add(false, "h", &m, true)
}

// RpModelTypes: a fresh instance of the model type the default configuration registers for an id
// (used by server B's wrappers and by the "rtable" op).
func RpModelTypes() map[uint16]service.JT808Handler {
	return map[uint16]service.JT808Handler{
		0x0001: &model.T0x0001{}, 0x0100: &model.T0x0100{}, 0x0102: &model.T0x0102{}, 0x0002: &model.T0x0002{},
		0x0200: &model.T0x0200{}, 0x0704: &model.T0x0704{}, 0x0104: &model.T0x0104{}, 0x0805: &model.T0x0805{},
		0x0800: &model.T0x0800{}, 0x0801: &model.T0x0801{}, 0x8003: &model.P0x8003{}, 0x8103: &model.P0x8103{},
		0x8104: &model.P0x8104{}, 0x8801: &model.P0x8801{}, 0x9003: &model.P0x9003{}, 0x1003: &model.T0x1003{},
		0x1005: &model.T0x1005{}, 0x9101: &model.P0x9101{}, 0x9102: &model.P0x9102{}, 0x9205: &model.P0x9205{},
		0x1205: &model.T0x1205{}, 0x9206: &model.P0x9206{}, 0x1206: &model.T0x1206{}, 0x9207: &model.P0x9207{},
		0x9208: &model.P0x9208{}, 0x1210: &model.T0x1210{}, 0x1211: &model.T0x1211{}, 0x1212: &model.T0x1212{},
	}
}

type RpSrv struct {
	Mode  string
	Addr  string
	G     *service.GoJT808
	recCh chan *RpRec
	cur   *RpRec
	dial  sync.Mutex
}

func rpFreeAddr() string {
	l, err := net.Listen("tcp", "127.0.0.1:0")
	if err != nil {
		panic(err)
	}
	a := l.Addr().String()
	l.Close()
	return a
}

var rpSrvs = map[string]*RpSrv{}
var rpSrvMu sync.Mutex

// RpServer returns the (lazily started) server of the given mode: "A" default handlers,
// "B" recording wrappers around the same model types.
func RpServer(mode string) *RpSrv {
	rpSrvMu.Lock()
	defer rpSrvMu.Unlock()
	if s, ok := rpSrvs[mode]; ok {
		return s
	}
	s := &RpSrv{Mode: mode, Addr: rpFreeAddr(), recCh: make(chan *RpRec, 64)}
	opts := []service.Option{service.WithHostPorts(s.Addr)}
	if mode == "B" {
		opts = append(opts, service.WithCustomHandleFunc(func() map[consts.JT808CommandType]service.Handler {
			s.cur = newRpRec()
			out := map[consts.JT808CommandType]service.Handler{}
			for id, h := range RpModelTypes() {
				out[consts.JT808CommandType(id)] = &rpHandler{JT808Handler: h, rec: s.cur}
			}
			return out
		}))
	}
	opts = append(opts, service.WithCustomTerminalEventer(func() service.TerminalEventer {
		r := s.cur
		if mode != "B" || r == nil {
			r = newRpRec()
		}
		s.cur = nil
		s.recCh <- r
		return r
	}))
	s.G = service.New(opts...)
	go s.G.Run()
	for i := 0; i < 400; i++ {
		c, err := net.Dial("tcp", s.Addr)
		if err == nil {
			r := <-s.recCh
			c.Close()
			<-r.left
			break
		}
		time.Sleep(5 * time.Millisecond)
	}
	rpSrvs[mode] = s
	return s
}

// ---------------- playing a conversation ----------------

type RpResult struct {
	Frames   [][]byte
	Reader   []RpEv
	Writer   []RpEv
	Problems []string
	Timeout  string
}

type rpClient struct {
	conn    net.Conn
	mu      sync.Mutex
	frames  [][]byte
	closed  bool
	nframes int64 // len(frames), readable without the lock (the server's read callbacks sample it)
}

func (c *rpClient) readLoop() {
	buf := make([]byte, 65536)
	var acc []byte
	for {
		n, err := c.conn.Read(buf)
		if n > 0 {
			acc = append(acc, buf[:n]...)
			for {
				i := bytes.IndexByte(acc, 0x7e)
				if i < 0 {
					acc = acc[:0]
					break
				}
				j := bytes.IndexByte(acc[i+1:], 0x7e)
				if j < 0 {
					acc = acc[i:]
					break
				}
				fr := append([]byte{}, acc[i:i+j+2]...)
				acc = acc[i+j+2:]
				c.mu.Lock()
				c.frames = append(c.frames, fr)
				atomic.StoreInt64(&c.nframes, int64(len(c.frames)))
				c.mu.Unlock()
			}
		}
		if err != nil {
			c.mu.Lock()
			c.closed = true
			c.mu.Unlock()
			return
		}
	}
}

func rpWait(d time.Duration, pred func() bool) bool {
	deadline := time.Now().Add(d)
	for i := 0; ; i++ {
		if pred() {
			return true
		}
		if time.Now().After(deadline) {
			return false
		}
		if i < 200 {
			time.Sleep(20 * time.Microsecond)
		} else {
			time.Sleep(500 * time.Microsecond)
		}
	}
}

// RpPlay runs the items on one fresh connection of the server; flush: 0 every frame its own write,
// n>0 up to n frames per write, -n writes cut into pieces of at most n bytes.
func (s *RpSrv) RpPlay(items []RpItem, flush int) *RpResult {
	res := &RpResult{}
	s.dial.Lock()
	conn, err := net.Dial("tcp", s.Addr)
	if err != nil {
		s.dial.Unlock()
		res.Timeout = "dial"
		return res
	}
	var rec *RpRec
	select {
	case rec = <-s.recCh:
	case <-time.After(5 * time.Second):
		s.dial.Unlock()
		conn.Close()
		res.Timeout = "accept"
		return res
	}
	s.dial.Unlock()
	cl := &rpClient{conn: conn}
	rec.mu.Lock()
	rec.frames = func() int { return int(atomic.LoadInt64(&cl.nframes)) }
	rec.mu.Unlock()
	go cl.readLoop()
	const wait = 8 * time.Second
	var pend []byte
	npend := 0
	flushNow := func() {
		if len(pend) == 0 {
			return
		}
		if flush < 0 {
			for off := 0; off < len(pend); off += -flush {
				end := off + -flush
				if end > len(pend) {
					end = len(pend)
				}
				conn.Write(pend[off:end])
			}
		} else {
			conn.Write(pend)
		}
		pend, npend = pend[:0], 0
	}
	haveFrom := 0 // frames before this index were received before the current barrier frame was sent
	have := func(pred func(f RpFrame) bool) bool {
		cl.mu.Lock()
		defer cl.mu.Unlock()
		for _, w := range cl.frames[haveFrom:] {
			if f, ok := RpDecode(w); ok && pred(f) {
				return true
			}
		}
		return false
	}
	count8003 := func() int {
		cl.mu.Lock()
		defer cl.mu.Unlock()
		n := 0
		for _, w := range cl.frames {
			if f, ok := RpDecode(w); ok && f.ID == 0x8003 {
				n++
			}
		}
		return n
	}
	sent8003 := 0
	for _, it := range items {
		if res.Timeout != "" {
			break
		}
		if it.Kind == 'C' {
			flushNow()
			rec.mu.Lock()
			key, joined := rec.Key, rec.Joined
			rec.mu.Unlock()
			if joined {
				s.G.SendActiveMessage(service.NewActiveMessage(key, consts.JT808CommandType(it.Cmd), it.Body, 2*time.Millisecond))
			}
			continue
		}
		if it.Kind == 'Q' {
			flushNow()
			rec.mu.Lock()
			key, joined := rec.Key, rec.Joined
			rec.mu.Unlock()
			count9003 := func() int {
				cl.mu.Lock()
				defer cl.mu.Unlock()
				n := 0
				for _, w := range cl.frames {
					if f, ok := RpDecode(w); ok && f.ID == 0x9003 {
						n++
					}
				}
				return n
			}
			if joined {
				before := count9003()
				done := make(chan struct{})
				go func() {
					s.G.SendActiveMessage(service.NewActiveMessage(key, consts.JT808CommandType(it.Cmd), it.Body, 5*time.Second))
					close(done)
				}()
				if !rpWait(wait, func() bool { return count9003() > before }) {
					res.Timeout = "query"
					break
				}
				conn.Write(it.Send[0])
				select {
				case <-done:
				case <-time.After(wait):
					res.Timeout = "answer"
				}
				continue
			}
			s.G.SendActiveMessage(service.NewActiveMessage(key, consts.JT808CommandType(it.Cmd), it.Body, 2*time.Millisecond))
		}
		if len(it.Deliv) > 0 && it.Deliv[len(it.Deliv)-1].Barrier {
			haveFrom = int(atomic.LoadInt64(&cl.nframes))
		}
		for i, w := range it.Send {
			pend = append(pend, w...)
			npend++
			d := it.Deliv[i]
			if flush <= 0 || npend >= flush || d.Barrier || d.F.ID == 0x8003 {
				flushNow()
			}
			if d.Barrier {
				// the reply to the barrier frame arrives after everything received so far, except the frames of this
				// same flush that were answered in between: look at the frames received since this item began
				ok := rpWait(wait, func() bool {
					if !have(func(f RpFrame) bool { return bytes.Equal(f.BCD, d.F.BCD) }) {
						return false
					}
					rec.mu.Lock()
					defer rec.mu.Unlock()
					for k := len(rec.Writer) - 1; k >= 0; k-- {
						if rec.Writer[k].Kind == "e" && bytes.Equal(rec.Writer[k].Terminal, w) {
							return true
						}
					}
					return false
				})
				if !ok {
					res.Timeout = "barrier"
					break
				}
			}
			if d.F.ID == 0x8003 && !d.F.Frag {
				sent8003++
				want := sent8003
				if !rpWait(wait, func() bool { return count8003() >= want }) {
					res.Timeout = "echo"
					break
				}
			}
		}
	}
	flushNow()
	conn.Close()
	select {
	case <-rec.left:
	case <-time.After(wait):
		res.Timeout += "+leave"
	}
	cl.mu.Lock()
	res.Frames = cl.frames
	cl.mu.Unlock()
	res.Reader, res.Writer, res.Problems = rec.snapshot()
	return res
}

// ---------------- canonical answer (the same text the oracle driver prints) ----------------

func rpCs(b []byte) uint32 {
	a := uint64(7)
	for _, x := range b {
		a = (a*31 + uint64(x) + 1) & 0xFFFFFFFF
	}
	return uint32(a)
}

func rpDig(l []string) uint64 {
	a := uint64(1)
	for _, s := range l {
		a = (a*131 + uint64(rpCs([]byte(s)))) & 0xFFFFFFFFFFFF
	}
	return a
}

func (r *RpResult) Canon(mode string) string {
	var fr, rd, wr []string
	for _, f := range r.Frames {
		fr = append(fr, Hx(f))
	}
	for _, e := range r.Reader {
		if e.Kind == "H" && mode != "B" {
			continue
		}
		rd = append(rd, fmt.Sprintf("%s%04x.%d.%x", e.Kind, e.ID, e.Serial, rpCs(e.Terminal)))
	}
	for _, e := range r.Writer {
		wr = append(wr, fmt.Sprintf("%s%04x.%d.%x.%x", strings.ToUpper(e.Kind), e.ID, e.Serial, rpCs(e.Terminal), rpCs(e.Platform)))
	}
	j := func(l []string) string {
		if len(l) == 0 {
			return "-"
		}
		return strings.Join(l, ",")
	}
	var out string
	if len(fr) <= 300 && len(rd) <= 1000 {
		out = fmt.Sprintf("ok n=%d frames=%s rd=%s wr=%s", len(fr), j(fr), j(rd), j(wr))
	} else {
		first, last := "-", "-"
		if len(fr) > 0 {
			first, last = fr[0], fr[len(fr)-1]
		}
		out = fmt.Sprintf("ok n=%d framesdig=%x first=%s last=%s rdn=%d rddig=%x wrn=%d wrdig=%x", len(fr), rpDig(fr),
			first, last, len(rd), rpDig(rd), len(wr), rpDig(wr))
	}
	if r.Timeout != "" {
		out += " timeout=" + r.Timeout
	}
	return out
}

func init() {
	// conv <A|B> <item> ...
	RegisterOp("conv", func(a []string) string {
		items, err := RpParseItems(a[1:])
		if err != nil {
			return "bad-" + err.Error()
		}
		return RpServer(a[0]).RpPlay(items, 0).Canon(a[0])
	})
	// conviter: the same request evaluated by the oracle driver's loop (model side only differs)
	RegisterOp("conviter", func(a []string) string {
		items, err := RpParseItems(a[1:])
		if err != nil {
			return "bad-" + err.Error()
		}
		return RpServer(a[0]).RpPlay(items, 0).Canon(a[0])
	})
	// rtable <id>: HasReply / ReplyProtocol of the model type registered for the id
	RegisterOp("rtable", func(a []string) string {
		h, ok := RpModelTypes()[uint16(atoi(a[0]))]
		if !ok {
			return "none"
		}
		b := 0
		if h.HasReply() {
			b = 1
		}
		return fmt.Sprintf("reg has=%d rid=%d", b, uint16(h.ReplyProtocol()))
	})
}

// RpDig / RpCs: the digests used in canonical answers (the oracle drivers compute the same)
func RpDig(l []string) uint64 { return rpDig(l) }
func RpCs(b []byte) uint32    { return rpCs(b) }

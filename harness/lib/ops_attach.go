package lib

// Attachment server (package attachment) ops shared by C15, C16, C19 and the attachment half of C10.
// Owned by the builder "attach".
//
// Everything that builds wire data here (frames, 0x1210/0x1211/0x1212 bodies, chunk headers) is
// written from the standard's tables and shares no code with /repo.

import (
	"encoding/binary"
	"fmt"
	"net"
	"sort"
	"strings"
	"sync"
	"time"

	"github.com/cuteLittleDevil/go-jt808/attachment"
	"github.com/cuteLittleDevil/go-jt808/shared/consts"
)

// ---------------------------------------------------------------- independent builders

// AttDialects: the five active-safety dialects (consts.ActiveSafetyJS..SC = 1..5).
var AttDialects = []int{1, 2, 3, 4, 5}

const AttHLJ = 2

// attIDLen / attSignLen: terminal-id and alarm-sign widths of the 0x1210 body per dialect
// (JS 7/16, HLJ none/38, GD 30/40, HN 7/32, SC 30/39).
func attIDLen(d int) int {
	switch d {
	case 2:
		return 0
	case 3, 5:
		return 30
	}
	return 7
}

func attSignLen(d int) int {
	switch d {
	case 2:
		return 38
	case 3:
		return 40
	case 4:
		return 32
	case 5:
		return 39
	}
	return 16
}

// Frame808 builds one JT/T 808 frame: header (2013: 6 BCD bytes, 2019: version byte + 10 BCD bytes),
// body, xor check code, escaped, delimited by 0x7e.
func Frame808(id uint16, v2019 bool, bcd []byte, serial uint16, body []byte) []byte {
	attr := uint16(len(body) & 0x3ff)
	if v2019 {
		attr |= 1 << 14
	}
	p := []byte{byte(id >> 8), byte(id), byte(attr >> 8), byte(attr)}
	if v2019 {
		p = append(p, 1)
	}
	p = append(p, bcd...)
	p = append(p, byte(serial>>8), byte(serial))
	p = append(p, body...)
	var x byte
	for _, b := range p {
		x ^= b
	}
	p = append(p, x)
	out := []byte{0x7e}
	for _, b := range p {
		switch b {
		case 0x7e:
			out = append(out, 0x7d, 0x02)
		case 0x7d:
			out = append(out, 0x7d, 0x01)
		default:
			out = append(out, b)
		}
	}
	return append(out, 0x7e)
}

type AttItem struct {
	Name []byte
	Size uint32
}

// Body1210 : terminal id (not HLJ) | alarm sign | alarm id [32] | info type | count | items
// (name length BYTE, name, size DWORD).  pre = the id+sign+alarm-id prefix bytes (arbitrary content of
// the dialect's width); count < 0 means len(items).
func Body1210(d int, pre []byte, infoType byte, count int, items []AttItem) []byte {
	want := attIDLen(d) + attSignLen(d) + 32
	b := make([]byte, want)
	copy(b, pre)
	if count < 0 {
		count = len(items)
	}
	b = append(b, infoType, byte(count))
	for _, it := range items {
		b = append(b, byte(len(it.Name)))
		b = append(b, it.Name...)
		b = binary.BigEndian.AppendUint32(b, it.Size)
	}
	return b
}

// Body1211 (also the body of 0x1212): name length BYTE | name | type BYTE | size DWORD
func Body1211(name []byte, typ byte, size uint32) []byte {
	b := []byte{byte(len(name))}
	b = append(b, name...)
	b = append(b, typ)
	return binary.BigEndian.AppendUint32(b, size)
}

// ChunkHead: 30 31 63 64 | name [50] zero padded | offset DWORD | length DWORD ; HLJ: marker | name
// length BYTE | name | offset | length.
func ChunkHead(d int, name []byte, off, ln uint32) []byte {
	b := []byte{0x30, 0x31, 0x63, 0x64}
	if d == AttHLJ {
		b = append(b, byte(len(name)))
		b = append(b, name...)
	} else {
		n := make([]byte, 50)
		copy(n, name)
		b = append(b, n...)
	}
	b = binary.BigEndian.AppendUint32(b, off)
	return binary.BigEndian.AppendUint32(b, ln)
}

func Chunk(d int, name []byte, off uint32, data []byte) []byte {
	return append(ChunkHead(d, name, off, uint32(len(data))), data...)
}

// Parse808 is an independent reader of one unescaped-on-the-fly frame: id, serial, body (no checks
// beyond what is needed to find the fields); ok=false if the bytes are not one well-formed frame.
func Parse808(f []byte) (id uint16, v2019 bool, bcd []byte, serial uint16, body []byte, ok bool) {
	if len(f) < 2 || f[0] != 0x7e || f[len(f)-1] != 0x7e {
		return
	}
	var p []byte
	in := f[1 : len(f)-1]
	for i := 0; i < len(in); i++ {
		if in[i] == 0x7d && i+1 < len(in) {
			if in[i+1] == 1 {
				p = append(p, 0x7d)
			} else if in[i+1] == 2 {
				p = append(p, 0x7e)
			} else {
				return
			}
			i++
		} else {
			p = append(p, in[i])
		}
	}
	if len(p) < 13 {
		return
	}
	var x byte
	for _, b := range p {
		x ^= b
	}
	if x != 0 {
		return
	}
	id = uint16(p[0])<<8 | uint16(p[1])
	attr := uint16(p[2])<<8 | uint16(p[3])
	v2019 = attr&(1<<14) != 0
	h := 4
	if v2019 {
		h = 5
		if len(p) < 18 {
			return
		}
		bcd = p[h : h+10]
		h += 10
	} else {
		bcd = p[h : h+6]
		h += 6
	}
	serial = uint16(p[h])<<8 | uint16(p[h+1])
	h += 2
	if attr&(1<<13) != 0 {
		h += 4
	}
	if h > len(p)-1 || int(attr&0x3ff) != len(p)-1-h {
		return
	}
	body = p[h : len(p)-1]
	ok = true
	return
}

// SplitFrames cuts a byte stream that consists of whole frames into frames (delimiter to delimiter).
func SplitFrames(w []byte) (frames [][]byte, ok bool) {
	for len(w) > 0 {
		if w[0] != 0x7e {
			return frames, false
		}
		j := -1
		for i := 1; i < len(w); i++ {
			if w[i] == 0x7e {
				j = i
				break
			}
		}
		if j < 0 {
			return frames, false
		}
		frames = append(frames, w[:j+1])
		w = w[j+1:]
	}
	return frames, true
}

// ---------------------------------------------------------------- running the real connection

type AttFile struct {
	Name        string
	FileSize    uint32
	CurrentSize uint32
	Recs        [][2]int // OffsetRecord sorted by offset
	DataLens    [][2]int // OffsetDataRecord: offset, len(data), sorted
	Body        []byte
}

type AttEvent struct {
	Stage int
	Cur   string // hex of CurrentPackage.FileName, "nil" when there is none
	Reply []byte // RecentPlatformData when the stage is one that is answered
	Hist  int
	Files []AttFile
	Err   bool
}

type AttResult struct {
	Events []AttEvent
	Wire   []byte // every byte the server wrote to the connection
	Panic  string // non-empty: a panic escaped connection.run (process-wide in the real server)
	Stuck  bool   // the harness gave up waiting (deadline)
}

type attRecorder struct {
	mu     sync.Mutex
	events []AttEvent
	next   attachment.FileEventer
}

func (r *attRecorder) OnEvent(p *attachment.PackageProgress) {
	ev := AttEvent{Stage: int(p.ProgressStage), Cur: "nil", Hist: p.VerifHistoryLen(), Err: p.ExtensionFields.Err != nil}
	if cp := p.ExtensionFields.CurrentPackage; cp != nil {
		ev.Cur = Hx([]byte(cp.FileName))
		if ev.Cur == "-" {
			ev.Cur = "empty"
		}
	}
	switch p.ProgressStage {
	case attachment.ProgressStageInit, attachment.ProgressStageStart, attachment.ProgressStageComplete,
		attachment.ProgressStageSupplementary:
		ev.Reply = append([]byte{}, p.ExtensionFields.RecentPlatformData...)
	}
	for name, pk := range p.Record {
		f := AttFile{Name: name, FileSize: pk.FileSize, CurrentSize: pk.CurrentSize, Body: append([]byte{}, pk.StreamBody...)}
		for o, l := range pk.OffsetRecord {
			f.Recs = append(f.Recs, [2]int{o, l})
		}
		for o, dta := range pk.OffsetDataRecord {
			f.DataLens = append(f.DataLens, [2]int{o, len(dta)})
		}
		sort.Slice(f.Recs, func(i, j int) bool { return f.Recs[i][0] < f.Recs[j][0] })
		sort.Slice(f.DataLens, func(i, j int) bool { return f.DataLens[i][0] < f.DataLens[j][0] })
		ev.Files = append(ev.Files, f)
	}
	sort.Slice(ev.Files, func(i, j int) bool { return ev.Files[i].Name < ev.Files[j].Name })
	r.mu.Lock()
	r.events = append(r.events, ev)
	r.mu.Unlock()
	if r.next != nil {
		r.next.OnEvent(p)
	}
}

// AttRun feeds the segments to one real attachment connection (connection.run via VerifRun) over a
// net.Pipe: one Write is exactly one Read of the server.  After every segment an empty Write acts as a
// barrier (it returns when the server is back in Read, i.e. has processed everything and written its
// replies).  Then the client closes.  next (optional) also receives every event (e.g. the default
// file handler).
func AttRun(dialect int, segs [][]byte, next attachment.FileEventer) AttResult {
	cli, srv := net.Pipe()
	rec := &attRecorder{next: next}
	var res AttResult
	done := make(chan struct{})
	go func() {
		defer close(done)
		defer srv.Close()
		defer func() {
			if r := recover(); r != nil {
				res.Panic = fmt.Sprint(r)
			}
		}()
		attachment.VerifRun(srv, consts.ActiveSafetyType(dialect), rec)
	}()
	var wire []byte
	rdone := make(chan struct{})
	go func() {
		defer close(rdone)
		buf := make([]byte, 65536)
		for {
			n, err := cli.Read(buf)
			wire = append(wire, buf[:n]...)
			if err != nil {
				return
			}
		}
	}()
	deadline := time.Now().Add(20 * time.Second)
	cli.SetWriteDeadline(deadline)
	for _, s := range segs {
		if len(s) == 0 {
			continue
		}
		if _, err := cli.Write(s); err != nil {
			break
		}
		if _, err := cli.Write(nil); err != nil { // barrier
			break
		}
	}
	cli.Close()
	select {
	case <-done:
	case <-time.After(time.Until(deadline) + time.Second):
		res.Stuck = true
	}
	<-rdone
	rec.mu.Lock()
	res.Events = rec.events
	rec.mu.Unlock()
	res.Wire = wire
	return res
}

func fnv32(b []byte) uint32 {
	h := uint32(2166136261)
	for _, x := range b {
		h ^= uint32(x)
		h *= 16777619
	}
	return h
}

func hxOrEmpty(b []byte) string {
	if len(b) == 0 {
		return "-"
	}
	return Hx(b)
}

// AttCanon: the canonical answer of op "att" (projected observables only).
func AttCanon(r AttResult) string {
	if r.Panic != "" {
		return "panic"
	}
	if r.Stuck {
		return "stuck"
	}
	var sb strings.Builder
	fmt.Fprintf(&sb, "ok n=%d", len(r.Events))
	for _, e := range r.Events {
		fmt.Fprintf(&sb, " [st=%d cur=%s hist=%d err=%d reply=%s files=", e.Stage, e.Cur, e.Hist, b2i(e.Err), hxOrEmpty(e.Reply))
		if len(e.Files) == 0 {
			sb.WriteString("-")
		}
		for i, f := range e.Files {
			if i > 0 {
				sb.WriteString(",")
			}
			fmt.Fprintf(&sb, "%s:%d:%d:", hxOrEmpty([]byte(f.Name)), f.FileSize, f.CurrentSize)
			for j, rc := range f.Recs {
				if j > 0 {
					sb.WriteString(".")
				}
				fmt.Fprintf(&sb, "%d+%d", rc[0], rc[1])
			}
			fmt.Fprintf(&sb, ":%d/%08x", len(f.Body), fnv32(f.Body))
		}
		sb.WriteString("]")
	}
	fmt.Fprintf(&sb, " wire=%d/%08x", len(r.Wire), fnv32(r.Wire))
	return sb.String()
}

func b2i(b bool) int {
	if b {
		return 1
	}
	return 0
}

// AttRequest renders the oracle request of op "att": att <dialect> <seg-hex> <seg-hex> ...
func AttRequest(dialect int, segs [][]byte) string {
	var sb strings.Builder
	fmt.Fprintf(&sb, "att %d", dialect)
	for _, s := range segs {
		if len(s) > 0 {
			sb.WriteString(" ")
			sb.WriteString(Hx(s))
		}
	}
	return sb.String()
}

func attOp(a []string) string {
	d := atoi(a[0])
	var segs [][]byte
	for _, h := range a[1:] {
		segs = append(segs, Unhx(h))
	}
	return AttCanon(AttRun(d, segs, nil))
}

// Cuts splits a stream at the given positions (ascending, inside the stream).
func Cuts(stream []byte, pos []int) [][]byte {
	var segs [][]byte
	last := 0
	for _, p := range pos {
		if p > last && p < len(stream) {
			segs = append(segs, stream[last:p])
			last = p
		}
	}
	return append(segs, stream[last:])
}

func init() {
	// att <dialect 1..5> <segment-hex>... : one connection, one read per segment, then close
	RegisterOp("att", attOp)
}

// ---------------------------------------------------------------- reference computations (independent)

type AttSeg struct{ O, L uint32 }

// RefGaps: the maximal runs of bytes < size covered by no chunk, by membership tests on the elementary
// intervals between consecutive boundaries (no sorting of chunks, no running offset).
func RefGaps(size uint64, chunks []AttSeg) []AttSeg {
	bs := map[uint64]bool{0: true, size: true}
	for _, c := range chunks {
		for _, b := range []uint64{uint64(c.O), uint64(c.O) + uint64(c.L)} {
			if b < size {
				bs[b] = true
			}
		}
	}
	var pts []uint64
	for b := range bs {
		pts = append(pts, b)
	}
	sort.Slice(pts, func(i, j int) bool { return pts[i] < pts[j] })
	coveredAt := func(x uint64) bool {
		for _, c := range chunks {
			if uint64(c.O) <= x && x < uint64(c.O)+uint64(c.L) {
				return true
			}
		}
		return false
	}
	var out []AttSeg
	open := false
	var start uint64
	for i := 0; i+1 < len(pts); i++ {
		cov := coveredAt(pts[i])
		if !cov && !open {
			open, start = true, pts[i]
		}
		if cov && open {
			out = append(out, AttSeg{uint32(start), uint32(pts[i] - start)})
			open = false
		}
	}
	if open {
		out = append(out, AttSeg{uint32(start), uint32(size - start)})
	}
	return out
}

// Ref9212: independent reader of a 0x9212 body
func Ref9212(b []byte) (name []byte, typ, res byte, cnt int, list []AttSeg, ok bool) {
	if len(b) < 1 || len(b) < 4+int(b[0]) {
		return
	}
	n := int(b[0])
	name, typ, res, cnt = b[1:1+n], b[1+n], b[2+n], int(b[3+n])
	rest := b[4+n:]
	if len(rest)%8 != 0 {
		return
	}
	for i := 0; i < len(rest); i += 8 {
		list = append(list, AttSeg{binary.BigEndian.Uint32(rest[i:]), binary.BigEndian.Uint32(rest[i+4:])})
	}
	ok = true
	return
}

func AttSegsStr(s []AttSeg) string {
	if len(s) == 0 {
		return "-"
	}
	var sb strings.Builder
	for i, x := range s {
		if i > 0 {
			sb.WriteByte(',')
		}
		fmt.Fprintf(&sb, "%d+%d", x.O, x.L)
	}
	return sb.String()
}

func AttSegsEq(a, b []AttSeg) bool {
	if len(a) != len(b) {
		return false
	}
	for i := range a {
		if a[i] != b[i] {
			return false
		}
	}
	return true
}

// ---------------------------------------------------------------- child-process attachment server

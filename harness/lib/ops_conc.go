package lib

// Live-server helpers shared by C11, C12, C13 and C18 (builder "conc"): an in-process
// service.New(...) server on a loopback port, a recording TerminalEventer, scripted terminals that
// speak the JT/T 808 wire format through an encoder/decoder written from the standard's tables 1-4
// (no code shared with /repo), and concurrent SendActiveMessage callers.

import (
	"errors"
	"fmt"
	"net"
	"strings"
	"sync"
	"time"

	"github.com/cuteLittleDevil/go-jt808/service"
	"github.com/cuteLittleDevil/go-jt808/shared/consts"
)

// ---------------------------------------------------------------- wire format (terminal side)

func bcdDigits(phone string, nbytes int) []byte {
	for len(phone) < 2*nbytes {
		phone = "0" + phone
	}
	out := make([]byte, nbytes)
	for i := 0; i < nbytes; i++ {
		out[i] = (phone[2*i]-'0')<<4 | (phone[2*i+1] - '0')
	}
	return out
}

func esc808(b []byte) []byte {
	out := []byte{0x7e}
	for _, x := range b {
		switch x {
		case 0x7e:
			out = append(out, 0x7d, 0x02)
		case 0x7d:
			out = append(out, 0x7d, 0x01)
		default:
			out = append(out, x)
		}
	}
	return append(out, 0x7e)
}

// TFrame builds a 2013-format terminal frame: id, attribute (= body length), 6-byte BCD phone, serial, body, xor.
func TFrame(id uint16, phone string, serial uint16, body []byte) []byte {
	if len(body) > 1023 {
		panic("body too long")
	}
	b := []byte{byte(id >> 8), byte(id), byte(len(body) >> 8), byte(len(body))}
	b = append(b, bcdDigits(phone, 6)...)
	b = append(b, byte(serial>>8), byte(serial))
	b = append(b, body...)
	var x byte
	for _, v := range b {
		x ^= v
	}
	return esc808(append(b, x))
}

// PFrame is a platform frame as the terminal sees it.
type PFrame struct {
	ID     uint16
	Attr   uint16
	Phone  string
	Serial uint16
	Body   []byte
	Bad    string // non-empty when the frame is malformed
}

func (p PFrame) String() string {
	if p.Bad != "" {
		return "bad:" + p.Bad
	}
	return fmt.Sprintf("%04x:%d:%s", p.ID, p.Serial, Hx(p.Body))
}

func parsePFrame(raw []byte) PFrame { // raw: between the two 0x7e, still escaped
	var b []byte
	for i := 0; i < len(raw); i++ {
		if raw[i] == 0x7d && i+1 < len(raw) {
			i++
			if raw[i] == 0x02 {
				b = append(b, 0x7e)
			} else if raw[i] == 0x01 {
				b = append(b, 0x7d)
			} else {
				return PFrame{Bad: "escape"}
			}
		} else {
			b = append(b, raw[i])
		}
	}
	if len(b) < 13 {
		return PFrame{Bad: "short"}
	}
	var x byte
	for _, v := range b {
		x ^= v
	}
	if x != 0 {
		return PFrame{Bad: "xor"}
	}
	p := PFrame{ID: uint16(b[0])<<8 | uint16(b[1]), Attr: uint16(b[2])<<8 | uint16(b[3])}
	off := 4
	plen := 6
	if p.Attr&0x4000 != 0 {
		off, plen = 5, 10
	}
	if len(b) < off+plen+3 {
		return PFrame{Bad: "short"}
	}
	ph := ""
	for _, v := range b[off : off+plen] {
		ph += fmt.Sprintf("%x%x", v>>4, v&15)
	}
	p.Phone = strings.TrimLeft(ph, "0")
	p.Serial = uint16(b[off+plen])<<8 | uint16(b[off+plen+1])
	p.Body = append([]byte{}, b[off+plen+2:len(b)-1]...)
	if int(p.Attr&0x3ff) != len(p.Body) {
		p.Bad = "len"
	}
	return p
}

// ---------------------------------------------------------------- scripted terminal

type Term struct {
	Conn   *net.TCPConn
	Phone  string
	serial uint16
	Frames chan PFrame // platform frames in arrival order; closed when the server closes the socket
	wmu    sync.Mutex
}

func DialTerm(addr, phone string) (*Term, error) {
	c, err := net.DialTimeout("tcp", addr, 3*time.Second)
	if err != nil {
		return nil, err
	}
	t := &Term{Conn: c.(*net.TCPConn), Phone: phone, Frames: make(chan PFrame, 1<<17)}
	go func() {
		defer close(t.Frames)
		buf := make([]byte, 65536)
		var cur []byte
		in := false
		for {
			n, err := t.Conn.Read(buf)
			for _, x := range buf[:n] {
				if x == 0x7e {
					if in && len(cur) > 0 {
						t.Frames <- parsePFrame(cur)
						cur = nil
						in = false
					} else {
						in = true
						cur = nil
					}
				} else if in {
					cur = append(cur, x)
				}
			}
			if err != nil {
				return
			}
		}
	}()
	return t, nil
}

func (t *Term) NextSerial() uint16 { s := t.serial; t.serial++; return s }

// Send writes one terminal frame (own serial counter) in one TCP write.
func (t *Term) Send(id uint16, body []byte) error {
	return t.SendRaw(TFrame(id, t.Phone, t.NextSerial(), body))
}

// SendAs writes one frame carrying another phone number than the terminal's own.
func (t *Term) SendAs(phone string, id uint16, body []byte) error {
	return t.SendRaw(TFrame(id, phone, t.NextSerial(), body))
}

func (t *Term) SendRaw(b []byte) error {
	t.wmu.Lock()
	defer t.wmu.Unlock()
	_, err := t.Conn.Write(b)
	return err
}

// Next returns the next platform frame, ok=false on timeout, closed=true when the server closed the socket.
func (t *Term) Next(d time.Duration) (f PFrame, ok bool, closed bool) {
	select {
	case f, ok := <-t.Frames:
		if !ok {
			return PFrame{}, false, true
		}
		return f, true, false
	case <-time.After(d):
		return PFrame{}, false, false
	}
}

func (t *Term) Close() { t.Conn.Close() }

// Reset closes with RST instead of FIN.
func (t *Term) Reset() { t.Conn.SetLinger(0); t.Conn.Close() }

func be16(v uint16) []byte { return []byte{byte(v >> 8), byte(v)} }

// RespBody builds the body of a terminal response of the given type echoing a platform serial.
func RespBody(typ uint16, echo uint16, cmd uint16) []byte {
	switch typ {
	case 0x0001: // serial, id, result
		return append(append(be16(echo), be16(cmd)...), 0)
	case 0x0104: // serial, count 0
		return append(be16(echo), 0)
	case 0x0805: // serial, result, count 0
		return append(be16(echo), 0, 0, 0)
	case 0x1205: // serial, total 0
		return append(be16(echo), 0, 0, 0, 0)
	case 0x1206: // serial, result
		return append(be16(echo), 0)
	case 0x1003: // ten attribute bytes, no serial
		return []byte{1, 2, 3, 4, 0, 5, 1, 98, 4, 4}
	}
	panic("resp type")
}

// ---------------------------------------------------------------- recording eventer

type Ev struct {
	Kind  string // join | leave
	Key   string
	Err   string // "", exist, invalid, other
	Phone string
	T     time.Time
}

type ConnRec struct {
	Idx    int
	Born   time.Time
	Events []Ev
	Reads  int
	Writes int
}

type Recorder struct {
	mu    sync.Mutex
	cond  *sync.Cond
	Conns []*ConnRec
	// optional probes used by C18 to touch what a user callback may legitimately touch
	OnJoin func(msg *service.Message, key string, err error)
	// optional probe used by C11: what a (slow) application write callback does; runs in the connection's writer
	OnWrite func(msg *service.Message)
}

func NewRecorder() *Recorder {
	r := &Recorder{}
	r.cond = sync.NewCond(&r.mu)
	return r
}

type recEventer struct {
	r *Recorder
	c *ConnRec
}

func (r *Recorder) newEventer() service.TerminalEventer {
	r.mu.Lock()
	defer r.mu.Unlock()
	c := &ConnRec{Idx: len(r.Conns), Born: time.Now()}
	r.Conns = append(r.Conns, c)
	r.cond.Broadcast()
	return &recEventer{r: r, c: c}
}

func errClass(err error) string {
	switch {
	case err == nil:
		return ""
	case strings.Contains(err.Error(), "key exist"):
		return "exist"
	case strings.Contains(err.Error(), "key invalid"):
		return "invalid"
	}
	return "other"
}

func (e *recEventer) OnJoinEvent(msg *service.Message, key string, err error) {
	if f := e.r.OnJoin; f != nil {
		f(msg, key, err)
	}
	e.r.mu.Lock()
	defer e.r.mu.Unlock()
	ph := ""
	if msg != nil && msg.JTMessage != nil && msg.JTMessage.Header != nil {
		ph = msg.JTMessage.Header.TerminalPhoneNo
	}
	e.c.Events = append(e.c.Events, Ev{Kind: "join", Key: key, Err: errClass(err), Phone: ph, T: time.Now()})
	e.r.cond.Broadcast()
}
func (e *recEventer) OnLeaveEvent(key string) {
	e.r.mu.Lock()
	defer e.r.mu.Unlock()
	e.c.Events = append(e.c.Events, Ev{Kind: "leave", Key: key, T: time.Now()})
	e.r.cond.Broadcast()
}
func (e *recEventer) OnNotSupportedEvent(_ *service.Message) {}
func (e *recEventer) OnReadExecutionEvent(_ *service.Message) {
	e.r.mu.Lock()
	e.c.Reads++
	e.r.mu.Unlock()
}
func (e *recEventer) OnWriteExecutionEvent(msg service.Message) {
	if f := e.r.OnWrite; f != nil {
		f(&msg)
	}
	e.r.mu.Lock()
	e.c.Writes++
	e.r.mu.Unlock()
}

// NConns: number of accepted connections so far.
func (r *Recorder) NConns() int { r.mu.Lock(); defer r.mu.Unlock(); return len(r.Conns) }

// waitFor blocks until pred holds (checked under the lock) or the deadline passes.
func (r *Recorder) waitFor(d time.Duration, pred func() bool) bool {
	deadline := time.Now().Add(d)
	stop := make(chan struct{})
	defer close(stop)
	go func() { // wake the condition periodically so that the deadline is honoured
		tk := time.NewTicker(2 * time.Millisecond)
		defer tk.Stop()
		for {
			select {
			case <-stop:
				return
			case <-tk.C:
				r.cond.Broadcast()
			}
		}
	}()
	r.mu.Lock()
	defer r.mu.Unlock()
	for !pred() {
		if time.Now().After(deadline) {
			return false
		}
		r.cond.Wait()
	}
	return true
}

func (r *Recorder) WaitConns(n int, d time.Duration) bool {
	return r.waitFor(d, func() bool { return len(r.Conns) >= n })
}

// WaitEvents waits until connection idx has at least n join/leave events; returns a copy.
func (r *Recorder) WaitEvents(idx, n int, d time.Duration) ([]Ev, bool) {
	ok := r.waitFor(d, func() bool { return idx < len(r.Conns) && len(r.Conns[idx].Events) >= n })
	r.mu.Lock()
	defer r.mu.Unlock()
	if idx >= len(r.Conns) {
		return nil, false
	}
	return append([]Ev{}, r.Conns[idx].Events...), ok
}

func (r *Recorder) Events(idx int) []Ev {
	r.mu.Lock()
	defer r.mu.Unlock()
	if idx >= len(r.Conns) {
		return nil
	}
	return append([]Ev{}, r.Conns[idx].Events...)
}

// ---------------------------------------------------------------- server

type Srv struct {
	G    *service.GoJT808
	Addr string
	Rec  *Recorder
}

func freeAddr() string {
	l, err := net.Listen("tcp", "127.0.0.1:0")
	if err != nil {
		panic(err)
	}
	a := l.Addr().String()
	l.Close()
	return a
}

// StartSrv starts an in-process server (Run never returns) and waits until it accepts connections.
// keyFunc nil = the library default (terminal phone number).
func StartSrv(keyFunc func(phone string) (string, bool)) *Srv {
	for attempt := 0; attempt < 20; attempt++ {
		s := &Srv{Addr: freeAddr(), Rec: NewRecorder()}
		opts := []service.Option{
			service.WithHostPorts(s.Addr),
			service.WithCustomTerminalEventer(func() service.TerminalEventer { return s.Rec.newEventer() }),
		}
		if keyFunc != nil {
			opts = append(opts, service.WithKeyFunc(func(m *service.Message) (string, bool) {
				return keyFunc(m.JTMessage.Header.TerminalPhoneNo)
			}))
		}
		s.G = service.New(opts...)
		go s.G.Run()
		for i := 0; i < 200; i++ {
			c, err := net.DialTimeout("tcp", s.Addr, 200*time.Millisecond)
			if err == nil {
				c.Close()
				// the probe connection is accepted as connection 0 and leaves without joining
				s.Rec.WaitEvents(0, 1, 2*time.Second)
				return s
			}
			time.Sleep(5 * time.Millisecond)
		}
	}
	panic("server did not start")
}

// Dial connects a terminal and waits until the server has accepted it; returns the connection index
// (the index of its eventer in the recorder).  Callers must not dial concurrently when they need the index.
func (s *Srv) Dial(phone string) (*Term, int) {
	n := s.Rec.NConns()
	t, err := DialTerm(s.Addr, phone)
	if err != nil {
		panic(err)
	}
	if !s.Rec.WaitConns(n+1, 3*time.Second) {
		panic("connection not accepted")
	}
	return t, n
}

// ---------------------------------------------------------------- callers

type CallRes struct {
	Kind   string // resp | timeout | wfail | noexist | other | hang
	RespID uint16 // terminal message id of the response
	Echo   int    // serial echoed by the response (-1 when not parsed)
	PSeq   uint16 // platform serial the library reports for the command
	Dur    time.Duration
	Raw    string
}

func (r CallRes) String() string {
	switch r.Kind {
	case "resp":
		return fmt.Sprintf("resp:%04x:%d", r.RespID, r.Echo)
	}
	return r.Kind
}

func echoOf(id uint16, body []byte) int {
	switch id {
	case 0x0001, 0x0104, 0x0805, 0x1205, 0x1206:
		if len(body) >= 2 {
			return int(body[0])<<8 | int(body[1])
		}
	}
	return -1
}

func ClassifyReply(m *service.Message, dur time.Duration) CallRes {
	r := CallRes{Dur: dur, Echo: -1}
	if m == nil {
		r.Kind = "other"
		r.Raw = "nil message"
		return r
	}
	err := m.ExtensionFields.Err
	r.PSeq = m.ExtensionFields.PlatformSeq
	switch {
	case err == nil:
		r.Kind = "resp"
		if m.JTMessage != nil && m.JTMessage.Header != nil {
			r.RespID = m.JTMessage.Header.ID
			r.Echo = echoOf(r.RespID, m.JTMessage.Body)
		}
	case errors.Is(err, service.ErrWriteDataOverTime):
		r.Kind = "timeout"
	case errors.Is(err, service.ErrWriteDataFail):
		r.Kind = "wfail"
	case errors.Is(err, service.ErrNotExistKey):
		r.Kind = "noexist"
	default:
		r.Kind = "other"
		r.Raw = err.Error()
	}
	return r
}

// Call runs SendActiveMessage in its own goroutine; the result arrives on the returned channel.
// A call that never returns never delivers (the goroutine leaks; callers use a deadline).
func (s *Srv) Call(key string, cmd uint16, body []byte, timeout time.Duration) <-chan CallRes {
	ch := make(chan CallRes, 1)
	go func() {
		t0 := time.Now()
		m := s.G.SendActiveMessage(service.NewActiveMessage(key, consts.JT808CommandType(cmd), body, timeout))
		ch <- ClassifyReply(m, time.Since(t0))
	}()
	return ch
}

// Await waits for a call result up to d; Kind "hang" when it does not arrive.
func Await(ch <-chan CallRes, d time.Duration) CallRes {
	select {
	case r := <-ch:
		return r
	case <-time.After(d):
		return CallRes{Kind: "hang", Echo: -1, Dur: d}
	}
}

package lib

// C03Location: totality / locality / history-independence cases for the location family
// (28-byte block, additional-information TLV, vendor extension items, 0x0704 and 0x0801 carriers).
// Owned by the builder of C08; called from cmd/C03/main.go.
func C03Location(c *Ctx) {}

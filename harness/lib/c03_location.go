package lib

import (
	"encoding/binary"
	"fmt"
	"strings"

	"github.com/cuteLittleDevil/go-jt808/protocol/jt808"
	"github.com/cuteLittleDevil/go-jt808/protocol/model"
)

// C03Location: totality / locality / history-independence cases for the location family
// (28-byte block, additional-information TLV, vendor extension items, 0x0704 and 0x0801 carriers).
// Owned by the builder of C03; called from cmd/C03/main.go.
//
// For every generated body of every carrier:
//   - the real Parse + String on an exact-capacity copy under recover()        (op pXXXX, correspondence)
//   - the same bytes in a larger buffer behind two different poisoned tails: answers must be identical
//   - the same body on a receiver that already parsed 1-3 other bodies          (op seqXXXX, correspondence)
//     must give the answer of a fresh receiver
//
// and the same three for the five extension handlers under every dialect (ops ext / seqext), plus the
// handlers embedded in T0x0200 through CustomAdditionContentFunc (op extemb: correspondence with Model/Total_emb.v
// for 0x64 0x65 0x67 0x70, implementation only for 0x66).
// Violations: C03/location-panic-*, C03/location-tail-*, C03/location-history-*, C03/ext-*;
// the pinned 0x66 over-read is the known finding C03/ext66-overread.
func C03Location(c *Ctx) {
	rng := c.Rng
	quick := c.Quick()
	tailA := []byte{0, 0, 0, 0, 0, 0, 0, 0, 0, 0, 0, 0, 0, 0, 0, 0, 0, 0, 0, 0, 0, 0, 0, 0, 0, 0, 0, 0, 0, 0, 0, 0, 0, 0, 0, 0, 0, 0, 0, 0, 0, 0, 0, 0, 0, 0, 0, 0}
	tailB := make([]byte, len(tailA))
	for i := range tailB {
		tailB[i] = 0xFF
	}
	tailC := make([]byte, len(tailA)) // a tail that looks like more well-formed items / entries
	for i := 0; i+6 <= len(tailC); i += 6 {
		copy(tailC[i:], []byte{0x01, 0x04, 0, 0, 0, 9})
	}

	randBlock := func() []byte {
		b := make([]byte, 28)
		rng.Read(b)
		return b
	}
	// a body rich in sticky state: every flag set, many items
	richBody := func() []byte {
		b := randBlock()
		for i := 0; i < 8; i++ {
			b[i] = 0xFF
		}
		b = append(b, 0x01, 4, 0, 0, 0, 7, 0x25, 4, 0xFF, 0xFF, 0xFF, 0xFF, 0x2A, 2, 0xFF, 0xFF, 0x30, 1, 9, 0x31, 1, 8, 0xE1, 3, 1, 2, 3,
			0x11, 5, 1, 0, 0, 0, 2, 0x12, 6, 1, 0, 0, 0, 3, 1, 0x13, 7, 0, 0, 0, 1, 0, 2, 1)
		b = append(b, 0x05, 30)
		for i := 0; i < 30; i++ {
			b = append(b, byte(i+1))
		}
		return b
	}
	rich := map[string][][]byte{}
	{
		r1, r2 := richBody(), richBody()
		rich["0200"] = [][]byte{r1, r2, randBlock()}
		mk704 := func(items ...[]byte) []byte {
			b := []byte{0, byte(len(items)), 1}
			for _, it := range items {
				b = binary.BigEndian.AppendUint16(b, uint16(len(it)))
				b = append(b, it...)
			}
			return b
		}
		rich["0704"] = [][]byte{mk704(r1, r2, r1), mk704(r2), mk704(randBlock(), r1)}
		h := []byte{1, 2, 3, 4, 5, 6, 7, 8}
		rich["0801"] = [][]byte{append(append(append([]byte{}, h...), r1[:28]...), 1, 2, 3), append(append([]byte{}, h...), r2[:28]...)}
	}
	minLen := map[string]int{"0200": 28, "0704": 31, "0801": 36}

	nseq, nhang := 0, 0
	one := func(kind string, body []byte, what string) {
		req := "p" + kind + " " + Hx(body)
		ans := c.Do(req, len(body) >= minLen[kind])
		c.Count("loc-" + kind + "-" + what + ":" + firstTok(ans))
		if ans == "panic" {
			c.Violate(Violation{Signature: "C03/location-panic-" + kind, What: "Parse or String panicked on an exact-capacity body",
				Input: req, Observed: ans, Required: "ok ... or err"})
		}
		if ans == "hang" { // the ops run under the watchdog (lib.C03GuardOps)
			nhang++
			c.Violate(Violation{Signature: "C03/hang/location-" + kind, What: "Parse did not return (call abandoned)",
				Input: req, Observed: ans, Required: "returns promptly"})
			return
		}
		if nhang > 3 {
			return
		}
		for ti, tail := range [][]byte{tailA, tailB, tailC} {
			var a2 string
			if (nseq+ti)%12 == 0 { // one in twelve also as a correspondence line for the spare-capacity model
				a2 = c.Do("c03lt "+kind+" "+Hx(body)+" "+Hx(tail), len(body) >= minLen[kind])
			} else {
				a2 = RunOp("c03lt " + kind + " " + Hx(body) + " " + Hx(tail))
			}
			if a2 != ans {
				c.Violate(Violation{Signature: "C03/location-tail-" + kind, What: "the outcome depends on bytes behind the slice",
					Input: req + " " + Hx(tail), Observed: a2, Required: ans + "   (answer with exact capacity)"})
			}
		}
		// reused receiver: 1-3 earlier bodies (rich ones, sometimes the body itself or a failing one)
		nseq++
		var prior []string
		for i := 0; i < 1+rng.Intn(3); i++ {
			switch rng.Intn(6) {
			case 0:
				prior = append(prior, Hx(body))
			case 1:
				prior = append(prior, Hx(rich[kind][0][:rng.Intn(len(rich[kind][0]))]))
			default:
				prior = append(prior, Hx(rich[kind][rng.Intn(len(rich[kind]))]))
			}
		}
		sreq := "seq" + kind + " " + strings.Join(prior, " ") + " " + Hx(body)
		// the direct comparison always; as a correspondence case one in three in the quick tier (the
		// model's flag decoders make these the most expensive lines for the oracle)
		var a3 string
		if !quick || nseq%3 == 0 {
			a3 = c.Do(sreq, len(body) >= minLen[kind])
		} else {
			a3 = RunOp(sreq)
			c.Eval(sreq, len(body) >= minLen[kind])
		}
		if a3 != ans {
			c.Violate(Violation{Signature: "C03/location-history-" + kind, What: "a reused receiver gives a different result than a fresh one",
				Input: sreq, Observed: a3, Required: ans + "   (answer of a fresh receiver)"})
		}
	}

	// ---- (a) every length with zero / 0xFF / random fill
	maxLen := 80
	if !quick {
		maxLen = 300
	}
	for _, kind := range []string{"0200", "0704", "0801"} {
		for n := 0; n <= maxLen; n++ {
			for _, fill := range []int{0x00, 0xFF, -1} {
				b := make([]byte, n)
				if fill < 0 {
					rng.Read(b)
				} else {
					for i := range b {
						b[i] = byte(fill)
					}
				}
				one(kind, b, "fill")
			}
		}
	}
	// ---- (b)(d) TLV: every id x every length 0..40 x {exact, one short, one long}, inside 0x0200 and inside a 0x0704 item
	step := 1
	if quick {
		step = 3 // ids 0..255 in thirds per seed; the standard ids and the extension ids always
	}
	always := map[int]bool{0x01: true, 0x02: true, 0x03: true, 0x04: true, 0x05: true, 0x06: true, 0x11: true, 0x12: true, 0x13: true,
		0x25: true, 0x2A: true, 0x2B: true, 0x30: true, 0x31: true, 0x64: true, 0x65: true, 0x66: true, 0x67: true, 0x70: true, 0xE0: true}
	off := rng.Intn(step)
	for id := 0; id < 256; id++ {
		if !always[id] && id%step != off {
			continue
		}
		for n := 0; n <= 40; n++ {
			content := make([]byte, n)
			rng.Read(content)
			if n > 0 && rng.Intn(3) == 0 {
				content[0] = 0
			}
			for v, body := range [][]byte{
				append(append(randBlock(), byte(id), byte(n)), content...),                  // exact
				append(append(randBlock(), byte(id), byte(n+1)), content...),                // one short
				append(append(append(randBlock(), byte(id), byte(n)), content...), 0x31),    // one long (dangling id)
				append(append(append(randBlock(), byte(id), byte(n)), content...), 0x30, 1), // next item's content missing
			} {
				if !always[id] && v > 0 && n%4 != 0 {
					continue
				}
				one("0200", body, "tlv")
				if always[id] && v < 2 {
					it := body
					b := binary.BigEndian.AppendUint16([]byte{0, 1, 0}, uint16(len(it)))
					one("0704", append(b, it...), "tlv")
				}
			}
		}
	}
	// item lengths 41..255 (the uint8 boundary included) with exactly that many bytes present, one fewer, one more
	for _, id := range []int{0x01, 0x05, 0x64, 0x66, 0xE1, 0xEB} {
		for n := 41; n <= 255; n++ {
			if quick && n%4 != 0 && n < 248 {
				continue
			}
			for _, e := range []int{0, -1, 1} {
				content := make([]byte, n+e)
				rng.Read(content)
				body := append(append(randBlock(), byte(id), byte(n)), content...)
				one("0200", body, "tlv-long")
				if e == 0 {
					one("0704", append(binary.BigEndian.AppendUint16([]byte{0, 1, 0}, uint16(len(body))), body...), "tlv-long")
				}
			}
		}
	}
	// pairs of items and duplicates over the ids that decode something
	ids := []byte{0x01, 0x02, 0x05, 0x11, 0x12, 0x13, 0x25, 0x2A, 0x30, 0x31, 0x33}
	lens := map[byte]int{0x01: 4, 0x02: 2, 0x05: 30, 0x11: 5, 0x12: 6, 0x13: 7, 0x25: 4, 0x2A: 2, 0x30: 1, 0x31: 1, 0x33: 3}
	for _, a := range ids {
		for _, b := range ids {
			ca, cb := make([]byte, lens[a]), make([]byte, lens[b])
			rng.Read(ca)
			rng.Read(cb)
			body := append(append(append(append(randBlock(), a, byte(len(ca))), ca...), b, byte(len(cb))), cb...)
			one("0200", body, "pair")
		}
	}
	// ---- (b) 0x0704 count / item-length positions with every interesting value
	item := append([]byte{0, 28}, randBlock()...)
	for _, cnt := range []int{0, 1, 2, 3, 4, 255, 256, 65535} {
		for k := 0; k <= 3; k++ {
			b := []byte{byte(cnt >> 8), byte(cnt), 0}
			for i := 0; i < k; i++ {
				b = append(b, item...)
			}
			one("0704", b, "count")
			one("0704", append(b, 0), "count")    // one dangling byte where an item length is expected
			one("0704", append(b, 0, 0), "count") // an empty item
			one("0704", append(b, 0, 5), "count") // item length beyond the body
			one("0704", append(b, 255, 255), "count")
		}
	}
	for l := 0; l <= 70; l++ { // every declared item length against a fixed amount of bytes
		b := append([]byte{0, 1, 0, byte(l >> 8), byte(l)}, richBody()[:60]...)
		one("0704", b, "itemlen")
	}
	// ---- (c) truncations at every position of valid bodies (0x0200 / 0x0704 / 0x0801 Encode output + items)
	{
		var t model.T0x0200
		_ = t.Parse(&jt808.JTMessage{Body: Exact(rich["0200"][0])})
		enc := t.Encode() // the real Encode: the 28-byte block
		full := append(append([]byte{}, enc...), rich["0200"][0][28:]...)
		for n := 0; n <= len(full); n++ {
			one("0200", full[:n], "trunc")
		}
		var t7 model.T0x0704
		_ = t7.Parse(&jt808.JTMessage{Body: Exact(rich["0704"][2])})
		enc7 := t7.Encode()
		for n := 0; n <= len(enc7); n++ {
			one("0704", enc7[:n], "trunc")
		}
		full7 := rich["0704"][0]
		for n := 0; n <= len(full7); n += 1 + n/64 {
			one("0704", full7[:n], "trunc")
		}
		var t8 model.T0x0801
		_ = t8.Parse(&jt808.JTMessage{Body: Exact(rich["0801"][0])})
		enc8 := t8.Encode()
		for n := 0; n <= len(enc8); n++ {
			one("0801", enc8[:n], "trunc")
		}
	}
	// ---- (f) random mutations of valid bodies
	nmut := 1500
	if !quick {
		nmut = 200000
	}
	for i := 0; i < nmut; i++ {
		kind := []string{"0200", "0704", "0801"}[rng.Intn(3)]
		src := rich[kind][rng.Intn(len(rich[kind]))]
		b := append([]byte{}, src...)
		for k := 0; k < 1+rng.Intn(3); k++ {
			switch rng.Intn(4) {
			case 0:
				if len(b) > 0 {
					b[rng.Intn(len(b))] = byte(rng.Intn(256))
				}
			case 1:
				if len(b) > 0 {
					b = b[:rng.Intn(len(b)+1)]
				}
			case 2:
				if len(b) > 29 {
					p := 28 + rng.Intn(len(b)-28)
					b[p] = []byte{0, 1, 2, 4, 5, 6, 7, 30, 0x11, 0x31, 0x30, 255}[rng.Intn(12)]
				}
			case 3:
				b = append(b, byte(rng.Intn(256)))
			}
		}
		one(kind, b, "mutated")
	}
	// times that do not survive Time2BCD unchanged (String re-slices the encoding)
	for _, tb := range [][]byte{{0xAA, 0xAA, 0xAA, 0xAA, 0xAA, 0xAA}, {0xA0, 0, 0, 0, 0, 0}, {0x0A, 0x11, 0x22, 0x33, 0x44, 0x5A},
		{0xFF, 0xFF, 0xFF, 0xFF, 0xFF, 0xFF}, {0xDA, 0xAD, 0, 0xA, 0xA0, 0xD}} {
		b := randBlock()
		copy(b[22:], tb)
		one("0200", b, "time")
		one("0801", append(append([]byte{0, 0, 0, 1, 0, 0, 0, 1}, b...), 1), "time")
		one("0704", append([]byte{0, 1, 0, 0, 28}, b...), "time")
	}

	c03Ext(c, tailA, tailB)
}

func firstTok(s string) string {
	if i := strings.IndexByte(s, ' '); i > 0 {
		if s[:i] == "err" {
			return s
		}
		return s[:i]
	}
	return s
}

// ExtEmbedded: the README pattern — a T0x0200 whose CustomAdditionContentFunc is the handler's Parse.
func ExtEmbedded(kind string, dialect int, body, tail []byte) (ans string) {
	defer func() {
		if r := recover(); r != nil {
			ans = "panic"
		}
	}()
	h := NewExt(kind, dialect)
	var t model.T0x0200
	t.CustomAdditionContentFunc = h.Parse
	if err := t.Parse(&jt808.JTMessage{Header: &jt808.Header{}, Body: WithTail(body, tail)}); err != nil {
		return ProtoErrCode(err)
	}
	_ = h.String()
	// the handler's members are shown when it accepted an item (otherwise it is as it was created, which prints
	// differently from the model's empty handler; 0x66 may also have assigned members before it declined)
	hd := "-"
	for _, a := range t.Additions {
		if a.Content.CustomValue != nil {
			hd = ExtDump(h)
		}
	}
	return dump0200(&t) + " handler: " + hd
}

func init() {
	// extemb <kind> <dialect> <body> <tail>   (model: Model/Total_emb.v t0200_emb; correspondence for the handlers
	// 0x64 0x65 0x67 0x70, implementation only for 0x66, the known finding)
	RegisterOp("extemb", func(a []string) string { return ExtEmbedded(a[0], atoi(a[1]), Unhx(a[2]), Unhx(a[3])) })
}

func c03Ext(c *Ctx, tailA, tailB []byte) {
	rng := c.Rng
	quick := c.Quick()
	kinds := []struct {
		name string
		id   int
		ok   int // the accepted length (0x66: 40+9k)
	}{{"64", 0x64, 47}, {"65", 0x65, 47}, {"66", 0x66, 49}, {"67", 0x67, 41}, {"70", 0x70, 47}}
	dialects := []int{0, 1, 2, 3, 4, 5, 6, 7, 255}
	is66Class := func(kind string, id int, content []byte) bool {
		return kind == "66" && id == 0x66 && len(content) > 40 && len(content) == 40+9*int(content[40])
	}
	one := func(kind string, d, id int, content []byte, what string) {
		base := fmt.Sprintf("ext %s %d %d %s", kind, d, id, Hx(content))
		ans := c.Do(base+" -", true)
		c.Count("ext-" + kind + "-" + what + ":" + firstTok(ans))
		known := is66Class(kind, id, content)
		sig := func(s string) string {
			if known {
				return "C03/ext66-overread"
			}
			return s
		}
		if ans == "panic" {
			c.Violate(Violation{Signature: sig("C03/ext-panic-" + kind), What: "extension handler panicked on an exact-capacity content",
				Input: base + " -", Observed: ans, Required: "ok ... or no"})
		}
		if ans == "hang" {
			c.Violate(Violation{Signature: "C03/hang/ext-" + kind, What: "extension handler did not return (call abandoned)",
				Input: base + " -", Observed: ans, Required: "returns promptly"})
			return
		}
		var prev string
		for i, tail := range [][]byte{tailA[:1], tailB[:1], tailA, tailB} {
			var a2 string
			if kind == "66" { // the model of 0x66 has the tail as an input
				a2 = c.Do(base+" "+Hx(tail), true)
			} else if i == 3 && len(content)%4 == 0 { // the spare-capacity model of the other handlers (ext_cap)
				a2 = c.Do("c03et"+base[3:]+" "+Hx(tail), true)
			} else {
				a2 = RunOp(base + " " + Hx(tail))
			}
			if a2 == "panic" && ans != "panic" {
				c.Violate(Violation{Signature: sig("C03/ext-panic-" + kind), What: "extension handler panicked", Input: base + " " + Hx(tail),
					Observed: a2, Required: ans})
			} else if a2 != ans && !(known && ans == "panic") {
				c.Violate(Violation{Signature: sig("C03/ext-tail-" + kind), What: "the outcome depends on bytes behind the content slice",
					Input: base + " " + Hx(tail), Observed: a2, Required: ans + "   (answer with exact capacity)"})
			}
			if known && i == 1 && a2 != prev {
				// 0x66 behind different tails: the decoded battery level differs (locality broken, known finding)
				c.Violate(Violation{Signature: "C03/ext66-overread", What: "0x66 reads its last entry one byte beyond the content",
					Input: base + " " + Hx(tail), Observed: a2, Required: prev + "   (answer behind another tail)"})
			}
			prev = a2
		}
		// reused handler
		if !known {
			other := make([]byte, kinds[rng.Intn(len(kinds))].ok)
			for i := range other {
				other[i] = 0xFF
			}
			same := make([]byte, len(content))
			for i := range same {
				same[i] = 0xFF
			}
			sreq := fmt.Sprintf("seqext %s %d %d %s %d %s %d %s", kind, d, id, Hx(same), id, Hx(other), id, Hx(content))
			if a3 := c.Do(sreq, true); a3 != ans {
				c.Violate(Violation{Signature: "C03/ext-history-" + kind, What: "a reused handler gives a different result than a fresh one",
					Input: sreq, Observed: a3, Required: ans + "   (answer of a fresh handler)"})
			}
		}
	}
	fillers := []int{0x00, 0xFF, -1}
	for _, k := range kinds {
		for _, d := range dialects {
			maxLen := 62
			if !quick {
				maxLen = 120
			}
			for n := 0; n <= maxLen; n++ {
				if quick && d > 5 && n%3 != 0 && n != k.ok {
					continue
				}
				for _, f := range fillers {
					if quick && f == 0xFF && n != k.ok && n%2 == 0 {
						continue
					}
					content := make([]byte, n)
					if f < 0 {
						rng.Read(content)
					} else {
						for i := range content {
							content[i] = byte(f)
						}
					}
					one(k.name, d, k.id, content, "len")
					if n == k.ok || n == k.ok+1 || n == k.ok-1 {
						one(k.name, d, k.id^1, content, "other-id")
					}
					if n == k.ok && f < 0 { // more field fillings at the accepted length
						for x := 0; x < 6; x++ {
							c2 := make([]byte, n)
							rng.Read(c2)
							if k.name == "66" {
								c2[40] = 1
							}
							if x%2 == 0 { // terminal id with zero bytes on both sides (bytes.Trim)
								copy(c2[n-16:], []byte{0, 0, 0x41, 0, 0x42, 0, 0})
							}
							one(k.name, d, k.id, c2, "accepted")
						}
					}
				}
			}
		}
	}
	// 0x66: every count value against lengths 40+9k and 41+9k, k = 0..4
	for _, d := range []int{1, 2, 4} {
		for k := 0; k <= 4; k++ {
			for _, n := range []int{40 + 9*k, 41 + 9*k} {
				for cnt := 0; cnt < 256; cnt++ {
					if quick && cnt > 8 && cnt%16 != 0 && cnt != 255 {
						continue
					}
					content := make([]byte, n)
					rng.Read(content)
					if n > 40 {
						content[40] = byte(cnt)
					}
					one("66", d, 0x66, content, "count")
				}
			}
		}
	}
	// embedded in T0x0200 through CustomAdditionContentFunc: exact capacity and poisoned tails, item last or followed by another
	block := make([]byte, 28)
	for _, k := range kinds {
		for _, d := range []int{1, 2, 3, 4, 5} {
			for n := k.ok - 2; n <= k.ok+11; n++ {
				variants := [][]byte{nil, {0x30, 1, 7}}
				if n == k.ok { // at the accepted length also: standard items in front, the handler's item twice (the
					// second replaces the first and the handler is parsed twice), an item of another id with the same length
					variants = append(variants, []byte{0xF1}, []byte{0xF2}, []byte{0xF3}, []byte{0x31, 0})
				}
				for _, follow := range variants {
					content := make([]byte, n)
					rng.Read(content)
					if k.name == "66" && n > 40 {
						content[40] = byte((n - 40) / 9)
					}
					item := append([]byte{byte(k.id), byte(n)}, content...)
					body := append(append([]byte{}, block...), item...)
					switch {
					case len(follow) == 1 && follow[0] == 0xF1:
						body = append(append(append([]byte{}, block...), 0x01, 4, 0, 0, 0, 9, 0x25, 4, 0xFF, 0xFF, 0xFF, 0xFF), item...)
					case len(follow) == 1 && follow[0] == 0xF2:
						second := append([]byte{byte(k.id), byte(n)}, make([]byte, n)...)
						rng.Read(second[2:])
						body = append(body, second...)
					case len(follow) == 1 && follow[0] == 0xF3:
						other := append([]byte{0xE1, byte(n)}, content...)
						body = append(append(append([]byte{}, block...), other...), item...)
					default:
						body = append(body, follow...)
					}
					known := is66Class(k.name, k.id, content)
					req := fmt.Sprintf("extemb %s %d %s", k.name, d, Hx(body))
					var ans string
					if k.name != "66" {
						ans = c.Do(req+" -", true)
					} else {
						ans = RunOp(req + " -")
						c.Eval(req, true)
					}
					c.Count("extemb-" + k.name + ":" + firstTok(ans))
					sig := "C03/extemb-" + k.name
					if known {
						sig = "C03/ext66-overread"
					}
					if ans == "panic" {
						c.Violate(Violation{Signature: sig, What: "T0x0200.Parse with an extension handler panicked", Input: req + " -",
							Observed: ans, Required: "ok ... or err"})
					}
					for ti, tail := range [][]byte{tailA, tailB} {
						var a2 string
						if k.name != "66" && (n+ti)%2 == 0 {
							a2 = c.Do(req+" "+Hx(tail), true)
						} else {
							a2 = RunOp(req + " " + Hx(tail))
						}
						if a2 != ans {
							c.Violate(Violation{Signature: sig, What: "the outcome depends on bytes behind the body", Input: req + " " + Hx(tail),
								Observed: a2, Required: ans + "   (answer with exact capacity)"})
						}
					}
				}
			}
		}
	}
}

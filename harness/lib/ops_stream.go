package lib

// Ops of the connection-level parser (service/packet_parse.go) driven through the verif hook
// service.NewVerifParser(): exact read boundaries (Feed / Unpack) and clock control (Age).
//
//	up <chunk-hex> <chunk-hex> ...          unpack alone, one call per chunk
//	sp <step> <step> ...                    parse (unpack + completePack + expiry + re-request)
//	                                        step = f:<chunk-hex> (one Feed) | a:<milliseconds> (Age)
//
// Answer: one observation per Unpack/Feed call, joined by " | ":
//
//	e=<error number, 0 = none> h=<len(historyData)> p=<id:slots,...> m=<msg>;<msg>...
//	msg = id,serial,sum,no,complete,body-hex,terminaldata-hex
//
// Snapshots are taken immediately after each call (aliasing is C09's subject).  Messages the
// parser generates itself (0x8003 re-requests) come last in map-iteration order: the maximal
// trailing run of messages with id 0x8003 is sorted (the model side does the same).

import (
	"fmt"
	"sort"
	"strings"
	"time"

	"github.com/cuteLittleDevil/go-jt808/service"
)

func canonStreamMsg(m *service.Message) string {
	if m == nil || m.JTMessage == nil || m.JTMessage.Header == nil {
		return "nil"
	}
	h := m.JTMessage.Header
	c := 0
	if m.ExtensionFields.SubcontractComplete {
		c = 1
	}
	return fmt.Sprintf("%d,%d,%d,%d,%d,%s,%s", h.ID, h.SerialNumber, h.SubPackageSum, h.SubPackageNo, c,
		Hx(m.JTMessage.Body), Hx(m.ExtensionFields.TerminalData))
}

// CanonMsgList renders messages; the trailing run of id-0x8003 messages is sorted.
func CanonMsgList(ms []string) string {
	if len(ms) == 0 {
		return "-"
	}
	k := len(ms)
	for k > 0 && strings.HasPrefix(ms[k-1], "32771,") {
		k--
	}
	tail := append([]string{}, ms[k:]...)
	sort.Strings(tail)
	return strings.Join(append(append([]string{}, ms[:k]...), tail...), ";")
}

func errNum(err error) string {
	if err == nil {
		return "0"
	}
	s := ProtoErrCode(err)
	return strings.TrimPrefix(s, "err ")
}

func canonPending(v *service.VerifParser) string {
	p := v.Pending()
	if len(p) == 0 {
		return "-"
	}
	ids := make([]int, 0, len(p))
	for id := range p {
		ids = append(ids, int(id))
	}
	sort.Ints(ids)
	var sb []string
	for _, id := range ids {
		sb = append(sb, fmt.Sprintf("%d:%d", id, p[uint16(id)]))
	}
	return strings.Join(sb, ",")
}

// StreamObs is what one Feed/Unpack call showed.
type StreamObs struct {
	Err     string   // "0" or the error number, "panic"
	Hist    int      // len(historyData) after the call
	Pending string   // id:slots,...
	Msgs    []string // canonical messages in delivery order
}

func (o StreamObs) String() string {
	if o.Err == "panic" {
		return "panic"
	}
	return fmt.Sprintf("e=%s h=%d p=%s m=%s", o.Err, o.Hist, o.Pending, CanonMsgList(o.Msgs))
}

func streamCall(v *service.VerifParser, data []byte, onlyUnpack bool) (o StreamObs) {
	defer func() {
		if r := recover(); r != nil {
			o = StreamObs{Err: "panic"}
		}
	}()
	var msgs []*service.Message
	var err error
	if onlyUnpack {
		msgs, err = v.Unpack(Exact(data))
	} else {
		msgs, err = v.Feed(Exact(data))
	}
	o.Err = errNum(err)
	o.Hist = v.HistoryLen()
	o.Pending = canonPending(v)
	for _, m := range msgs {
		o.Msgs = append(o.Msgs, canonStreamMsg(m))
	}
	return o
}

// RunUnpack feeds the chunks to a fresh parser's unpack, one call per chunk.
func RunUnpack(chunks [][]byte) []StreamObs {
	v := service.NewVerifParser()
	var out []StreamObs
	for _, c := range chunks {
		o := streamCall(v, c, true)
		out = append(out, o)
		if o.Err == "panic" {
			break
		}
	}
	return out
}

// Step of an "sp" script.
type Step struct {
	Age   int    // milliseconds (when Data == nil and IsAge)
	Data  []byte // one read
	IsAge bool
}

func ParseSteps(args []string) []Step {
	var st []Step
	for _, a := range args {
		switch {
		case strings.HasPrefix(a, "f:"):
			st = append(st, Step{Data: Unhx(a[2:])})
		case strings.HasPrefix(a, "a:"):
			st = append(st, Step{Age: atoi(a[2:]), IsAge: true})
		default:
			panic("bad step " + a)
		}
	}
	return st
}

func StepsString(st []Step) string {
	var sb []string
	for _, s := range st {
		if s.IsAge {
			sb = append(sb, fmt.Sprintf("a:%d", s.Age))
		} else {
			sb = append(sb, "f:"+Hx(s.Data))
		}
	}
	return strings.Join(sb, " ")
}

// RunScript runs the steps against a fresh parser; one observation per Feed.  The whole script
// must run within maxWall of wall-clock time (the model's clock only advances through Age), else
// it is run again (a descheduled harness must not look like a timing difference).
func RunScript(st []Step) []StreamObs {
	const maxWall = 40 * time.Millisecond
	var out []StreamObs
	for attempt := 0; attempt < 20; attempt++ {
		out = out[:0]
		v := service.NewVerifParser()
		t0 := time.Now()
		for _, s := range st {
			if s.IsAge {
				v.Age(time.Duration(s.Age) * time.Millisecond)
				continue
			}
			o := streamCall(v, s.Data, false)
			out = append(out, o)
			if o.Err == "panic" {
				break
			}
		}
		if time.Since(t0) < maxWall {
			break
		}
	}
	return out
}

func ObsString(os []StreamObs) string {
	if len(os) == 0 {
		return "none"
	}
	var sb []string
	for _, o := range os {
		sb = append(sb, o.String())
	}
	return strings.Join(sb, " | ")
}

func init() {
	RegisterOp("up", func(a []string) string {
		chunks := make([][]byte, len(a))
		for i, s := range a {
			chunks[i] = Unhx(s)
		}
		return ObsString(RunUnpack(chunks))
	})
	RegisterOp("sp", func(a []string) string { return ObsString(RunScript(ParseSteps(a))) })
}

// RunScriptWall is RunScript with a caller-chosen bound on the wall-clock time of the whole script
// (C14 places clock steps a few milliseconds from the 5 s / 60 s limits).  ok = false when no
// attempt stayed within the bound.
func RunScriptWall(st []Step, maxWall time.Duration) (out []StreamObs, ok bool) {
	for attempt := 0; attempt < 50; attempt++ {
		out = out[:0]
		v := service.NewVerifParser()
		t0 := time.Now()
		for _, s := range st {
			if s.IsAge {
				v.Age(time.Duration(s.Age) * time.Millisecond)
				continue
			}
			o := streamCall(v, s.Data, false)
			out = append(out, o)
			if o.Err == "panic" {
				break
			}
		}
		if time.Since(t0) < maxWall {
			return out, true
		}
	}
	return out, false
}

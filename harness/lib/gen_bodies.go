package lib

// Generators of in-domain values of every two-way message type (C07) and of valid bodies (C03).
// "In domain" is the property's domain: fixed-width strings without trailing NUL that fit their field,
// BCD timestamps (decimal digits), GBK-encodable text, length/count fields consistent with their lists.

import (
	"fmt"
	"math/rand"
	"reflect"
	"strconv"

	"github.com/cuteLittleDevil/go-jt808/protocol/model"
	"github.com/cuteLittleDevil/go-jt808/protocol/utils"
	"github.com/cuteLittleDevil/go-jt808/shared/consts"
)

type Gen struct {
	R *rand.Rand
	// Big: allow long lists / strings (thorough tier)
	Big bool
	// ForceList: when > 0, every list gets exactly ForceList-1 elements (capped at the list's maximum)
	ForceList int
}

func (g *Gen) u8() uint8 {
	switch g.R.Intn(6) {
	case 0:
		return 0
	case 1:
		return 255
	case 2:
		return uint8(g.R.Intn(4))
	}
	return uint8(g.R.Intn(256))
}
func (g *Gen) u16() uint16 {
	switch g.R.Intn(6) {
	case 0:
		return 0
	case 1:
		return 65535
	case 2:
		return uint16(g.R.Intn(4))
	}
	return uint16(g.R.Intn(65536))
}
func (g *Gen) u32() uint32 {
	switch g.R.Intn(6) {
	case 0:
		return 0
	case 1:
		return 0xFFFFFFFF
	case 2:
		return uint32(g.R.Intn(4))
	}
	return g.R.Uint32()
}
func (g *Gen) u64() uint64 {
	switch g.R.Intn(6) {
	case 0:
		return 0
	case 1:
		return 0xFFFFFFFFFFFFFFFF
	case 2:
		return uint64(g.R.Intn(4))
	}
	return g.R.Uint64()
}

// Time: "20YY-MM-DD hh:mm:ss" with arbitrary decimal digits (what a 6-byte BCD field can carry).
func (g *Gen) Time() string {
	d := func() int { return g.R.Intn(100) }
	switch g.R.Intn(5) {
	case 0:
		return "2000-00-00 00:00:00"
	case 1:
		return "2099-99-99 99:99:99"
	}
	return fmt.Sprintf("20%02d-%02d-%02d %02d:%02d:%02d", d(), d(), d(), d(), d(), d())
}

// locWord: a flag word: single bits, pairs, boundary values, random.
func (g *Gen) locWord() uint32 {
	switch g.R.Intn(5) {
	case 0:
		return 1 << uint(g.R.Intn(32))
	case 1:
		return 1<<uint(g.R.Intn(32)) | 1<<uint(g.R.Intn(32))
	}
	return g.u32()
}

// LocItem: an in-domain T0x0200LocationItem built WITHOUT the parser.  The details structs are functions of the two
// flag words; they are filled here from the standard's tables (JT/T 808 tables 24/25: alarm flag i = bit i in
// declaration order; status flags = bits 0..7, the two-bit load field, bits 10..22), the load number as the code
// reads it (2*bit8 + bit9).
func (g *Gen) LocItem() model.T0x0200LocationItem {
	it := model.T0x0200LocationItem{AlarmSign: g.locWord(), StatusSign: g.locWord(), Latitude: g.u32(), Longitude: g.u32(),
		Altitude: g.u16(), Speed: g.u16(), Direction: g.u16(), DateTime: g.Time()}
	av := reflect.ValueOf(&it.AlarmSignDetails).Elem()
	for i := 0; i < av.NumField(); i++ {
		av.Field(i).SetBool(it.AlarmSign>>uint(i)&1 == 1)
	}
	sv := reflect.ValueOf(&it.StatusSignDetails).Elem()
	bit := 0
	for i := 0; i < sv.NumField(); i++ {
		f := sv.Field(i)
		if f.Kind() == reflect.Bool {
			f.SetBool(it.StatusSign>>uint(bit)&1 == 1)
			bit++
		} else {
			f.SetUint(uint64(2*(it.StatusSign>>8&1) + it.StatusSign>>9&1))
			bit += 2
		}
	}
	return it
}

// LocBlock: the 28 bytes of a location block: random words (single bits, all ones, zero among them) and a BCD time.
func (g *Gen) LocBlock() []byte {
	w := g.locWord
	var b []byte
	for _, x := range []uint32{w(), w(), g.u32(), g.u32()} {
		b = append(b, byte(x>>24), byte(x>>16), byte(x>>8), byte(x))
	}
	for i := 0; i < 3; i++ {
		x := g.u16()
		b = append(b, byte(x>>8), byte(x))
	}
	return append(b, utils.Time2BCD(g.Time())...)
}

// Bytes: n arbitrary bytes.
func (g *Gen) Bytes(n int) []byte {
	b := make([]byte, n)
	g.R.Read(b)
	if n > 0 && g.R.Intn(4) == 0 {
		b[g.R.Intn(n)] = 0
	}
	if n > 0 && g.R.Intn(4) == 0 {
		b[g.R.Intn(n)] = 0xFF
	}
	return b
}

// lenChoice: a length in 0..max, biased to the boundaries 0, 1, max-1, max.
func (g *Gen) lenChoice(max int) int {
	if max <= 0 {
		return 0
	}
	switch g.R.Intn(6) {
	case 0:
		return 0
	case 1:
		return 1
	case 2:
		return max
	case 3:
		return max - 1
	}
	return g.R.Intn(max + 1)
}

// Raw: a raw byte string of length exactly n used as a Go string (length-prefixed fields: any bytes).
func (g *Gen) Raw(n int) string { return string(g.Bytes(n)) }

// Padded: a string for a fixed-width NUL-padded field of the given width: at most width bytes, the last
// byte not NUL; noNul: no NUL anywhere (fields cut at the first NUL); trimBoth: no leading NUL either.
func (g *Gen) Padded(width int, noNul bool) string {
	n := g.lenChoice(width)
	b := g.Bytes(n)
	for i := range b {
		if noNul && b[i] == 0 {
			b[i] = 0x41
		}
	}
	if n > 0 && b[n-1] == 0 {
		b[n-1] = 0x42
	}
	return string(b)
}

var cjk = []rune("京沪津渝冀豫云辽黑湘皖鲁新苏浙赣鄂桂甘晋蒙陕吉闽贵粤青藏川宁琼警学挂测试车牌")

// Text: GBK-encodable text whose GBK encoding has at most max bytes.
func (g *Gen) Text(max int) string {
	n := g.lenChoice(max)
	out := []rune{}
	used := 0
	for used < n {
		if g.R.Intn(3) == 0 && used+2 <= n {
			out = append(out, cjk[g.R.Intn(len(cjk))])
			used += 2
		} else {
			out = append(out, rune(0x20+g.R.Intn(0x5f)))
			used++
		}
	}
	return string(out)
}

func (g *Gen) listLen(max int) int {
	if g.ForceList > 0 {
		if g.ForceList-1 > max {
			return max
		}
		return g.ForceList - 1
	}
	if g.Big && g.R.Intn(8) == 0 {
		return max
	}
	switch g.R.Intn(8) {
	case 0:
		return 0
	case 1:
		return 1
	case 2:
		return 2
	case 3:
		return 3
	case 4:
		return 4
	}
	m := 12
	if max < m {
		m = max
	}
	return g.R.Intn(m + 1)
}

func signWidths(d consts.ActiveSafetyType) (idLen, signLen int) {
	switch d {
	case consts.ActiveSafetyHLJ:
		return 30, 38
	case consts.ActiveSafetyGD:
		return 30, 40
	case consts.ActiveSafetyHN:
		return 7, 32
	case consts.ActiveSafetySC:
		return 30, 39
	}
	return 7, 16
}

func (g *Gen) alarmSign(d consts.ActiveSafetyType) model.P9208AlarmSign {
	idLen, signLen := signWidths(d)
	// the sign's terminal id is read with bytes.Trim (both sides): ids that BEGIN with NUL are the recorded
	// finding C07/sign-id-leading-nul, exercised by its own witness (cmd/C07 signIDFinding), not by this stream
	tid := []byte(g.Padded(idLen, false))
	if len(tid) > 0 && tid[0] == 0 {
		tid[0] = 0x43
	}
	return model.P9208AlarmSign{
		TerminalID:       string(tid),
		Time:             g.Time(),
		SerialNumber:     g.u8(),
		AttachNumber:     g.u8(),
		AlarmReserve:     g.Bytes(signLen - idLen - 8),
		ActiveSafetyType: d,
	}
}

// paramKinds: every terminal parameter id the parser stores in a typed field: id -> width (0 = text).
var ParamDword = []uint32{0x001, 0x002, 0x003, 0x004, 0x005, 0x006, 0x007, 0x01b, 0x01c, 0x020,
	0x022, 0x027, 0x028, 0x029, 0x02c, 0x02d, 0x02e, 0x02f,
	0x030, 0x045, 0x046, 0x047, 0x050, 0x051, 0x052, 0x053, 0x054, 0x055,
	0x056, 0x057, 0x058, 0x059, 0x05a, 0x064, 0x065, 0x070, 0x071, 0x072,
	0x073, 0x074, 0x080, 0x093, 0x095, 0x100, 0x102}
var ParamWord = []uint32{0x031, 0x05b, 0x05c, 0x05d, 0x05e, 0x081, 0x082, 0x101, 0x103}
var ParamText = []uint32{0x010, 0x011, 0x012, 0x013, 0x014, 0x015, 0x016, 0x017, 0x01a, 0x01d,
	0x023, 0x024, 0x025, 0x026, 0x040, 0x041, 0x042, 0x043, 0x044, 0x048, 0x049, 0x083}
var ParamByte = []uint32{0x084, 0x090, 0x091, 0x092, 0x094}

// ParamItem: the wire form of one parameter (id DWORD, length BYTE, value).
func ParamItem(id uint32, val []byte) []byte {
	return append([]byte{byte(id >> 24), byte(id >> 16), byte(id >> 8), byte(id), byte(len(val))}, val...)
}

// ParamsBody: a list of wire items for a chosen set of ids with in-domain values (ascending struct order is
// not required on the wire; Encode emits struct-field order, so for round-trip comparison callers sort).
func (g *Gen) ParamValue(id uint32) []byte {
	in := func(l []uint32) bool {
		for _, x := range l {
			if x == id {
				return true
			}
		}
		return false
	}
	switch {
	case in(ParamDword):
		v := g.u32()
		return []byte{byte(v >> 24), byte(v >> 16), byte(v >> 8), byte(v)}
	case in(ParamWord):
		v := g.u16()
		return []byte{byte(v >> 8), byte(v)}
	case in(ParamByte):
		return []byte{g.u8()}
	case in(ParamText):
		s := g.Text(40)
		if s == "" {
			s = "a"
		}
		return utils.UTF82GBK([]byte(s))
	case id == 0x032:
		return g.Bytes(4)
	case id == 0x110:
		return g.Bytes(8)
	}
	n := 1 + g.R.Intn(12)
	return g.Bytes(n)
}

// AllParamIDs in the order TerminalParamDetails declares its fields (= the order Encode emits them).
func AllParamIDs() []uint32 {
	return []uint32{0x001, 0x002, 0x003, 0x004, 0x005, 0x006, 0x007, 0x010, 0x011, 0x012, 0x013, 0x014, 0x015,
		0x016, 0x017, 0x018, 0x019, 0x01a, 0x01b, 0x01c, 0x01d, 0x020, 0x021, 0x022, 0x023, 0x024, 0x025, 0x026, 0x027,
		0x028, 0x029, 0x02c, 0x02d, 0x02e, 0x02f, 0x030, 0x031, 0x032, 0x040, 0x041, 0x042, 0x043, 0x044,
		0x045, 0x046, 0x047, 0x048, 0x049, 0x050, 0x051, 0x052, 0x053, 0x054, 0x055, 0x056, 0x057, 0x058,
		0x059, 0x05a, 0x05b, 0x05c, 0x05d, 0x05e, 0x064, 0x065, 0x070, 0x071, 0x072, 0x073, 0x074, 0x080,
		0x081, 0x082, 0x083, 0x084, 0x090, 0x091, 0x092, 0x093, 0x094, 0x095, 0x100, 0x101, 0x102, 0x103, 0x110}
}

// ParamsWire: a parameter list on the wire for the given ids, in the given order.
func (g *Gen) ParamsWire(ids []uint32) []byte {
	var b []byte
	for _, id := range ids {
		b = append(b, ParamItem(id, g.ParamValue(id))...)
	}
	return b
}

// RandomParamIDs: a random subset of the known ids plus some unknown ones, in ascending-by-struct order
// followed by the unknown ones ascending (the order Encode produces).
func (g *Gen) RandomParamIDs() []uint32 {
	all := AllParamIDs()
	var ids []uint32
	p := g.R.Intn(4)
	for _, id := range all {
		if id == 0x018 || id == 0x019 || id == 0x021 { // declared fields the parser has no case for: stored as unknown
			continue
		}
		if (p == 0 && g.R.Intn(12) == 0) || (p == 1 && g.R.Intn(3) == 0) || (p == 2 && g.R.Intn(40) == 0) || p == 3 && g.R.Intn(2) == 0 {
			ids = append(ids, id)
		}
	}
	unk := []uint32{0x018, 0x019, 0x021, 0x02a, 0x02b, 0x075, 0x076, 0x077, 0x079, 0x07a, 0x07b, 0x07c, 0x111, 0xf364, 0xf365, 0xffffffff}
	for _, id := range unk {
		if g.R.Intn(6) == 0 {
			ids = append(ids, id)
		}
	}
	return ids
}

// Value: a random in-domain value of type t for header version ver and dialect d; ok=false when the type has
// no in-domain values to generate here (one-way types).  hver is the header version to parse it with.
func (g *Gen) Value(t *BodyType, ver int, d consts.ActiveSafetyType) (h BodyHandler, ok bool) {
	switch t.Name {
	case "T0x0001":
		return &model.T0x0001{SerialNumber: g.u16(), ID: g.u16(), Result: g.u8()}, true
	case "T0x0002":
		return &model.T0x0002{}, true
	case "T0x0100":
		v := &model.T0x0100{ProvinceID: g.u16(), CityID: g.u16(), PlateColor: g.u8()}
		switch ver {
		case 3:
			v.Version = consts.JT808Protocol2019
			v.ManufacturerID, v.TerminalModel, v.TerminalID = g.Padded(11, false), g.Padded(30, false), g.Padded(30, false)
			v.LicensePlateNumber = g.Text(24)
		default:
			if g.R.Intn(2) == 0 {
				v.Version = consts.JT808Protocol2013
				v.ManufacturerID, v.TerminalModel, v.TerminalID = g.Padded(5, false), g.Padded(20, false), g.Padded(7, false)
				v.LicensePlateNumber = g.Text(24)
			} else {
				v.Version = consts.JT808Protocol2011
				v.ManufacturerID, v.TerminalModel, v.TerminalID = g.Padded(5, false), g.Padded(8, false), g.Padded(7, false)
				v.LicensePlateNumber = g.Text(11) // a longer plate makes the body > 36 bytes = the 2013 layout (by design)
			}
		}
		return v, true
	case "T0x0102":
		if ver == 3 {
			n := g.lenChoice(255)
			return &model.T0x0102{AuthCodeLen: uint8(n), AuthCode: g.Raw(n), TerminalIMEI: g.Raw(15),
				SoftwareVersion: g.Padded(20, true), Version: consts.JT808Protocol2019}, true
		}
		return &model.T0x0102{AuthCode: g.Raw(g.lenChoice(40)), Version: consts.JT808Protocol2013}, true
	case "T0x0200":
		return &model.T0x0200{T0x0200LocationItem: g.LocItem()}, true
	case "T0x0704":
		n := 1 + g.listLen(40)
		v := &model.T0x0704{Num: uint16(n), LocationType: g.u8()}
		for i := 0; i < n; i++ {
			v.Items = append(v.Items, model.T0x0704LocationItem{Len: 28, T0x0200LocationItem: g.LocItem()})
		}
		return v, true
	case "T0x0801":
		return &model.T0x0801{MultimediaID: g.u32(), MultimediaType: g.u8(), MultimediaFormatEncode: g.u8(), EventItemEncode: g.u8(),
			ChannelID: g.u8(), T0x0200LocationItem: g.LocItem(), MultimediaPackage: g.Bytes(g.lenChoice(40))}, true
	case "T0x0800":
		return &model.T0x0800{MultimediaID: g.u32(), MultimediaType: g.u8(), MultimediaFormatEncode: g.u8(),
			EventItemEncode: g.u8(), ChannelID: g.u8()}, true
	case "T0x0805":
		n := g.listLen(65535)
		v := &model.T0x0805{RespondSerialNumber: g.u16(), Result: g.u8(), MultimediaIDNumber: uint16(n)}
		for i := 0; i < n; i++ {
			v.MultimediaIDList = append(v.MultimediaIDList, g.u32())
		}
		return v, true
	case "T0x1003":
		return &model.T0x1003{EnterAudioEncoding: g.u8(), EnterAudioChannelsNumber: g.u8(), EnterAudioSampleRate: g.u8(),
			EnterAudioSampleDigits: g.u8(), AudioFrameLength: g.u16(), HasSupportedAudioOutput: g.u8(), VideoEncoding: g.u8(),
			TerminalSupportedMaxNumberOfAudioPhysicalChannels: g.u8(), TerminalSupportedMaxNumberOfVideoPhysicalChannels: g.u8()}, true
	case "T0x1005":
		return &model.T0x1005{StartTime: g.Time(), EndTime: g.Time(), BoardNumber: g.u16(), AlightNumber: g.u16()}, true
	case "T0x1205":
		n := g.listLen(2000)
		v := &model.T0x1205{SerialNumber: g.u16(), AudioVideoResourceTotal: uint32(n)}
		for i := 0; i < n; i++ {
			v.AudioVideoResourceList = append(v.AudioVideoResourceList, model.T0x1205AudioVideoResource{
				ChannelNo: g.u8(), StartTime: g.Time(), EndTime: g.Time(), AlarmFlag: g.u64(), AudioVideoResourceType: g.u8(),
				StreamType: g.u8(), MemoryType: g.u8(), FileSizeByte: g.u32()})
		}
		return v, true
	case "T0x1206":
		return &model.T0x1206{RespondSerialNumber: g.u16(), Result: g.u8()}, true
	case "T0x1210":
		idLen, _ := signWidths(d)
		n := g.listLen(255)
		v := &model.T0x1210{P9208AlarmSign: g.alarmSign(d), AlarmID: g.Padded(32, false), InfoType: g.u8(), AttachCount: uint8(n)}
		if d != consts.ActiveSafetyHLJ {
			v.TerminalID = g.Padded(idLen, false)
		}
		for i := 0; i < n; i++ {
			k := g.lenChoice(255)
			if !g.Big && k > 40 && g.R.Intn(4) != 0 {
				k = g.R.Intn(40)
			}
			v.T0x1210AlarmItemList = append(v.T0x1210AlarmItemList, model.T0x1210AlarmItem{FileNameLen: uint8(k), FileName: g.Raw(k), FileSize: g.u32()})
		}
		return v, true
	case "T0x1211":
		k := g.lenChoice(255)
		return &model.T0x1211{FileNameLen: uint8(k), FileName: g.Raw(k), FileType: g.u8(), FileSize: g.u32()}, true
	case "T0x1212":
		k := g.lenChoice(255)
		return &model.T0x1212{T0x1211: model.T0x1211{FileNameLen: uint8(k), FileName: g.Raw(k), FileType: g.u8(), FileSize: g.u32()}}, true
	case "P0x8001":
		return &model.P0x8001{RespondSerialNumber: g.u16(), RespondID: g.u16(), Result: g.u8()}, true
	case "P0x8003":
		n := g.listLen(255)
		v := &model.P0x8003{OriginalSerialNumber: g.u16(), AgainPackageCount: uint8(n)}
		for i := 0; i < n; i++ {
			v.AgainPackageList = append(v.AgainPackageList, g.u16())
		}
		return v, true
	case "P0x8100":
		return &model.P0x8100{RespondSerialNumber: g.u16(), Result: g.u8(), AuthCode: g.Raw(g.lenChoice(40))}, true
	case "P0x8103":
		// built by parsing a wire list (the struct has ~90 fields): the wire list is in domain by construction
		ids := g.RandomParamIDs()
		body := append([]byte{byte(len(ids))}, g.ParamsWire(ids)...)
		v := &model.P0x8103{}
		if ParseInto(v, ver, body) != "ok" {
			return nil, false
		}
		return v, true
	case "P0x8104":
		return &model.P0x8104{}, true
	case "P0x8800":
		n := g.listLen(255)
		v := &model.P0x8800{MultimediaID: g.u32(), AgainPackageCount: uint8(n)}
		for i := 0; i < n; i++ {
			v.AgainPackageList = append(v.AgainPackageList, g.u16())
		}
		return v, true
	case "P0x8801":
		return &model.P0x8801{ChannelID: g.u8(), ShootCommand: g.u16(), PhotoIntervalOrVideoTime: g.u16(), SaveFlag: g.u8(),
			Resolution: g.u8(), VideoQuality: g.u8(), Intensity: g.u8(), Contrast: g.u8(), Saturation: g.u8(), Chroma: g.u8()}, true
	case "P0x9003":
		return &model.P0x9003{}, true
	case "P0x9101":
		k := g.lenChoice(255)
		return &model.P0x9101{ServerIPLen: uint8(k), ServerIPAddr: g.Raw(k), TcpPort: g.u16(), UdpPort: g.u16(),
			ChannelNo: g.u8(), DataType: g.u8(), StreamType: g.u8()}, true
	case "P0x9102":
		return &model.P0x9102{ChannelNo: g.u8(), ControlCmd: g.u8(), CloseAudioVideoData: g.u8(), StreamType: g.u8()}, true
	case "P0x9105":
		return &model.P0x9105{ChannelNo: g.u8(), PackageLossRate: g.u8()}, true
	case "P0x9201":
		k := g.lenChoice(255)
		return &model.P0x9201{ServerIPLen: uint8(k), ServerIPAddr: g.Raw(k), TcpPort: g.u16(), UdpPort: g.u16(),
			ChannelNo: g.u8(), MediaType: g.u8(), StreamType: g.u8(), MemoryType: g.u8(), PlaybackWay: g.u8(), PlaySpeed: g.u8(),
			StartTime: g.Time(), EndTime: g.Time()}, true
	case "P0x9202":
		return &model.P0x9202{ChannelNo: g.u8(), PlayControl: g.u8(), PlaySpeed: g.u8(), DateTime: g.Time()}, true
	case "P0x9205":
		return &model.P0x9205{ChannelNo: g.u8(), StartTime: g.Time(), EndTime: g.Time(), AlarmFlag: g.u64(),
			MediaType: g.u8(), StreamType: g.u8(), StorageType: g.u8()}, true
	case "P0x9206":
		a, b, c, e := g.lenChoice(255), g.lenChoice(255), g.lenChoice(255), g.lenChoice(255)
		return &model.P0x9206{FTPAddrLen: uint8(a), FTPAddr: g.Raw(a), Port: g.u16(), UsernameLen: uint8(b), Username: g.Raw(b),
			PasswordLen: uint8(c), Password: g.Raw(c), FileUploadPathLen: uint8(e), FileUploadPath: g.Raw(e),
			ChannelNo: g.u8(), StartTime: g.Time(), EndTime: g.Time(), AlarmFlag: g.u64(), MediaType: g.u8(), StreamType: g.u8(),
			MemoryPosition: g.u8(), TaskExecuteCondition: g.u8()}, true
	case "P0x9207":
		return &model.P0x9207{RespondSerialNumber: g.u16(), UploadControl: g.u8()}, true
	case "P0x9208":
		k := g.lenChoice(255)
		return &model.P0x9208{ServerIPLen: uint8(k), ServerAddr: g.Raw(k), TcpPort: g.u16(), UdpPort: g.u16(),
			P9208AlarmSign: g.alarmSign(d), AlarmID: g.Padded(32, false), Reserve: g.Bytes(g.lenChoice(16))}, true
	case "P0x9212":
		k := g.lenChoice(255)
		n := g.listLen(255)
		v := &model.P0x9212{FileNameLen: uint8(k), FileName: g.Raw(k), FileType: g.u8(), UploadResult: g.u8(), RetransmitPacketNumber: uint8(n)}
		for i := 0; i < n; i++ {
			v.P0x9212RetransmitPacketList = append(v.P0x9212RetransmitPacketList, model.P0x9212RetransmitPacket{DataOffset: g.u32(), DataLength: g.u32()})
		}
		return v, true
	}
	return nil, false
}

// ParamsDirect builds a P0x8103 WITHOUT going through the parser: every chosen typed field of TerminalParamDetails
// (named T0x<id>...) is assigned by reflection {ID: id, Len: width of its type, Value: random in range}; text values
// are GBK-encodable (possibly empty), Len is the length of their GBK form; `others` adds unknown ids with raw values;
// ParamTotal is the number of parameters.  pick(id) chooses the fields.
func (g *Gen) ParamsDirect(pick func(id uint32) bool, others []uint32) *model.P0x8103 {
	v := &model.P0x8103{}
	d := reflect.ValueOf(&v.TerminalParamDetails).Elem()
	n := 0
	for i := 0; i < d.NumField(); i++ {
		name := d.Type().Field(i).Name
		if len(name) < 6 || name[:3] != "T0x" {
			continue
		}
		id64, err := strconv.ParseUint(name[3:6], 16, 32)
		if err != nil || !pick(uint32(id64)) {
			continue
		}
		f := d.Field(i)
		val := f.FieldByName("Value")
		var plen int
		switch val.Kind() {
		case reflect.Uint32:
			val.SetUint(uint64(g.u32()))
			plen = 4
		case reflect.Uint16:
			val.SetUint(uint64(g.u16()))
			plen = 2
		case reflect.Uint8:
			val.SetUint(uint64(g.u8()))
			plen = 1
		case reflect.String:
			s := g.Text(40)
			val.SetString(s)
			plen = len(utils.UTF82GBK([]byte(s)))
		case reflect.Array:
			for k := 0; k < val.Len(); k++ {
				val.Index(k).SetUint(uint64(g.u8()))
			}
			plen = val.Len()
		default:
			continue
		}
		f.FieldByName("ID").SetUint(id64)
		f.FieldByName("Len").SetUint(uint64(plen))
		n++
	}
	if len(others) > 0 {
		v.TerminalParamDetails.OtherContent = map[uint32]model.ParamContent[[]byte]{}
		for _, id := range others {
			b := g.Bytes(g.R.Intn(13))
			if id == 0 && len(b) == 0 {
				b = []byte{7}
			}
			if b == nil {
				b = []byte{}
			}
			v.TerminalParamDetails.OtherContent[id] = model.ParamContent[[]byte]{ID: id, Len: byte(len(b)), Value: b}
			n++
		}
	}
	v.ParamTotal = uint8(n)
	return v
}

// Versions / Dialects a type is exercised with.
func (t *BodyType) Versions() []int {
	if t.VerDep {
		return []int{1, 2, 3}
	}
	return []int{2}
}
func (t *BodyType) Dialects() []int {
	if t.DialDep {
		return []int{0, 1, 2, 3, 4, 5, 6}
	}
	return []int{0}
}

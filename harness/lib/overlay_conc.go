package lib

// Build-time schedule widening for C13/C18 (builder "conc").
//
// GenDelayOverlay parses the CURRENT service/connection.go, inserts a call `verifDelay(<site>)`
// immediately before every channel send, every close(...), every select statement, every
// c.conn.Write / c.conn.Close call and at the top of every `go func` body, prints the file back
// unchanged otherwise, and writes a `go build -overlay` JSON that substitutes the rewritten file and
// adds verif_delay.go (the delay function) to package service.  No logic is changed: the rewritten
// program has exactly the behaviours of the original under some scheduler.  verifDelay reads its
// configuration from the environment at first use:
//
//	VERIF_DELAY_SEED  seed (default 1)
//	VERIF_DELAY_US    maximum sleep in microseconds (default 0 = only runtime.Gosched)
//	VERIF_DELAY_P     probability in percent that a site delays at all (default 30)
//	VERIF_DELAY_SITE  if set: only this site delays, always, by VERIF_DELAY_US (targeted replay)

import (
	"bytes"
	"encoding/json"
	"fmt"
	"go/ast"
	"go/parser"
	"go/printer"
	"go/token"
	"os"
	"os/exec"
	"path/filepath"
	"runtime"
	"strings"
)

const delaySrc = `package service

import (
	"math/rand"
	"os"
	"runtime"
	"strconv"
	"sync"
	"time"
)

var verifDelayState struct {
	once sync.Once
	mu   sync.Mutex
	rng  *rand.Rand
	us   int
	p    int
	site int
}

func verifDelay(site int) {
	st := &verifDelayState
	st.once.Do(func() {
		geti := func(k string, d int) int {
			if v, err := strconv.Atoi(os.Getenv(k)); err == nil {
				return v
			}
			return d
		}
		st.rng = rand.New(rand.NewSource(int64(geti("VERIF_DELAY_SEED", 1))))
		st.us = geti("VERIF_DELAY_US", 0)
		st.p = geti("VERIF_DELAY_P", 30)
		st.site = geti("VERIF_DELAY_SITE", -1)
	})
	if st.site >= 0 {
		if site == st.site {
			time.Sleep(time.Duration(st.us) * time.Microsecond)
		}
		return
	}
	st.mu.Lock()
	hit := st.rng.Intn(100) < st.p
	d := 0
	if hit && st.us > 0 {
		d = st.rng.Intn(st.us + 1)
	}
	st.mu.Unlock()
	if !hit {
		return
	}
	if d == 0 {
		runtime.Gosched()
		return
	}
	time.Sleep(time.Duration(d) * time.Microsecond)
}
`

type DelaySite struct {
	ID   int
	Line int
	What string
	Func string
}

// GenDelayOverlay writes <out>/connection.go, <out>/verif_delay.go, <out>/overlay.json.
func GenDelayOverlay(serviceDir, out string) (string, []DelaySite, error) {
	src := filepath.Join(serviceDir, "connection.go")
	fset := token.NewFileSet()
	f, err := parser.ParseFile(fset, src, nil, parser.ParseComments)
	if err != nil {
		return "", nil, err
	}
	var sites []DelaySite
	mk := func(pos token.Pos, what, fn string) ast.Stmt {
		id := len(sites)
		sites = append(sites, DelaySite{ID: id, Line: fset.Position(pos).Line, What: what, Func: fn})
		return &ast.ExprStmt{X: &ast.CallExpr{Fun: ast.NewIdent("verifDelay"),
			Args: []ast.Expr{&ast.BasicLit{Kind: token.INT, Value: fmt.Sprint(id)}}}}
	}
	isCall := func(e ast.Expr, names ...string) (string, bool) {
		c, ok := e.(*ast.CallExpr)
		if !ok {
			return "", false
		}
		var b bytes.Buffer
		printer.Fprint(&b, fset, c.Fun)
		for _, n := range names {
			if b.String() == n {
				return n, true
			}
		}
		return "", false
	}
	var curFn string
	var rwList func(list []ast.Stmt) []ast.Stmt
	var rwStmt func(s ast.Stmt)
	// function literals inside an expression/statement that is not itself a block
	rwLits := func(n ast.Node) {
		ast.Inspect(n, func(m ast.Node) bool {
			if fl, ok := m.(*ast.FuncLit); ok {
				body := rwList(fl.Body.List)
				fl.Body.List = append([]ast.Stmt{mk(fl.Pos(), "func-entry", curFn)}, body...)
				return false
			}
			return true
		})
	}
	rwStmt = func(s ast.Stmt) {
		switch x := s.(type) {
		case *ast.BlockStmt:
			x.List = rwList(x.List)
		case *ast.IfStmt:
			x.Body.List = rwList(x.Body.List)
			if x.Else != nil {
				rwStmt(x.Else)
			}
		case *ast.ForStmt:
			x.Body.List = rwList(x.Body.List)
		case *ast.RangeStmt:
			x.Body.List = rwList(x.Body.List)
		case *ast.SwitchStmt:
			for _, c := range x.Body.List {
				cc := c.(*ast.CaseClause)
				cc.Body = rwList(cc.Body)
			}
		case *ast.TypeSwitchStmt:
			for _, c := range x.Body.List {
				cc := c.(*ast.CaseClause)
				cc.Body = rwList(cc.Body)
			}
		case *ast.SelectStmt:
			for _, c := range x.Body.List {
				cc := c.(*ast.CommClause)
				cc.Body = rwList(cc.Body)
			}
		case *ast.LabeledStmt:
			rwStmt(x.Stmt)
		default:
			rwLits(s)
		}
	}
	rwList = func(list []ast.Stmt) []ast.Stmt {
		var outl []ast.Stmt
		for _, s := range list {
			switch x := s.(type) {
			case *ast.SendStmt:
				outl = append(outl, mk(x.Pos(), "send", curFn))
			case *ast.SelectStmt:
				outl = append(outl, mk(x.Pos(), "select", curFn))
			case *ast.ExprStmt:
				if n, ok := isCall(x.X, "close", "c.conn.Close", "c.leaveFunc"); ok {
					outl = append(outl, mk(x.Pos(), n, curFn))
				}
			case *ast.AssignStmt:
				for _, r := range x.Rhs {
					if n, ok := isCall(r, "c.conn.Write", "c.conn.Close", "c.joinFunc"); ok {
						outl = append(outl, mk(x.Pos(), n, curFn))
					}
				}
			case *ast.IfStmt:
				if as, ok := x.Init.(*ast.AssignStmt); ok {
					for _, r := range as.Rhs {
						if n, ok := isCall(r, "c.conn.Write"); ok {
							outl = append(outl, mk(x.Pos(), n, curFn))
						}
					}
				}
			}
			rwStmt(s)
			outl = append(outl, s)
		}
		return outl
	}
	for _, d := range f.Decls {
		fd, ok := d.(*ast.FuncDecl)
		if !ok || fd.Body == nil {
			continue
		}
		curFn = fd.Name.Name
		fd.Body.List = rwList(fd.Body.List)
	}
	var buf bytes.Buffer
	if err := printer.Fprint(&buf, fset, f); err != nil {
		return "", nil, err
	}
	if err := os.MkdirAll(out, 0o755); err != nil {
		return "", nil, err
	}
	re := filepath.Join(out, "connection.go")
	dl := filepath.Join(out, "verif_delay.go")
	if err := os.WriteFile(re, buf.Bytes(), 0o644); err != nil {
		return "", nil, err
	}
	if err := os.WriteFile(dl, []byte(delaySrc), 0o644); err != nil {
		return "", nil, err
	}
	ov := map[string]map[string]string{"Replace": {src: re, filepath.Join(serviceDir, "verif_delay.go"): dl}}
	b, _ := json.MarshalIndent(ov, "", " ")
	oj := filepath.Join(out, "overlay.json")
	if err := os.WriteFile(oj, b, 0o644); err != nil {
		return "", nil, err
	}
	return oj, sites, nil
}

// HarnessSrcDir: directory of the harness module this binary was built from (…/harness).
func HarnessSrcDir() string {
	_, file, _, _ := runtime.Caller(0) // …/harness/lib/overlay_conc.go
	return filepath.Dir(filepath.Dir(file))
}

// ServiceDir: the directory of package service the harness module is built against (go.mod replace).
func ServiceDir() string {
	b, err := os.ReadFile(filepath.Join(HarnessSrcDir(), "go.mod"))
	if err != nil {
		return "/repo/service"
	}
	for _, l := range strings.Split(string(b), "\n") {
		if strings.Contains(l, "go-jt808/service =>") {
			return strings.TrimSpace(l[strings.Index(l, "=>")+2:])
		}
	}
	return "/repo/service"
}

// BuildChild builds ./cmd/<cmd> of the harness module with the delay overlay (and -race when race
// is set) into <out>/<name>; returns the binary path and the instrumented sites.
func BuildChild(cmd, out, name string, race bool) (string, []DelaySite, error) {
	oj, sites, err := GenDelayOverlay(ServiceDir(), filepath.Join(out, "overlay-"+name))
	if err != nil {
		return "", nil, fmt.Errorf("overlay: %w", err)
	}
	bin := filepath.Join(out, name)
	args := []string{"build", "-tags", "verif", "-overlay", oj, "-o", bin}
	if race {
		args = append(args, "-race")
	}
	args = append(args, "./cmd/"+cmd)
	c := exec.Command("go", args...)
	c.Dir = HarnessSrcDir()
	env := []string{}
	for _, e := range os.Environ() {
		if strings.HasPrefix(e, "CGO_ENABLED=") {
			continue
		}
		env = append(env, e)
	}
	cgo := "0"
	if race {
		cgo = "1"
	}
	c.Env = append(env, "CGO_ENABLED="+cgo, "GOFLAGS=-mod=mod", "GOPROXY=off", "GOSUMDB=off", "GOTOOLCHAIN=local")
	if outb, err := c.CombinedOutput(); err != nil {
		return "", sites, fmt.Errorf("go build: %v: %s", err, Trunc(string(outb), 2000))
	}
	return bin, sites, nil
}

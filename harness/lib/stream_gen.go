package lib

// Generators shared by the stream properties (C04, C05, C14): an independent JT/T 808 frame
// builder written from the standard (tables 1-4: no code of /repo), body fillers, and cutters
// that turn a byte stream into reads.

import (
	"math/rand"
	"strconv"
	"strings"
)

// FrameSpec is a frame as the standard describes it.
type FrameSpec struct {
	ID      uint16
	Ver2019 bool
	Enc     uint8  // bit 10 only (0/1)
	Phone   []byte // 6 BCD bytes (2013) or 10 (2019)
	Serial  uint16
	Frag    bool
	Sum, No uint16 // written only when Frag
	Body    []byte
}

// Payload: header + body + check code, before escaping.
func (f FrameSpec) Payload() []byte {
	attr := uint16(len(f.Body)) & 0x3ff
	if f.Ver2019 {
		attr |= 1 << 14
	}
	if f.Frag {
		attr |= 1 << 13
	}
	attr |= uint16(f.Enc&1) << 10
	p := []byte{byte(f.ID >> 8), byte(f.ID), byte(attr >> 8), byte(attr)}
	if f.Ver2019 {
		p = append(p, 1)
	}
	p = append(p, f.Phone...)
	p = append(p, byte(f.Serial>>8), byte(f.Serial))
	if f.Frag {
		p = append(p, byte(f.Sum>>8), byte(f.Sum), byte(f.No>>8), byte(f.No))
	}
	p = append(p, f.Body...)
	var x byte
	for _, b := range p {
		x ^= b
	}
	return append(p, x)
}

// Wire: the escaped frame with both delimiters.
func (f FrameSpec) Wire() []byte {
	out := []byte{0x7e}
	for _, b := range f.Payload() {
		switch b {
		case 0x7e:
			out = append(out, 0x7d, 0x02)
		case 0x7d:
			out = append(out, 0x7d, 0x01)
		default:
			out = append(out, b)
		}
	}
	return append(out, 0x7e)
}

// Canon: the canonical message the parser must extract from this frame (complete = 0).
func (f FrameSpec) Canon() string {
	sum, no := uint16(0), uint16(0)
	if f.Frag {
		sum, no = f.Sum, f.No
	}
	return strconv.Itoa(int(f.ID)) + "," + strconv.Itoa(int(f.Serial)) + "," + strconv.Itoa(int(sum)) + "," +
		strconv.Itoa(int(no)) + ",0," + Hx(f.Body) + "," + Hx(f.Wire())
}

// RandPhone: BCD digits.
func RandPhone(rng *rand.Rand, v2019 bool) []byte {
	n := 6
	if v2019 {
		n = 10
	}
	p := make([]byte, n)
	for i := range p {
		p[i] = byte(rng.Intn(10)<<4 | rng.Intn(10))
	}
	return p
}

// RandBody: n bytes in one of several styles (plain, escape-dense, UTF-8 lead bytes, zeros).
func RandBody(rng *rand.Rand, n int) []byte {
	b := make([]byte, n)
	switch rng.Intn(6) {
	case 0: // uniform
		rng.Read(b)
	case 1: // escape-dense: mostly 7e / 7d
		for i := range b {
			switch rng.Intn(4) {
			case 0:
				b[i] = 0x7e
			case 1:
				b[i] = 0x7d
			case 2:
				b[i] = byte(1 + rng.Intn(2)) // looks like the second half of an escape pair
			default:
				b[i] = byte(rng.Intn(256))
			}
		}
	case 2: // UTF-8 lead and continuation bytes around delimiters (the fast path walks runes)
		alphabet := []byte{0xe4, 0xb8, 0xad, 0xf0, 0x9f, 0xc3, 0x80, 0xbf, 0x7e, 0x7d, 0xff, 0xfe, 0xc0, 0xed, 0xa0}
		for i := range b {
			b[i] = alphabet[rng.Intn(len(alphabet))]
		}
	case 3: // all 7e
		for i := range b {
			b[i] = 0x7e
		}
	case 4: // ascii, no escapes at all
		for i := range b {
			b[i] = byte(0x20 + rng.Intn(0x5d))
		}
	default: // all 7d
		for i := range b {
			b[i] = 0x7d
		}
	}
	return b
}

var commonIDs = []uint16{0x0002, 0x0001, 0x0100, 0x0102, 0x0200, 0x0704, 0x0801, 0x0104, 0x0003, 0x8003, 0x7e7e, 0x7d02, 0xffff, 0}

// RandFrame: a valid frame; body length is chosen by the caller.
func RandFrame(rng *rand.Rand, blen int) FrameSpec {
	f := FrameSpec{Ver2019: rng.Intn(2) == 0, Serial: uint16(rng.Intn(65536)), Body: RandBody(rng, blen)}
	if rng.Intn(3) == 0 {
		f.ID = uint16(rng.Intn(65536))
	} else {
		f.ID = commonIDs[rng.Intn(len(commonIDs))]
	}
	if rng.Intn(8) == 0 {
		f.Enc = 1
	}
	f.Phone = RandPhone(rng, f.Ver2019)
	if rng.Intn(6) == 0 {
		for i := range f.Phone { // phones that need escaping
			f.Phone[i] = []byte{0x7e, 0x7d}[rng.Intn(2)]
		}
	}
	if rng.Intn(5) == 0 {
		f.Serial = []uint16{0x7e7e, 0x7d7d, 0x7e7d, 0, 65535}[rng.Intn(5)]
	}
	return f
}

// Chunks cuts stream at the given ascending offsets (0 < c < len; duplicates and out-of-range dropped).
func Chunks(stream []byte, cuts []int) [][]byte {
	var out [][]byte
	prev := 0
	for _, c := range cuts {
		if c <= prev || c >= len(stream) {
			continue
		}
		out = append(out, stream[prev:c])
		prev = c
	}
	if prev < len(stream) {
		out = append(out, stream[prev:])
	}
	return out
}

// LimitChunks splits every chunk longer than max (the reader's buffer is 1023 bytes).
func LimitChunks(chunks [][]byte, max int) [][]byte {
	var out [][]byte
	for _, c := range chunks {
		for len(c) > max {
			out = append(out, c[:max])
			c = c[max:]
		}
		if len(c) > 0 {
			out = append(out, c)
		}
	}
	return out
}

// RandCuts: k random cut offsets, sorted.
func RandCuts(rng *rand.Rand, n, k int) []int {
	if n < 2 {
		return nil
	}
	m := map[int]bool{}
	for i := 0; i < k; i++ {
		m[1+rng.Intn(n-1)] = true
	}
	out := make([]int, 0, len(m))
	for c := 1; c < n; c++ {
		if m[c] {
			out = append(out, c)
		}
	}
	return out
}

// HexChunks renders chunks as request arguments.
func HexChunks(chunks [][]byte, prefix string) string {
	sb := make([]string, len(chunks))
	for i, c := range chunks {
		sb[i] = prefix + Hx(c)
	}
	return strings.Join(sb, " ")
}

// Transfer is one sub-packaged message as a terminal sends it: N packets with the same id,
// consecutive serials, total N, numbers 1..N.
type Transfer struct {
	ID      uint16
	Ver2019 bool
	Phone   []byte
	Serial0 uint16 // serial of packet 1; packet k has Serial0+k-1
	Bodies  [][]byte
}

// Packet returns the frame of packet number no (1-based) carrying Bodies[no-1].
func (t Transfer) Packet(no int) FrameSpec {
	return FrameSpec{ID: t.ID, Ver2019: t.Ver2019, Phone: t.Phone, Serial: t.Serial0 + uint16(no-1), Frag: true,
		Sum: uint16(len(t.Bodies)), No: uint16(no), Body: t.Bodies[no-1]}
}

// Odd returns a sub-package of this transfer's id with an arbitrary (impossible) number.
func (t Transfer) Odd(no int, body []byte) FrameSpec {
	return FrameSpec{ID: t.ID, Ver2019: t.Ver2019, Phone: t.Phone, Serial: t.Serial0 + 1000, Frag: true,
		Sum: uint16(len(t.Bodies)), No: uint16(no), Body: body}
}

func (t Transfer) Whole() []byte {
	var b []byte
	for _, x := range t.Bodies {
		b = append(b, x...)
	}
	return b
}

// RandTransfer: n packets, bodies non-empty; style picks equal / unequal lengths and escape density.
func RandTransfer(rng *rand.Rand, id uint16, n int, maxBody int) Transfer {
	t := Transfer{ID: id, Ver2019: rng.Intn(2) == 0, Serial0: uint16(rng.Intn(65536))}
	t.Phone = RandPhone(rng, t.Ver2019)
	equal := rng.Intn(2) == 0
	l0 := 1 + rng.Intn(maxBody)
	for i := 0; i < n; i++ {
		l := l0
		if !equal {
			l = 1 + rng.Intn(maxBody)
		}
		b := RandBody(rng, l)
		if rng.Intn(3) == 0 { // escape-free, all equal content: makes aliasing of a shared buffer visible
			for j := range b {
				b[j] = byte(0x30 + i%10)
			}
		}
		t.Bodies = append(t.Bodies, b)
	}
	return t
}

// Perms calls f with every permutation of a (in place; f must not keep the slice).
func Perms(a []int, f func([]int)) {
	var rec func(k int)
	rec = func(k int) {
		if k == len(a) {
			f(a)
			return
		}
		for i := k; i < len(a); i++ {
			a[k], a[i] = a[i], a[k]
			rec(k + 1)
			a[k], a[i] = a[i], a[k]
		}
	}
	rec(0)
}

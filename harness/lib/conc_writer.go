package lib

// Scenario engine for C12 / C13 (builder "conc2"): one scripted terminal on its own connection, k concurrent
// SendActiveMessage callers, responses in any order / late / twice / with unknown serials / unparsable /
// never, heartbeats and location reports in between, close or RST at a chosen point.  Everything that an
// outside observer sees is recorded with time stamps (microseconds since the start of the scenario):
//
//	chain T    what the terminal sent, in the order of the socket writes (and its close)
//	chain F    the platform frames the terminal received, in order
//	chain K<i> caller i: invocation and return of SendActiveMessage with the classified result
//
// The history is (a) checked directly against the property (every call returns once, in time, with the
// response that echoes the serial of ITS command; serials consecutive; each command written once; other
// traffic answered in order) and (b) handed to the extracted model as a `wexp` request: is there a schedule
// of Model/Writer.v that explains it (oracle/drv_c12.ml).

import (
	"fmt"
	"math/rand"
	"net"
	"sort"
	"strings"
	"sync"
	"syscall"
	"time"
)

type WCall struct {
	Cmd     uint16
	Body    []byte
	Timeout time.Duration // < 0: no timeout (OverTimeDuration < 0)
	Start   time.Duration

	Inv, Ret int64
	Res      CallRes
	Done     bool
}

type WAct struct {
	Kind   string // now | delay | twice | unknown | never | bad | unkthen | hold | frag
	Delay  time.Duration
	Pieces int    // frag: number of sub-packages (2..3; more when the body needs it)
	Long   bool   // frag: a body that does not fit into one frame
	Mid    bool   // frag: a heartbeat between the sub-packages
	Probe  bool   // a heartbeat right after the response: its reply proves that the writer has dealt with the response
	Typ    uint16 // now / delay: answer with this echoing response type instead of the command's usual one (0 = usual)
}

type WScn struct {
	Kind         string
	Seed         int64
	Phone        string
	PreJoin      bool // join (one heartbeat) before the recording starts
	RecordJoin   bool // the first heartbeat is part of the recorded history
	PreAdvance   int  // heartbeats sent and answered before the recording (advances the platform serial)
	Calls        []*WCall
	Acts         []WAct
	Beats        []time.Duration // other traffic at these times (heartbeat / location report alternating)
	Burst        int             // answer the held commands in ONE socket write once this many command frames arrived
	BurstDup     int             // ... each response this many times
	Reissues     []time.Duration // a 0x8003 (re-request) frame from the terminal at these times
	ReissueBurst int             // this many 0x8003 frames in one write at the start (reissuePackChan holds 3)
	Stall        bool            // first packet of a 2-packet transfer at the start, a heartbeat 5.1 s later: generated re-request
	EmptyKey     bool            // the terminal's KeyFunc result is "": calls address the key ""
	Flood        int             // this many heartbeats in ONE socket write at the start of the recording (more than msgChan holds)
	CloseReplies int             // close after this many 0x8001 replies were received (0 = no)
	CloseFrames  int             // close after this many command frames were received and handled (0 = no)
	CloseTime    time.Duration   // close at this time (0 = no)
	RST          bool
	Garbage      bool // instead of closing, send a frame with a bad check code: the reader gives up and the SERVER closes
	Slack        time.Duration
}

type WViol struct {
	Sig, What, Observed, Required string
}

type WHist struct {
	S0     int
	Pre    bool
	Join   string
	Items  []string
	Closed bool
	Viol   []WViol
	NCalls int
	Kinds  map[string]int // result kinds
	Note   string         // witness runners: "setup-failed: ..." when the witness could not be set up, "reproduced" / "not-reproduced" otherwise
}

// Request is the `wexp` line for the oracle.
// Searchable: histories beyond this size are checked by the direct oracle only.
func (h *WHist) Searchable() bool { return len(h.Items) > 0 && len(h.Items) <= 50 }

func (h *WHist) Request() string {
	pre := "0"
	if h.Pre {
		pre = "1"
	}
	return fmt.Sprintf("wexp %d %s %s %s", h.S0, pre, h.Join, strings.Join(h.Items, " "))
}

var respTypeOf = map[uint16]uint16{
	0x8103: 0x0001, 0x8104: 0x0104, 0x8801: 0x0805, 0x9101: 0x0001, 0x9102: 0x0001,
	0x9205: 0x1205, 0x9206: 0x1206, 0x9003: 0x1003,
}

var WCmds = []uint16{0x8103, 0x8104, 0x8801, 0x9101, 0x9102, 0x9205, 0x9206}

// WCmdsNoHandler: platform commands that createDefaultHandle does NOT register (no entry in the connection's
// handler table): the completion messages the library builds for them (timeout, write failure, ErrNotExistKey at
// the disconnect) carry a nil Handler.  Answered by a 0x0001 like any other command.
var WCmdsNoHandler = []uint16{0x8300, 0x8105, 0x8201, 0x8202, 0x8500, 0x8600}

// EmptyKeyPrefix: the child servers run with a KeyFunc that maps phones with this prefix to the key "" (and every
// other phone to itself, as the default does).
const EmptyKeyPrefix = "166"

func ChildKeyFunc(phone string) (string, bool) {
	if strings.HasPrefix(phone, EmptyKeyPrefix) {
		return "", true
	}
	return phone, true
}

// WBody: a command body of exactly n bytes that starts with the marker (as much of it as fits); the rest is
// escape-dense (0x7e / 0x7d alternating: every byte doubles on the wire) or plain.  1023 is the largest body a
// frame can carry (10-bit length).
func WBody(marker []byte, n int, dense bool) []byte {
	b := make([]byte, n)
	for i := range b {
		switch {
		case i < len(marker):
			b[i] = marker[i]
		case dense && i%2 == 0:
			b[i] = 0x7e
		case dense:
			b[i] = 0x7d
		default:
			b[i] = byte(i % 251)
		}
	}
	return b
}

var WBodyLens = []int{0, 1, 2, 1000, 1022, 1023}

var emptyKeyMu sync.Mutex // one connection at a time can own the key ""

func locBody() []byte { // 28-byte basic location information, 2024-10-01 12:00:00
	b := make([]byte, 28)
	copy(b[22:], []byte{0x24, 0x10, 0x01, 0x12, 0x00, 0x00})
	return b
}

// TSubFrame: one sub-package of a fragmented terminal message (attribute bit 13, package total and number).
func TSubFrame(id uint16, phone string, serial, sum, no uint16, body []byte) []byte {
	if len(body) > 1023 {
		panic("body too long")
	}
	attr := uint16(len(body)) | 1<<13
	b := []byte{byte(id >> 8), byte(id), byte(attr >> 8), byte(attr)}
	b = append(b, bcdDigits(phone, 6)...)
	b = append(b, byte(serial>>8), byte(serial), byte(sum>>8), byte(sum), byte(no>>8), byte(no))
	b = append(b, body...)
	var x byte
	for _, v := range b {
		x ^= v
	}
	return esc808(append(b, x))
}

// LongRespBody: a response body of the given type echoing a platform serial; long enough to need sub-packages
// when long is set (0x1205: 45 resources, 0x0805: 300 multimedia ids, 0x0104: 130 DWORD parameters).
func LongRespBody(typ, echo, cmd uint16, long bool) []byte {
	if !long {
		return RespBody(typ, echo, cmd)
	}
	switch typ {
	case 0x1205:
		n := 45
		b := []byte{byte(echo >> 8), byte(echo), 0, 0, byte(n >> 8), byte(n)}
		for i := 0; i < n; i++ {
			item := make([]byte, 28)
			item[0] = byte(1 + i%4)
			copy(item[1:7], []byte{0x24, 0x10, 0x01, 0x08, byte(i%10)<<4 | byte(i%10), 0})
			copy(item[7:13], []byte{0x24, 0x10, 0x01, 0x09, byte(i%10)<<4 | byte(i%10), 0})
			item[21], item[22], item[23] = 0, 1, 1
			item[27] = byte(i)
			b = append(b, item...)
		}
		return b
	case 0x0805:
		n := 300
		b := []byte{byte(echo >> 8), byte(echo), 0, byte(n >> 8), byte(n)}
		for i := 0; i < n; i++ {
			b = append(b, 0, 0, byte(i>>8), byte(i))
		}
		return b
	case 0x0104:
		n := 130
		b := []byte{byte(echo >> 8), byte(echo), byte(n)}
		for i := 0; i < n; i++ {
			b = append(b, 0, 0, 0, 1, 4, 0, 0, 0, byte(i))
		}
		return b
	}
	return RespBody(typ, echo, cmd)
}

// SplitBody cuts a body into k non-empty pieces of at most 1023 bytes.
func SplitBody(body []byte, k int) [][]byte {
	if k > len(body) {
		k = len(body)
	}
	for (len(body)+k-1)/k > 1023 {
		k++
	}
	var out [][]byte
	sz := (len(body) + k - 1) / k
	for i := 0; i < len(body); i += sz {
		e := i + sz
		if e > len(body) {
			e = len(body)
		}
		out = append(out, body[i:e])
	}
	return out
}

const farFuture = int64(1) << 40

type wrun struct {
	s         *Srv
	sc        *WScn
	t         *Term
	t0        time.Time
	mu        sync.Mutex // guards everything below and serialises the terminal's writes
	T, F      []string
	cmdN      int
	closed    bool
	frames    []PFrame           // every platform frame received during the recording
	sentResp  map[uint16][]int64 // echo -> times a parsable response echoing it was written
	beatTags  []uint16
	beatSent  map[uint16]int64 // tag -> time the heartbeat had been written
	replyAt   map[uint16]int64 // tag -> time its 0x8001 was received
	replied   []uint16         // tags of the 0x8001 replies received, in order
	heldCmd   []PFrame
	nreplies  int
	nreisSent int // 0x8003 frames the server owes us (sent by the terminal or generated for the stalled transfer)
	nreisSeen int
	srvClosed bool  // the server closed the connection although the scenario never did
	closedAt  int64 // time of the scenario's close
	todo      int   // scripted terminal actions not yet performed (first heartbeat, beats, delayed responses)
	syncTag   int
	syncCh    chan struct{}
	viol      []WViol
}

func (r *wrun) us() int64 { return time.Since(r.t0).Microseconds() }

func (r *wrun) violate(sig, what, obs, req string) {
	r.viol = append(r.viol, WViol{Sig: sig, What: what, Observed: obs, Required: req})
}

// sendMsg writes one terminal frame and records it (caller holds r.mu).
func (r *wrun) sendMsg(id uint16, body []byte, tok func(serial uint16) string) uint16 {
	if r.closed {
		return 0
	}
	serial := r.t.NextSerial()
	lo := r.us()
	_, err := r.t.Conn.Write(TFrame(id, r.t.Phone, serial, body))
	hi := r.us()
	if err == nil {
		r.T = append(r.T, fmt.Sprintf("T/s:%s/%d/%d", tok(serial), lo, hi))
	}
	return serial
}

func (r *wrun) sendBeat(loc bool) {
	id, body := uint16(0x0002), []byte(nil)
	if loc {
		id, body = 0x0200, locBody()
	}
	s := r.sendMsg(id, body, func(serial uint16) string { return fmt.Sprintf("o.%d.1", serial) })
	if !r.closed {
		r.beatTags = append(r.beatTags, s)
		r.beatSent[s] = r.us()
	}
}

func (r *wrun) sendReissue() {
	if r.closed {
		return
	}
	r.sendMsg(0x8003, []byte{0, 1, 1, 0, 2}, func(uint16) string { return "q" })
	if !r.closed {
		r.nreisSent++
	}
}

// sendFrag sends the response to (cmd, echo) in sub-packages: every packet is a message of its own for the
// server (TFrag in the model); with the last one the reassembler emits the merged response.
func (r *wrun) sendFrag(cmd, echo uint16, a WAct) {
	if r.closed {
		return
	}
	typ := respTypeOf[cmd]
	if typ == 0 {
		typ = 0x0001
	}
	pieces := SplitBody(LongRespBody(typ, echo, cmd, a.Long), a.Pieces)
	for i, pc := range pieces {
		serial := r.t.NextSerial()
		lo := r.us()
		_, err := r.t.Conn.Write(TSubFrame(typ, r.t.Phone, serial, uint16(len(pieces)), uint16(i+1), pc))
		hi := r.us()
		if err != nil {
			return
		}
		r.T = append(r.T, fmt.Sprintf("T/s:f/%d/%d", lo, hi))
		if i == len(pieces)-1 {
			if typ == 0x1003 {
				r.T = append(r.T, fmt.Sprintf("T/s:a/%d/%d", lo, hi))
			} else {
				r.T = append(r.T, fmt.Sprintf("T/s:r.%d.%d/%d/%d", typ, echo, lo, hi))
				r.sentResp[echo] = append(r.sentResp[echo], hi)
			}
		} else if a.Mid {
			r.sendBeat(false)
		}
	}
}

func (r *wrun) sendResp(cmd uint16, echo uint16, bad bool) { r.sendRespT(cmd, echo, bad, 0) }

func (r *wrun) sendRespT(cmd uint16, echo uint16, bad bool, force uint16) {
	typ := respTypeOf[cmd]
	if typ == 0 {
		typ = 0x0001
	}
	if force != 0 && typ != 0x1003 {
		typ = force
	}
	switch {
	case bad:
		r.sendMsg(typ, []byte{1}, func(uint16) string { return fmt.Sprintf("b.%d", typ) })
	case typ == 0x1003:
		r.sendMsg(typ, RespBody(typ, echo, cmd), func(uint16) string { return "a" })
	default:
		r.sendMsg(typ, RespBody(typ, echo, cmd), func(uint16) string { return fmt.Sprintf("r.%d.%d", typ, echo) })
		if !r.closed {
			r.sentResp[echo] = append(r.sentResp[echo], r.us())
		}
	}
}

func (r *wrun) doClose() {
	if r.closed {
		return
	}
	lo := r.us()
	switch {
	case r.sc.Garbage: // a live peer whose data does not parse: connection.reader returns on the parse error
		bad := TFrame(0x0002, r.t.Phone, r.t.NextSerial(), nil)
		bad[len(bad)-2] ^= 0x55
		if bad[len(bad)-2] == 0x7e || bad[len(bad)-2] == 0x7d {
			bad[len(bad)-2] = 0x11
		}
		r.t.Conn.Write(bad)
	case r.sc.RST:
		r.t.Reset()
	default:
		r.t.Close()
	}
	hi := r.us()
	r.closed = true
	r.closedAt = hi
	r.T = append(r.T, fmt.Sprintf("T/x/%d/%d", lo, hi))
}

func (r *wrun) handle(f PFrame) {
	r.mu.Lock()
	defer r.mu.Unlock()
	if r.closed {
		return
	}
	t := r.us()
	if f.Bad == "" && f.ID == 0x8001 && len(f.Body) >= 2 && int(f.Body[0])<<8|int(f.Body[1]) == r.syncTag {
		select {
		case <-r.syncCh:
		default:
			close(r.syncCh)
		}
		return // the reply to the final heartbeat: after the end of the recording
	}
	r.frames = append(r.frames, f)
	if f.Bad != "" {
		r.violate("malformed-frame", "the terminal received a malformed platform frame", f.Bad, "a well-formed frame")
		return
	}
	if f.ID == 0x8001 {
		if len(f.Body) < 2 { // the reply to a 0x1003 that completed nothing has an empty body
			r.F = append(r.F, fmt.Sprintf("F/R%d.a/0/%d", f.Serial, t))
			return
		}
		tag := int(f.Body[0])<<8 | int(f.Body[1])
		r.F = append(r.F, fmt.Sprintf("F/R%d.%d/0/%d", f.Serial, tag, t))
		r.replied = append(r.replied, uint16(tag))
		r.replyAt[uint16(tag)] = t
		r.nreplies++
		if r.sc.CloseReplies > 0 && r.nreplies == r.sc.CloseReplies {
			r.doClose()
		}
		return
	}
	if f.ID == 0x8003 { // subPackReplyEvent: the re-request as a platform frame
		r.F = append(r.F, fmt.Sprintf("F/Q%d/0/%d", f.Serial, t))
		r.nreisSeen++
		return
	}
	r.F = append(r.F, fmt.Sprintf("F/W%d.%d/0/%d", f.Serial, f.ID, t))
	own := false
	for _, c := range r.sc.Calls {
		if c.Cmd == f.ID && string(c.Body) == string(f.Body) {
			own = true
		}
	}
	if !own {
		r.violate("foreign-command", "the terminal received a command that none of the calls addressed to it had sent",
			fmt.Sprintf("frame %04x serial %d body %x", f.ID, f.Serial, f.Body), "only the commands of calls with this terminal's key")
	}
	n := r.cmdN
	r.cmdN++
	act := WAct{Kind: "now"}
	if n < len(r.sc.Acts) {
		act = r.sc.Acts[n]
	}
	cmd, echo := f.ID, f.Serial
	later := func(d time.Duration, fn func()) {
		r.todo++
		time.AfterFunc(d, func() { r.mu.Lock(); defer r.mu.Unlock(); fn(); r.todo-- })
	}
	probe := func() {
		if act.Probe {
			r.sendBeat(false)
		}
	}
	switch act.Kind {
	case "now":
		r.sendRespT(cmd, echo, false, act.Typ)
		probe()
	case "delay":
		later(act.Delay, func() { r.sendRespT(cmd, echo, false, act.Typ); probe() })
	case "frag":
		if act.Delay > 0 {
			later(act.Delay, func() { r.sendFrag(cmd, echo, act); probe() })
		} else {
			r.sendFrag(cmd, echo, act)
			probe()
		}
	case "twice":
		r.sendResp(cmd, echo, false)
		r.sendResp(cmd, echo, false)
	case "unknown":
		r.sendResp(cmd, echo+977, false)
	case "unkthen":
		r.sendResp(cmd, echo+977, false)
		later(act.Delay, func() { r.sendResp(cmd, echo, false) })
	case "bad":
		r.sendResp(cmd, echo, true)
	case "hold":
		r.heldCmd = append(r.heldCmd, f)
	case "never":
	}
	if r.sc.Burst > 0 && r.cmdN == r.sc.Burst && len(r.heldCmd) > 0 {
		// every held command answered (BurstDup times) in one write: the reader gets them in one Read
		var buf []byte
		var toks []string
		order := rand.New(rand.NewSource(r.sc.Seed)).Perm(len(r.heldCmd))
		for d := 0; d < r.sc.BurstDup; d++ {
			for _, j := range order {
				hf := r.heldCmd[j]
				typ := respTypeOf[hf.ID]
				if typ == 0 || typ == 0x1003 {
					typ = 0x0001
				}
				buf = append(buf, TFrame(typ, r.t.Phone, r.t.NextSerial(), RespBody(typ, hf.Serial, hf.ID))...)
				toks = append(toks, fmt.Sprintf("r.%d.%d", typ, hf.Serial))
			}
		}
		lo := r.us()
		_, err := r.t.Conn.Write(buf)
		hi := r.us()
		if err == nil {
			for _, tk := range toks {
				r.T = append(r.T, fmt.Sprintf("T/s:%s/%d/%d", tk, lo, hi))
			}
			for _, hf := range r.heldCmd {
				r.sentResp[hf.Serial] = append(r.sentResp[hf.Serial], hi)
			}
		}
		r.heldCmd = nil
	}
	if r.sc.CloseFrames > 0 && r.cmdN == r.sc.CloseFrames {
		r.doClose()
	}
}

// RunW runs one scenario against the live server s and returns the recorded history with the verdicts of
// the direct oracle.
func RunW(s *Srv, sc *WScn) *WHist {
	h := &WHist{Join: "o", Kinds: map[string]int{}, NCalls: len(sc.Calls)}
	key := sc.Phone
	if sc.EmptyKey {
		key = ""
		emptyKeyMu.Lock()
		defer func() {
			time.Sleep(30 * time.Millisecond) // let the server finish the teardown before the next owner of "" connects
			emptyKeyMu.Unlock()
		}()
	}
	t, err := DialTerm(s.Addr, sc.Phone)
	if err != nil {
		h.Viol = append(h.Viol, WViol{Sig: "dial", What: "cannot connect to the server", Observed: err.Error(), Required: "an accepting server"})
		return h
	}
	r := &wrun{s: s, sc: sc, t: t, sentResp: map[uint16][]int64{}, beatSent: map[uint16]int64{}, replyAt: map[uint16]int64{}, syncTag: -1, syncCh: make(chan struct{})}
	defer t.Close()
	// ---- before the recording: join, serial pre-advance
	nframes := 0
	if sc.PreJoin {
		t.Send(0x0002, nil)
		if _, ok, _ := t.Next(3 * time.Second); !ok {
			h.Viol = append(h.Viol, WViol{Sig: "join", What: "no reply to the first heartbeat", Observed: "none in 3 s", Required: "0x8001"})
			return h
		}
		nframes++
		for left := sc.PreAdvance; left > 0; {
			n := left
			if n > 400 {
				n = 400
			}
			var buf []byte
			for i := 0; i < n; i++ {
				buf = append(buf, TFrame(0x0002, t.Phone, t.NextSerial(), nil)...)
			}
			t.SendRaw(buf)
			for i := 0; i < n; i++ {
				if _, ok, _ := t.Next(3 * time.Second); !ok {
					h.Viol = append(h.Viol, WViol{Sig: "preadvance", What: "no reply while advancing the serial", Observed: fmt.Sprint(nframes), Required: "0x8001 for every heartbeat"})
					return h
				}
				nframes++
			}
			left -= n
		}
		h.Pre = true
	}
	h.S0 = nframes % 65536
	r.todo = len(sc.Beats)
	if sc.RecordJoin {
		r.todo++
	}
	if sc.Flood > 0 {
		r.todo++
	}
	r.todo += len(sc.Reissues)
	if sc.ReissueBurst > 0 {
		r.todo++
	}
	if sc.Stall {
		r.todo++
	}
	r.t0 = time.Now()
	stop := make(chan struct{})
	termDone := make(chan struct{})
	// ---- terminal
	go func() {
		defer close(termDone)
		var beat <-chan time.Time
		bi := 0
		nextBeat := func() {
			beat = nil
			if bi < len(sc.Beats) {
				d := sc.Beats[bi] - time.Since(r.t0)
				if d < 0 {
					d = 0
				}
				beat = time.After(d)
			}
		}
		nextBeat()
		var closeT <-chan time.Time
		if sc.CloseTime > 0 {
			closeT = time.After(sc.CloseTime)
		}
		if sc.RecordJoin {
			r.mu.Lock()
			r.sendBeat(false)
			r.todo--
			r.mu.Unlock()
		}
		for _, d := range sc.Reissues {
			time.AfterFunc(d, func() { r.mu.Lock(); r.sendReissue(); r.todo--; r.mu.Unlock() })
		}
		if sc.ReissueBurst > 0 {
			r.mu.Lock()
			var buf []byte
			for i := 0; i < sc.ReissueBurst; i++ {
				buf = append(buf, TFrame(0x8003, t.Phone, t.NextSerial(), []byte{0, 1, 1, 0, 2})...)
			}
			lo := r.us()
			_, err := t.Conn.Write(buf)
			hi := r.us()
			if err == nil {
				for i := 0; i < sc.ReissueBurst; i++ {
					r.T = append(r.T, fmt.Sprintf("T/s:q/%d/%d", lo, hi))
				}
				r.nreisSent += sc.ReissueBurst
			}
			r.todo--
			r.mu.Unlock()
		}
		if sc.Stall { // packet 1 of 2 of a multimedia upload, then silence for more than 5 s, then a heartbeat:
			// the reassembler generates the 0x8003 re-request with the messages of that Read (after the heartbeat)
			r.mu.Lock()
			ser := t.NextSerial()
			lo := r.us()
			t.Conn.Write(TSubFrame(0x0801, t.Phone, ser, 2, 1, make([]byte, 40)))
			r.T = append(r.T, fmt.Sprintf("T/s:f/%d/%d", lo, r.us()))
			r.mu.Unlock()
			time.AfterFunc(5100*time.Millisecond, func() {
				r.mu.Lock()
				defer r.mu.Unlock()
				if !r.closed {
					lo := r.us()
					r.sendBeat(false)
					r.T = append(r.T, fmt.Sprintf("T/s:q/%d/%d", lo, r.us()))
					r.nreisSent++
				}
				r.todo--
			})
		}
		if sc.Flood > 0 { // one segment with far more reply-bearing frames than msgChan holds
			r.mu.Lock()
			var buf []byte
			var tags []uint16
			for i := 0; i < sc.Flood; i++ {
				ser := t.NextSerial()
				tags = append(tags, ser)
				buf = append(buf, TFrame(0x0002, t.Phone, ser, nil)...)
			}
			lo := r.us()
			_, err := t.Conn.Write(buf)
			hi := r.us()
			if err == nil {
				for _, tg := range tags {
					r.T = append(r.T, fmt.Sprintf("T/s:o.%d.1/%d/%d", tg, lo, hi))
				}
				r.beatTags = append(r.beatTags, tags...)
			}
			r.todo--
			r.mu.Unlock()
		}
		for {
			select {
			case f, ok := <-t.Frames:
				if !ok {
					return
				}
				r.handle(f)
			case <-beat:
				r.mu.Lock()
				r.sendBeat(bi%2 == 1)
				r.todo--
				r.mu.Unlock()
				bi++
				nextBeat()
			case <-closeT:
				r.mu.Lock()
				r.doClose()
				r.mu.Unlock()
				closeT = nil
			case <-stop:
				return
			}
		}
	}()
	// ---- callers
	var wg sync.WaitGroup
	var deadline time.Duration
	for _, c := range sc.Calls {
		to := c.Timeout
		if to == 0 {
			to = 3 * time.Second
		}
		if to < 0 {
			to = sc.CloseTime
		}
		if d := c.Start + to + sc.Slack; d > deadline {
			deadline = d
		}
	}
	for _, c := range sc.Calls {
		wg.Add(1)
		go func(c *WCall) {
			defer wg.Done()
			if c.Start > 0 {
				time.Sleep(c.Start)
			}
			inv := r.us()
			ch := s.Call(key, c.Cmd, c.Body, c.Timeout)
			res := Await(ch, deadline-time.Since(r.t0)+50*time.Millisecond)
			ret := r.us()
			r.mu.Lock()
			c.Inv, c.Ret, c.Res, c.Done = inv, ret, res, res.Kind != "hang"
			r.mu.Unlock()
		}(c)
	}
	wg.Wait()
	// let the scripted terminal actions that are still due (beats, delayed responses, the close) happen
	for end := time.Now().Add(8 * time.Second); time.Now().Before(end); time.Sleep(300 * time.Microsecond) {
		r.mu.Lock()
		done := r.closed || (r.todo == 0 && !(sc.CloseTime > 0 || sc.CloseFrames > 0 && r.cmdN >= sc.CloseFrames) &&
			!(sc.CloseReplies > 0 && time.Since(r.t0) < 3*time.Second))
		r.mu.Unlock()
		select {
		case <-termDone: // the server closed the connection
			done = true
		default:
		}
		if done {
			break
		}
		if sc.CloseTime > 0 && time.Since(r.t0) > sc.CloseTime+2*time.Second {
			break
		}
	}
	// re-requests travel through reissuePackChan, which is not ordered with msgChan: wait for them first
	for end := time.Now().Add(2 * time.Second); time.Now().Before(end); time.Sleep(200 * time.Microsecond) {
		r.mu.Lock()
		ok := r.closed || r.nreisSeen >= r.nreisSent
		r.mu.Unlock()
		if ok {
			break
		}
	}
	// ---- flush: a final heartbeat whose reply comes after every earlier frame (msgChan is FIFO)
	r.mu.Lock()
	closed := r.closed
	if !closed {
		r.syncTag = int(t.NextSerial())
		t.Conn.Write(TFrame(0x0002, t.Phone, uint16(r.syncTag), nil))
	}
	r.mu.Unlock()
	if !closed {
		select {
		case <-r.syncCh:
		case <-termDone:
		case <-time.After(3 * time.Second):
			r.mu.Lock()
			r.violate("unanswered-traffic", "the final heartbeat was not answered within 3 s on a live connection", "no 0x8001", "0x8001")
			r.mu.Unlock()
		}
	}
	select {
	case <-termDone:
		r.mu.Lock()
		r.srvClosed = !r.closed
		r.mu.Unlock()
	default:
	}
	close(stop)
	<-termDone
	r.mu.Lock()
	defer r.mu.Unlock()
	h.Closed = r.closed
	r.check(h)
	h.Items = append(h.Items, r.T...)
	h.Items = append(h.Items, r.F...)
	// caller chains are named in the order in which the commands were (probably) queued: the serial the
	// library reports for a call tells its place in the write order; the schedule search tries the calls
	// in chain-name order first (a hint only: every order is still explored)
	rank := make([]int, len(sc.Calls))
	for i := range rank {
		rank[i] = i
	}
	pos := func(c *WCall) int64 {
		for _, f := range r.frames { // its command frame, whatever the result was
			if f.Bad == "" && f.ID == c.Cmd && string(f.Body) == string(c.Body) {
				return int64((int(f.Serial) - h.S0 + 65536) % 65536)
			}
		}
		switch c.Res.Kind {
		case "resp", "timeout", "wfail":
			return int64((int(c.Res.PSeq) - h.S0 + 65536) % 65536)
		}
		return 1 << 30
	}
	sort.SliceStable(rank, func(a, b int) bool {
		ca, cb := sc.Calls[rank[a]], sc.Calls[rank[b]]
		if pa, pb := pos(ca), pos(cb); pa != pb {
			return pa < pb
		}
		return ca.Inv < cb.Inv
	})
	for n, i := range rank {
		c := sc.Calls[i]
		tmo := 1
		if c.Timeout < 0 {
			tmo = 0
		}
		hi := c.Ret
		if !c.Done {
			hi = farFuture
		}
		h.Items = append(h.Items, fmt.Sprintf("K%02d/c:%d:%d/%d/%d", n, c.Cmd, tmo, c.Inv, hi))
		if c.Done {
			lo := c.Inv
			if c.Res.Kind == "timeout" && c.Timeout >= 0 {
				// a timer sleeps for the whole duration after the write, which is after the invocation
				d := c.Timeout
				if d == 0 {
					d = 3 * time.Second
				}
				if lo += d.Microseconds() - 1000; lo > hi {
					lo = hi
				}
			}
			h.Items = append(h.Items, fmt.Sprintf("K%02d/ret:%s/%d/%d", n, resTok(c.Res), lo, hi))
		}
		h.Kinds[c.Res.Kind]++
	}
	h.Viol = append(h.Viol, r.viol...)
	return h
}

func resTok(r CallRes) string {
	switch r.Kind {
	case "resp":
		if r.RespID == 0x1003 {
			return "resp.a"
		}
		return fmt.Sprintf("resp.%d.%d", r.RespID, r.Echo)
	case "timeout", "wfail", "noexist":
		return r.Kind
	}
	return "other"
}

// check is the direct property oracle on one recorded history.
func (r *wrun) check(h *WHist) {
	sc := r.sc
	// serials: the j-th frame of the recording carries s0 + j
	for j, f := range r.frames {
		if f.Bad != "" {
			continue
		}
		want := uint16((h.S0 + j) % 65536)
		if f.Serial != want {
			r.violate("serial-sequence", "platform frames do not carry consecutive serial numbers",
				fmt.Sprintf("frame %d has serial %d", j, f.Serial), fmt.Sprintf("serial %d", want))
			break
		}
	}
	// each command written at most once (commands are told apart by command id + body)
	seen := map[string]int{}
	bySerial := map[uint16]PFrame{}
	for _, f := range r.frames {
		if f.Bad == "" && f.ID != 0x8001 {
			seen[fmt.Sprintf("%04x:%x", f.ID, f.Body)]++
			bySerial[f.Serial] = f
		}
	}
	for i, c := range sc.Calls {
		key := fmt.Sprintf("%04x:%x", c.Cmd, c.Body)
		if seen[key] > 1 {
			r.violate("written-twice", "a command was written to the terminal more than once",
				fmt.Sprintf("caller %d: %d frames %s", i, seen[key], key), "exactly one frame per command")
		}
		if !c.Done {
			r.violate("caller-stranded", "a SendActiveMessage call did not return within its timeout plus slack",
				fmt.Sprintf("caller %d cmd %04x timeout %v: still blocked after %v", i, c.Cmd, c.Timeout, c.Res.Dur),
				"a response or an error within timeout + slack")
			continue
		}
		lim := c.Timeout
		if lim == 0 {
			lim = 3 * time.Second
		}
		// "within its timeout plus scheduling slack", per call; a call without timeout is released by the close
		if lim > 0 && c.Res.Dur > lim+sc.Slack {
			r.violate("late-return", "a call returned later than its own timeout plus slack",
				fmt.Sprintf("caller %d cmd %04x timeout %v returned %s after %v", i, c.Cmd, lim, c.Res.Kind, c.Res.Dur), fmt.Sprintf("within %v", lim+sc.Slack))
		}
		if lim < 0 && r.closed && c.Ret > r.closedAt+sc.Slack.Microseconds() {
			r.violate("late-return", "a call without timeout returned later than the disconnect plus slack",
				fmt.Sprintf("caller %d cmd %04x returned %s at %d us, terminal closed at %d us", i, c.Cmd, c.Res.Kind, c.Ret, r.closedAt), fmt.Sprintf("within %v of the close", sc.Slack))
		}
		// written at least once: on a connection that stayed up, a call that was answered or timed out had its
		// command on the wire (the terminal saw the frame with its command id and body)
		if (c.Res.Kind == "resp" || c.Res.Kind == "timeout") && !r.closed && !r.srvClosed && seen[key] == 0 {
			r.violate("never-written", "a call returned a response or a timeout but its command never reached the terminal",
				fmt.Sprintf("caller %d cmd %04x body %x: %s", i, c.Cmd, c.Body, c.Res.Kind), "exactly one frame per command")
		}
		switch c.Res.Kind {
		case "resp":
			f, ok := bySerial[c.Res.PSeq]
			own := ok && f.ID == c.Cmd && string(f.Body) == string(c.Body)
			if !r.closed && !own {
				r.violate("foreign-serial", "the serial the library reports for the call is not the serial of the frame that carried its command",
					fmt.Sprintf("caller %d cmd %04x body %x: PlatformSeq %d, frame with that serial: %v", i, c.Cmd, c.Body, c.Res.PSeq, f), "the serial of its own frame")
			}
			if c.Res.RespID != 0x1003 && c.Res.Echo != int(c.Res.PSeq) {
				r.violate("foreign-response", "a caller received a response that echoes another serial than its command's",
					fmt.Sprintf("caller %d cmd %04x serial %d got %04x echoing %d", i, c.Cmd, c.Res.PSeq, c.Res.RespID, c.Res.Echo), "the response echoing its own serial, or a timeout")
			}
			if c.Res.RespID == 0x1003 && c.Cmd != 0x9003 {
				r.violate("foreign-response", "a caller that did not ask for audio/video attributes received the 0x1003 answer",
					fmt.Sprintf("caller %d cmd %04x got 0x1003", i, c.Cmd), "0x1003 completes only a waiting 0x9003")
			}
			if c.Res.RespID != 0x1003 && len(r.sentResp[uint16(c.Res.Echo)]) == 0 {
				r.violate("invented-response", "a caller received a response the terminal never sent",
					fmt.Sprintf("caller %d: %04x echoing %d", i, c.Res.RespID, c.Res.Echo), "only responses the terminal sent")
			}
		case "timeout":
			// the terminal answered with the right serial, and a heartbeat it sent AFTER that answer was
			// replied to well before the timer could expire: msgChan is FIFO, so the writer had taken the
			// response while the command was still outstanding, and did not complete it
			for _, ts := range r.sentResp[c.Res.PSeq] {
				for tag, tb := range r.beatSent {
					if ra, ok := r.replyAt[tag]; ok && tb >= ts && c.Timeout >= 0 && ra < c.Inv+lim.Microseconds()-20000 {
						if f, ok := bySerial[c.Res.PSeq]; ok && f.ID == c.Cmd && string(f.Body) == string(c.Body) {
							r.violate("response-ignored", "a caller timed out although the terminal's response echoing its serial had been processed while its command was outstanding",
								fmt.Sprintf("caller %d cmd %04x serial %d: response written at %d us, later heartbeat %d answered at %d us, call invoked at %d us with timeout %v", i, c.Cmd, c.Res.PSeq, ts, tag, ra, c.Inv, lim),
								"the response")
						}
					}
				}
			}
			if c.Timeout < 0 {
				r.violate("timeout-without-timer", "a call without timeout returned a timeout", fmt.Sprintf("caller %d", i), "response or ErrNotExistKey")
			} else if c.Res.Dur < lim-2*time.Millisecond {
				r.violate("early-timeout", "a call timed out before its configured duration elapsed",
					fmt.Sprintf("caller %d after %v", i, c.Res.Dur), fmt.Sprintf("not before %v", lim))
			}
		case "noexist":
			// ErrNotExistKey is for a key without a live connection: this terminal had joined before the
			// recording began and neither side closed the connection during the scenario
			if sc.PreJoin && !r.closed && !r.srvClosed {
				r.violate("noexist-on-live-connection", "a caller got ErrNotExistKey although its terminal was online for the whole call",
					fmt.Sprintf("caller %d cmd %04x after %v", i, c.Cmd, c.Res.Dur), "the response or a timeout")
			}
		case "wfail":
			if !r.closed && !r.srvClosed {
				r.violate("wfail-on-live-connection", "a caller got ErrWriteDataFail although the connection was never closed",
					fmt.Sprintf("caller %d cmd %04x after %v", i, c.Cmd, c.Res.Dur), "the response or a timeout")
			}
		default:
			r.violate("unknown-result", "SendActiveMessage returned a result that is neither a response nor one of the documented errors",
				fmt.Sprintf("caller %d: %s %s", i, c.Res.Kind, c.Res.Raw), "response | ErrWriteDataOverTime | ErrWriteDataFail | ErrNotExistKey")
		}
	}
	// other traffic: replies in order, nothing invented; all of it on a connection that stayed up
	tags := r.beatTags
	for j, tg := range r.replied {
		if j >= len(tags) || tags[j] != tg {
			r.violate("reply-order", "automatic replies do not follow the order of the terminal's messages",
				fmt.Sprintf("replied %v", r.replied), fmt.Sprintf("a prefix of %v", tags))
			break
		}
	}
	if !r.closed && !r.srvClosed && r.nreisSeen != r.nreisSent {
		r.violate("reissue-unanswered", "a 0x8003 re-request handed to reissuePackChan was not written back on a live connection",
			fmt.Sprintf("owed %d, seen %d", r.nreisSent, r.nreisSeen), "one 0x8003 platform frame each")
	}
	if !r.closed && len(r.replied) != len(tags) {
		r.violate("unanswered-traffic", "a heartbeat / location report sent between commands was not answered on a live connection",
			fmt.Sprintf("sent %v replied %v", tags, r.replied), "one 0x8001 per message, in order")
	}
}

// ---------------------------------------------------------------- scenario generators

var WKinds = []string{"bodylen", "emptykey-close", "nohandler", "garbage-close", "reissue", "reissue-close", "stall", "stall-close", "frag", "default0", "flood-close", "burst", "order", "late", "dup", "unknown", "bad", "never", "mixed", "attr", "notmo", "prejoin", "wrap",
	"close-idle", "close-queued", "close-outstanding", "close-afterresp", "close-timer", "close-early", "rst-outstanding"}

func ms(n int) time.Duration { return time.Duration(n) * time.Millisecond }

// GenW builds the scenario of a kind from a seed (deterministic: the replay regenerates it).
func GenW(kind string, seed int64) *WScn {
	rng := rand.New(rand.NewSource(seed*7919 + int64(len(kind))))
	sc := &WScn{Kind: kind, Seed: seed, Phone: fmt.Sprintf("1%010d", 3000000000+seed%1000000000), PreJoin: true, Slack: 2 * time.Second}
	// the phone must be unique per concurrently running scenario: kind is mixed in
	hk := uint32(0)
	for _, ch := range kind {
		hk = hk*31 + uint32(ch)
	}
	sc.Phone = fmt.Sprintf("1%02d%08d", hk%100, seed%100000000)
	k := 1 + rng.Intn(4)
	mk := func(i int, to time.Duration) *WCall {
		cmd := WCmds[rng.Intn(len(WCmds))]
		if rng.Intn(5) == 0 { // a command id without an entry in the handler table
			cmd = WCmdsNoHandler[rng.Intn(len(WCmdsNoHandler))]
		}
		if rng.Intn(6) == 0 { // a body at or near the maximum a frame can carry (the marker stays in front)
			n := []int{1000, 1022, 1023}[rng.Intn(3)]
			dense := rng.Intn(2) == 0
			return &WCall{Cmd: cmd, Body: WBody([]byte{0xC0 | byte(i), byte(seed), byte(rng.Intn(256))}, n, dense), Timeout: to, Start: ms(rng.Intn(8))}
		}
		return &WCall{Cmd: cmd, Body: []byte{0xC0 | byte(i), byte(seed), byte(rng.Intn(256))}, Timeout: to, Start: ms(rng.Intn(8))}
	}
	tos := []int{5, 20, 60, 90, 150, 250}
	to := func() time.Duration { return ms(tos[rng.Intn(len(tos))]) }
	beats := func(n int, within int) {
		for i := 0; i < n; i++ {
			sc.Beats = append(sc.Beats, ms(rng.Intn(within+1)))
		}
		sort.Slice(sc.Beats, func(a, b int) bool { return sc.Beats[a] < sc.Beats[b] })
	}
	switch kind {
	case "order": // all answered, in an order decided by the delays
		for i := 0; i < k; i++ {
			sc.Calls = append(sc.Calls, mk(i, ms(400)))
			a := WAct{Kind: "delay", Delay: ms(rng.Intn(40))}
			if rng.Intn(3) == 0 { // any of the five echoing types answers any command: the match is by serial
				a.Typ, a.Probe = []uint16{0x0001, 0x0104, 0x0805, 0x1205, 0x1206}[rng.Intn(5)], true
			}
			sc.Acts = append(sc.Acts, a)
		}
		beats(rng.Intn(3), 40)
	case "frag": // responses that arrive in 2-3 sub-packages (long 0x1205 / 0x0805 / 0x0104 or short bodies cut up),
		// other commands answered normally around them; a heartbeat after each answer
		fc := []uint16{0x9205, 0x8801, 0x8104, 0x8103, 0x9206, 0x9003}
		nf := rng.Intn(k)
		for i := 0; i < k; i++ {
			c := mk(i, ms(400))
			a := WAct{Kind: "delay", Delay: ms(rng.Intn(40)), Probe: true}
			if i == nf || rng.Intn(3) == 0 {
				c.Cmd = fc[rng.Intn(len(fc))]
				a = WAct{Kind: "frag", Delay: ms(rng.Intn(30)), Pieces: 2 + rng.Intn(2), Long: rng.Intn(2) == 0, Mid: rng.Intn(2) == 0, Probe: true}
			}
			sc.Calls = append(sc.Calls, c)
			sc.Acts = append(sc.Acts, a)
		}
	case "default0": // OverTimeDuration 0 = "use the 3 s default": a silent terminal, the call must time out after 3 s
		k = 1 + rng.Intn(2)
		for i := 0; i < k; i++ {
			sc.Calls = append(sc.Calls, mk(i, 0))
			sc.Acts = append(sc.Acts, WAct{Kind: "never"})
		}
		if rng.Intn(3) == 0 && k > 1 { // one of them is answered after all
			sc.Acts[0] = WAct{Kind: "delay", Delay: ms(rng.Intn(200))}
		}
		beats(1, 50)
		if rng.Intn(2) == 0 { // ... or released by a disconnect while the 3 s timer is still asleep
			sc.CloseTime = ms(100 + rng.Intn(400))
			sc.RST = rng.Intn(2) == 0
		}
	case "reissue", "reissue-close": // 0x8003 frames from the terminal (reissuePackChan), commands and heartbeats around them
		sc.ReissueBurst = rng.Intn(9) // up to 8 in one write: more than the channel holds
		for i, n := 0, rng.Intn(4); i < n; i++ {
			sc.Reissues = append(sc.Reissues, time.Duration(rng.Intn(20000))*time.Microsecond)
		}
		k = rng.Intn(3)
		for i := 0; i < k; i++ {
			sc.Calls = append(sc.Calls, mk(i, ms(200)))
			sc.Acts = append(sc.Acts, WAct{Kind: []string{"now", "never", "delay"}[rng.Intn(3)], Delay: ms(rng.Intn(20))})
		}
		beats(rng.Intn(3), 20)
		if kind == "reissue-close" {
			sc.CloseTime = time.Duration(50+rng.Intn(8000)) * time.Microsecond
			sc.RST = rng.Intn(2) == 0
		}
	case "stall", "stall-close": // a transfer that stalls for 5 s: the re-request the reassembler generates goes through reissuePackChan
		sc.Stall = true
		k = rng.Intn(2)
		for i := 0; i < k; i++ {
			c := mk(i, ms(200))
			c.Start = ms(5130 + rng.Intn(20)) // after the heartbeat whose Read generates the re-request
			sc.Calls = append(sc.Calls, c)
			sc.Acts = append(sc.Acts, WAct{Kind: "now"})
		}
		if kind == "stall-close" {
			sc.CloseTime = 5100*time.Millisecond + time.Duration(rng.Intn(40000))*time.Microsecond
			sc.RST = rng.Intn(2) == 0
		}
	case "flood-close": // 30..400 heartbeats in one segment (msgChan holds 10), then close / RST while the reader still pushes
		sc.Flood = []int{30, 60, 120, 250, 400}[rng.Intn(5)]
		sc.RST = rng.Intn(3) != 0
		if rng.Intn(2) == 0 {
			sc.CloseReplies = 1 + rng.Intn(3)
		} else {
			sc.CloseTime = []time.Duration{100 * time.Microsecond, 500 * time.Microsecond, 2 * time.Millisecond, 8 * time.Millisecond}[rng.Intn(4)]
		}
		k = rng.Intn(3)
		sc.Calls = nil
		for i := 0; i < k; i++ {
			c := mk(i, to())
			c.Start = time.Duration(rng.Intn(2000)) * time.Microsecond
			sc.Calls = append(sc.Calls, c)
			sc.Acts = append(sc.Acts, WAct{Kind: "never"})
		}
	case "burst": // 5..8 commands outstanding, all answered (once or twice) in a single TCP segment
		k = 5 + rng.Intn(4)
		for i := 0; i < k; i++ {
			c := mk(i, ms(600))
			c.Start = ms(rng.Intn(3))
			sc.Calls = append(sc.Calls, c)
			sc.Acts = append(sc.Acts, WAct{Kind: "hold"})
		}
		sc.Burst, sc.BurstDup = k, 1+rng.Intn(2)
	case "late": // answered after the timeout
		for i := 0; i < k; i++ {
			t := to()
			sc.Calls = append(sc.Calls, mk(i, t))
			if rng.Intn(2) == 0 {
				sc.Acts = append(sc.Acts, WAct{Kind: "delay", Delay: t + ms(30+rng.Intn(60))})
			} else {
				sc.Acts = append(sc.Acts, WAct{Kind: "delay", Delay: ms(rng.Intn(30))})
			}
		}
		beats(rng.Intn(2), 60)
	case "dup":
		for i := 0; i < k; i++ {
			sc.Calls = append(sc.Calls, mk(i, ms(300)))
			sc.Acts = append(sc.Acts, WAct{Kind: "twice"})
		}
		beats(1, 30)
	case "unknown":
		for i := 0; i < k; i++ {
			sc.Calls = append(sc.Calls, mk(i, to()))
			if rng.Intn(2) == 0 {
				sc.Acts = append(sc.Acts, WAct{Kind: "unkthen", Delay: ms(5 + rng.Intn(20))})
			} else {
				sc.Acts = append(sc.Acts, WAct{Kind: "unknown"})
			}
		}
	case "bad":
		for i := 0; i < k; i++ {
			sc.Calls = append(sc.Calls, mk(i, to()))
			sc.Acts = append(sc.Acts, WAct{Kind: []string{"bad", "now"}[rng.Intn(2)]})
		}
	case "never":
		for i := 0; i < k; i++ {
			sc.Calls = append(sc.Calls, mk(i, to()))
			sc.Acts = append(sc.Acts, WAct{Kind: "never"})
		}
		beats(2, 100)
	case "mixed":
		k = 2 + rng.Intn(4)
		kinds := []string{"now", "delay", "twice", "unknown", "never", "bad", "unkthen"}
		for i := 0; i < k; i++ {
			sc.Calls = append(sc.Calls, mk(i, to()))
			sc.Acts = append(sc.Acts, WAct{Kind: kinds[rng.Intn(len(kinds))], Delay: ms(rng.Intn(120))})
		}
		beats(rng.Intn(4), 120)
	case "attr": // a 0x9003 query among other commands, answered by a serial-less 0x1003
		n9 := rng.Intn(k + 1)
		for i := 0; i < k+1; i++ {
			c := mk(i, ms(300))
			if i == n9 {
				c.Cmd = 0x9003
			}
			sc.Calls = append(sc.Calls, c)
			sc.Acts = append(sc.Acts, WAct{Kind: "delay", Delay: ms(rng.Intn(40))})
		}
	case "notmo": // no timeout: answered, or released by the disconnect
		for i := 0; i < k; i++ {
			c := mk(i, -1)
			sc.Calls = append(sc.Calls, c)
			sc.Acts = append(sc.Acts, WAct{Kind: []string{"now", "never", "delay"}[rng.Intn(3)], Delay: ms(rng.Intn(40))})
		}
		sc.CloseTime = ms(80 + rng.Intn(60))
	case "prejoin": // calls racing the join
		sc.PreJoin, sc.RecordJoin = false, true
		for i := 0; i < k; i++ {
			c := mk(i, to())
			c.Start = ms(rng.Intn(3))
			sc.Calls = append(sc.Calls, c)
			sc.Acts = append(sc.Acts, WAct{Kind: "now"})
		}
	case "wrap": // the serial counter wraps while commands are outstanding
		sc.PreAdvance = 65536 - 2 - rng.Intn(3)
		k = 2 + rng.Intn(3)
		for i := 0; i < k; i++ {
			sc.Calls = append(sc.Calls, mk(i, ms(400)))
			sc.Acts = append(sc.Acts, WAct{Kind: "delay", Delay: ms(rng.Intn(30))})
		}
		beats(2, 20)
	case "close-idle":
		sc.CloseTime = ms(5 + rng.Intn(20))
		if rng.Intn(2) == 0 {
			c := mk(0, to())
			c.Start = sc.CloseTime + ms(rng.Intn(10)) - ms(3)
			if c.Start < 0 {
				c.Start = 0
			}
			sc.Calls = append(sc.Calls, c)
		}
	case "close-queued": // more commands than the channel holds, the terminal disappears while they queue
		k = 3 + rng.Intn(5)
		for i := 0; i < k; i++ {
			c := mk(i, to())
			c.Start = ms(rng.Intn(3))
			sc.Calls = append(sc.Calls, c)
			sc.Acts = append(sc.Acts, WAct{Kind: "never"})
		}
		sc.CloseFrames = 1 + rng.Intn(2)
	case "close-outstanding", "rst-outstanding":
		for i := 0; i < k; i++ {
			sc.Calls = append(sc.Calls, mk(i, to()))
			sc.Acts = append(sc.Acts, WAct{Kind: "never"})
		}
		sc.CloseTime = ms(10 + rng.Intn(40))
		sc.RST = kind == "rst-outstanding"
	case "bodylen": // command bodies of 0, 1, 2, 1000, 1022 and 1023 bytes (the maximum), plain and escape-dense, all answered;
		// the commands of one scenario have different ids, so that a frame is its call's even when the body is empty
		pool := append(append([]uint16{}, WCmds...), WCmdsNoHandler...)
		rng.Shuffle(len(pool), func(a, b int) { pool[a], pool[b] = pool[b], pool[a] })
		k = 2 + rng.Intn(4)
		for i := 0; i < k; i++ {
			c := mk(i, ms(400))
			c.Cmd = pool[i]
			c.Body = WBody([]byte{0xC0 | byte(i), byte(seed), byte(rng.Intn(256))}, WBodyLens[rng.Intn(len(WBodyLens))], rng.Intn(2) == 0)
			sc.Calls = append(sc.Calls, c)
			sc.Acts = append(sc.Acts, WAct{Kind: "delay", Delay: ms(rng.Intn(20)), Probe: true})
		}
		beats(rng.Intn(2), 20)
	case "nohandler": // only commands without a handler entry: never answered (timeout), answered, outstanding at the disconnect
		k = 1 + rng.Intn(4)
		for i := 0; i < k; i++ {
			c := mk(i, to())
			c.Cmd = WCmdsNoHandler[rng.Intn(len(WCmdsNoHandler))]
			sc.Calls = append(sc.Calls, c)
			sc.Acts = append(sc.Acts, WAct{Kind: []string{"never", "never", "now", "delay"}[rng.Intn(4)], Delay: ms(rng.Intn(30))})
		}
		beats(rng.Intn(2), 30)
		if rng.Intn(2) == 0 {
			sc.CloseTime = ms(10 + rng.Intn(60))
			sc.RST = rng.Intn(2) == 0
		}
	case "emptykey-close": // a terminal whose key is "": commands to "", disconnect, then one more command to "" (ErrNotExistKey)
		sc.EmptyKey = true
		sc.Phone = fmt.Sprintf("%s%08d", EmptyKeyPrefix, seed%100000000)
		k = rng.Intn(3)
		for i := 0; i < k; i++ {
			sc.Calls = append(sc.Calls, mk(i, to()))
			sc.Acts = append(sc.Acts, WAct{Kind: []string{"now", "never"}[rng.Intn(2)]})
		}
		sc.CloseTime = ms(5 + rng.Intn(30))
		sc.RST = rng.Intn(2) == 0
		after := mk(k, ms(150))
		after.Start = sc.CloseTime + ms(20+rng.Intn(40))
		sc.Calls = append(sc.Calls, after)
		sc.Acts = append(sc.Acts, WAct{Kind: "never"})
	case "garbage-close": // not a close: a frame with a bad check code from a live peer; the server tears the connection down
		for i := 0; i < k; i++ {
			sc.Calls = append(sc.Calls, mk(i, to()))
			sc.Acts = append(sc.Acts, WAct{Kind: []string{"never", "now"}[rng.Intn(2)]})
		}
		sc.CloseTime = ms(5 + rng.Intn(40))
		sc.Garbage = true
	case "close-afterresp": // close right after answering
		for i := 0; i < k; i++ {
			sc.Calls = append(sc.Calls, mk(i, to()))
			sc.Acts = append(sc.Acts, WAct{Kind: "now"})
		}
		sc.CloseFrames = 1 + rng.Intn(k)
		sc.RST = rng.Intn(2) == 0
	case "close-timer": // close around the expiry of the timers
		t := to()
		for i := 0; i < k; i++ {
			sc.Calls = append(sc.Calls, mk(i, t))
			sc.Acts = append(sc.Acts, WAct{Kind: "never"})
		}
		sc.CloseTime = t + time.Duration(rng.Intn(6000)-1500)*time.Microsecond
		sc.RST = rng.Intn(2) == 0
	case "close-early": // before the join completes
		sc.PreJoin, sc.RecordJoin = false, true
		sc.CloseTime = time.Duration(rng.Intn(2000)) * time.Microsecond
		if sc.CloseTime == 0 {
			sc.CloseTime = time.Microsecond
		}
		for i := 0; i < k; i++ {
			c := mk(i, to())
			c.Start = time.Duration(rng.Intn(3000)) * time.Microsecond
			sc.Calls = append(sc.Calls, c)
			sc.Acts = append(sc.Acts, WAct{Kind: "never"})
		}
	default:
		panic("unknown scenario kind " + kind)
	}
	return sc
}

func (sc *WScn) Describe() string {
	var cs []string
	for _, c := range sc.Calls {
		cs = append(cs, fmt.Sprintf("%04x/%v@%v", c.Cmd, c.Timeout, c.Start))
	}
	var as []string
	for _, a := range sc.Acts {
		as = append(as, fmt.Sprintf("%s+%v", a.Kind, a.Delay))
	}
	return fmt.Sprintf("kind=%s seed=%d phone=%s prejoin=%v preadvance=%d calls=[%s] acts=[%s] beats=%v flood=%d closeReplies=%d closeFrames=%d closeTime=%v rst=%v",
		sc.Kind, sc.Seed, sc.Phone, sc.PreJoin, sc.PreAdvance, strings.Join(cs, " "), strings.Join(as, " "), sc.Beats, sc.Flood, sc.CloseReplies, sc.CloseFrames, sc.CloseTime, sc.RST)
}

// ---------------------------------------------------------------- witnesses of the two recorded findings

// RunReuse: finding C12/serial-reuse.  Command A is written and never answered; 65 535 heartbeats later the serial
// counter is back at A's serial; command B is written with it and record[seq] is overwritten.
//
//	timer = false: A and B have no timeout; the terminal disconnects.  Required: both callers are released.
//	timer = true:  A has the 3 s default timeout, B a 20 s one; nobody disconnects.  Required: A times out after
//	               3 s and B is still waiting then.  (With the defect A's timer completes B: B gets a timeout after
//	               about 2 s of its 20, A is never answered.)
func RunReuse(s *Srv, seed int64, timer bool) *WHist {
	h := &WHist{Join: "o", Kinds: map[string]int{}, NCalls: 2}
	fail := func(why string) *WHist { h.Note = "setup-failed: " + why; return h }
	phone := fmt.Sprintf("177%08d", seed%100000000)
	if timer {
		phone = fmt.Sprintf("176%08d", seed%100000000)
	}
	t, err := DialTerm(s.Addr, phone)
	if err != nil {
		return fail("dial: " + err.Error())
	}
	defer t.Close()
	t.Send(0x0002, nil)
	if _, ok, _ := t.Next(3 * time.Second); !ok {
		return fail("no reply to the first heartbeat")
	}
	toA, toB := time.Duration(-1), time.Duration(-1)
	if timer {
		toA, toB = 0, 20*time.Second
	}
	t0 := time.Now()
	chA := s.Call(phone, 0x8103, []byte{0xA0, byte(seed)}, toA)
	fa, ok, _ := t.Next(3 * time.Second)
	if !ok {
		return fail("command A was not written")
	}
	for left := 65535; left > 0; {
		n := left
		if n > 400 {
			n = 400
		}
		var buf []byte
		for i := 0; i < n; i++ {
			buf = append(buf, TFrame(0x0002, t.Phone, t.NextSerial(), nil)...)
		}
		t.SendRaw(buf)
		for i := 0; i < n; i++ {
			if _, ok, _ := t.Next(3 * time.Second); !ok {
				return fail(fmt.Sprintf("heartbeat replies stopped with %d to go", left-i))
			}
		}
		left -= n
	}
	if timer && time.Since(t0) > 2500*time.Millisecond {
		return fail(fmt.Sprintf("65535 heartbeats took %v: A's 3 s timer is too close", time.Since(t0)))
	}
	tb := time.Now()
	chB := s.Call(phone, 0x8104, []byte{0xB0, byte(seed)}, toB)
	fb, ok, _ := t.Next(3 * time.Second)
	if !ok {
		return fail("command B was not written")
	}
	if fb.Serial != fa.Serial {
		return fail(fmt.Sprintf("B got serial %d, A had %d", fb.Serial, fa.Serial))
	}
	var ra, rb CallRes
	bad := false
	if timer {
		ra = Await(chA, 3*time.Second+2*time.Second-time.Since(t0))
		rb = Await(chB, 10*time.Millisecond) // B's own timer has 20 s to go
		bad = ra.Kind != "timeout" || rb.Kind != "hang"
		if rb.Kind != "hang" {
			rb.Raw = fmt.Sprintf("%s %v after its invocation", rb.Kind, time.Since(tb).Round(time.Millisecond))
		}
	} else {
		t.Close()
		ra, rb = Await(chA, 2200*time.Millisecond), Await(chB, 2200*time.Millisecond)
		bad = ra.Kind == "hang" || rb.Kind == "hang"
	}
	h.Kinds[ra.Kind]++
	h.Kinds[rb.Kind]++
	h.Note = "not-reproduced"
	if bad {
		h.Note = "reproduced"
		what, req := "a command whose serial was handed out again while it was still outstanding is never answered, not even when the terminal disconnects", "both callers released with ErrNotExistKey"
		if timer {
			what, req = "a command whose serial was handed out again while its timer was asleep: the timer completes the NEWER command (foreign, early timeout) and the older caller is never answered", "A: timeout after 3 s; B: still waiting (20 s timeout)"
		}
		h.Viol = append(h.Viol, WViol{Sig: "serial-reuse", What: what,
			Observed: fmt.Sprintf("command A written with serial %d, 65535 heartbeats, command B written with serial %d: A %s, B %s %s", fa.Serial, fb.Serial, ra.Kind, rb.Kind, rb.Raw),
			Required: req})
	}
	return h
}

// RunNoRead: finding C12/blocked-write (C13/blocked-write).  Terminal A joins, then never reads again while it
// floods heartbeats: the replies fill the socket buffers, the writer blocks in conn.Write (no write deadline).
// k calls to A and one call to a healthy terminal B, all with a 200 ms timeout.  Required: every call returns
// within its timeout plus slack.
func RunNoRead(s *Srv, seed int64) *WHist {
	h := &WHist{Join: "o", Kinds: map[string]int{}, NCalls: 7}
	fail := func(why string) *WHist { h.Note = "setup-failed: " + why; return h }
	phoneA, phoneB := fmt.Sprintf("178%08d", seed%100000000), fmt.Sprintf("179%08d", seed%100000000)
	// a small receive buffer from the very first segment (set before connect, so that the advertised window never
	// shrinks): the server's replies fill it and then the server's own send buffer
	dl := net.Dialer{Timeout: 3 * time.Second, Control: func(_, _ string, rc syscall.RawConn) error {
		return rc.Control(func(fd uintptr) { syscall.SetsockoptInt(int(fd), syscall.SOL_SOCKET, syscall.SO_RCVBUF, 4096) })
	}}
	c, err := dl.Dial("tcp", s.Addr)
	if err != nil {
		return fail("dial: " + err.Error())
	}
	defer c.Close()
	tc := c.(*net.TCPConn)
	tc.Write(TFrame(0x0002, phoneA, 0, nil))
	buf := make([]byte, 64)
	tc.SetReadDeadline(time.Now().Add(3 * time.Second))
	if n, _ := tc.Read(buf); n == 0 {
		return fail("terminal A: no reply to the first heartbeat")
	}
	var flooded int64
	var fmu sync.Mutex
	go func() { // flood until the server stops reading (its reader is blocked behind the blocked writer)
		one := TFrame(0x0002, phoneA, 1, nil)
		var chunk []byte
		for i := 0; i < 2000; i++ {
			chunk = append(chunk, one...)
		}
		for {
			tc.SetWriteDeadline(time.Now().Add(12 * time.Second))
			n, err := tc.Write(chunk)
			fmu.Lock()
			flooded += int64(n)
			fmu.Unlock()
			if err != nil {
				return
			}
		}
	}()
	// the flood has stalled (the server stopped reading: its reader waits behind the blocked writer) when the
	// byte count stops growing
	var last int64 = -1
	still := 0
	for i := 0; i < 60 && still < 4; i++ { // no progress for 400 ms after at least 2 MB went in
		time.Sleep(100 * time.Millisecond)
		fmu.Lock()
		cur := flooded
		fmu.Unlock()
		if cur == last && cur > 2<<20 {
			still++
		} else {
			still = 0
		}
		last = cur
	}
	if still < 4 {
		return fail(fmt.Sprintf("the server kept reading the flood for 6 s (%d bytes): its writer never blocked", last))
	}
	tb, err := DialTerm(s.Addr, phoneB)
	if err != nil {
		return fail("dial B: " + err.Error())
	}
	defer tb.Close()
	tb.Send(0x0002, nil)
	if _, ok, _ := tb.Next(2 * time.Second); !ok {
		return fail("terminal B: no reply to its first heartbeat")
	}
	// probe: while the writer still gets its frames into the socket buffer the calls time out normally after 200 ms;
	// keep flooding and probe again until the writer is blocked for good (then nothing comes back)
	var obs []string
	bad := false
	for round := 0; round < 10 && !bad; round++ {
		var chs []<-chan CallRes
		for i := 0; i < 6; i++ {
			chs = append(chs, s.Call(phoneA, 0x8103, []byte{byte(round), byte(i)}, 200*time.Millisecond))
		}
		time.Sleep(100 * time.Millisecond)
		chB := s.Call(phoneB, 0x8103, []byte{9, byte(round)}, 200*time.Millisecond)
		obs = nil
		end := time.Now().Add(2200 * time.Millisecond) // timeout 200 ms + 2 s slack, for all of them
		for i, ch := range chs {
			r := Await(ch, time.Until(end))
			h.Kinds[r.Kind]++
			obs = append(obs, fmt.Sprintf("A%d:%s", i, r.Kind))
			bad = bad || r.Kind == "hang"
		}
		rb := Await(chB, time.Until(end)+100*time.Millisecond)
		h.Kinds[rb.Kind]++
		obs = append(obs, "B:"+rb.Kind)
		bad = bad || rb.Kind == "hang"
		if !bad {
			time.Sleep(300 * time.Millisecond)
		}
	}
	h.Note = "setup-failed: in 10 probes over 6 s the writer was never blocked (every call timed out normally)"
	if bad {
		h.Note = "reproduced"
		h.Viol = append(h.Viol, WViol{Sig: "blocked-write",
			What:     "a terminal that stops reading blocks the connection writer in conn.Write (no write deadline): no timer is armed or applied, the commands queued behind it fill activeMsgChan and the session manager blocks for every terminal",
			Observed: "6 calls to the non-reading terminal A and 1 call to the healthy terminal B, timeout 200 ms each, 2.2 s later: " + strings.Join(obs, " "),
			Required: "every call returns (timeout error) within its timeout plus slack"})
	}
	return h
}

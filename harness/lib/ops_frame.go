package lib

import (
	"errors"
	"fmt"
	"strconv"

	"github.com/cuteLittleDevil/go-jt808/protocol"
	"github.com/cuteLittleDevil/go-jt808/protocol/jt808"
)

// ProtoErrCode maps the five protocol errors to the model's error numbers (Model/Frame.v).
func ProtoErrCode(err error) string {
	switch {
	case errors.Is(err, protocol.ErrUnqualifiedData):
		return "err 1"
	case errors.Is(err, protocol.ErrHeaderLength2Short):
		return "err 2"
	case errors.Is(err, protocol.ErrBodyLength2Short):
		return "err 3"
	case errors.Is(err, protocol.ErrBodyLengthInconsistency):
		return "err 4"
	case errors.Is(err, protocol.ErrCheckCode):
		return "err 5"
	}
	return "err ?" + err.Error()
}

// CanonMsg is the canonical dump of a decoded frame (projected observables only).
func CanonMsg(m *jt808.JTMessage) string {
	h := m.Header
	return fmt.Sprintf("ok id=%d len=%d enc=%d frag=%d ver=%d phone=%s serial=%d sum=%d no=%d body=%s check=%d",
		h.ID, h.Property.BodyDayaLen, h.Property.EncryptMethod, h.Property.PacketFragmented, h.Property.Version,
		h.TerminalPhoneNo, h.SerialNumber, h.SubPackageSum, h.SubPackageNo, Hx(m.Body), m.VerifyCode)
}

// FrameDecode: jt808 Decode with a fresh JTMessage on an exact-capacity copy, panics reported.
func FrameDecode(data []byte) (ans string) {
	defer func() {
		if r := recover(); r != nil {
			ans = "panic"
		}
	}()
	m := jt808.NewJTMessage()
	if err := m.Decode(Exact(data)); err != nil {
		return ProtoErrCode(err)
	}
	return CanonMsg(m)
}

// FrameEncode: decode src with the real decoder, then Header.Encode(body) with ReplyID/PlatformSerialNumber.
func FrameEncode(src []byte, rid, ps uint16, body []byte) (ans string) {
	defer func() {
		if r := recover(); r != nil {
			ans = "panic"
		}
	}()
	m := jt808.NewJTMessage()
	if err := m.Decode(Exact(src)); err != nil {
		return "src" + ProtoErrCode(err)
	}
	m.Header.ReplyID = rid
	m.Header.PlatformSerialNumber = ps
	return Hx(m.Header.Encode(Exact(body)))
}

func atoi(s string) int {
	n, err := strconv.Atoi(s)
	if err != nil {
		panic(err)
	}
	return n
}

func init() {
	// decode <frame-hex>
	RegisterOp("decode", func(a []string) string { return FrameDecode(Unhx(a[0])) })
	// encode <source-frame-hex> <reply-id> <platform-serial> <body-hex>
	RegisterOp("encode", func(a []string) string {
		return FrameEncode(Unhx(a[0]), uint16(atoi(a[1])), uint16(atoi(a[2])), Unhx(a[3]))
	})
}

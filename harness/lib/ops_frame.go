package lib

import (
	"errors"
	"fmt"
	"strconv"

	"github.com/cuteLittleDevil/go-jt808/protocol"
	"github.com/cuteLittleDevil/go-jt808/protocol/jt808"
)

// ProtoErrCode maps the five protocol errors to the model's error numbers (Model/Frame.v).
func ProtoErrCode(err error) string {
	switch {
	case errors.Is(err, protocol.ErrUnqualifiedData):
		return "err 1"
	case errors.Is(err, protocol.ErrHeaderLength2Short):
		return "err 2"
	case errors.Is(err, protocol.ErrBodyLength2Short):
		return "err 3"
	case errors.Is(err, protocol.ErrBodyLengthInconsistency):
		return "err 4"
	case errors.Is(err, protocol.ErrCheckCode):
		return "err 5"
	}
	return "err ?" + err.Error()
}

// CanonMsg is the canonical dump of a decoded frame (projected observables only).
func CanonMsg(m *jt808.JTMessage) string {
	h := m.Header
	return fmt.Sprintf("ok id=%d len=%d enc=%d frag=%d ver=%d phone=%s serial=%d sum=%d no=%d body=%s check=%d",
		h.ID, h.Property.BodyDayaLen, h.Property.EncryptMethod, h.Property.PacketFragmented, h.Property.Version,
		h.TerminalPhoneNo, h.SerialNumber, h.SubPackageSum, h.SubPackageNo, Hx(m.Body), m.VerifyCode)
}

// FrameProblem is a violation noticed inside an op, next to its ordinary answer: the commands' direct
// oracles collect them with DrainFrameProblems.
type FrameProblem struct{ Kind, What, Input, Observed, Required string }

var frameProblems []FrameProblem

func DrainFrameProblems(c *Ctx, prop string) {
	for _, p := range frameProblems {
		c.Violate(Violation{Signature: prop + "/" + p.Kind, What: p.What, Input: p.Input, Observed: p.Observed, Required: p.Required})
	}
	frameProblems = nil
}

func frameDecodeInto(m *jt808.JTMessage, data []byte) (ans string) { return frameDecodeRaw(m, Exact(data)) }

// frameDecodeRaw decodes the slice as given (no copy)
func frameDecodeRaw(m *jt808.JTMessage, data []byte) (ans string) {
	defer func() {
		if r := recover(); r != nil {
			ans = "panic"
		}
	}()
	if err := m.Decode(data); err != nil {
		return ProtoErrCode(err)
	}
	// Header.ProtocolVersion (1-2011 2-2013 3-2019) is the exported reading of the version bit: a decode can
	// only tell 2013 (bit 14 clear) from 2019 (bit 14 set)
	if int(m.Header.ProtocolVersion) != 2+int(m.Header.Property.Version) && len(frameProblems) < 50 {
		frameProblems = append(frameProblems, FrameProblem{Kind: "protocol-version",
			What:     "Header.ProtocolVersion does not match the version bit of the decoded frame",
			Input:    "decode " + Hx(data),
			Observed: fmt.Sprintf("ProtocolVersion=%d version bit=%d", m.Header.ProtocolVersion, m.Header.Property.Version),
			Required: "ProtocolVersion = 2 (2013) when bit 14 is clear, 3 (2019) when set"})
	}
	return CanonMsg(m)
}

var (
	reusedMsg     = jt808.NewJTMessage() // ONE JTMessage that decodes every case after the fresh one did
	reusedPrevReq string
	reusedBuf     []byte
)

// FrameDecode: jt808 Decode with a fresh JTMessage on an exact-capacity copy, panics reported.  The same
// bytes are then decoded by one JTMessage that is reused for every case of the run: its result must be
// the fresh one (a decoded frame may not depend on what the receiver decoded before).
func FrameDecode(data []byte) (ans string) {
	ans = frameDecodeInto(jt808.NewJTMessage(), data)
	// the reused receiver reads every frame from ONE buffer that the caller overwrites in place (a read loop's
	// buffer): whatever the receiver kept from the previous decode - including slices into that buffer - and the
	// stale bytes beyond the slice's length must not show
	if cap(reusedBuf) < len(data) {
		reusedBuf = make([]byte, 0, 2*len(data)+64)
	}
	inplace := reusedBuf[:len(data)]
	copy(inplace, data)
	again := frameDecodeRaw(reusedMsg, inplace)
	if again != ans && len(frameProblems) < 50 {
		frameProblems = append(frameProblems, FrameProblem{Kind: "reused-receiver",
			What:     "the same frame decodes differently on a JTMessage that decoded other frames before",
			Input:    "decodeseq " + reusedPrevReq + " " + Hx(data),
			Observed: again, Required: ans})
	}
	reusedPrevReq = Hx(data)
	return ans
}

// FrameEncode: decode src with the real decoder, then Header.Encode(body) with ReplyID/PlatformSerialNumber.
func FrameEncode(src []byte, rid, ps uint16, body []byte) (ans string) {
	defer func() {
		if r := recover(); r != nil {
			ans = "panic"
		}
	}()
	m := jt808.NewJTMessage()
	if err := m.Decode(Exact(src)); err != nil {
		return "src" + ProtoErrCode(err)
	}
	m.Header.ReplyID = rid
	m.Header.PlatformSerialNumber = ps
	out := m.Header.Encode(Exact(body))
	// a frame handed out earlier must not change when a later one is built (the writer keeps frames:
	// PlatformData of the reply event, the resend record): re-read the previous frame, uncopied
	if heldFrame != nil {
		if now := Hx(heldFrame); now != heldHex && len(frameProblems) < 50 {
			frameProblems = append(frameProblems, FrameProblem{Kind: "frame-overwritten",
				What:     "the bytes returned by an earlier Header.Encode changed when a later frame was encoded",
				Input:    "encodeseq" + heldReq + " " + Hx(src) + fmt.Sprintf(" %d %d ", rid, ps) + Hx(body),
				Observed: now, Required: heldHex})
		}
	}
	heldFrame, heldHex = out, Hx(out)
	heldReq = " " + Hx(src) + fmt.Sprintf(" %d %d ", rid, ps) + Hx(body)
	return heldHex
}

var (
	heldFrame       []byte
	heldHex, heldReq string
)

func atoi(s string) int {
	n, err := strconv.Atoi(s)
	if err != nil {
		panic(err)
	}
	return n
}

func init() {
	// decode <frame-hex>
	RegisterOp("decode", func(a []string) string { return FrameDecode(Unhx(a[0])) })
	// decodeseq <frame-hex> ... : all frames on ONE JTMessage, each copied in place into ONE buffer; answer = the last
	// decode (replay of reused-receiver)
	RegisterOp("decodeseq", func(a []string) string {
		m := jt808.NewJTMessage()
		ans := "none"
		buf := make([]byte, 0, 4096)
		for _, x := range a {
			d := Unhx(x)
			if cap(buf) < len(d) {
				buf = make([]byte, 0, 2*len(d))
			}
			in := buf[:len(d)]
			copy(in, d)
			ans = frameDecodeRaw(m, in)
		}
		return ans
	})
	// encodeseq (<source-frame-hex> <reply-id> <platform-serial> <body-hex>)+ : encode them in order keeping every
	// returned slice uncopied; answer = the bytes of the FIRST frame as they are after the last Encode
	RegisterOp("encodeseq", func(a []string) string {
		var first []byte
		for i := 0; i+3 < len(a); i += 4 {
			m := jt808.NewJTMessage()
			if err := m.Decode(Exact(Unhx(a[i]))); err != nil {
				return "src" + ProtoErrCode(err)
			}
			m.Header.ReplyID, m.Header.PlatformSerialNumber = uint16(atoi(a[i+1])), uint16(atoi(a[i+2]))
			out := m.Header.Encode(Exact(Unhx(a[i+3])))
			if first == nil {
				first = out
			}
		}
		return Hx(first)
	})
	// encode <source-frame-hex> <reply-id> <platform-serial> <body-hex>
	RegisterOp("encode", func(a []string) string {
		return FrameEncode(Unhx(a[0]), uint16(atoi(a[1])), uint16(atoi(a[2])), Unhx(a[3]))
	})
}

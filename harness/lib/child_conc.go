package lib

// Crash containment for the live-server properties (builder "conc1"; C11, C18).
//
// service.New(...).Run() lives inside the harness process, so a Go panic in a goroutine of the server
// (send on a closed channel, nil map, ...) would kill the harness itself and the failing input would be
// lost.  A harness command therefore runs its operations in a CHILD process: the child calls ServeOps
// (one request line on stdin -> RunOp -> one answer line on the saved stdout), the parent talks to it
// through Child.Ask and learns "crash" (the child died: the last request is the replay) or "hang" (no
// answer within the bound).  The child may be the harness binary itself (os.Executable) or a binary
// built by BuildChild with the delay overlay and/or -race.

import (
	"bufio"
	"bytes"
	"encoding/json"
	"fmt"
	"go/ast"
	"go/parser"
	"go/printer"
	"go/token"
	"io"
	"log/slog"
	"os"
	"os/exec"
	"path/filepath"
	"sort"
	"strings"
	"sync"
	"time"
)

const childEnv = "VERIF_CHILD"

// ChildMode: this process was started by StartChild.
func ChildMode() bool { return os.Getenv(childEnv) == "1" }

// ServeOps is the child's main loop.  Library chatter on stdout/slog is silenced; answers go to the
// original stdout.  Returns when stdin is closed.
func ServeOps() {
	realStdout := os.Stdout
	if dn, err := os.OpenFile(os.DevNull, os.O_WRONLY, 0); err == nil {
		os.Stdout = dn
	}
	SilenceSlog()
	out := bufio.NewWriter(realStdout)
	in := bufio.NewReaderSize(os.Stdin, 1<<20)
	for {
		line, err := in.ReadString('\n')
		line = strings.TrimSpace(line)
		if line != "" {
			// "#<id> <request>": the answer carries the same tag, so that the parent can tell the answer to THIS
			// request from a late answer to an earlier one it gave up on
			tag := ""
			if strings.HasPrefix(line, "#") {
				if i := strings.IndexByte(line, ' '); i > 0 {
					tag, line = line[:i+1], strings.TrimSpace(line[i+1:])
				}
			}
			ans := RunOp(line)
			ans = strings.ReplaceAll(ans, "\n", " ")
			fmt.Fprintln(out, tag+ans)
			out.Flush()
		}
		if err != nil {
			return
		}
	}
}

// SilenceSlog discards everything the library logs.
func SilenceSlog() {
	slog.SetDefault(slog.New(slog.NewTextHandler(io.Discard, &slog.HandlerOptions{Level: slog.Level(100)})))
}

type tailBuf struct {
	mu  sync.Mutex
	b   []byte
	max int
}

func (t *tailBuf) Write(p []byte) (int, error) {
	t.mu.Lock()
	defer t.mu.Unlock()
	t.b = append(t.b, p...)
	if len(t.b) > t.max {
		t.b = append([]byte{}, t.b[len(t.b)-t.max:]...)
	}
	return len(p), nil
}

func (t *tailBuf) String() string { t.mu.Lock(); defer t.mu.Unlock(); return string(t.b) }

type Child struct {
	cmd   *exec.Cmd
	in    io.WriteCloser
	lines chan string // answers; closed when the child's stdout ends
	errb  *tailBuf
	Dead  bool
	seq   int // request ids
	Stale int // answers to requests that had been given up on, read and discarded
}

// StartChild starts bin as an op server.  env entries ("K=V") are added to the parent's environment.
// stderrKeep: how many trailing bytes of the child's stderr are kept (panic traces, race reports).
func StartChild(bin string, env []string, stderrKeep int) (*Child, error) {
	cmd := exec.Command(bin)
	cmd.Env = append(append(os.Environ(), env...), childEnv+"=1")
	in, err := cmd.StdinPipe()
	if err != nil {
		return nil, err
	}
	outp, err := cmd.StdoutPipe()
	if err != nil {
		return nil, err
	}
	c := &Child{cmd: cmd, in: in, lines: make(chan string, 16), errb: &tailBuf{max: stderrKeep}}
	cmd.Stderr = c.errb
	if err := cmd.Start(); err != nil {
		return nil, err
	}
	go func() {
		defer close(c.lines)
		r := bufio.NewReaderSize(outp, 1<<20)
		for {
			l, err := r.ReadString('\n')
			if strings.HasSuffix(l, "\n") {
				c.lines <- strings.TrimRight(l, "\n")
			}
			if err != nil {
				return
			}
		}
	}()
	return c, nil
}

// Ask sends one request and waits for its answer.  status: "ok" | "crash" (child died) | "hang".
func (c *Child) Ask(req string, d time.Duration) (ans string, status string) {
	if c.Dead {
		return "", "crash"
	}
	c.seq++
	tag := fmt.Sprintf("#%d ", c.seq)
	if _, err := io.WriteString(c.in, tag+req+"\n"); err != nil {
		c.reap()
		return "", "crash"
	}
	deadline := time.After(d)
	for {
		select {
		case l, ok := <-c.lines:
			if !ok {
				c.reap()
				return "", "crash"
			}
			if strings.HasPrefix(l, tag) {
				return l[len(tag):], "ok"
			}
			c.Stale++ // the answer to an earlier request that was given up on: not this one's
		case <-deadline:
			return "", "hang"
		}
	}
}

func (c *Child) reap() {
	if c.Dead {
		return
	}
	c.Dead = true
	done := make(chan struct{})
	go func() { c.cmd.Wait(); close(done) }()
	select {
	case <-done:
	case <-time.After(5 * time.Second):
		c.cmd.Process.Kill()
		<-done
	}
}

// Stderr: the tail of what the child wrote on stderr so far.
func (c *Child) Stderr() string { return c.errb.String() }

// Stop closes the child's stdin and waits for it to exit (it finishes the request in progress); the
// remaining stderr (e.g. race reports printed at exit) is then complete.  Returns the exit code.
func (c *Child) Stop(d time.Duration) int {
	if c.Dead {
		return c.cmd.ProcessState.ExitCode()
	}
	c.in.Close()
	done := make(chan struct{})
	go func() { c.cmd.Wait(); close(done) }()
	select {
	case <-done:
	case <-time.After(d):
		c.cmd.Process.Kill()
		<-done
	}
	c.Dead = true
	return c.cmd.ProcessState.ExitCode()
}

func (c *Child) Kill() {
	if c.Dead {
		return
	}
	c.cmd.Process.Kill()
	c.reap()
}

// ---------------------------------------------------------------- delay overlay that keeps line numbers
//
// GenDelayOverlayLines instruments service/connection.go like GenDelayOverlay (same kinds of sites: every
// channel send, close(...), select, c.conn.Write / c.conn.Close / c.joinFunc / c.leaveFunc call in a
// statement list, and the entry of every function literal) but by TEXT insertion of `verifDelay(N); ` in
// front of the statement, on the same line, so that stack traces of the instrumented build (race reports,
// panics) show the line numbers of the real file.

func GenDelayOverlayLines(serviceDir, out string) (string, []DelaySite, error) {
	if err := os.MkdirAll(out, 0o755); err != nil {
		return "", nil, err
	}
	var sites []DelaySite
	replace := map[string]string{}
	// connection.go: the connection's goroutines; session_manager.go: the sends into operationFuncChan, the manager
	// closures' sends (ch, activeMsgChan, replyChan) - the manager-side half of every join / leave / send race
	for _, name := range []string{"connection.go", "session_manager.go"} {
		src := filepath.Join(serviceDir, name)
		outText, err := delayLinesOneFile(src, &sites)
		if err != nil {
			return "", nil, err
		}
		re := filepath.Join(out, name)
		if err := os.WriteFile(re, outText, 0o644); err != nil {
			return "", nil, err
		}
		replace[src] = re
	}
	dl := filepath.Join(out, "verif_delay.go")
	if err := os.WriteFile(dl, []byte(delaySrc), 0o644); err != nil {
		return "", nil, err
	}
	replace[filepath.Join(serviceDir, "verif_delay.go")] = dl
	b, _ := json.MarshalIndent(map[string]map[string]string{"Replace": replace}, "", " ")
	oj := filepath.Join(out, "overlay.json")
	if err := os.WriteFile(oj, b, 0o644); err != nil {
		return "", nil, err
	}
	return oj, sites, nil
}

// delayLinesOneFile returns the instrumented text of one file; site numbers continue in *psites.
func delayLinesOneFile(src string, psites *[]DelaySite) ([]byte, error) {
	text, err := os.ReadFile(src)
	if err != nil {
		return nil, err
	}
	fset := token.NewFileSet()
	f, err := parser.ParseFile(fset, src, text, parser.ParseComments)
	if err != nil {
		return nil, err
	}
	type ins struct {
		off  int
		code string
	}
	var inserts []ins
	add := func(pos token.Pos, what, fn string, after bool) {
		id := len(*psites)
		p := fset.Position(pos)
		*psites = append(*psites, DelaySite{ID: id, Line: p.Line, What: what, Func: filepath.Base(src) + ":" + fn})
		off := p.Offset
		code := fmt.Sprintf("verifDelay(%d); ", id)
		if after { // right after the '{' of a function literal
			off++
			code = " " + code
		}
		inserts = append(inserts, ins{off, code})
	}
	callName := func(e ast.Expr) string {
		c, ok := e.(*ast.CallExpr)
		if !ok {
			return ""
		}
		var b bytes.Buffer
		printer.Fprint(&b, fset, c.Fun)
		switch b.String() {
		case "close", "c.conn.Close", "c.conn.Write", "c.leaveFunc", "c.joinFunc":
			return b.String()
		}
		return ""
	}
	for _, d := range f.Decls {
		fd, ok := d.(*ast.FuncDecl)
		if !ok || fd.Body == nil {
			continue
		}
		fn := fd.Name.Name
		var list func(l []ast.Stmt)
		var node func(n ast.Node)
		node = func(n ast.Node) {
			ast.Inspect(n, func(m ast.Node) bool {
				switch x := m.(type) {
				case *ast.FuncLit:
					add(x.Body.Lbrace, "func-entry", fn, true)
					list(x.Body.List)
					return false
				case *ast.BlockStmt:
					list(x.List)
					return false
				case *ast.CaseClause:
					list(x.Body)
					return false
				case *ast.CommClause:
					list(x.Body)
					return false
				}
				return true
			})
		}
		list = func(l []ast.Stmt) {
			for _, s := range l {
				switch x := s.(type) {
				case *ast.SendStmt:
					add(x.Pos(), "send", fn, false)
				case *ast.SelectStmt:
					add(x.Pos(), "select", fn, false)
				case *ast.ExprStmt:
					if n := callName(x.X); n != "" {
						add(x.Pos(), n, fn, false)
					}
				case *ast.AssignStmt:
					for _, r := range x.Rhs {
						if n := callName(r); n != "" {
							add(x.Pos(), n, fn, false)
							break
						}
					}
				case *ast.IfStmt:
					if as, ok := x.Init.(*ast.AssignStmt); ok {
						for _, r := range as.Rhs {
							if n := callName(r); n != "" {
								add(x.Pos(), n, fn, false)
								break
							}
						}
					}
				}
				// descend (blocks, clauses, function literals); nested statement lists are handled by list
				switch x := s.(type) {
				case *ast.BlockStmt:
					list(x.List)
				case *ast.IfStmt:
					if x.Init != nil {
						node(x.Init)
					}
					node(x.Cond)
					list(x.Body.List)
					if x.Else != nil {
						list([]ast.Stmt{x.Else})
					}
				case *ast.ForStmt:
					list(x.Body.List)
				case *ast.RangeStmt:
					list(x.Body.List)
				case *ast.SwitchStmt:
					node(x.Body)
				case *ast.TypeSwitchStmt:
					node(x.Body)
				case *ast.SelectStmt:
					node(x.Body)
				case *ast.LabeledStmt:
					list([]ast.Stmt{x.Stmt})
				default:
					node(s)
				}
			}
		}
		list(fd.Body.List)
	}
	// apply the insertions from the end so that offsets stay valid
	sort.SliceStable(inserts, func(i, j int) bool { return inserts[i].off > inserts[j].off })
	outText := append([]byte{}, text...)
	for _, in := range inserts {
		outText = append(outText[:in.off], append([]byte(in.code), outText[in.off:]...)...)
	}
	return outText, nil
}

// BuildChildLines is BuildChild with the line-preserving overlay.
func BuildChildLines(cmd, out, name string, race bool) (string, []DelaySite, error) {
	oj, sites, err := GenDelayOverlayLines(ServiceDir(), filepath.Join(out, "overlay-"+name))
	if err != nil {
		return "", nil, fmt.Errorf("overlay: %w", err)
	}
	bin := filepath.Join(out, name)
	args := []string{"build", "-tags", "verif", "-overlay", oj, "-o", bin}
	if race {
		args = append(args, "-race")
	}
	args = append(args, "./cmd/"+cmd)
	c := exec.Command("go", args...)
	c.Dir = HarnessSrcDir()
	env := []string{}
	for _, e := range os.Environ() {
		if strings.HasPrefix(e, "CGO_ENABLED=") {
			continue
		}
		env = append(env, e)
	}
	cgo := "0"
	if race {
		cgo = "1"
	}
	c.Env = append(env, "CGO_ENABLED="+cgo, "GOFLAGS=-mod=mod", "GOPROXY=off", "GOSUMDB=off", "GOTOOLCHAIN=local")
	if outb, err := c.CombinedOutput(); err != nil {
		return "", sites, fmt.Errorf("go build: %v: %s", err, Trunc(string(outb), 2000))
	}
	return bin, sites, nil
}

// ConcFragFrames: one message body cut into `parts` sub-packaged frames (JT/T 808 table 3: bit 13 of the
// attribute, total and 1-based index after the serial); serials serial, serial+1, ...
func ConcFragFrames(id uint16, phone string, serial uint16, body []byte, parts int) [][]byte {
	var out [][]byte
	size := (len(body) + parts - 1) / parts
	for k := 0; k < parts; k++ {
		lo, hi := k*size, (k+1)*size
		if hi > len(body) {
			hi = len(body)
		}
		chunk := body[lo:hi]
		attr := uint16(len(chunk)) | 0x2000
		b := []byte{byte(id >> 8), byte(id), byte(attr >> 8), byte(attr)}
		b = append(b, bcdDigits(phone, 6)...)
		s := serial + uint16(k)
		b = append(b, byte(s>>8), byte(s), byte(parts>>8), byte(parts), byte((k+1)>>8), byte(k+1))
		b = append(b, chunk...)
		var x byte
		for _, v := range b {
			x ^= v
		}
		out = append(out, esc808(append(b, x)))
	}
	return out
}

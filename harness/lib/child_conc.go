package lib

// Crash containment for the live-server properties (builder "conc1"; C11, C18).
//
// service.New(...).Run() lives inside the harness process, so a Go panic in a goroutine of the server
// (send on a closed channel, nil map, ...) would kill the harness itself and the failing input would be
// lost.  A harness command therefore runs its operations in a CHILD process: the child calls ServeOps
// (one request line on stdin -> RunOp -> one answer line on the saved stdout), the parent talks to it
// through Child.Ask and learns "crash" (the child died: the last request is the replay) or "hang" (no
// answer within the bound).  The child may be the harness binary itself (os.Executable) or a binary
// built by BuildChild with the delay overlay and/or -race.

import (
	"bufio"
	"fmt"
	"io"
	"log/slog"
	"os"
	"os/exec"
	"strings"
	"sync"
	"time"
)

const childEnv = "VERIF_CHILD"

// ChildMode: this process was started by StartChild.
func ChildMode() bool { return os.Getenv(childEnv) == "1" }

// ServeOps is the child's main loop.  Library chatter on stdout/slog is silenced; answers go to the
// original stdout.  Returns when stdin is closed.
func ServeOps() {
	realStdout := os.Stdout
	if dn, err := os.OpenFile(os.DevNull, os.O_WRONLY, 0); err == nil {
		os.Stdout = dn
	}
	SilenceSlog()
	out := bufio.NewWriter(realStdout)
	in := bufio.NewReaderSize(os.Stdin, 1<<20)
	for {
		line, err := in.ReadString('\n')
		line = strings.TrimSpace(line)
		if line != "" {
			ans := RunOp(line)
			ans = strings.ReplaceAll(ans, "\n", " ")
			fmt.Fprintln(out, ans)
			out.Flush()
		}
		if err != nil {
			return
		}
	}
}

// SilenceSlog discards everything the library logs.
func SilenceSlog() {
	slog.SetDefault(slog.New(slog.NewTextHandler(io.Discard, &slog.HandlerOptions{Level: slog.Level(100)})))
}

type tailBuf struct {
	mu  sync.Mutex
	b   []byte
	max int
}

func (t *tailBuf) Write(p []byte) (int, error) {
	t.mu.Lock()
	defer t.mu.Unlock()
	t.b = append(t.b, p...)
	if len(t.b) > t.max {
		t.b = append([]byte{}, t.b[len(t.b)-t.max:]...)
	}
	return len(p), nil
}

func (t *tailBuf) String() string { t.mu.Lock(); defer t.mu.Unlock(); return string(t.b) }

type Child struct {
	cmd   *exec.Cmd
	in    io.WriteCloser
	lines chan string // answers; closed when the child's stdout ends
	errb  *tailBuf
	Dead  bool
}

// StartChild starts bin as an op server.  env entries ("K=V") are added to the parent's environment.
// stderrKeep: how many trailing bytes of the child's stderr are kept (panic traces, race reports).
func StartChild(bin string, env []string, stderrKeep int) (*Child, error) {
	cmd := exec.Command(bin)
	cmd.Env = append(append(os.Environ(), env...), childEnv+"=1")
	in, err := cmd.StdinPipe()
	if err != nil {
		return nil, err
	}
	outp, err := cmd.StdoutPipe()
	if err != nil {
		return nil, err
	}
	c := &Child{cmd: cmd, in: in, lines: make(chan string, 16), errb: &tailBuf{max: stderrKeep}}
	cmd.Stderr = c.errb
	if err := cmd.Start(); err != nil {
		return nil, err
	}
	go func() {
		defer close(c.lines)
		r := bufio.NewReaderSize(outp, 1<<20)
		for {
			l, err := r.ReadString('\n')
			if strings.HasSuffix(l, "\n") {
				c.lines <- strings.TrimRight(l, "\n")
			}
			if err != nil {
				return
			}
		}
	}()
	return c, nil
}

// Ask sends one request and waits for its answer.  status: "ok" | "crash" (child died) | "hang".
func (c *Child) Ask(req string, d time.Duration) (ans string, status string) {
	if c.Dead {
		return "", "crash"
	}
	if _, err := io.WriteString(c.in, req+"\n"); err != nil {
		c.reap()
		return "", "crash"
	}
	select {
	case l, ok := <-c.lines:
		if !ok {
			c.reap()
			return "", "crash"
		}
		return l, "ok"
	case <-time.After(d):
		return "", "hang"
	}
}

func (c *Child) reap() {
	if c.Dead {
		return
	}
	c.Dead = true
	done := make(chan struct{})
	go func() { c.cmd.Wait(); close(done) }()
	select {
	case <-done:
	case <-time.After(5 * time.Second):
		c.cmd.Process.Kill()
		<-done
	}
}

// Stderr: the tail of what the child wrote on stderr so far.
func (c *Child) Stderr() string { return c.errb.String() }

// Stop closes the child's stdin and waits for it to exit (it finishes the request in progress); the
// remaining stderr (e.g. race reports printed at exit) is then complete.  Returns the exit code.
func (c *Child) Stop(d time.Duration) int {
	if c.Dead {
		return c.cmd.ProcessState.ExitCode()
	}
	c.in.Close()
	done := make(chan struct{})
	go func() { c.cmd.Wait(); close(done) }()
	select {
	case <-done:
	case <-time.After(d):
		c.cmd.Process.Kill()
		<-done
	}
	c.Dead = true
	return c.cmd.ProcessState.ExitCode()
}

func (c *Child) Kill() {
	if c.Dead {
		return
	}
	c.cmd.Process.Kill()
	c.reap()
}

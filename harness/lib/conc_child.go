package lib

// Child-process execution for C12 / C13 (builder "conc2"): the live server and everything that talks to
// it run in a child so that a process-wide panic of the server (send on a closed channel, ...) is an
// observation (exit status, stderr) and not the death of the harness.
//
//	child protocol   <bin> -child <par>      jobs on stdin, one per line, answers on stdout as JSON lines
//	                 scn <kind> <seed>       one concurrent scenario of conc_writer.go  -> history + verdicts
//	                 op <request line>       one registered op (e.g. `wseq ...`)         -> its answer
//
// C12 runs itself as the child (no instrumentation); C13 builds the child with the delay overlay.

import (
	"bufio"
	"bytes"
	"crypto/sha256"
	"encoding/json"
	"fmt"
	"io"
	"log/slog"
	"os"
	"os/exec"
	"path/filepath"
	"strconv"
	"strings"
	"sync"
	"time"
)

type ChildOut struct {
	Job   int            `json:"job"`
	Line  string         `json:"line"`
	Ans   string         `json:"ans,omitempty"` // op jobs
	Req   string         `json:"req,omitempty"` // scn jobs: the wexp request
	Desc  string         `json:"desc,omitempty"`
	Viol  []WViol        `json:"viol,omitempty"`
	Kinds map[string]int `json:"kinds,omitempty"`
	N     int            `json:"n,omitempty"`
}

var (
	childSrvOnce sync.Once
	childSrv     *Srv
)

// ChildServer: the one in-process server of this (child) process.
func ChildServer() *Srv {
	childSrvOnce.Do(func() { childSrv = StartSrv(nil) })
	return childSrv
}

// ChildMain: see the protocol above.  Never returns an error: a crash of the server kills the process.
func ChildMain(args []string) {
	slog.SetDefault(slog.New(slog.NewTextHandler(io.Discard, &slog.HandlerOptions{Level: slog.Level(100)})))
	out := bufio.NewWriter(os.Stdout)
	in := bufio.NewScanner(os.Stdin)
	in.Buffer(make([]byte, 1<<20), 1<<24)
	if dn, err := os.OpenFile(os.DevNull, os.O_WRONLY, 0); err == nil {
		os.Stdout = dn // the library prints on stdout
	}
	par := 1
	if len(args) > 0 {
		par, _ = strconv.Atoi(args[0])
	}
	if par < 1 {
		par = 1
	}
	ChildServer()
	var mu sync.Mutex
	var wg sync.WaitGroup
	sem := make(chan struct{}, par)
	job := 0
	for in.Scan() {
		line := strings.TrimSpace(in.Text())
		if line == "" {
			continue
		}
		wg.Add(1)
		sem <- struct{}{}
		go func(job int, line string) {
			defer wg.Done()
			defer func() { <-sem }()
			o := ChildOut{Job: job, Line: line}
			f := strings.Fields(line)
			switch {
			case f[0] == "scn" && len(f) == 3:
				seed, _ := strconv.ParseInt(f[2], 10, 64)
				var h *WHist
				desc := ""
				switch f[1] {
				case "reuse":
					h, desc = RunReuse(ChildServer(), seed), "witness of finding serial-reuse"
				case "noread":
					h, desc = RunNoRead(ChildServer(), seed), "witness of finding blocked-write"
				default:
					sc := GenW(f[1], seed)
					h, desc = RunW(ChildServer(), sc), sc.Describe()
				}
				o.Desc, o.Viol, o.Kinds, o.N = desc, h.Viol, h.Kinds, h.NCalls
				if h.Searchable() {
					o.Req = h.Request()
				} else {
					o.Req = fmt.Sprintf("(history of %d items: direct oracle only)", len(h.Items))
				}
			case f[0] == "op":
				o.Ans = RunOp(strings.TrimSpace(strings.TrimPrefix(line, "op")))
			default:
				o.Ans = "bad job"
			}
			b, _ := json.Marshal(o)
			mu.Lock()
			out.Write(b)
			out.WriteByte('\n')
			out.Flush()
			mu.Unlock()
		}(job, line)
		job++
	}
	wg.Wait()
	time.Sleep(150 * time.Millisecond) // a crash caused by the last disconnect must still be seen
	out.Flush()
}

// DelayCfg: environment of the delay overlay.  Site = 0: every instrumented site delays with probability P %
// by up to US microseconds; Site = n+1: only site n delays, always, by US microseconds (targeted).
type DelayCfg struct{ Seed, US, P, Site int }

func (d DelayCfg) String() string { return fmt.Sprintf("%d:%d:%d:%d", d.Seed, d.US, d.P, d.Site) }

func ParseDelayCfg(s string) DelayCfg {
	var d DelayCfg
	fmt.Sscanf(s, "%d:%d:%d:%d", &d.Seed, &d.US, &d.P, &d.Site)
	return d
}

type BatchRes struct {
	Outs   []ChildOut
	Crash  string // non-empty: the child died
	Slow   bool   // the child was killed at the time limit (not a violation by itself)
	Stderr string
}

// RunBatch runs the jobs in one child process.  d == nil: no delay environment.
func RunBatch(bin string, d *DelayCfg, par int, jobs []string, limit time.Duration) BatchRes {
	cmd := exec.Command(bin, "-child", strconv.Itoa(par))
	cmd.Env = append(os.Environ(), "GOTRACEBACK=single")
	if d != nil {
		cmd.Env = append(cmd.Env, fmt.Sprintf("VERIF_DELAY_SEED=%d", d.Seed), fmt.Sprintf("VERIF_DELAY_US=%d", d.US),
			fmt.Sprintf("VERIF_DELAY_P=%d", d.P))
		if d.Site > 0 {
			cmd.Env = append(cmd.Env, fmt.Sprintf("VERIF_DELAY_SITE=%d", d.Site-1))
		}
	}
	cmd.Stdin = strings.NewReader(strings.Join(jobs, "\n") + "\n")
	var so, se bytes.Buffer
	cmd.Stdout, cmd.Stderr = &so, &se
	if err := cmd.Start(); err != nil {
		return BatchRes{Crash: "child did not start: " + err.Error()}
	}
	done := make(chan error, 1)
	go func() { done <- cmd.Wait() }()
	var werr error
	var res BatchRes
	select {
	case werr = <-done:
	case <-time.After(limit):
		cmd.Process.Kill()
		<-done
		res.Slow = true
	}
	for _, l := range strings.Split(so.String(), "\n") {
		if strings.TrimSpace(l) == "" {
			continue
		}
		var o ChildOut
		if json.Unmarshal([]byte(l), &o) == nil {
			res.Outs = append(res.Outs, o)
		}
	}
	res.Stderr = se.String()
	st := res.Stderr
	switch {
	case strings.Contains(st, "panic:") || strings.Contains(st, "fatal error:"):
		i := strings.Index(st, "panic:")
		if j := strings.Index(st, "fatal error:"); i < 0 || (j >= 0 && j < i) {
			i = j
		}
		res.Crash = Trunc(strings.ReplaceAll(st[i:], "\n", " | "), 900)
	case res.Slow:
	case werr != nil:
		res.Crash = "child exited: " + werr.Error() + " " + Trunc(strings.ReplaceAll(st, "\n", " | "), 400)
	}
	return res
}

// DelaySites lists the instrumented sites of the current connection.go (same numbering as in the child).
func DelaySites() []DelaySite {
	dir, err := os.MkdirTemp(filepath.Dir(SelfExe()), "sites-")
	if err != nil {
		return nil
	}
	defer os.RemoveAll(dir)
	_, sites, err := GenDelayOverlay(ServiceDir(), dir)
	if err != nil {
		return nil
	}
	return sites
}

// SelfExe: this binary.
func SelfExe() string {
	exe, err := os.Executable()
	if err != nil {
		return os.Args[0]
	}
	return exe
}

// OverlayChild builds (once per content of this binary) ./cmd/<cmd> with the delay overlay next to this
// binary and returns its path.  bin/check runs private copies of the harness from one shared directory,
// so the child is keyed by the hash of THIS binary, which contains the service code of the tree under test.
func OverlayChild(cmd string) (string, int, error) {
	exe := SelfExe()
	b, err := os.ReadFile(exe)
	if err != nil {
		return "", 0, err
	}
	sum := sha256.Sum256(b)
	name := fmt.Sprintf("child-%s-%x", cmd, sum[:8])
	dir := filepath.Dir(exe)
	if abs, err := filepath.Abs(dir); err == nil {
		dir = abs
	}
	if old, _ := filepath.Glob(filepath.Join(dir, "child-"+cmd+"-*")); len(old) > 0 {
		for _, o := range old {
			if st, err := os.Stat(o); err == nil && time.Since(st.ModTime()) > 6*time.Hour && !strings.Contains(o, name) {
				os.RemoveAll(o)
			}
		}
	}
	bin := filepath.Join(dir, name)
	if _, err := os.Stat(bin); err == nil {
		return bin, 0, nil
	}
	tmp := fmt.Sprintf("%s.%d", name, os.Getpid())
	bb, sites, err := BuildChild(cmd, dir, tmp, false)
	os.RemoveAll(filepath.Join(dir, "overlay-"+tmp))
	if err != nil {
		return "", len(sites), err
	}
	if err := os.Rename(bb, bin); err != nil {
		return "", len(sites), err
	}
	return bin, len(sites), nil
}

package lib

// Child-process execution for C12 / C13 (builder "conc2"): the live server and everything that talks to
// it run in a child so that a process-wide panic of the server (send on a closed channel, ...) is an
// observation (exit status, stderr) and not the death of the harness.
//
//	child protocol   <bin> -child <par>      jobs on stdin, one per line, answers on stdout as JSON lines
//	                 scn <kind> <seed>       one concurrent scenario of conc_writer.go  -> history + verdicts
//	                 op <request line>       one registered op (e.g. `wseq ...`)         -> its answer
//
// C12 runs itself as the child (no instrumentation); C13 builds the child with the delay overlay.

import (
	"bufio"
	"bytes"
	"crypto/sha256"
	"encoding/json"
	"fmt"
	"io"
	"log/slog"
	"math/rand"
	"net"
	"os"
	"os/exec"
	"path/filepath"
	"strconv"
	"strings"
	"sync"
	"time"

	"github.com/cuteLittleDevil/go-jt808/service"
)

type ChildOut struct {
	Job   int            `json:"job"`
	Line  string         `json:"line"`
	Ans   string         `json:"ans,omitempty"` // op jobs
	Req   string         `json:"req,omitempty"` // scn jobs: the wexp request
	Desc  string         `json:"desc,omitempty"`
	Viol  []WViol        `json:"viol,omitempty"`
	Kinds map[string]int `json:"kinds,omitempty"`
	N     int            `json:"n,omitempty"`
	Note  string         `json:"note,omitempty"`
}

var (
	childSrvOnce sync.Once
	childSrv     *Srv
)

// ChildServer: the one in-process server of this (child) process.  With VERIF_SLOW_CB=<ms> in the environment
// its user callbacks (OnReadExecutionEvent / OnWriteExecutionEvent / OnJoinEvent / OnLeaveEvent, which run inside
// the reader and writer goroutines) sleep 1..<ms> ms four times out of ten.
func ChildServer() *Srv {
	childSrvOnce.Do(func() {
		if ms, err := strconv.Atoi(os.Getenv("VERIF_SLOW_CB")); err == nil && ms > 0 {
			childSrv = startSrvSlow(ms)
		} else {
			childSrv = StartSrv(ChildKeyFunc)
		}
	})
	return childSrv
}

type slowEventer struct {
	max int
	mu  sync.Mutex
	rng *rand.Rand
}

func (e *slowEventer) nap() {
	e.mu.Lock()
	hit, d := e.rng.Intn(10) < 4, 1+e.rng.Intn(e.max)
	e.mu.Unlock()
	if hit {
		time.Sleep(time.Duration(d) * time.Millisecond)
	}
}
func (e *slowEventer) OnJoinEvent(_ *service.Message, _ string, _ error) { e.nap() }
func (e *slowEventer) OnLeaveEvent(_ string)                             { e.nap() }
func (e *slowEventer) OnNotSupportedEvent(_ *service.Message)            {}
func (e *slowEventer) OnReadExecutionEvent(_ *service.Message)           { e.nap() }
func (e *slowEventer) OnWriteExecutionEvent(_ service.Message)           { e.nap() }

func startSrvSlow(maxMS int) *Srv {
	for attempt := 0; attempt < 20; attempt++ {
		s := &Srv{Addr: freeAddr(), Rec: NewRecorder()}
		var n int64
		var mu sync.Mutex
		s.G = service.New(service.WithHostPorts(s.Addr),
			service.WithKeyFunc(func(m *service.Message) (string, bool) { return ChildKeyFunc(m.JTMessage.Header.TerminalPhoneNo) }),
			service.WithCustomTerminalEventer(func() service.TerminalEventer {
				mu.Lock()
				n++
				seed := n
				mu.Unlock()
				return &slowEventer{max: maxMS, rng: rand.New(rand.NewSource(seed))}
			}))
		go s.G.Run()
		for i := 0; i < 200; i++ {
			c, err := net.DialTimeout("tcp", s.Addr, 200*time.Millisecond)
			if err == nil {
				c.Close()
				time.Sleep(20 * time.Millisecond)
				return s
			}
			time.Sleep(5 * time.Millisecond)
		}
	}
	panic("server did not start")
}

// ChildMain: see the protocol above.  Never returns an error: a crash of the server kills the process.
func ChildMain(args []string) {
	slog.SetDefault(slog.New(slog.NewTextHandler(io.Discard, &slog.HandlerOptions{Level: slog.Level(100)})))
	out := bufio.NewWriter(os.Stdout)
	in := bufio.NewScanner(os.Stdin)
	in.Buffer(make([]byte, 1<<20), 1<<24)
	if dn, err := os.OpenFile(os.DevNull, os.O_WRONLY, 0); err == nil {
		os.Stdout = dn // the library prints on stdout
	}
	par := 1
	if len(args) > 0 {
		par, _ = strconv.Atoi(args[0])
	}
	if par < 1 {
		par = 1
	}
	ChildServer()
	var mu sync.Mutex
	var wg sync.WaitGroup
	sem := make(chan struct{}, par)
	job := 0
	for in.Scan() {
		line := strings.TrimSpace(in.Text())
		if line == "" {
			continue
		}
		wg.Add(1)
		sem <- struct{}{}
		go func(job int, line string) {
			defer wg.Done()
			defer func() { <-sem }()
			o := ChildOut{Job: job, Line: line}
			f := strings.Fields(line)
			switch {
			case f[0] == "scn" && len(f) == 3:
				seed, _ := strconv.ParseInt(f[2], 10, 64)
				var h *WHist
				desc := ""
				switch f[1] {
				case "reuse":
					h, desc = RunReuse(ChildServer(), seed, false), "witness of finding serial-reuse (no timeouts, disconnect)"
				case "reuse-timer":
					h, desc = RunReuse(ChildServer(), seed, true), "witness of finding serial-reuse (the older command's timer completes the newer one)"
				case "noread":
					h, desc = RunNoRead(ChildServer(), seed), "witness of finding blocked-write"
				default:
					sc := GenW(f[1], seed)
					h, desc = RunW(ChildServer(), sc), sc.Describe()
				}
				o.Desc, o.Viol, o.Kinds, o.N, o.Note = desc, h.Viol, h.Kinds, h.NCalls, h.Note
				if h.Searchable() {
					o.Req = h.Request()
				} else {
					o.Req = fmt.Sprintf("(history of %d items: direct oracle only)", len(h.Items))
				}
			case f[0] == "op":
				o.Ans = RunOp(strings.TrimSpace(strings.TrimPrefix(line, "op")))
			default:
				o.Ans = "bad job"
			}
			b, _ := json.Marshal(o)
			mu.Lock()
			out.Write(b)
			out.WriteByte('\n')
			out.Flush()
			mu.Unlock()
		}(job, line)
		job++
	}
	wg.Wait()
	time.Sleep(150 * time.Millisecond) // a crash caused by the last disconnect must still be seen
	out.Flush()
}

// DelayCfg: environment of the delay overlay.  Site = 0: every instrumented site delays with probability P %
// by up to US microseconds; Site = n+1: only site n delays, always, by US microseconds (targeted).
// SlowCB = n > 0: the server's user callbacks sleep up to n ms (VERIF_SLOW_CB, see ChildServer).
type DelayCfg struct{ Seed, US, P, Site, SlowCB int }

func (d DelayCfg) String() string {
	return fmt.Sprintf("%d:%d:%d:%d:%d", d.Seed, d.US, d.P, d.Site, d.SlowCB)
}

func ParseDelayCfg(s string) DelayCfg {
	var d DelayCfg
	fmt.Sscanf(strings.ReplaceAll(s, ":", " "), "%d %d %d %d %d", &d.Seed, &d.US, &d.P, &d.Site, &d.SlowCB)
	return d
}

type BatchRes struct {
	Outs   []ChildOut
	Crash  string // non-empty: the child died
	Slow   bool   // the child was killed at the time limit (not a violation by itself)
	Stderr string
}

// RunBatch runs the jobs in one child process.  d == nil: no delay environment.
func RunBatch(bin string, d *DelayCfg, par int, jobs []string, limit time.Duration) BatchRes {
	cmd := exec.Command(bin, "-child", strconv.Itoa(par))
	cmd.Env = append(os.Environ(), "GOTRACEBACK=single")
	if d != nil {
		cmd.Env = append(cmd.Env, fmt.Sprintf("VERIF_DELAY_SEED=%d", d.Seed), fmt.Sprintf("VERIF_DELAY_US=%d", d.US),
			fmt.Sprintf("VERIF_DELAY_P=%d", d.P))
		if d.Site > 0 {
			cmd.Env = append(cmd.Env, fmt.Sprintf("VERIF_DELAY_SITE=%d", d.Site-1))
		}
		if d.SlowCB > 0 {
			cmd.Env = append(cmd.Env, fmt.Sprintf("VERIF_SLOW_CB=%d", d.SlowCB))
		}
	}
	cmd.Stdin = strings.NewReader(strings.Join(jobs, "\n") + "\n")
	var so, se bytes.Buffer
	cmd.Stdout, cmd.Stderr = &so, &se
	if err := cmd.Start(); err != nil {
		return BatchRes{Crash: "child did not start: " + err.Error()}
	}
	done := make(chan error, 1)
	go func() { done <- cmd.Wait() }()
	var werr error
	var res BatchRes
	select {
	case werr = <-done:
	case <-time.After(limit):
		cmd.Process.Kill()
		<-done
		res.Slow = true
	}
	for _, l := range strings.Split(so.String(), "\n") {
		if strings.TrimSpace(l) == "" {
			continue
		}
		var o ChildOut
		if json.Unmarshal([]byte(l), &o) == nil {
			res.Outs = append(res.Outs, o)
		}
	}
	res.Stderr = se.String()
	st := res.Stderr
	switch {
	case strings.Contains(st, "panic:") || strings.Contains(st, "fatal error:"):
		i := strings.Index(st, "panic:")
		if j := strings.Index(st, "fatal error:"); i < 0 || (j >= 0 && j < i) {
			i = j
		}
		res.Crash = Trunc(strings.ReplaceAll(st[i:], "\n", " | "), 900)
	case res.Slow:
	case werr != nil:
		res.Crash = "child exited: " + werr.Error() + " " + Trunc(strings.ReplaceAll(st, "\n", " | "), 400)
	}
	return res
}

// DelaySites lists the instrumented sites of the current connection.go (same numbering as in the child).
func DelaySites() []DelaySite {
	dir, err := os.MkdirTemp(filepath.Dir(SelfExe()), "sites-")
	if err != nil {
		return nil
	}
	defer os.RemoveAll(dir)
	_, sites, err := GenDelayOverlay(ServiceDir(), dir)
	if err != nil {
		return nil
	}
	return sites
}

// SelfExe: this binary.
func SelfExe() string {
	exe, err := os.Executable()
	if err != nil {
		return os.Args[0]
	}
	return exe
}

// OverlayChild builds (once per content of this binary) ./cmd/<cmd> with the delay overlay next to this
// binary and returns its path.  bin/check runs private copies of the harness from one shared directory,
// so the child is keyed by the hash of THIS binary, which contains the service code of the tree under test.
func OverlayChild(cmd string) (string, int, error) {
	exe := SelfExe()
	b, err := os.ReadFile(exe)
	if err != nil {
		return "", 0, err
	}
	sum := sha256.Sum256(b)
	name := fmt.Sprintf("child-%s-%x", cmd, sum[:8])
	dir := filepath.Dir(exe)
	if abs, err := filepath.Abs(dir); err == nil {
		dir = abs
	}
	if old, _ := filepath.Glob(filepath.Join(dir, "child-"+cmd+"-*")); len(old) > 0 {
		for _, o := range old {
			if st, err := os.Stat(o); err == nil && time.Since(st.ModTime()) > 6*time.Hour && !strings.Contains(o, name) {
				os.RemoveAll(o)
			}
		}
	}
	bin := filepath.Join(dir, name)
	if _, err := os.Stat(bin); err == nil {
		return bin, 0, nil
	}
	tmp := fmt.Sprintf("%s.%d", name, os.Getpid())
	bb, sites, err := BuildChild(cmd, dir, tmp, false)
	os.RemoveAll(filepath.Join(dir, "overlay-"+tmp))
	if err != nil {
		return "", len(sites), err
	}
	if err := os.Rename(bb, bin); err != nil {
		return "", len(sites), err
	}
	return bin, len(sites), nil
}

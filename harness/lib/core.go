// verifh — correspondence and direct-oracle harness for the go-jt808 verification.
//
//	verifh <property> -tier quick|thorough -seed N -out DIR [-replay FILE]
//
// For a property it (a) generates cases from one PRNG, (b) runs the real implementation
// (the /repo working tree, via `replace` in go.mod), (c) writes
//
//	DIR/cases.txt   one oracle request per line (fed to the extracted Coq model)
//	DIR/impl.txt    the implementation's canonical answer for the same line
//	DIR/direct.jsonl one JSON object per violation found by the direct property oracle
//	DIR/stats.json  what was explored (counts, distribution, samples)
//
// bin/check then runs the oracle on cases.txt and diffs against impl.txt.
package lib

import (
	"bufio"
	"encoding/hex"
	"encoding/json"
	"flag"
	"fmt"
	"hash/fnv"
	"log/slog"
	"math/rand"
	"os"
	"path/filepath"
	"strings"
	goscanner "go/scanner"
	gotoken "go/token"
	"strconv"
	"sort"
)

type Violation struct {
	Property  string `json:"property"`
	Signature string `json:"signature"` // narrow class of the failure (matched against known_findings.json)
	What      string `json:"what"`
	Input     string `json:"input"` // enough to replay: an oracle-style request line or a script
	Observed  string `json:"observed"`
	Required  string `json:"required"`
}

type Ctx struct {
	Prop   string
	Tier   string
	Seed   int64
	Out    string
	Rng    *rand.Rand
	Replay string

	cases, impl *bufio.Writer
	direct      *bufio.Writer
	files       []*os.File

	Evaluations int
	distinct    map[uint64]struct{}
	Dist        map[string]int
	Samples     []string
	Rule        string
	Exhaustive  bool
	nviol       int
	nwritten    int
	perSig      map[string]int
	Extra       map[string]any
}

func (c *Ctx) Quick() bool { return c.Tier != "thorough" }

// Case records one correspondence case: the oracle request and the implementation's answer.
// nontrivial: whether the case counts as non-trivial by the property's stated rule.
func (c *Ctx) Case(request, implAnswer string, nontrivial bool) {
	if strings.ContainsAny(request, "\n") || strings.ContainsAny(implAnswer, "\n") {
		panic("newline in case")
	}
	fmt.Fprintln(c.cases, request)
	fmt.Fprintln(c.impl, implAnswer)
	c.Evaluations++
	if nontrivial {
		h := fnv.New64a()
		h.Write([]byte(request))
		c.distinct[h.Sum64()] = struct{}{}
	}
	if len(c.Samples) < 5 && nontrivial && c.Rng.Intn(50) == 0 {
		c.Samples = append(c.Samples, Trunc(request, 300)+" => "+Trunc(implAnswer, 300))
	}
}

// Eval counts an evaluation that is not a correspondence case (direct oracle only).
func (c *Ctx) Eval(key string, nontrivial bool) {
	c.Evaluations++
	if nontrivial {
		h := fnv.New64a()
		h.Write([]byte(key))
		c.distinct[h.Sum64()] = struct{}{}
	}
}

func (c *Ctx) Count(key string) { c.Dist[key]++ }

func (c *Ctx) Violate(v Violation) {
	v.Property = c.Prop
	c.nviol++
	// at most 12 records per signature (a known finding hit a thousand times must not use up the room of a new
	// violation found later in the run) and 600 in all
	if c.perSig == nil {
		c.perSig = map[string]int{}
	}
	c.perSig[v.Signature]++
	if c.perSig[v.Signature] > 12 || c.nwritten >= 600 {
		return
	}
	c.nwritten++
	b, _ := json.Marshal(v)
	c.direct.Write(b)
	c.direct.WriteByte('\n')
}

func Trunc(s string, n int) string {
	if len(s) > n {
		return s[:n] + "..."
	}
	return s
}

func Hx(b []byte) string {
	if len(b) == 0 {
		return "-"
	}
	return hex.EncodeToString(b)
}

func Unhx(s string) []byte {
	if s == "-" {
		return nil
	}
	b, err := hex.DecodeString(s)
	if err != nil {
		panic(err)
	}
	return b
}

// exact returns a copy with cap == len, so that any access beyond len panics.
func Exact(b []byte) []byte {
	c := make([]byte, len(b))
	copy(c, b)
	return c[:len(b):len(b)]
}

// implOps: the implementation side of every oracle request kind ("<op> <arg> ..."): runs the real
// code and returns the canonical answer.  Used for case generation and for --replay alike.
var implOps = map[string]func(args []string) string{}

func RegisterOp(op string, f func(args []string) string) { implOps[op] = f }

func RunOp(request string) string {
	toks := strings.Fields(request)
	if len(toks) == 0 {
		return "empty"
	}
	f, ok := implOps[toks[0]]
	if !ok {
		return "unknown-op " + toks[0]
	}
	return f(toks[1:])
}

// Do runs the implementation on the request, records the correspondence case and returns the answer.
func (c *Ctx) Do(request string, nontrivial bool) string {
	ans := RunOp(request)
	c.Case(request, ans, nontrivial)
	return ans
}

type PropFunc func(c *Ctx)

// Main is called by each cmd/Cxx/main.go:  verifh-Cxx -tier quick|thorough -seed N -out DIR [-replay FILE]
func Main(prop string, f PropFunc) {
	fs := flag.NewFlagSet("verifh", flag.ExitOnError)
	tier := fs.String("tier", "quick", "quick|thorough")
	seed := fs.Int64("seed", 1, "PRNG seed")
	out := fs.String("out", ".", "output directory")
	replay := fs.String("replay", "", "replay file")
	fs.Parse(os.Args[1:])
	realStdout := os.Stdout
	os.MkdirAll(*out, 0o755)
	// the library prints diagnostics on stdout and through slog: silence both
	if dn, err := os.OpenFile(os.DevNull, os.O_WRONLY, 0); err == nil {
		os.Stdout = dn
		slog.SetDefault(slog.New(slog.NewTextHandler(dn, &slog.HandlerOptions{Level: slog.Level(100)})))
	}
	c := &Ctx{Prop: prop, Tier: *tier, Seed: *seed, Out: *out, Rng: rand.New(rand.NewSource(*seed)),
		Replay: *replay, distinct: map[uint64]struct{}{}, Dist: map[string]int{}, Extra: map[string]any{}}
	open := func(name string) *bufio.Writer {
		fh, err := os.Create(filepath.Join(*out, name))
		if err != nil {
			panic(err)
		}
		c.files = append(c.files, fh)
		return bufio.NewWriterSize(fh, 1<<20)
	}
	if *replay != "" {
		var rp struct {
			Input  string `json:"input"`
			Script string `json:"script"`
		}
		b, err := os.ReadFile(*replay)
		if err != nil || json.Unmarshal(b, &rp) != nil {
			fmt.Fprintln(realStdout, "cannot read replay file")
			os.Exit(2)
		}
		fmt.Fprintln(realStdout, RunOp(rp.Input))
		return
	}
	c.cases, c.impl, c.direct = open("cases.txt"), open("impl.txt"), open("direct.jsonl")
	f(c)
	c.cases.Flush()
	c.impl.Flush()
	c.direct.Flush()
	for _, fh := range c.files {
		fh.Close()
	}
	stats := map[string]any{
		"evaluations":         c.Evaluations,
		"distinct_nontrivial": len(c.distinct),
		"rule":                c.Rule,
		"samples":             c.Samples,
		"distribution":        c.Dist,
		"exhaustive":          c.Exhaustive,
		"direct_violations":   c.nviol,
		"extra":               c.Extra,
	}
	b, _ := json.MarshalIndent(stats, "", " ")
	os.WriteFile(filepath.Join(*out, "stats.json"), b, 0o644)
}


// SourceLiterals returns the distinct integer literals (< 2^32) that occur in the given Go source files of
// the tree under check (relative to VERIF_REPO, default /repo), ascending.  Generators use them as a
// dictionary: a comparison against a constant in the code under test is reached by inputs that contain
// that constant, whatever the constant is after a change to the code.
func SourceLiterals(relFiles ...string) []uint32 {
	root := os.Getenv("VERIF_REPO")
	if root == "" {
		root = "/repo"
	}
	set := map[uint32]bool{}
	for _, rf := range relFiles {
		src, err := os.ReadFile(filepath.Join(root, rf))
		if err != nil {
			continue
		}
		var sc goscanner.Scanner
		fs := gotoken.NewFileSet()
		sc.Init(fs.AddFile(rf, fs.Base(), len(src)), src, nil, 0)
		for {
			_, tok, lit := sc.Scan()
			if tok == gotoken.EOF {
				break
			}
			if tok == gotoken.INT {
				if v, err := strconv.ParseUint(strings.ReplaceAll(lit, "_", ""), 0, 64); err == nil && v < 1<<32 {
					set[uint32(v)] = true
				}
			}
		}
	}
	var out []uint32
	for v := range set {
		out = append(out, v)
	}
	sort.Slice(out, func(i, j int) bool { return out[i] < out[j] })
	return out
}

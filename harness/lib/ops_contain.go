package lib

// C10 — containment.  The real servers run as CHILD PROCESSES of the harness (the harness binary
// re-executed with VERIFH_C10_CHILD set), because a panic in any connection goroutine is process-wide:
// only the exit status / stderr of a separate process shows it.
//
// ops (model side: oracle/drv_c10.ml on Model/Server.v):
//
//	contain808 <pa 0|1> <token>...      JT808 server, default handlers (pa=1: handlers that Parse every body)
//	containatt <dialect> <token>...     attachment server, default data handler and DEFAULT file handler
//
// tokens (connection 0 is the well-behaved session, k >= 1 are hostile connections):
//
//	G:<hex>     well-behaved session: send, wait for the answer frame(s)       -> g=<hex>/<hex>/...
//	S:<hex>     well-behaved session: send only (a chunk has no answer)
//	O<k>        open hostile connection k
//	D<k>:<hex>  send on k (one write; writes are separated so that each is one read)
//	Q<k>:<hex>  probe of a connection that is expected to be ended for claiming a key in use (no replay when it is)
//	P<k>:<hex>  probe: send a valid frame on k and wait for its answer / the server's close / silence
//	F<k>        close k (FIN)        R<k>  reset k (SO_LINGER 0)
//	C:<hex>     well-behaved session: stream these frames from a goroutine while the following tokens run
//	J           wait until every frame of the stream has been answered               -> one more g entry
//	V:<path-hex>:<content-hex>  close the well-behaved session, then the file must be on disk (attachment) -> v=1
//	X:<path-hex>:<content-hex>  x=1 when the file finally holds exactly this content
//	T:<ms>      let real time pass (model: the clock of the following reads advances)
//	U<k>:<hex>  808: the NEW session of a key whose owner has just gone: open k and probe; a refused claim is repeated on a
//	            fresh connection until accepted (the release of the key is the awaited event), at most 8 s -> as P
//	W           wait 60 ms (no script uses it any more: nothing is decided by a time wait)
//	A:<hex>     accept check: a NEW connection, send, wait for the answer, close  -> a=<hex>
//
// answer: ok alive=<0|1> g=... k<k>=<closed|open:<replies>|quiet:<replies>|gone> ... a=...
// 808: <replies> = sorted list of id.body (platform serial dropped; the order of the re-issue path is
// scheduler dependent); attachment: the exact bytes (one goroutine per connection: deterministic).

import (
	"bytes"
	"encoding/hex"
	"errors"
	"fmt"
	"io"
	"net"
	"os"
	"os/exec"
	"path/filepath"
	"sort"
	"strconv"
	"strings"
	"sync"
	"syscall"
	"time"

	"github.com/cuteLittleDevil/go-jt808/attachment"
	"github.com/cuteLittleDevil/go-jt808/protocol/jt808"
	"github.com/cuteLittleDevil/go-jt808/protocol/model"
	"github.com/cuteLittleDevil/go-jt808/service"
	"github.com/cuteLittleDevil/go-jt808/shared/consts"
)

// ---------------------------------------------------------------- the child side

// c10ParseAll is the README pattern: a handler whose read callback parses the body with the model type.
type c10ParseAll struct {
	service.JT808Handler
	mk func() service.JT808Handler
}

func (p *c10ParseAll) OnReadExecutionEvent(m *service.Message) {
	h := p.mk()
	_ = h.Parse(m.JTMessage)
}
func (p *c10ParseAll) OnWriteExecutionEvent(_ service.Message) {}

func c10ParseAllHandles() map[consts.JT808CommandType]service.Handler {
	mks := []func() service.JT808Handler{
		func() service.JT808Handler { return &model.T0x0001{} }, func() service.JT808Handler { return &model.T0x0100{} },
		func() service.JT808Handler { return &model.T0x0102{} }, func() service.JT808Handler { return &model.T0x0002{} },
		func() service.JT808Handler { return &model.T0x0200{} }, func() service.JT808Handler { return &model.T0x0704{} },
		func() service.JT808Handler { return &model.T0x0104{} }, func() service.JT808Handler { return &model.T0x0805{} },
		func() service.JT808Handler { return &model.T0x0800{} }, func() service.JT808Handler { return &model.T0x0801{} },
		func() service.JT808Handler { return &model.P0x8003{} }, func() service.JT808Handler { return &model.P0x8103{} },
		func() service.JT808Handler { return &model.P0x8104{} }, func() service.JT808Handler { return &model.P0x8801{} },
		func() service.JT808Handler { return &model.P0x9003{} }, func() service.JT808Handler { return &model.T0x1003{} },
		func() service.JT808Handler { return &model.T0x1005{} }, func() service.JT808Handler { return &model.P0x9101{} },
		func() service.JT808Handler { return &model.P0x9102{} }, func() service.JT808Handler { return &model.P0x9205{} },
		func() service.JT808Handler { return &model.T0x1205{} }, func() service.JT808Handler { return &model.P0x9206{} },
		func() service.JT808Handler { return &model.T0x1206{} }, func() service.JT808Handler { return &model.P0x9207{} },
		func() service.JT808Handler { return &model.P0x9208{} }, func() service.JT808Handler { return &model.T0x1210{} },
		func() service.JT808Handler { return &model.T0x1211{} }, func() service.JT808Handler { return &model.T0x1212{} },
	}
	out := map[consts.JT808CommandType]service.Handler{}
	for _, mk := range mks {
		h := mk()
		out[h.Protocol()] = &c10ParseAll{JT808Handler: h, mk: mk}
	}
	return out
}

// c10ChildMain: VERIFH_C10_CHILD = "808,<addr>,<pa>" | "att,<addr>,<dialect>"; VERIFH_C10_CHILD_CWD = working directory
func c10ChildMain() {
	spec := os.Getenv("VERIFH_C10_CHILD")
	if spec == "" {
		return
	}
	parts := strings.Split(spec, ",")
	if cwd := os.Getenv("VERIFH_C10_CHILD_CWD"); cwd != "" {
		if err := os.Chdir(cwd); err != nil {
			os.Exit(3)
		}
	}
	if dn, err := os.OpenFile(os.DevNull, os.O_WRONLY, 0); err == nil {
		os.Stdout = dn // the default file handler prints every event
	}
	if mb := atoi(os.Getenv("VERIFH_C10_RLIMIT_MB")); mb > 0 { // thorough tier: address-space limit (ulimit -v)
		lim := syscall.Rlimit{Cur: uint64(mb) << 20, Max: uint64(mb) << 20}
		if err := syscall.Setrlimit(syscall.RLIMIT_AS, &lim); err != nil {
			os.Exit(5)
		}
	}
	if nf := atoi(os.Getenv("VERIFH_C10_NOFILE")); nf > 0 { // descriptor limit (ulimit -n)
		lim := syscall.Rlimit{Cur: uint64(nf), Max: uint64(nf)}
		if err := syscall.Setrlimit(syscall.RLIMIT_NOFILE, &lim); err != nil {
			os.Exit(5)
		}
	}
	switch parts[0] {
	case "808":
		opts := []service.Option{service.WithHostPorts(parts[1])}
		if len(parts) > 2 && parts[2] == "1" {
			opts = append(opts, service.WithCustomHandleFunc(c10ParseAllHandles))
		}
		service.New(opts...).Run()
	case "att":
		d := 1
		if len(parts) > 2 {
			d = atoi(parts[2])
		}
		attachment.New(attachment.WithHostPorts(parts[1]), attachment.WithActiveSafetyType(consts.ActiveSafetyType(d))).Run()
	}
	os.Exit(4) // Run returns only when listen failed
}

func init() {
	c10ChildMain()
	RegisterOp("contain808", func(a []string) string { return c10ContainOp("808", a) })
	RegisterOp("containatt", func(a []string) string { return c10ContainOp("att", a) })
	RegisterOp("contain808mem", c10MemOp)
	RegisterOp("parse808age", c10ParseAgeOp)
	RegisterOp("containgrow", c10GrowOp)
	RegisterOp("containfd", c10FdOp)
	RegisterOp("containbuf", c10BufOp)
}

// ---------------------------------------------------------------- the parent side: child management

type c10LockedBuf struct {
	mu sync.Mutex
	b  bytes.Buffer
}

func (l *c10LockedBuf) Write(p []byte) (int, error) {
	l.mu.Lock()
	defer l.mu.Unlock()
	if l.b.Len() < 1<<20 {
		l.b.Write(p)
	}
	return len(p), nil
}
func (l *c10LockedBuf) String() string { l.mu.Lock(); defer l.mu.Unlock(); return l.b.String() }

type C10Child struct {
	Kind   string // "808" | "att"
	Param  string // pa | dialect
	Addr   string
	Cwd    string // working directory of the child (the default attachment file handler stores under it)
	cmd    *exec.Cmd
	stderr *c10LockedBuf
	done   chan struct{}
	werr   error
}

var (
	c10Children   = map[string]*C10Child{}
	c10ChildMu    sync.Mutex
	ContainDir string // working directory for the c10Children (set by cmd/C10; default: next to -out)
)

func c10ContainDir() string {
	if ContainDir != "" {
		return ContainDir
	}
	for i, a := range os.Args {
		if a == "-out" && i+1 < len(os.Args) {
			ContainDir = filepath.Join(os.Args[i+1], "contain")
		}
	}
	if ContainDir == "" {
		d, _ := os.MkdirTemp("", "verifh-contain")
		ContainDir = d
	}
	os.MkdirAll(ContainDir, 0o755)
	return ContainDir
}

func c10FreeAddr() string {
	l, err := net.Listen("tcp", "127.0.0.1:0")
	if err != nil {
		panic(err)
	}
	a := l.Addr().String()
	l.Close()
	return a
}

// Alive reports whether the child process still runs.
func (c *C10Child) Alive() bool {
	select {
	case <-c.done:
		return false
	default:
		return true
	}
}

// Death describes how the child ended: exit status and the first lines of a panic / fatal error.
func (c *C10Child) Death() string {
	s := c.stderr.String()
	i := strings.Index(s, "panic:")
	if j := strings.Index(s, "fatal error:"); j >= 0 && (i < 0 || j < i) {
		i = j
	}
	if i < 0 {
		i = 0
	}
	s = s[i:]
	lines := strings.Split(s, "\n")
	if len(lines) > 14 {
		lines = lines[:14]
	}
	return fmt.Sprintf("exit=%v stderr=%s", c.werr, strings.Join(lines, " | "))
}

func (c *C10Child) Kill() {
	if c.cmd != nil && c.cmd.Process != nil {
		c.cmd.Process.Kill()
		<-c.done
	}
}

// c10StartChild starts one server process and waits until it accepts connections.
func c10StartChild(kind, param string) (*C10Child, error) { return c10StartChildLimited(kind, param, 0) }

func c10StartChildLimited(kind, param string, limitMB int) (*C10Child, error) {
	return c10StartChildLimits(kind, param, limitMB, 0)
}

func c10StartChildLimits(kind, param string, limitMB, nofile int) (*C10Child, error) {
	// the binary lives in a cache directory that a concurrent bin/check may prune: re-execute the running image
	exe := "/proc/self/exe"
	if _, err := os.Stat(exe); err != nil {
		var err2 error
		if exe, err2 = os.Executable(); err2 != nil {
			return nil, err2
		}
	}
	for attempt := 0; attempt < 5; attempt++ {
		addr := c10FreeAddr()
		cwd := filepath.Join(c10ContainDir(), fmt.Sprintf("%s-%s-%d", kind, param, time.Now().UnixNano()))
		os.MkdirAll(cwd, 0o755)
		c := &C10Child{Kind: kind, Param: param, Addr: addr, Cwd: cwd, stderr: &c10LockedBuf{}, done: make(chan struct{})}
		c.cmd = exec.Command(exe)
		c.cmd.Env = append(os.Environ(), "VERIFH_C10_CHILD="+kind+","+addr+","+param, "VERIFH_C10_CHILD_CWD="+cwd,
			"VERIFH_C10_RLIMIT_MB="+strconv.Itoa(limitMB), "VERIFH_C10_NOFILE="+strconv.Itoa(nofile))
		c.cmd.Stderr = c.stderr
		c.cmd.SysProcAttr = &syscall.SysProcAttr{Pdeathsig: syscall.SIGKILL}
		if err := c.cmd.Start(); err != nil {
			return nil, err
		}
		go func() { c.werr = c.cmd.Wait(); close(c.done) }()
		deadline := time.Now().Add(10 * time.Second)
		for time.Now().Before(deadline) && c.Alive() {
			if conn, err := net.DialTimeout("tcp", addr, 200*time.Millisecond); err == nil {
				conn.Close()
				return c, nil
			}
			time.Sleep(20 * time.Millisecond)
		}
		c.Kill()
	}
	return nil, errors.New("child server did not come up")
}

// C10GetChild returns the running child of that kind (starting or restarting it when needed).
func C10GetChild(kind, param string) (*C10Child, error) {
	c10ChildMu.Lock()
	defer c10ChildMu.Unlock()
	key := kind + "," + param
	if c, ok := c10Children[key]; ok && c.Alive() {
		return c, nil
	}
	c, err := c10StartChild(kind, param)
	if err != nil {
		return nil, err
	}
	c10Children[key] = c
	return c, nil
}

// C10StopChildren kills every child (end of the run).
func C10StopChildren() {
	c10ChildMu.Lock()
	defer c10ChildMu.Unlock()
	for k, c := range c10Children {
		c.Kill()
		delete(c10Children, k)
	}
}

// ---------------------------------------------------------------- a client connection

type c10Cli struct {
	c      *net.TCPConn
	mu     sync.Mutex
	buf    []byte
	closed bool // EOF / reset seen
	reset  bool // the read ended with ECONNRESET (an RST), not with EOF (a FIN)
	rdone  chan struct{}
}

func c10Dial(addr string) (*c10Cli, error) {
	c, err := net.DialTimeout("tcp", addr, 3*time.Second)
	if err != nil {
		return nil, err
	}
	cc := &c10Cli{c: c.(*net.TCPConn), rdone: make(chan struct{})}
	cc.c.SetNoDelay(true)
	go func() {
		defer close(cc.rdone)
		b := make([]byte, 65536)
		for {
			n, err := cc.c.Read(b)
			cc.mu.Lock()
			cc.buf = append(cc.buf, b[:n]...)
			if err != nil {
				cc.closed = true
				cc.reset = errors.Is(err, syscall.ECONNRESET)
				cc.mu.Unlock()
				return
			}
			cc.mu.Unlock()
		}
	}()
	return cc, nil
}

func (cc *c10Cli) wasReset() bool { cc.mu.Lock(); defer cc.mu.Unlock(); return cc.reset }

func (cc *c10Cli) snapshot() ([]byte, bool) {
	cc.mu.Lock()
	defer cc.mu.Unlock()
	return append([]byte(nil), cc.buf...), cc.closed
}

// waitFor polls until pred(received bytes) holds, the server closed, or the timeout expires.
func (cc *c10Cli) waitFor(pred func([]byte) bool, timeout time.Duration) (data []byte, closed, ok bool) {
	deadline := time.Now().Add(timeout)
	for {
		data, closed = cc.snapshot()
		if pred(data) {
			return data, closed, true
		}
		if closed || time.Now().After(deadline) {
			return data, closed, false
		}
		time.Sleep(500 * time.Microsecond)
	}
}

func (cc *c10Cli) close(reset bool) {
	if reset {
		cc.c.SetLinger(0)
	}
	cc.c.Close()
	<-cc.rdone
}

// c10WholeFrames: the bytes are a sequence of complete frames (at least n of them)
func c10WholeFrames(b []byte, n int) bool {
	fs, ok := SplitFrames(b)
	return ok && len(fs) >= n
}

// c10Replies808: sorted "id.body" of every frame (platform serial dropped)
func c10Replies808(b []byte) string {
	fs, ok := SplitFrames(b)
	var out []string
	for _, f := range fs {
		m := jt808.NewJTMessage()
		if err := m.Decode(f); err != nil {
			out = append(out, "raw"+hex.EncodeToString(f))
			continue
		}
		out = append(out, fmt.Sprintf("%04x.%s", m.Header.ID, Hx(m.Body)))
	}
	if !ok {
		out = append(out, "partial")
	}
	sort.Strings(out)
	if len(out) == 0 {
		return "-"
	}
	return strings.Join(out, ",")
}

// c10ProbeAnswered: among the frames there is the general response to (serial, id)
func c10ProbeAnswered(b []byte, serial, id uint16) bool {
	fs, _ := SplitFrames(b)
	for _, f := range fs {
		m := jt808.NewJTMessage()
		if m.Decode(f) != nil || m.Header.ID != 0x8001 || len(m.Body) != 5 {
			continue
		}
		if uint16(m.Body[0])<<8|uint16(m.Body[1]) == serial && uint16(m.Body[2])<<8|uint16(m.Body[3]) == id {
			return true
		}
	}
	return false
}

// ContainTimeouts: how long a probe waits for an answer that is expected / for silence to be believed
var (
	ContainWaitAnswer  = 4 * time.Second
	ContainWaitSilence = 150 * time.Millisecond
)

// c10Expect808: does the real parser, fed the same reads in-process, deliver the probe frame (then its
// answer will come and is worth waiting for) or report an error (then the close will come)?  written = how many
// frames the writer goroutine will have produced for everything delivered so far (one per complete message of a
// registered type that HasReply, one echo per 0x8003): a WAIT TARGET only (the frames themselves are compared with
// the model's); the runner waits for that many frames instead of for a time to pass.
var c10Handles808 = c10ParseAllHandles()

func c10Expect808(segs [][]byte, probeSerial uint16) (answer, closing bool, written int) {
	v := service.NewVerifParser()
	for i, s := range segs {
		if len(s) == 0 {
			continue
		}
		var ms []*service.Message
		var err error
		func() {
			defer func() { recover() }()
			ms, err = v.Feed(append([]byte(nil), s...))
		}()
		if err != nil {
			return false, true, written
		}
		for _, m := range ms {
			h, ok := c10Handles808[m.Command]
			switch {
			case !ok:
			case m.Command == consts.P8003ReissueSubcontractingRequest:
				written++
			case (m.JTMessage.Header.SubPackageSum == 0 || m.ExtensionFields.SubcontractComplete) && h.HasReply():
				func() { // defaultReplyEvent writes nothing when ReplyBody fails (e.g. 0x0102 of a 2019 header, bad body)
					defer func() { recover() }()
					if _, err := h.ReplyBody(m.JTMessage); err == nil {
						written++
					}
				}()
			}
		}
		if i == len(segs)-1 {
			for _, m := range ms {
				if m.JTMessage.Header.SerialNumber == probeSerial {
					answer = true
				}
			}
		}
	}
	return answer, false, written
}

// c10ExpectAtt: the same for the attachment connection (VerifRun over a pipe, no file handler)
type c10NopEvent struct{}

func (c10NopEvent) OnEvent(*attachment.PackageProgress) {}

// written = how many bytes the connection will have written for everything sent so far (a wait target only)
func c10ExpectAtt(dialect int, segs [][]byte) (answer bool, written int) {
	if len(segs) == 0 {
		return false, 0
	}
	var pre [][]byte
	pre = append(pre, segs[:len(segs)-1]...)
	r1 := AttRun(dialect, pre, c10NopEvent{})
	r2 := AttRun(dialect, segs, c10NopEvent{})
	return len(r2.Wire) > len(r1.Wire), len(r2.Wire)
}

// ---------------------------------------------------------------- the op

// c10ContainOp plays the script; when an awaited answer did not come within the timeout although the process is
// alive (a stall of the machine: the default file handler fsyncs its log after every event), the script is played
// again on fresh connections, up to 3 times; only what persists is reported.
// C10LateAnswers counts answers that needed the long wait (a stall of the machine, not a replay).
var C10LateAnswers = map[string]int{}

// C10ClaimRepeats counts claims of a just-released key that came before the release (token U) and were repeated
var C10ClaimRepeats int

// C10WaitUnmet counts frame-count waits that ran into their bound (see c10Expect808)
var C10WaitUnmet int
var C10WaitUnmetSamples []string

func c10UnmetSample(x string) {
	if len(C10WaitUnmetSamples) < 12 {
		C10WaitUnmetSamples = append(C10WaitUnmetSamples, x)
	}
}

// patient waits for pred; when the normal timeout passes and the connection is still open it waits three times as
// long again ON THE SAME CONNECTION (nothing is replayed, a late answer is still this attempt's answer).
func (cc *c10Cli) patient(kind string, pred func([]byte) bool) (data []byte, closed, ok bool) {
	data, closed, ok = cc.waitFor(pred, ContainWaitAnswer)
	if ok || closed {
		return
	}
	data, closed, ok = cc.waitFor(pred, 3*ContainWaitAnswer)
	if ok {
		C10LateAnswers[kind]++
	}
	return
}

// What is replayed, and what is not.  (RST = the client's read ended with ECONNRESET; a FIN/EOF is never replayed.)  A missing or wrong answer is NEVER replayed: the well-behaved session, the accept
// check and the probes wait up to 16 s on their connection and what they then see is final.  Only two things make an
// attempt "suspect" and have the script played again on fresh connections (at most 3 attempts): a connection that got
// an RST without the bytes sent explaining it (ephemeral-port reuse on a machine doing thousands of connects), and a
// failed dial.  Every replay is counted (C10Transients; more than 10 in a run is itself a violation).
// A crash is never forgiven: an attempt during which the process died is final (suspect is cleared when the child is
// not alive).  Every replay is counted (C10Transients) and reported in the run's statistics.
var C10Transients = map[string]int{}

func c10ContainOp(kind string, a []string) string {
	var ans string
	for attempt := 0; attempt < 3; attempt++ {
		var suspect bool
		ans, suspect = c10ContainOnce(kind, a)
		if !suspect || strings.Contains(ans, "alive=0") {
			break
		}
		C10Transients[kind]++
		time.Sleep(300 * time.Millisecond)
	}
	return ans
}

func c10ContainOnce(kind string, a []string) (result string, suspect bool) {
	if len(a) < 1 {
		return "bad-args", false
	}
	param := a[0]
	child, err := C10GetChild(kind, param)
	if err != nil {
		return "no-child " + err.Error(), false
	}
	dialect := atoi(param)
	conns := map[int]*c10Cli{}
	sent := map[int][][]byte{}
	status := map[int]string{}
	var order []int
	var g []string
	acc := "-"
	fail := ""
	open := func(k int) *c10Cli {
		if c, ok := conns[k]; ok {
			return c
		}
		c, err := c10Dial(child.Addr)
		if err != nil {
			fail = "dial:" + strconv.Itoa(k)
			return nil
		}
		conns[k] = c
		if k != 0 {
			order = append(order, k)
			status[k] = "unobserved"
		}
		return c
	}
	gSeen := 0
	bgSent := 0
	var bgDone chan struct{}
	verify := ""
	xcheck := ""
	for _, tok := range a[1:] {
		if fail != "" {
			break
		}
		head, hx, _ := strings.Cut(tok, ":")
		var data []byte
		if hx != "" && head != "V" && head != "X" && head != "C" && head != "T" {
			data = Unhx(hx)
		}
		switch {
		case head == "G":
			c := open(0)
			if c == nil {
				break
			}
			c.c.Write(data)
			d, closedG, ok := c.patient(kind, func(b []byte) bool { return len(b) > gSeen && c10WholeFrames(b[gSeen:], 1) })
			if !ok {
				g = append(g, "none")
				if closedG && c.wasReset() {
					suspect = true // the good connection was RESET (a FIN - the server ended it - is final)
				}
			} else {
				// a little patience for further frames of the same answer (there are none in practice)
				g = append(g, Hx(d[gSeen:]))
			}
			gSeen = len(d)
		case head == "S":
			c := open(0)
			if c == nil {
				break
			}
			c.c.Write(data)
			time.Sleep(300 * time.Microsecond)
		case head == "C":
			// the well-behaved session streams these frames from its own goroutine while the script goes on
			c := open(0)
			if c == nil {
				break
			}
			var frames [][]byte // the pieces to write, one write each; those that are frames get an answer
			bgSent = 0
			for _, piece := range strings.Split(hx, ",") {
				b := Unhx(piece)
				if kind == "808" {
					fs, _ := SplitFrames(b)
					frames = append(frames, fs...)
					bgSent += len(fs)
				} else {
					frames = append(frames, b)
					if len(b) > 0 && b[0] == 0x7e {
						bgSent++
					}
				}
			}
			bgDone = make(chan struct{})
			go func() {
				defer close(bgDone)
				for _, f := range frames {
					c.c.Write(f)
					time.Sleep(150 * time.Microsecond)
				}
			}()
		case head == "J":
			// join the stream: every frame of it must have been answered
			c := open(0)
			if c == nil || bgDone == nil {
				break
			}
			<-bgDone
			d, closedG, ok := c.patient(kind, func(b []byte) bool { return len(b) > gSeen && c10WholeFrames(b[gSeen:], bgSent) })
			if !ok {
				g = append(g, "none")
				if closedG && c.wasReset() {
					suspect = true
				}
			} else {
				g = append(g, Hx(d[gSeen:]))
			}
			gSeen = len(d)
		case head == "V":
			// verify a file the default file handler must have stored for the well-behaved upload: close that
			// connection (SuccessQuit), then path-hex:content-hex relative to the server's working directory
			if c, ok := conns[0]; ok {
				c.close(false)
				delete(conns, 0)
			}
			path, content, _ := strings.Cut(hx, ":")
			want := Unhx(content)
			full := filepath.Join(child.Cwd, string(Unhx(path)))
			verify = "0"
			for t0 := time.Now(); time.Since(t0) < 12*time.Second; time.Sleep(2 * time.Millisecond) {
				if b, err := os.ReadFile(full); err == nil && bytes.Equal(b, want) {
					verify = "1"
					break
				}
			}
		case head == "X":
			// what is on disk at this path in the end: x=1 when it is exactly this content (polls up to 12 s for it)
			path, content, _ := strings.Cut(hx, ":")
			want := Unhx(content)
			full := filepath.Join(child.Cwd, string(Unhx(path)))
			hit := "0"
			wait := 12 * time.Second // polled: returns as soon as the content is there (as V)
			if xcheck != "" {
				wait = 50 * time.Millisecond // a later X judges the same final state
			}
			for t0 := time.Now(); time.Since(t0) < wait; time.Sleep(2 * time.Millisecond) {
				if b, err := os.ReadFile(full); err == nil && bytes.Equal(b, want) {
					hit = "1"
					break
				}
			}
			xcheck += hit
		case head == "T":
			time.Sleep(time.Duration(atoi(hx)) * time.Millisecond) // real time passes (thorough tier: the 60 s expiry over a socket)
		case head == "W":
			time.Sleep(60 * time.Millisecond) // let the server finish the teardown of a connection just closed
		case head == "A":
			c, err := c10Dial(child.Addr)
			if err != nil {
				acc = "refused"
				break
			}
			c.c.Write(data)
			d, closedA, ok := c.patient(kind, func(b []byte) bool { return c10WholeFrames(b, 1) })
			if ok {
				acc = Hx(d)
			} else {
				acc = "none"
				if closedA && c.wasReset() {
					suspect = true
				}
			}
			c.close(false)
		case head[0] == 'O':
			open(atoi(head[1:]))
		case head[0] == 'D':
			k := atoi(head[1:])
			c := open(k)
			if c == nil {
				break
			}
			c.c.Write(data)
			sent[k] = append(sent[k], data)
			time.Sleep(300 * time.Microsecond) // keep writes apart: one write = one read (loopback, TCP_NODELAY)
		case head[0] == 'F' || head[0] == 'R':
			k := atoi(head[1:])
			if c, ok := conns[k]; ok {
				c.close(head[0] == 'R')
				delete(conns, k)
				status[k] = "gone"
			}
		case head[0] == 'U' && kind == "808":
			// the NEW session of a key whose owner has just gone (F / R before).  The old connection's leave happens when
			// its reader sees the FIN / RST - asynchronously; a claim that arrives earlier is legitimately refused (closed).
			// So: dial, claim (a probe), wait for the answer or the close; a refused attempt is repeated on a fresh
			// connection until the claim is accepted - the observable event that the key was released - or 8 s passed
			// (a key that is never released is reported as k=closed).  No time wait decides anything.
			k := atoi(head[1:])
			_, _, _, pser, _, _ := Parse808(data)
			if _, seen := status[k]; !seen {
				order = append(order, k)
			}
			status[k] = "closed"
			for t0 := time.Now(); ; {
				if old, ok := conns[k]; ok {
					old.close(false)
					delete(conns, k)
				}
				c, err := c10Dial(child.Addr)
				if err != nil {
					fail = "dial:" + strconv.Itoa(k)
					break
				}
				conns[k] = c
				sent[k] = [][]byte{data}
				c.c.Write(data)
				d, closed, ok := c.waitFor(func(b []byte) bool { return c10ProbeAnswered(b, pser, 0x0002) }, 2*ContainWaitAnswer)
				if closed && time.Since(t0) < 2*ContainWaitAnswer {
					C10ClaimRepeats++
					time.Sleep(2 * time.Millisecond)
					continue
				}
				switch {
				case closed:
					if c.wasReset() {
						suspect = true
					}
				case ok:
					status[k] = "open:" + c10Replies808(d)
				default:
					status[k] = "quiet:" + c10Replies808(d)
				}
				break
			}
		case head[0] == 'P' || head[0] == 'Q': // Q = a probe whose connection the generator expects to be refused
			k := atoi(head[1:])
			c := open(k)
			if c == nil {
				break
			}
			sent[k] = append(sent[k], data)
			if kind == "808" {
				_, _, _, pser, _, _ := Parse808(data)
				answer, closing, written := c10Expect808(sent[k], pser)
				c.c.Write(data)
				wait := ContainWaitSilence
				if answer || closing {
					wait = ContainWaitAnswer
				}
				d, closed, ok := c.waitFor(func(b []byte) bool { return c10ProbeAnswered(b, pser, 0x0002) }, wait)
				if !ok && !closed && (answer || closing) { // expected and late: keep waiting on this connection, no replay
					if d, closed, ok = c.waitFor(func(b []byte) bool { return c10ProbeAnswered(b, pser, 0x0002) }, 3*ContainWaitAnswer); ok || closed {
						C10LateAnswers[kind]++
					}
				}
				if !closed && written > 0 {
					// what the writer still owes for the frames sent BEFORE the probe: the echo of a 0x8003 frame travels
					// on its own channel and may be written after the probe's answer; and when the probe is not answered
					// (swallowed by an open frame) nothing orders the earlier answers before the end of the silence
					// window.  Wait for the predicted NUMBER of frames (an observable), not for a time to pass.
					nf := func(b []byte) bool { fs, _ := SplitFrames(b); return len(fs) >= written }
					var met bool
					if d, closed, met = c.waitFor(nf, ContainWaitAnswer); !met && !closed {
						C10WaitUnmet++ // the prediction was too high (costs the wait, nothing else)
						c10UnmetSample(fmt.Sprintf("808 want=%d got=%s sent=%s", written, c10Replies808(d), Trunc(Hx(bytes.Join(sent[k], []byte{0xff, 0xff})), 400)))
					}
				}
				switch {
				case closed:
					status[k] = "closed"
					if !closing && head[0] != 'Q' && c.wasReset() {
						suspect = true // an RST not explained by the bytes sent: believed only when it persists (a FIN is final)
					}
				case ok:
					status[k] = "open:" + c10Replies808(d)
				default:
					status[k] = "quiet:" + c10Replies808(d)
				}
			} else {
				_, _, _, pser, _, _ := Parse808(data)
				answer, written := c10ExpectAtt(dialect, sent[k])
				c.c.Write(data)
				wait := ContainWaitSilence
				if answer {
					wait = ContainWaitAnswer
				}
				d, closed, ok := c.waitFor(func(b []byte) bool { return c10ProbeAnswered(b, pser, 0x1211) }, wait)
				if !ok && !closed && answer {
					if d, closed, ok = c.waitFor(func(b []byte) bool { return c10ProbeAnswered(b, pser, 0x1211) }, 3*ContainWaitAnswer); ok {
						C10LateAnswers[kind]++
					}
				}
				if !closed && !ok && len(d) < written {
					// the probe is not answered (swallowed): nothing orders the answers to the EARLIER frames before the
					// end of the silence window; wait for the predicted number of bytes, not for a time to pass
					var met bool
					if d, closed, met = c.waitFor(func(b []byte) bool { return len(b) >= written }, ContainWaitAnswer); !met && !closed {
						C10WaitUnmet++
						c10UnmetSample(fmt.Sprintf("att want=%d got=%s sent=%s", written, Hx(d), Trunc(Hx(bytes.Join(sent[k], []byte{0xff, 0xff})), 400)))
					}
				}
				switch {
				case closed:
					status[k] = "closed:" + Hx(d)
					if c.wasReset() {
						suspect = true // the attachment server never closes a connection; an RST is replayed, a FIN is final
					}
				case ok:
					status[k] = "open:" + Hx(d)
				default:
					status[k] = "quiet:" + Hx(d)
				}
			}
		default:
			fail = "token:" + tok
		}
	}
	for _, c := range conns {
		if suspect && kind == "808" {
			// this script will be played again with the same terminal numbers: end the write side and wait until the
			// SERVER has closed (its stop() leaves the registry before it closes the socket), so that the replay's
			// claims do not race with this attempt's leaves
			c.c.CloseWrite()
			c.waitFor(func([]byte) bool { return false }, 2*time.Second)
		}
		c.close(false)
	}
	time.Sleep(2 * time.Millisecond)
	alive := child.Alive()
	if fail != "" && alive {
		return "harness-fail " + fail, true
	}
	if !alive {
		suspect = false
	}
	var sb strings.Builder
	fmt.Fprintf(&sb, "ok alive=%d g=%s", b2i(alive), strings.Join(append([]string{}, g...), "/"))
	if len(g) == 0 {
		sb.WriteString("-")
	}
	for _, k := range order {
		fmt.Fprintf(&sb, " k%d=%s", k, status[k])
	}
	fmt.Fprintf(&sb, " a=%s", acc)
	if verify != "" {
		fmt.Fprintf(&sb, " v=%s", verify)
	}
	if xcheck != "" {
		fmt.Fprintf(&sb, " x=%s", xcheck)
	}
	if !alive {
		fmt.Fprintf(&sb, " death=%q", child.Death())
	}
	return sb.String(), suspect
}

// contain808mem <limit MB> <n>: a FRESH JT808 server under an address-space limit (ulimit -v); one hostile
// connection sends n 20-byte frames "packet 1 of 65535", each for another message id (completePack allocates a
// 65535-slot table per id and keeps it for 60 s); then the good session and a new connection are served.
// The model does not see memory: this op exists on the implementation side only (direct oracle, thorough tier).
func c10MemOp(a []string) string {
	if len(a) < 2 {
		return "bad-args"
	}
	limit, n := atoi(a[0]), atoi(a[1])
	child, err := c10StartChildLimited("808", "0", limit)
	if err != nil {
		return "no-child " + err.Error()
	}
	defer child.Kill()
	gb := []byte{0x01, 0x38, 0x00, 0x13, 0x80, 0x01}
	good, err := c10Dial(child.Addr)
	if err != nil {
		time.Sleep(50 * time.Millisecond)
		return "no-dial " + err.Error() + " " + child.Death()
	}
	defer good.close(false)
	res := "ok"
	hb := func(ser uint16, plat uint16) bool {
		before, _ := good.snapshot()
		good.c.Write(Frame808(0x0002, false, gb, ser, nil))
		want := Frame808(0x8001, false, gb, plat, []byte{byte(ser >> 8), byte(ser), 0, 2, 0})
		d, _, ok := good.waitFor(func(b []byte) bool { return len(b) >= len(before)+len(want) }, ContainWaitAnswer)
		return ok && bytes.Equal(d[len(before):], want)
	}
	g1 := hb(1, 0)
	h, err := c10Dial(child.Addr)
	if err != nil {
		time.Sleep(50 * time.Millisecond)
		return fmt.Sprintf("ok alive=%d g1=%d g2=0 a=0 death=%q", b2i(child.Alive()), b2i(g1), err.Error()+" "+child.Death())
	}
	hp := []byte{0x01, 0x38, 0x00, 0x13, 0x80, 0x02}
	var batch []byte
	for i := 0; i < n && child.Alive(); i++ {
		f := FrameSpec{ID: uint16(0x4000 + i), Phone: hp, Serial: uint16(i), Frag: true, Sum: 65535, No: 1, Body: []byte{1}}.Wire()
		batch = append(batch, f...)
		if len(batch) > 900 {
			h.c.SetWriteDeadline(time.Now().Add(5 * time.Second))
			if _, err := h.c.Write(batch); err != nil {
				break
			}
			batch = batch[:0]
		}
	}
	h.c.Write(batch)
	time.Sleep(time.Duration(300+n/4) * time.Millisecond)
	g2 := child.Alive() && hb(2, 1)
	acc := false
	if child.Alive() {
		if c, err := c10Dial(child.Addr); err == nil {
			ab := []byte{0x01, 0x38, 0x00, 0x13, 0x80, 0x03}
			c.c.Write(Frame808(0x0002, false, ab, 7, nil))
			_, _, acc = c.waitFor(func(b []byte) bool { return c10WholeFrames(b, 1) }, ContainWaitAnswer)
			c.close(false)
		}
	}
	vm := ""
	if st, err := os.ReadFile(fmt.Sprintf("/proc/%d/status", child.cmd.Process.Pid)); err == nil {
		for _, l := range strings.Split(string(st), "\n") {
			if strings.HasPrefix(l, "VmSize:") || strings.HasPrefix(l, "VmRSS:") {
				vm += " " + strings.Join(strings.Fields(l), "")
			}
		}
	}
	h.close(false)
	time.Sleep(20 * time.Millisecond)
	alive := child.Alive()
	res += fmt.Sprintf(" alive=%d g1=%d g2=%d a=%d", b2i(alive), b2i(g1), b2i(g2), b2i(acc))
	if os.Getenv("VERIFH_C10_SHOWVM") != "" {
		res += vm
	}
	if !alive {
		res += fmt.Sprintf(" death=%q", child.Death())
	}
	return res
}

// c10ServedOp: is a fresh connection to the child accepted and answered (808: heartbeat; att: 0x1211)?
func c10Served(child *C10Child, kind string, ser uint16, wait time.Duration) bool {
	c, err := c10Dial(child.Addr)
	if err != nil {
		return false
	}
	defer c.close(false)
	bcd := []byte{0x01, 0x39, 0x00, 0x00, byte(ser >> 8), byte(ser)}
	if kind == "att" {
		c.c.Write(Frame808(0x1211, false, bcd, ser, Body1211([]byte("served"), 0, 1)))
	} else {
		c.c.Write(Frame808(0x0002, false, bcd, ser, nil))
	}
	_, _, ok := c.waitFor(func(b []byte) bool { return c10WholeFrames(b, 1) }, wait)
	return ok
}

// containfd <808|att> <nofile> <n> <mode>: a FRESH server under a descriptor limit; n connections are opened one
// after the other, each sends one fatal frame (mode "fatal"), nothing (mode "empty") and is CLOSED by the client;
// then a new connection must be accepted and answered within 4 s (implementation side only, thorough tier).
func c10FdOp(a []string) string {
	if len(a) < 4 {
		return "bad-args"
	}
	kind, nofile, n, mode := a[0], atoi(a[1]), atoi(a[2]), a[3]
	param := "0"
	if kind == "att" {
		param = "1"
	}
	child, err := c10StartChildLimits(kind, param, 0, nofile)
	if err != nil {
		return "no-child " + err.Error()
	}
	defer child.Kill()
	first := c10Served(child, kind, 1, ContainWaitAnswer)
	refused := 0
	for i := 0; i < n && child.Alive(); i++ {
		c, err := net.DialTimeout("tcp", child.Addr, time.Second)
		if err != nil {
			refused++
			continue
		}
		if mode == "fatal" {
			c.Write(Frame808(0x7777, false, []byte{1, 2, 3, 4, 5, 6}, uint16(i), []byte{1, 2, 3})) // unknown id: fatal on the attachment server
			time.Sleep(200 * time.Microsecond)
		}
		c.Close()
	}
	t0 := time.Now()
	served := false
	for time.Since(t0) < 6*time.Second && child.Alive() {
		if c10Served(child, kind, 2, time.Second) {
			served = true
			break
		}
		time.Sleep(100 * time.Millisecond)
	}
	return fmt.Sprintf("ok alive=%d first=%d served=%d after_ms=%d dial_refused=%d", b2i(child.Alive()), b2i(first), b2i(served),
		time.Since(t0).Milliseconds(), refused)
}

// containbuf <808|att> <limit MB> <send MB>: a FRESH server under an address-space limit; ONE connection sends
// bytes the server can only buffer (808: a stream that does not start with 7e; attachment: a chunk header
// announcing 4 GiB followed by data); then a new connection must still be served.
func c10BufOp(a []string) string {
	if len(a) < 3 {
		return "bad-args"
	}
	kind, limit, mb := a[0], atoi(a[1]), atoi(a[2])
	param := "0"
	if kind == "att" {
		param = "1"
	}
	child, err := c10StartChildLimited(kind, param, limit)
	if err != nil {
		return "no-child " + err.Error()
	}
	defer child.Kill()
	first := c10Served(child, kind, 1, ContainWaitAnswer)
	h, err := net.DialTimeout("tcp", child.Addr, time.Second)
	if err != nil {
		return "no-dial"
	}
	if kind == "att" {
		h.Write(ChunkHead(1, []byte("big"), 0, 0xffffffff))
	}
	block := bytes.Repeat([]byte{0x41}, 1<<20)
	sent := 0
	for i := 0; i < mb && child.Alive(); i++ {
		h.SetWriteDeadline(time.Now().Add(5 * time.Second))
		if _, err := h.Write(block); err != nil {
			break
		}
		sent++
	}
	time.Sleep(300 * time.Millisecond)
	served := child.Alive() && c10Served(child, kind, 2, ContainWaitAnswer)
	h.Close()
	time.Sleep(20 * time.Millisecond)
	res := fmt.Sprintf("ok alive=%d first=%d served=%d sent_mb=%d", b2i(child.Alive()), b2i(first), b2i(served), sent)
	if !child.Alive() {
		res += fmt.Sprintf(" death=%q", child.Death())
	}
	return res
}

// parse808age f:<hex> | a:<ms> ... : the JT808 parser of ONE connection (service.VerifParser: packageParse.parse unchanged)
// fed read by read with its clock advanced by a:<ms> (VerifParser.Age shifts the create / update times of the pending
// transfers back) - the 60 s expiry and the 5 s re-request cannot be waited for on a socket in the quick tier.  Per read:
// number of delivered messages and the error flag; a panic (which in the server is the death of the process, the parser
// runs in the reader goroutine) ends the script.  Model side: Server.parse_chk with the same clock.
func c10ParseAgeOp(a []string) string {
	v := service.NewVerifParser()
	var out []string
	for _, tok := range a {
		head, arg, _ := strings.Cut(tok, ":")
		switch head {
		case "a":
			v.Age(time.Duration(atoi(arg)) * time.Millisecond)
		case "f":
			res := func() (r string) {
				defer func() {
					if x := recover(); x != nil {
						r = "panic"
					}
				}()
				ms, err := v.Feed(Exact(Unhx(arg)))
				return fmt.Sprintf("n=%d,e=%d", len(ms), b2i(err != nil))
			}()
			out = append(out, res)
			if res == "panic" {
				return "ok " + strings.Join(out, " ")
			}
		}
	}
	return "ok " + strings.Join(out, " ")
}

func c10RSSkB(pid int) int {
	st, err := os.ReadFile(fmt.Sprintf("/proc/%d/status", pid))
	if err != nil {
		return -1
	}
	for _, l := range strings.Split(string(st), "\n") {
		if strings.HasPrefix(l, "VmRSS:") {
			f := strings.Fields(l)
			if len(f) >= 2 {
				return atoi(f[1])
			}
		}
	}
	return -1
}

// containgrow <808|att> <MB>: the cheap (quick-tier) witness of the unbounded per-connection buffer: a FRESH server with no
// limit, ONE connection sends <MB> megabytes the server can only buffer, and the resident memory of the process is read
// before and after; held_mb = how much it grew.  (The thorough tier's containbuf lets the same growth hit an
// address-space limit and kill the process.)  Implementation side only.
func c10GrowOp(a []string) string {
	if len(a) < 2 {
		return "bad-args"
	}
	kind, mb := a[0], atoi(a[1])
	param := "0"
	if kind == "att" {
		param = "1"
	}
	child, err := c10StartChild(kind, param)
	if err != nil {
		return "no-child " + err.Error()
	}
	defer child.Kill()
	first := c10Served(child, kind, 1, ContainWaitAnswer)
	before := c10RSSkB(child.cmd.Process.Pid)
	h, err := net.DialTimeout("tcp", child.Addr, time.Second)
	if err != nil {
		return "no-dial"
	}
	defer h.Close()
	if kind == "att" {
		h.Write(ChunkHead(1, []byte("big"), 0, 0xffffffff))
	}
	block := bytes.Repeat([]byte{0x41}, 1<<20)
	sent := 0
	for i := 0; i < mb && child.Alive(); i++ {
		h.SetWriteDeadline(time.Now().Add(5 * time.Second))
		if _, err := h.Write(block); err != nil {
			break
		}
		sent++
	}
	grew := 0
	for t0 := time.Now(); time.Since(t0) < 3*time.Second; time.Sleep(20 * time.Millisecond) {
		if after := c10RSSkB(child.cmd.Process.Pid); after >= 0 && before >= 0 {
			grew = (after - before) / 1024
			if grew >= sent*3/4 {
				break
			}
		}
	}
	served := child.Alive() && c10Served(child, kind, 2, ContainWaitAnswer)
	return fmt.Sprintf("ok alive=%d first=%d served=%d sent_mb=%d held_mb=%d", b2i(child.Alive()), b2i(first), b2i(served), sent, grew)
}

// C10Long is a well-behaved session that stays open across many scripts (direct oracle only): every Ping sends
// one frame and requires the prescribed general response with the next platform serial.
type C10Long struct {
	Kind, Param string
	child       *C10Child
	cli         *c10Cli
	bcd         []byte
	ser, plat   uint16
	seen        int
}

func C10LongOpen(kind, param string, bcd []byte) *C10Long {
	return &C10Long{Kind: kind, Param: param, bcd: bcd}
}

// Ping returns "" when the session was served correctly, "reopened" when the server process had been replaced
// (its crash is reported by the script that caused it), else what went wrong.
func (l *C10Long) Ping() string {
	child, err := C10GetChild(l.Kind, l.Param)
	if err != nil {
		return "no child: " + err.Error()
	}
	note := ""
	if l.child != child || l.cli == nil {
		if l.cli != nil {
			l.cli.close(false)
		}
		cli, err := c10Dial(child.Addr)
		if err != nil {
			return "dial: " + err.Error()
		}
		if l.child != nil {
			note = "reopened"
			l.bcd = append([]byte{}, l.bcd...)
			l.bcd[len(l.bcd)-1] ^= 0x11 // a new terminal number: the old key may still be registered
		}
		l.child, l.cli, l.ser, l.plat, l.seen = child, cli, 0, 0, 0
	}
	l.ser++
	id := uint16(0x0002)
	var body []byte
	if l.Kind == "att" {
		id, body = 0x1211, Body1211([]byte("long"), 0, 1)
	}
	l.cli.c.Write(Frame808(id, false, l.bcd, l.ser, body))
	want := Frame808(0x8001, false, l.bcd, l.plat, []byte{byte(l.ser >> 8), byte(l.ser), byte(id >> 8), byte(id), 0})
	d, closed, ok := l.cli.waitFor(func(b []byte) bool { return len(b) >= l.seen+len(want) }, 3*ContainWaitAnswer)
	got := d[l.seen:]
	l.seen = len(d)
	l.plat++
	if !ok || !bytes.Equal(got, want) {
		if !child.Alive() {
			return "reopened" // the process died: reported by the script that killed it
		}
		return fmt.Sprintf("long-lived session: sent serial %d, closed=%v, got %s, want %s", l.ser, closed, Hx(got), Hx(want))
	}
	return note
}

// C10LastDeath returns the death notice contained in an answer line ("" when the child survived).
func C10LastDeath(ans string) string {
	if i := strings.Index(ans, " death="); i >= 0 {
		return ans[i+7:]
	}
	return ""
}

var _ = io.EOF

package lib

// Ops on message bodies (C03 / C07): every exported message type of protocol/model outside the
// location family, the helpers of protocol/utils, jt808 frame Decode on a reused JTMessage and
// jt1078 Decode on a reused Packet.  Each op runs the REAL code on exact-capacity copies under
// recover() and prints a canonical answer; oracle/drv_c03.ml / drv_c07.ml print the same answer from
// the extracted Coq model.
//
//	bparse <T> <ver> <dialect> <hex>             fresh receiver: "ok <dump>" | "err" | "panic"
//	bseq   <T> <dialect> <ver1>:<hex1> ... <verN>:<hexN>  ONE receiver parses all bodies in order (each with its
//	                                             own header version); answer of the last
//	brt    <T> <ver> <dialect> <hex>             parse (fresh) then Encode: "ok <dump> enc=<hex>"
//	bseqrt <T> <dialect> <ver1>:<hex1> ...       ONE receiver: parse then Encode after each body; answer of the last
//	benc   <T> <ver> <dialect> <tree> [g=..]     build the value from the dump syntax, Encode, Parse back:
//	                                             "enc=<hex> back=<answer of bparse> wf=1"
//	time2bcd <hex of text> | bcd2time <hex> | bcd2dec <hex> | fill <hex of text> <n>
//	decodeseq <frame1> ... <frameN>              ONE JTMessage decodes all frames; answer of the last
//	jt1078 <hex> | jt1078seq <hex1> ... <hexN>   as in C17, the seq variant reuses ONE Packet
//
// dump syntax (declaration order, BaseHandle / unexported / func fields skipped):
//	number -> lowercase hex; string, []byte, [n]byte -> "x"+hex; struct, slice, map (by ascending key) -> "(a,b,...)"
//
// <ver> is Header.ProtocolVersion (1 = 2011, 2 = 2013, 3 = 2019), <dialect> the consts.ActiveSafetyType
// (0 unset, 1 JS, 2 HLJ, 3 GD, 4 HN, 5 SC, 6 BJ) stored in the receiver before Parse where the type has one.
// The optional g=<in>:<out>,... argument tells the model how the external GBK codec maps the non-ASCII
// text segments of this case (ignored here: the real library is called).

import (
	"encoding/hex"
	"errors"
	"fmt"
	"reflect"
	"sort"
	"strconv"
	"strings"

	"github.com/cuteLittleDevil/go-jt808/protocol/jt1078"
	"github.com/cuteLittleDevil/go-jt808/protocol/jt808"
	"github.com/cuteLittleDevil/go-jt808/protocol/model"
	"github.com/cuteLittleDevil/go-jt808/protocol/utils"
	"github.com/cuteLittleDevil/go-jt808/shared/consts"
)

type BodyHandler interface {
	Parse(*jt808.JTMessage) error
	Encode() []byte
	String() string
}

type BodyType struct {
	Name    string
	New     func(d consts.ActiveSafetyType) BodyHandler
	TwoWay  bool // has a real Encode (C07)
	VerDep  bool // Parse looks at Header.ProtocolVersion
	DialDep bool // Parse looks at the receiver's ActiveSafetyType
	Gbk     bool // converts text through the external GBK codec
	MaxLen  int  // largest guard constant: lengths 0..MaxLen+3 are enumerated
}

func plain(f func() BodyHandler) func(consts.ActiveSafetyType) BodyHandler {
	return func(consts.ActiveSafetyType) BodyHandler { return f() }
}

// BodyTypes: every exported message type outside the location family (t_0x0200*, t_0x0704, t_0x0801).
var BodyTypes = []*BodyType{
	{Name: "T0x0001", New: plain(func() BodyHandler { return &model.T0x0001{} }), TwoWay: true, MaxLen: 5},
	{Name: "T0x0002", New: plain(func() BodyHandler { return &model.T0x0002{} }), TwoWay: true, MaxLen: 0},
	{Name: "T0x0100", New: plain(func() BodyHandler { return &model.T0x0100{} }), TwoWay: true, VerDep: true, Gbk: true, MaxLen: 80},
	{Name: "T0x0102", New: plain(func() BodyHandler { return &model.T0x0102{} }), TwoWay: true, VerDep: true, MaxLen: 40},
	{Name: "T0x0104", New: plain(func() BodyHandler { return &model.T0x0104{} }), TwoWay: false, Gbk: true, MaxLen: 12},
	{Name: "T0x0800", New: plain(func() BodyHandler { return &model.T0x0800{} }), TwoWay: true, MaxLen: 8},
	{Name: "T0x0805", New: plain(func() BodyHandler { return &model.T0x0805{} }), TwoWay: true, MaxLen: 13},
	{Name: "T0x1003", New: plain(func() BodyHandler { return &model.T0x1003{} }), TwoWay: true, MaxLen: 10},
	{Name: "T0x1005", New: plain(func() BodyHandler { return &model.T0x1005{} }), TwoWay: true, MaxLen: 16},
	{Name: "T0x1205", New: plain(func() BodyHandler { return &model.T0x1205{} }), TwoWay: true, MaxLen: 62},
	{Name: "T0x1206", New: plain(func() BodyHandler { return &model.T0x1206{} }), TwoWay: true, MaxLen: 3},
	{Name: "T0x1210", New: func(d consts.ActiveSafetyType) BodyHandler {
		return &model.T0x1210{P9208AlarmSign: model.P9208AlarmSign{ActiveSafetyType: d}}
	}, TwoWay: true, DialDep: true, MaxLen: 110},
	{Name: "T0x1211", New: plain(func() BodyHandler { return &model.T0x1211{} }), TwoWay: true, MaxLen: 10},
	{Name: "T0x1212", New: plain(func() BodyHandler { return &model.T0x1212{} }), TwoWay: true, MaxLen: 10},
	{Name: "P0x8001", New: plain(func() BodyHandler { return &model.P0x8001{} }), TwoWay: true, MaxLen: 5},
	{Name: "P0x8003", New: plain(func() BodyHandler { return &model.P0x8003{} }), TwoWay: true, MaxLen: 9},
	{Name: "P0x8100", New: plain(func() BodyHandler { return &model.P0x8100{} }), TwoWay: true, MaxLen: 6},
	{Name: "P0x8103", New: plain(func() BodyHandler { return &model.P0x8103{} }), TwoWay: true, Gbk: true, MaxLen: 12},
	{Name: "P0x8104", New: plain(func() BodyHandler { return &model.P0x8104{} }), TwoWay: true, MaxLen: 0},
	{Name: "P0x8800", New: plain(func() BodyHandler { return &model.P0x8800{} }), TwoWay: true, MaxLen: 9},
	{Name: "P0x8801", New: plain(func() BodyHandler { return &model.P0x8801{} }), TwoWay: true, MaxLen: 12},
	{Name: "P0x9003", New: plain(func() BodyHandler { return &model.P0x9003{} }), TwoWay: true, MaxLen: 0},
	{Name: "P0x9101", New: plain(func() BodyHandler { return &model.P0x9101{} }), TwoWay: true, MaxLen: 12},
	{Name: "P0x9102", New: plain(func() BodyHandler { return &model.P0x9102{} }), TwoWay: true, MaxLen: 4},
	{Name: "P0x9105", New: plain(func() BodyHandler { return &model.P0x9105{} }), TwoWay: true, MaxLen: 2},
	{Name: "P0x9201", New: plain(func() BodyHandler { return &model.P0x9201{} }), TwoWay: true, MaxLen: 26},
	{Name: "P0x9202", New: plain(func() BodyHandler { return &model.P0x9202{} }), TwoWay: true, MaxLen: 9},
	{Name: "P0x9205", New: plain(func() BodyHandler { return &model.P0x9205{} }), TwoWay: true, MaxLen: 24},
	{Name: "P0x9206", New: plain(func() BodyHandler { return &model.P0x9206{} }), TwoWay: true, MaxLen: 34},
	{Name: "P0x9207", New: plain(func() BodyHandler { return &model.P0x9207{} }), TwoWay: true, MaxLen: 3},
	{Name: "P0x9208", New: func(d consts.ActiveSafetyType) BodyHandler {
		return &model.P0x9208{P9208AlarmSign: model.P9208AlarmSign{ActiveSafetyType: d}}
	}, TwoWay: true, DialDep: true, MaxLen: 80},
	{Name: "P0x9212", New: plain(func() BodyHandler { return &model.P0x9212{} }), TwoWay: true, MaxLen: 20},
}

// LocBodyTypes: the location family (C07 only: its encoders write the 28-byte block; C03/C08 have their own ops).
var LocBodyTypes = []*BodyType{
	{Name: "T0x0200", New: plain(func() BodyHandler { return &model.T0x0200{} }), TwoWay: true, MaxLen: 28},
	{Name: "T0x0704", New: plain(func() BodyHandler { return &model.T0x0704{} }), TwoWay: true, MaxLen: 31},
	{Name: "T0x0801", New: plain(func() BodyHandler { return &model.T0x0801{} }), TwoWay: true, MaxLen: 36},
}

func BodyTypeByName(n string) *BodyType {
	for _, t := range BodyTypes {
		if t.Name == n {
			return t
		}
	}
	for _, t := range LocBodyTypes {
		if t.Name == n {
			return t
		}
	}
	return nil
}

// ---------------------------------------------------------------- canonical dump (reflection)

var baseHandleType = reflect.TypeOf(model.BaseHandle{})

func DumpValue(v reflect.Value) string {
	var sb strings.Builder
	dumpInto(&sb, v)
	return sb.String()
}

func dumpInto(sb *strings.Builder, v reflect.Value) {
	switch v.Kind() {
	case reflect.Ptr, reflect.Interface:
		if v.IsNil() {
			sb.WriteString("nil")
			return
		}
		dumpInto(sb, v.Elem())
	case reflect.Uint8, reflect.Uint16, reflect.Uint32, reflect.Uint64, reflect.Uint:
		sb.WriteString(strconv.FormatUint(v.Uint(), 16))
	case reflect.Int, reflect.Int8, reflect.Int16, reflect.Int32, reflect.Int64:
		sb.WriteString(strconv.FormatInt(v.Int(), 16))
	case reflect.Bool:
		if v.Bool() {
			sb.WriteString("1")
		} else {
			sb.WriteString("0")
		}
	case reflect.String:
		sb.WriteString("x" + hex.EncodeToString([]byte(v.String())))
	case reflect.Slice, reflect.Array:
		if v.Type().Elem().Kind() == reflect.Uint8 {
			b := make([]byte, v.Len())
			for i := range b {
				b[i] = byte(v.Index(i).Uint())
			}
			sb.WriteString("x" + hex.EncodeToString(b))
			return
		}
		sb.WriteByte('(')
		for i := 0; i < v.Len(); i++ {
			if i > 0 {
				sb.WriteByte(',')
			}
			dumpInto(sb, v.Index(i))
		}
		sb.WriteByte(')')
	case reflect.Map:
		keys := v.MapKeys()
		sort.Slice(keys, func(i, j int) bool { return keys[i].Uint() < keys[j].Uint() })
		sb.WriteByte('(')
		for i, k := range keys {
			if i > 0 {
				sb.WriteByte(',')
			}
			dumpInto(sb, v.MapIndex(k))
		}
		sb.WriteByte(')')
	case reflect.Struct:
		sb.WriteByte('(')
		first := true
		t := v.Type()
		for i := 0; i < v.NumField(); i++ {
			f := t.Field(i)
			if f.Type == baseHandleType || f.Type.Kind() == reflect.Func || !f.IsExported() {
				continue
			}
			if !first {
				sb.WriteByte(',')
			}
			first = false
			dumpInto(sb, v.Field(i))
		}
		sb.WriteByte(')')
	default:
		sb.WriteString("?" + v.Kind().String())
	}
}

func DumpHandler(h BodyHandler) string { return DumpValue(reflect.ValueOf(h)) }

// ---- the reverse direction: fill a value from the dump syntax

type tree struct {
	leaf string
	kids []*tree
	list bool
}

func parseTree(s string, pos *int) *tree {
	if *pos < len(s) && s[*pos] == '(' {
		*pos++
		t := &tree{list: true}
		if s[*pos] == ')' {
			*pos++
			return t
		}
		for {
			t.kids = append(t.kids, parseTree(s, pos))
			if s[*pos] == ',' {
				*pos++
				continue
			}
			if s[*pos] == ')' {
				*pos++
				return t
			}
			panic("bad tree at " + strconv.Itoa(*pos))
		}
	}
	st := *pos
	for *pos < len(s) && s[*pos] != ',' && s[*pos] != ')' {
		*pos++
	}
	return &tree{leaf: s[st:*pos]}
}

func leafBytes(t *tree) []byte {
	if !strings.HasPrefix(t.leaf, "x") {
		panic("expected bytes leaf: " + t.leaf)
	}
	b, err := hex.DecodeString(t.leaf[1:])
	if err != nil {
		panic(err)
	}
	return b
}

func fillFromTree(v reflect.Value, t *tree) {
	switch v.Kind() {
	case reflect.Ptr:
		fillFromTree(v.Elem(), t)
	case reflect.Uint8, reflect.Uint16, reflect.Uint32, reflect.Uint64, reflect.Uint:
		n, err := strconv.ParseUint(t.leaf, 16, 64)
		if err != nil {
			panic(err)
		}
		v.SetUint(n)
	case reflect.Bool:
		v.SetBool(t.leaf == "1")
	case reflect.String:
		v.SetString(string(leafBytes(t)))
	case reflect.Slice:
		if v.Type().Elem().Kind() == reflect.Uint8 {
			v.SetBytes(leafBytes(t))
			return
		}
		s := reflect.MakeSlice(v.Type(), len(t.kids), len(t.kids))
		for i, k := range t.kids {
			fillFromTree(s.Index(i), k)
		}
		if len(t.kids) == 0 {
			s = reflect.Zero(v.Type())
		}
		v.Set(s)
	case reflect.Array:
		b := leafBytes(t)
		for i := 0; i < v.Len() && i < len(b); i++ {
			v.Index(i).SetUint(uint64(b[i]))
		}
	case reflect.Map:
		m := reflect.MakeMap(v.Type())
		for _, k := range t.kids {
			e := reflect.New(v.Type().Elem()).Elem()
			fillFromTree(e, k)
			m.SetMapIndex(e.FieldByName("ID"), e)
		}
		v.Set(m)
	case reflect.Struct:
		ty := v.Type()
		j := 0
		for i := 0; i < v.NumField(); i++ {
			f := ty.Field(i)
			if f.Type == baseHandleType || f.Type.Kind() == reflect.Func || !f.IsExported() {
				continue
			}
			if j >= len(t.kids) {
				panic("tree too short for " + ty.Name())
			}
			fillFromTree(v.Field(i), t.kids[j])
			j++
		}
	default:
		panic("fill: unsupported kind " + v.Kind().String())
	}
}

// ---------------------------------------------------------------- running the real code

func mkMsg(ver int, body []byte) *jt808.JTMessage {
	m := jt808.NewJTMessage()
	m.Header.ProtocolVersion = consts.ProtocolVersionType(ver)
	m.Body = body
	return m
}

// ParseInto: one Parse call under recover. outcome: "ok" | "err" | "panic".
func ParseInto(h BodyHandler, ver int, body []byte) (outcome string) {
	defer func() {
		if r := recover(); r != nil {
			outcome = "panic"
		}
	}()
	if err := h.Parse(mkMsg(ver, body)); err != nil {
		return "err"
	}
	return "ok"
}

func safeDump(h BodyHandler) (s string) {
	defer func() {
		if r := recover(); r != nil {
			s = "dump-panic"
		}
	}()
	return DumpHandler(h)
}

// BodyParse: fresh receiver, exact-capacity copy.
func BodyParse(t *BodyType, ver, dial int, body []byte) string {
	h := t.New(consts.ActiveSafetyType(dial))
	o := ParseInto(h, ver, Exact(body))
	if o != "ok" {
		return o
	}
	return "ok " + safeDump(h)
}

// VerBody: one body with the header version it arrives under.
type VerBody struct {
	Ver  int
	Body []byte
}

func (v VerBody) String() string { return strconv.Itoa(v.Ver) + ":" + Hx(v.Body) }

// BodyParseSeq: one receiver parses every body in order (each an exact-capacity copy).
func BodyParseSeq(t *BodyType, dial int, bodies []VerBody) string {
	h := t.New(consts.ActiveSafetyType(dial))
	o := "ok"
	for _, b := range bodies {
		o = ParseInto(h, b.Ver, Exact(b.Body))
		if o == "panic" {
			return o
		}
	}
	if o != "ok" {
		return o
	}
	return "ok " + safeDump(h)
}

// BodyRoundTripSeq: ONE receiver parses every body in order and is encoded after each parse; the answer is that of
// the last step: "ok <dump> enc=<hex>" | "err" | "panic" (an earlier failing step does not stop the sequence: the
// server keeps the handler object either way).
func BodyRoundTripSeq(t *BodyType, dial int, bodies []VerBody) string {
	h := t.New(consts.ActiveSafetyType(dial))
	ans := "none"
	for _, b := range bodies {
		o := ParseInto(h, b.Ver, Exact(b.Body))
		if o != "ok" {
			ans = o
			continue
		}
		d := safeDump(h)
		e, p := SafeEncode(h)
		if p {
			ans = "ok " + d + " enc=panic"
		} else {
			ans = "ok " + d + " enc=" + Hx(e)
		}
	}
	return ans
}

func SafeEncode(h BodyHandler) (b []byte, panicked bool) {
	defer func() {
		if r := recover(); r != nil {
			b, panicked = nil, true
		}
	}()
	return h.Encode(), false
}

func SafeString(h BodyHandler) (s string, panicked bool) {
	defer func() {
		if r := recover(); r != nil {
			s, panicked = fmt.Sprint(r), true
		}
	}()
	return h.String(), false
}

func BodyRoundTrip(t *BodyType, ver, dial int, body []byte) string {
	h := t.New(consts.ActiveSafetyType(dial))
	o := ParseInto(h, ver, Exact(body))
	if o != "ok" {
		return o
	}
	d := safeDump(h)
	e, p := SafeEncode(h)
	if p {
		return "ok " + d + " enc=panic"
	}
	return "ok " + d + " enc=" + Hx(e)
}

// BuildValue: a receiver of type t filled from the dump syntax.
func BuildValue(t *BodyType, dial int, dump string) (h BodyHandler, err error) {
	defer func() {
		if r := recover(); r != nil {
			err = fmt.Errorf("%v", r)
		}
	}()
	h = t.New(consts.ActiveSafetyType(dial))
	pos := 0
	tr := parseTree(dump, &pos)
	fillFromTree(reflect.ValueOf(h), tr)
	return h, nil
}

func BodyEncodeValue(t *BodyType, ver, dial int, dump string) string {
	h, err := BuildValue(t, dial, dump)
	if err != nil {
		return "bad-value " + err.Error()
	}
	e, p := SafeEncode(h)
	if p {
		return "enc=panic"
	}
	// wf=1: the harness only ever sends values of the property's domain; the model answers with its own m_wf,
	// so a domain predicate that is narrower than the generators' domain shows up as a mismatch
	return "enc=" + Hx(e) + " back=" + BodyParse(t, ver, dial, e) + " wf=1"
}

// ---- frame / rtp on reused receivers

func FrameDecodeSeq(frames [][]byte) (ans string) {
	defer func() {
		if r := recover(); r != nil {
			ans = "panic"
		}
	}()
	m := jt808.NewJTMessage()
	for i, f := range frames {
		err := m.Decode(Exact(f))
		if i == len(frames)-1 {
			if err != nil {
				return ProtoErrCode(err)
			}
			return CanonMsg(m)
		}
	}
	return "none"
}

func Jt1078ErrCode(err error) string {
	switch {
	case errors.Is(err, jt1078.ErrHeaderLength2Short):
		return "err 1"
	case errors.Is(err, jt1078.ErrUnqualifiedData):
		return "err 2"
	case errors.Is(err, jt1078.ErrBodyLength2Short):
		return "err 3"
	}
	return "err ?" + err.Error()
}

func CanonPacket(p *jt1078.Packet, rest []byte) string {
	return fmt.Sprintf("ok v=%d p=%d x=%d cc=%d m=%d pt=%d seq=%d sim=%s ch=%d dt=%d sub=%d ts=%x ifi=%d fi=%d blen=%d body=%s rest=%s",
		p.Flag.V, p.Flag.P, p.Flag.X, p.Flag.CC, p.Flag.M, uint8(p.Flag.PT), p.Seq, p.Sim, p.LogicChannel,
		uint8(p.DataType), uint8(p.SubcontractType), p.Timestamp, p.LastIFrameInterval, p.LastFrameInterval,
		p.DataBodyLen, Hx(p.Body), Hx(rest))
}

// Jt1078DecodeSeq: ONE Packet decodes every input in order; answer of the last.
func Jt1078DecodeSeq(inputs [][]byte) (ans string) {
	defer func() {
		if r := recover(); r != nil {
			ans = "panic"
		}
	}()
	p := jt1078.NewPacket()
	ans = "none"
	for _, d := range inputs {
		rest, err := p.Decode(Exact(d))
		if err != nil {
			ans = Jt1078ErrCode(err)
		} else {
			ans = CanonPacket(p, rest)
		}
	}
	return ans
}

func unhxAll(a []string) [][]byte {
	out := make([][]byte, len(a))
	for i, s := range a {
		out[i] = Unhx(s)
	}
	return out
}

func safeStr(f func() string) (s string) {
	defer func() {
		if r := recover(); r != nil {
			s = "panic"
		}
	}()
	return f()
}

// ParamTable: the table the model calls param_fields, read off the REAL code at run time: the fields of
// TerminalParamDetails in declaration order (id from the field name T0x<id>, kind from the type parameter of its
// ParamContent), and for each whether parseParam has a typed case for the id (probe: a one-parameter body of the
// kind's width must land in that field and not in OtherContent).  "id:kind" joined by commas; kind 32 16 8 s b4 b8,
// or none for a declared field the parser never fills.
func ParamTable() string {
	var out []string
	d0 := reflect.TypeOf(model.TerminalParamDetails{})
	for i := 0; i < d0.NumField(); i++ {
		name := d0.Field(i).Name
		if len(name) < 6 || name[:3] != "T0x" {
			continue
		}
		id64, err := strconv.ParseUint(name[3:6], 16, 32)
		if err != nil {
			continue
		}
		vt, _ := d0.Field(i).Type.FieldByName("Value")
		kind, width := "?", 0
		switch vt.Type.Kind() {
		case reflect.Uint32:
			kind, width = "32", 4
		case reflect.Uint16:
			kind, width = "16", 2
		case reflect.Uint8:
			kind, width = "8", 1
		case reflect.String:
			kind, width = "s", 3
		case reflect.Array:
			kind, width = fmt.Sprintf("b%d", vt.Type.Len()), vt.Type.Len()
		}
		body := append([]byte{1, byte(id64 >> 24), byte(id64 >> 16), byte(id64 >> 8), byte(id64), byte(width)}, make([]byte, width)...)
		for k := 6; k < len(body); k++ {
			body[k] = 0x31
		}
		h := &model.P0x8103{}
		filled := false
		if ParseInto(h, 2, Exact(body)) == "ok" {
			f := reflect.ValueOf(h.TerminalParamDetails).Field(i)
			filled = f.FieldByName("ID").Uint() == id64 && f.FieldByName("Len").Uint() == uint64(width)
		}
		if !filled {
			kind = "none"
		}
		out = append(out, fmt.Sprintf("%x:%s", id64, kind))
	}
	return strings.Join(out, ",")
}

func init() {
	RegisterOp("ptable", func(a []string) string { return safeStr(ParamTable) })
	RegisterOp("bparse", func(a []string) string {
		return BodyParse(BodyTypeByName(a[0]), atoi(a[1]), atoi(a[2]), Unhx(a[3]))
	})
	RegisterOp("bseq", func(a []string) string {
		var vb []VerBody
		for _, x := range a[2:] {
			i := strings.IndexByte(x, ':')
			vb = append(vb, VerBody{atoi(x[:i]), Unhx(x[i+1:])})
		}
		return BodyParseSeq(BodyTypeByName(a[0]), atoi(a[1]), vb)
	})
	RegisterOp("bseqrt", func(a []string) string { // bseqrt <T> <dialect> <ver1>:<hex1> ... : reused receiver, parse + encode each
		var vb []VerBody
		for _, x := range a[2:] {
			i := strings.IndexByte(x, ':')
			vb = append(vb, VerBody{atoi(x[:i]), Unhx(x[i+1:])})
		}
		return BodyRoundTripSeq(BodyTypeByName(a[0]), atoi(a[1]), vb)
	})
	RegisterOp("brt", func(a []string) string {
		return BodyRoundTrip(BodyTypeByName(a[0]), atoi(a[1]), atoi(a[2]), Unhx(a[3]))
	})
	RegisterOp("benc", func(a []string) string {
		return BodyEncodeValue(BodyTypeByName(a[0]), atoi(a[1]), atoi(a[2]), a[3])
	})
	RegisterOp("time2bcd", func(a []string) string {
		return safeStr(func() string { return Hx(utils.Time2BCD(string(Unhx(a[0])))) })
	})
	RegisterOp("bcd2time", func(a []string) string {
		return safeStr(func() string { return Hx([]byte(utils.BCD2Time(Exact(Unhx(a[0]))))) })
	})
	RegisterOp("bcd2dec", func(a []string) string {
		return safeStr(func() string { return Hx([]byte(utils.Bcd2Dec(Exact(Unhx(a[0]))))) })
	})
	RegisterOp("fill", func(a []string) string {
		return safeStr(func() string { return Hx(utils.String2FillingBytes(string(Unhx(a[0])), atoi(a[1]))) })
	})
	RegisterOp("decodeseq", func(a []string) string { return FrameDecodeSeq(unhxAll(a)) })
	RegisterOp("jt1078seq", func(a []string) string { return Jt1078DecodeSeq(unhxAll(a)) })
	RegisterOp("jt1078", func(a []string) string { return Jt1078DecodeSeq(unhxAll(a[:1])) })
}

// CollectStrings appends every string field of a value (candidates for GBK conversion) to out.
func CollectStrings(h BodyHandler, out *[]string) { collectStrings(reflect.ValueOf(h), out) }

func collectStrings(v reflect.Value, out *[]string) {
	switch v.Kind() {
	case reflect.Ptr, reflect.Interface:
		if !v.IsNil() {
			collectStrings(v.Elem(), out)
		}
	case reflect.String:
		*out = append(*out, v.String())
	case reflect.Slice, reflect.Array:
		if v.Type().Elem().Kind() == reflect.Uint8 {
			return
		}
		for i := 0; i < v.Len(); i++ {
			collectStrings(v.Index(i), out)
		}
	case reflect.Map:
		for _, k := range v.MapKeys() {
			collectStrings(v.MapIndex(k), out)
		}
	case reflect.Struct:
		for i := 0; i < v.NumField(); i++ {
			if v.Type().Field(i).IsExported() {
				collectStrings(v.Field(i), out)
			}
		}
	}
}

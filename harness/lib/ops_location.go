package lib

// Implementation side of the location ops (C08 and the location part of C03): the real Parse / String
// methods of T0x0200, T0x0704, T0x0801 and of the five vendor extension handlers, run under recover()
// on exact-capacity copies (or inside a larger buffer with a given tail), and a canonical dump of the
// projected observables.  The OCaml driver oracle/drv_c08.ml prints the same text from the model.

import (
	"fmt"
	"reflect"
	"regexp"
	"sort"
	"strings"

	"github.com/cuteLittleDevil/go-jt808/protocol/jt808"
	"github.com/cuteLittleDevil/go-jt808/protocol/model"
	"github.com/cuteLittleDevil/go-jt808/shared/consts"
)

// WithTail returns b as a slice of a larger array whose bytes after len(b) are tail (cap = len+len(tail));
// an empty tail gives an exact-capacity copy.
func WithTail(b, tail []byte) []byte {
	buf := make([]byte, len(b)+len(tail))
	copy(buf, b)
	copy(buf[len(b):], tail)
	return buf[:len(b):len(buf)]
}

// FlagString renders the fields of a details struct in declaration order: bool -> 0/1, anything else -> 0.
func FlagString(v any) string {
	rv := reflect.ValueOf(v)
	var sb strings.Builder
	for i := 0; i < rv.NumField(); i++ {
		if rv.Field(i).Kind() == reflect.Bool && rv.Field(i).Bool() {
			sb.WriteByte('1')
		} else {
			sb.WriteByte('0')
		}
	}
	return sb.String()
}

var reTime = regexp.MustCompile(`\[([0-9a-f]*)\] 时间:`)
var reHead = regexp.MustCompile(`(?m)^\t[^\n]*:\[([0-9a-f]*)\]$`)

func hexOrDash(s string) string {
	if s == "" {
		return "-"
	}
	return s
}

// LocDump: the 28-byte block as parsed.
func LocDump(l *model.T0x0200LocationItem) string {
	return fmt.Sprintf("alarm=%d status=%d lat=%d lon=%d alt=%d speed=%d dir=%d time=%s af=%s sf=%s cargo=%d",
		l.AlarmSign, l.StatusSign, l.Latitude, l.Longitude, l.Altitude, l.Speed, l.Direction, Hx([]byte(l.DateTime)),
		FlagString(l.AlarmSignDetails), FlagString(l.StatusSignDetails), l.StatusSignDetails.Cargo)
}

func contentDump(c model.AdditionContent) string {
	var p []string
	add := func(k string, v uint64) {
		if v != 0 {
			p = append(p, fmt.Sprintf("%s=%d", k, v))
		}
	}
	if c.CustomValue != nil {
		p = append(p, "custom")
	}
	add("mile", uint64(c.Mile))
	add("oil", uint64(c.Oil))
	add("speed", uint64(c.Speed))
	add("manual", uint64(c.ManualAlarm))
	if len(c.TirePressure.Values) > 0 {
		ks := make([]int, 0)
		for k := range c.TirePressure.Values {
			ks = append(ks, int(k))
		}
		sort.Ints(ks)
		var t []string
		for _, k := range ks {
			t = append(t, fmt.Sprintf("%d.%d", k, c.TirePressure.Values[uint8(k)]))
		}
		p = append(p, "tire="+strings.Join(t, "+"))
	}
	add("temp", uint64(c.CarTemperature))
	add("os.ty", uint64(c.OverSpeedAlarm.LocationType))
	add("os.area", uint64(c.OverSpeedAlarm.AreaID))
	add("ar.ty", uint64(c.AreaAlarm.LocationType))
	add("ar.area", uint64(c.AreaAlarm.AreaID))
	add("ar.dir", uint64(c.AreaAlarm.Direction))
	add("dt.id", uint64(c.DrivingTimeInsufficientAlarm.RoadSectionID))
	add("dt.time", uint64(c.DrivingTimeInsufficientAlarm.RoadSectionDrivingTimeSecond))
	add("dt.res", uint64(c.DrivingTimeInsufficientAlarm.Result))
	add("ext.value", uint64(c.ExtendVehicleStatus.Value))
	if f := FlagString(c.ExtendVehicleStatus); strings.Contains(f, "1") {
		p = append(p, "ext.flags="+f)
	}
	add("io.value", uint64(c.IOStatus.Value))
	if f := FlagString(c.IOStatus); strings.Contains(f, "1") {
		p = append(p, "io.flags="+f)
	}
	add("analog", uint64(c.Analog))
	add("wifi", uint64(c.WIFISignalStrength))
	add("gnss", uint64(c.GNSSPositionNum))
	return strings.Join(p, ",")
}

// AddsDump: the Additions map sorted by id.
func AddsDump(m map[consts.JT808LocationAdditionType]model.Addition) string {
	ks := make([]int, 0, len(m))
	for k := range m {
		ks = append(ks, int(k))
	}
	sort.Ints(ks)
	var p []string
	for _, k := range ks {
		a := m[consts.JT808LocationAdditionType(k)]
		p = append(p, fmt.Sprintf("%d/%d:%d:%s:%s", k, a.ID, a.Len, Hx(a.Content.Data), contentDump(a.Content)))
	}
	return "adds=[" + strings.Join(p, ";") + "]"
}

func renderTimes(s string) string {
	var p []string
	for _, m := range reTime.FindAllStringSubmatch(s, -1) {
		p = append(p, hexOrDash(m[1]))
	}
	return strings.Join(p, ",")
}

func dump0200(t *model.T0x0200) string {
	s := t.String()
	_ = t.T0x0200AdditionDetails.String()
	return "ok " + LocDump(&t.T0x0200LocationItem) + " " + AddsDump(t.Additions) + " rt=" + renderTimes(s)
}

func dump0704(t *model.T0x0704) string {
	s := t.String()
	var p []string
	for i := range t.Items {
		it := &t.Items[i]
		_ = it.T0x0200AdditionDetails.String()
		p = append(p, fmt.Sprintf("len=%d %s %s", it.Len, LocDump(&it.T0x0200LocationItem), AddsDump(it.Additions)))
	}
	return fmt.Sprintf("ok num=%d type=%d items=[%s] rt=%s", t.Num, t.LocationType, strings.Join(p, " | "), renderTimes(s))
}

func dump0801(t *model.T0x0801) string {
	s := t.String()
	head := ""
	if m := reHead.FindStringSubmatch(s); m != nil {
		head = m[1]
	}
	return fmt.Sprintf("ok id=%d type=%d fmt=%d event=%d chan=%d %s pkg=%s r26=%s rt=%s", t.MultimediaID, t.MultimediaType,
		t.MultimediaFormatEncode, t.EventItemEncode, t.ChannelID, LocDump(&t.T0x0200LocationItem), Hx(t.MultimediaPackage),
		hexOrDash(head), renderTimes(s))
}

// LocParser is one reusable receiver of one of the three carrier messages.
type LocParser struct {
	Kind string // "0200" | "0704" | "0801"
	t200 model.T0x0200
	t704 model.T0x0704
	t801 model.T0x0801
}

// Parse runs the real Parse on body (already laid out by the caller: exact or with a tail) and dumps.
func (p *LocParser) Parse(body []byte) (ans string) {
	defer func() {
		if r := recover(); r != nil {
			ans = "panic"
		}
	}()
	msg := &jt808.JTMessage{Header: &jt808.Header{}, Body: body}
	switch p.Kind {
	case "0200":
		if err := p.t200.Parse(msg); err != nil {
			return ProtoErrCode(err)
		}
		return dump0200(&p.t200)
	case "0704":
		if err := p.t704.Parse(msg); err != nil {
			return ProtoErrCode(err)
		}
		return dump0704(&p.t704)
	case "0801":
		if err := p.t801.Parse(msg); err != nil {
			return ProtoErrCode(err)
		}
		return dump0801(&p.t801)
	}
	return "bad-kind"
}

// LocParse: fresh receiver, body followed by tail in the same array (tail empty = exact capacity).
func LocParse(kind string, body, tail []byte) string {
	p := &LocParser{Kind: kind}
	return p.Parse(WithTail(body, tail))
}

// LocParseSeq: ONE receiver parses every body in turn; the answer of the last parse is returned.
func LocParseSeq(kind string, bodies [][]byte) string {
	p := &LocParser{Kind: kind}
	ans := "none"
	for _, b := range bodies {
		ans = p.Parse(Exact(b))
	}
	return ans
}

// ---------------------------------------------------------------------------------------------
// vendor extension handlers

type ExtHandler interface {
	Parse(id uint8, content []byte) (model.AdditionContent, bool)
	String() string
}

func NewExt(kind string, dialect int) ExtHandler {
	d := consts.ActiveSafetyType(dialect)
	switch kind {
	case "64":
		h := &model.T0x0200AdditionExtension0x64{}
		h.ActiveSafetyType = d
		return h
	case "65":
		h := &model.T0x0200AdditionExtension0x65{}
		h.ActiveSafetyType = d
		return h
	case "66":
		h := &model.T0x0200AdditionExtension0x66{}
		h.ActiveSafetyType = d
		return h
	case "67":
		h := &model.T0x0200AdditionExtension0x67{}
		h.ActiveSafetyType = d
		return h
	case "70":
		h := &model.T0x0200AdditionExtension0x70{}
		h.ActiveSafetyType = d
		return h
	}
	return nil
}

func baseDump(b *model.T0x0200ExtensionSBBase) string {
	s := &b.P9208AlarmSign
	ok := 0
	if b.ParseSuccess {
		ok = 1
	}
	return fmt.Sprintf("base={speed=%d alt=%d lat=%d lon=%d time=%s st=%d fl=%s sign={d=%d tid=%s time=%s ser=%d att=%d res=%s} ok=%d}",
		b.VehicleSpeed, b.Altitude, b.Latitude, b.Longitude, Hx([]byte(b.DateTime)), b.VehicleStatus.OriginalValue,
		FlagString(b.VehicleStatus), uint8(s.ActiveSafetyType), Hx([]byte(s.TerminalID)), Hx([]byte(s.Time)), s.SerialNumber,
		s.AttachNumber, Hx(s.AlarmReserve), ok)
}

func joinInts(v ...int) string {
	p := make([]string, len(v))
	for i, x := range v {
		p[i] = fmt.Sprint(x)
	}
	return strings.Join(p, ",")
}

func ExtDump(h ExtHandler) string {
	switch t := h.(type) {
	case *model.T0x0200AdditionExtension0x64:
		return fmt.Sprintf("ok aid=%d flag=%d f=[%s] %s cnt=0 list=[]", t.AlarmID, t.FlagStatus,
			joinInts(int(t.AlarmEventType), int(t.AlarmLevel), int(t.PreVehicleSpeed), int(t.PreVehicleOrPedestrianDistance),
				int(t.DeviationType), int(t.RoadSignRecognitionType), int(t.RoadSignRecognitionData)), baseDump(&t.T0x0200ExtensionSBBase))
	case *model.T0x0200AdditionExtension0x65:
		return fmt.Sprintf("ok aid=%d flag=%d f=[%s] %s cnt=0 list=[]", t.AlarmID, t.FlagStatus,
			joinInts(int(t.AlarmEventType), int(t.AlarmLevel), int(t.FatigueLevel), int(t.Reserved[0]), int(t.Reserved[1]),
				int(t.Reserved[2]), int(t.Reserved[3])), baseDump(&t.T0x0200ExtensionSBBase))
	case *model.T0x0200AdditionExtension0x66:
		var l []string
		for _, e := range t.AlarmOrEventList {
			l = append(l, strings.ReplaceAll(joinInts(int(e.TirePressureAlarmLocation), int(e.AlarmOrEventType), int(e.TirePressure),
				int(e.TireTemperature), int(e.BatteryLevel)), ",", "."))
		}
		return fmt.Sprintf("ok aid=%d flag=%d f=[] %s cnt=%d list=[%s]", t.AlarmID, t.FlagStatus, baseDump(&t.T0x0200ExtensionSBBase),
			t.AlarmOrEventCount, strings.Join(l, ";"))
	case *model.T0x0200AdditionExtension0x67:
		return fmt.Sprintf("ok aid=%d flag=%d f=[%s] %s cnt=0 list=[]", t.AlarmID, t.FlagStatus, joinInts(int(t.AlarmEventType)),
			baseDump(&t.T0x0200ExtensionSBBase))
	case *model.T0x0200AdditionExtension0x70:
		return fmt.Sprintf("ok aid=%d flag=%d f=[%s] %s cnt=0 list=[]", t.AlarmID, t.FlagStatus,
			joinInts(int(t.AlarmEventType), int(t.AlarmTimeThreshold), int(t.AlarmThreshold1), int(t.AlarmThreshold2)),
			baseDump(&t.T0x0200ExtensionSBBase))
	}
	return "bad-handler"
}

// ExtParse: h.Parse(id, content) under recover; "no" when the handler declines; String() is called on success.
func ExtParse(h ExtHandler, id int, content []byte) (ans string) {
	defer func() {
		if r := recover(); r != nil {
			ans = "panic"
		}
	}()
	c, ok := h.Parse(uint8(id), content)
	if !ok {
		return "no"
	}
	if c.CustomValue != h || string(c.Data) != string(content) {
		return "bad-content"
	}
	_ = h.String()
	return ExtDump(h)
}

func init() {
	for _, k := range []string{"0200", "0704", "0801"} {
		kind := k
		// p0200 <body> [<tail>] : fresh receiver
		RegisterOp("p"+kind, func(a []string) string {
			var tail []byte
			if len(a) > 1 {
				tail = Unhx(a[1])
			}
			return LocParse(kind, Unhx(a[0]), tail)
		})
		// seq0200 <body1> <body2> ... : one reused receiver, answer of the last parse
		RegisterOp("seq"+kind, func(a []string) string {
			var bs [][]byte
			for _, x := range a {
				bs = append(bs, Unhx(x))
			}
			return LocParseSeq(kind, bs)
		})
	}
	// ext <kind> <dialect> <id> <content> <tail>
	RegisterOp("ext", func(a []string) string {
		h := NewExt(a[0], atoi(a[1]))
		if h == nil {
			return "bad-kind"
		}
		return ExtParse(h, atoi(a[2]), WithTail(Unhx(a[3]), Unhx(a[4])))
	})
	// seqext <kind> <dialect> <id1> <content1> <id2> <content2> ... : one reused handler (exact capacity),
	// answer of the last parse
	RegisterOp("seqext", func(a []string) string {
		h := NewExt(a[0], atoi(a[1]))
		if h == nil {
			return "bad-kind"
		}
		ans := "none"
		for i := 2; i+1 < len(a); i += 2 {
			ans = ExtParse(h, atoi(a[i]), Exact(Unhx(a[i+1])))
		}
		return ans
	})
}

module verifh

go 1.23.2

require (
	github.com/cuteLittleDevil/go-jt808/attachment v0.0.0
	github.com/cuteLittleDevil/go-jt808/protocol v1.12.0
	github.com/cuteLittleDevil/go-jt808/service v0.0.0
	github.com/cuteLittleDevil/go-jt808/shared v1.5.0
	github.com/cuteLittleDevil/go-jt808/terminal v0.0.0
)

require golang.org/x/text v0.21.0 // indirect

replace github.com/cuteLittleDevil/go-jt808/attachment => /repo/attachment

replace github.com/cuteLittleDevil/go-jt808/protocol => /repo/protocol

replace github.com/cuteLittleDevil/go-jt808/service => /repo/service

replace github.com/cuteLittleDevil/go-jt808/shared => /repo/shared

replace github.com/cuteLittleDevil/go-jt808/terminal => /repo/terminal

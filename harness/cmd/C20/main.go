package main

// C20 — the terminal simulator and the codec agree.
// Correspondence: WithHeader / CreateDefaultCommandData / CreateCommandData / ExpectedReply of the real
// terminal package vs the extracted model (Model/Sim.v, oracle/drv_c20.ml): ops simgen, simseq, simreply.
// Direct oracle (implementation alone): every generated frame is decoded with the library's decoder AND
// with the harness' own decoder (lib/ops_reply.go RpDecode, shares no code with /repo): id, phone,
// layout, serial progression, body; the default body is parsed with a fresh instance of the matching
// model type and re-encoded; ExpectedReply is compared with what a live service.GoJT808 answers.

import (
	"bytes"
	"fmt"
	"math/rand"
	"strings"

	. "verifh/lib"

	"github.com/cuteLittleDevil/go-jt808/protocol/jt808"
	"github.com/cuteLittleDevil/go-jt808/protocol/model"
	"github.com/cuteLittleDevil/go-jt808/shared/consts"
	"github.com/cuteLittleDevil/go-jt808/terminal"
)

// the commands the simulator supports (terminal/handle.go defaultProtocolHandles), written here from
// the property text's "each supported command"
var supported = []uint16{0x0001, 0x0002, 0x0100, 0x0102, 0x0200, 0x0704, 0x1003, 0x1205, 0x1206,
	0x8001, 0x8003, 0x8100, 0x8104, 0x8801, 0x9003, 0x9101, 0x9102, 0x9201, 0x9205, 0x9206, 0x9207,
	0x1210, 0x1211, 0x1212}

// supported by the simulator AND answered by the server (DESIGN B.6)
var replyBearing = []uint16{0x0002, 0x0100, 0x0102, 0x0200, 0x0704, 0x1003, 0x1210, 0x1211, 0x1212}
var stdReply = map[uint16]uint16{0x0002: 0x8001, 0x0100: 0x8100, 0x0102: 0x8001, 0x0200: 0x8001, 0x0704: 0x8001,
	0x1003: 0x8001, 0x1210: 0x8001, 0x1211: 0x8001, 0x1212: 0x9212}

type bodyCodec interface {
	Parse(jtMsg *jt808.JTMessage) error
	Encode() []byte
}

// a fresh instance of the message type that matches the id
func fresh(id uint16) bodyCodec {
	switch id {
	case 0x0001:
		return &model.T0x0001{}
	case 0x0002:
		return &model.T0x0002{}
	case 0x0100:
		return &model.T0x0100{}
	case 0x0102:
		return &model.T0x0102{}
	case 0x0200:
		return &model.T0x0200{}
	case 0x0704:
		return &model.T0x0704{}
	case 0x1003:
		return &model.T0x1003{}
	case 0x1205:
		return &model.T0x1205{}
	case 0x1206:
		return &model.T0x1206{}
	case 0x8001:
		return &model.P0x8001{}
	case 0x8003:
		return &model.P0x8003{}
	case 0x8100:
		return &model.P0x8100{}
	case 0x8104:
		return &model.P0x8104{}
	case 0x8801:
		return &model.P0x8801{}
	case 0x9003:
		return &model.P0x9003{}
	case 0x9101:
		return &model.P0x9101{}
	case 0x9102:
		return &model.P0x9102{}
	case 0x9201:
		return &model.P0x9201{}
	case 0x9205:
		return &model.P0x9205{}
	case 0x9206:
		return &model.P0x9206{}
	case 0x9207:
		return &model.P0x9207{}
	case 0x1210:
		return &model.T0x1210{}
	case 0x1211:
		return &model.T0x1211{}
	case 0x1212:
		return &model.T0x1212{}
	}
	return nil
}

func newTerm(ver int, phone string) *terminal.Terminal {
	return terminal.New(terminal.WithHeader(consts.ProtocolVersionType(ver), phone))
}

func atoi(s string) int {
	n := 0
	fmt.Sscanf(s, "%d", &n)
	return n
}

func frameAns(f []byte) string {
	if f == nil {
		return "nil"
	}
	return "ok frame=" + Hx(f)
}

func init() {
	// simgen <ver> <phone> <skip> <cmd> <bodyhex|-|D>: a fresh Terminal, <skip> heartbeats, then one frame
	RegisterOp("simgen", func(a []string) string {
		t := newTerm(atoi(a[0]), a[1])
		for i := atoi(a[2]); i > 0; i-- {
			t.CreateCommandData(0x0002, nil)
		}
		cmd := consts.JT808CommandType(atoi(a[3]))
		if a[4] == "D" {
			return frameAns(t.CreateDefaultCommandData(cmd))
		}
		return frameAns(t.CreateCommandData(cmd, Unhx(a[4])))
	})
	// simcalls <ver> <phone> <call> ...: any sequence of calls on one Terminal, D<cmd> = CreateDefaultCommandData
	// (nil for a command without default body), C<cmd>:<body> = CreateCommandData
	RegisterOp("simcalls", func(a []string) string {
		t := newTerm(atoi(a[0]), a[1])
		var out []string
		for _, c := range a[2:] {
			var f []byte
			if c[0] == 'D' {
				f = t.CreateDefaultCommandData(consts.JT808CommandType(atoi(c[1:])))
			} else {
				p := strings.SplitN(c[1:], ":", 2)
				f = t.CreateCommandData(consts.JT808CommandType(atoi(p[0])), Unhx(p[1]))
			}
			if f == nil {
				out = append(out, "nil")
			} else {
				out = append(out, Hx(f))
			}
		}
		return "ok r=" + strings.Join(out, ",")
	})
	RegisterOp("simgenl", func(a []string) string { return RunOp("simgen " + strings.Join(a, " ")) })
	// simshare <ver> <phone> <k:call> ...: ONE Option value terminal.WithHeader(ver, phone) from which several Terminals
	// are made (terminal k is created by terminal.New(opt) when it is first named); call = D<cmd> | C<cmd>:<body> as
	// in simcalls.  Every Terminal has its own header and counter: the answers are those of independent terminals.
	RegisterOp("simshare", func(a []string) string {
		opt := terminal.WithHeader(consts.ProtocolVersionType(atoi(a[0])), a[1])
		terms := map[string]*terminal.Terminal{}
		var out []string
		for _, kc := range a[2:] {
			p := strings.SplitN(kc, ":", 2)
			t, ok := terms[p[0]]
			if !ok {
				t = terminal.New(opt)
				terms[p[0]] = t
			}
			c := p[1]
			var f []byte
			if c[0] == 'D' {
				f = t.CreateDefaultCommandData(consts.JT808CommandType(atoi(c[1:])))
			} else {
				q := strings.SplitN(c[1:], ":", 2)
				f = t.CreateCommandData(consts.JT808CommandType(atoi(q[0])), Unhx(q[1]))
			}
			if f == nil {
				out = append(out, "nil")
			} else {
				out = append(out, Hx(f))
			}
		}
		return "ok r=" + strings.Join(out, ",")
	})
	// simseq <ver> <phone> <count> <cmd>: <count> consecutive default frames of one Terminal
	RegisterOp("simseq", func(a []string) string {
		t := newTerm(atoi(a[0]), a[1])
		n := atoi(a[2])
		cmd := consts.JT808CommandType(atoi(a[3]))
		fr := make([]string, 0, n)
		for i := 0; i < n; i++ {
			fr = append(fr, Hx(t.CreateDefaultCommandData(cmd)))
		}
		return fmt.Sprintf("ok n=%d dig=%x first=%s last=%s", n, RpDig(fr), fr[0], fr[n-1])
	})
	// simreply <ver> <phone> <seq> <frame> ...: ExpectedReply of one Terminal for the frames in turn
	// simreplym: the same op under the name used for the input class of the recorded finding
	// C20/expected-reply-malformed-1212 (known_findings.json request_regex), so that a later repair of the code
	// (both sides answering nothing, or from the frame alone) raises no correspondence alarm
	simreply := func(a []string) string {
		t := newTerm(atoi(a[0]), a[1])
		seq := uint16(atoi(a[2]))
		var out []string
		for _, f := range a[3:] {
			r := t.ExpectedReply(seq, Hx(Unhx(f)))
			if r == nil {
				out = append(out, "nil")
			} else {
				out = append(out, Hx(r))
			}
		}
		return "ok r=" + strings.Join(out, ",")
	}
	RegisterOp("simreply", simreply)
	RegisterOp("simreplym", simreply)
	RegisterOp("simreplyf", simreply) // input class of finding C20/expected-reply-fragment
	// simdump: the default bodies as a Coq table (used once to write Model/Sim.v default_bodies)
	RegisterOp("simdump", func(a []string) string {
		var sb strings.Builder
		for ver := 1; ver <= 3; ver++ {
			for _, cmd := range supported {
				f := newTerm(ver, "1").CreateDefaultCommandData(consts.JT808CommandType(cmd))
				d, _ := RpDecode(f)
				var xs []string
				for _, b := range d.Body {
					xs = append(xs, fmt.Sprint(b))
				}
				fmt.Fprintf(&sb, "((%d, 0x%04x), [%s]);", ver, cmd, strings.Join(xs, "; "))
			}
		}
		return sb.String()
	})
}

// ---- reference helpers (independent of /repo) ----
func padPhone(ver int, phone string) string {
	n := 12
	if ver == 3 {
		n = 20
	}
	for len(phone) < n {
		phone = "0" + phone
	}
	return phone
}

func bcdOf(s string) []byte {
	b := make([]byte, len(s)/2)
	for i := range b {
		b[i] = (s[2*i]-'0')<<4 | (s[2*i+1] - '0')
	}
	return b
}

type gen struct{ rng *rand.Rand }

func (g *gen) digits(n int) string {
	b := make([]byte, n)
	for i := range b {
		b[i] = byte('0' + g.rng.Intn(10))
	}
	return string(b)
}

// a phone of n digits whose template checksum is `want` (0x7e / 0x7d need the manual escaping)
func (g *gen) solved(ver, n int, want byte) (string, bool) {
	for try := 0; try < 20000; try++ {
		p := g.digits(n)
		x := byte(0x02)
		if ver == 3 {
			x = 0x00 ^ 0x02 ^ 0x40 ^ 0x01 ^ 0x02
		}
		for _, b := range bcdOf(padPhone(ver, p)) {
			x ^= b
		}
		if x == want {
			return p, true
		}
	}
	return "", false
}

func (g *gen) rbytes(n int) []byte {
	b := make([]byte, n)
	g.rng.Read(b)
	for k := 0; k < 2 && n > 0; k++ {
		if g.rng.Intn(3) == 0 {
			b[g.rng.Intn(n)] = []byte{0x7e, 0x7d}[k]
		}
	}
	return b
}

func (g *gen) customBody() []byte {
	switch g.rng.Intn(8) {
	case 0:
		return nil
	case 1:
		return g.rbytes(1023)
	case 2:
		return g.rbytes(1000 + g.rng.Intn(24))
	case 3:
		return bytes.Repeat([]byte{0x7e}, 1+g.rng.Intn(40))
	}
	return g.rbytes(g.rng.Intn(80))
}

// a body for a reply-bearing command that is well formed as far as the reply needs it (C06 body_wf)
func (g *gen) wfBody(cmd uint16, ver int, phone string) []byte {
	r := g.rng
	switch cmd {
	case 0x0102:
		code := []byte(strings.TrimLeft(phone, "0"))
		switch r.Intn(4) {
		case 0:
			code = g.rbytes(r.Intn(20))
		case 1:
			code = []byte(phone)
		}
		if ver != 3 {
			return code
		}
		b := append([]byte{byte(len(code))}, code...)
		return append(b, g.rbytes(35+r.Intn(3))...)
	case 0x1212:
		l := r.Intn(40)
		b := g.rbytes(6 + l)
		b[0] = byte(l)
		return b
	case 0x0002:
		if r.Intn(2) == 0 {
			return nil
		}
	}
	return g.rbytes(r.Intn(100))
}

// the reply body DESIGN B.6 prescribes for a well-formed frame of a reply-bearing command
func stdBody(f RpFrame) []byte {
	general := func(res byte) []byte { return []byte{byte(f.Serial >> 8), byte(f.Serial), byte(f.ID >> 8), byte(f.ID), res} }
	switch f.ID {
	case 0x0100:
		return append([]byte{byte(f.Serial >> 8), byte(f.Serial), 0}, []byte(RpPhoneString(f.BCD))...)
	case 0x0102:
		code := f.Body
		if f.Ver == 1 {
			code = f.Body[1 : 1+int(f.Body[0])]
		}
		if string(code) == RpPhoneString(f.BCD) {
			return general(0)
		}
		return general(1)
	case 0x1003:
		return []byte{}
	case 0x1212:
		return append(append([]byte{}, f.Body[:2+int(f.Body[0])]...), 0, 0)
	}
	return general(0)
}

// reply id of a command of (5c) (all of them reply-bearing in DESIGN B.6)
func stdReply0(cmd uint16) uint16 {
	if cmd == 0x0100 {
		return 0x8100
	}
	return 0x8001
}

func main() { Main("C20", c20) }

func c20(c *Ctx) {
	c.Rule = "every (version 2011/2013/2019, supported command) pair x phones of every length 1..12 (1..20 for 2019): random digits, all zeros, leading zeros, all nines, phones solved so that the template checksum is 0x7e / 0x7d; default and custom bodies (empty, 1023 bytes, 0x7e/0x7d runs); sequences of frames of one Terminal incl. 70 000 consecutive frames for the serial wrap; unsupported commands; ExpectedReply for every reply-bearing command with platform serials 0/65535/random, compared with the model and with the frames a live service.GoJT808 (loopback TCP) sends for the same frames. A case is non-trivial when a frame / reply is produced; distinct = distinct request text"
	g := &gen{rng: c.Rng}
	quick := c.Quick()
	sigCount := map[string]int{} // true number per signature (the evidence keeps at most 12 records of each)
	defer func() { c.Extra["violations_by_signature"] = sigCount }()
	viol := func(sig, what, input, obs, want string) {
		sigCount["C20/"+sig]++
		c.Violate(Violation{Signature: "C20/" + sig, What: what, Input: input, Observed: Trunc(obs, 600), Required: Trunc(want, 600)})
	}

	// checks one generated frame; returns the independently decoded frame
	checkFrame := func(req string, ver int, phone string, cmd uint16, wantSerial uint16, f []byte, body []byte, isDefault bool) {
		if f == nil {
			viol("no-frame", "no frame generated for a supported command", req, "nil", "a frame")
			return
		}
		d, ok := RpDecode(f)
		jm := jt808.NewJTMessage()
		err := jm.Decode(f)
		if !ok || err != nil {
			viol("decode", "generated frame rejected by the frame decoder", req, fmt.Sprintf("%s lib=%v ref=%v", Hx(f), err, ok), "accepted")
			return
		}
		wantVer := 0
		if ver == 3 {
			wantVer = 1
		}
		switch {
		case d.ID != cmd || jm.Header.ID != cmd:
			viol("id", "decoded command id differs", req, fmt.Sprintf("%04x", d.ID), fmt.Sprintf("%04x", cmd))
		case !bytes.Equal(d.BCD, bcdOf(padPhone(ver, phone))) || strings.TrimLeft(jm.Header.TerminalPhoneNo, "0") != strings.TrimLeft(phone, "0"):
			viol("phone", "decoded phone differs (leading zeros aside)", req, fmt.Sprintf("%x / %s", d.BCD, jm.Header.TerminalPhoneNo), padPhone(ver, phone))
		case d.Ver != wantVer || int(jm.Header.Property.Version) != wantVer || d.Frag || d.Enc != 0:
			viol("layout", "header layout is not the one of the version", req, fmt.Sprintf("ver=%d frag=%v enc=%d", d.Ver, d.Frag, d.Enc), fmt.Sprintf("ver=%d", wantVer))
		case d.Serial != wantSerial || jm.Header.SerialNumber != wantSerial:
			viol("serial", "serial is not one greater than that of the previous frame", req, fmt.Sprint(d.Serial), fmt.Sprint(wantSerial))
		case !isDefault && !bytes.Equal(d.Body, body):
			viol("body", "decoded body differs from the custom body", req, Hx(d.Body), Hx(body))
		}
		if isDefault {
			h := fresh(cmd)
			if h == nil {
				return
			}
			if err := h.Parse(jm); err != nil {
				viol("parse", "default body does not parse with the matching message type", req, fmt.Sprintf("%v body=%s", err, Hx(d.Body)), "parses")
				return
			}
			if re := h.Encode(); !bytes.Equal(re, d.Body) {
				viol("reencode", "parsed default body re-encodes to different bytes", req, Hx(re), Hx(d.Body))
			}
		}
	}

	phonesFor := func(ver int, rich bool) []string {
		max := 12
		if ver == 3 {
			max = 20
		}
		var ps []string
		for n := 1; n <= max; n++ {
			ps = append(ps, g.digits(n))
			if rich {
				ps = append(ps, strings.Repeat("0", n), strings.Repeat("9", n), strings.Repeat("0", n/2)+g.digits(n-n/2))
			}
		}
		for _, want := range []byte{0x7e, 0x7d} {
			for _, n := range []int{max, 4 + g.rng.Intn(max-4)} {
				if p, ok := g.solved(ver, n, want); ok {
					ps = append(ps, p)
					c.Count(fmt.Sprintf("phone with template checksum %02x", want))
				}
			}
		}
		return ps
	}

	// (1) all (version, command) pairs x phones of every length: the first default frame, then a custom one
	for ver := 1; ver <= 3; ver++ {
		phones := phonesFor(ver, true)
		for _, cmd := range supported {
			for pi, phone := range phones {
				if quick && pi%4 != int(cmd)%4 && len(phone) > 2 && pi < len(phones)-4 {
					continue // quick: every command sees every length class over the run, a quarter each
				}
				req := fmt.Sprintf("simgen %d %s 0 %d D", ver, phone, cmd)
				ans := c.Do(req, true)
				var f []byte
				if strings.HasPrefix(ans, "ok frame=") {
					f = Unhx(strings.TrimPrefix(ans, "ok frame="))
				}
				checkFrame(req, ver, phone, cmd, 1, f, nil, true)
				c.Count(fmt.Sprintf("default frame ver=%d", ver))
				c.Count(fmt.Sprintf("phone length %d", len(phone)))
			}
		}
	}
	// unsupported commands: no default frame, but CreateCommandData works for any id
	for _, cmd := range []uint16{0x0000, 0x0003, 0x0801, 0x0800, 0x8103, 0xffff, 0x9208} {
		for ver := 1; ver <= 3; ver++ {
			req := fmt.Sprintf("simgen %d 13800138000 0 %d D", ver, cmd)
			if ans := c.Do(req, false); ans != "nil" {
				viol("unsupported", "a default frame for a command the simulator does not support", req, ans, "nil")
			}
		}
	}
	c.Count("unsupported commands")

	// (2) sequences on one Terminal: custom bodies, the serial counts up; frame k after k-1 others
	nseq := 300
	if !quick {
		nseq = 6000
	}
	for i := 0; i < nseq; i++ {
		ver := 1 + g.rng.Intn(3)
		ps := phonesFor(ver, false)
		phone := ps[g.rng.Intn(len(ps))]
		skip := g.rng.Intn(6)
		switch g.rng.Intn(10) {
		case 0:
			skip = 65534 + g.rng.Intn(3)
		case 1:
			skip = g.rng.Intn(70000)
		}
		cmd := supported[g.rng.Intn(len(supported))]
		if g.rng.Intn(5) == 0 {
			cmd = uint16(g.rng.Intn(65536))
		}
		body := g.customBody()
		req := fmt.Sprintf("simgen %d %s %d %d %s", ver, phone, skip, cmd, Hx(body))
		ans := c.Do(req, true)
		var f []byte
		if strings.HasPrefix(ans, "ok frame=") {
			f = Unhx(strings.TrimPrefix(ans, "ok frame="))
		}
		wantID := cmd
		if cmd == 0 {
			wantID = 2 // ReplyID 0: Header.Encode falls back to the template's own id
		}
		checkFrame(req, ver, phone, wantID, uint16(skip+1), f, body, false)
		c.Count("custom frame")
	}

	// (2b) call sequences on one Terminal mixing default frames, custom frames and default calls for commands
	// the simulator has no default body for (they return nil and must not consume a serial), at every position:
	// the frames actually produced carry consecutive serials
	noDefault := []uint16{0x0104, 0x0805, 0x0801, 0x0800, 0x8103, 0x0000, 0xffff, 0x9208, 0x1005, 0x8800}
	isSupported := map[uint16]bool{}
	for _, cmd := range supported {
		isSupported[cmd] = true
	}
	ncalls := 150
	if !quick {
		ncalls = 3000
	}
	for i := 0; i < ncalls; i++ {
		ver := 1 + g.rng.Intn(3)
		ps := phonesFor(ver, false)
		phone := ps[g.rng.Intn(len(ps))]
		n := 2 + g.rng.Intn(10)
		type callT struct {
			tok  string
			cmd  uint16
			body []byte
			def  bool
		}
		var calls []callT
		for k := 0; k < n; k++ {
			switch r := g.rng.Intn(10); {
			case r < 4 || (i < 20 && k == i%n): // a default call that returns nil, at every position over the run
				cmd := noDefault[g.rng.Intn(len(noDefault))]
				if g.rng.Intn(4) == 0 {
					cmd = uint16(g.rng.Intn(65536))
				}
				calls = append(calls, callT{tok: fmt.Sprintf("D%d", cmd), cmd: cmd, def: true})
			case r < 7:
				cmd := supported[g.rng.Intn(len(supported))]
				calls = append(calls, callT{tok: fmt.Sprintf("D%d", cmd), cmd: cmd, def: true})
			default:
				cmd := uint16(1 + g.rng.Intn(65535))
				b := g.rbytes(g.rng.Intn(40))
				calls = append(calls, callT{tok: fmt.Sprintf("C%d:%s", cmd, Hx(b)), cmd: cmd, body: b})
			}
		}
		var toks []string
		for _, cl := range calls {
			toks = append(toks, cl.tok)
		}
		req := fmt.Sprintf("simcalls %d %s %s", ver, phone, strings.Join(toks, " "))
		ans := c.Do(req, true)
		outs := strings.Split(strings.TrimPrefix(ans, "ok r="), ",")
		if len(outs) != len(calls) {
			viol("no-frame", "call sequence: number of results differs from the number of calls", req, ans, fmt.Sprint(len(calls)))
			continue
		}
		want := uint16(0)
		for k, cl := range calls {
			produces := !cl.def || isSupported[cl.cmd]
			if !produces {
				if outs[k] != "nil" {
					viol("unsupported", fmt.Sprintf("call %d: a default frame for a command the simulator does not support", k), req, outs[k], "nil")
				}
				continue
			}
			if outs[k] == "nil" {
				viol("no-frame", fmt.Sprintf("call %d produced no frame", k), req, "nil", "a frame")
				continue
			}
			want++
			checkFrame(req, ver, phone, cl.cmd, want, Unhx(outs[k]), cl.body, cl.def)
		}
		c.Count("call sequence with nil calls")
	}

	// (2c) several Terminals made from ONE Option value (opt := terminal.WithHeader(...) once, terminal.New(opt) two or
	// three times), their calls interleaved: every Terminal counts its serials on its own (seed C20-11: a header
	// memoised in the option's closure makes them share one counter)
	nshare := 60
	if !quick {
		nshare = 1200
	}
	for i := 0; i < nshare; i++ {
		ver := 1 + g.rng.Intn(3)
		ps := phonesFor(ver, false)
		phone := ps[g.rng.Intn(len(ps))]
		nt := 2 + g.rng.Intn(2)
		n := 3 + g.rng.Intn(9)
		type scall struct {
			term int
			cmd  uint16
			body []byte
			def  bool
		}
		var calls []scall
		var toks []string
		for k := 0; k < n; k++ {
			tk := g.rng.Intn(nt)
			if k < nt {
				tk = k // every terminal is used, the later ones are created after the earlier ones generated frames
			}
			if g.rng.Intn(2) == 0 {
				cmd := supported[g.rng.Intn(len(supported))]
				calls = append(calls, scall{term: tk, cmd: cmd, def: true})
				toks = append(toks, fmt.Sprintf("%d:D%d", tk, cmd))
			} else {
				cmd := uint16(1 + g.rng.Intn(65535))
				b := g.rbytes(g.rng.Intn(30))
				calls = append(calls, scall{term: tk, cmd: cmd, body: b})
				toks = append(toks, fmt.Sprintf("%d:C%d:%s", tk, cmd, Hx(b)))
			}
		}
		req := fmt.Sprintf("simshare %d %s %s", ver, phone, strings.Join(toks, " "))
		ans := c.Do(req, true)
		outs := strings.Split(strings.TrimPrefix(ans, "ok r="), ",")
		if len(outs) != len(calls) {
			viol("no-frame", "shared option: number of results differs from the number of calls", req, ans, fmt.Sprint(len(calls)))
			continue
		}
		want := map[int]uint16{}
		for k, cl := range calls {
			if outs[k] == "nil" {
				viol("no-frame", fmt.Sprintf("shared option: call %d produced no frame", k), req, "nil", "a frame")
				continue
			}
			want[cl.term]++
			checkFrame(req, ver, phone, cl.cmd, want[cl.term], Unhx(outs[k]), cl.body, cl.def)
		}
		c.Count("terminals sharing one Option value")
	}

	// (3) the serial wrap: 70 000 consecutive frames of one Terminal, each decoded
	wrapVers := []int{2, 3}
	if quick { // one run in the quick tier: the version varies with the seed
		wrapVers = []int{1 + g.rng.Intn(3)}
	}
	for _, ver := range wrapVers {
		phone := g.digits(11)
		n := 70000
		c.Do(fmt.Sprintf("simseq %d %s %d 2", ver, phone, n), true)
		t := newTerm(ver, phone)
		for k := 1; k <= n; k++ {
			f := t.CreateDefaultCommandData(0x0002)
			d, ok := RpDecode(f)
			if !ok || d.Serial != uint16(k) || d.ID != 2 {
				viol("serial", fmt.Sprintf("frame %d of a run of %d consecutive frames", k, n), fmt.Sprintf("simgen %d %s %d 2 D", ver, phone, k-1),
					fmt.Sprintf("ok=%v serial=%d", ok, d.Serial), fmt.Sprint(uint16(k)))
				break
			}
		}
		c.Count("wrap run of 70000")
	}

	// (3b) custom bodies that do not fit the 10-bit length field.  The known finding C20/body-over-1023 says exactly: the
	// code frames them with an unmasked length and THE DECODER REJECTS THE FRAME (C20_body_1024_2047_rejected).  Only that
	// is reported under the finding's signature.  A repaired CreateCommandData that refuses (nil) raises nothing.  A frame
	// that DECODES - with the library's decoder or with the harness' own - to anything (necessarily another body, e.g. the
	// first k bytes of a 1024+k-byte body: seed C20-12) is a plain violation.  op simgenl = simgen under the class name
	for i := 0; i < 8; i++ {
		ver := 1 + g.rng.Intn(3)
		phone := g.digits(1 + g.rng.Intn(12))
		body := g.rbytes(1024 + []int{0, 1, 1 + g.rng.Intn(3000), 2 + g.rng.Intn(60), 1 + g.rng.Intn(1023), 1023, 1024, 2048 + g.rng.Intn(900)}[i])
		req := fmt.Sprintf("simgenl %d %s 0 %d %s", ver, phone, 0x0900, Hx(body))
		ans := c.Do(req, true)
		if ans == "nil" {
			c.Count("body over 1023 refused")
			continue
		}
		f := Unhx(strings.TrimPrefix(ans, "ok frame="))
		d, ok := RpDecode(f)
		jm := jt808.NewJTMessage()
		err := jm.Decode(f)
		switch {
		case ok && bytes.Equal(d.Body, body) && err == nil && bytes.Equal(jm.Body, body):
			c.Count("body over 1023 delivered") // impossible with a 10-bit length field; would be a repair by other means
		case err == nil || ok:
			got := jm.Body
			if err != nil {
				got = d.Body
			}
			viol("body", "a frame generated for a body over 1023 bytes is ACCEPTED by the decoder with a different body", req,
				fmt.Sprintf("library err=%v, reference decodable=%v, body of %d bytes: %s", err, ok, len(got), Trunc(Hx(got), 80)), "rejected (Err), as C20_body_1024_2047_rejected states, or no frame")
		default:
			viol("body-over-1023", "CreateCommandData frames a body of more than 1023 bytes with an unmasked length: the frame is rejected by the decoder",
				req, fmt.Sprintf("library err=%v, reference decodable=%v", err, ok), "a frame that decodes with that body, or no frame")
		}
		c.Count("body over 1023")
	}

	// (4) ExpectedReply: against the model, against the standard's table, and against a live server
	srv := RpServer("A")
	nlive := 40
	if !quick {
		nlive = 1500
	}
	uniq := 0
	for i := 0; i < nlive; i++ {
		ver := 1 + g.rng.Intn(3)
		ps := phonesFor(ver, false)
		phone := ps[g.rng.Intn(len(ps))]
		if i < 3 {
			ver, phone = i+1, "13800138000"
		}
		t := newTerm(ver, phone)
		var frames [][]byte
		// every reply-bearing command: its default frame and one with a custom well-formed body
		order := g.rng.Perm(len(replyBearing))
		for _, oi := range order {
			cmd := replyBearing[oi]
			frames = append(frames, t.CreateDefaultCommandData(consts.JT808CommandType(cmd)))
			if g.rng.Intn(2) == 0 {
				frames = append(frames, t.CreateCommandData(consts.JT808CommandType(cmd), g.wfBody(cmd, ver, phone)))
			}
		}
		// model correspondence: one Terminal predicting the replies in turn, platform serials 0 / 65535 / random
		seq := []int{0, 65535, g.rng.Intn(65536)}[g.rng.Intn(3)]
		var hx []string
		for _, f := range frames {
			hx = append(hx, Hx(f))
		}
		c.Do(fmt.Sprintf("simreply %d %s %d %s", ver, phone, seq, strings.Join(hx, " ")), true)
		// the same prediction checked directly against the B.6 reference, with that (high) platform serial
		t3 := newTerm(ver, phone)
		for _, f := range frames {
			exp := t3.ExpectedReply(uint16(seq), Hx(f))
			d, ok := RpDecode(exp)
			src, _ := RpDecode(f)
			if !ok || d.ID != stdReply[src.ID] || d.Serial != uint16(seq) || !bytes.Equal(d.BCD, src.BCD) || d.Ver != src.Ver || !bytes.Equal(d.Body, stdBody(src)) {
				viol("expected-reply-std", "predicted reply (arbitrary platform serial) is not the reply DESIGN B.6 prescribes: type, addressing, serial, body",
					fmt.Sprintf("simreply %d %s %d %s", ver, phone, seq, Hx(f)), Hx(exp), fmt.Sprintf("id %04x serial %d body %s", stdReply[src.ID], seq, Hx(stdBody(src))))
				break
			}
		}
		// live: the k-th frame the server writes carries platform serial k
		toks := make([]string, 0, len(frames)+1)
		for _, f := range frames {
			toks = append(toks, "F"+Hx(f))
		}
		uniq++
		bar := RpFrame{ID: 0x0002, Serial: uint16(uniq), BCD: bcdOf(fmt.Sprintf("99%010d", uniq))}
		toks = append(toks, "B"+Hx(bar.Wire()))
		req := fmt.Sprintf("simreply %d %s 0 %s", ver, phone, strings.Join(hx, " "))
		items, err := RpParseItems(toks)
		if err != nil {
			viol("decode", "a generated frame is rejected by the (independent) frame decoder", req, err.Error(), "decodable frames")
			continue
		}
		res := srv.RpPlay(items, []int{0, 3, 1000}[g.rng.Intn(3)])
		c.Eval("live "+req, true)
		c.Count("live conversation")
		if res.Timeout != "" || len(res.Frames) != len(frames)+1 {
			viol("live-count", "the live server did not answer every reply-bearing frame of the simulator exactly once",
				req, fmt.Sprintf("%d frames timeout=%s", len(res.Frames), res.Timeout), fmt.Sprintf("%d frames", len(frames)+1))
			continue
		}
		t2 := newTerm(ver, phone)
		for k, f := range frames {
			exp := t2.ExpectedReply(uint16(k), Hx(f))
			if !bytes.Equal(exp, res.Frames[k]) {
				viol("expected-reply", fmt.Sprintf("ExpectedReply(%d, frame %d) differs from the frame the live server sent", k, k),
					fmt.Sprintf("simreply %d %s %d %s", ver, phone, k, Hx(f)), Hx(exp), Hx(res.Frames[k]))
				break
			}
			// and the reply is the one the standard prescribes: type, addressing, serial
			d, ok := RpDecode(exp)
			src, _ := RpDecode(f)
			if !ok || d.ID != stdReply[src.ID] || d.Serial != uint16(k) || !bytes.Equal(d.BCD, src.BCD) || d.Ver != src.Ver {
				viol("expected-reply-std", "predicted reply is not of the reply type / addressing / serial the standard prescribes", req,
					Hx(exp), fmt.Sprintf("id %04x serial %d", stdReply[src.ID], k))
				break
			}
			if want := stdBody(src); !bytes.Equal(d.Body, want) {
				viol("expected-reply-std", "predicted reply body is not the one DESIGN B.6 prescribes", fmt.Sprintf("simreply %d %s %d %s", ver, phone, k, Hx(f)),
					Hx(d.Body), Hx(want))
				break
			}
		}
	}

	// (5) bodies the reply cannot be built from
	play := func(frames [][]byte) *RpResult {
		toks := make([]string, 0, len(frames)+1)
		for _, f := range frames {
			toks = append(toks, "F"+Hx(f))
		}
		uniq++
		bar := RpFrame{ID: 0x0002, Serial: uint16(uniq), BCD: bcdOf(fmt.Sprintf("99%010d", uniq))}
		toks = append(toks, "B"+Hx(bar.Wire()))
		items, err := RpParseItems(toks)
		if err != nil {
			return &RpResult{Timeout: "undecodable frame"}
		}
		return srv.RpPlay(items, 0)
	}
	nbad := 6
	if !quick {
		nbad = 200
	}
	for i := 0; i < nbad; i++ {
		phone := g.digits(1 + g.rng.Intn(20))
		// (a) a 2019 authentication too short for its fixed fields: logged by the server, not answered,
		// and the simulator predicts no reply either
		t := newTerm(3, phone)
		var short []byte
		if g.rng.Intn(2) == 0 {
			short = g.rbytes(g.rng.Intn(36))
		} else {
			short = g.rbytes(36 + g.rng.Intn(10))
			short[0] = byte(len(short) - 36 + 1 + g.rng.Intn(50))
		}
		hb1 := t.CreateDefaultCommandData(0x0002)
		bad := t.CreateCommandData(0x0102, short)
		hb2 := t.CreateDefaultCommandData(0x0002)
		req := fmt.Sprintf("simreply 3 %s 1 %s", phone, Hx(bad))
		ans := c.Do(req, true)
		res := play([][]byte{hb1, bad, hb2})
		c.Eval("live short "+req, true)
		if ans != "ok r=nil" || len(res.Frames) != 3 || res.Timeout != "" {
			viol("expected-reply-unanswered", "a 2019 0x0102 too short for its fixed fields: the server sends nothing, the simulator has to predict nothing",
				req, fmt.Sprintf("%s; live server wrote %d frames (2 heartbeat replies + barrier = 3) timeout=%s", ans, len(res.Frames), res.Timeout), "ok r=nil; 3 frames")
		}
		c.Count("too-short 2019 authentication")
		// (b) a 0x1212 that is not a well-formed file record (known finding: answered from stale handler state)
		ver := 1 + g.rng.Intn(3)
		if len(phone) > 12 {
			ver = 3
		}
		t = newTerm(ver, phone)
		var mal []byte
		if g.rng.Intn(2) == 0 {
			mal = g.rbytes(g.rng.Intn(6))
		} else {
			mal = g.rbytes(6 + g.rng.Intn(20))
			mal[0] = byte(len(mal) - 6 + 1 + g.rng.Intn(9))
		}
		badf := t.CreateCommandData(0x1212, mal)
		req = fmt.Sprintf("simreplym %d %s 0 %s", ver, phone, Hx(badf))
		c.Do(req, true)
		res = play([][]byte{badf})
		c.Eval("live malformed "+req, true)
		exp := newTerm(ver, phone).ExpectedReply(0, Hx(badf))
		if res.Timeout == "" && len(res.Frames) == 1 && exp == nil {
			// a repaired code: the server answers nothing to a 0x1212 it cannot parse and nothing is predicted
			c.Count("malformed 0x1212 (nothing sent, nothing predicted)")
			continue
		}
		if res.Timeout != "" || len(res.Frames) != 2 {
			viol("live-count", "the live server did not answer a 0x1212 frame exactly once", req, fmt.Sprintf("%d frames timeout=%s", len(res.Frames), res.Timeout), "2 frames")
		} else if !bytes.Equal(exp, res.Frames[0]) {
			viol("expected-reply-malformed-1212", "ExpectedReply for a 0x1212 that is not a well-formed file record differs from what a fresh server connection sends (both answer from stale handler state)",
				req, Hx(exp), Hx(res.Frames[0]))
		}
		c.Count("malformed 0x1212")
		// (c) a frame with the fragment bit that is not the whole message (known finding C20/expected-reply-fragment):
		// packet 1 of n >= 2 of a reply-bearing command, built by the harness (the simulator never generates one).
		// The live server answers nothing for it; the simulator predicts a reply.  A repaired ExpectedReply (nil) is
		// accepted as well.
		{
			fver := 1 + g.rng.Intn(3)
			fphone := g.digits(1 + g.rng.Intn(12))
			cmd := []uint16{0x0200, 0x0704, 0x0002, 0x0100, 0x1210}[g.rng.Intn(5)]
			pk := RpFrame{ID: cmd, Serial: uint16(g.rng.Intn(65536)), BCD: bcdOf(padPhone(fver, fphone)), Frag: true,
				Sum: uint16(2 + g.rng.Intn(3)), No: 1, Body: g.rbytes(1 + g.rng.Intn(30))}
			if fver == 3 {
				pk.Ver = 1
			}
			w := pk.Wire()
			freq := fmt.Sprintf("simreplyf %d %s 0 %s", fver, fphone, Hx(w))
			fans := c.Do(freq, true)
			t := newTerm(fver, fphone)
			hb := t.CreateDefaultCommandData(0x0002)
			fres := play([][]byte{hb, w})
			c.Eval("live fragment "+freq, true)
			if fres.Timeout != "" || len(fres.Frames) != 2 {
				viol("live-count", "the live server answered a lone packet of a sub-packaged message (or not the heartbeat before it)", freq,
					fmt.Sprintf("%d frames timeout=%s", len(fres.Frames), fres.Timeout), "2 frames (heartbeat reply, barrier reply)")
			} else if fans == "ok r=nil" {
				c.Count("fragment frame: nothing predicted")
			} else if d, ok := RpDecode(Unhx(strings.TrimPrefix(fans, "ok r="))); !strings.HasPrefix(fans, "ok r=") || strings.Contains(fans, ",") || !ok ||
				d.ID != stdReply0(cmd) || d.Serial != 0 || d.Ver != pk.Ver || !bytes.Equal(d.BCD, pk.BCD) || d.Frag || !bytes.Equal(d.Body, stdBody(pk)) {
				// not the finding's shape (the reply the packet ALONE would get): an error answer or a wrong prediction
				viol("expected-reply", "ExpectedReply for a frame with the fragment bit is neither nil nor the reply built from the packet alone", freq, fans,
					"ok r=nil, or (known finding) the 0x8001 / 0x8100 the packet alone would get")
			} else {
				viol("expected-reply-fragment", "ExpectedReply predicts a reply for a frame with the fragment bit that is not the whole message; the server answers nothing until the transfer is complete",
					freq, fans, "ok r=nil (nothing is sent for it)")
			}
			c.Count("fragment frame handed to ExpectedReply")
		}
	}
}

// C12 — platform commands are matched with their own responses.
//
// Two ties between Model/Writer.v and the live server (service.New(...).Run() on a loopback port):
//
//	wseq  sequential scripts: the request IS a schedule of the model (choice tokens) with wait marks; the
//	      implementation side performs the environment choices (terminal messages, calls, close) on real
//	      sockets, waits where the script says so (+f: a frame arrived, +r:<i>: call i returned) and prints the
//	      frames the terminal received and the results of the calls; the model side runs the same schedule.
//	      Compared token by token (serial numbers, which caller got what, automatic replies in between).
//	wexp  concurrent histories: k callers, a scripted terminal (lib/conc_writer.go); the recorded history must
//	      be explained by SOME schedule of the model (search in oracle/drv_c12.ml).
//
// and the direct oracle of lib/conc_writer.go on every concurrent history.
package main

import (
	"fmt"
	"math/rand"
	"os"
	"sort"
	"strconv"
	"strings"
	"sync"
	"time"

	. "verifh/lib"
)

func server() *Srv { return ChildServer() }

var phoneCtr int64
var phoneMu sync.Mutex

func freshPhone() string {
	phoneMu.Lock()
	defer phoneMu.Unlock()
	phoneCtr++
	return fmt.Sprintf("199%08d", phoneCtr)
}

// ---------------------------------------------------------------- wseq on the implementation
func implSeq(args []string) string {
	if len(args) < 1 {
		return "bad-args"
	}
	s := server()
	phone := freshPhone()
	t, err := DialTerm(s.Addr, phone)
	if err != nil {
		return "dial-failed"
	}
	defer t.Close()
	var frames []string
	attr := map[int]bool{} // terminal serials of 0x1003 messages
	type pend struct {
		ch  <-chan CallRes
		res *CallRes
	}
	var calls []*pend
	closed := false
	pendingFrags := 0 // s:f tokens seen since the last response: that response goes out in so many sub-packages
	takeFrame := func(d time.Duration) bool {
		f, ok, _ := t.Next(d)
		if !ok {
			return false
		}
		if f.Bad != "" {
			frames = append(frames, "bad."+f.Bad)
		} else if f.ID == 0x8001 {
			tag := -1
			if len(f.Body) >= 2 {
				tag = int(f.Body[0])<<8 | int(f.Body[1])
			}
			if attr[tag] || tag < 0 {
				frames = append(frames, fmt.Sprintf("R%d.a", f.Serial))
			} else {
				frames = append(frames, fmt.Sprintf("R%d.%d", f.Serial, tag))
			}
		} else if f.ID == 0x8003 {
			frames = append(frames, fmt.Sprintf("Q%d", f.Serial))
		} else {
			frames = append(frames, fmt.Sprintf("W%d.%d", f.Serial, f.ID))
		}
		return true
	}
	for _, tok := range args[1:] {
		p := strings.Split(tok, ":")
		switch p[0] {
		case "s":
			m := strings.Split(p[1], ".")
			switch m[0] {
			case "o":
				t.Send(0x0002, nil)
			case "f":
				pendingFrags++
			case "q":
				t.Send(0x8003, []byte{0, 1, 1, 0, 2})
			case "r":
				typ, _ := strconv.Atoi(m[1])
				echo, _ := strconv.Atoi(m[2])
				if pendingFrags > 0 {
					pieces := SplitBody(LongRespBody(uint16(typ), uint16(echo), 0x8103, pendingFrags > 2), pendingFrags)
					for i, pc := range pieces {
						t.SendRaw(TSubFrame(uint16(typ), t.Phone, t.NextSerial(), uint16(len(pieces)), uint16(i+1), pc))
					}
					pendingFrags = 0
				} else {
					t.Send(uint16(typ), RespBody(uint16(typ), uint16(echo), 0x8103))
				}
			case "b":
				typ, _ := strconv.Atoi(m[1])
				t.Send(uint16(typ), []byte{1})
			case "a":
				ser := t.NextSerial()
				attr[int(ser)] = true
				t.SendRaw(TFrame(0x1003, t.Phone, ser, RespBody(0x1003, 0, 0)))
			}
		case "c":
			cmd, _ := strconv.Atoi(p[1])
			to := 4 * time.Second // answered or released by the script; "ts" calls use the short one below
			if p[2] == "0" {
				to = -1
			}
			calls = append(calls, &pend{})
			i := len(calls) - 1
			// a call that the script lets time out is marked by a later ts:<i>; look ahead
			for _, later := range args[1:] {
				if later == fmt.Sprintf("ts:%d", i) {
					to = 70 * time.Millisecond
				}
			}
			// body lengths 1, 0, 2, 1000, 1022, 1023 in turn (1023 = the largest body a frame carries), every other long one escape-dense
			calls[i].ch = s.Call(phone, uint16(cmd), WBody([]byte{byte(i)}, []int{1, 0, 2, 1000, 1022, 1023}[i%6], i%2 == 1), to)
		case "x":
			t.Close()
			closed = true
		case "+f":
			if !closed {
				takeFrame(3 * time.Second)
			}
		case "+r":
			i, _ := strconv.Atoi(p[1])
			if i < len(calls) && calls[i].res == nil {
				r := Await(calls[i].ch, 5*time.Second)
				calls[i].res = &r
			}
		}
	}
	// nothing else may arrive
	if !closed {
		for takeFrame(30 * time.Millisecond) {
		}
	}
	var rets []string
	for i, c := range calls {
		if c.res == nil {
			select {
			case r := <-c.ch:
				c.res = &r
			default:
			}
		}
		if c.res != nil {
			rets = append(rets, fmt.Sprintf("%d:%s", i, seqRes(*c.res)))
		}
	}
	j := func(l []string) string {
		if len(l) == 0 {
			return "-"
		}
		return strings.Join(l, ",")
	}
	return fmt.Sprintf("ok f=%s r=%s skipped=0 crash=0 reuse=0", j(frames), j(rets))
}

func seqRes(r CallRes) string {
	switch r.Kind {
	case "resp":
		if r.RespID == 0x1003 {
			return "resp.a"
		}
		return fmt.Sprintf("resp.%d.%d", r.RespID, r.Echo)
	}
	return r.Kind
}

// ---------------------------------------------------------------- sequential script generator
type seqGen struct {
	rng    *rand.Rand
	toks   []string
	ps, ts int // next platform serial, next terminal serial
	joined bool
	ncalls int
	out    []outc // outstanding, in the order written
	closed bool
	what   map[string]bool
}
type outc struct {
	serial, id, cmd int
	short           bool
}

func (g *seqGen) add(t ...string) { g.toks = append(g.toks, t...) }

// rd: the reader takes the message (joining through the manager if this is the first one) and queues it
func (g *seqGen) rd() {
	g.add("rr")
	if !g.joined {
		g.add("m:o")
		g.joined = true
	}
	g.add("rp")
}

func (g *seqGen) hb() {
	g.add(fmt.Sprintf("s:o.%d.1", g.ts))
	g.rd()
	g.add("wm:0:1", "+f")
	g.ts++
	g.ps = (g.ps + 1) % 65536
}

func (g *seqGen) call(cmd int, short bool) {
	id := g.ncalls
	g.ncalls++
	if !g.joined {
		g.add(fmt.Sprintf("c:%d:1", cmd), "m:o", fmt.Sprintf("+r:%d", id))
		g.what["call-before-join"] = true
		return
	}
	g.add(fmt.Sprintf("c:%d:1", cmd), "m:o", "wa:1", "+f")
	g.out = append(g.out, outc{g.ps, id, cmd, short})
	g.ps = (g.ps + 1) % 65536
}

func (g *seqGen) remove(j int) { g.out = append(g.out[:j:j], g.out[j+1:]...) }

func (g *seqGen) script(n int) {
	rtypes := []int{0x0001, 0x0104, 0x0805, 0x1205, 0x1206}
	cmds := []int{0x8103, 0x8104, 0x8801, 0x9101, 0x9102, 0x9205, 0x9206, 0x8300, 0x8105, 0x8202} // the last three: no handler entry
	answered := []int{}
	for step := 0; step < n && !g.closed; step++ {
		has9003 := false
		for _, o := range g.out {
			if o.cmd == 0x9003 {
				has9003 = true
			}
		}
		switch op := g.rng.Intn(12); {
		case op == 0 || !g.joined && op < 8:
			if !g.joined && g.rng.Intn(3) == 0 {
				g.call(cmds[g.rng.Intn(len(cmds))], false)
			} else {
				g.hb()
			}
		case op <= 3 && len(g.out) < 4: // a new command; short ones are left to time out
			cmd := cmds[g.rng.Intn(len(cmds))]
			if !has9003 && g.rng.Intn(5) == 0 {
				cmd = 0x9003
			}
			g.call(cmd, cmd != 0x9003 && g.rng.Intn(4) == 0)
		case op <= 6 && len(g.out) > 0: // answer one of the outstanding commands, any order, any response type
			var idx []int
			for j, o := range g.out {
				if !o.short && o.cmd != 0x9003 {
					idx = append(idx, j)
				}
			}
			if len(idx) == 0 {
				g.hb()
				break
			}
			j := idx[g.rng.Intn(len(idx))]
			o := g.out[j]
			rt := rtypes[g.rng.Intn(len(rtypes))]
			if g.rng.Intn(4) == 0 { // the response arrives in 2..4 sub-packages: each is taken and dropped, then the merged one
				k := 2 + g.rng.Intn(3)
				if k > 2 {
					rt = []int{0x1205, 0x0805, 0x0104}[g.rng.Intn(3)] // long bodies (3+ packets on the wire)
				}
				n := len(SplitBody(LongRespBody(uint16(rt), uint16(o.serial), 0x8103, k > 2), k))
				for q := 0; q < n; q++ {
					g.add("s:f")
					g.rd()
					g.add("wm:0:1")
					g.ts++
				}
				g.ts-- // the merged message shares the last packet
				g.what["fragmented-response"] = true
			}
			g.add(fmt.Sprintf("s:r.%d.%d", rt, o.serial))
			g.rd()
			g.add("wm:0:1", fmt.Sprintf("+r:%d", o.id))
			g.ts++
			answered = append(answered, o.serial)
			g.remove(j)
			if j != 0 {
				g.what["out-of-order"] = true
			}
		case op == 7: // a duplicate or an unknown serial, then a heartbeat to see that nothing happened
			e := (g.ps + 500 + g.rng.Intn(1000)) % 65536
			if len(answered) > 0 && g.rng.Intn(2) == 0 {
				e = answered[g.rng.Intn(len(answered))]
				g.what["duplicate"] = true
			} else {
				g.what["unknown-serial"] = true
			}
			g.add(fmt.Sprintf("s:r.%d.%d", rtypes[g.rng.Intn(len(rtypes))], e))
			g.rd()
			g.add("wm:0:1")
			g.ts++
			g.hb()
		case op == 8: // unparsable response
			g.add(fmt.Sprintf("s:b.%d", rtypes[g.rng.Intn(len(rtypes))]))
			g.rd()
			g.add("wm:0:1")
			g.ts++
			g.what["unparsable"] = true
			g.hb()
		case op == 9: // 0x1003
			pick := 0
			pj := -1
			for j, o := range g.out {
				if o.cmd == 0x9003 {
					pick, pj = o.serial, j
				}
			}
			g.add("s:a")
			g.rd()
			g.add(fmt.Sprintf("wm:%d:1", pick))
			g.ts++
			if pj >= 0 {
				g.add(fmt.Sprintf("+r:%d", g.out[pj].id))
				g.remove(pj)
				g.what["attr-completes-9003"] = true
			} else {
				g.add("+f")
				g.ps = (g.ps + 1) % 65536
				if len(g.out) > 0 {
					g.what["attr-with-other-outstanding"] = true
				}
			}
		case op == 10: // let the short ones time out, oldest first
			for j := 0; j < len(g.out); {
				if g.out[j].short {
					g.add(fmt.Sprintf("ts:%d", g.out[j].id), "wc", fmt.Sprintf("+r:%d", g.out[j].id))
					g.remove(j)
					g.what["timeout"] = true
				} else {
					j++
				}
			}
		case op == 11 && step > n/2 && g.joined: // disconnect with whatever is outstanding (short ones expire first)
			for j := 0; j < len(g.out); {
				if g.out[j].short {
					g.add(fmt.Sprintf("ts:%d", g.out[j].id), "wc", fmt.Sprintf("+r:%d", g.out[j].id))
					g.remove(j)
				} else {
					j++
				}
			}
			g.add("x", "rf", "m:o", "rc", "rc", "rc", "rc", "ws", "wd")
			for _, o := range g.out {
				g.add(fmt.Sprintf("tq:%d", o.id))
			}
			for _, o := range g.out {
				g.add(fmt.Sprintf("+r:%d", o.id))
			}
			if len(g.out) > 0 {
				g.what["close-with-outstanding"] = true
			}
			g.out = nil
			g.closed = true
		default:
			if g.joined && g.rng.Intn(2) == 0 { // a 0x8003 from the terminal: reissuePackChan, written back with the next serial
				g.add("s:q", "rr", "rp", "wr:1", "+f")
				g.ts++
				g.ps = (g.ps + 1) % 65536
				g.what["reissue"] = true
			} else {
				g.hb()
			}
		}
	}
	if !g.closed {
		// release everything: short ones time out, the others are answered
		for _, o := range g.out {
			if o.short {
				g.add(fmt.Sprintf("ts:%d", o.id), "wc", fmt.Sprintf("+r:%d", o.id))
			}
		}
		for _, o := range g.out {
			if !o.short {
				if o.cmd == 0x9003 {
					g.add("s:a", "rr", "rp", fmt.Sprintf("wm:%d:1", o.serial), fmt.Sprintf("+r:%d", o.id))
				} else {
					g.add(fmt.Sprintf("s:r.%d.%d", 1, o.serial), "rr", "rp", "wm:0:1", fmt.Sprintf("+r:%d", o.id))
				}
				g.ts++
			}
		}
		g.hb()
	}
}

// ---------------------------------------------------------------- main
func batchInput(jobs []string) string { return "c12batch 8 " + strings.Join(jobs, ";") }

func main() {
	RegisterOp("wseq", implSeq)
	RegisterOp("wexp", func(a []string) string { return "exp ok" })
	RegisterOp("wscn", func(a []string) string { // wscn <kind> <seed>: rerun one concurrent scenario (in a child)
		if len(a) < 2 {
			return "bad-args"
		}
		return replayBatch(1, []string{"scn " + a[0] + " " + a[1]})
	})
	RegisterOp("c12batch", func(a []string) string { // c12batch <par> <job>;<job>;...
		if len(a) < 2 {
			return "bad-args"
		}
		par, _ := strconv.Atoi(a[0])
		return replayBatch(par, strings.Split(strings.Join(a[1:], " "), ";"))
	})
	if len(os.Args) > 1 && os.Args[1] == "-child" {
		ChildMain(os.Args[2:])
		return
	}
	Main("C12", c12)
}

func replayBatch(par int, jobs []string) string {
	r := RunBatch(SelfExe(), nil, par, jobs, 120*time.Second)
	var v []string
	for _, o := range r.Outs {
		for _, x := range o.Viol {
			v = append(v, fmt.Sprintf("[%s] %s: %s", o.Line, x.Sig, x.Observed))
		}
		if o.Ans != "" {
			v = append(v, fmt.Sprintf("[%s] => %s", Trunc(o.Line, 80), o.Ans))
		}
		if o.Req != "" && len(jobs) == 1 {
			v = append(v, "history: "+o.Req)
		}
		if o.Note != "" {
			v = append(v, fmt.Sprintf("note: %s results %v", o.Note, o.Kinds))
		}
	}
	return fmt.Sprintf("child crash=%q jobs-reported=%d/%d %v", r.Crash, len(r.Outs), len(jobs), v)
}

func c12(c *Ctx) {
	c.Rule = "sequential scripts (wseq): random scripts of heartbeats, commands (7 command ids + 0x9003 + 3 ids without an entry in the handler table), responses of the 5 echoing types in any order, duplicates, unknown serials, unparsable bodies, 0x1003, timeouts, disconnect, executed step by step on a live server and compared token by token with the model; concurrent scenarios (wexp): 1..8 callers (one command in five, and every command of kind nohandler, has no entry in the handler table; kind emptykey-close: a terminal whose KeyFunc result is the empty key) with command bodies of 0 to 1023 bytes (kind bodylen: 0/1/2/1000/1022/1023, plain and escape-dense; one command in six elsewhere has 1000/1022/1023 bytes; wseq: by call index) and timeouts 5-600 ms, none, and 0 = the 3 s default, against a scripted terminal (answers delayed/late/twice/unknown/unparsable/never/in 2-4 sub-packages (long 0x1205 0x0805 0x0104 and short bodies cut up, a heartbeat in between and after), 5-8 answers in one TCP segment, heartbeats and location reports in between, serial wrap at 65535, 0x8003 frames and a stalled transfer through reissuePackChan, close/RST/garbage; some batches with user callbacks that sleep 1-15 ms; the witnesses of the findings serial-reuse (both variants) and blocked-write, each in a server of its own), the recorded history must be explained by a schedule of the model and pass the direct oracle; the server runs in child processes (a crash is an observation); a case is non-trivial when it contains at least one command written to the terminal; distinct = distinct request lines"
	// ---- jobs
	nseq := 300
	if !c.Quick() {
		nseq = 2000
	}
	type jobT struct {
		line string
		what map[string]bool
		kind string
		seed int64
	}
	var jobs []jobT
	for i := 0; i < nseq; i++ {
		g := &seqGen{rng: rand.New(rand.NewSource(c.Rng.Int63())), what: map[string]bool{}}
		g.script(6 + g.rng.Intn(14))
		jobs = append(jobs, jobT{line: "op wseq 0 " + strings.Join(g.toks, " "), what: g.what})
	}
	kinds := []string{"bodylen", "nohandler", "nohandler", "garbage-close", "reissue", "frag", "frag", "burst", "burst", "order", "late", "dup", "unknown", "bad", "never", "mixed", "mixed", "attr", "notmo", "prejoin",
		"close-outstanding", "close-afterresp", "close-queued"}
	per := 60
	if !c.Quick() {
		per = 500
	}
	for _, k := range kinds {
		for i := 0; i < per; i++ {
			seed := c.Rng.Int63n(90000000)
			jobs = append(jobs, jobT{line: fmt.Sprintf("scn %s %d", k, seed), kind: k, seed: seed})
		}
	}
	nwrap := 2
	ndef := 4 // OverTimeDuration 0: these take 3 s each and run alongside the rest
	if !c.Quick() {
		nwrap = 12
	}
	for i := 0; i < nwrap; i++ {
		seed := c.Rng.Int63n(90000000)
		jobs = append(jobs, jobT{line: fmt.Sprintf("scn wrap %d", seed), kind: "wrap", seed: seed})
	}
	if !c.Quick() {
		ndef = 30
	}
	for i := 0; i < ndef; i++ {
		seed := c.Rng.Int63n(90000000)
		jobs = append(jobs, jobT{line: fmt.Sprintf("scn default0 %d", seed), kind: "default0", seed: seed})
	}
	for i := 0; i < 2*ndef; i++ { // the key "": one owner at a time, so these run one after the other inside their child
		seed := c.Rng.Int63n(90000000)
		jobs = append(jobs, jobT{line: fmt.Sprintf("scn emptykey-close %d", seed), kind: "emptykey-close", seed: seed})
	}
	for i := 0; i < ndef/2; i++ { // a transfer that stalls for 5 s: generated re-request through reissuePackChan
		seed := c.Rng.Int63n(90000000)
		jobs = append(jobs, jobT{line: fmt.Sprintf("scn stall %d", seed), kind: "stall", seed: seed})
	}
	c.Rng.Shuffle(len(jobs), func(i, j int) { jobs[i], jobs[j] = jobs[j], jobs[i] })
	// ---- batches, each in its own child process
	const bsz = 24
	type batch struct {
		jobs []jobT
		r    BatchRes
		slow int // > 0: the server's user callbacks sleep up to this many ms
	}
	var batches []*batch
	for i := 0; i < len(jobs); i += bsz {
		e := i + bsz
		if e > len(jobs) {
			e = len(jobs)
		}
		batches = append(batches, &batch{jobs: jobs[i:e]})
	}
	// slow user callbacks (1..15 ms in OnRead/OnWrite/OnJoin/OnLeaveExecutionEvent, inside the reader and writer goroutines)
	nslow := 40
	if !c.Quick() {
		nslow = 600
	}
	var sj []jobT
	for i := 0; i < nslow; i++ {
		k := []string{"order", "late", "mixed", "frag", "burst", "dup", "unknown", "attr", "close-outstanding", "close-afterresp", "reissue"}[i%11]
		seed := c.Rng.Int63n(90000000)
		sj = append(sj, jobT{line: fmt.Sprintf("scn %s %d", k, seed), kind: k, seed: seed})
	}
	for i := 0; i < len(sj); i += bsz {
		e := i + bsz
		if e > len(sj) {
			e = len(sj)
		}
		batches = append(batches, &batch{jobs: sj[i:e], slow: 5 + 5*((i/bsz)%3)})
	}
	// the witnesses of the recorded findings, in servers of their own (noread wedges its server): also in the quick
	// tier, so that a run says whether the findings were reproduced
	for _, ks := range [][]string{{"reuse", "reuse-timer"}, {"noread"}} {
		var js []jobT
		for _, k := range ks {
			seed := c.Rng.Int63n(90000000)
			js = append(js, jobT{line: fmt.Sprintf("scn %s %d", k, seed), kind: k, seed: seed})
		}
		batches = append(batches, &batch{jobs: js})
	}
	var wg sync.WaitGroup
	sem := make(chan struct{}, 3)
	for _, b := range batches {
		wg.Add(1)
		sem <- struct{}{}
		go func(b *batch) {
			defer wg.Done()
			defer func() { <-sem }()
			var lines []string
			for _, j := range b.jobs {
				lines = append(lines, j.line)
			}
			var d *DelayCfg
			if b.slow > 0 {
				d = &DelayCfg{SlowCB: b.slow}
			}
			b.r = RunBatch(SelfExe(), d, 8, lines, 120*time.Second)
		}(b)
	}
	wg.Wait()
	var notes []string
	witnesses := map[string]string{} // witness kind -> outcome (reproduced / not-reproduced / setup-failed: ... / no-report)
	defer func() { c.Extra["notes"] = notes; c.Extra["finding_witnesses"] = witnesses }()
	for _, b := range batches {
		var lines []string
		for _, j := range b.jobs {
			lines = append(lines, j.line)
		}
		if b.slow > 0 {
			c.Count("batch-with-slow-callbacks")
		}
		for _, j := range b.jobs { // a witness that did not report at all
			if j.kind == "reuse" || j.kind == "reuse-timer" || j.kind == "noread" {
				found := false
				for _, o := range b.r.Outs {
					found = found || o.Line == j.line
				}
				if !found {
					notes = append(notes, "NOTE witness "+j.kind+": no report from the child ("+Trunc(b.r.Crash, 200)+")")
					c.Count("witness:" + j.kind + ":no-report")
					witnesses[j.kind] = "no-report"
				}
			}
		}
		if b.r.Crash != "" {
			c.Violate(Violation{Signature: "C12/crash", What: "the server process died while commands and responses were exchanged",
				Input: batchInput(lines), Observed: b.r.Crash, Required: "the server process keeps running"})
		}
		if b.r.Slow {
			c.Count("batch-killed-at-time-limit")
		}
		sort.Slice(b.r.Outs, func(i, j int) bool { return b.r.Outs[i].Job < b.r.Outs[j].Job })
		for _, o := range b.r.Outs {
			if o.Job >= len(b.jobs) {
				continue
			}
			j := b.jobs[o.Job]
			if j.kind == "" { // sequential script
				req := strings.TrimPrefix(j.line, "op ")
				c.Case(req, o.Ans, strings.Contains(o.Ans, "W"))
				c.Count("seq")
				for k := range j.what {
					c.Count("seq:" + k)
				}
				continue
			}
			c.Count("scn:" + j.kind)
			if o.Note != "" {
				n := o.Note
				if i := strings.Index(n, ":"); i > 0 {
					n = n[:i]
				}
				c.Count("witness:" + j.kind + ":" + n)
				witnesses[j.kind] = o.Note
				if n != "reproduced" {
					notes = append(notes, "NOTE witness "+j.kind+" ("+j.line+"): "+o.Note)
				}
			}
			for k, n := range o.Kinds {
				c.Dist["result:"+k] += n
			}
			input := fmt.Sprintf("wscn %s %d", j.kind, j.seed)
			for _, v := range o.Viol {
				c.Violate(Violation{Signature: "C12/" + v.Sig, What: v.What, Input: input,
					Observed: v.Observed + " | " + o.Desc + " | " + o.Req, Required: v.Required})
			}
			if strings.HasPrefix(o.Req, "wexp ") {
				c.Case(o.Req, "exp ok", o.N > 0 && strings.Contains(o.Req, "F/W"))
			}
		}
	}
}

package main

import (
	"strings"

	. "verifh/lib"
)

func main() { Main("C02", c02) }

var alphabet = []byte{0x7e, 0x7d, 0x01, 0x02, 0x00, 0x41}

var allBytes = func() []byte {
	b := make([]byte, 256)
	for i := range b {
		b[i] = byte(i)
	}
	return b
}()

func c02(c *Ctx) {
	defer DrainFrameProblems(c, "C02")
	c.Rule = "(i) all strings of length <= 6 (7 thorough) over {7e,7d,01,02,00,41}; (ii) valid header templates {2013,2019} x {fragmented,not} with every body of length <= 3 over the alphabet, checksum right / wrong by each single bit / unescaped-7d variant, declared length -1/0/+1, uninterpreted attribute bits set; (iii) every single-bit corruption, every truncation and every one-byte extension of random valid frames; (iv) random strings and random valid frames; oracle = an independent reference decoder written from the standard; non-trivial = delimited at both ends with a non-empty interior (reaches unescaping); distinct = distinct byte string"
	rng := c.Rng
	one := func(d []byte, what string) {
		nontriv := len(d) > 2 && d[0] == 0x7e && d[len(d)-1] == 0x7e
		got := c.Do("decode "+Hx(d), nontriv)
		c.Count(what + ":" + first(got))
		if HasInteriorDelim(d) {
			return // outside the property's domain (stream framing cuts at every 0x7e); correspondence only
		}
		want := "err"
		if m, ok := RefDecode(d); ok {
			want = m.Canon()
		}
		if (want == "err") != strings.HasPrefix(got, "err") || (want != "err" && got != want) {
			c.Violate(Violation{Signature: "C02/" + what, What: "Decode differs from the standard's reading of the frame",
				Input: "decode " + Hx(d), Observed: got, Required: want})
		}
	}
	// (i) exhaustive small strings
	maxk := 6
	if !c.Quick() {
		maxk = 7
	}
	var rec func(cur []byte)
	rec = func(cur []byte) {
		one(cur, "exhaustive")
		if len(cur) == maxk {
			return
		}
		for _, a := range alphabet {
			rec(append(cur[:len(cur):len(cur)], a))
		}
	}
	rec(nil)
	c.Exhaustive = false
	// (ii) templates with exhaustive small bodies and systematic deviations
	for ver := uint8(0); ver < 2; ver++ {
		for frag := uint8(0); frag < 2; frag++ {
			var bodies [][]byte
			var gen func(cur []byte)
			gen = func(cur []byte) {
				bodies = append(bodies, append([]byte{}, cur...))
				if len(cur) == 3 {
					return
				}
				for _, a := range alphabet {
					gen(append(cur[:len(cur):len(cur)], a))
				}
			}
			gen(nil)
			for bi, body := range bodies {
				bcd := make([]byte, 6+4*int(ver))
				rng.Read(bcd)
				m := RefMsg{ID: uint16(rng.Intn(65536)), Enc: uint8(rng.Intn(2)), Frag: frag, Ver: ver, Bcd: bcd,
					Serial: uint16(rng.Intn(65536)), Sum: uint16(rng.Intn(65536)), No: uint16(rng.Intn(65536)), Body: body}
				one(RefFrame(m), "template")
				one(RefFrameX(m, []uint16{0x0800, 0x1000, 0x8000, 0x9800}[bi%4], byte(bi)), "template-extra-bits")
				p := RefPayload(m, 0, 1)
				chk := RefXor(p)
				// wrong checksum by one bit
				one(RefEscape(append(append([]byte{}, p...), chk^(1<<uint(bi%8)))), "template-badcheck")
				// declared length off by one (body one longer / shorter than declared)
				if len(body) > 0 {
					short := m
					short.Body = body[:len(body)-1]
					ps := RefPayload(short, 0, 1)
					ps[2], ps[3] = p[2], p[3] // keep the original declared length
					one(RefEscape(append(ps, RefXor(ps))), "template-len-1")
				}
				long := m
				long.Body = append(append([]byte{}, body...), 0x55)
				pl := RefPayload(long, 0, 1)
				pl[2], pl[3] = p[2], p[3]
				one(RefEscape(append(pl, RefXor(pl))), "template-len+1")
				// unescaped-7d checksum variant: choose the last body byte so that the checksum is 0x7d
				if len(body) > 0 {
					v := m
					v.Body = append([]byte{}, body...)
					x := RefXor(RefPayload(v, 0, 1))
					v.Body[len(v.Body)-1] ^= x ^ 0x7d
					pv := RefPayload(v, 0, 1)
					raw := RefEscape(pv)                                  // payload escaped, no checksum yet
					raw = append(raw[:len(raw)-1:len(raw)-1], 0x7d, 0x7e) // raw 0x7d checksum + delimiter
					one(raw, "template-raw7d-check")
				}
			}
		}
	}
	// (v) payloads of every length 1..30 with a CORRECT checksum and every version/fragment combination:
	// exercises each header-length guard exactly at its boundary (with and without escapes)
	for ver := 0; ver < 2; ver++ {
		for frag := 0; frag < 2; frag++ {
			for l := 1; l <= 30; l++ {
				for rep := 0; rep < 6; rep++ {
					p := make([]byte, l)
					rng.Read(p)
					if rep%2 == 1 && l > 4 {
						p[4+rng.Intn(l-4)] = 0x7d
					}
					if l >= 4 {
						declared := rng.Intn(4)
						if rep >= 4 { // make the declared length consistent with the actual one where possible
							h := 4 + ver + 6 + 4*ver + 2 + 4*frag
							if l-h >= 0 {
								declared = l - h
							}
						}
						attr := uint16(ver)<<14 | uint16(frag)<<13 | uint16(declared)&0x3ff
						p[2], p[3] = byte(attr>>8), byte(attr)
					}
					one(RefEscape(append(p, RefXor(p))), "short-header-valid-checksum")
				}
			}
		}
	}
	// (iii) corruptions of random valid frames
	nf := 60
	if !c.Quick() {
		nf = 600
	}
	for i := 0; i < nf; i++ {
		f := randomFrame(c, true)
		one(f, "valid")
		for bit := 0; bit < len(f)*8; bit++ {
			g := append([]byte{}, f...)
			g[bit/8] ^= 1 << uint(bit%8)
			one(g, "bitflip")
		}
		for n := 0; n < len(f); n++ {
			one(f[:n], "truncated")
		}
		for n := 0; n <= len(f); n++ {
			g := append(append(append([]byte{}, f[:n]...), byte(rng.Intn(256))), f[n:]...)
			one(g, "extended")
		}
		// single-byte substitutions: every position takes every byte of the special alphabet (all 255 other
		// values in the thorough tier)
		if i < 20 || !c.Quick() {
			for n := 0; n < len(f); n++ {
				subs := alphabet
				if !c.Quick() {
					subs = allBytes
				}
				for _, v := range subs {
					if v == f[n] {
						continue
					}
					g := append([]byte{}, f...)
					g[n] = v
					one(g, "bytesub")
				}
			}
		}
	}
	// (iii-a) wire-level interiors: every string of length <= 3 (4 thorough) over the alphabet spliced UNESCAPED
	// into the body position of a valid 2013 / 2019 header (declared length = the unescaped length the standard
	// would read, check code recomputed over that reading when the splice is a valid escape sequence, over the raw
	// bytes otherwise): valid and invalid escape pairs and raw specials inside frames of valid length
	{
		maxw := 3
		if !c.Quick() {
			maxw = 4
		}
		var ws [][]byte
		var genw func(cur []byte)
		genw = func(cur []byte) {
			ws = append(ws, append([]byte{}, cur...))
			if len(cur) == maxw {
				return
			}
			for _, a := range alphabet {
				if a == 0x7e {
					continue // an interior delimiter is outside the property's domain
				}
				genw(append(cur[:len(cur):len(cur)], a))
			}
		}
		genw(nil)
		for ver := uint8(0); ver < 2; ver++ {
			bcd := make([]byte, 6+4*int(ver))
			for i := range bcd {
				bcd[i] = byte(0x10 + i)
			}
			for _, w := range ws {
				// the payload the standard reads from the wire bytes w (nil when w is not a valid escape sequence)
				var body []byte
				valid := true
				for i := 0; i < len(w); i++ {
					if w[i] == 0x7d {
						if i+1 < len(w) && (w[i+1] == 0x01 || w[i+1] == 0x02) {
							body = append(body, 0x7d+w[i+1]-1)
							i++
						} else {
							valid = false
							break
						}
					} else {
						body = append(body, w[i])
					}
				}
				if !valid {
					body = w // declare the raw length: the frame must still be rejected for its escape sequence
				}
				m := RefMsg{ID: 0x0200, Ver: ver, Bcd: bcd, Serial: 0x0102, Body: body}
				p := RefPayload(m, 0, 1)
				head := p[:len(p)-len(body)]
				x := RefXor(p)
				frame := append([]byte{0x7e}, head...)
				frame = append(frame, w...)
				if x == 0x7e {
					frame = append(frame, 0x7d, 0x02)
				} else if x == 0x7d {
					frame = append(frame, 0x7d, 0x01)
				} else {
					frame = append(frame, x)
				}
				frame = append(frame, 0x7e)
				one(frame, "interior")
			}
		}
	}
	// (iii-b) every declared body length 0..1023 (all ten bits of the length field), both versions, with and
	// without package fields
	for bl := 0; bl <= 1023; bl++ {
		ver := uint8(bl & 1)
		bcd := make([]byte, 6+4*int(ver))
		rng.Read(bcd)
		body := make([]byte, bl)
		rng.Read(body)
		m := RefMsg{ID: uint16(rng.Intn(65536)), Enc: uint8(rng.Intn(2)), Frag: uint8((bl >> 1) & 1), Ver: ver, Bcd: bcd,
			Serial: uint16(rng.Intn(65536)), Sum: uint16(1 + rng.Intn(9)), No: uint16(1 + rng.Intn(9)), Body: body}
		one(RefFrame(m), "length-sweep")
	}

	// (iv) random strings and random valid frames
	n := 3000
	if !c.Quick() {
		n = 300000
	}
	for i := 0; i < n; i++ {
		if i%2 == 0 {
			one(randomFrame(c, false), "valid")
			continue
		}
		d := make([]byte, rng.Intn(40))
		rng.Read(d)
		if len(d) > 2 && rng.Intn(2) == 0 {
			d[0], d[len(d)-1] = 0x7e, 0x7e
		}
		one(d, "random")
	}
}

func randomFrame(c *Ctx, small bool) []byte {
	rng := c.Rng
	ver := uint8(rng.Intn(2))
	bcd := make([]byte, 6+4*int(ver))
	rng.Read(bcd)
	if rng.Intn(5) == 0 {
		bcd = make([]byte, len(bcd))
	}
	sizes := []int{0, 1, 5, 30, 127, 128, 255, 256, 511, 512, 513, 1000, 1022, 1023}
	if small {
		sizes = sizes[:4]
	}
	body := make([]byte, sizes[rng.Intn(len(sizes))])
	rng.Read(body)
	if rng.Intn(3) == 0 {
		for i := range body {
			body[i] = alphabet[rng.Intn(len(alphabet))]
		}
	}
	m := RefMsg{ID: uint16(rng.Intn(65536)), Enc: uint8(rng.Intn(2)), Frag: uint8(rng.Intn(2)), Ver: ver, Bcd: bcd,
		Serial: uint16(rng.Intn(65536)), Sum: uint16(rng.Intn(65536)), No: uint16(rng.Intn(65536)), Body: body}
	return RefFrameX(m, uint16(rng.Intn(65536)), byte(rng.Intn(256)))
}

func first(s string) string {
	if strings.HasPrefix(s, "ok") {
		return "ok"
	}
	return s
}

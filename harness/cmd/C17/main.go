package main

import (
	"strings"
	"encoding/binary"
	"errors"
	"fmt"

	. "verifh/lib"

	"github.com/cuteLittleDevil/go-jt808/protocol/jt1078"
)

// ---- an independent builder of JT/T 1078-2016 table 19 packets (shares no code with /repo) ----
type rtpSpec struct {
	V, P, X, CC, M, PT uint8
	Seq                uint16
	Sim                [6]byte
	Chan, DT, Sub      uint8
	TS                 uint64
	IFI, FI            uint16
	Body               []byte
}

func (s rtpSpec) bytes() []byte {
	b := []byte{0x30, 0x31, 0x63, 0x64, s.V<<6 | s.P<<5 | s.X<<4 | s.CC, s.M<<7 | s.PT}
	b = binary.BigEndian.AppendUint16(b, s.Seq)
	b = append(b, s.Sim[:]...)
	b = append(b, s.Chan, s.DT<<4|s.Sub)
	if s.DT != 4 {
		b = binary.BigEndian.AppendUint64(b, s.TS)
	}
	if s.DT <= 2 {
		b = binary.BigEndian.AppendUint16(b, s.IFI)
		b = binary.BigEndian.AppendUint16(b, s.FI)
	}
	b = binary.BigEndian.AppendUint16(b, uint16(len(s.Body)))
	return append(b, s.Body...)
}

// refRead: the standard's reading of the front of an arbitrary byte string (independent of /repo and of bytes()):
// a table-19 packet when one is complete, "short" when the bytes end before the declared one does, "err 2" without
// the marker, "err 1" below the 16 fixed bytes.
func refRead(d []byte) string {
	if len(d) < 16 {
		return "err 1"
	}
	if d[0] != 0x30 || d[1] != 0x31 || d[2] != 0x63 || d[3] != 0x64 {
		return "err 2"
	}
	s := rtpSpec{V: d[4] >> 6, P: d[4] >> 5 & 1, X: d[4] >> 4 & 1, CC: d[4] & 15, M: d[5] >> 7, PT: d[5] & 127,
		Seq: uint16(d[6])<<8 | uint16(d[7]), Chan: d[14], DT: d[15] >> 4, Sub: d[15] & 15}
	copy(s.Sim[:], d[8:14])
	at := 16
	need := func(n int) bool { return len(d) >= at+n }
	if s.DT != 4 {
		if !need(8) {
			return "short"
		}
		for _, x := range d[at : at+8] {
			s.TS = s.TS<<8 | uint64(x)
		}
		at += 8
	}
	if s.DT <= 2 {
		if !need(4) {
			return "short"
		}
		s.IFI, s.FI = uint16(d[at])<<8|uint16(d[at+1]), uint16(d[at+2])<<8|uint16(d[at+3])
		at += 4
	}
	if !need(2) {
		return "short"
	}
	n := int(d[at])<<8 | int(d[at+1])
	at += 2
	if !need(n) {
		return "short"
	}
	s.Body = d[at : at+n]
	return s.canon(d[at+n:])
}

func bcdString(b []byte) string { // the standard's reading of a BCD number: digits, leading zeros dropped
	s := ""
	for _, x := range b {
		s += fmt.Sprintf("%x%x", x>>4, x&15)
	}
	i := 0
	for i < len(s)-1 && s[i] == '0' {
		i++
	}
	if allZero := func() bool {
		for _, ch := range s {
			if ch != '0' {
				return false
			}
		}
		return true
	}(); allZero {
		return s
	}
	return s[i:]
}

func (s rtpSpec) canon(rest []byte) string {
	ts, ifi, fi := s.TS, s.IFI, s.FI
	if s.DT == 4 {
		ts = 0
	}
	if s.DT > 2 {
		ifi, fi = 0, 0
	}
	return fmt.Sprintf("ok v=%d p=%d x=%d cc=%d m=%d pt=%d seq=%d sim=%s ch=%d dt=%d sub=%d ts=%x ifi=%d fi=%d blen=%d body=%s rest=%s",
		s.V, s.P, s.X, s.CC, s.M, s.PT, s.Seq, bcdString(s.Sim[:]), s.Chan, s.DT, s.Sub, ts, ifi, fi, len(s.Body), Hx(s.Body), Hx(rest))
}

func jt1078ErrCode(err error) string {
	switch {
	case errors.Is(err, jt1078.ErrHeaderLength2Short):
		return "err 1"
	case errors.Is(err, jt1078.ErrUnqualifiedData):
		return "err 2"
	case errors.Is(err, jt1078.ErrBodyLength2Short):
		return "err 3"
	}
	return "err ?" + err.Error()
}

func canonPacket(p *jt1078.Packet, rest []byte) string {
	return fmt.Sprintf("ok v=%d p=%d x=%d cc=%d m=%d pt=%d seq=%d sim=%s ch=%d dt=%d sub=%d ts=%x ifi=%d fi=%d blen=%d body=%s rest=%s",
		p.Flag.V, p.Flag.P, p.Flag.X, p.Flag.CC, p.Flag.M, uint8(p.Flag.PT), p.Seq, p.Sim, p.LogicChannel,
		uint8(p.DataType), uint8(p.SubcontractType), p.Timestamp, p.LastIFrameInterval, p.LastFrameInterval,
		p.DataBodyLen, Hx(p.Body), Hx(rest))
}

// jt1078Decode runs the real decoder with a fresh Packet on an exact-capacity copy.
func jt1078Decode(data []byte) (ans string) {
	defer func() {
		if r := recover(); r != nil {
			ans = "panic"
		}
	}()
	p := jt1078.NewPacket()
	rest, err := p.Decode(Exact(data))
	if err != nil {
		return jt1078ErrCode(err)
	}
	return canonPacket(p, rest)
}

// jt1078Reuse decodes a whole stream from the front with ONE Packet reused for every step
// (p.Decode(data) in a for loop, as a stream consumer would): "ok <packet> | <packet> ..." or the
// first error.
func jt1078Reuse(data []byte) (ans string) {
	defer func() {
		if r := recover(); r != nil {
			ans = "panic"
		}
	}()
	p := jt1078.NewPacket()
	rest := Exact(data)
	var out []string
	for len(rest) > 0 {
		r2, err := p.Decode(Exact(rest))
		if err != nil {
			return jt1078ErrCode(err)
		}
		out = append(out, strings.TrimPrefix(canonPacket(p, nil), "ok "))
		rest = r2
	}
	return "ok " + strings.Join(out, " | ")
}

func main() {
	RegisterOp("jt1078", func(a []string) string { return jt1078Decode(Unhx(a[0])) })
	RegisterOp("jt1078reuse", func(a []string) string { return jt1078Reuse(Unhx(a[0])) })
	Main("C17", c17)
}

func c17(c *Ctx) {
	c.Rule = "packets built by an independent table-19 builder over every data type 0..15 x sub-package mark x M x PT x payload lengths, every truncation length of each, concatenations (16 x 16 ordered pairs of data types, each stream also decoded on ONE reused Packet: op jt1078reuse), declared lengths 65505..65535 complete and cut, and arbitrary byte strings; a case is non-trivial when it is at least 16 bytes long and starts with the marker (reaches field extraction); distinct = distinct request bytes"
	rng := c.Rng
	randSpec := func(dt uint8, blen int) rtpSpec {
		s := rtpSpec{V: uint8(rng.Intn(4)), P: uint8(rng.Intn(2)), X: uint8(rng.Intn(2)), CC: uint8(rng.Intn(16)),
			M: uint8(rng.Intn(2)), PT: uint8(rng.Intn(128)), Seq: uint16(rng.Intn(65536)), Chan: uint8(rng.Intn(256)),
			DT: dt, Sub: uint8(rng.Intn(16)), TS: rng.Uint64(), IFI: uint16(rng.Intn(65536)), FI: uint16(rng.Intn(65536))}
		rng.Read(s.Sim[:])
		if rng.Intn(4) == 0 {
			s.Sim = [6]byte{}
		}
		if rng.Intn(4) == 0 {
			s.Sim[0], s.Sim[1] = 0, 0
		}
		s.Body = make([]byte, blen)
		rng.Read(s.Body)
		return s
	}
	one := func(data []byte, required string, what string) {
		nontriv := len(data) >= 16 && string(data[:4]) == "01cd"
		ans := c.Do("jt1078 "+Hx(data), nontriv)
		c.Count(what + ":" + firstWord(ans))
		if required != "" && !matchReq(ans, required) {
			c.Violate(Violation{Signature: "C17/" + what, What: "jt1078 decode differs from the standard's reading",
				Input: "jt1078 " + Hx(data), Observed: ans, Required: required})
		}
	}
	lens := []int{0, 1, 2, 17, 949, 950, 951}
	if !c.Quick() {
		lens = append(lens, 4096, 65535)
	}
	// (1) every data type x lengths x several random field fillings, alone and followed by more data
	reps := 3
	if !c.Quick() {
		reps = 30
	}
	for dt := 0; dt < 16; dt++ {
		for _, bl := range lens {
			for r := 0; r < reps; r++ {
				s := randSpec(uint8(dt), bl)
				b := s.bytes()
				one(b, s.canon(nil), "whole")
				tail := make([]byte, 1+rng.Intn(40))
				rng.Read(tail)
				one(append(append([]byte{}, b...), tail...), s.canon(tail), "whole+tail")
			}
		}
	}
	// boundary field values
	for dt := 0; dt < 16; dt++ {
		for _, hi := range []bool{false, true} {
			s := rtpSpec{DT: uint8(dt)}
			if hi {
				s = rtpSpec{V: 3, P: 1, X: 1, CC: 15, M: 1, PT: 127, Seq: 65535, Chan: 255, DT: uint8(dt), Sub: 15,
					TS: ^uint64(0), IFI: 65535, FI: 65535, Sim: [6]byte{0x99, 0x99, 0x99, 0x99, 0x99, 0x99}, Body: []byte{0x30, 0x31, 0x63, 0x64}}
			}
			one(s.bytes(), s.canon(nil), "boundary")
		}
	}
	// (1b) declared payload lengths at the top of the 16-bit range (header + length crosses 65535): complete
	// packets must decode, and a packet cut anywhere after its header must be "too short" - never a panic
	for _, dt := range []uint8{0, 3, 4, 9} {
		for _, bl := range []int{65505, 65506, 65509, 65510, 65517, 65518, 65534, 65535} {
			s := randSpec(dt, bl)
			b := s.bytes()
			one(b, s.canon(nil), "huge")
			hl := len(b) - bl
			for _, n := range []int{hl, hl + 1, hl + 7, len(b) - 1} {
				one(b[:n], "short", "huge-truncated")
			}
		}
	}
	// (2) every truncation length of packets with small payloads: must be reported too short
	for dt := 0; dt < 16; dt++ {
		for _, bl := range []int{0, 1, 5} {
			s := randSpec(uint8(dt), bl)
			b := s.bytes()
			for n := 0; n < len(b); n++ {
				one(b[:n], "short", "truncated")
			}
		}
	}
	// (2b) EVERY truncation length of packets with 950- and 951-byte payloads, one data type per header length
	for _, dt := range []uint8{0, 3, 4} {
		for _, bl := range []int{950, 951} {
			s := randSpec(dt, bl)
			b := s.bytes()
			for n := 0; n < len(b); n++ {
				one(b[:n], "short", "truncated-950")
			}
		}
	}
	// (3) streams: decode repeatedly from the front
	nstreams := 20
	if !c.Quick() {
		nstreams = 300
	}
	for i := 0; i < nstreams; i++ {
		k := 1 + rng.Intn(20)
		var specs []rtpSpec
		var stream []byte
		for j := 0; j < k; j++ {
			s := randSpec(uint8(rng.Intn(16)), []int{0, 1, 3, 40, 950}[rng.Intn(5)])
			specs = append(specs, s)
			stream = append(stream, s.bytes()...)
		}
		rest := stream
		var all []string
		for j := 0; j < k; j++ {
			want := rest[len(specs[j].bytes()):]
			one(rest, specs[j].canon(want), "stream")
			all = append(all, strings.TrimPrefix(specs[j].canon(nil), "ok "))
			rest = want
		}
		// the same stream consumed with ONE reused Packet: every packet must still be the standard's
		// reading (no field may survive from the previous packet)
		req := "jt1078reuse " + Hx(stream)
		ans := c.Do(req, true)
		c.Count("reuse:" + firstWord(ans))
		if want := "ok " + strings.Join(all, " | "); ans != want {
			c.Violate(Violation{Signature: "C17/stream_reused_packet", What: "a stream decoded with one reused Packet differs from the standard's reading",
				Input: req, Observed: ans, Required: want})
		}
	}
	// pairs (a, b) of every data type with one reused Packet: nothing of a may show in b
	for a := 0; a < 16; a++ {
		for b := 0; b < 16; b++ {
			sa, sb := randSpec(uint8(a), 2), randSpec(uint8(b), 1)
			stream := append(sa.bytes(), sb.bytes()...)
			req := "jt1078reuse " + Hx(stream)
			ans := c.Do(req, true)
			want := "ok " + strings.TrimPrefix(sa.canon(nil), "ok ") + " | " + strings.TrimPrefix(sb.canon(nil), "ok ")
			if ans != want {
				c.Violate(Violation{Signature: "C17/stream_reused_packet", What: "a stream decoded with one reused Packet differs from the standard's reading",
					Input: req, Observed: ans, Required: want})
			}
		}
	}
	// (3b) the marker is only a marker at the FRONT: stray bytes before a well-formed packet (a stream joined in the
	// middle, a damaged first marker), a packet whose payload contains the marker bytes, garbage that ends in a
	// marker - 16 bytes or more that do not begin with 30 31 63 64 are not a packet, whatever follows
	for i := 0; i < 200; i++ {
		s := randSpec(uint8(rng.Intn(16)), []int{0, 3, 40}[rng.Intn(3)])
		pk := s.bytes()
		var b []byte
		switch i % 4 {
		case 0: // 1..20 stray bytes, then a whole packet
			pre := make([]byte, 1+rng.Intn(20))
			rng.Read(pre)
			pre[0] |= 0x80
			b = append(pre, pk...)
		case 1: // first marker damaged in one byte, a second whole packet behind it
			b = append(append([]byte{}, pk...), randSpec(uint8(rng.Intn(16)), 2).bytes()...)
			b[rng.Intn(4)] ^= 0x40
		case 2: // garbage of 16+ bytes ending in the marker
			b = make([]byte, 16+rng.Intn(30))
			rng.Read(b)
			b[0] = 0x7e
			b = append(b, 0x30, 0x31, 0x63, 0x64)
		default: // a whole packet whose payload is the marker followed by another packet: decoded as ONE packet
			s.Body = append([]byte{0x30, 0x31, 0x63, 0x64}, randSpec(3, 1).bytes()...)
			b = s.bytes()
		}
		one(b, refRead(b), "marker-not-at-front")
	}
	// (4) arbitrary byte strings
	narb := 3000
	if !c.Quick() {
		narb = 200000
	}
	for i := 0; i < narb; i++ {
		n := rng.Intn(70)
		b := make([]byte, n)
		rng.Read(b)
		req := ""
		switch rng.Intn(3) {
		case 0: // marker + random
			copy(b, "01cd")
		case 1: // almost the marker
			copy(b, "01cd")
			if n > 0 {
				b[rng.Intn(min(n, 4))] ^= byte(1 << rng.Intn(8))
			}
		}
		// the independent reader's expectation for EVERY string, marker-prefixed ones included (the declared length
		// of a random string mostly exceeds what follows: "short"; small lengths give complete packets)
		if rng.Intn(4) == 0 && n >= 32 {
			b[15] = byte(rng.Intn(256))
			hl := map[bool]int{true: 16, false: 24}[b[15]>>4 == 4]
			if b[15]>>4 <= 2 {
				hl = 28
			}
			b[hl], b[hl+1] = 0, byte(rng.Intn(n-hl))
		}
		req = refRead(b)
		one(b, req, "arbitrary")
	}
}

func firstWord(s string) string {
	for i := 0; i < len(s); i++ {
		if s[i] == ' ' {
			if s[:i] == "err" {
				return s
			}
			return s[:i]
		}
	}
	return s
}

// matchReq: required is either an exact canonical answer or the class "short".
func matchReq(ans, required string) bool {
	if required == "short" {
		return ans == "err 1" || ans == "err 3"
	}
	return ans == required
}

package main

import (
	"fmt"
	. "verifh/lib"
)

func genOverlay(dir, out string) {
	oj, sites, err := GenDelayOverlay(dir, out)
	fmt.Println(oj, err)
	for _, s := range sites {
		fmt.Println(s)
	}
}

package main

import (
	"fmt"
	"os"
	"time"

	. "verifh/lib"

	"github.com/cuteLittleDevil/go-jt808/service"
)

func main() {
	mode := os.Args[1]
	if mode == "overlay" {
		genOverlay(os.Args[2], os.Args[3])
		return
	}
	s := StartSrv(nil)
	switch mode {
	case "selfblock":
		t, _ := s.Dial("13800000001")
		t.Send(0x0002, nil)
		t.Next(time.Second)
		for trial := 0; trial < 10; trial++ {
			var chs []<-chan CallRes
			for i := 0; i < 6; i++ {
				chs = append(chs, s.Call("13800000001", 0x9102, []byte{1, 0, 0, 0}, 800*time.Millisecond))
			}
			var buf []byte
			for i := 0; i < 6; i++ {
				f, ok, _ := t.Next(2 * time.Second)
				if !ok {
					fmt.Println("trial", trial, "command", i, "not written")
					break
				}
				buf = append(buf, TFrame(0x0001, t.Phone, t.NextSerial(), RespBody(0x0001, f.Serial, f.ID))...)
			}
			t.SendRaw(buf)
			n := 0
			for _, ch := range chs {
				r := Await(ch, 3*time.Second)
				if r.Kind != "hang" {
					n++
				}
			}
			fmt.Println("trial", trial, "returned", n, "of 6")
		}
	case "stress":
		for trial := 0; trial < 300; trial++ {
			ph := fmt.Sprintf("137%08d", trial)
			t, _ := s.Dial(ph)
			t.Send(0x0002, nil)
			t.Next(time.Second)
			var chs []<-chan CallRes
			for i := 0; i < 1+trial%5; i++ {
				chs = append(chs, s.Call(ph, 0x9102, []byte{1, 0, 0, 0}, time.Duration(3+trial%7)*time.Millisecond))
			}
			time.Sleep(time.Duration(trial%9) * time.Millisecond)
			if trial%2 == 0 {
				t.Reset()
			} else {
				t.Close()
			}
			hang := 0
			for _, ch := range chs {
				if Await(ch, 1500*time.Millisecond).Kind == "hang" {
					hang++
				}
			}
			if hang > 0 {
				fmt.Println("trial", trial, "hang", hang)
			}
		}
		fmt.Println("survived")
	case "hdr":
		s.Rec.OnJoin = func(msg *service.Message, key string, err error) {
			for i := 0; i < 50; i++ {
				_ = msg.JTMessage.Header.ReplyID + msg.JTMessage.Header.Property.BodyDayaLen
				time.Sleep(100 * time.Microsecond)
			}
		}
		for trial := 0; trial < 20; trial++ {
			ph := fmt.Sprintf("136%08d", trial)
			t, _ := s.Dial(ph)
			done := make(chan struct{})
			go func() {
				for {
					r := Await(s.Call(ph, 0x9102, []byte{1, 0, 0, 0}, 5*time.Millisecond), time.Second)
					if r.Kind != "noexist" {
						close(done)
						return
					}
				}
			}()
			t.Send(0x0002, nil)
			<-done
			t.Close()
		}
		fmt.Println("survived")
	case "t1003":
		t, _ := s.Dial("13500000001")
		t.Send(0x0002, nil)
		t.Next(time.Second)
		wrong := 0
		for trial := 0; trial < 30; trial++ {
			a := s.Call(t.Phone, 0x9003, nil, 300*time.Millisecond)
			t.Next(time.Second)
			b := s.Call(t.Phone, 0x8104, nil, 300*time.Millisecond)
			t.Next(time.Second)
			t.Send(0x1003, RespBody(0x1003, 0, 0))
			ra, rb := Await(a, time.Second), Await(b, time.Second)
			if rb.Kind == "resp" {
				wrong++
			}
			if trial < 5 {
				fmt.Println("9003 caller:", ra, " 8104 caller:", rb)
			}
		}
		fmt.Println("8104 caller got the 0x1003 in", wrong, "of 30")
	case "stranded":
		t, _ := s.Dial("13800000002")
		t.Send(0x0002, nil)
		t.Next(time.Second)
		ch := s.Call("13800000002", 0x9102, []byte{1, 0, 0, 0}, 300*time.Millisecond)
		t.Next(time.Second)
		t.Close()
		fmt.Println("result", Await(ch, 3*time.Second))
	case "closedsend":
		for trial := 0; trial < 200; trial++ {
			ph := fmt.Sprintf("139%08d", trial)
			t, _ := s.Dial(ph)
			t.Send(0x0002, nil)
			t.Next(time.Second)
			var chs []<-chan CallRes
			for i := 0; i < 3; i++ {
				chs = append(chs, s.Call(ph, 0x9102, []byte{1, 0, 0, 0}, 20*time.Millisecond))
			}
			time.Sleep(time.Duration(19000+trial*10) * time.Microsecond)
			t.Reset()
			for _, ch := range chs {
				Await(ch, 300*time.Millisecond)
			}
		}
		fmt.Println("survived")
	}
}

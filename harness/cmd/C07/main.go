package main

// C07 — message body round trip for every two-way message type, and the helpers they are built from.
// Direct oracle (implementation alone): for random and boundary in-domain values v of every type with an
// Encode: Parse(Encode(v)) dumps equal to v and Encode(Parse(Encode(v))) == Encode(v); the helpers likewise;
// the external GBK codec is validated exhaustively over every two-byte code point + ASCII.
// Correspondence: "brt" (bytes -> parse -> dump + re-encoded bytes) and "benc" (value -> bytes -> parse back, wf=)
// answered by the real code and by the extracted Coq model (coq/Model/Msg_*.v, Params.v via oracle/drv_c07.ml);
// "bparse" on neighbours of encoded bodies (parse side only), "ptable" (the parameter id -> field / kind table read off
// the real struct and parser against the model's), the helper ops.  Values are built WITHOUT the parser (reflection
// for terminal parameters, the standard's bit tables for location details); bodies laid out from the standard must be
// accepted and re-encoded identically (wellFormedBodies).  Recorded findings have their own witnesses
// (signIDFinding, the caseless parameter fields) and are kept out of the correspondence stream.

import (
	"bytes"
	"fmt"
	"strings"
	"unicode/utf8"

	. "verifh/lib"

	"github.com/cuteLittleDevil/go-jt808/protocol/model"
	"github.com/cuteLittleDevil/go-jt808/protocol/utils"
	"github.com/cuteLittleDevil/go-jt808/shared/consts"
)

func main() { Main("C07", c07) }

var violCount = map[string]int{}

// inModel: the message types whose Coq model exists (coq/Model/Msg_*.v, reachable from the oracle's registry);
// for these every generated value is also a correspondence case in both directions.  The others are checked by
// the direct oracle only.
var inModel = map[string]bool{
	"T0x0200": true, "T0x0704": true, "T0x0801": true,
	"T0x0001": true, "T0x0002": true, "T0x0100": true, "T0x0102": true, "T0x0800": true, "T0x0805": true, "T0x1003": true,
	"T0x1005": true, "T0x1205": true, "T0x1206": true, "T0x1210": true, "T0x1211": true, "T0x1212": true,
	"P0x8001": true, "P0x8003": true, "P0x8100": true, "P0x8103": true, "P0x8104": true, "P0x8800": true, "P0x8801": true,
	"P0x9003": true, "P0x9101": true, "P0x9102": true, "P0x9105": true, "P0x9201": true, "P0x9202": true,
	"P0x9205": true, "P0x9206": true, "P0x9207": true, "P0x9208": true, "P0x9212": true,
}

func viol(c *Ctx, v Violation) {
	violCount[v.Signature]++
	if violCount[v.Signature] <= 3 {
		c.Violate(v)
	}
}

// gbkArg: the translation pairs of the non-ASCII text of a value (every string leaf of its dump that is not
// pure ASCII and is valid UTF-8 text): "g=<gbk hex>:<utf8 hex>,..."; "" when there is none.
func gbkArg(texts []string) string {
	var parts []string
	seen := map[string]bool{}
	for _, s := range texts {
		if s == "" || seen[s] {
			continue
		}
		ascii := true
		for i := 0; i < len(s); i++ {
			if s[i] >= 0x80 {
				ascii = false
			}
		}
		if ascii || !utf8.ValidString(s) || string(utils.GBK2UTF8(utils.UTF82GBK([]byte(s)))) != s {
			continue
		}
		seen[s] = true
		parts = append(parts, Hx(utils.UTF82GBK([]byte(s)))+":"+Hx([]byte(s)))
	}
	if len(parts) == 0 {
		return ""
	}
	return " g=" + strings.Join(parts, ",")
}

func c07(c *Ctx) {
	c.Rule = "per two-way message type x header version x dialect: random and boundary in-domain values (list lengths 0..4 and larger, numerics 0/1/max, strings of length 0,1,n-1,n, every terminal-parameter id alone and in subsets), encoded by the real Encode, parsed back and re-encoded; helper round trips; every two-byte GBK code point. A case is non-trivial when the encoded body is non-empty; distinct = distinct (type,version,dialect,bytes)"
	g := &Gen{R: c.Rng, Big: !c.Quick()}
	per := 60
	if !c.Quick() {
		per = 1500
	}
	for _, t := range append(append([]*BodyType{}, BodyTypes...), LocBodyTypes...) {
		if !t.TwoWay {
			continue
		}
		for _, ver := range t.Versions() {
			for _, dial := range t.Dialects() {
				d := consts.ActiveSafetyType(dial)
				for i := 0; i < per; i++ {
					v, ok := g.Value(t, ver, d)
					if !ok {
						break
					}
					oneValue(c, t, ver, dial, v)
				}
			}
		}
	}
	// exhaustive small scope for every type with a counted list: lengths 0..4 and the largest the count byte can
	// express (255; the WORD / DWORD counts go to 300 here and to 65535 in the thorough tier)
	lens := []int{0, 1, 2, 3, 4, 255, 300}
	if !c.Quick() {
		lens = append(lens, 65535)
	}
	for _, name := range []string{"P0x8003", "P0x8800", "P0x9212", "T0x0805", "T0x1205", "T0x1210", "T0x0704"} {
		t := BodyTypeByName(name)
		for _, dial := range t.Dialects() {
			for _, k := range lens {
				g.ForceList = k + 1
				if name == "T0x0704" {
					g.ForceList = k // the generator adds the mandatory first item itself
					if k == 0 {
						continue
					}
				}
				for i := 0; i < 3; i++ {
					if v, ok := g.Value(t, 2, consts.ActiveSafetyType(dial)); ok {
						c.Count(fmt.Sprintf("listlen:%s:%d", name, k))
						oneValue(c, t, 2, dial, v)
					}
				}
			}
		}
	}
	g.ForceList = 0
	reusedReceiver(c, g)
	wellFormedBodies(c, g)
	signIDFinding(c, g)
	paramsSweep(c, g)
	helpers(c, g)
	gbkSweep(c)
}

// reusedReceiver: the server keeps ONE handler object per message id and connection, so the byte direction of the
// property must hold on a receiver that has parsed other bodies before: sequences of 2-3 encoded in-domain values
// parsed by one receiver, Encode after each parse must give what a fresh receiver gives for that body (= the body).
// Random sequences, and for the list types "long list, then empty list, then short list" (state left over from the
// longer message is the typical defect).  Direct oracle only: the model has no receiver.
func reusedReceiver(c *Ctx, g *Gen) {
	n := 12
	if !c.Quick() {
		n = 300
	}
	fresh := func(t *BodyType, ver, dial int, b []byte) (string, bool) {
		h := t.New(consts.ActiveSafetyType(dial))
		if ParseInto(h, ver, Exact(b)) != "ok" {
			return "", false
		}
		e, p := SafeEncode(h)
		return Hx(e), !p
	}
	run := func(t *BodyType, dial int, seq []VerBody) {
		h := t.New(consts.ActiveSafetyType(dial))
		var parts []string
		for i, vb := range seq {
			parts = append(parts, vb.String())
			want, ok := fresh(t, vb.Ver, dial, vb.Body)
			if !ok {
				return // a fresh receiver already fails: reported by the round-trip oracle
			}
			req := fmt.Sprintf("bseqrt %s %d %s", t.Name, dial, strings.Join(parts, " "))
			c.Eval(req, i > 0)
			got := "?"
			if o := ParseInto(h, vb.Ver, Exact(vb.Body)); o != "ok" {
				got = o
			} else if e, p := SafeEncode(h); p {
				got = "panic"
			} else {
				got = Hx(e)
			}
			if got != want {
				viol(c, Violation{Signature: "C07/reencode-reused/" + t.Name, What: fmt.Sprintf("a receiver that parsed %d earlier bodies re-encodes the last one differently from a fresh receiver", i),
					Input: req, Observed: got, Required: want})
				return
			}
		}
		c.Count("reused:" + t.Name)
	}
	value := func(t *BodyType, ver, dial int) ([]byte, bool) {
		v, ok := g.Value(t, ver, consts.ActiveSafetyType(dial))
		if !ok {
			return nil, false
		}
		b, p := SafeEncode(v)
		return b, !p
	}
	hasList := map[string]bool{"P0x8003": true, "P0x8800": true, "P0x9212": true, "T0x0805": true, "T0x1205": true, "T0x1210": true, "T0x0704": true, "P0x8103": true}
	for _, t := range append(append([]*BodyType{}, BodyTypes...), LocBodyTypes...) {
		if !t.TwoWay {
			continue
		}
		for _, dial := range t.Dialects() {
			for i := 0; i < n; i++ {
				var seq []VerBody
				for k := 0; k < 2+c.Rng.Intn(2); k++ {
					ver := t.Versions()[c.Rng.Intn(len(t.Versions()))]
					if b, ok := value(t, ver, dial); ok {
						seq = append(seq, VerBody{Ver: ver, Body: b})
					}
				}
				run(t, dial, seq)
			}
			if hasList[t.Name] {
				for i := 0; i < 4; i++ {
					var seq []VerBody
					for _, k := range []int{3 + c.Rng.Intn(4), 0, 1 + c.Rng.Intn(2)} {
						g.ForceList = k + 1
						if b, ok := value(t, 2, dial); ok {
							seq = append(seq, VerBody{Ver: 2, Body: b})
						}
					}
					g.ForceList = 0
					run(t, dial, seq)
				}
			}
		}
	}
	g.ForceList = 0
}

// wellFormedBodies: the other half of the property, literally: bodies laid out here from the standard (independent of
// Encode) must be accepted and Encode(Parse(b)) must give b back.  Location family (blocks without additional
// information) and fixed layouts with list counts.
func wellFormedBodies(c *Ctx, g *Gen) {
	n := 150
	if !c.Quick() {
		n = 5000
	}
	check := func(name string, body []byte) {
		t := BodyTypeByName(name)
		h := t.New(0)
		req := fmt.Sprintf("brt %s %d %d %s", name, 2, 0, Hx(body))
		out := ParseInto(h, 2, Exact(body))
		c.Count("wellformed:" + name)
		if out != "ok" {
			viol(c, Violation{Signature: "C07/wellformed-rejected/" + name, What: "a well-formed body (laid out from the standard) is rejected", Input: req, Observed: out, Required: "ok"})
			c.Eval(req, true)
			return
		}
		b2, p := SafeEncode(h)
		if p || !bytes.Equal(b2, body) {
			viol(c, Violation{Signature: "C07/reencode-wellformed/" + name, What: "Encode(Parse(b)) differs from the well-formed body b", Input: req, Observed: Hx(b2), Required: Hx(body)})
		}
		if inModel[name] {
			c.Do(req, true)
		} else {
			c.Eval(req, true)
		}
	}
	be16 := func(x uint16) []byte { return []byte{byte(x >> 8), byte(x)} }
	be32 := func(x uint32) []byte { return []byte{byte(x >> 24), byte(x >> 16), byte(x >> 8), byte(x)} }
	for i := 0; i < n; i++ {
		check("T0x0200", g.LocBlock())
		k := 1 + c.Rng.Intn(5)
		body := append(be16(uint16(k)), byte(c.Rng.Intn(2)))
		for j := 0; j < k; j++ {
			body = append(append(body, 0, 28), g.LocBlock()...)
		}
		check("T0x0704", body)
		check("T0x0801", append(append(append(be32(c.Rng.Uint32()), g.Bytes(4)...), g.LocBlock()...), g.Bytes(c.Rng.Intn(20))...))
		// counted lists: serial, count, items
		k = c.Rng.Intn(6)
		body = append(be16(uint16(c.Rng.Intn(65536))), byte(k))
		for j := 0; j < k; j++ {
			body = append(body, be16(uint16(c.Rng.Intn(65536)))...)
		}
		check("P0x8003", body)
		body = append(append(be16(uint16(c.Rng.Intn(65536))), byte(c.Rng.Intn(256))), be16(uint16(k))...)
		for j := 0; j < k; j++ {
			body = append(body, be32(c.Rng.Uint32())...)
		}
		check("T0x0805", body)
		name := g.Bytes(c.Rng.Intn(12))
		body = append(append([]byte{byte(len(name))}, name...), byte(c.Rng.Intn(5)), byte(c.Rng.Intn(2)), byte(k))
		for j := 0; j < k; j++ {
			body = append(append(body, be32(c.Rng.Uint32())...), be32(c.Rng.Uint32())...)
		}
		check("P0x9212", body)
	}
}

// signIDFinding: the recorded finding C07/sign-id-leading-nul.  Alarm-sign terminal ids that begin with NUL are in
// the property's domain (they fit, no trailing NUL) but P9208AlarmSign.parse strips NUL on both sides.  The class is
// kept out of the correspondence stream (the model carries the as-is behaviour, the required one is m_9208_required)
// and exercised here; while the implementation still loses the byte the violation carries the finding's signature.
func signIDFinding(c *Ctx, g *Gen) {
	for _, name := range []string{"P0x9208", "T0x1210"} {
		t := BodyTypeByName(name)
		for _, dial := range t.Dialects() {
			for i := 0; i < 6; i++ {
				v, _ := g.Value(t, 2, consts.ActiveSafetyType(dial))
				idLen := 7
				if dial == 2 || dial == 3 || dial == 5 {
					idLen = 30
				}
				id := append([]byte{0}, g.Bytes(1+c.Rng.Intn(idLen-1))...)
				if id[len(id)-1] == 0 {
					id[len(id)-1] = 0x44
				}
				switch x := v.(type) {
				case *model.P0x9208:
					x.P9208AlarmSign.TerminalID = string(id)
				case *model.T0x1210:
					x.P9208AlarmSign.TerminalID = string(id)
				}
				before := DumpHandler(v)
				b, p := SafeEncode(v)
				reqv := fmt.Sprintf("benc %s %d %d %s", t.Name, 2, dial, before)
				c.Eval(reqv, true)
				c.Count("finding-class:sign-id-leading-nul")
				if p {
					viol(c, Violation{Signature: "C07/encode-panic/" + t.Name, What: "Encode panicked on an in-domain value", Input: reqv, Observed: "panic", Required: "bytes"})
					continue
				}
				h2 := t.New(consts.ActiveSafetyType(dial))
				out := ParseInto(h2, 2, Exact(b))
				if out != "ok" || DumpHandler(h2) != before {
					got := out
					if out == "ok" {
						got = DumpHandler(h2)
					}
					viol(c, Violation{Signature: "C07/sign-id-leading-nul", What: "an alarm-sign terminal id that begins with NUL does not survive Encode/Parse (bytes.Trim strips both sides)",
						Input: reqv, Observed: Trunc(got, 1500), Required: Trunc(before, 1500)})
				}
			}
		}
	}
}

func oneValue(c *Ctx, t *BodyType, ver, dial int, v BodyHandler) {
	before := DumpHandler(v)
	var texts []string
	if t.Gbk {
		texts = textLeaves(v)
	}
	b, p := SafeEncode(v)
	reqv := fmt.Sprintf("benc %s %d %d %s", t.Name, ver, dial, before) + gbkArg(texts)
	if p {
		viol(c, Violation{Signature: "C07/encode-panic/" + t.Name, What: "Encode panicked on an in-domain value", Input: reqv, Observed: "panic", Required: "bytes"})
		return
	}
	after := DumpHandler(v) // Encode may normalise the value (0x9208 reserve padding); the property speaks of the value encoded
	_ = after
	h2 := t.New(consts.ActiveSafetyType(dial))
	out := ParseInto(h2, ver, Exact(b))
	c.Count("type:" + t.Name + ":" + out)
	req := fmt.Sprintf("brt %s %d %d %s", t.Name, ver, dial, Hx(b)) + gbkArg(texts)
	if out != "ok" {
		viol(c, Violation{Signature: "C07/roundtrip/" + t.Name, What: "Parse rejects (or panics on) the body its own Encode produced",
			Input: reqv, Observed: out + " on " + Hx(b), Required: "ok " + before})
	} else {
		got := DumpHandler(h2)
		if got != before {
			viol(c, Violation{Signature: "C07/roundtrip/" + t.Name, What: "Parse(Encode(v)) differs from v",
				Input: reqv, Observed: Trunc(got, 1500), Required: Trunc(before, 1500)})
		}
		b2, p2 := SafeEncode(h2)
		if p2 || !bytes.Equal(b2, b) {
			viol(c, Violation{Signature: "C07/reencode/" + t.Name, What: "re-encoding the parsed value gives different bytes",
				Input: req, Observed: Hx(b2), Required: Hx(b)})
		}
	}
	// correspondence: bytes -> value -> bytes, and value -> bytes -> value
	if inModel[t.Name] && len(b) <= 20000 {
		c.Do(req, len(b) > 0)
		c.Do(reqv, len(b) > 0)
		c.Count("corr:" + t.Name)
		// neighbours of the encoded body (one byte short, one byte long, one byte flipped): correspondence only - the
		// model claims to mirror which bodies a parser rejects (short reads, `!=` guards) and which trailing bytes it ignores
		if !t.Gbk && len(b) <= 2000 && c.Rng.Intn(3) == 0 {
			var nb []byte
			switch c.Rng.Intn(3) {
			case 0:
				if len(b) > 0 {
					nb = b[:len(b)-1]
				}
			case 1:
				nb = append(append([]byte{}, b...), byte(c.Rng.Intn(256)))
			default:
				if len(b) > 0 {
					nb = append([]byte{}, b...)
					nb[c.Rng.Intn(len(nb))] ^= byte(1 << uint(c.Rng.Intn(8)))
				}
			}
			if nb != nil {
				// bparse = the parse side only: re-encoding a value outside the domain (e.g. a time text with
				// non-decimal characters) is not something the model claims to mirror
				ans := c.Do(fmt.Sprintf("bparse %s %d %d %s", t.Name, ver, dial, Hx(nb)), true)
				c.Count("neighbour:" + strings.SplitN(ans, " ", 2)[0])
			}
		}
	} else {
		c.Eval(req, true)
		c.Count("direct-only:" + t.Name)
	}
}

// textLeaves: the string fields of a value (candidates for GBK conversion).
func textLeaves(v BodyHandler) []string {
	var out []string
	CollectStrings(v, &out)
	return out
}

// paramsSweep: every terminal-parameter id alone, all together, in wire order different from struct order.
func paramsSweep(c *Ctx, g *Gen) {
	t := BodyTypeByName("P0x8103")
	// the id -> field / kind table itself, read off the real struct and parser, against the model's param_fields
	c.Do("ptable", true)
	// every id 0..0x1ff alone on the wire (typed, caseless and unknown ids alike): parse + re-encode, both sides
	for id := uint32(0); id < 0x200; id++ {
		body := append([]byte{1}, g.ParamsWire([]uint32{id})...)
		h := t.New(0)
		if ParseInto(h, 2, Exact(body)) != "ok" {
			viol(c, Violation{Signature: "C07/params-reject", What: "a one-parameter list is rejected", Input: "brt P0x8103 2 0 " + Hx(body), Observed: "err", Required: "ok"})
			continue
		}
		c.Count("params:id-sweep")
		c.Do("brt P0x8103 2 0 "+Hx(body)+gbkArg(textLeaves(h)), true)
	}
	all := AllParamIDs()
	extra := []uint32{0x02a, 0x02b, 0x000, 0x075, 0x076, 0x111, 0xf364, 0xffffffff}
	reps := 2
	if !c.Quick() {
		reps = 20
	}
	one := func(body []byte, what string) {
		// the value is whatever the real parser makes of an in-domain wire list; the property: Encode(Parse(b)) parses back to the same value,
		// and for lists already in Encode order Encode(Parse(b)) == b
		h := t.New(0)
		if o := ParseInto(h, 2, Exact(body)); o != "ok" {
			viol(c, Violation{Signature: "C07/params-reject", What: "an in-domain parameter list is rejected", Input: "brt P0x8103 2 0 " + Hx(body), Observed: o, Required: "ok"})
			return
		}
		c.Count("params:" + what)
		oneValue(c, t, 2, 0, h)
	}
	for r := 0; r < reps; r++ {
		for _, id := range append(append([]uint32{}, all...), extra...) {
			one(append([]byte{1}, g.ParamsWire([]uint32{id})...), "single")
		}
		var known []uint32
		for _, id := range all {
			if id != 0x018 && id != 0x019 && id != 0x021 {
				known = append(known, id)
			}
		}
		one(append([]byte{byte(len(known))}, g.ParamsWire(known)...), "all-known")
		// reversed wire order: parse is order-independent
		rev := make([]uint32, len(known))
		for i, id := range known {
			rev[len(known)-1-i] = id
		}
		one(append([]byte{byte(len(rev))}, g.ParamsWire(rev)...), "all-reversed")
	}
	// values built WITHOUT the parser (typed fields assigned directly): every typed id alone, all together, random
	// subsets with unknown ids.  The three declared fields parseParam has no case for (0x018 0x019 0x021) are the
	// recorded finding C07/params-caseless-field: exercised on their own, never in the stream above.
	caseless := map[uint32]bool{0x018: true, 0x019: true, 0x021: true}
	unknown := []uint32{0x018, 0x019, 0x021, 0x02a, 0x02b, 0x000, 0x075, 0x076, 0x111, 0xf364, 0xffffffff}
	for r := 0; r < reps; r++ {
		for _, id := range all {
			if caseless[id] {
				continue
			}
			id := id
			c.Count("params:direct-single")
			oneValue(c, t, 2, 0, g.ParamsDirect(func(x uint32) bool { return x == id }, nil))
		}
		c.Count("params:direct-all")
		oneValue(c, t, 2, 0, g.ParamsDirect(func(x uint32) bool { return !caseless[x] }, nil))
		for k := 0; k < 10*reps; k++ {
			var oth []uint32
			for _, id := range unknown {
				if c.Rng.Intn(5) == 0 {
					oth = append(oth, id)
				}
			}
			dens := 1 + c.Rng.Intn(12)
			c.Count("params:direct-subset")
			oneValue(c, t, 2, 0, g.ParamsDirect(func(x uint32) bool { return !caseless[x] && c.Rng.Intn(dens) == 0 }, oth))
		}
	}
	for id := range caseless {
		id := id
		v := g.ParamsDirect(func(x uint32) bool { return x == id }, nil)
		before := DumpHandler(v)
		b, _ := SafeEncode(v)
		h2 := t.New(0)
		out := ParseInto(h2, 2, Exact(b))
		reqv := fmt.Sprintf("benc %s %d %d %s", t.Name, 2, 0, before)
		c.Eval(reqv, true)
		c.Count("finding-class:params-caseless-field")
		if out != "ok" || DumpHandler(h2) != before {
			viol(c, Violation{Signature: "C07/params-caseless-field", What: fmt.Sprintf("the declared parameter field of id %#x is written by Encode but never filled by Parse (no case in parseParam): the value comes back as unknown content", id),
				Input: reqv, Observed: out + " " + Trunc(DumpHandler(h2), 1200), Required: Trunc(before, 1200)})
		}
	}
	// the wire list itself must survive: every id that is accepted must be re-emitted
	for _, id := range append(append([]uint32{}, all...), extra...) {
		body := append([]byte{1}, g.ParamsWire([]uint32{id})...)
		h := t.New(0)
		if ParseInto(h, 2, Exact(body)) != "ok" {
			continue
		}
		b2, _ := SafeEncode(h)
		req := "brt P0x8103 2 0 " + Hx(body) + gbkArg(textLeaves(h))
		if inModel[t.Name] {
			c.Do(req, true)
		} else {
			c.Eval(req, true)
		}
		if !bytes.Equal(b2, body) {
			viol(c, Violation{Signature: fmt.Sprintf("C07/params-dropped/%#x", id), What: "a parameter the parser accepts is not stored: re-encoding loses it",
				Input: req, Observed: Hx(b2), Required: Hx(body)})
		}
	}
}

func helpers(c *Ctx, g *Gen) {
	n := 300
	if !c.Quick() {
		n = 20000
	}
	for i := 0; i < n; i++ {
		// BCD time: 6 bytes of decimal digits <-> "20YY-MM-DD hh:mm:ss"
		ts := g.Time()
		b := utils.Time2BCD(ts)
		back := utils.BCD2Time(b)
		c.Do("time2bcd "+Hx([]byte(ts)), true)
		c.Do("bcd2time "+Hx(b), true)
		if back != ts || len(b) != 6 {
			viol(c, Violation{Signature: "C07/helper/time", What: "BCD2Time(Time2BCD(t)) != t", Input: "time2bcd " + Hx([]byte(ts)), Observed: back, Required: ts})
		}
		// the other direction: any 6 BCD bytes
		raw := make([]byte, 6)
		for k := range raw {
			raw[k] = byte(c.Rng.Intn(10)<<4 | c.Rng.Intn(10))
		}
		if got := utils.Time2BCD(utils.BCD2Time(raw)); !bytes.Equal(got, raw) {
			viol(c, Violation{Signature: "C07/helper/time", What: "Time2BCD(BCD2Time(b)) != b", Input: "bcd2time " + Hx(raw), Observed: Hx(got), Required: Hx(raw)})
		}
		c.Do("bcd2time "+Hx(raw), true)
		// arbitrary bytes through BCD2Time / Time2BCD (totality, correspondence incl. non-decimal nibbles)
		any := g.Bytes(c.Rng.Intn(9))
		c.Do("bcd2time "+Hx(any), len(any) > 0)
		c.Do("time2bcd "+Hx([]byte(utils.BCD2Time(any))), len(any) > 0)
		// short digit strings (the non-timestamp branch of Time2BCD): "YYMMDDhhmmss" and odd lengths
		ds := ""
		for k := c.Rng.Intn(15); k > 0; k-- {
			ds += string(rune('0' + c.Rng.Intn(10)))
		}
		c.Do("time2bcd "+Hx([]byte(ds)), len(ds) > 0)
		// phone numbers: Bcd2Dec on 6 / 10 BCD bytes: the digits without leading zeros
		pl := []int{6, 10}[c.Rng.Intn(2)]
		ph := make([]byte, pl)
		lead := c.Rng.Intn(pl * 2)
		digits := ""
		for k := 0; k < pl*2; k++ {
			dgt := c.Rng.Intn(10)
			if k < lead {
				dgt = 0
			}
			digits += string(rune('0' + dgt))
			if k%2 == 0 {
				ph[k/2] = byte(dgt << 4)
			} else {
				ph[k/2] |= byte(dgt)
			}
		}
		want := strings.TrimLeft(digits, "0")
		if want == "" {
			want = digits
		}
		got := utils.Bcd2Dec(ph)
		c.Do("bcd2dec "+Hx(ph), true)
		if got != want {
			viol(c, Violation{Signature: "C07/helper/phone", What: "Bcd2Dec differs from the digits without leading zeros", Input: "bcd2dec " + Hx(ph), Observed: got, Required: want})
		}
		// and back: the digits re-packed (left-padded with zeros) give the same bytes
		padded := strings.Repeat("0", pl*2-len(got)) + got
		if len(got) <= pl*2 {
			if re := utils.Time2BCD(padded); !bytes.Equal(re, ph) {
				viol(c, Violation{Signature: "C07/helper/phone", What: "re-packing the phone digits gives different BCD bytes", Input: "bcd2dec " + Hx(ph), Observed: Hx(re), Required: Hx(ph)})
			}
		}
		c.Do("bcd2dec "+Hx(g.Bytes(c.Rng.Intn(11))), true)
		// fixed-width padding: String2FillingBytes then trailing-NUL trim is the identity on strings without trailing NUL that fit
		w := 1 + c.Rng.Intn(32)
		s := g.Padded(w, false)
		f := utils.String2FillingBytes(s, w)
		c.Do(fmt.Sprintf("fill %s %d", Hx([]byte(s)), w), true)
		if len(f) != w || string(bytes.TrimRight(f, "\x00")) != s {
			viol(c, Violation{Signature: "C07/helper/fill", What: "padding then trimming differs from the string", Input: fmt.Sprintf("fill %s %d", Hx([]byte(s)), w), Observed: Hx(f), Required: Hx([]byte(s)) + " padded to " + fmt.Sprint(w)})
		}
		// over-long strings are cut (out of domain for the round trip; correspondence only)
		long := g.Raw(w + 1 + c.Rng.Intn(5))
		c.Do(fmt.Sprintf("fill %s %d", Hx([]byte(long)), w), true)
	}
}

// gbkSweep validates the hypothesis the Coq theorems about GBK text carry as a premise against the real
// library: UTF82GBK(GBK2UTF8(b)) == b for every valid two-byte GBK code point and every ASCII byte, and
// GBK2UTF8(UTF82GBK(s)) == s for the decoded text.
func gbkSweep(c *Ctx) {
	valid, bad := 0, 0
	for b := 0; b < 0x80; b++ {
		in := []byte{byte(b)}
		u := utils.GBK2UTF8(in)
		if !bytes.Equal(u, in) || !bytes.Equal(utils.UTF82GBK(u), in) {
			viol(c, Violation{Signature: "C07/gbk/ascii", What: "ASCII byte not preserved by the GBK codec", Input: "gbk " + Hx(in), Observed: Hx(u), Required: Hx(in)})
		}
		c.Eval("gbk "+Hx(in), true)
	}
	for hi := 0x81; hi <= 0xFE; hi++ {
		for lo := 0x40; lo <= 0xFE; lo++ {
			if lo == 0x7F {
				continue
			}
			in := []byte{byte(hi), byte(lo)}
			u := utils.GBK2UTF8(in)
			c.Eval("gbk "+Hx(in), true)
			if string(u) == "�" || len(u) == 0 {
				bad++ // unassigned code point: not in the domain
				continue
			}
			back := utils.UTF82GBK(u)
			if !bytes.Equal(back, in) {
				// a decoded character whose canonical encoding is a different code point (duplicate mappings) is outside the
				// domain "GBK-encodable text" only in the bytes->text->bytes direction; text->bytes->text must still hold
				if !bytes.Equal(utils.GBK2UTF8(back), u) {
					viol(c, Violation{Signature: "C07/gbk/text", What: "GBK2UTF8(UTF82GBK(s)) != s", Input: "gbk " + Hx(in), Observed: Hx(utils.GBK2UTF8(back)), Required: Hx(u)})
				}
				c.Count("gbk:noncanonical")
				continue
			}
			if !bytes.Equal(utils.GBK2UTF8(back), u) {
				viol(c, Violation{Signature: "C07/gbk/text", What: "GBK2UTF8(UTF82GBK(s)) != s", Input: "gbk " + Hx(in), Observed: Hx(utils.GBK2UTF8(back)), Required: Hx(u)})
			}
			valid++
		}
	}
	c.Extra["gbk_two_byte_valid"] = valid
	c.Extra["gbk_two_byte_unassigned"] = bad
	c.Count(fmt.Sprintf("gbk:valid=%d", valid))
	// concatenations: text built from valid code points and ASCII round-trips as a whole
	for i := 0; i < 200; i++ {
		var s []byte
		for k := 0; k < 1+c.Rng.Intn(12); k++ {
			if c.Rng.Intn(2) == 0 {
				s = append(s, byte(0x20+c.Rng.Intn(0x5f)))
			} else {
				in := []byte{byte(0xB0 + c.Rng.Intn(0x40)), byte(0xA1 + c.Rng.Intn(0x5E))}
				if u := utils.GBK2UTF8(in); string(u) != "�" && bytes.Equal(utils.UTF82GBK(u), in) {
					s = append(s, in...)
				}
			}
		}
		u := utils.GBK2UTF8(s)
		if !bytes.Equal(utils.UTF82GBK(u), s) {
			viol(c, Violation{Signature: "C07/gbk/concat", What: "GBK text does not survive GBK2UTF8 then UTF82GBK", Input: "gbk " + Hx(s), Observed: Hx(utils.UTF82GBK(u)), Required: Hx(s)})
		}
		c.Eval("gbk "+Hx(s), true)
	}
}

package main

// C06 — automatic replies: one per request, correctly correlated, ordered, consecutively numbered.
// Correspondence: conversations played against a real in-process server (lib/ops_reply.go) vs the
// extracted model (oracle/drv_c06.ml, op "conv"); reply table: every id 0..65535 probed over the
// socket + the HasReply/ReplyProtocol methods of every registered model type (op "rtable").
// Direct oracle: the property itself checked on what the server did, against a reference written
// here from the standard / the property text (shares nothing with the Coq model).

import (
	"bytes"
	"fmt"
	"math/rand"
	"strings"
	"sync"

	. "verifh/lib"
)

// ---- reference (DESIGN appendix B.6) ----
var stdReply = map[uint16]uint16{
	0x0002: 0x8001, 0x0200: 0x8001, 0x0704: 0x8001, 0x0800: 0x8001, 0x1005: 0x8001, 0x1210: 0x8001, 0x1211: 0x8001,
	0x0102: 0x8001, 0x1003: 0x8001, 0x0100: 0x8100, 0x0801: 0x8800, 0x1212: 0x9212,
}
var responseIDs = []uint16{0x0001, 0x0104, 0x0805, 0x1205, 0x1206}
var platformIDs = []uint16{0x8103, 0x8104, 0x8801, 0x9003, 0x9101, 0x9102, 0x9205, 0x9206, 0x9207, 0x9208}
var stdRegistered = func() map[uint16]bool {
	m := map[uint16]bool{0x8003: true}
	for k := range stdReply {
		m[k] = true
	}
	for _, k := range responseIDs {
		m[k] = true
	}
	for _, k := range platformIDs {
		m[k] = true
	}
	return m
}()
var replyIDs = []uint16{0x0002, 0x0200, 0x0704, 0x0800, 0x1005, 0x1210, 0x1211, 0x0102, 0x1003, 0x0100, 0x0801, 0x1212}

func be16(v uint16) []byte { return []byte{byte(v >> 8), byte(v)} }

// expected reply of one delivered message: answered?, reply id, body (nil body = not prescribed)
func expect(d RpDelivered) (answered bool, rid uint16, body []byte, bodyKnown bool) {
	f := d.F
	rid, ok := stdReply[f.ID]
	if !ok || !d.HasComplete() {
		return false, 0, nil, false
	}
	general := func(res byte) []byte { return append(append(be16(f.Serial), be16(f.ID)...), res) }
	switch f.ID {
	case 0x0102:
		code := f.Body
		if f.Ver == 1 {
			if len(f.Body) < 36 || len(f.Body) < 36+int(f.Body[0]) {
				return false, 0, nil, false // logged and not answered, by design
			}
			code = f.Body[1 : 1+int(f.Body[0])]
		}
		res := byte(1)
		if string(code) == RpPhoneString(f.BCD) {
			res = 0
		}
		return true, rid, general(res), true
	case 0x0100:
		return true, rid, append(append(be16(f.Serial), 0), []byte(RpPhoneString(f.BCD))...), true
	case 0x0801:
		if len(f.Body) >= 4 { // under 36 bytes the code answers with a stale id: known finding C06/0801-short-body
			return true, rid, f.Body[:4], true
		}
		return true, rid, nil, false
	case 0x1212:
		if len(f.Body) >= 6 && len(f.Body) == 6+int(f.Body[0]) {
			return true, rid, append(append([]byte{}, f.Body[:2+int(f.Body[0])]...), 0, 0), true
		}
		return true, rid, nil, false
	case 0x1003:
		return true, rid, []byte{}, true
	}
	return true, rid, general(0), true
}

// ---- the direct oracle: the property on what the server did ----
// conversations that ran into a time-out (a reply that never came): after a few of them the rest
// of the run is skipped - every further conversation would wait 4 s per barrier
var timeouts int

// how often each direct-oracle signature fired in this run (written to the evidence as extra.violations_by_signature)
var sigCount = map[string]int{}

func direct(c *Ctx, mode, req string, items []RpItem, r *RpResult) {
	if r.Timeout != "" {
		timeouts++
	}
	viol := func(sig, what, obs, want string) {
		sigCount["C06/"+sig]++ // the true number per signature (the evidence keeps at most 12 records of each)
		c.Violate(Violation{Signature: "C06/" + sig, What: what, Input: req, Observed: Trunc(obs, 600), Required: Trunc(want, 600)})
	}
	if r.Timeout != "" {
		viol("no-reply", "a reply the harness waited for never arrived (or the connection did not close)", "timeout="+r.Timeout, "every complete reply-bearing message is answered")
		return
	}
	for _, p := range r.Problems {
		viol("read-before-write", "write callback before the read callback of the same message", p, "read callbacks before the reply is written")
	}
	type wantFrame struct {
		rid       uint16
		ver       int
		bcd       []byte
		body      []byte
		bodyKnown bool
		what      string
		term      []byte
		cb        bool
		short0801 bool
		stale     []byte // short0801: the id the code answers with (previous upload of the connection, 0 on a fresh one)
		opt       string // "1003" / "0801": a frame of a recorded finding's class; the code's and the required behaviour are both accepted
		rdPos     int    // index of the request's read callback among the TerminalEventer read callbacks (-1: none)
	}
	var wf []wantFrame
	var wantRd []string
	var join *RpFrame
	var absorbed []string
	eCount := 0
	lastMM := []byte{0, 0, 0, 0} // T0x0801.MultimediaID of the connection's handler instance
	for _, it := range items {
		if it.Kind == 'C' {
			if join != nil {
				wf = append(wf, wantFrame{rid: it.Cmd, ver: join.Ver, bcd: join.BCD, body: it.Body, bodyKnown: true, what: fmt.Sprintf("command %04x", it.Cmd), rdPos: -1})
			}
			continue
		}
		if it.Kind == 'Q' && join != nil {
			// a 0x9003 left outstanding, then the terminal's complete 0x1003.  The property requires the 0x8001 for
			// it; the code hands the message to the waiting caller and writes nothing (known finding
			// C06/1003-absorbed-no-reply).  Both are accepted on exactly this slot: the reply is WANTED (optional
			// slot), its absence is reported under the finding's signature, its presence raises nothing.
			wf = append(wf, wantFrame{rid: it.Cmd, ver: join.Ver, bcd: join.BCD, body: it.Body, bodyKnown: true, what: "query 9003", rdPos: -1})
			d := it.Deliv[0]
			f := d.F
			tag := fmt.Sprintf("%04x.%d", f.ID, f.Serial)
			if mode == "B" {
				wantRd = append(wantRd, "H"+tag)
			}
			wantRd = append(wantRd, "E"+tag)
			eCount++
			wf = append(wf, wantFrame{rid: 0x8001, ver: f.Ver, bcd: f.BCD, body: []byte{}, bodyKnown: true, what: "reply to " + tag + " (0x9003 outstanding)",
				term: d.Data, cb: true, opt: "1003", rdPos: eCount - 1})
			continue
		}
		for _, d := range it.Deliv {
			f := d.F
			tag := fmt.Sprintf("%04x.%d", f.ID, f.Serial)
			if !stdRegistered[f.ID] {
				wantRd = append(wantRd, "N"+tag)
				continue
			}
			if f.ID == 0x8003 {
				wf = append(wf, wantFrame{rid: 0x8003, ver: f.Ver, bcd: f.BCD, body: f.Body, bodyKnown: true, what: "re-request echo", term: d.Data, cb: d.HasComplete(), rdPos: -1})
				continue
			}
			if join == nil {
				g := f
				join = &g
			}
			if d.HasComplete() {
				if mode == "B" {
					wantRd = append(wantRd, "H"+tag)
				}
				wantRd = append(wantRd, "E"+tag)
				eCount++
			}
			if ans, rid, body, known := expect(d); ans {
				w := wantFrame{rid: rid, ver: f.Ver, bcd: f.BCD, body: body, bodyKnown: known, what: "reply to " + tag, term: d.Data, cb: true,
					short0801: f.ID == 0x0801 && len(f.Body) < 36, rdPos: eCount - 1}
				if w.short0801 {
					w.opt = "0801" // a repaired ReplyBody may send nothing for it or the right id: neither alarms
					w.stale = append([]byte{}, lastMM...)
				} else if f.ID == 0x0801 {
					lastMM = append([]byte{}, f.Body[:4]...)
				}
				wf = append(wf, w)
			}
		}
	}
	// frames: count, order, type, addressing, numbering, body
	// align the frames read from the socket with the required frames; an optional slot (a recorded finding's
	// class) is taken as present only if the next frame can be its reply
	{
		var al []wantFrame
		fi := 0
		for wi, w := range wf {
			if w.opt != "" {
				present := false
				need := 0 // frames the remaining non-optional slots need
				for _, x := range wf[wi+1:] {
					if x.opt == "" {
						need++
					}
				}
				if fi < len(r.Frames) && len(r.Frames)-fi > need {
					if f, ok := RpDecode(r.Frames[fi]); ok && f.Ver == w.ver && bytes.Equal(f.BCD, w.bcd) {
						present = (w.opt == "1003" && f.ID == 0x8001 && len(f.Body) == 0) || (w.opt == "0801" && f.ID == 0x8800)
					}
				}
				if !present {
					if w.opt == "1003" {
						absorbed = append(absorbed, w.what)
					} else {
						// a short 0x0801 that got NO reply: not what the property says (it wants a reply carrying the id),
						// not what the code does (it answers with a stale id); accepted because it is inside the class of
						// the recorded finding C06/0801-short-body (a repair that makes ReplyBody honour the Parse error
						// answers nothing) - counted, so that the evidence shows if it ever happens
						c.Count("short 0x0801 not answered (accepted: class of finding C06/0801-short-body)")
						sigCount["(accepted) short 0x0801 not answered"]++
					}
					continue
				}
			}
			al = append(al, w)
			fi++
		}
		wf = al
	}
	if len(absorbed) > 0 {
		viol("1003-absorbed-no-reply", "a complete 0x1003 (HasReply true) that arrives while a 0x9003 query is outstanding is handed to the waiting SendActiveMessage caller and gets no 0x8001",
			fmt.Sprintf("%d frames, none for: %s", len(r.Frames), strings.Join(absorbed, ",")), "exactly one reply for every complete message of a reply-bearing type")
	}
	if len(r.Frames) != len(wf) {
		viol("count", "number of frames written differs from the number of reply-bearing complete messages (+ echoes, commands)",
			fmt.Sprintf("%d frames", len(r.Frames)), fmt.Sprintf("%d frames", len(wf)))
	}
	for k := 0; k < len(r.Frames) && k < len(wf); k++ {
		f, ok := RpDecode(r.Frames[k])
		w := wf[k]
		if !ok {
			viol("frame", "written frame is not a well-formed JT808 frame", Hx(r.Frames[k]), w.what)
			break
		}
		if f.ID != w.rid {
			viol("reply-id", fmt.Sprintf("frame %d (%s): wrong message id (a wrong reply type, a missing/extra reply or replies out of order)", k, w.what), fmt.Sprintf("%04x", f.ID), fmt.Sprintf("%04x", w.rid))
			break
		}
		if f.Ver != w.ver || !bytes.Equal(f.BCD, w.bcd) {
			viol("addressing", fmt.Sprintf("frame %d (%s): phone/version differ from the sender's", k, w.what), fmt.Sprintf("ver=%d phone=%x", f.Ver, f.BCD), fmt.Sprintf("ver=%d phone=%x", w.ver, w.bcd))
			break
		}
		if f.Serial != uint16(k) {
			viol("serial", fmt.Sprintf("frame %d (%s): platform serial not consecutive from 0 (mod 65536)", k, w.what), fmt.Sprint(f.Serial), fmt.Sprint(uint16(k)))
			break
		}
		if f.Frag {
			viol("frame", fmt.Sprintf("frame %d (%s): fragment bit set without sub-package fields", k, w.what), Hx(r.Frames[k]), "unfragmented reply")
			break
		}
		if w.short0801 && !w.bodyKnown {
			// an 0x0801 body under 4 bytes holds no multimedia id at all: nothing is prescribed for the reply body.
			// Judged as: answering nothing is accepted (optional slot); answering with the id of ANOTHER upload (the
			// previous one of the connection, 0 on a fresh one) is the recorded finding's behaviour; any other body
			// is a violation
			if bytes.Equal(f.Body, w.stale) {
				viol("0801-short-body", fmt.Sprintf("frame %d (%s): an 0x0801 whose body (under 4 bytes) holds no multimedia id is answered with the id of the previous upload (0 on a fresh connection)", k, w.what), Hx(f.Body), "no reply body is prescribed; the request carries no id")
				continue
			}
			viol("body", fmt.Sprintf("frame %d (%s): reply to an 0x0801 without id carries neither nothing nor the id of the previous upload", k, w.what), Hx(f.Body), "known finding: "+Hx(w.stale))
			break
		}
		if w.short0801 && w.bodyKnown && !bytes.Equal(f.Body, w.body) && !bytes.Equal(f.Body, w.stale) {
			// neither the id of the request nor the stale id of the recorded finding: not the finding's behaviour
			viol("body", fmt.Sprintf("frame %d (%s): reply to a short 0x0801 carries neither its own id nor the id of the previous upload", k, w.what), Hx(f.Body), Hx(w.body)+" (or, known finding, "+Hx(w.stale)+")")
			break
		}
		if w.short0801 && w.bodyKnown && !bytes.Equal(f.Body, w.body) {
			viol("0801-short-body", fmt.Sprintf("frame %d (%s): an 0x0801 shorter than 36 bytes is answered with the multimedia id of the previous upload (0 on a fresh connection), not with the id in its own first four bytes", k, w.what), Hx(f.Body), Hx(w.body))
			continue
		}
		if w.bodyKnown && !bytes.Equal(f.Body, w.body) {
			viol("body", fmt.Sprintf("frame %d (%s): reply body differs from the prescribed one", k, w.what), Hx(f.Body), Hx(w.body))
			break
		}
	}
	// read before write, on the socket: when the read callback of a request ran, its reply had not been read back yet
	{
		var ev []RpEv
		for _, e := range r.Reader {
			if e.Kind == "E" {
				ev = append(ev, e)
			}
		}
		for k := 0; k < len(r.Frames) && k < len(wf); k++ {
			if p := wf[k].rdPos; p >= 0 && p < len(ev) && ev[p].FramesBefore > k {
				viol("read-before-write", fmt.Sprintf("frame %d (%s) had already been read from the socket when the request's read callback ran", k, wf[k].what),
					fmt.Sprintf("%d frames read before the callback", ev[p].FramesBefore), fmt.Sprintf("at most %d", k))
				break
			}
		}
	}
	// read callbacks: exactly once per handled message / unsupported message, in order
	var gotRd []string
	for _, e := range r.Reader {
		gotRd = append(gotRd, fmt.Sprintf("%s%04x.%d", e.Kind, e.ID, e.Serial))
	}
	if strings.Join(gotRd, ",") != strings.Join(wantRd, ",") {
		viol("callbacks-read", "read / not-supported callbacks are not exactly one per handled message in arrival order", firstDiff(gotRd, wantRd), "see required")
	}
	// write callbacks: once per reply, with the bytes actually sent and the request's data
	var wcb []wantFrame
	var fcb [][]byte
	for k, w := range wf {
		if w.cb && w.term != nil && k < len(r.Frames) {
			wcb = append(wcb, w)
			fcb = append(fcb, r.Frames[k])
		}
	}
	per := 1
	if mode == "B" {
		per = 2
	}
	if len(r.Writer) != per*len(wcb) {
		viol("callbacks-write", "number of write callbacks differs from the number of replies", fmt.Sprint(len(r.Writer)), fmt.Sprint(per*len(wcb)))
	} else {
		for k, e := range r.Writer {
			w, fr := wcb[k/per], fcb[k/per]
			wantKind := "e"
			if mode == "B" && k%2 == 0 {
				wantKind = "h"
			}
			if e.Kind != wantKind || !bytes.Equal(e.Platform, fr) || !bytes.Equal(e.Terminal, w.term) {
				viol("callbacks-write", fmt.Sprintf("write callback %d (%s): wrong kind, PlatformData is not the frame sent, or TerminalData is not the request", k, w.what),
					fmt.Sprintf("%s platform=%s terminal=%s", e.Kind, Hx(e.Platform), Trunc(Hx(e.Terminal), 80)), fmt.Sprintf("%s platform=%s terminal=%s", wantKind, Hx(fr), Trunc(Hx(w.term), 80)))
				break
			}
		}
	}
}

func firstDiff(a, b []string) string {
	for i := 0; i < len(a) || i < len(b); i++ {
		x, y := "<none>", "<none>"
		if i < len(a) {
			x = a[i]
		}
		if i < len(b) {
			y = b[i]
		}
		if x != y {
			return fmt.Sprintf("position %d: got %s, required %s", i, x, y)
		}
	}
	return "equal"
}

// ---- generators ----
type gen struct {
	rng     *rand.Rand
	counter *int
}

func (g *gen) uniquePhone(prefix byte, v2019 bool) []byte {
	*g.counter++
	n := 6
	if v2019 {
		n = 10
	}
	b := make([]byte, n)
	b[0] = prefix
	s := fmt.Sprintf("%010d", *g.counter)
	for i := 0; i < 5; i++ {
		b[n-5+i] = (s[2*i]-'0')<<4 | (s[2*i+1] - '0')
	}
	return b
}

func (g *gen) phone(v2019 bool) []byte {
	n := 6
	if v2019 {
		n = 10
	}
	b := make([]byte, n)
	switch g.rng.Intn(10) {
	case 0: // all zero
	case 1: // leading zeros
		for i := n - 1 - g.rng.Intn(3); i < n; i++ {
			b[i] = byte(g.rng.Intn(10))<<4 | byte(g.rng.Intn(10))
		}
	case 2: // hex letters
		for i := range b {
			b[i] = byte(g.rng.Intn(256))
		}
		b[0] &= 0x7f
	default:
		for i := range b {
			b[i] = byte(g.rng.Intn(10))<<4 | byte(g.rng.Intn(10))
		}
		if b[0] >= 0x98 {
			b[0] = 0x13
		}
	}
	return b
}

func (g *gen) serial() uint16 {
	switch g.rng.Intn(5) {
	case 0:
		return 0
	case 1:
		return 65535
	}
	return uint16(g.rng.Intn(65536))
}

func (g *gen) rbytes(n int) []byte {
	b := make([]byte, n)
	g.rng.Read(b)
	if n > 0 && g.rng.Intn(3) == 0 {
		b[g.rng.Intn(n)] = 0x7e
	}
	if n > 0 && g.rng.Intn(3) == 0 {
		b[g.rng.Intn(n)] = 0x7d
	}
	return b
}

func (g *gen) body(id uint16, v2019 bool, bcd []byte) []byte {
	r := g.rng
	switch id {
	case 0x0102:
		ph := []byte(RpPhoneString(bcd))
		code := ph
		switch r.Intn(5) {
		case 0:
			code = g.rbytes(r.Intn(20))
		case 1:
			code = []byte{}
		case 2:
			code = append([]byte("0"), ph...)
		}
		if !v2019 {
			return code
		}
		switch r.Intn(8) {
		case 0:
			return g.rbytes(r.Intn(36)) // too short for the fixed fields
		case 1: // length byte promises more than there is
			b := g.rbytes(36 + r.Intn(10))
			b[0] = byte(len(b) - 36 + 1 + r.Intn(50))
			return b
		case 2: // long auth codes (the uint8 sums of the unrepaired parser wrapped at 220)
			n := 200 + r.Intn(56)
			b := g.rbytes(1 + n + 35 + r.Intn(3))
			b[0] = byte(n)
			return b
		}
		b := append([]byte{byte(len(code))}, code...)
		b = append(b, g.rbytes(35)...)
		if r.Intn(4) == 0 {
			b = append(b, g.rbytes(r.Intn(5))...)
		}
		return b
	case 0x0801:
		if r.Intn(12) == 0 { // the input class of finding C06/0801-short-body (the small-scope runs always have it)
			return g.rbytes(r.Intn(36))
		}
		return g.rbytes(36 + r.Intn(30))
	case 0x1212:
		switch r.Intn(5) {
		case 0:
			return g.rbytes(r.Intn(6))
		case 1:
			b := g.rbytes(6 + r.Intn(20))
			b[0] = byte(len(b) - 6 + 1 + r.Intn(9))
			return b
		}
		l := r.Intn(30)
		b := g.rbytes(6 + l)
		b[0] = byte(l)
		return b
	case 0x1003:
		if r.Intn(3) == 0 {
			return g.rbytes(r.Intn(20))
		}
		return g.rbytes(10)
	case 0x0002:
		if r.Intn(4) != 0 {
			return nil
		}
	}
	switch r.Intn(12) {
	case 0:
		return g.rbytes(1023)
	case 1:
		return g.rbytes(200 + r.Intn(800))
	case 2:
		return nil
	}
	return g.rbytes(r.Intn(60))
}

func (g *gen) unsupportedID() uint16 {
	for {
		var id uint16
		switch g.rng.Intn(4) {
		case 0:
			id = []uint16{0, 0xffff, 0x8001, 0x8100, 0x8800, 0x9212, 0x0900, 0x0107, 0x0003, 0x0101, 0x1004, 0x1213, 0x8004, 0x0201}[g.rng.Intn(14)]
		case 1: // neighbours of registered ids
			all := append(append(append([]uint16{}, replyIDs...), responseIDs...), platformIDs...)
			id = all[g.rng.Intn(len(all))] + uint16(1+g.rng.Intn(3)*2) - 2 // -1, +1, +3
		default:
			id = uint16(g.rng.Intn(65536))
		}
		if !stdRegistered[id] {
			return id
		}
	}
}

func (g *gen) frame(id uint16) RpFrame {
	v := g.rng.Intn(2) == 0
	f := RpFrame{ID: id, Serial: g.serial(), BCD: g.phone(v)}
	if v {
		f.Ver = 1
	}
	if g.rng.Intn(12) == 0 {
		f.Enc = 1
	}
	f.Body = g.body(id, v, f.BCD)
	return f
}

func (g *gen) barrier() string {
	v := g.rng.Intn(2) == 0
	f := RpFrame{ID: 0x0002, Serial: g.serial(), BCD: g.uniquePhone(0x99, v)}
	if v {
		f.Ver = 1
	}
	return "B" + Hx(f.Wire())
}

// one conversation of about n messages
func (g *gen) conversation(n int, withLockstep bool) []string {
	r := g.rng
	var toks []string
	for i := r.Intn(3); i > 0 && r.Intn(3) == 0; i-- {
		toks = append(toks, "F"+Hx(g.frame(g.unsupportedID()).Wire()))
	}
	// the message that joins the session: a unique phone
	jf := g.frame(replyIDs[r.Intn(len(replyIDs))])
	jf.BCD = g.uniquePhone(0x98, jf.Ver == 1)
	jf.Body = g.body(jf.ID, jf.Ver == 1, jf.BCD)
	toks = append(toks, "F"+Hx(jf.Wire()))
	var last0801, last1212 bool
	for len(toks) < n {
		k := r.Intn(100)
		switch {
		case k < 55:
			id := replyIDs[r.Intn(len(replyIDs))]
			if last0801 && r.Intn(2) == 0 {
				id = 0x0801
			}
			if last1212 && r.Intn(2) == 0 {
				id = 0x1212
			}
			last0801, last1212 = id == 0x0801 || last0801, id == 0x1212 || last1212
			toks = append(toks, "F"+Hx(g.frame(id).Wire()))
		case k < 65:
			toks = append(toks, "F"+Hx(g.frame(responseIDs[r.Intn(len(responseIDs))]).Wire()))
		case k < 75:
			toks = append(toks, "F"+Hx(g.frame(g.unsupportedID()).Wire()))
		case k < 80:
			toks = append(toks, "F"+Hx(g.frame(platformIDs[r.Intn(len(platformIDs))]).Wire()))
		case k < 90: // a sub-packaged message, other messages in between
			ids := []uint16{0x0801, 0x0200, 0x0704, 0x0800, 0x1212, 0x0102, 0x0100, 0x0001, g.unsupportedID()}
			f := g.frame(ids[r.Intn(len(ids))])
			np := 1 + r.Intn(5) // 1: a transfer of ONE package (fragment bit set, total 1) is complete with its only packet
			var whole []byte
			for p := 1; p <= np; p++ {
				pf := f
				pf.Frag, pf.Sum, pf.No = true, uint16(np), uint16(p)
				pf.Serial = f.Serial + uint16(p-1)
				pf.Body = g.rbytes(1 + r.Intn(40))
				if r.Intn(10) == 0 {
					pf.Body = g.rbytes(900 + r.Intn(124))
				}
				whole = append(whole, pf.Body...)
				toks = append(toks, "F"+Hx(pf.Wire()))
				if p < np && r.Intn(3) == 0 {
					toks = append(toks, "F"+Hx(g.frame(0x0002).Wire()))
				}
				if p == np {
					toks = append(toks, "K"+Hx(pf.Wire())+":"+Hx(whole))
				}
			}
		case k < 94 && withLockstep: // a 0x8003 sent by the terminal: echoed through the re-request channel
			f := g.frame(0x8003)
			if len(f.Body) > 100 {
				f.Body = f.Body[:100]
			}
			toks = append(toks, g.barrier(), "F"+Hx(f.Wire()))
		case k < 96 && withLockstep: // a 0x9003 query left outstanding, answered by the terminal's 0x1003 (absorbed)
			f := g.frame(0x1003)
			f.Body = g.rbytes(10)
			toks = append(toks, g.barrier(), "Q"+Hx(g.rbytes(r.Intn(3)))+":"+Hx(f.Wire()))
		case k < 98 && withLockstep: // a platform command
			cmd := append(append([]uint16{}, platformIDs...), 0x8001, 0x8100, 0x8300)[r.Intn(len(platformIDs)+3)]
			toks = append(toks, g.barrier(), fmt.Sprintf("C%d:%s", cmd, Hx(g.rbytes(r.Intn(40)))))
		default:
			toks = append(toks, "F"+Hx(g.frame(0x0002).Wire()))
		}
	}
	return append(toks, g.barrier())
}

// the body every probed id is sent with: 36 bytes, first byte 30 - a well-formed 0x0801 (36 bytes and more) and a
// well-formed 0x1212 (6 + 30), so that the probe of all ids stays outside the input classes of the recorded findings
func probeBody(g *gen) []byte {
	b := g.rbytes(36)
	b[0] = 30
	return b
}

func main() { Main("C06", c06) }

func c06(c *Ctx) {
	c.Rule = "conversations (1..200 messages; every default-registered 0x0xxx/0x1xxx id with type-specific well-formed and malformed bodies, response ids, registered platform ids, unsupported ids incl. neighbours of registered ones, both header versions, serials 0/65535/random, phones incl. all-zero / leading zeros / non-decimal nibbles, sub-packaged messages with other messages in between, terminal-sent 0x8003 and platform commands in lock step) played against a live in-process server over loopback TCP with varying write segmentation, 8 connections at a time; a probe of every message id 0..65535; one conversation of 65 600+ heartbeats for the serial wrap; the reply-table methods of every registered type. A case is non-trivial when the server wrote at least one frame (or, for the table op, the id is registered); distinct = distinct request text"
	g := &gen{rng: c.Rng, counter: new(int)}
	quick := c.Quick()

	run := func(mode string, toks []string, flush int) {
		if timeouts >= 3 {
			c.Count("skipped after repeated time-outs")
			return
		}
		req := "conv " + mode + " " + strings.Join(toks, " ")
		items, err := RpParseItems(toks)
		if err != nil {
			panic(err)
		}
		r := RpServer(mode).RpPlay(items, flush)
		c.Case(req, r.Canon(mode), len(r.Frames) > 0)
		if len(r.Frames) > 1000 && len(r.Frames) < 70000 {
			// the oracle driver's loop evaluation (used beyond 70 000 items) must agree with run_items
			c.Case("conviter "+mode+" "+strings.Join(toks, " "), r.Canon(mode), true)
		}
		direct(c, mode, req, items, r)
	}

	// (1) the reply table: methods of the registered types for every id, and a probe of every id over the socket
	for id := 0; id < 65536; id++ {
		ans := c.Do(fmt.Sprintf("rtable %d", id), stdRegistered[uint16(id)])
		want := "none"
		if stdRegistered[uint16(id)] {
			if rid, ok := stdReply[uint16(id)]; ok {
				want = fmt.Sprintf("reg has=1 rid=%d", rid)
			} else {
				want = "reg has=0"
			}
		}
		if !strings.HasPrefix(ans, want) {
			sigCount["C06/reply-table"]++
			c.Violate(Violation{Signature: "C06/reply-table", What: "HasReply/ReplyProtocol of the registered type differ from the standard's table",
				Input: fmt.Sprintf("rtable %d", id), Observed: ans, Required: want})
		}
	}
	c.Count("rtable ids:65536")
	probe := func(v2019 bool) {
		f := RpFrame{ID: 0, Serial: g.serial(), BCD: g.uniquePhone(0x98, v2019), Body: probeBody(g)}
		if v2019 {
			f.Ver = 1
		}
		e := f
		e.ID = 0x8003
		t := Hx(f.Wire())
		run("A", []string{"P0:32771:" + t, g.barrier(), "F" + Hx(e.Wire()), "P32772:65536:" + t, g.barrier()}, 64)
		c.Count("probe all ids")
	}
	probe(false)
	if !quick {
		probe(true)
	} else { // 2019 layout: the registered ids and their neighbours
		f := RpFrame{ID: 0, Ver: 1, Serial: g.serial(), BCD: g.uniquePhone(0x98, true), Body: probeBody(g)}
		t := Hx(f.Wire())
		var toks []string
		for _, lo := range []int{0, 0x0100, 0x0200, 0x0700, 0x0800, 0x1000, 0x1200, 0x8000, 0x8100, 0x8800, 0x9000, 0x9100, 0x9200} {
			if lo == 0x8000 {
				e := f
				e.ID = 0x8003
				toks = append(toks, "P32768:32771:"+t, g.barrier(), "F"+Hx(e.Wire()), "P32772:32784:"+t)
				continue
			}
			toks = append(toks, fmt.Sprintf("P%d:%d:%s", lo, lo+24, t))
		}
		run("A", append(toks, g.barrier()), 16)
		c.Count("probe registered+neighbours 2019")
	}

	// (2) the serial wrap: more than 65536 replies on one connection
	{
		v := g.rng.Intn(2) == 0
		f := RpFrame{ID: 0x0002, Serial: g.serial(), BCD: g.uniquePhone(0x98, v)}
		if v {
			f.Ver = 1
		}
		h := g.frame(0x0200)
		run("A", []string{"F" + Hx(g.frame(0x0100).Wire()), fmt.Sprintf("H30000:%s", Hx(f.Wire())), "F" + Hx(h.Wire()),
			fmt.Sprintf("H35600:%s", Hx(f.Wire())), "F" + Hx(g.frame(0x0102).Wire()), "F" + Hx(g.frame(0x0002).Wire()), g.barrier()}, 200)
		c.Count("wrap conversation")
		if !quick {
			run("B", []string{fmt.Sprintf("H140000:%s", Hx(f.Wire())), g.barrier()}, 500)
		}
	}

	// (3) every reply-bearing id alone and in pairs (small scope), both versions, boundary serials
	for _, id := range append(append(append([]uint16{}, replyIDs...), responseIDs...), 0x8103, 0x0003, 0xffff) {
		for rep := 0; rep < 4; rep++ {
			f := g.frame(id)
			f.BCD = g.uniquePhone(0x98, f.Ver == 1)
			f.Body = g.body(id, f.Ver == 1, f.BCD)
			run([]string{"A", "B"}[rep%2], []string{"F" + Hx(f.Wire()), "F" + Hx(g.frame(replyIDs[g.rng.Intn(len(replyIDs))]).Wire()), g.barrier()}, 0)
		}
	}
	for rep := 0; rep < 4; rep++ { // heartbeat (join), query left outstanding + its 0x1003, another 0x1003 with nothing outstanding
		hb := g.frame(0x0002)
		hb.BCD = g.uniquePhone(0x98, hb.Ver == 1)
		a, b := g.frame(0x1003), g.frame(0x1003)
		a.Body, b.Body = g.rbytes(10), g.rbytes(10)
		run([]string{"A", "B"}[rep%2], []string{"B" + Hx(hb.Wire()), "Q-:" + Hx(a.Wire()), "F" + Hx(b.Wire()), g.barrier()}, 0)
		// a transfer of ONE package (fragment bit, total 1, number 1): answered once, when complete (seed C06-7)
		one := g.frame([]uint16{0x0200, 0x0704, 0x0800, 0x0102}[rep%4])
		one.BCD = g.uniquePhone(0x98, one.Ver == 1)
		one.Body = g.body(one.ID, one.Ver == 1, one.BCD)
		if len(one.Body) == 0 {
			one.Body = g.rbytes(5)
		}
		whole := one.Body
		one.Frag, one.Sum, one.No = true, 1, 1
		run([]string{"A", "B"}[rep%2], []string{"F" + Hx(one.Wire()), "K" + Hx(one.Wire()) + ":" + Hx(whole), "F" + Hx(g.frame(0x0002).Wire()), g.barrier()}, 0)
		// two uploads: 36 bytes and more, then one whose body is too short for Parse
		u1, u2 := g.frame(0x0801), g.frame(0x0801)
		u1.BCD = g.uniquePhone(0x98, u1.Ver == 1)
		u1.Body, u2.Body = g.rbytes(36+g.rng.Intn(20)), g.rbytes([]int{4 + g.rng.Intn(32), g.rng.Intn(4)}[rep/2]) // length class by rep/2, server mode by rep%2: all four combinations
		run([]string{"A", "B"}[rep%2], []string{"F" + Hx(u1.Wire()), "F" + Hx(u2.Wire()), g.barrier()}, 0)
	}
	c.Count("small scope")

	// (4) random conversations, 8 connections at a time
	nconv := 400
	if !quick {
		nconv = 12000
	}
	type job struct {
		mode  string
		toks  []string
		flush int
		req   string
		items []RpItem
		res   *RpResult
	}
	for done := 0; done < nconv; {
		if timeouts >= 3 {
			c.Count("skipped after repeated time-outs")
			break
		}
		var batch []*job
		for k := 0; k < 8 && done < nconv; k++ {
			n := 1 + g.rng.Intn(40)
			if g.rng.Intn(6) == 0 {
				n = 1 + g.rng.Intn(200)
			}
			j := &job{mode: []string{"A", "B"}[g.rng.Intn(2)], toks: g.conversation(n, g.rng.Intn(3) == 0)}
			switch g.rng.Intn(4) {
			case 0:
				j.flush = 0
			case 1:
				j.flush = 1 + g.rng.Intn(20)
			case 2:
				j.flush = -(1 + g.rng.Intn(50))
			default:
				j.flush = 1000
			}
			j.req = "conv " + j.mode + " " + strings.Join(j.toks, " ")
			var err error
			if j.items, err = RpParseItems(j.toks); err != nil {
				panic(err)
			}
			batch = append(batch, j)
			done++
		}
		var wg sync.WaitGroup
		for _, j := range batch {
			wg.Add(1)
			go func(j *job) {
				defer wg.Done()
				j.res = RpServer(j.mode).RpPlay(j.items, j.flush)
			}(j)
		}
		wg.Wait()
		for _, j := range batch {
			c.Case(j.req, j.res.Canon(j.mode), len(j.res.Frames) > 0)
			direct(c, j.mode, j.req, j.items, j.res)
			c.Count(fmt.Sprintf("conversation mode %s", j.mode))
			nm := 0
			for _, it := range j.items {
				nm += len(it.Deliv)
			}
			c.Count("messages:" + bucket(nm))
		}
	}
	c.Extra["violations_by_signature"] = sigCount
}

func bucket(n int) string {
	switch {
	case n <= 5:
		return "1-5"
	case n <= 20:
		return "6-20"
	case n <= 60:
		return "21-60"
	}
	return "61+"
}

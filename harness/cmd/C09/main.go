package main

// C09 — delivered messages are stable.
//
// Correspondence: op "mem": the reads of one connection are copied into ONE reused 1023-byte
// buffer and passed to packageParse.parse (VerifParser.Feed) exactly as connection.reader does
// (curData[:n]); a close is the reader's deferred function (clear(curData); pack.clear()).  After
// every event the harness renders every message delivered so far again (header values, Body,
// TerminalData, the unexported BCD phone bytes) and reports those that differ from their rendering
// at delivery, together with len/cap of historyData.  The extracted Model/Mem.v (variant cur) is
// run on the same events, with the capacities the implementation showed as its reallocation
// oracle, and must print the same: the same messages, the same changes (none), the same len/cap
// (which validates the model's append rule).
// Direct oracle (implementation only): nothing delivered ever differs from its rendering at
// delivery - after any later read and after the close; and the same over a real socket (child
// server, recording TerminalEventer holding every *Message handed to the callbacks).
//
// VERIF_C09_VARIANT=alias|reuse makes the requests name that model variant: used once, by hand,
// against a tree with the corresponding repair removed, to check that model and code agree on the
// corruption itself (see DESIGN_ASBUILT.md).

import (
	"bytes"
	"fmt"
	"os"
	"path/filepath"
	"reflect"
	"regexp"
	"strings"
	"time"

	"github.com/cuteLittleDevil/go-jt808/service"

	. "verifh/lib"
)

const bufsz = 1023

func main() {
	SockServeIfChild()
	RegisterOp("mem", func(a []string) string {
		evs := parseEvs(a[2:])
		ans, _ := runMem(evs)
		return ans
	})
	RegisterOp("hold", func(a []string) string { return runHold(ParseSteps(a)) })
	Main("C09", c09)
}

// wideCanon: memCanon plus every other exported field of the header (property word fields, version,
// reply id, platform serial): at parser level, where no writer touches the message, none of them may change
func wideCanon(m *service.Message) string {
	h := m.JTMessage.Header
	return fmt.Sprintf("%s|ver=%d frag=%d enc=%d blen=%d pv=%d rid=%d ps=%d phone=%s", memCanon(m), h.Property.Version,
		h.Property.PacketFragmented, h.Property.EncryptMethod, h.Property.BodyDayaLen, h.ProtocolVersion, h.ReplyID,
		h.PlatformSerialNumber, h.TerminalPhoneNo)
}

// runHold: op "hold f:<hex> a:<ms> ...": every message parse returns is held (as a handler would with
// sub-package filtering off); after every later step - reads AND clock steps followed by reads that
// make the parser generate re-requests - all held messages are rendered again
func runHold(st []Step) string {
	v := service.NewVerifParser()
	cur := make([]byte, bufsz)
	var msgs []*service.Message
	var snaps []string
	var changed []string
	for i, s := range st {
		if s.IsAge {
			v.Age(time.Duration(s.Age) * time.Millisecond)
			continue
		}
		n := copy(cur, s.Data)
		got, _ := v.Feed(cur[:n])
		for k, m := range msgs {
			if c := wideCanon(m); c != snaps[k] {
				changed = append(changed, fmt.Sprintf("msg%d@step%d:%s=>%s", k, i, snaps[k], c))
				snaps[k] = c
			}
		}
		for _, m := range got {
			msgs = append(msgs, m)
			snaps = append(snaps, wideCanon(m))
		}
	}
	if len(changed) == 0 {
		return "ok unchanged held=" + fmt.Sprint(len(msgs))
	}
	return "changed " + strings.Join(changed, " ; ")
}

type memEv struct {
	close bool
	data  []byte
}

func parseEvs(args []string) []memEv {
	var out []memEv
	for _, a := range args {
		if a == "c" {
			out = append(out, memEv{close: true})
			continue
		}
		p := strings.Split(a, ":")
		out = append(out, memEv{data: Unhx(p[1])})
	}
	return out
}

func memCanon(m *service.Message) string {
	if m == nil || m.JTMessage == nil || m.JTMessage.Header == nil {
		return "nil"
	}
	h := m.JTMessage.Header
	c := 0
	if m.ExtensionFields.SubcontractComplete {
		c = 1
	}
	bcd := reflect.ValueOf(h).Elem().FieldByName("bcdTerminalPhoneNo").Bytes()
	return fmt.Sprintf("%d,%d,%d,%d,%d,%s,%s,%s", h.ID, h.SerialNumber, h.SubPackageSum, h.SubPackageNo, c,
		Hx(m.JTMessage.Body), Hx(m.ExtensionFields.TerminalData), Hx(bcd))
}

type memStep struct {
	err     string
	hl, hc  int
	newcap  int // the reallocation oracle for the model: capacity of the array if this read allocated one
	deliv   []string
	changed []string
}

// runMem plays the events against a fresh parser and one reused buffer; returns the canonical
// answer and the per-event capacities for the request line
func runMem(evs []memEv) (string, []int) {
	v := service.NewVerifParser()
	cur := make([]byte, bufsz)
	var msgs []*service.Message
	var snaps []string
	var lines []string
	var caps []int
	join := func(l []string) string {
		if len(l) == 0 {
			return "-"
		}
		return strings.Join(l, ";")
	}
	for _, e := range evs {
		st := memStep{err: "0"}
		var got []*service.Message
		if e.close {
			clear(cur)
			v.Clear()
		} else {
			hl0 := v.HistoryLen()
			n := copy(cur, e.data)
			func() {
				defer func() {
					if r := recover(); r != nil {
						st.err = "panic"
					}
				}()
				ms, err := v.Feed(cur[:n])
				got = ms
				if err != nil {
					st.err = strings.TrimPrefix(ProtoErrCode(err), "err ")
				}
			}()
			consumed := hl0 + n - v.HistoryLen()
			if v.HistoryLen() > 0 || v.HistoryCap() > 0 {
				st.newcap = v.HistoryCap() + consumed
				if v.HistoryLen() == 0 && st.err == "0" {
					// only a tree that keeps historyData[0:0] gets here: that slice starts where the
					// last extracted frame started, so its capacity still includes that frame
					for i := len(got) - 1; i >= 0; i-- {
						if !got[i].ExtensionFields.SubcontractComplete {
							st.newcap -= len(got[i].ExtensionFields.TerminalData)
							break
						}
					}
				}
			}
		}
		st.hl, st.hc = v.HistoryLen(), v.HistoryCap()
		for i, m := range msgs {
			if c := memCanon(m); c != snaps[i] {
				st.changed = append(st.changed, fmt.Sprintf("%d=%s", i, c))
			}
		}
		for _, m := range got {
			s := memCanon(m)
			msgs = append(msgs, m)
			snaps = append(snaps, s)
			st.deliv = append(st.deliv, s)
		}
		caps = append(caps, st.newcap)
		lines = append(lines, fmt.Sprintf("e=%s hl=%d hc=%d d=%s x=%s", st.err, st.hl, st.hc, join(st.deliv), join(st.changed)))
	}
	if len(lines) == 0 {
		return "none", caps
	}
	return strings.Join(lines, " | "), caps
}

func request(variant string, evs []memEv, caps []int) string {
	sb := []string{"mem", variant, fmt.Sprint(bufsz)}
	for i, e := range evs {
		if e.close {
			sb = append(sb, "c")
		} else {
			sb = append(sb, fmt.Sprintf("r:%s:%d:0", Hx(e.data), caps[i]))
		}
	}
	return strings.Join(sb, " ")
}

func c09(c *Ctx) {
	c.Rule = "histories of 1..8 frames on one connection (escape-free and escaped frames, equal and unequal lengths, unfragmented and sub-packaged with completion, both versions) cut into reads: for 2..4 frames (6 randomly drawn frame sets per length in the quick tier, 40 in the thorough tier: the exhaustive flag refers to the cut patterns, not to the frames) every subset of the cut points {every frame end, the middle of every frame}, plus random cuts, several frames per read, byte-wise reads, the pattern 'one frame split over two reads, then two frames in one read'; one reused 1023-byte buffer; every delivered message is rendered again after every later read and after the close. A case is non-trivial when at least one message is delivered before the last read; distinct = distinct request lines"
	rng := c.Rng
	quick := c.Quick()
	variant := os.Getenv("VERIF_C09_VARIANT")
	if variant == "" {
		variant = "cur"
	}

	nsig := map[string]int{}
	run := func(chunks [][]byte, kind string) {
		var evs []memEv
		for _, ch := range chunks {
			evs = append(evs, memEv{data: ch})
		}
		evs = append(evs, memEv{close: true})
		ans, caps := runMem(evs)
		req := request(variant, evs, caps)
		// non-trivial: something delivered before the last read
		nontriv := false
		parts := strings.Split(ans, " | ")
		for i, p := range parts {
			if i < len(parts)-2 && !strings.Contains(p, " d=- ") {
				nontriv = true
			}
		}
		c.Case(req, ans, nontriv)
		c.Count(kind)
		for i, p := range parts {
			if k := strings.Index(p, " x="); k >= 0 && p[k+3:] != "-" {
				when := fmt.Sprintf("after read %d", i)
				sig := "changed-by-later-read"
				if i == len(parts)-1 {
					when, sig = "after the close", "changed-by-close"
				}
				if nsig[sig]++; nsig[sig] > 20 {
					break
				}
				c.Violate(Violation{Signature: "C09/" + sig, What: "a delivered message differs from what it was at delivery " + when + " (index=content now)",
					Input: req, Observed: Trunc(p[k+3:], 3000), Required: "every delivered message keeps body, raw frame, phone bytes, id, serial and package numbers"})
				break
			}
			if strings.HasPrefix(p, "e=panic") {
				c.Violate(Violation{Signature: "C09/panic", What: "parse panicked", Input: req, Observed: p, Required: "no panic"})
				break
			}
		}
	}

	mkFrames := func(k int) ([]FrameSpec, []byte, []int) {
		var fs []FrameSpec
		style := rng.Intn(4) // 0 escape-free equal length, 1 escaped, 2 mixed, 3 a transfer among plain frames
		ph := RandPhone(rng, false)
		l0 := 1 + rng.Intn(12)
		for i := 0; i < k; i++ {
			f := FrameSpec{ID: []uint16{0x0200, 0x0002, 0x0704, 0x0801}[rng.Intn(4)], Phone: ph, Serial: uint16(rng.Intn(65536))}
			switch style {
			case 0:
				f.Body = bytes.Repeat([]byte{byte(0x30 + i)}, l0)
				f.Serial = uint16(0x1000 + i)
			case 1:
				f.Body = RandBody(rng, 1+rng.Intn(20))
				f.Body[0] = 0x7d
			default:
				f.Body = RandBody(rng, rng.Intn(20))
				if rng.Intn(2) == 0 {
					f.Ver2019 = true
					f.Phone = RandPhone(rng, true)
				}
			}
			fs = append(fs, f)
		}
		if style == 3 && k >= 2 {
			n := 2 + rng.Intn(k-1)
			tr := RandTransfer(rng, 0x0801, n, 8)
			pos := rng.Perm(k)[:n]
			// packets in ascending positions: 1 first, the rest shuffled
			order := append([]int{1}, func() []int {
				o := rng.Perm(n - 1)
				for i := range o {
					o[i] += 2
				}
				return o
			}()...)
			sortInts(pos)
			for i, p := range pos {
				fs[p] = tr.Packet(order[i])
			}
		}
		if style == 3 && k >= 5 && rng.Intn(2) == 0 {
			// a second transfer (same id: reuses the slot table; or another id) completing later in the
			// history: two reassembled bodies must not share memory
			id2 := []uint16{0x0801, 0x0704}[rng.Intn(2)]
			tr2 := RandTransfer(rng, id2, 2, 8)
			fs = append(fs, tr2.Packet(1), tr2.Packet(2))
			if rng.Intn(2) == 0 {
				fs = append(fs, FrameSpec{ID: 0x0002, Phone: ph, Serial: 9})
			}
		}
		var w []byte
		var ends []int
		for _, f := range fs {
			w = append(w, f.Wire()...)
			ends = append(ends, len(w))
		}
		return fs, w, ends
	}

	// (1) exhaustive cut patterns for 2..4 frames
	for k := 2; k <= 4; k++ {
		reps := 6
		if !quick {
			reps = 40
		}
		for rep := 0; rep < reps; rep++ {
			_, w, ends := mkFrames(k)
			var pts []int
			prev := 0
			for _, e := range ends {
				pts = append(pts, (prev+e)/2)
				if e < len(w) {
					pts = append(pts, e)
				}
				prev = e
			}
			for mask := 0; mask < 1<<len(pts); mask++ {
				var cuts []int
				for i, p := range pts {
					if mask>>i&1 == 1 {
						cuts = append(cuts, p)
					}
				}
				run(LimitChunks(Chunks(w, cuts), bufsz), fmt.Sprintf("exh-cuts/%dframes", k))
			}
		}
	}
	c.Exhaustive = true

	// (2) the history-reuse pattern and its neighbours: frame split at every offset, then 1..3 frames in one read
	nsplit := 200
	if !quick {
		nsplit = 1500
	}
	for i := 0; i < nsplit; i++ {
		k := 2 + rng.Intn(3)
		_, w, ends := mkFrames(k)
		cut := 1 + rng.Intn(ends[0]-1)
		run(LimitChunks(Chunks(w, []int{cut, ends[0]}), bufsz), "split-then-several")
		run(LimitChunks(Chunks(w, []int{cut, ends[0], ends[1]}), bufsz), "split-then-single")
	}

	// (3) random histories
	nrand := 3000
	if !quick {
		nrand = 40000
	}
	for i := 0; i < nrand; i++ {
		k := 1 + rng.Intn(8)
		_, w, ends := mkFrames(k)
		switch rng.Intn(5) {
		case 0:
			run(LimitChunks(Chunks(w, ends), bufsz), "random/framewise")
		case 1:
			run(LimitChunks([][]byte{w}, bufsz), "random/coalesced")
		case 2:
			if len(w) <= 400 {
				var bw []int
				for a := 1; a < len(w); a++ {
					bw = append(bw, a)
				}
				run(Chunks(w, bw), "random/bytewise")
				break
			}
			fallthrough
		default:
			run(LimitChunks(Chunks(w, RandCuts(rng, len(w), 1+rng.Intn(2*k))), bufsz), "random/random-cuts")
		}
	}

	// (4) malformed traffic in between (errors leave the parser usable; the reader would stop)
	nbad := 600
	if !quick {
		nbad = 8000
	}
	for i := 0; i < nbad; i++ {
		_, w, ends := mkFrames(2 + rng.Intn(3))
		b := append([]byte{}, w...)
		b[rng.Intn(len(b))] ^= byte(1 + rng.Intn(255))
		run(LimitChunks(Chunks(b, append(RandCuts(rng, len(b), rng.Intn(4)), ends[0])), bufsz), "malformed")
	}

	// (5) held sub-packages while the parser generates re-requests for their transfer (5 s idle): the
	// record of a transfer must not share the header of the delivered first packet
	nhold := 150
	if !quick {
		nhold = 3000
	}
	for i := 0; i < nhold; i++ {
		n := 2 + rng.Intn(5)
		tr := RandTransfer(rng, []uint16{0x0801, 0x0704, 0x0200}[rng.Intn(3)], n, 10)
		st := []Step{{Data: tr.Packet(1).Wire()}}
		for q := 3; q <= n; q++ {
			if rng.Intn(2) == 0 {
				st = append(st, Step{Data: tr.Packet(q).Wire()})
			}
		}
		hb := FrameSpec{ID: 0x0002, Phone: tr.Phone, Ver2019: tr.Ver2019, Serial: 77}
		rounds := 1 + rng.Intn(3)
		for r := 0; r < rounds; r++ {
			st = append(st, Step{Age: []int{5100, 9000, 20000}[rng.Intn(3)], IsAge: true}, Step{Data: hb.Wire()})
		}
		st = append(st, Step{Data: tr.Packet(2).Wire()}) // still missing others or completing
		req := "hold " + StepsString(st)
		ans := runHold(st)
		c.Eval(req, true)
		c.Count("held-during-rerequest")
		if !strings.HasPrefix(ans, "ok") {
			c.Violate(Violation{Signature: "C09/held-header-changed", What: "a message returned by parse changed while it was held and the parser generated a re-request for its transfer",
				Input: req, Observed: Trunc(ans, 3000), Required: "held messages keep every header field, body and raw frame"})
		}
	}

	headerCells(c)
	staticHeaderScan(c)
	socketRun(c)
}

// staticHeaderScan: the memory model keeps the header fields the property lists (message id, phone,
// serial, package total and number) as VALUES: that is sound as long as nothing but Header.decode
// assigns them and parse only ever decodes into a fresh JTMessage.  A scan of the current sources
// of service/ and protocol/jt808/ (non-test files) checks exactly that.
func staticHeaderScan(c *Ctx) {
	root := os.Getenv("VERIF_REPO")
	if root == "" {
		root = "/repo"
	}
	assign := regexp.MustCompile(`\.(ID|SerialNumber|SubPackageSum|SubPackageNo|TerminalPhoneNo|bcdTerminalPhoneNo)\b[^=!<>:\n]*(=[^=]|\+\+|--)`)
	// whole-struct writes through which a delivered header could be replaced or overwritten
	whole := regexp.MustCompile(`(\*\s*(h|header|initHeader|hdr)\s*=[^=])|(\.Header\s*=[^=])|(\.JTMessage\s*=[^=])|(\.Property\s*=[^=])`)
	// taking the address of a listed field is the first half of a write through a pointer
	addrOf := regexp.MustCompile(`(^|[^&])&\s*[A-Za-z_][A-Za-z0-9_\.\(\)\*]*\.(ID|SerialNumber|SubPackageSum|SubPackageNo|TerminalPhoneNo|bcdTerminalPhoneNo)\b`)
	var bad []string
	nfiles, sawDecode, nCalls := 0, false, 0
	for _, dir := range []string{"service", "protocol/jt808"} {
		files, _ := filepath.Glob(filepath.Join(root, dir, "*.go"))
		for _, f := range files {
			if strings.HasSuffix(f, "_test.go") {
				continue
			}
			src, err := os.ReadFile(f)
			if err != nil {
				continue
			}
			nfiles++
			lines := strings.Split(string(src), "\n")
			fn := ""
			for i, l := range lines {
				if strings.HasPrefix(l, "func ") {
					fn = l
				}
				inDecode := strings.HasSuffix(f, "protocol/jt808/jt808.go") && strings.HasPrefix(fn, "func (h *Header) decode(")
				if inDecode {
					sawDecode = true
				}
				code := l
				if k := strings.Index(code, "//"); k >= 0 {
					code = code[:k]
				}
				isWhole := whole.MatchString(code)
				if isWhole {
					// building a NEW message from a fresh local copy (`x := *old` a few lines above, then `.Header = &x`)
					// is not a write to a delivered message
					// ... both the SOURCE (a fresh copy) and the TARGET (a local declared just above, i.e. an object
					// nobody else holds yet) are looked at
					if k := strings.Index(code, "= &"); k >= 0 {
						name := strings.TrimSpace(code[k+3:])
						target := strings.TrimSpace(code[:k])
						if d := strings.Index(target, "."); d >= 0 {
							target = target[:d]
						}
						srcFresh, tgtFresh := false, false
						for j := i - 1; j >= 0 && j >= i-12; j-- {
							if strings.Contains(lines[j], name+" := *") {
								srcFresh = true
							}
							if strings.Contains(lines[j], target+" := ") {
								tgtFresh = true
							}
						}
						if srcFresh && tgtFresh {
							isWhole = false
						}
					}
				}
				if (assign.MatchString(code) || isWhole || addrOf.MatchString(code)) && !inDecode {
					bad = append(bad, fmt.Sprintf("%s:%d: %s", strings.TrimPrefix(f, root+"/"), i+1, strings.TrimSpace(l)))
				}
				if dir == "service" && strings.Contains(code, ".Decode(") {
					nCalls++
					fresh := false
					for j := i - 1; j >= 0 && j >= i-3; j-- {
						if strings.Contains(lines[j], "jt808.NewJTMessage()") {
							fresh = true
						}
					}
					if !fresh {
						bad = append(bad, fmt.Sprintf("%s:%d: Decode into a JTMessage that is not fresh: %s", strings.TrimPrefix(f, root+"/"), i+1, strings.TrimSpace(l)))
					}
				}
			}
		}
	}
	// second pass, type-specific pattern, over every other package a delivered message can reach (message
	// models and codecs get the *JTMessage in Parse / ReplyBody): <...>.Header.<listed field> = ...
	viaHeader := regexp.MustCompile(`(Header|header)\.(ID|SerialNumber|SubPackageSum|SubPackageNo|TerminalPhoneNo)\b[^=!<>:\n]*(=[^=]|\+\+|--)`)
	addrHeader := regexp.MustCompile(`(^|[^&])&\s*[A-Za-z_][A-Za-z0-9_\.\(\)\*]*(Header|header)\.(ID|SerialNumber|SubPackageSum|SubPackageNo|TerminalPhoneNo)\b`)
	nOther := 0
	for _, dir := range []string{"protocol", "shared", "attachment"} {
		filepath.Walk(filepath.Join(root, dir), func(f string, info os.FileInfo, err error) error {
			if err != nil || info.IsDir() || !strings.HasSuffix(f, ".go") || strings.HasSuffix(f, "_test.go") ||
				strings.HasSuffix(f, "protocol/jt808/jt808.go") {
				return nil
			}
			src, err := os.ReadFile(f)
			if err != nil {
				return nil
			}
			nOther++
			for i, l := range strings.Split(string(src), "\n") {
				code := l
				if k := strings.Index(code, "//"); k >= 0 {
					code = code[:k]
				}
				if viaHeader.MatchString(code) || addrHeader.MatchString(code) {
					bad = append(bad, fmt.Sprintf("%s:%d: %s", strings.TrimPrefix(f, root+"/"), i+1, strings.TrimSpace(l)))
				}
			}
			return nil
		})
	}
	c.Eval("static header-field scan", true)
	c.Count("static/header-fields")
	c.Extra["header_scan"] = map[string]any{"files": nfiles, "saw_header_decode": sawDecode, "decode_call_sites": nCalls, "other_files": nOther}
	// fail closed: a scan that saw nothing proves nothing
	if nfiles < 10 || !sawDecode || nCalls < 3 || nOther < 50 {
		c.Violate(Violation{Signature: "C09/header-scan-empty", What: "the source scan behind 'header fields are values' did not see what it must see",
			Input: "hold -", Observed: fmt.Sprintf("root=%s files=%d Header.decode seen=%v Decode call sites in service=%d files of protocol/ shared/ attachment/=%d", root, nfiles, sawDecode, nCalls, nOther),
			Required: "at least 10 non-test files of service/ and protocol/jt808/, func (h *Header) decode, at least 3 Decode call sites in service/"})
	}
	if len(bad) > 0 {
		c.Violate(Violation{Signature: "C09/header-field-assigned", What: "a listed header field of a possibly delivered message is assigned outside Header.decode, a header / JTMessage is overwritten as a whole, or parse decodes into a reused JTMessage",
			Input: "hold -", Observed: Trunc(strings.Join(bad, " ; "), 3000), Required: "message id, phone, serial and package numbers are written only by Header.decode on a fresh JTMessage"})
	}
}

func sortInts(a []int) {
	for i := 1; i < len(a); i++ {
		for j := i; j > 0 && a[j-1] > a[j]; j-- {
			a[j-1], a[j] = a[j], a[j-1]
		}
	}
}

package main

// C09 over a real socket: the server (child process, default configuration) hands *Message
// values to the recording TerminalEventer, which keeps them and renders them again before every
// later callback and after the connection has closed (after connection.reader's deferred clear).

import (
	"bytes"
	"fmt"
	"strings"

	. "verifh/lib"
)

// stripWide removes the "|ver=..ps=.." part the mode-3 child appends (fields the writer assigns by design)
func stripWide(s string) string {
	k := strings.Index(s, "|")
	if k < 0 {
		return s
	}
	rest := ""
	if j := strings.Index(s[k:], "/"); j >= 0 {
		rest = s[k+j:]
	}
	return s[:k] + rest
}

// noFilterRun: a server with sub-package filtering OFF (WithHasSubcontract(false)): every sub-package
// reaches the callbacks and is answered, so incomplete packets, the completing packet and the merged
// message are all held by callbacks while the writer encodes replies on their headers.  Required: the
// fields the property lists (id, serial, package total / number, phone, body, raw frame) of every
// held message never change; what Header.Encode assigns (reply id, platform serial, property word)
// is rendered too (op sk3) but not required to stay.
func noFilterRun(c *Ctx) {
	rng := c.Rng
	n := 12
	if !c.Quick() {
		n = 300
	}
	for i := 0; i < n; i++ {
		tr := RandTransfer(rng, []uint16{0x0200, 0x0704, 0x0801}[rng.Intn(3)], 2+rng.Intn(4), 12)
		var st []SkStep
		st = append(st, SkStep{Kind: 'w', Data: tr.Packet(1).Wire()})
		for _, o := range rng.Perm(len(tr.Bodies) - 1) {
			if rng.Intn(3) == 0 {
				hb := FrameSpec{ID: 0x0002, Phone: tr.Phone, Ver2019: tr.Ver2019, Serial: uint16(500 + o)}
				st = append(st, SkStep{Kind: 'w', Data: hb.Wire()})
			}
			st = append(st, SkStep{Kind: 'w', Data: tr.Packet(o + 2).Wire()})
		}
		sync := SyncFrame(tr.Phone, tr.Ver2019, 0xfff0)
		st = append(st, SkStep{Kind: 'y', Data: sync.Wire()})
		req := "sk3 " + SkStepsString(st)
		res := SkPlayMode(st, 3)
		c.Eval(req, true)
		c.Count("socket/no-filter")
		viol := func(sig, what, observed, required string) {
			c.Violate(Violation{Signature: "C09/socket-nofilter-" + sig, What: what, Input: req, Observed: Trunc(observed, 3000), Required: Trunc(required, 3000)})
		}
		switch {
		case res.Crashed:
			viol("crash", "the server process died", res.Stderr, "the server survives")
		case res.Timeout != "":
			viol("timeout", "the conversation did not finish: "+res.Timeout, res.String(), "an answer to the final heartbeat and an orderly close")
		default:
			// with the filter off every packet is delivered: 1 event per packet + the merged message + heartbeats
			if len(res.Reads) < len(tr.Bodies)+2 {
				viol("delivery", "with sub-package filtering off every packet and the merged message reach OnReadExecutionEvent", res.String(),
					fmt.Sprintf("at least %d read callbacks", len(tr.Bodies)+2))
				break
			}
			for _, ch := range res.Changed {
				k := strings.Index(ch, "@")
				e := strings.Index(ch, "=")
				if k < 0 || e < k {
					continue
				}
				was, ok := res.At[ch[:k]]
				if ok && stripWide(ch[e+1:]) != stripWide(was) {
					viol("unstable", "a listed field of a message held by a callback changed (filter off)", ch+" was "+was,
						"id, serial, package numbers, phone, body and raw frame of every held message stay as delivered")
					break
				}
			}
		}
	}
}

func socketRun(c *Ctx) {
	noFilterRun(c)
	rng := c.Rng
	n := 150
	if !c.Quick() {
		n = 2000
	}
	for i := 0; i < n; i++ {
		k := 2 + rng.Intn(7)
		ph := RandPhone(rng, false)
		style := rng.Intn(3)
		l0 := 1 + rng.Intn(12)
		var fs []FrameSpec
		for j := 0; j < k; j++ {
			f := FrameSpec{ID: []uint16{0x0200, 0x0002, 0x0704, 0x0801, 0x0801, 0x7777}[rng.Intn(6)], Phone: ph, Serial: uint16(0x2000 + j)}
			switch style {
			case 0: // escape-free, equal length: a shared buffer shows as the same body everywhere
				f.Body = bytes.Repeat([]byte{byte(0x41 + j)}, l0)
			case 1:
				f.Body = RandBody(rng, 1+rng.Intn(30))
				f.Body[0] = 0x7e
			default:
				f.Body = RandBody(rng, rng.Intn(30))
			}
			if f.ID == 0x0801 { // the 0x8800 reply carries the multimedia id read from the BODY (36 bytes at least)
				f.Body = RandBody(rng, 36+rng.Intn(30))
				if style == 0 {
					f.Body = bytes.Repeat([]byte{byte(0x41 + j)}, 40)
				}
			}
			fs = append(fs, f)
		}
		if rng.Intn(3) == 0 { // a transfer in the middle
			tr := RandTransfer(rng, 0x0704, 2+rng.Intn(3), 10)
			tr.Phone, tr.Ver2019 = ph, false
			at := rng.Intn(len(fs))
			var ins []FrameSpec
			ins = append(ins, tr.Packet(1))
			for _, o := range rng.Perm(len(tr.Bodies) - 1) {
				ins = append(ins, tr.Packet(o+2))
			}
			fs = append(append(append([]FrameSpec{}, fs[:at]...), ins...), fs[at:]...)
		}
		// cut into writes: frame by frame / pairs / all at once / a frame split over two writes
		var st []SkStep
		mode := rng.Intn(4)
		var pend []byte
		flush := func() {
			for len(pend) > 0 {
				q := len(pend)
				if q > 1023 {
					q = 1023
				}
				st = append(st, SkStep{Kind: 'w', Data: append([]byte{}, pend[:q]...)})
				pend = pend[q:]
			}
		}
		for j, f := range fs {
			w := f.Wire()
			if mode == 3 && j%2 == 0 { // split this frame, the rest of it goes with the next frames
				cut := 1 + rng.Intn(len(w)-1)
				pend = append(pend, w[:cut]...)
				flush()
				pend = append(pend, w[cut:]...)
				continue
			}
			pend = append(pend, w...)
			if mode == 0 || (mode == 1 && j%2 == 1) || (mode == 3 && j%4 == 3) {
				flush()
			}
		}
		flush()
		sync := SyncFrame(ph, false, 0xfff0)
		st = append(st, SkStep{Kind: 'y', Data: sync.Wire()})
		srvMode := i % 3 // 0 plain, 1 dawdling write callbacks, 2 dawdling read callbacks
		req := []string{"sk ", "sk1 ", "sk2 "}[srvMode] + SkStepsString(st)
		res := SkPlayMode(st, srvMode)
		c.Eval(req, true)
		c.Count(fmt.Sprintf("socket/cut%d/server%d", mode, srvMode))
		viol := func(sig, what, observed, required string) {
			c.Violate(Violation{Signature: "C09/socket-" + sig, What: what, Input: req, Observed: Trunc(observed, 3000), Required: Trunc(required, 3000)})
		}
		switch {
		case res.Crashed:
			viol("crash", "the server process died", res.Stderr, "the server survives")
		case res.Timeout != "":
			viol("timeout", "the conversation did not finish: "+res.Timeout, res.String(), "an answer to the final heartbeat and an orderly close")
		case len(res.Changed) > 0:
			viol("unstable", "a message handed to a callback changed afterwards (which@when=content now)", strings.Join(res.Changed, ";"),
				"every delivered message keeps body, raw frame, phone number, id, serial and package numbers while later data arrives and after the close")
		default:
			// every reply is computed from the bytes of the message it answers: addressed with its phone
			// bytes; 0x8001 echoes its serial and id; 0x8800 carries the multimedia id of ITS body
			type want struct {
				id     uint16
				body   []byte
				prefix bool
			}
			var ws []want
			open := map[uint16]int{}
			total := map[uint16]int{}
			for _, f := range append(append([]FrameSpec{}, fs...), sync) {
				switch {
				case f.Frag:
					total[f.ID] = int(f.Sum)
					open[f.ID]++
					if open[f.ID] == total[f.ID] { // the completing packet answers for the whole message
						ws = append(ws, want{0x8001, []byte{byte(f.Serial >> 8), byte(f.Serial), byte(f.ID >> 8), byte(f.ID), 0}, false})
					}
				case f.ID == 0x0801:
					ws = append(ws, want{0x8800, f.Body[:4], true})
				case f.ID == 0x7777:
				default:
					ws = append(ws, want{0x8001, []byte{byte(f.Serial >> 8), byte(f.Serial), byte(f.ID >> 8), byte(f.ID), 0}, false})
				}
			}
			if len(res.Frames) != len(ws) {
				viol("reply-count", fmt.Sprintf("%d reply frames for %d answered messages", len(res.Frames), len(ws)), res.String(), "one reply per answered message")
				break
			}
			for k, f := range res.Frames {
				w := ws[k]
				ok := f.OK && bytes.Equal(f.Phone, ph) && f.ID == w.id
				if ok && w.prefix {
					ok = len(f.Body) >= len(w.body) && bytes.Equal(f.Body[:len(w.body)], w.body)
				} else if ok {
					ok = bytes.Equal(f.Body, w.body)
				}
				if !ok {
					viol("reply-bytes", fmt.Sprintf("reply %d is not computed from the message it answers", k), Hx(f.Raw),
						fmt.Sprintf("id=%04x phone=%x body%s=%x", w.id, ph, map[bool]string{true: " prefix", false: ""}[w.prefix], w.body))
					break
				}
			}
		}
	}
}

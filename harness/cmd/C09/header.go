package main

// Header cells (Model/HdrMem.v): op
//
//	hdr <record> <merged> <step>...    record / merged = deep | shallow | shared (the model's variant; the tree is "deep deep")
//	   f:<now ms>:<hex>                one read at absolute time now (VerifParser.Age + Feed)
//	   r:<k>:<rid>:<ps>:<blen>         the writer answers delivered message k: exactly what defaultReplyEvent /
//	                                   subPackReplyEvent do to the message's header: ReplyID, PlatformSerialNumber,
//	                                   Header.Encode(body of blen bytes)
//
// Every message parse returns is held.  After each step: n=<held> x=<k=view;...> for every held message that is
// new or reads differently than after the previous step; view = id,serial,sum,no,phone|ver.frag.enc.blen.pv.rid.ps.
// Direct oracle: the listed part (before '|') of a held message never changes; a read changes no held message; the
// answer to message k changes message k only.

import (
	"fmt"
	"os"
	"strconv"
	"strings"
	"time"

	"github.com/cuteLittleDevil/go-jt808/service"

	. "verifh/lib"
)

type hdrStep struct {
	feed             bool
	now              int
	data             []byte
	k, rid, ps, blen int
}

func hdrParse(args []string) []hdrStep {
	var st []hdrStep
	for _, a := range args {
		p := strings.Split(a, ":")
		switch p[0] {
		case "f":
			n, _ := strconv.Atoi(p[1])
			st = append(st, hdrStep{feed: true, now: n, data: Unhx(p[2])})
		case "r":
			k, _ := strconv.Atoi(p[1])
			rid, _ := strconv.Atoi(p[2])
			ps, _ := strconv.Atoi(p[3])
			bl, _ := strconv.Atoi(p[4])
			st = append(st, hdrStep{k: k, rid: rid, ps: ps, blen: bl})
		}
	}
	return st
}

func hdrString(st []hdrStep) string {
	var sb []string
	for _, s := range st {
		if s.feed {
			sb = append(sb, fmt.Sprintf("f:%d:%s", s.now, Hx(s.data)))
		} else {
			sb = append(sb, fmt.Sprintf("r:%d:%d:%d:%d", s.k, s.rid, s.ps, s.blen))
		}
	}
	return strings.Join(sb, " ")
}

func hdrView(m *service.Message) string {
	h := m.JTMessage.Header
	return fmt.Sprintf("%d,%d,%d,%d,%s|%d.%d.%d.%d.%d.%d.%d", h.ID, h.SerialNumber, h.SubPackageSum, h.SubPackageNo, h.TerminalPhoneNo,
		h.Property.Version, h.Property.PacketFragmented, h.Property.EncryptMethod, h.Property.BodyDayaLen, h.ProtocolVersion, h.ReplyID, h.PlatformSerialNumber)
}

// runHdr plays the steps; returns the canonical answer and, per step, the indices that changed (new ones excluded)
func runHdr(st []hdrStep) (string, [][]int, [][2]string) {
	for attempt := 0; ; attempt++ {
		v := service.NewVerifParser()
		cur := make([]byte, bufsz)
		var held []*service.Message
		var prev []string
		var lines []string
		var changed [][]int
		var listedBroken [][2]string
		clock := 0
		t0 := time.Now()
		for _, s := range st {
			if s.feed {
				if s.now > clock {
					v.Age(time.Duration(s.now-clock) * time.Millisecond)
					clock = s.now
				}
				n := copy(cur, s.data)
				got, _ := v.Feed(cur[:n])
				held = append(held, got...)
			} else if s.k < len(held) {
				h := held[s.k].JTMessage.Header
				h.ReplyID = uint16(s.rid)
				h.PlatformSerialNumber = uint16(s.ps)
				h.Encode(make([]byte, s.blen))
			}
			var x []string
			var ch []int
			for k, m := range held {
				c := hdrView(m)
				if k >= len(prev) {
					x = append(x, fmt.Sprintf("%d=%s", k, c))
					prev = append(prev, c)
				} else if prev[k] != c {
					x = append(x, fmt.Sprintf("%d=%s", k, c))
					ch = append(ch, k)
					if strings.SplitN(prev[k], "|", 2)[0] != strings.SplitN(c, "|", 2)[0] {
						listedBroken = append(listedBroken, [2]string{prev[k], c})
					}
					prev[k] = c
				}
			}
			xs := "-"
			if len(x) > 0 {
				xs = strings.Join(x, ";")
			}
			lines = append(lines, fmt.Sprintf("n=%d x=%s", len(held), xs))
			changed = append(changed, ch)
		}
		if time.Since(t0) < 15*time.Millisecond || attempt > 20 {
			if len(lines) == 0 {
				return "none", nil, nil
			}
			return strings.Join(lines, " | "), changed, listedBroken
		}
	}
}

func init() {
	RegisterOp("hdr", func(a []string) string {
		ans, _, _ := runHdr(hdrParse(a[2:]))
		return ans
	})
}

func headerCells(c *Ctx) {
	rng := c.Rng
	n := 600
	if !c.Quick() {
		n = 15000
	}
	deltas := []int{0, 0, 130, 3100, 5300, 5300, 19700, 61300}
	for i := 0; i < n; i++ {
		np := 2 + rng.Intn(3)
		tr := RandTransfer(rng, []uint16{0x0801, 0x0704, 0x0200}[rng.Intn(3)], np, 10)
		hb := FrameSpec{ID: 0x0002, Phone: tr.Phone, Ver2019: tr.Ver2019, Serial: 77}
		var st []hdrStep
		now := 0
		var times []int
		feed := func(b []byte) {
			now += deltas[rng.Intn(len(deltas))]
			times = append(times, now)
			st = append(st, hdrStep{feed: true, now: now, data: b})
		}
		upper := 0 // upper bound of the number of held messages (replies beyond it are no-ops in both)
		feed(tr.Packet(1).Wire())
		upper++
		rest := rng.Perm(np - 1)
		for len(rest) > 0 || rng.Intn(3) > 0 {
			switch r := rng.Intn(6); {
			case r <= 1 && len(rest) > 0:
				feed(tr.Packet(rest[0] + 2).Wire())
				rest = rest[1:]
				upper += 2
			case r == 2:
				feed(hb.Wire())
				upper += 2
			case r == 3 && rng.Intn(4) == 0:
				p1 := tr.Packet(1)
				p1.Serial = uint16(rng.Intn(65536))
				feed(p1.Wire()) // restart
				rest = rng.Perm(np - 1)
				upper += 2
			default:
				st = append(st, hdrStep{k: rng.Intn(upper + 1), rid: []int{0x8001, 0x8800, 0x8003}[rng.Intn(3)], ps: rng.Intn(65536), blen: rng.Intn(1100)})
			}
			if len(st) > 14 {
				break
			}
		}
		// no comparison of the implementation's wall clock close to a limit
		close := false
		for a := range times {
			for b := a + 1; b < len(times); b++ {
				d := times[b] - times[a]
				if (d > 4950 && d < 5050) || (d > 59950 && d < 60050) {
					close = true
				}
			}
		}
		if close {
			c.Count("header-cells/discarded")
			continue
		}
		variant := os.Getenv("VERIF_C09_HDR") // by hand, against a tree with a sharing re-introduced: e.g. "shared deep"
		if variant == "" {
			variant = "deep deep"
		}
		req := "hdr " + variant + " " + hdrString(st)
		ans, changed, listedBroken := runHdr(st)
		c.Case(req, ans, true)
		c.Count("header-cells")
		viol := func(sig, what, observed string) {
			c.Violate(Violation{Signature: "C09/header-cell-" + sig, What: what, Input: req, Observed: Trunc(observed, 3000),
				Required: "the listed fields of a held message never change; a read changes no held message; the writer's answer to message k changes message k only"})
		}
		if len(listedBroken) > 0 {
			viol("listed", "message id / serial / package numbers / phone of a held message changed", listedBroken[0][0]+" => "+listedBroken[0][1])
			continue
		}
		for j, ch := range changed {
			for _, k := range ch {
				if st[j].feed {
					viol("changed-by-read", fmt.Sprintf("step %d (a read) changed the header of held message %d", j, k), ans)
				} else if k != st[j].k {
					viol("changed-by-other-reply", fmt.Sprintf("step %d (the answer to message %d) changed the header of held message %d", j, st[j].k, k), ans)
				}
			}
		}
	}
}

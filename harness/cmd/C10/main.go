package main

// C10 — hostile input is contained to its own connection (both servers).
//
// Each case is one script (lib/ops_contain.go) played against a REAL server running as a child
// process: a well-behaved session is opened and answered, hostile connections do their worst, the
// well-behaved session is served again (next platform serial), a new connection is accepted and
// answered.  The same script is run through the model (Model/Server.v, oracle/drv_c10.ml), which
// predicts the answers of the good session, for every hostile connection whether the server ended
// it / answered its probe / fell silent, and the replies.
//
// Direct oracle (the property itself, no model): the child is alive with no `panic:` / `fatal error:`
// on stderr; the good session got exactly the prescribed answers with consecutive platform serials;
// the new connection was accepted and answered.

import (
	"bytes"
	"encoding/binary"
	"fmt"
	"math/rand"
	"os"
	"path/filepath"
	"strings"
	"time"

	. "verifh/lib"
)

func main() {
	Main("C10", c10)
}

// ------------------------------------------------------------------ helpers

var phoneCounter uint64

// nextPhone: a fresh terminal number (so that leftovers of earlier scripts in the session registry never interfere)
func nextPhone(v2019 bool) []byte {
	phoneCounter++
	n := 6
	if v2019 {
		n = 10
	}
	p := make([]byte, n)
	x := phoneCounter + 100000
	for i := n - 1; i >= 0; i-- {
		lo := x % 10
		x /= 10
		hi := x % 10
		x /= 10
		p[i] = byte(hi<<4 | lo)
	}
	if p[0] == 0 { // keep the decimal rendering full length and distinct from other lengths
		p[0] = 0x10
	}
	// a second byte that differs between consecutive numbers: the numbers of one script differ in two bytes, so a
	// one-byte mutation of a frame (random-or-mutated) cannot turn one connection's number into another's - two
	// connections of one script never compete for a key unless the script says so (and then it synchronises)
	c7 := phoneCounter * 7 % 100
	p[1] = byte(c7/10<<4 | c7%10)
	return p
}

func general(serial, id uint16, res byte) []byte {
	return []byte{byte(serial >> 8), byte(serial), byte(id >> 8), byte(id), res}
}

type script struct {
	kind   string // "808" | "att"
	param  string
	toks   []string
	expG   []string // prescribed answers of the good session
	expA   string
	class  string
	nextK  int
	gBcd   []byte
	g2019  bool
	gSer   uint16 // terminal serial of the good session
	gPlat  uint16 // platform serial the next answer must carry
	gFirst []byte // header source (first message) of the attachment good session: bcd
	expX   string         // what must finally be on disk at the X: path ("0": NOT the hostile content)
	expV   string         // the file the good upload must have left on disk (v=1)
	expK   map[int]string // what must happen to a hostile connection (prefix of its status), where the property says so
}

func (s *script) request() string {
	return "contain" + s.kind + " " + s.param + " " + strings.Join(s.toks, " ")
}

func (s *script) hostile() int { s.nextK++; return s.nextK }

func (s *script) D(k int, b []byte) {
	// one token per read: the 808 reader reads at most 1023 bytes at a time
	for len(b) > 1023 && s.kind == "808" {
		s.toks = append(s.toks, fmt.Sprintf("D%d:%s", k, Hx(b[:1023])))
		b = b[1023:]
	}
	if len(b) > 0 {
		s.toks = append(s.toks, fmt.Sprintf("D%d:%s", k, Hx(b)))
	}
}
// Dwhole: one write of any length (the model side cuts it into reads of 1023 bytes as the reader does)
func (s *script) Dwhole(k int, b []byte) { s.toks = append(s.toks, fmt.Sprintf("D%d:%s", k, Hx(b))) }
func (s *script) O(k int)      { s.toks = append(s.toks, fmt.Sprintf("O%d", k)) }
func (s *script) F(k int)      { s.toks = append(s.toks, fmt.Sprintf("F%d", k)) }
func (s *script) R(k int)      { s.toks = append(s.toks, fmt.Sprintf("R%d", k)) }
// probeRefused: the probe of a claimant of a key in use (its close is expected, not a transient)
func (s *script) probeRefused(k int, v2019 bool, bcd []byte) {
	s.toks = append(s.toks, fmt.Sprintf("Q%d:%s", k, Hx(Frame808(0x0002, v2019, bcd, uint16(0xE000+k), nil))))
}

// probeSer: a probe with a serial of the caller's choice (a second probe on one connection needs its own serial: the
// runner recognises the answer by the serial it echoes)
func (s *script) probeSer(k int, v2019 bool, bcd []byte, ser uint16) {
	s.toks = append(s.toks, fmt.Sprintf("P%d:%s", k, Hx(Frame808(0x0002, v2019, bcd, ser, nil))))
}

// claimReleased: connection k is the new session of a key whose owner has just gone (token U, see the runner)
func (s *script) claimReleased(k int, v2019 bool, bcd []byte) {
	s.toks = append(s.toks, fmt.Sprintf("U%d:%s", k, Hx(Frame808(0x0002, v2019, bcd, uint16(0xE000+k), nil))))
}

func (s *script) probe(k int, v2019 bool, bcd []byte) {
	ser := uint16(0xE000 + k)
	if s.kind == "808" {
		s.toks = append(s.toks, fmt.Sprintf("P%d:%s", k, Hx(Frame808(0x0002, v2019, bcd, ser, nil))))
	} else {
		s.toks = append(s.toks, fmt.Sprintf("P%d:%s", k, Hx(Frame808(0x1211, v2019, bcd, ser, Body1211([]byte("probe"), 0, 1)))))
	}
}

// good808: one heartbeat of the well-behaved session and the answer it must get
func (s *script) good808() {
	if s.gBcd == nil {
		s.g2019 = phoneCounter%2 == 0
		s.gBcd = nextPhone(s.g2019)
	}
	s.gSer++
	s.toks = append(s.toks, "G:"+Hx(Frame808(0x0002, s.g2019, s.gBcd, s.gSer, nil)))
	s.expG = append(s.expG, Hx(Frame808(0x8001, s.g2019, s.gBcd, s.gPlat, general(s.gSer, 0x0002, 0))))
	s.gPlat++
}

// stream808: n heartbeats of the well-behaved session sent from a goroutine while the next tokens run; joined later
func (s *script) stream808(n int) {
	var all []byte
	var want []byte
	for i := 0; i < n; i++ {
		s.gSer++
		all = append(all, Frame808(0x0002, s.g2019, s.gBcd, s.gSer, nil)...)
		want = append(want, Frame808(0x8001, s.g2019, s.gBcd, s.gPlat, general(s.gSer, 0x0002, 0))...)
		s.gPlat++
	}
	s.toks = append(s.toks, "C:"+Hx(all))
	s.expG = append(s.expG, Hx(want))
}
func (s *script) join() { s.toks = append(s.toks, "J") }

func (s *script) accept808() {
	v := phoneCounter%2 == 1
	bcd := nextPhone(v)
	s.toks = append(s.toks, "A:"+Hx(Frame808(0x0002, v, bcd, 7, nil)))
	s.expA = Hx(Frame808(0x8001, v, bcd, 0, general(7, 0x0002, 0)))
}

// goodAtt: a control frame of the well-behaved upload and its prescribed answer
func (s *script) goodAtt(d int, id uint16, body []byte, answer func(ser uint16) (uint16, []byte)) {
	if s.gBcd == nil {
		s.g2019 = phoneCounter%2 == 0
		s.gBcd = nextPhone(s.g2019)
	}
	s.gSer++
	s.toks = append(s.toks, "G:"+Hx(Frame808(id, s.g2019, s.gBcd, s.gSer, body)))
	rid, rb := answer(s.gSer)
	s.expG = append(s.expG, Hx(Frame808(rid, s.g2019, s.gBcd, s.gPlat, rb)))
	s.gPlat++
}

func (s *script) acceptAtt() {
	v := phoneCounter%2 == 1
	bcd := nextPhone(v)
	s.toks = append(s.toks, "A:"+Hx(Frame808(0x1211, v, bcd, 9, Body1211([]byte("acc"), 0, 3))))
	s.expA = Hx(Frame808(0x8001, v, bcd, 0, general(9, 0x1211, 0)))
}

// fields of an answer line
func field(ans, key string) string {
	for _, t := range strings.Fields(ans) {
		if strings.HasPrefix(t, key+"=") {
			return t[len(key)+1:]
		}
	}
	return ""
}

var longs = map[string]*C10Long{}

// longPing: the session that stays open over the whole run of a server is still served after this script
func longPing(c *Ctx, s *script, req string) {
	key := s.kind + "," + s.param
	l, ok := longs[key]
	if !ok {
		l = C10LongOpen(s.kind, s.param, []byte{0x09, 0x90, 0x00, 0x00, byte(len(longs)), 0x01})
		longs[key] = l
	}
	if r := l.Ping(); r != "" && r != "reopened" {
		c.Violate(Violation{Signature: "C10/" + s.kind + "/long-session",
			What:  "a session that had been open since the server started was no longer served correctly after this script",
			Input: req, Observed: Trunc(r, 900), Required: "the general response with the next platform serial"})
	}
}

func run(c *Ctx, s *script) {
	req := s.request()
	ans := c.Do(req, s.nextK > 0)
	defer longPing(c, s, req)
	c.Count(s.kind + "/" + s.class)
	for _, t := range strings.Fields(ans) {
		if strings.HasPrefix(t, "k") && strings.Contains(t, "=") {
			st := strings.SplitN(strings.SplitN(t, "=", 2)[1], ":", 2)[0]
			c.Count(s.kind + "/hostile-" + st)
		}
	}
	sig := "C10/" + s.kind
	if !strings.HasPrefix(ans, "ok ") {
		c.Violate(Violation{Signature: sig + "/harness", What: "the script could not be played", Input: req,
			Observed: Trunc(ans, 600), Required: "ok ..."})
		return
	}
	if field(ans, "alive") != "1" {
		c.Violate(Violation{Signature: sig + "/crash/" + s.class,
			What:  "the server process died while serving this script (a panic in one connection goroutine is process-wide)",
			Input: req, Observed: Trunc(C10LastDeath(ans), 1500), Required: "the process survives; at worst the offending connection is closed"})
		return
	}
	if got, want := field(ans, "g"), strings.Join(s.expG, "/"); got != want && len(s.expG) > 0 {
		c.Violate(Violation{Signature: sig + "/good-session/" + s.class,
			What:  "the well-behaved session was not served correctly while another connection misbehaved",
			Input: req, Observed: Trunc("g="+got, 1500), Required: Trunc("g="+want, 1500)})
	}
	for k, want := range s.expK {
		if got := field(ans, fmt.Sprintf("k%d", k)); !strings.HasPrefix(got, want) {
			c.Violate(Violation{Signature: sig + "/registry/" + s.class,
				What:  "a connection presenting the key of an established session was not refused: the session lost its registration to an earlier refused claimant (it would no longer receive platform commands and can be taken over)",
				Input: req, Observed: fmt.Sprintf("k%d=%s", k, Trunc(got, 300)), Required: fmt.Sprintf("k%d=%s (every claimant of a key held by a live session is ended, the session stays registered)", k, want)})
			break
		}
	}
	if s.expX != "" && field(ans, "x") != s.expX {
		c.Violate(Violation{Signature: sig + "/same-phone-overwrite",
			What:  "a second connection that presents the terminal number and file name of a finished upload replaced the stored file of that upload with its own content",
			Input: req, Observed: "x=" + field(ans, "x") + " (first digit: the file holds the second connection's bytes; second digit: it still holds the first upload's)", Required: "x=" + s.expX})
	}
	if s.expV != "" && field(ans, "v") != s.expV {
		c.Violate(Violation{Signature: sig + "/good-file/" + s.class,
			What:  "the file of the well-behaved upload is not on disk with its content after the hostile script",
			Input: req, Observed: "v=" + field(ans, "v"), Required: "v=" + s.expV})
	}
	if got := field(ans, "a"); s.expA != "" && got != s.expA {
		c.Violate(Violation{Signature: sig + "/accept/" + s.class,
			What:  "a new connection was not accepted and answered after the hostile script",
			Input: req, Observed: "a=" + got, Required: "a=" + s.expA})
	}
}

// ------------------------------------------------------------------ JT808 server

// the ids of createDefaultHandle
var ids808 = []uint16{0x0001, 0x0100, 0x0102, 0x0002, 0x0200, 0x0704, 0x0104, 0x0805, 0x0800, 0x0801, 0x8003, 0x8103, 0x8104,
	0x8801, 0x9003, 0x1003, 0x1005, 0x9101, 0x9102, 0x9205, 0x1205, 0x9206, 0x1206, 0x9207, 0x9208, 0x1210, 0x1211, 0x1212}

// bodies that made some decoder panic on the pinned tree (known_findings.json "fixed"), each for the id it belongs to
func witnesses(rng *rand.Rand) map[uint16][][]byte {
	loc := make([]byte, 28)
	w := map[uint16][][]byte{}
	add := func(id uint16, b []byte) { w[id] = append(w[id], b) }
	add(0x0200, append(append([]byte{}, loc...), 0x31, 0x00))       // 31 00
	add(0x0200, append(append([]byte{}, loc...), 0x11, 0x01, 0x01)) // 11 01 xx
	e66 := append(append([]byte{}, loc...), 0x66, 40)
	e66 = append(e66, bytes.Repeat([]byte{1}, 40)...)
	add(0x0200, e66) // extension 0x66 with exactly 40 bytes
	e66b := append(append([]byte{}, loc...), 0x66, 49)
	b49 := make([]byte, 49)
	b49[40] = 1
	add(0x0200, append(e66b, b49...)) // the pinned 0x66 over-read shape
	e70 := append(append([]byte{}, loc...), 0x70, 47)
	add(0x0200, append(e70, make([]byte, 47)...)) // extension 0x70, 47 bytes
	for _, id := range []byte{0x64, 0x65, 0x67} {
		e := append(append([]byte{}, loc...), id, 16)
		add(0x0200, append(e, make([]byte, 16)...)) // alarm sign on a 16-byte slice
	}
	b0704 := []byte{0x00, 0x02, 0x00, 0x00, 0x1c}
	add(0x0704, append(b0704, loc...))                    // count 2, one item
	add(0x0704, []byte{0xff, 0xff, 0x01, 0x00, 0x1c})     // count 65535, nothing
	add(0x0704, []byte{0x00, 0x01, 0x00, 0xff, 0xff, 1})  // item length beyond the body
	a := make([]byte, 300)
	a[0] = 230
	add(0x0102, a) // 2019 layout, auth code length >= 220, body >= 256 (uint8 wrap)
	a2 := make([]byte, 36)
	a2[0] = 255
	add(0x0102, a2)
	n1210 := make([]byte, 7+16+32)
	n1210 = append(n1210, 0, 2, 5) // count 2; the first item (name length 5, name, size) ...
	add(0x1210, append(append(n1210, []byte("abcde")...), 0, 0, 0, 1)) // ... ends the body: nothing left for item 2
	add(0x1210, append(make([]byte, 7+16+32), 0, 255))
	add(0x1211, []byte{250, 1, 2, 3, 4, 5})
	add(0x1212, []byte{5, 'a', 'b', 'c', 'd', 'e', 0, 0, 0, 0})
	add(0x0801, make([]byte, 35))
	add(0x0801, make([]byte, 36))
	add(0x0104, []byte{0, 1, 255, 0, 0, 0, 1, 4})         // parameter count 255, one short item
	add(0x0104, []byte{0, 1, 1, 0, 0, 0, 0x2A, 200})      // parameter length beyond the body
	add(0x8103, []byte{3, 0, 0, 0, 1, 4, 0})
	add(0x0805, []byte{0, 1, 0, 0xff, 0xff})              // id count 65535
	add(0x1205, []byte{0, 1, 0xff, 0xff, 0xff, 0xff})     // resource count 2^32-1
	add(0x8003, []byte{0, 1, 255})                        // retransmit count 255, no ids
	add(0x1206, []byte{0})
	add(0x9208, make([]byte, 20))
	add(0x0100, make([]byte, 3))
	add(0x0001, []byte{0, 1})
	add(0x1003, []byte{1})
	add(0x1005, make([]byte, 5))
	return w
}

func adversarialBodies(rng *rand.Rand, id uint16, wit map[uint16][][]byte) [][]byte {
	out := [][]byte{nil, {0}, {0xff}, bytes.Repeat([]byte{0xff}, 64), bytes.Repeat([]byte{0x7e}, 40), RandBody(rng, 1+rng.Intn(40)),
		RandBody(rng, 200+rng.Intn(823)), make([]byte, 1023)}
	out = append(out, wit[id]...)
	return out
}

func gen808(c *Ctx, pa string, budget time.Duration) {
	rng := c.Rng
	start := time.Now()
	left := func() bool { return time.Since(start) < budget }
	wit := witnesses(rng)
	newScript := func(class string) *script {
		s := &script{kind: "808", param: pa, class: class}
		s.good808()
		return s
	}
	finish := func(s *script) {
		s.good808()
		s.accept808()
		run(c, s)
	}
	// (a) every supported id x adversarial bodies x both header versions, one hostile connection each
	for _, id := range ids808 {
		for bi, body := range adversarialBodies(rng, id, wit) {
			for _, v := range []bool{false, true} {
				if c.Quick() && bi < 8 && bi > 1 && v && id != 0x0102 && rng.Intn(3) != 0 {
					continue
				}
				s := newScript("adversarial-body")
				k := s.hostile()
				bcd := nextPhone(v)
				s.O(k)
				// a register first on half of them, so that the frame under test is not the joining one
				if rng.Intn(2) == 0 {
					s.D(k, Frame808(0x0100, v, bcd, 1, make([]byte, 37)))
				}
				s.D(k, Frame808(id, v, bcd, 2, body))
				s.probe(k, v, bcd)
				finish(s)
			}
		}
	}
	// (b) sub-package abuse
	type pk struct {
		sum, no uint16
		body    []byte
	}
	abuse := [][]pk{
		{{3, 0, []byte{1}}},                                 // package number 0 (the 21-byte frame)
		{{3, 4, []byte{1}}},                                 // total + 1, no record
		{{3, 1, []byte{1}}, {3, 4, []byte{2}}},              // total + 1, record present
		{{3, 1, []byte{1}}, {3, 0, []byte{2}}},              // number 0, record present
		{{0, 1, []byte{1}}},                                 // fragment bit, total 0
		{{65535, 1, []byte{1}}, {65535, 65535, []byte{2}}},  // largest table
		{{2, 1, []byte{1}}, {5, 2, []byte{2}}},              // total changes between packets: 2 received = ? 5
		{{5, 1, []byte{1}}, {2, 2, []byte{2}}},              // total shrinks: received 2 == sum 2 of a 5-slot table
		{{5, 1, []byte{1}}, {1, 3, []byte{2}}, {1, 1, nil}}, // sum 1 with slots beyond, empty body packet 1
		{{2, 1, nil}, {2, 2, nil}, {2, 2, []byte{9}}},       // empty bodies never count as received
		{{2, 2, []byte{1}}, {2, 1, []byte{2}}},              // packet 2 before packet 1: dropped, then 1 re-creates
		{{3, 1, []byte{1}}, {3, 2, []byte{2}}, {3, 3, []byte{3}}, {3, 3, []byte{3}}}, // complete, then a stray packet
		{{1, 1, []byte{1, 2, 3}}},                           // single packet transfer
	}
	for ai, seq := range abuse {
		for _, id := range []uint16{0x0200, 0x0801, 0x0002, 0x8003, 0x7777} {
			for _, v := range []bool{false, true} {
				for _, oneRead := range []bool{false, true} {
					if c.Quick() && v && oneRead && ai%2 == 1 {
						continue
					}
					s := newScript("sub-package")
					k := s.hostile()
					bcd := nextPhone(v)
					s.O(k)
					var all []byte
					for i, p := range seq {
						f := FrameSpec{ID: id, Ver2019: v, Phone: bcd, Serial: uint16(10 + i), Frag: true, Sum: p.sum, No: p.no, Body: p.body}.Wire()
						if oneRead {
							all = append(all, f...)
						} else {
							s.D(k, f)
						}
					}
					if oneRead {
						s.D(k, all)
					}
					s.probe(k, v, bcd)
					finish(s)
				}
			}
		}
	}
	// (b2) two packets of one message id whose declared totals differ: packet 1 of N creates an N-slot table; then
	// packet k of M with M > N and N < k <= M (beyond the table, inside the new total), and M < N with k > M
	// (inside the table, beyond the new total); totals 1, 2, 3, 255, 65535
	type step2 struct{ n, k, m uint16 }
	var two []step2
	totals := []uint16{1, 2, 3, 255, 65535}
	for _, n := range totals {
		for _, m := range totals {
			switch {
			case m > n:
				two = append(two, step2{n, n + 1, m}, step2{n, m, m})
			case m < n:
				two = append(two, step2{n, m + 1, m}, step2{n, n, m})
			}
		}
	}
	ids2 := []uint16{0x0200, 0x0801, 0x0704, 0x1210}
	if !c.Quick() {
		ids2 = ids808
	}
	for ti, t := range two {
		for ii, id := range ids2 {
			if !left() {
				break
			}
			v := (ti+ii)%2 == 0
			oneRead := (ti+ii)%3 == 0
			s := newScript("sub-package-two-totals")
			k := s.hostile()
			bcd := nextPhone(v)
			s.O(k)
			f1 := FrameSpec{ID: id, Ver2019: v, Phone: bcd, Serial: 1, Frag: true, Sum: t.n, No: 1, Body: []byte{1, 2}}.Wire()
			f2 := FrameSpec{ID: id, Ver2019: v, Phone: bcd, Serial: 2, Frag: true, Sum: t.m, No: t.k, Body: []byte{3}}.Wire()
			f3 := FrameSpec{ID: id, Ver2019: v, Phone: bcd, Serial: 3, Frag: true, Sum: t.m, No: t.m, Body: []byte{4}}.Wire()
			if oneRead {
				s.D(k, append(append(append([]byte{}, f1...), f2...), f3...))
			} else {
				s.D(k, f1)
				s.D(k, f2)
				s.D(k, f3)
			}
			s.probe(k, v, bcd)
			finish(s)
		}
	}
	// (c) close / reset at every point of a valid conversation, and before any byte
	conv := func(v bool, bcd []byte) []byte {
		var b []byte
		b = append(b, Frame808(0x0100, v, bcd, 1, make([]byte, 37))...)
		b = append(b, Frame808(0x0102, v, bcd, 2, []byte("123"))...)
		b = append(b, Frame808(0x0002, v, bcd, 3, nil)...)
		b = append(b, FrameSpec{ID: 0x0801, Ver2019: v, Phone: bcd, Serial: 4, Frag: true, Sum: 2, No: 1, Body: make([]byte, 40)}.Wire()...)
		b = append(b, Frame808(0x0200, v, bcd, 5, make([]byte, 28))...)
		b = append(b, FrameSpec{ID: 0x0801, Ver2019: v, Phone: bcd, Serial: 6, Frag: true, Sum: 2, No: 2, Body: []byte{7, 0x7e, 0x7d}}.Wire()...)
		return b
	}
	{
		bcd0 := nextPhone(false)
		n := len(conv(false, bcd0))
		step := 1
		if c.Quick() {
			step = 5
		}
		for cut := 0; cut <= n && left(); cut += step {
			for _, rst := range []bool{false, true} {
				v := cut%2 == 1
				s := newScript("close-at-every-point")
				k := s.hostile()
				bcd := nextPhone(v)
				b := conv(v, bcd)
				if cut > len(b) {
					continue
				}
				s.O(k)
				if cut > 0 {
					// sometimes in two writes so that the cut falls inside a buffered frame
					if cut > 3 && rng.Intn(2) == 0 {
						m := 1 + rng.Intn(cut-1)
						s.D(k, b[:m])
						s.D(k, b[m:cut])
					} else {
						s.D(k, b[:cut])
					}
				}
				if rst {
					s.R(k)
				} else {
					s.F(k)
				}
				finish(s)
			}
		}
	}
	// (d) the good session's own phone number on other connections, one after the other: each of them is ended
	// and the session stays registered (the SECOND claimant is refused too: the first refusal did not delete the key)
	for _, v := range []bool{false, true} {
		for _, nclaim := range []int{1, 2, 3} {
			s := &script{kind: "808", param: pa, class: "duplicate-key"}
			s.g2019 = v
			s.gBcd = nextPhone(v)
			s.good808()
			for j := 0; j < nclaim; j++ {
				k := s.hostile()
				s.O(k)
				if j%2 == 1 {
					s.D(k, Frame808(0x0100, v, s.gBcd, 40, make([]byte, 37)))
				} else {
					s.D(k, Frame808(0x0002, v, s.gBcd, 50, nil))
				}
				s.probeRefused(k, v, s.gBcd)
				if s.expK == nil {
					s.expK = map[int]string{}
				}
				s.expK[k] = "closed"
			}
			finish(s)
		}
	}
	// (d0) the other direction: a hostile connection joins FIRST under a number; while it lives every other claimant
	// of that number is ended (the registry's rule, C11), and once it is gone the number is free again
	for _, v := range []bool{false, true} {
		s := newScript("squatter")
		bcd := nextPhone(v)
		k1 := s.hostile()
		s.O(k1)
		// the first claimant's joining heartbeat is a PROBE: the runner waits for its answer, so the join has
		// happened before the second connection exists (two connections are served by two goroutines: without the
		// wait the second claimant could be processed first and would then rightly own the key)
		s.probeSer(k1, v, bcd, uint16(0xD000+k1))
		k2 := s.hostile()
		s.O(k2)
		s.D(k2, Frame808(0x0100, v, bcd, 2, make([]byte, 37)))
		s.probeRefused(k2, v, bcd)
		s.probe(k1, v, bcd)
		s.F(k1)
		k3 := s.hostile()
		s.claimReleased(k3, v, bcd) // repeated until accepted: the release of k1's key is what is waited for, not a time
		s.expK = map[int]string{k2: "closed", k3: "open"}
		finish(s)
	}
	// (d0') unknown message ids in plain (unfragmented) frames
	for _, id := range []uint16{0x7777, 0x0003, 0xffff, 0x0000, 0x8001} {
		for _, v := range []bool{false, true} {
			s := newScript("unknown-id")
			k := s.hostile()
			bcd := nextPhone(v)
			s.O(k)
			s.D(k, Frame808(id, v, bcd, 1, RandBody(rng, rng.Intn(30))))
			s.D(k, Frame808(id, v, bcd, 2, nil))
			s.probe(k, v, bcd)
			s.expK = map[int]string{k: "open"}
			finish(s)
		}
	}
	// (d0'') the well-behaved session streams heartbeats from its own goroutine WHILE the hostile connection acts
	for ci, hostile := range []string{"burst-rst", "sub-package", "garbage", "bad-frame"} {
		for _, v := range []bool{false, true} {
			s := newScript("concurrent-good")
			s.stream808(40)
			k := s.hostile()
			bcd := nextPhone(v)
			s.O(k)
			switch hostile {
			case "burst-rst":
				var b []byte
				for i := 0; i < 300; i++ {
					b = append(b, Frame808(0x0200, v, bcd, uint16(i), make([]byte, 28))...)
				}
				s.Dwhole(k, b)
				s.R(k)
			case "sub-package":
				for i, p := range [][2]uint16{{3, 0}, {3, 4}, {65535, 1}, {2, 1}, {5, 2}} {
					s.D(k, FrameSpec{ID: 0x0801, Ver2019: v, Phone: bcd, Serial: uint16(i), Frag: true, Sum: p[0], No: p[1], Body: []byte{1}}.Wire())
				}
				s.probe(k, v, bcd)
			case "garbage":
				s.D(k, RandBody(rng, 500))
				s.F(k)
			default:
				f := Frame808(0x0102, v, bcd, 1, make([]byte, 300))
				f[len(f)-2] ^= 0x55
				s.D(k, f)
				s.probe(k, v, bcd)
			}
			_ = ci
			s.join()
			finish(s)
		}
	}
	// (d1) a terminal that disconnects (FIN or RST) and comes back on a new connection under the same number is a
	// new session: its key was released by the teardown of the old connection
	for _, v := range []bool{false, true} {
		for _, rst := range []bool{false, true} {
			s := newScript("reconnect-same-key")
			bcd := nextPhone(v)
			k1 := s.hostile()
			s.O(k1)
			s.D(k1, Frame808(0x0100, v, bcd, 1, make([]byte, 37)))
			s.probe(k1, v, bcd)
			if rst {
				s.R(k1)
			} else {
				s.F(k1)
			}
			k2 := s.hostile()
			s.claimReleased(k2, v, bcd) // the old connection's leave is asynchronous: the claim is repeated until accepted
			s.expK = map[int]string{k2: "open"}
			finish(s)
		}
	}
	// (d2) a client that pipelines many valid frames of reply-bearing ids in one write and then goes away without
	// taking the answers (RST, or FIN with the answers still coming): the writer's conn.Write fails while the reader
	// is still handing it messages; the failing connection must not take the process down
	bursts := []int{50, 400, 1000}
	if !c.Quick() {
		bursts = []int{50, 120, 400, 1000, 2000, 5000}
	}
	for _, n := range bursts {
		for _, id := range []uint16{0x0002, 0x0200, 0x0100} {
			for _, end := range []string{"rst", "fin", "fin-after-more"} {
				if !left() {
					break
				}
				v := n%100 == 0 && id != 0x0002
				s := newScript("pipelined-burst")
				k := s.hostile()
				bcd := nextPhone(v)
				var body []byte
				switch id {
				case 0x0200:
					body = make([]byte, 28)
				case 0x0100:
					body = make([]byte, 37)
				}
				var b []byte
				for i := 0; i < n; i++ {
					b = append(b, Frame808(id, v, bcd, uint16(i), body)...)
				}
				s.O(k)
				s.Dwhole(k, b)
				switch end {
				case "rst":
					s.R(k)
				case "fin":
					s.F(k)
				default:
					s.Dwhole(k, b[:len(b)/2])
					s.F(k)
				}
				finish(s)
			}
		}
	}
	// (e) random streams and mutated valid conversations
	nRand := 140
	if !c.Quick() {
		nRand = 4000
	}
	for i := 0; i < nRand && left(); i++ {
		s := newScript("random-or-mutated")
		nconn := 1 + rng.Intn(2)
		for j := 0; j < nconn; j++ {
			k := s.hostile()
			v := rng.Intn(2) == 0
			bcd := nextPhone(v)
			s.O(k)
			var b []byte
			switch rng.Intn(4) {
			case 0: // random bytes, usually starting with a delimiter so that they are scanned
				b = RandBody(rng, 1+rng.Intn(300))
				if rng.Intn(4) != 0 {
					b = append([]byte{0x7e}, b...)
				}
			default: // a valid conversation with byte mutations
				b = conv(v, bcd)
				for m := rng.Intn(4); m >= 0 && len(b) > 1; m-- {
					p := rng.Intn(len(b))
					switch rng.Intn(5) {
					case 0:
						b[p] ^= byte(1 << rng.Intn(8))
					case 1:
						b[p] = 0x7e
					case 2:
						b = append(b[:p:p], b[p+1:]...)
					case 3:
						b = append(b[:p:p], append([]byte{byte(rng.Intn(256))}, b[p:]...)...)
					default:
						b = b[:p+1]
					}
				}
			}
			if len(b) > 1 {
				for _, ch := range Chunks(b, RandCuts(rng, len(b), rng.Intn(4))) {
					s.D(k, ch)
				}
			} else {
				s.D(k, b)
			}
			switch rng.Intn(4) {
			case 0:
				s.F(k)
			case 1:
				s.R(k)
			default:
				s.probe(k, v, bcd)
			}
		}
		finish(s)
	}
}

// ------------------------------------------------------------------ attachment server

func genAtt(c *Ctx, budget time.Duration) {
	rng := c.Rng
	start := time.Now()
	left := func() bool { return time.Since(start) < budget }
	gname := []byte("good.bin")
	gdata := []byte{1, 2, 3, 0x7e, 0x30, 0x31, 0x63, 0x64, 9}
	newScript := func(d int, class string) *script {
		s := &script{kind: "att", param: fmt.Sprint(d), class: class}
		pre := make([]byte, 120)
		rng.Read(pre)
		s.goodAtt(d, 0x1210, Body1210(d, pre, 0, -1, []AttItem{{Name: gname, Size: uint32(len(gdata))}}),
			func(ser uint16) (uint16, []byte) { return 0x8001, general(ser, 0x1210, 0) })
		return s
	}
	finish := func(d int, s *script) {
		// the good upload goes on: file info, the data (first half, second half), completion "all received"
		s.goodAtt(d, 0x1211, Body1211(gname, 0, uint32(len(gdata))),
			func(ser uint16) (uint16, []byte) { return 0x8001, general(ser, 0x1211, 0) })
		s.toks = append(s.toks, "S:"+Hx(Chunk(d, gname, 4, gdata[4:])), "S:"+Hx(Chunk(d, gname, 0, gdata[:4])))
		s.goodAtt(d, 0x1212, Body1211(gname, 0, uint32(len(gdata))),
			func(ser uint16) (uint16, []byte) {
				b := []byte{byte(len(gname))}
				b = append(b, gname...)
				return 0x9212, append(b, 0, 0, 0)
			})
		s.acceptAtt()
		s.toks = append(s.toks, "V:"+Hx([]byte("./"+fmt.Sprintf("%x", s.gBcd)+"/"+string(gname)))+":"+Hx(gdata))
		s.expV = "1"
		run(c, s)
	}
	u32 := func(x uint32) []byte { return binary.BigEndian.AppendUint32(nil, x) }
	for _, d := range AttDialects {
		type hs struct {
			class string
			segs  [][]byte
		}
		var list []hs
		h := func(class string, segs ...[]byte) { list = append(list, hs{class, segs}) }
		v := d%2 == 0
		bcd := nextPhone(v)
		pre := bytes.Repeat([]byte{0x30, 0x31, 0x63, 0x64}, 30) // the marker all over the alarm id region
		name := []byte("x.jpg")
		f1210 := Frame808(0x1210, v, bcd, 1, Body1210(d, pre, 0, -1, []AttItem{{Name: name, Size: 10}}))
		f1211 := Frame808(0x1211, v, bcd, 2, Body1211(name, 0, 10))
		f1212 := Frame808(0x1212, v, bcd, 3, Body1211(name, 0, 10))
		// the two historical crashes
		h("connect-and-close")
		h("1210-then-1212", f1210, f1212)
		h("1212-alone", f1212)
		h("1211-alone-then-chunk", f1211, Chunk(d, name, 0, []byte{1, 2, 3}))
		// chunks
		h("chunk-unknown-file", Chunk(d, []byte("nobody"), 0, []byte{1, 2, 3}))
		h("chunk-before-anything", Chunk(d, name, 0, []byte{1}))
		h("chunk-huge-length", f1210, append(ChunkHead(d, name, 0, 0xffffffff), 1, 2, 3))
		h("chunk-huge-offset", f1210, Chunk(d, name, 0xffffffff, []byte{1, 2, 3}), f1212)
		h("chunk-zero-length", f1210, Chunk(d, name, 0, nil), f1212)
		h("chunk-offset-wrap", f1210, Chunk(d, name, 0xfffffffe, bytes.Repeat([]byte{7}, 12)), f1212)
		h("chunk-overfull", f1210, Chunk(d, name, 0, bytes.Repeat([]byte{7}, 11)), Chunk(d, name, 3, bytes.Repeat([]byte{8}, 11)), f1212)
		h("chunk-header-only", f1210, ChunkHead(d, name, 0, 5))
		h("marker-only", []byte{0x30, 0x31, 0x63, 0x64})
		h("marker-then-garbage", append([]byte{0x30, 0x31, 0x63, 0x64}, RandBody(rng, 80)...))
		if d == AttHLJ {
			long := bytes.Repeat([]byte{'n'}, 255)
			h("hlj-name-255", f1210, Chunk(d, long, 0, []byte{1}))
			h("hlj-name-len-beyond", append([]byte{0x30, 0x31, 0x63, 0x64, 200}, make([]byte, 30)...))
		}
		// 0x1210 bodies
		base := attPrefixLen(d)
		b := make([]byte, base)
		h("1210-name-fills-body", Frame808(0x1210, v, bcd, 1, append(append(append(b[:base:base], 0, 2, 5), []byte("abcde")...), 0, 0, 0, 1)))
		h("1210-second-item-cut", Frame808(0x1210, v, bcd, 1, append(append(append(b[:base:base], 0, 3, 5), []byte("abcde")...), 0, 0, 0, 1, 9, 'x', 0, 0, 0)))
		h("1210-count-255", Frame808(0x1210, v, bcd, 1, append(b[:base:base], 0, 255)))
		h("1210-short", Frame808(0x1210, v, bcd, 1, make([]byte, 10)))
		h("1210-empty", Frame808(0x1210, v, bcd, 1, nil))
		h("1210-dot-names", Frame808(0x1210, v, bcd, 1, Body1210(d, nil, 0, -1,
			[]AttItem{{Name: []byte("../up"), Size: 1}, {Name: []byte(".."), Size: 0}, {Name: nil, Size: 0}, {Name: []byte("a/b"), Size: 0}})),
			Chunk(d, []byte("../up"), 0, []byte{1}))
		h("1210-twice", f1210, Chunk(d, name, 0, []byte{1, 2, 3}), f1210, f1212)
		h("1211-bad-length", Frame808(0x1211, v, bcd, 2, []byte{250, 1, 2, 3, 4, 5}))
		h("1212-short", f1210, Frame808(0x1212, v, bcd, 3, []byte{1, 2}))
		h("1212-unknown-file", f1210, Frame808(0x1212, v, bcd, 3, Body1211([]byte("other"), 0, 1)))
		h("unknown-id", Frame808(0x0002, v, bcd, 1, nil))
		h("bad-checksum", append(append([]byte{}, f1210[:len(f1210)-2]...), f1210[len(f1210)-2]^1, 0x7e))
		h("garbage", RandBody(rng, 200))
		h("delimiters", bytes.Repeat([]byte{0x7e}, 50))
		h("half-frame", f1210[:len(f1210)/2])
		gother := Frame808(0x1210, v, bcd, 1, Body1210(d, pre, 0, -1, []AttItem{{Name: gname, Size: 4}}))
		h("same-name-other-terminal", gother, Chunk(d, gname, 0, []byte{0xde, 0xad, 0xbe, 0xef}), Frame808(0x1212, v, bcd, 3, Body1211(gname, 0, 4)))
		h("complete-upload", f1210, f1211, Chunk(d, name, 0, bytes.Repeat([]byte{5}, 10)), f1212)
		h("complete-then-more", f1210, Chunk(d, name, 0, bytes.Repeat([]byte{5}, 10)), f1212, Chunk(d, name, 0, bytes.Repeat([]byte{6}, 10)), f1212, Chunk(d, name, 20, []byte{1}))
		_ = u32
		for _, x := range list {
			for _, end := range []string{"probe", "fin", "rst"} {
				if !left() {
					return
				}
				if c.Quick() && end == "rst" && rng.Intn(2) == 0 {
					continue
				}
				s := newScript(d, x.class)
				k := s.hostile()
				s.O(k)
				for _, seg := range x.segs {
					s.D(k, seg)
				}
				switch end {
				case "probe":
					s.probe(k, v, bcd)
				case "fin":
					s.F(k)
				default:
					s.R(k)
				}
				finish(d, s)
			}
		}
		// chunk headers cut so that the first read fills a fresh buffer exactly (append rounds the capacity to Go's
		// allocation size classes: with 8, 16, ... 128 bytes len == cap, and a slice beyond the data panics instead of
		// reading spare capacity); HLJ names chosen so that the cut falls inside each of the last bytes of the header
		for _, sz := range []int{8, 16, 32, 48, 64, 80, 96, 112, 128} {
			nls := []int{5}
			if d == AttHLJ {
				nls = nil
				for nl := sz - 12; nl <= sz-9; nl++ { // header 13+nl = sz+1 .. sz+4
					if nl >= 1 && nl <= 255 {
						nls = append(nls, nl)
					}
				}
			}
			for _, nl := range nls {
				if !left() {
					return
				}
				nm := bytes.Repeat([]byte{'h'}, nl)
				data := bytes.Repeat([]byte{9}, 150)
				ch := Chunk(d, nm, 0, data)
				if sz >= len(ch) {
					continue
				}
				// A: the chunk is the first thing on the connection (unknown file: fatal after the header is whole)
				s := newScript(d, "header-at-capacity")
				k := s.hostile()
				s.O(k)
				s.D(k, ch[:sz])
				s.D(k, ch[sz:])
				s.F(k)
				finish(d, s)
				// B: announced file, the same cut, then the completion report
				s = newScript(d, "header-at-capacity")
				k = s.hostile()
				s.O(k)
				s.D(k, Frame808(0x1210, v, bcd, 1, Body1210(d, pre, 0, -1, []AttItem{{Name: nm, Size: uint32(len(data))}})))
				s.D(k, ch[:sz])
				s.D(k, ch[sz:])
				s.D(k, Frame808(0x1212, v, bcd, 2, Body1211(nm, 0, uint32(len(data)))))
				s.probe(k, v, bcd)
				finish(d, s)
			}
		}
		// close / reset at every point of a valid upload
		var up []byte
		for _, seg := range [][]byte{f1210, f1211, Chunk(d, name, 0, bytes.Repeat([]byte{5}, 6)), Chunk(d, name, 6, bytes.Repeat([]byte{6}, 4)), f1212} {
			up = append(up, seg...)
		}
		step := 1
		if c.Quick() {
			step = 13
		}
		for cut := 1; cut <= len(up) && left(); cut += step {
			s := newScript(d, "close-at-every-point")
			k := s.hostile()
			s.O(k)
			if rng.Intn(2) == 0 && cut > 2 {
				m := 1 + rng.Intn(cut-1)
				s.D(k, up[:m])
				s.D(k, up[m:cut])
			} else {
				s.D(k, up[:cut])
			}
			if rng.Intn(2) == 0 {
				s.R(k)
			} else {
				s.F(k)
			}
			finish(d, s)
		}
		// the well-behaved upload streams its file info, chunks and completion report from its own goroutine WHILE the
		// hostile connection acts
		for hi, hostile := range [][][]byte{{f1210, f1212}, {RandBody(rng, 300)}, {Chunk(d, []byte("nobody"), 0, []byte{1, 2, 3})}, {f1210, ChunkHead(d, name, 0, 0xffffffff), RandBody(rng, 200)}} {
			if !left() {
				return
			}
			s := newScript(d, "concurrent-good")
			s.gSer++
			p1 := Frame808(0x1211, s.g2019, s.gBcd, s.gSer, Body1211(gname, 0, uint32(len(gdata))))
			w1 := Frame808(0x8001, s.g2019, s.gBcd, s.gPlat, general(s.gSer, 0x1211, 0))
			s.gPlat++
			s.gSer++
			p4 := Frame808(0x1212, s.g2019, s.gBcd, s.gSer, Body1211(gname, 0, uint32(len(gdata))))
			rb := append([]byte{byte(len(gname))}, gname...)
			w4 := Frame808(0x9212, s.g2019, s.gBcd, s.gPlat, append(rb, 0, 0, 0))
			s.gPlat++
			s.toks = append(s.toks, "C:"+Hx(p1)+","+Hx(Chunk(d, gname, 4, gdata[4:]))+","+Hx(Chunk(d, gname, 0, gdata[:4]))+","+Hx(p4))
			s.expG = append(s.expG, Hx(append(append([]byte{}, w1...), w4...)))
			k := s.hostile()
			s.O(k)
			for _, seg := range hostile {
				s.D(k, seg)
			}
			if hi%2 == 0 {
				s.F(k)
			} else {
				s.R(k)
			}
			s.join()
			s.acceptAtt()
			s.toks = append(s.toks, "V:"+Hx([]byte("./"+fmt.Sprintf("%x", s.gBcd)+"/"+string(gname)))+":"+Hx(gdata))
			s.expV = "1"
			run(c, s)
		}
		// the attachment server has no registry: a second connection presenting the terminal number AND file name of a
		// finished upload stores its own bytes over that upload's file (finding C10/att/same-phone-overwrite)
		if d == 1 || !c.Quick() {
			s := newScript(d, "same-phone-overwrite")
			s.goodAtt(d, 0x1211, Body1211(gname, 0, uint32(len(gdata))),
				func(ser uint16) (uint16, []byte) { return 0x8001, general(ser, 0x1211, 0) })
			s.toks = append(s.toks, "S:"+Hx(Chunk(d, gname, 0, gdata)))
			s.goodAtt(d, 0x1212, Body1211(gname, 0, uint32(len(gdata))),
				func(ser uint16) (uint16, []byte) {
					return 0x9212, append(append([]byte{byte(len(gname))}, gname...), 0, 0, 0)
				})
			path := Hx([]byte("./" + fmt.Sprintf("%x", s.gBcd) + "/" + string(gname)))
			s.toks = append(s.toks, "V:"+path+":"+Hx(gdata))
			s.expV = "1"
			evil := []byte{0xde, 0xad, 0xbe, 0xef, 0x66}
			k := s.hostile()
			s.O(k)
			s.D(k, Frame808(0x1210, s.g2019, s.gBcd, 1, Body1210(d, pre, 0, -1, []AttItem{{Name: gname, Size: uint32(len(evil))}})))
			s.D(k, Chunk(d, gname, 0, evil))
			s.D(k, Frame808(0x1212, s.g2019, s.gBcd, 2, Body1211(gname, 0, uint32(len(evil)))))
			// the intruder takes all its answers before it closes (a probe: awaited): a close that overtakes an answer
			// would make that write fail, the upload would end as a FailQuit and nothing would be stored - the order of
			// the close and the server's writes must not be left to the scheduler
			s.probe(k, s.g2019, s.gBcd)
			s.F(k)
			s.toks = append(s.toks, "X:"+path+":"+Hx(evil), "X:"+path+":"+Hx(gdata)) // not the intruder's bytes; still the good upload's
			s.expX = "01"
			s.acceptAtt()
			run(c, s)
		}
		// mutated uploads
		nMut := 12
		if !c.Quick() {
			nMut = 600
		}
		for i := 0; i < nMut && left(); i++ {
			s := newScript(d, "mutated-upload")
			k := s.hostile()
			s.O(k)
			b := append([]byte{}, up...)
			for m := rng.Intn(3); m >= 0 && len(b) > 4; m-- {
				p := rng.Intn(len(b) - 3)
				switch rng.Intn(4) {
				case 0:
					b[p] ^= byte(1 << rng.Intn(8))
				case 1:
					b[p] = 0x7e
				case 2:
					b = append(b[:p:p], b[p+1:]...)
				default:
					copy(b[p:], []byte{0x30, 0x31, 0x63, 0x64})
				}
			}
			for _, ch := range Chunks(b, RandCuts(rng, len(b), rng.Intn(4))) {
				s.D(k, ch)
			}
			if rng.Intn(3) == 0 {
				s.F(k)
			} else {
				s.probe(k, v, bcd)
			}
			finish(d, s)
		}
	}
}

// attPrefixLen: terminal id + alarm sign + alarm id widths of the 0x1210 body (standard tables per dialect)
func attPrefixLen(d int) int {
	id := 7
	if d == 2 {
		id = 0
	} else if d == 3 || d == 5 {
		id = 30
	}
	sign := map[int]int{1: 16, 2: 38, 3: 40, 4: 32, 5: 39}[d]
	return id + sign + 32
}

func c10(c *Ctx) {
	c.Rule = "one case = one script against a real server process: good session answered, hostile connection(s), good session answered again with the next platform serial, new connection accepted. 808: every registered id x adversarial bodies (empty, 1 byte, ff.., 7e.., random short/long, 1023 zeros, every historical panic witness) x both header versions; sub-package numbers 0 / total+1 / totals that change, 65535 slots, in one read and in separate reads; FIN and RST at every 5th (thorough: every) byte of a register/auth/heartbeat/location/2-packet-multimedia conversation; the good session's own phone on a second connection; random and mutated streams with random cuts. Attachment, 5 dialects: connect-and-close, 0x1210 then 0x1212, chunks of unknown files / huge offsets and lengths / header only, adversarial 0x1210 item lists and names (../up, empty), marker inside ids, garbage, each ended by a probe, FIN or RST; FIN/RST at every 13th (thorough: every) byte of an upload; mutated uploads. Non-trivial = the script has a hostile connection"
	ContainDir = filepath.Join(c.Out, "contain")
	os.MkdirAll(ContainDir, 0o755)
	defer C10StopChildren()
	b808, batt := 36*time.Second, 36*time.Second
	if !c.Quick() {
		b808, batt = 20*time.Minute, 15*time.Minute
	}
	if os.Getenv("VERIF_C10_ONLY") != "att" {
		parserAged(c)
		gen808(c, "0", b808)
		if os.Getenv("VERIF_C10_PARSEALL") != "0" {
			gen808ParseAll(c, b808/4)
			parseAllTransfers(c)
		}
	}
	if os.Getenv("VERIF_C10_ONLY") != "808" {
		genAtt(c, batt)
	}
	// scripts that were played again because a connection got an RST that the bytes sent do not explain, or a dial failed
	// (never because of a missing / wrong answer, a FIN, or a crash): reported, not hidden
	for kind, n := range C10Transients {
		c.Dist[kind+"/transient-retry"] += n
	}
	c.Extra["transient_retries"] = C10Transients
	total := 0
	for _, n := range C10Transients {
		total += n
	}
	if total > 10 {
		c.Violate(Violation{Signature: "C10/transient-excess", What: "more than 10 scripts had to be played again because a connection was reset without the bytes sent explaining it",
			Input: "-", Observed: fmt.Sprint(C10Transients), Required: "at most 10 replays per run"})
	}
	if total > 0 || len(C10LateAnswers) > 0 {
		c.Extra["NOTE"] = fmt.Sprintf("replayed scripts (unexplained reset / failed dial): %v; answers that needed the long wait: %v", C10Transients, C10LateAnswers)
	}
	for kind, n := range C10LateAnswers {
		c.Dist[kind+"/late-answer"] += n
	}
	c.Extra["claims_repeated_until_key_released"] = C10ClaimRepeats
	c.Extra["frame_count_waits_unmet_samples"] = C10WaitUnmetSamples
	c.Extra["frame_count_waits_unmet"] = C10WaitUnmet // a wait target predicted too high: costs ContainWaitAnswer each, decides nothing
	if os.Getenv("VERIF_C10_ONLY") == "" {
		memory808(c) // 2 s: the finding is reproduced in every tier
		growth(c)    // 1 s: the quick-tier witness of the two unbounded-buffer findings
	}
	if !c.Quick() && os.Getenv("VERIF_C10_ONLY") == "" {
		expirySocket(c)
		buffers(c)
		descriptors(c)
	}
}

// buffers (thorough tier only): what cannot be parsed is buffered without bound.  A fresh server under an
// address-space limit of 4 GiB serves a connection that sends 64 MB of such bytes, and dies of one that sends ~500 MB
// (808: a stream that does not start with 7e is appended to historyData for ever; attachment: a chunk header announcing
// 4 GiB makes stageStreamData wait for the data while connection.run appends every read).
func buffers(c *Ctx) {
	for _, kind := range []string{"808", "att"} {
		ctl := "containbuf " + kind + " 4096 64"
		control := RunOp(ctl)
		c.Eval(ctl, false)
		if !strings.Contains(control, "alive=1 first=1 served=1") {
			c.Count(kind + "/buffer-control-failed")
			c.Extra["buffer_control_"+kind] = Trunc(control, 400)
			continue
		}
		req := "containbuf " + kind + " 4096 1200"
		ans := RunOp(req)
		c.Eval(req, true)
		c.Count(kind + "/buffer")
		if field(ans, "alive") != "1" || field(ans, "served") != "1" {
			c.Violate(Violation{Signature: "C10/" + kind + "/unbounded-buffer",
				What:  "one client ends the server process by sending bytes that are only buffered: the per-connection buffer has no bound",
				Input: req, Observed: Trunc(ans, 900), Required: "ok alive=1 first=1 served=1 (the same server survives 64 MB of the same bytes)"})
		}
	}
}

// descriptors (thorough tier only): the attachment server never calls Close on an accepted socket - after a fatal
// error connection.run returns and the descriptor is released by the garbage collector's finalizer once the client
// has closed its end.  Under a limit of 64 descriptors, 1000 connections that send a fatal frame (or nothing) and are closed
// by the client must not keep a new connection from being accepted and answered.
func descriptors(c *Ctx) {
	for _, req := range []string{"containfd att 64 1000 fatal", "containfd att 64 1000 empty", "containfd 808 64 1000 fatal"} {
		ans := RunOp(req)
		c.Eval(req, true)
		c.Count("descriptors")
		if field(ans, "first") != "1" {
			c.Count("descriptor-control-failed")
			continue
		}
		if field(ans, "alive") != "1" || field(ans, "served") != "1" {
			c.Violate(Violation{Signature: "C10/descriptors",
				What:  "after many short hostile connections a new connection is no longer accepted and answered (descriptors not released)",
				Input: req, Observed: Trunc(ans, 600), Required: "ok alive=1 first=1 served=1"})
		}
	}
}

// parserAged: sub-package transfers that outlive the 5 s re-request and the 60 s expiry.  A socket run cannot wait 60 s
// in the quick tier, so this family drives ONE connection's parser (service.VerifParser = packageParse.parse unchanged,
// Age shifts the stored times) read by read: packet 1 of N, age, the other packets / packet 1 again / packets of other
// ids; a panic here is a panic of the reader goroutine, i.e. the death of the server.  Model: Server.parse_chk with the
// same clock.  (The thorough tier also plays one such script over a socket with a real 61 s pause.)
func parserAged(c *Ctx) {
	rng := c.Rng
	pk := func(id uint16, v bool, bcd []byte, ser, sum, no uint16, body []byte) string {
		return "f:" + Hx(FrameSpec{ID: id, Ver2019: v, Phone: bcd, Serial: ser, Frag: true, Sum: sum, No: no, Body: body}.Wire())
	}
	ages := []int{4900, 5100, 30000, 59000, 61000, 120000}
	n := 0
	for _, id := range []uint16{0x0200, 0x0801, 0x7777} {
		for _, total := range []uint16{2, 3, 5} {
			for _, age := range ages {
				for variant := 0; variant < 4; variant++ {
					v := (n % 2) == 0
					bcd := nextPhone(v)
					var toks []string
					toks = append(toks, pk(id, v, bcd, 1, total, 1, []byte{1, 2}))
					if variant == 3 { // a second transfer of another id is pending too
						toks = append(toks, pk(id+1, v, bcd, 2, 2, 1, []byte{9}))
					}
					toks = append(toks, fmt.Sprintf("a:%d", age))
					switch variant {
					case 0: // the remaining packets in order
						for no := uint16(2); no <= total; no++ {
							toks = append(toks, pk(id, v, bcd, 10+no, total, no, []byte{byte(no)}))
						}
					case 1: // the last packet only, then an unrelated heartbeat, then packet 2 after another pause
						toks = append(toks, pk(id, v, bcd, 20, total, total, []byte{7}), "f:"+Hx(Frame808(0x0002, v, bcd, 21, nil)),
							fmt.Sprintf("a:%d", 61000), pk(id, v, bcd, 22, total, 2, []byte{8}))
					case 2: // packet 1 again (a new transfer), then the others
						toks = append(toks, pk(id, v, bcd, 30, total, 1, []byte{3}))
						for no := uint16(2); no <= total; no++ {
							toks = append(toks, pk(id, v, bcd, 30+no, total, no, []byte{byte(no)}))
						}
					default: // packets of both ids in one read
						toks = append(toks, "f:"+Hx(append(Unhx(strings.TrimPrefix(pk(id, v, bcd, 40, total, 2, []byte{5}), "f:")),
							Unhx(strings.TrimPrefix(pk(id+1, v, bcd, 41, 2, 2, []byte{6}), "f:"))...)))
					}
					if rng.Intn(3) == 0 {
						toks = append(toks, "a:61000", pk(id, v, bcd, 50, total, total, []byte{1}))
					}
					req := "parse808age " + strings.Join(toks, " ")
					ans := c.Do(req, true)
					c.Count("808/parser-aged")
					n++
					if strings.Contains(ans, "panic") {
						c.Violate(Violation{Signature: "C10/808/crash/parser-aged",
							What:  "the JT808 parser of a connection panicked on a sub-package that arrived after its transfer had aged (in the server this is the reader goroutine: the whole process dies)",
							Input: req, Observed: Trunc(ans, 400), Required: "no panic: a late packet of an expired transfer is ignored"})
					}
				}
			}
		}
	}
}

// expirySocket (thorough tier): the same over a socket with a real pause of 61 s between packet 1 and packet 2
func expirySocket(c *Ctx) {
	for _, v := range []bool{false} {
		s := &script{kind: "808", param: "0", class: "expiry-over-socket"}
		s.good808()
		k := s.hostile()
		bcd := nextPhone(v)
		s.O(k)
		s.D(k, FrameSpec{ID: 0x0801, Ver2019: v, Phone: bcd, Serial: 1, Frag: true, Sum: 3, No: 1, Body: []byte{1, 2}}.Wire())
		s.toks = append(s.toks, "T:61000")
		s.D(k, FrameSpec{ID: 0x0801, Ver2019: v, Phone: bcd, Serial: 2, Frag: true, Sum: 3, No: 2, Body: []byte{3}}.Wire())
		s.D(k, FrameSpec{ID: 0x0801, Ver2019: v, Phone: bcd, Serial: 3, Frag: true, Sum: 3, No: 3, Body: []byte{4}}.Wire())
		s.probe(k, v, bcd)
		s.good808()
		s.accept808()
		run(c, s)
	}
}

// growth (every tier): what cannot be parsed is kept.  One connection sends 48 MB the server can only buffer; the resident
// memory of the (unlimited) server process grows by about as much - the cheap witness of C10/<srv>/unbounded-buffer (the
// thorough tier lets the same growth reach an address-space limit: containbuf).  A bounded buffer would hold a small
// fraction of what was sent.
func growth(c *Ctx) {
	for _, kind := range []string{"808", "att"} {
		req := "containgrow " + kind + " 48"
		ans := RunOp(req)
		c.Eval(req, true)
		c.Count(kind + "/growth")
		if field(ans, "first") != "1" || field(ans, "sent_mb") != "48" {
			c.Count(kind + "/growth-control-failed")
			continue
		}
		held := 0
		fmt.Sscan(field(ans, "held_mb"), &held)
		if held >= 36 {
			c.Violate(Violation{Signature: "C10/" + kind + "/unbounded-buffer",
				What:  "one connection makes the server hold everything it sends: 48 MB of bytes that can only be buffered raise the resident memory of the process by about as much; nothing bounds the per-connection buffer (with an address-space limit the process dies: containbuf, thorough tier)",
				Input: req, Observed: Trunc(ans, 300), Required: "held_mb far below sent_mb (a bound on what one connection can make the server keep)"})
		}
	}
}

// memory808 (every tier): the resource side the model does not see.  A fresh server under an
// address-space limit of 4 GiB (ulimit -v) is first shown to serve 50 "packet 1 of 65535" frames, then is
// sent 6000 of them (126 KB): completePack allocates a 65535-slot table per message id and keeps it for 60 s.
func memory808(c *Ctx) {
	control := RunOp("contain808mem 4096 50")
	c.Eval("contain808mem 4096 50", false)
	if !strings.Contains(control, "alive=1 g1=1 g2=1 a=1") {
		c.Count("808/memory-control-failed")
		c.Extra["memory_control"] = Trunc(control, 400)
		return
	}
	req := "contain808mem 4096 6000"
	ans := RunOp(req)
	c.Eval(req, true)
	c.Count("808/memory")
	if field(ans, "alive") != "1" || field(ans, "g2") != "1" || field(ans, "a") != "1" {
		c.Violate(Violation{Signature: "C10/808/memory-exhaustion",
			What:  "one client ends the JT808 server process by exhausting its address space: 6000 frames of 21 bytes, each packet 1 of 65535 of another message id, make completePack allocate 6000 tables of 65535 slots (1.5 MB each, kept 60 s)",
			Input: req, Observed: Trunc(ans, 900), Required: "ok alive=1 g1=1 g2=1 a=1 (the same server serves 50 such frames)"})
	}
}

// parseAllTransfers: under the parse-every-body handlers a COMPLETED two-packet transfer reaches the handler with the
// merged body (the pm_complete path of the model); location, batch and multimedia bodies, both versions
func parseAllTransfers(c *Ctx) {
	loc := make([]byte, 28)
	bodies := map[uint16][]byte{
		0x0200: append(append([]byte{}, loc...), 0x01, 0x04, 0, 0, 0, 9, 0x31, 0x00),
		0x0704: append([]byte{0, 2, 0, 0, 28}, loc...),
		0x0801: make([]byte, 60),
		0x0102: append([]byte{230}, make([]byte, 299)...),
	}
	for id, body := range bodies {
		for _, v := range []bool{false, true} {
			s := &script{kind: "808", param: "1", class: "parse-all-transfer"}
			s.good808()
			k := s.hostile()
			bcd := nextPhone(v)
			half := len(body) / 2
			s.O(k)
			s.D(k, FrameSpec{ID: id, Ver2019: v, Phone: bcd, Serial: 1, Frag: true, Sum: 2, No: 1, Body: body[:half]}.Wire())
			s.D(k, FrameSpec{ID: id, Ver2019: v, Phone: bcd, Serial: 2, Frag: true, Sum: 2, No: 2, Body: body[half:]}.Wire())
			s.probe(k, v, bcd)
			s.good808()
			s.accept808()
			run(c, s)
		}
	}
}

// gen808ParseAll: the same witnesses against a server whose handlers Parse every body (README pattern)
func gen808ParseAll(c *Ctx, budget time.Duration) {
	rng := c.Rng
	start := time.Now()
	wit := witnesses(rng)
	for _, id := range ids808 {
		for _, body := range append(wit[id], nil, []byte{0xff}, RandBody(rng, 60)) {
			if time.Since(start) > budget {
				return
			}
			for _, v := range []bool{false, true} {
				s := &script{kind: "808", param: "1", class: "parse-all"}
				s.good808()
				k := s.hostile()
				bcd := nextPhone(v)
				s.O(k)
				s.D(k, Frame808(id, v, bcd, 2, body))
				s.probe(k, v, bcd)
				s.good808()
				s.accept808()
				run(c, s)
			}
		}
	}
}

package main

// Scenarios run under the race detector (tie (ii) of C18): many terminals and callers against one live
// server built with -race and the delay overlay.  Nothing is judged here except "did it finish"; the
// verdict is the detector's (and a crash of the child).

import (
	"encoding/json"
	"fmt"
	"math/rand"
	"net"
	"strconv"
	"strings"
	"sync"
	"sync/atomic"
	"time"

	"github.com/cuteLittleDevil/go-jt808/service"

	. "verifh/lib"
)

type scenStats struct {
	Conns, Frames, Cmds                                  int
	Resp, Timeout, WFail, NoExist, Other, Hang           int
	Joins, Refused, Leaves, Probes, CmdsSeen, Unanswered int64
	Stalled                                              string
}

var (
	scenOnce  sync.Once
	scenSrv   *Srv
	probeHits int64
)

// headerProbe is what a user's OnJoinEvent may do with the message it is given: look at the header.
func headerProbe(msg *service.Message, key string, err error) {
	if msg == nil || msg.JTMessage == nil || msg.JTMessage.Header == nil {
		return
	}
	end := time.Now().Add(150 * time.Microsecond)
	var acc int
	for {
		h := *msg.JTMessage.Header
		acc += int(h.PlatformSerialNumber) + int(h.ReplyID) + int(h.SerialNumber) + len(h.TerminalPhoneNo)
		if h.Property != nil {
			p := *h.Property
			acc += int(p.BodyDayaLen)
		}
		if time.Now().After(end) {
			break
		}
	}
	if acc == -1 {
		panic("unreachable")
	}
	atomic.AddInt64(&probeHits, 1)
}

func scenServer() *Srv {
	scenOnce.Do(func() {
		// a custom KeyFunc as C11's scenarios use it: an invalid key (phones 99...), the empty key (phone 88)
		scenSrv = StartSrv(func(phone string) (string, bool) {
			if strings.HasPrefix(phone, "99") {
				return "", false
			}
			if phone == "88" {
				return "", true
			}
			return phone, true
		})
		scenSrv.Rec.OnJoin = headerProbe
	})
	return scenSrv
}

// fragFrames: one message body cut into parts (sub-packaged message, JT/T 808 table 3).
func fragFrames(id uint16, phone string, serial uint16, body []byte, parts int) [][]byte {
	var out [][]byte
	size := (len(body) + parts - 1) / parts
	for k := 0; k < parts; k++ {
		lo, hi := k*size, (k+1)*size
		if hi > len(body) {
			hi = len(body)
		}
		chunk := body[lo:hi]
		attr := uint16(len(chunk)) | 0x2000
		b := []byte{byte(id >> 8), byte(id), byte(attr >> 8), byte(attr)}
		ph := phone
		for len(ph) < 12 {
			ph = "0" + ph
		}
		for i := 0; i < 6; i++ {
			b = append(b, (ph[2*i]-'0')<<4|(ph[2*i+1]-'0'))
		}
		s := serial + uint16(k)
		b = append(b, byte(s>>8), byte(s), byte(parts>>8), byte(parts), byte((k+1)>>8), byte(k+1))
		b = append(b, chunk...)
		var x byte
		for _, v := range b {
			x ^= v
		}
		b = append(b, x)
		esc := []byte{0x7e}
		for _, v := range b {
			switch v {
			case 0x7e:
				esc = append(esc, 0x7d, 0x02)
			case 0x7d:
				esc = append(esc, 0x7d, 0x01)
			default:
				esc = append(esc, v)
			}
		}
		out = append(out, append(esc, 0x7e))
	}
	return out
}

func locationBody(rng *rand.Rand) []byte {
	b := make([]byte, 28)
	for i := 0; i < 22; i++ {
		b[i] = byte(rng.Intn(256))
	}
	copy(b[22:], []byte{0x24, 0x10, 0x01, 0x12, 0x30, 0x45}) // BCD time
	return b
}

// frame2019: the 2019 header (attribute bit 14, protocol version byte, 10-byte BCD phone).
func frame2019(id uint16, phone string, serial uint16, body []byte) []byte {
	attr := uint16(len(body)) | 0x4000
	b := []byte{byte(id >> 8), byte(id), byte(attr >> 8), byte(attr), 1}
	for len(phone) < 20 {
		phone = "0" + phone
	}
	for i := 0; i < 10; i++ {
		b = append(b, (phone[2*i]-'0')<<4|(phone[2*i+1]-'0'))
	}
	b = append(b, byte(serial>>8), byte(serial))
	b = append(b, body...)
	var x byte
	for _, v := range b {
		x ^= v
	}
	b = append(b, x)
	out := []byte{0x7e}
	for _, v := range b {
		switch v {
		case 0x7e:
			out = append(out, 0x7d, 0x02)
		case 0x7d:
			out = append(out, 0x7d, 0x01)
		default:
			out = append(out, v)
		}
	}
	return append(out, 0x7e)
}

func respType(cmd uint16) uint16 {
	switch cmd {
	case 0x8104:
		return 0x0104
	case 0x9003:
		return 0x1003
	case 0x8801:
		return 0x0805
	case 0x9205:
		return 0x1205
	}
	return 0x0001
}

var cmdIDs = []uint16{0x8104, 0x9003, 0x8801, 0x9205, 0x8103, 0x9101, 0x9102, 0x9206}

func runScen(seed int64, nconn, ncallers, ms int) (st scenStats) {
	s := scenServer()
	rng := rand.New(rand.NewSource(seed))
	deadline := time.Now().Add(time.Duration(ms) * time.Millisecond)
	base := 100000 + int(seed%800000)
	phones := make([]string, nconn)
	for i := range phones {
		phones[i] = strconv.Itoa(base + i)
		if i > 0 && rng.Intn(5) == 0 {
			phones[i] = phones[rng.Intn(i)] // duplicate key: refused while the first is online
		}
		if rng.Intn(9) == 0 {
			phones[i] = "88" // the empty key (several such terminals: duplicates of it are refused as well)
		}
	}
	ev0 := s.Rec.NConns()
	var mu sync.Mutex
	var wg sync.WaitGroup
	var cmdsSeen, unanswered int64
	var online []string // phones whose terminal has connected (they stay listed after it left: commands race teardowns)
	for i := 0; i < nconn; i++ {
		wg.Add(1)
		go func(i int, r *rand.Rand) {
			defer wg.Done()
			time.Sleep(time.Duration(r.Intn(ms*400)) * time.Microsecond)
			t, err := DialTerm(s.Addr, phones[i])
			if err != nil {
				return
			}
			done := make(chan struct{})
			rseed := r.Int63()
			mu.Lock()
			online = append(online, phones[i])
			mu.Unlock()
			go func() { // responder: its own serial space (Term.Send is for one goroutine only)
				defer close(done)
				rr := rand.New(rand.NewSource(rseed))
				rser := uint16(0x8000)
				send := func(id uint16, body []byte) {
					t.SendRaw(TFrame(id, phones[i], rser, body))
					rser++
				}
				for f := range t.Frames {
					if f.Bad != "" || f.ID == 0x8001 || f.ID == 0x8100 || f.ID == 0x8800 || f.ID == 0x8003 {
						continue
					}
					atomic.AddInt64(&cmdsSeen, 1)
					x := rr.Intn(100)
					if x < 12 {
						atomic.AddInt64(&unanswered, 1)
						continue // let the timer fire
					}
					if x >= 12 && x < 20 {
						time.Sleep(time.Duration(2+rr.Intn(12)) * time.Millisecond) // a late answer: after the 1/3/10 ms timers
					}
					if x >= 20 && x < 24 {
						send(respType(f.ID), RespBody(respType(f.ID), f.Serial+100, f.ID)) // an answer nobody waits for
					}
					send(respType(f.ID), RespBody(respType(f.ID), f.Serial, f.ID))
					if x > 92 {
						send(respType(f.ID), RespBody(respType(f.ID), f.Serial, f.ID)) // a duplicate answer
					}
				}
			}()
			n := 1 + r.Intn(8)
			frames := 0
			if r.Intn(8) == 0 { // a first message whose key is invalid: OnJoinEvent(err), no session, the next message tries again
				t.SendRaw(TFrame(0x0002, "99"+strconv.Itoa(i), t.NextSerial(), nil))
			}
			if r.Intn(5) == 0 { // the first handled message is a sub-package fragment (C11's ff): joins on it
				ser := t.NextSerial()
				t.NextSerial()
				for _, fr := range ConcFragFrames(0x0200, phones[i], ser, append(locationBody(r), locationBody(r)...), 2) {
					t.SendRaw(fr)
				}
			}
			for k := 0; k < n && time.Now().Before(deadline); k++ {
				switch r.Intn(15) {
				case 10: // registration (2013 layout): province, city, manufacturer, model, terminal id, colour, plate
					b := make([]byte, 37)
					for j := range b {
						b[j] = byte('A' + r.Intn(26))
					}
					t.Send(0x0100, append(b, []byte("B12345")...))
				case 11: // a sub-packaged multimedia upload (0x0801): the handler re-parses the completed message in the writer
					b := append([]byte{0, 0, 0, byte(1 + r.Intn(200)), 0, 0, 0, 1}, locationBody(r)...)
					for j := 0; j < 60+r.Intn(200); j++ {
						b = append(b, byte(r.Intn(256)))
					}
					parts := 2 + r.Intn(3)
					ser := t.NextSerial()
					for j := 1; j < parts; j++ {
						t.NextSerial()
					}
					for _, fr := range ConcFragFrames(0x0801, phones[i], ser, b, parts) {
						t.SendRaw(fr)
						if r.Intn(3) == 0 {
							time.Sleep(time.Duration(r.Intn(400)) * time.Microsecond)
						}
					}
				case 12: // one frame in two TCP segments
					fr := TFrame(0x0200, phones[i], t.NextSerial(), locationBody(r))
					cut := 1 + r.Intn(len(fr)-1)
					t.SendRaw(fr[:cut])
					time.Sleep(time.Duration(r.Intn(500)) * time.Microsecond)
					t.SendRaw(fr[cut:])
				case 13: // a body full of bytes that must be escaped
					b := locationBody(r)
					for j := 0; j < 20; j += 2 {
						b[j], b[j+1] = 0x7e, 0x7d
					}
					t.Send(0x0200, b)
				case 14: // a 2019-version frame (version flag, 10-byte phone)
					t.SendRaw(frame2019(0x0200, phones[i], t.NextSerial(), locationBody(r)))
				case 0, 1, 2:
					t.Send(0x0002, nil)
				case 3, 4:
					t.Send(0x0200, locationBody(r))
				case 5:
					t.Send(0x0102, []byte(phones[i]))
				case 6:
					body := append(locationBody(r), locationBody(r)...)
					parts := 2 + r.Intn(2)
					ser := t.NextSerial()
					for j := 1; j < parts; j++ {
						t.NextSerial()
					}
					for _, fr := range fragFrames(0x0200, phones[i], ser, body, parts) {
						t.SendRaw(fr)
						if r.Intn(2) == 0 {
							time.Sleep(time.Duration(r.Intn(300)) * time.Microsecond)
						}
					}
				case 7:
					t.Send(0x0F01, []byte{1, 2, 3}) // no handler: OnNotSupportedEvent
				case 8:
					t.Send(0x8003, []byte{0, 1, 1, 0, 1}) // re-request of sub-packages: reissuePackChan
				case 9:
					t.SendRaw(append(TFrame(0x0002, phones[i], t.NextSerial(), nil), TFrame(0x0200, phones[i], t.NextSerial(), locationBody(r))...))
				}
				frames++
				time.Sleep(time.Duration(r.Intn(1500)) * time.Microsecond)
			}
			time.Sleep(time.Duration(r.Intn(ms*300)) * time.Microsecond)
			switch r.Intn(4) {
			case 0:
				t.Reset()
			case 1:
				t.Close()
			default:
				t.Conn.CloseWrite()
				select {
				case <-done:
				case <-time.After(3 * time.Second):
				}
				t.Close()
			}
			select {
			case <-done:
			case <-time.After(3 * time.Second):
			}
			if r.Intn(4) == 0 && time.Now().Before(deadline) { // reconnect: a new connection asks for the same key at once
				if t2, err := DialTerm(s.Addr, phones[i]); err == nil {
					go func() {
						for range t2.Frames {
						}
					}()
					for k := 0; k < 1+r.Intn(3); k++ {
						t2.Send(0x0002, nil)
						time.Sleep(time.Duration(r.Intn(800)) * time.Microsecond)
					}
					t2.Close()
				}
			}
			mu.Lock()
			st.Conns++
			st.Frames += frames
			mu.Unlock()
		}(i, rand.New(rand.NewSource(rng.Int63())))
	}
	timeouts := []time.Duration{-1, time.Millisecond, 3 * time.Millisecond, 10 * time.Millisecond, 100 * time.Millisecond}
	for c := 0; c < ncallers; c++ {
		wg.Add(1)
		go func(r *rand.Rand) {
			defer wg.Done()
			for time.Now().Before(deadline) {
				key := phones[r.Intn(nconn)]
				mu.Lock()
				if len(online) > 0 && r.Intn(10) < 8 {
					key = online[len(online)-1-r.Intn((len(online)+1)/2)] // mostly the recently connected ones
				}
				mu.Unlock()
				cmd := cmdIDs[r.Intn(len(cmdIDs))]
				to := timeouts[r.Intn(len(timeouts))]
				if key == "88" {
					key = "" // the key, not the phone
				}
				res := Await(s.Call(key, cmd, []byte{byte(r.Intn(256)), 0, 0, 0}, to), 5*time.Second)
				mu.Lock()
				st.Cmds++
				switch res.Kind {
				case "resp":
					st.Resp++
				case "timeout":
					st.Timeout++
				case "wfail":
					st.WFail++
				case "noexist":
					st.NoExist++
				case "hang":
					st.Hang++
				default:
					st.Other++
				}
				mu.Unlock()
				if res.Kind == "hang" {
					return
				}
				if res.Kind == "noexist" {
					time.Sleep(time.Duration(100+r.Intn(300)) * time.Microsecond)
				}
				if r.Intn(3) == 0 {
					time.Sleep(time.Duration(r.Intn(400)) * time.Microsecond)
				}
			}
		}(rand.New(rand.NewSource(rng.Int63())))
	}
	wg.Wait()
	// every connection of this scenario must have left before the next one starts (bounded, not judged)
	end := time.Now().Add(5 * time.Second)
	for time.Now().Before(end) {
		left := int64(0)
		for i := ev0; i < s.Rec.NConns(); i++ {
			for _, e := range s.Rec.Events(i) {
				if e.Kind == "leave" {
					left++
				}
			}
		}
		if int(left) >= s.Rec.NConns()-ev0 {
			break
		}
		time.Sleep(2 * time.Millisecond)
	}
	for i := ev0; i < s.Rec.NConns(); i++ {
		for _, e := range s.Rec.Events(i) {
			switch {
			case e.Kind == "leave":
				st.Leaves++
			case e.Kind == "join" && e.Err == "":
				st.Joins++
			case e.Kind == "join" && e.Err == "exist":
				st.Refused++
			}
		}
	}
	st.Probes = atomic.LoadInt64(&probeHits)
	st.CmdsSeen, st.Unanswered = cmdsSeen, unanswered
	return st
}

func scenJSON(a []string) string {
	seed, _ := strconv.ParseInt(a[0], 10, 64)
	n := func(i int) int { v, _ := strconv.Atoi(a[i]); return v }
	st := runScen(seed, n(1), n(2), n(3))
	b, _ := json.Marshal(st)
	return string(b)
}

// ---------------------------------------------------------------- the C12/C13 scenario kinds under the detector
// conc_writer.go (builder conc2, used read-only): GenW builds a command / teardown scenario of a named kind
// (order, frag, reissue, flood-close, burst, late, dup, unknown, bad, never, mixed, attr, notmo, prejoin, wrap,
// close-idle / -queued / -outstanding / -afterresp / -timer / -early, rst-outstanding, ...), RunW plays it on a
// live server.  Their verdicts belong to C12/C13; here only the race detector judges.
var slowKinds = map[string]bool{"stall": true, "stall-close": true, "default0": true, "wrap": true} // 5 s stalls, the 3 s default timeout, 65536 heartbeats: thorough tier only

func runWKinds(seed int64, slow bool) string {
	s := scenServer()
	var wg sync.WaitGroup
	var mu sync.Mutex
	n, viol := 0, 0
	durs := ""
	for k, kind := range WKinds {
		if slowKinds[kind] && !slow {
			continue
		}
		wg.Add(1)
		go func(k int, kind string) {
			defer wg.Done()
			t0 := time.Now()
			h := RunW(s, GenW(kind, seed*100+int64(k)))
			mu.Lock()
			durs += fmt.Sprintf("%s:%d,", kind, time.Since(t0).Milliseconds())
			n++
			viol += len(h.Viol)
			mu.Unlock()
		}(k, kind)
	}
	wg.Wait()
	return "{\"WKinds\":" + strconv.Itoa(n) + ",\"WViol\":" + strconv.Itoa(viol) + ",\"Durs\":\"" + durs + "\"}"
}

// ---------------------------------------------------------------- the sub-package filter switched off
// WithHasSubcontract(false): every sub-packet is handed to the handlers and answered by the writer, and so is the
// merged message.  The eventer does what a user's OnReadExecutionEvent may do: look at the message's header.
type nfEventer struct{}

func (nfEventer) OnJoinEvent(msg *service.Message, key string, err error) {}
func (nfEventer) OnLeaveEvent(key string)                                {}
func (nfEventer) OnNotSupportedEvent(msg *service.Message)               {}
func (nfEventer) OnWriteExecutionEvent(msg service.Message)              {}
func (nfEventer) OnReadExecutionEvent(msg *service.Message) {
	if msg == nil || msg.JTMessage == nil || msg.JTMessage.Header == nil {
		return
	}
	end := time.Now().Add(60 * time.Microsecond)
	acc := 0
	for {
		h := *msg.JTMessage.Header
		acc += int(h.ReplyID) + int(h.PlatformSerialNumber) + int(h.SubPackageSum) + len(msg.JTMessage.Body)
		if h.Property != nil {
			p := *h.Property
			acc += int(p.BodyDayaLen) + int(p.PacketFragmented)
		}
		if time.Now().After(end) {
			break
		}
	}
	if acc == -1 {
		panic("unreachable")
	}
}

var (
	nfOnce sync.Once
	nfAddr string
)

func nfServer() string {
	nfOnce.Do(func() {
		for attempt := 0; attempt < 20 && nfAddr == ""; attempt++ {
			l, err := net.Listen("tcp", "127.0.0.1:0")
			if err != nil {
				continue
			}
			addr := l.Addr().String()
			l.Close()
			g := service.New(service.WithHostPorts(addr), service.WithHasSubcontract(false),
				service.WithCustomTerminalEventer(func() service.TerminalEventer { return nfEventer{} }))
			go g.Run()
			for i := 0; i < 200; i++ {
				c, err := net.DialTimeout("tcp", addr, 200*time.Millisecond)
				if err == nil {
					c.Close()
					nfAddr = addr
					break
				}
				time.Sleep(5 * time.Millisecond)
			}
		}
	})
	return nfAddr
}

// runNoFilter: nconn terminals, each sending sub-packaged transfers (0x0200 / 0x0801, 2..4 parts, the parts in
// separate writes or in one) and plain messages for ms milliseconds.
func runNoFilter(seed int64, nconn, ms int) string {
	addr := nfServer()
	if addr == "" {
		return `{"NF":"no server"}`
	}
	rng := rand.New(rand.NewSource(seed))
	deadline := time.Now().Add(time.Duration(ms) * time.Millisecond)
	var wg sync.WaitGroup
	var transfers int64
	for i := 0; i < nconn; i++ {
		wg.Add(1)
		go func(i int, r *rand.Rand) {
			defer wg.Done()
			phone := strconv.Itoa(700000 + int(seed%100000)*10 + i)
			t, err := DialTerm(addr, phone)
			if err != nil {
				return
			}
			go func() {
				for range t.Frames {
				}
			}()
			for time.Now().Before(deadline) {
				switch r.Intn(4) {
				case 0:
					t.Send(0x0002, nil)
				case 1:
					t.Send(0x0200, locationBody(r))
				default:
					id := uint16(0x0200)
					body := append(locationBody(r), locationBody(r)...)
					if r.Intn(2) == 0 {
						id = 0x0801
						body = append([]byte{0, 0, 0, byte(1 + r.Intn(200)), 0, 0, 0, 1}, body...)
					}
					parts := 2 + r.Intn(3)
					ser := t.NextSerial()
					for j := 1; j < parts; j++ {
						t.NextSerial()
					}
					frs := ConcFragFrames(id, phone, ser, body, parts)
					if r.Intn(2) == 0 {
						var all []byte
						for _, fr := range frs {
							all = append(all, fr...)
						}
						t.SendRaw(all)
					} else {
						for _, fr := range frs {
							t.SendRaw(fr)
							if r.Intn(2) == 0 {
								time.Sleep(time.Duration(r.Intn(200)) * time.Microsecond)
							}
						}
					}
					atomic.AddInt64(&transfers, 1)
				}
				time.Sleep(time.Duration(r.Intn(800)) * time.Microsecond)
			}
			t.Close()
		}(i, rand.New(rand.NewSource(rng.Int63())))
	}
	wg.Wait()
	time.Sleep(20 * time.Millisecond)
	return `{"NF":"ok","Transfers":` + strconv.FormatInt(transfers, 10) + `}`
}

// ---------------------------------------------------------------- the server with DEFAULT options
// No custom eventer (the library's defaultTerminalEvent, made by the default CustomTerminalEventerFunc), default
// handlers, default key func (variant 0) or only WithKeyFunc (variant 1: keys 99... are invalid): the code paths
// that every other scenario replaces by its own eventer.  Duplicate-key joins and invalid keys make OnJoinEvent
// run with an error, parallel disconnects make OnLeaveEvent run - on many connections at once.
var (
	defMu   sync.Mutex
	defAddr = map[int]string{}
)

func defServer(variant int) string {
	defMu.Lock()
	defer defMu.Unlock()
	if a, ok := defAddr[variant]; ok {
		return a
	}
	for attempt := 0; attempt < 20; attempt++ {
		l, err := net.Listen("tcp", "127.0.0.1:0")
		if err != nil {
			continue
		}
		addr := l.Addr().String()
		l.Close()
		opts := []service.Option{service.WithHostPorts(addr)}
		if variant == 1 {
			opts = append(opts, service.WithKeyFunc(func(m *service.Message) (string, bool) {
				ph := m.JTMessage.Header.TerminalPhoneNo
				return ph, !strings.HasPrefix(strings.TrimLeft(ph, "0"), "99")
			}))
		}
		g := service.New(opts...)
		go g.Run()
		for i := 0; i < 200; i++ {
			c, err := net.DialTimeout("tcp", addr, 200*time.Millisecond)
			if err == nil {
				c.Close()
				defAddr[variant] = addr
				return addr
			}
			time.Sleep(5 * time.Millisecond)
		}
	}
	return ""
}

func runDefault(seed int64, nconn, ms, variant int) string {
	addr := defServer(variant)
	if addr == "" {
		return `{"DEF":"no server"}`
	}
	rng := rand.New(rand.NewSource(seed))
	deadline := time.Now().Add(time.Duration(ms) * time.Millisecond)
	var wg sync.WaitGroup
	var lives int64
	for i := 0; i < nconn; i++ {
		wg.Add(1)
		go func(i int, r *rand.Rand) {
			defer wg.Done()
			for time.Now().Before(deadline) {
				// few keys: most first messages meet a key that is online (refused: OnJoinEvent with an error)
				phone := strconv.Itoa(500000 + int(seed%1000)*10 + r.Intn(3))
				if variant == 1 && r.Intn(4) == 0 {
					phone = "99" + strconv.Itoa(r.Intn(50)) // invalid key
				}
				t, err := DialTerm(addr, phone)
				if err != nil {
					return
				}
				go func() {
					for range t.Frames {
					}
				}()
				for k := 0; k < 1+r.Intn(3); k++ {
					t.Send(0x0002, nil)
					time.Sleep(time.Duration(r.Intn(600)) * time.Microsecond)
				}
				if r.Intn(2) == 0 {
					t.Reset()
				} else {
					t.Close()
				}
				atomic.AddInt64(&lives, 1)
				time.Sleep(time.Duration(r.Intn(400)) * time.Microsecond)
			}
		}(i, rand.New(rand.NewSource(rng.Int63())))
	}
	wg.Wait()
	time.Sleep(20 * time.Millisecond)
	return `{"DEF":"ok","Lives":` + strconv.FormatInt(lives, 10) + `}`
}

#!/bin/bash
# checks/C18.json "pre_build": regenerate coq/Gen/Race_gen.v from the tree under check (VERIF_REPO, default /repo).
# Exit status non-zero = the table could not be produced; in that case the file is OVERWRITTEN with a version that
# withholds the four gen_race_* definitions (so a stale table of another tree can never stand in).
export GOFLAGS=-mod=mod GOPROXY=off GOSUMDB=off GOTOOLCHAIN=local CGO_ENABLED=0
OUT=/verif/coq/Gen/Race_gen.v
cd /verif/harness || exit 2
go run cmd/C18/gen_race.go cmd/C18/sites.go -repo "${VERIF_REPO:-/repo}" -out "$OUT"
rc=$?
if [ $rc -ne 0 ] && ! grep -q 'gen_race_unrecognised : list string := \["' "$OUT" 2>/dev/null; then
  # the generator itself did not run (toolchain failure): withhold
  cat > "$OUT" <<'STUB'
(* GENERATED stub: harness/cmd/C18/gen_race.go could not be run - the site tables are withheld. *)
From Coq Require Import List String.
Import ListNotations.
Open Scope string_scope.
Definition gen_race_unrecognised : list string := ["the generator could not be run (go toolchain / harness/cmd/C18/gen_race.go)"].
STUB
fi
exit $rc

#!/bin/bash
# checks/C18.json "pre_build": regenerate coq/Gen/Race_gen.v from the tree under check (VERIF_REPO, default /repo).
export GOFLAGS=-mod=mod GOPROXY=off GOSUMDB=off GOTOOLCHAIN=local CGO_ENABLED=0
cd /verif/harness || exit 2
exec go run cmd/C18/gen_race.go cmd/C18/sites.go -repo "${VERIF_REPO:-/repo}" -out /verif/coq/Gen/Race_gen.v

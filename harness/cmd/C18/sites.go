package main

// Access-site lister (tie (i) of C18): type-checks package service of the tree under check from source
// and lists every selector expression that denotes a field of one of the struct types whose memory
// location is static in the model (connection, packageParse, packageComplete, sessionManager, session),
// with the enclosing function (closures: <func>$<k>, k-th function literal of the declaration in source
// order) and its role (r = the field's value is read, w = the field, or the map/slice/array it holds,
// is written: assignment, ++/--, &x.f, clear/delete/copy-into/append-assign, index assignment).
//
// Message-like objects (Message, ActiveMessage, jt808.JTMessage/Header) are owned dynamically (they
// are handed from goroutine to goroutine); they are covered by the model's hand-over discipline and by
// the race detector runs, not by this table.

import (
	"fmt"
	"go/ast"
	"go/importer"
	"go/parser"
	"go/token"
	"go/types"
	"os"
	"path/filepath"
	"sort"
	"strings"
)

var staticTypes = map[string]bool{"connection": true, "packageParse": true, "packageComplete": true,
	"sessionManager": true, "session": true, "defaultTerminalEvent": true}

type site struct {
	Func, Type, Field, Role string
	Pos                     string
}

// edge: a static call (Kind "call": the callee runs in the caller's goroutine; also deferred and
// immediately invoked function literals) or a go statement (Kind "spawn") between functions of package service.
type edge struct {
	Kind, Caller, Callee string
	Pos                  string
}

func (e edge) key() string { return e.Kind + " " + e.Caller + " " + e.Callee }

// capture: a function literal that runs in ANOTHER goroutine (the target of a go statement, or sent on a
// channel) uses a variable declared in the function that creates it.
//
//	Kind  chan  - a channel (a synchronisation object)
//	      basic - a number, string, bool (also named ones: time.Duration): nothing is shared but the value
//	      ref   - anything through which memory is shared: pointer, map, slice, interface, func, struct
//	Type  the variable's type, package-qualified by package name, without spaces
//	Imm   the creating function does not write the variable at or after the closure (writes before the
//	      closure is created happen-before its goroutine starts); renaming the variable changes nothing
type capture struct {
	Func, Var, Kind, Type, Role string
	Imm                         bool
	Pos                         string
	obj                         types.Object
	lit                         *ast.FuncLit
}

func (c capture) key() string {
	imm := "mut"
	if c.Imm {
		imm = "imm"
	}
	return "cap " + c.Func + " " + c.Var + " " + c.Kind + " " + c.Type + " " + c.Role + " " + imm
}

func kindOf(t types.Type) string {
	switch u := t.Underlying().(type) {
	case *types.Chan:
		return "chan"
	case *types.Basic:
		_ = u
		return "basic"
	}
	return "ref"
}

func (s site) key() string { return s.Func + " " + s.Type + " " + s.Field + " " + s.Role }

func listSites(serviceDir string) ([]site, []edge, []capture, []fieldDecl, error) {
	fset := token.NewFileSet()
	ents, err := os.ReadDir(serviceDir)
	if err != nil {
		return nil, nil, nil, nil, err
	}
	var files []*ast.File
	for _, e := range ents {
		n := e.Name()
		if !strings.HasSuffix(n, ".go") || strings.HasSuffix(n, "_test.go") || n == "verif_hooks.go" {
			continue
		}
		f, err := parser.ParseFile(fset, filepath.Join(serviceDir, n), nil, 0)
		if err != nil {
			return nil, nil, nil, nil, err
		}
		files = append(files, f)
	}
	wd, _ := os.Getwd()
	if err := os.Chdir(serviceDir); err != nil { // the source importer resolves imports relative to the module of cwd
		return nil, nil, nil, nil, err
	}
	defer os.Chdir(wd)
	info := &types.Info{Selections: map[*ast.SelectorExpr]*types.Selection{}, Uses: map[*ast.Ident]types.Object{},
		Defs: map[*ast.Ident]types.Object{}, Types: map[ast.Expr]types.TypeAndValue{}}
	conf := types.Config{Importer: importer.ForCompiler(fset, "source", nil), Error: func(error) {}}
	pkg, err := conf.Check("github.com/cuteLittleDevil/go-jt808/service", fset, files, info)
	var pkgScope *types.Scope
	if pkg != nil {
		pkgScope = pkg.Scope()
	}
	if err != nil {
		// type errors in unrelated code are tolerated as long as the selections were resolved
		if len(info.Selections) == 0 {
			return nil, nil, nil, nil, fmt.Errorf("type check: %v", err)
		}
	}
	var decls []fieldDecl
	if pkgScope != nil {
		for _, n := range pkgScope.Names() {
			if tn, ok := pkgScope.Lookup(n).(*types.TypeName); ok && staticTypes[tn.Name()] {
				if st, ok := tn.Type().Underlying().(*types.Struct); ok {
					for i := 0; i < st.NumFields(); i++ {
						decls = append(decls, fieldDecl{tn.Name(), st.Field(i).Name(), typeStr(st.Field(i).Type())})
					}
				}
			}
		}
	}
	var out []site
	var edges []edge
	var caps []capture
	skipCall := map[*ast.CallExpr]bool{}
	calleeName := func(fun ast.Expr) string { // name of a function/method of package service, "" otherwise
		switch x := fun.(type) {
		case *ast.ParenExpr:
			return ""
		case *ast.Ident:
			if fn, ok := info.Uses[x].(*types.Func); ok && fn.Pkg() != nil && fn.Pkg().Name() == "service" {
				return fn.Name()
			}
		case *ast.SelectorExpr:
			if sel := info.Selections[x]; sel != nil && sel.Kind() == types.MethodVal {
				if fn, ok := sel.Obj().(*types.Func); ok && fn.Pkg() != nil && fn.Pkg().Name() == "service" {
					if sig, ok := fn.Type().(*types.Signature); ok && sig.Recv() != nil {
						t := sig.Recv().Type()
						if p, ok := t.(*types.Pointer); ok {
							t = p.Elem()
						}
						if n, ok := t.(*types.Named); ok {
							return n.Obj().Name() + "." + fn.Name()
						}
					}
				}
			}
		}
		return ""
	}
	structOf := func(t types.Type) string {
		for {
			if p, ok := t.(*types.Pointer); ok {
				t = p.Elem()
				continue
			}
			break
		}
		if n, ok := t.(*types.Named); ok {
			if _, ok := n.Underlying().(*types.Struct); ok && n.Obj().Pkg() != nil && n.Obj().Pkg().Name() == "service" {
				return n.Obj().Name()
			}
		}
		return ""
	}
	for _, f := range files {
		for _, d := range f.Decls {
			fd, ok := d.(*ast.FuncDecl)
			if !ok || fd.Body == nil {
				continue
			}
			name := fd.Name.Name
			if fd.Recv != nil && len(fd.Recv.List) == 1 {
				name = structOfExpr(fd.Recv.List[0].Type) + "." + name
			}
			nlit := 0
			varWrites := map[types.Object][]token.Pos{} // assignments (not declarations), ++/--, &x of local variables
			noteVarWrite := func(e ast.Expr) {
				for {
					switch x := e.(type) {
					case *ast.ParenExpr:
						e = x.X
						continue
					}
					break
				}
				if id, ok := e.(*ast.Ident); ok {
					if obj, ok := info.Uses[id]; ok {
						varWrites[obj] = append(varWrites[obj], id.Pos())
					}
				}
			}
			capStart := len(caps)
			// remote: the enclosing function literal that runs in another goroutine (nil: none), remoteName its name
			var walk func(n ast.Node, fn string, remote *ast.FuncLit, remoteName string)
			walk = func(root ast.Node, fn string, remote *ast.FuncLit, remoteName string) {
				writes := map[ast.Expr]bool{}
				markW := func(e ast.Expr) {
					for {
						switch x := e.(type) {
						case *ast.ParenExpr:
							e = x.X
							continue
						case *ast.IndexExpr: // m[k] = v writes the map/slice held by the field
							e = x.X
							continue
						case *ast.SliceExpr:
							e = x.X
							continue
						case *ast.StarExpr:
							e = x.X
							continue
						}
						break
					}
					writes[e] = true
				}
				ast.Inspect(root, func(n ast.Node) bool {
					switch x := n.(type) {
					case *ast.GoStmt:
						if fl, ok := x.Call.Fun.(*ast.FuncLit); ok {
							nlit++
							lit := fmt.Sprintf("%s$%d", name, nlit)
							edges = append(edges, edge{"spawn", fn, lit, fset.Position(x.Pos()).String()})
							walk(fl, lit, fl, lit)
							for _, a := range x.Call.Args { // the arguments are evaluated by the caller
								walk(a, fn, remote, remoteName)
							}
							return false
						}
						if cn := calleeName(x.Call.Fun); cn != "" {
							edges = append(edges, edge{"spawn", fn, cn, fset.Position(x.Pos()).String()})
							skipCall[x.Call] = true
						}
						return true
					case *ast.DeferStmt:
						if fl, ok := x.Call.Fun.(*ast.FuncLit); ok {
							nlit++
							lit := fmt.Sprintf("%s$%d", name, nlit)
							edges = append(edges, edge{"call", fn, lit, fset.Position(x.Pos()).String()})
							walk(fl, lit, remote, remoteName)
							return false
						}
					case *ast.SendStmt:
						if fl, ok := x.Value.(*ast.FuncLit); ok { // a closure handed to another goroutine through a channel
							nlit++
							lit := fmt.Sprintf("%s$%d", name, nlit)
							edges = append(edges, edge{"send", fn, lit, fset.Position(x.Pos()).String()})
							walk(x.Chan, fn, remote, remoteName)
							walk(fl, lit, fl, lit)
							return false
						}
					case *ast.FuncLit:
						if n != root { // passed as an argument, stored in a variable, invoked at once: runs in this goroutine
							nlit++
							lit := fmt.Sprintf("%s$%d", name, nlit)
							edges = append(edges, edge{"call", fn, lit, fset.Position(x.Pos()).String()})
							walk(x, lit, remote, remoteName)
							return false
						}
					case *ast.Ident:
						if remote != nil {
							if obj, ok := info.Uses[x].(*types.Var); ok && !obj.IsField() &&
								(obj.Pos() < remote.Pos() || obj.Pos() >= remote.End()) && obj.Pos() >= fd.Pos() && obj.Pos() < fd.End() {
								role := "r"
								if writes[x] {
									role = "w"
								}
								ts := typeStr(obj.Type())
								caps = append(caps, capture{Func: remoteName, Var: x.Name, Kind: kindOf(obj.Type()), Type: ts, Role: role,
									Pos: fset.Position(x.Pos()).String(), obj: obj, lit: remote})
							}
						}
					case *ast.AssignStmt:
						for _, l := range x.Lhs {
							markW(l)
							noteVarWrite(l)
						}
					case *ast.RangeStmt:
						if x.Tok == token.ASSIGN {
							if x.Key != nil {
								noteVarWrite(x.Key)
							}
							if x.Value != nil {
								noteVarWrite(x.Value)
							}
						}
					case *ast.IncDecStmt:
						markW(x.X)
						noteVarWrite(x.X)
					case *ast.UnaryExpr:
						if x.Op == token.AND {
							markW(x.X)
							noteVarWrite(x.X)
						}
					case *ast.CallExpr:
						if cn := calleeName(x.Fun); cn != "" && !skipCall[x] {
							edges = append(edges, edge{"call", fn, cn, fset.Position(x.Pos()).String()})
						}
						// a method value / function of this package handed to a standard-library caller that invokes it
						// synchronously (sync.Once.Do(c.shutdown), sort.Slice, bytes.IndexFunc ...) runs in this goroutine
						if syncCaller(info, x.Fun) {
							for _, a := range x.Args {
								if _, isLit := a.(*ast.FuncLit); isLit {
									continue // literals are call edges anyway
								}
								if cn := calleeName(a); cn != "" {
									edges = append(edges, edge{"call", fn, cn, fset.Position(a.Pos()).String()})
								}
							}
						}
						if id, ok := x.Fun.(*ast.Ident); ok && len(x.Args) > 0 {
							switch id.Name {
							case "clear", "delete", "copy":
								markW(x.Args[0])
							}
						}
					case *ast.KeyValueExpr: // composite literal &T{field: v}: the constructor writes the field
						if id, ok := x.Key.(*ast.Ident); ok {
							if obj, ok := info.Uses[id].(*types.Var); ok && obj.IsField() {
								if tn := fieldOwner(info, id); staticTypes[tn] {
									out = append(out, site{fn, tn, id.Name, "w", fset.Position(id.Pos()).String()})
								}
							}
						}
					case *ast.SelectorExpr:
						sel := info.Selections[x]
						if sel == nil || sel.Kind() != types.FieldVal {
							return true
						}
						tn := structOf(sel.Recv())
						if !staticTypes[tn] {
							return true
						}
						role := "r"
						if writes[x] {
							role = "w"
						}
						out = append(out, site{fn, tn, x.Sel.Name, role, fset.Position(x.Pos()).String()})
					}
					return true
				})
			}
			walk(fd.Body, name, nil, "")
			for i := capStart; i < len(caps); i++ { // immutable: no write outside the closure at or after its creation
				cp := &caps[i]
				cp.Imm = true
				for _, p := range varWrites[cp.obj] {
					if p >= cp.lit.Pos() && p < cp.lit.End() {
						continue // inside the closure: that is the capture's own role
					}
					if p >= cp.lit.Pos() {
						cp.Imm = false
					}
				}
			}
		}
	}
	// distinct (func, type, field, role), stable order
	seen := map[string]bool{}
	var uniq []site
	for _, s := range out {
		if !seen[s.key()] {
			seen[s.key()] = true
			uniq = append(uniq, s)
		}
	}
	sort.Slice(uniq, func(i, j int) bool { return uniq[i].key() < uniq[j].key() })
	seenE := map[string]bool{}
	var uniqE []edge
	for _, e := range edges {
		if !seenE[e.key()] {
			seenE[e.key()] = true
			uniqE = append(uniqE, e)
		}
	}
	sort.Slice(uniqE, func(i, j int) bool { return uniqE[i].key() < uniqE[j].key() })
	seenC := map[string]bool{}
	var uniqC []capture
	for _, c := range caps {
		if c.Role == "w" { // a written variable is listed once, as written
			r := c
			r.Role = "r"
			seenC[r.key()] = true
		}
	}
	for _, c := range caps {
		if !seenC[c.key()] {
			seenC[c.key()] = true
			uniqC = append(uniqC, c)
		}
	}
	sort.Slice(uniqC, func(i, j int) bool { return uniqC[i].key() < uniqC[j].key() })
	return uniq, uniqE, uniqC, decls, nil
}

// syncCaller: the called function belongs to a standard-library package whose higher-order functions call their
// function argument before they return (no goroutine, nothing stored).
func syncCaller(info *types.Info, fun ast.Expr) bool {
	var obj types.Object
	switch x := fun.(type) {
	case *ast.SelectorExpr:
		if sel := info.Selections[x]; sel != nil {
			obj = sel.Obj()
		} else {
			obj = info.Uses[x.Sel]
		}
	case *ast.Ident:
		obj = info.Uses[x]
	}
	if obj == nil || obj.Pkg() == nil {
		return false
	}
	switch obj.Pkg().Path() {
	case "sync", "sort", "slices", "bytes", "strings", "maps":
		return true
	}
	return false
}

// fieldDecl: a field of one of the statically placed structs as declared in the current tree.
type fieldDecl struct{ Struct, Field, Type string }

// typeStr: the declared type of a field / captured variable, robust to renamings: package-qualified by package
// name, without spaces, function types as func/<params>/<results>, and a named NON-struct type of package
// service (a func or channel type given a name) replaced by what it stands for - so that renaming such a type, a
// parameter or a package alias does not change what the field is.
func typeStr(t types.Type) string {
	switch x := t.(type) {
	case *types.Pointer:
		return "*" + typeStr(x.Elem())
	case *types.Slice:
		return "[]" + typeStr(x.Elem())
	case *types.Array:
		return fmt.Sprintf("[%d]%s", x.Len(), typeStr(x.Elem()))
	case *types.Map:
		return "map[" + typeStr(x.Key()) + "]" + typeStr(x.Elem())
	case *types.Chan:
		switch x.Dir() {
		case types.SendOnly:
			return "chan<-" + typeStr(x.Elem())
		case types.RecvOnly:
			return "<-chan" + typeStr(x.Elem())
		}
		return "chan" + typeStr(x.Elem())
	case *types.Signature:
		return fmt.Sprintf("func/%d/%d", x.Params().Len(), x.Results().Len())
	case *types.Named:
		if x.Obj().Pkg() != nil && x.Obj().Pkg().Name() == "service" {
			switch x.Underlying().(type) {
			case *types.Struct, *types.Interface:
				return x.Obj().Name()
			}
			return typeStr(x.Underlying())
		}
	}
	return strings.ReplaceAll(types.TypeString(t, func(p *types.Package) string { return p.Name() }), " ", "")
}

func structOfExpr(e ast.Expr) string {
	switch x := e.(type) {
	case *ast.StarExpr:
		return structOfExpr(x.X)
	case *ast.Ident:
		return x.Name
	}
	return "?"
}

// fieldOwner: the named struct type of package service that declares this field (composite literal keys).
func fieldOwner(info *types.Info, id *ast.Ident) string {
	obj, _ := info.Uses[id].(*types.Var)
	if obj == nil || obj.Pkg() == nil {
		return ""
	}
	scope := obj.Pkg().Scope()
	for _, n := range scope.Names() {
		tn, ok := scope.Lookup(n).(*types.TypeName)
		if !ok {
			continue
		}
		st, ok := tn.Type().Underlying().(*types.Struct)
		if !ok {
			continue
		}
		for i := 0; i < st.NumFields(); i++ {
			if st.Field(i) == obj {
				return tn.Name()
			}
		}
	}
	return ""
}

// attachShape: package attachment (the other server named in the property's observe_at) has no goroutine
// structure to model: one `go conn.run()` per accepted connection, no channels, one sync.Once latch used by the
// connection's own goroutine - every
// connection's state is touched by its own goroutine only.  The shape is re-counted on every run; if it
// changes, the correspondence breaks and a model is due.
func attachShape(dir string) (ngo, nchan, nsync int, err error) {
	fset := token.NewFileSet()
	ents, err := os.ReadDir(dir)
	if err != nil {
		return 0, 0, 0, err
	}
	for _, e := range ents {
		n := e.Name()
		if !strings.HasSuffix(n, ".go") || strings.HasSuffix(n, "_test.go") || n == "verif_hooks.go" {
			continue
		}
		f, perr := parser.ParseFile(fset, filepath.Join(dir, n), nil, 0)
		if perr != nil {
			return 0, 0, 0, perr
		}
		ast.Inspect(f, func(m ast.Node) bool {
			switch x := m.(type) {
			case *ast.GoStmt:
				ngo++
			case *ast.ChanType:
				nchan++
			case *ast.SelectorExpr:
				if id, ok := x.X.(*ast.Ident); ok && (id.Name == "sync" || id.Name == "atomic") {
					nsync++
				}
			}
			return true
		})
	}
	return ngo, nchan, nsync, nil
}

// defaultEventerFresh: does the DEFAULT CustomTerminalEventerFunc of newOptions hand every connection its own
// eventer object?  "true": every return of the function literal stored under that key allocates (&T{...} or
// new(T)); "false": some return yields something that exists before the call (a captured variable ...);
// "" : the shape was not found (no such key with a function literal in newOptions).
func defaultEventerFresh(serviceDir string) string {
	fset := token.NewFileSet()
	f, err := parser.ParseFile(fset, filepath.Join(serviceDir, "option.go"), nil, 0)
	if err != nil {
		return ""
	}
	res := ""
	ast.Inspect(f, func(n ast.Node) bool {
		kv, ok := n.(*ast.KeyValueExpr)
		if !ok {
			return true
		}
		id, ok := kv.Key.(*ast.Ident)
		fl, ok2 := kv.Value.(*ast.FuncLit)
		if !ok || !ok2 || id.Name != "CustomTerminalEventerFunc" {
			return true
		}
		res = "true"
		nret := 0
		ast.Inspect(fl.Body, func(m ast.Node) bool {
			if _, inner := m.(*ast.FuncLit); inner {
				return false
			}
			r, ok := m.(*ast.ReturnStmt)
			if !ok {
				return true
			}
			nret++
			for _, e := range r.Results {
				fresh := false
				switch x := e.(type) {
				case *ast.UnaryExpr:
					_, isLit := x.X.(*ast.CompositeLit)
					fresh = x.Op == token.AND && isLit
				case *ast.CallExpr:
					if fid, ok := x.Fun.(*ast.Ident); ok && fid.Name == "new" {
						fresh = true
					}
				}
				if !fresh {
					res = "false"
				}
			}
			return true
		})
		if nret == 0 {
			res = ""
		}
		return false
	})
	return res
}
